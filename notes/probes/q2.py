import sys, itertools, random, time, warnings, copy
warnings.filterwarnings('ignore')
sys.path.insert(0,'/repo/src')
from pyg_base import *
from pyg_base._pandas import df_slice, df_unslice
import numpy as np, pandas as pd, datetime
D = datetime.datetime; DAY = datetime.timedelta(1); nan=np.nan
def T(f,*a,**k):
    try: return f(*a,**k)
    except Exception as e: return 'EXC %s %s'%(type(e).__name__, str(e)[:120])
days = [D(2020,1,1)+DAY*i for i in range(12)]
ub = [D(2020,1,3), D(2020,1,6), D(2020,1,9), D(2020,1,12)]
dfs = [pd.Series([100.*(k+1)+i for i in range(12)], days)[:u] for k,u in enumerate(ub)]
dfs[1] = dfs[1].drop(days[4])  # gap
for n in (1,2,3):
    r = T(df_slice, dfs, None, ub, '(]', n)
    print('n=',n,'\n', r)
r2 = df_slice(dfs, ub=ub, n=2)
un = T(df_unslice, r2, ub)
print({k.day: list(v.values) for k,v in un.items()} if not isinstance(un,str) else un)
again = T(df_slice, list(un.values()), None, ub, '(]', 2) if not isinstance(un,str) else None
print('roundtrip equal', eq(again, r2) if again is not None else None)
# decreasing bounds
r = T(df_slice, dfs[::-1], None, ub[::-1], '(]', 1); print('decreasing\n', r)
# lb list
r = T(df_slice, dfs, ub, None, '(]', 1); print('lb list\n', r)
# bounds coincide / empty series
e = [pd.Series([], [], dtype=float)] + dfs[1:]
print(T(df_slice, e, None, ub, '(]', 1))
