import sys, itertools, random, time, warnings, copy, re
warnings.filterwarnings('ignore')
sys.path.insert(0,'/repo/src')
from pyg_base import *
import numpy as np, pandas as pd, datetime
D = datetime.datetime
nan = np.nan
def T(f,*a,**k):
    try: return f(*a,**k)
    except Exception as e: return 'EXC %s %s'%(type(e).__name__, str(e)[:100])
# C01 constructions
print(T(dictable, [dict(a=1,b=2), dict(a=3,c=4)]))
print(dict(dictable(a=[1,2,3], b=5, c=[6])), len(dictable()), dictable().shape, len(dictable(a=[])), dictable(a=[]).shape, dictable(a=[],b=[]).keys())
print(T(dictable, a=[1,2,3], b=[1,2]))
d = dictable(a=[1,2,3], b=[4,5,6])
print(T(d.__setitem__, 'c', [1,2]), dict(d))
d['c'] = 7; d['e'] = [8]; print(dict(d))
e = dictable(a=[], b=[]); print('empty assign', T(e.__setitem__,'c',[1,2]), dict(e), T(len, e))
e = dictable(a=[], b=[]); print('empty assign scalar', T(e.__setitem__,'c',5), dict(e), T(len, e))
m = d[[False,False,False]]; print('mask empty', dict(m), m.shape); print(T(m.__setitem__,'z',1), dict(m), T(len,m)); 
m = d[[False,False,False]]; r = T(m.__setitem__, 'z', [1,2]); print(r, dict(m), T(len,m))
print(dict(d[1:]), dict(d[[2,0]]), d[0], dict(d[['a','c']]), d['a','b'], dict(d[lambda a,b: a+b] if False else {}), d[lambda a,b:a+b])
print(dict(d + dictable(a=[9], z=['q'])), dict(d + dict(a=10)), dict(dictable.concat(d[:0], d)), dict(dictable.concat(d, d[:0])))
print('concat empty w cols', dict(dictable(a=[],q=[]) + d))
x = dictable(a=[1,2]); y = x + dictable(b=[3]); print(dict(y), list(y.keys()))
# aliasing
d1 = dictable(a=[1,2,3]); d2 = d1[:]; d2['a'][0] = 99; print('slice alias', d1.a)
d1 = dictable(a=[1,2,3]); d2 = d1.copy(); d2['b'] = 1; print('copy', dict(d1)); d2.a[0] = 99; print('copy alias lists', d1.a)
d1 = dictable(a=[1,2,3]); d2 = d1.inc(); d2.a[0]=99; print('inc() alias', d1.a)
d1 = dictable(a=[1,2,3]); d2 = d1 + None; print('add None is self', d2 is d1)
d1 = dictable(a=[1,2,3]); d2 = d1.do(lambda v: v+1); print(dict(d1), dict(d2))
d1 = dictable(a=[1,2,3]); d2 = d1(b = lambda a: a*2); print(dict(d1), dict(d2))
d1 = dictable(a=[1,2,3]); d2 = d1.relabel(a='z'); print(dict(d1), dict(d2)); d2.z[0] = 5; print(d1.a)
d1 = dictable(a=[1,2,3]); d3=dictable(a=[4]); d2 = dictable.concat(d1,d3); d2.a[0]=77; print(d1.a, d3.a)
d1 = dictable(a=[1,2,3]); d2 = dictable.concat(d1); print('concat single is same', d2 is d1)
# C06
t = dictable(x=[1,2,None,nan,'a',2.0,float('nan')], y=[1,2,3,4,5,6,7])
for cond in [dict(x=1), dict(x=[1,2]), dict(x=None), dict(x=nan), dict(x=re.compile('a')), dict(x=2,y=6), dict(x=[None]), dict(x=[nan]), dict(x=[float('nan')])]:
    i = t.inc(**cond); e = t.exc(**cond)
    print(cond, i.y, e.y, list(i.keys()), list(e.keys()))
print(T(t.inc, lambda x: x==2).y, T(t.exc, lambda x: x==2).y)
print(t.inc(dict(x=1)).y, t.exc(dict(x=1)).y, T(t.find_y, x=1), T(t.find_y, x=2), T(t.find_y, x=55))
u = dictable(x=[1,1], y=[3,3.0]); print(T(u.find_y, x=1))
