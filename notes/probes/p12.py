import sys, itertools, random, time, warnings, copy, re, inspect
warnings.filterwarnings('ignore')
sys.path.insert(0,'/repo/src')
from pyg_base import *
from pyg_base._inspect import getcallargs, call_with_callargs, getargspec
from pyg_base._decorators import kwargs_support, try_none, try_back, try_zero
from pyg_base._cache import cache
import numpy as np, pandas as pd, datetime
def T(f,*a,**k):
    try: return f(*a,**k)
    except Exception as e: return 'EXC %s %s'%(type(e).__name__, str(e)[:100])
# C18 getcallargs vs inspect on all signatures
names = ['a','b','c','d']
bad = 0; total=0
for npos in range(0,5):
  for ndef in range(0,npos+1):
    for va in (False,True):
      for vk in (False,True):
        params = []
        for i in range(npos):
            params.append(names[i] + ('=%i'%(100+i) if i >= npos-ndef else ''))
        if va: params.append('*args')
        if vk: params.append('**kw')
        src = 'lambda %s: (%s)'%(', '.join(params), ', '.join(names[:npos] + (['args'] if va else []) + (['tuple(sorted(kw.items()))'] if vk else []) + ['0']))
        f = eval(src)
        # all calls: k positional (0..npos+2), subset of remaining names by keyword, extra keyword maybe
        for kpos in range(0, npos+3):
            for kwnames in itertools.chain.from_iterable(itertools.combinations(names[:npos]+['zz'], r) for r in range(0, npos+2)):
                args = tuple(range(1,kpos+1)); kwargs = {n: 10+i for i,n in enumerate(kwnames)}
                try: exp = inspect.getcallargs(f, *args, **kwargs); valid=True
                except TypeError: valid=False
                if not valid: continue
                total+=1
                got = T(getcallargs, f, *args, **kwargs)
                if got != exp:
                    bad+=1
                    if bad<8: print('getcallargs', src, args, kwargs, got, exp)
                r1 = f(*args, **kwargs); r2 = T(call_with_callargs, f, exp)
                if r1 != r2:
                    bad+=1
                    if bad<8: print('call_with_callargs', src, args, kwargs, r1, r2)
                for W in (try_none, kwargs_support, cache, try_back, loop(list)):
                    w = W(f)
                    if W is try_back and kpos==0 and not kwargs: continue
                    r3 = T(w, *args, **kwargs)
                    if r3 != r1:
                        bad+=1
                        if bad<14: print('wrap', W, src, args, kwargs, r1, r3)
                    if getargspec(w) != inspect.getfullargspec(f) and dict(getargspec(w)) != inspect.getfullargspec(f)._asdict():
                        bad+=1
                        if bad<14: print('spec', W, src, getargspec(w), inspect.getfullargspec(f))
print('C18 total', total, 'bad', bad)
f = lambda a, b=1: a+b
print(try_none(try_none(f)) == try_none(f), kwargs_support(try_none(kwargs_support(f))) == kwargs_support(try_none(f)), try_none(kwargs_support(try_none(f))) == try_none(kwargs_support(f)))
calls = []
@cache
def g(a, b=2, *args, **kw):
    calls.append((a,b,args,kw)); return len(calls)
print(g(1), g(1), g(1,2), g(a=1), g(1,b=2), g([1]), g([1]), g({'x':[1]}), g({'x':[1]}), g(1, k={1,2}), g(1, k={1,2}), len(calls))
print(T(kwargs_support(lambda a, b: (a,b)), 1, b=2, c=3), T(kwargs_support(lambda a, **kw: (a,kw)), 1, b=2, c=3))
