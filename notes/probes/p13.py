import sys, itertools, random, time, warnings, copy
warnings.filterwarnings('ignore')
sys.path.insert(0,'/repo/src')
from pyg_base import *
from pyg_base._perdictable import join as pjoin
import numpy as np, pandas as pd, datetime
D = datetime.datetime
def T(f,*a,**k):
    try: return f(*a,**k)
    except Exception as e: return 'EXC %s %s'%(type(e).__name__, str(e)[:100])
from pyg_base._sort import cmp
random.seed(17)
V = [None, 0, 1, 1.0, 2, 'a', 'b', D(2000,1,1)]
bad=0
def rows(d): return [tuple(sorted(r.items())) for r in d]
for trial in range(1500):
    n = random.randint(1,7)
    t = dictable(k=[random.choice(V) for _ in range(n)], j=[random.choice([0,1,'x']) for _ in range(n)], v=list(range(n)), w=[random.choice(V) for _ in range(n)])
    by = random.choice([('k',),('k','j'),('j',)])
    t0 = copy.deepcopy(dict(t))
    lb = T(t.listby, *by)
    if isinstance(lb,str): bad+=1; print('listby EXC', lb, dict(t)); continue
    keys = lb[by] if len(by)>1 else [(x,) for x in lb[by[0]]]
    # distinct keys
    for a,b in itertools.combinations(keys,2):
        if cmp(a,b)==0: bad+=1; print('dup key', a, b, dict(t)); break
    # within group order and unlist
    ul = T(lb.unlist)
    st = T(t.sort, *by)
    if isinstance(ul,str) or isinstance(st,str) or rows(ul)!=rows(st):
        bad+=1
        if bad<6: print('unlist!=sort', by, dict(t), ul if isinstance(ul,str) else rows(ul), st if isinstance(st,str) else rows(st))
    gb = T(t.groupby, *by)
    if isinstance(gb,str): bad+=1; print('groupby', gb); continue
    if sum(len(g) for g in gb.grp) != len(t): bad+=1; print('sizes')
    ug = T(gb.ungroup)
    if isinstance(ug,str) or sorted(map(repr,rows(ug))) != sorted(map(repr,rows(t))):
        bad+=1
        if bad<6: print('ungroup', by, dict(t), ug if isinstance(ug,str) else dict(ug))
    if dict(t)!=t0: bad+=1; print('operand changed')
print('C11 bad', bad)
# pivot
t = dictable(x=[1,1,2,2,2,'a'], y=['p','q','p','p',None,'q'], z=[1,2,3,4,5,6])
pv = t.xyz('x','y','z', last); print(dict(pv)); print(T(lambda: dict(pv.unpivot('x','y','z'))))
# C16
u = ulist([3,1,3,2,1]); print(u, u+4, u+[4,1,5], u|[9,3], u-1, u-[1,3,7], u&[2,3,8], u&3, u&8, type(u+4), type(u-1), type(u&[1]))
d = Dict(a=1,b=2,c=3); 
print(d-'a', d-['a','z'], d&['a','z'], d[['a','b']], d['a','b'], type(d-'a'), type(d&['a']), type(d[['a']]), d+dict(b=5,z=6), d.relabel(a='A'), type(d.relabel(a='A')), d)
print(T(lambda: d[['a','zz']]), (d-'a').keys()==d.keys()-'a', d.a, T(lambda: d.zz))
print(Dict(a=1)(c=lambda a,b: a+b, b=lambda a: a+1), Dict(a=1)(b=lambda a: a+1, c=lambda a,b: a+b), T(Dict(a=1), b=lambda c: c, c=lambda b: b), T(Dict(a=1), b=lambda c: c, c=lambda b: b, e=lambda a:a))
# C20
f = lambda a, b: a+b
calls=[]
def g(a,b): calls.append((a,b)); return a+b
p = perdictable(g, on='key')
print(p(a=1,b=2))
A = dictable(key=['x','y','z'], a=[1,2,3]); B = dictable(key=['y','z','w'], b=[10,20,30])
r = p(a=A,b=B); print(dict(r), calls); calls.clear()
r = p(a=A,b=5); print(dict(r), calls); calls.clear()
data = dictable(key=['y','z'], data=[100,200]); exp = dictable(key=['y','z'], expiry=[D(2000,1,1), D(2999,1,1)])
r = p(a=A,b=B,data=data,expiry=exp); print(dict(r), calls); calls.clear()
exp = dictable(key=['y','z'], expiry=[D(2000,1,1), None]); r = p(a=A,b=B,data=data,expiry=exp); print(dict(r), calls); calls.clear()
print(dict(pjoin(dict(a=A,b=B), on='key')), dict(pjoin(dict(a=A,b=B), on='key', defaults=dict(b=0))), dict(pjoin(dict(a=A,b=B), on='key', defaults=dict(a=None,b=0))))
