import sys, itertools, random
sys.path.insert(0,'/repo/src')
from pyg_base import *
import numpy as np, pandas as pd, datetime
from pyg_base._sort import cmp, sort, Cmp
D = datetime.datetime
U = [None, True, False, 0, 1, -1, 2, 1.0, 1.5, -0.5, float('nan'), float('nan'), float('inf'), float('-inf'), '', 'a', 'b', 'aa', D(2000,1,1), D(2001,1,1), datetime.date(2000,1,1), (), (1,), (1,2), (2,1), [], [1], [1,'a'], ['a',1], {}, {'a':1}, {'a':2}, {'b':1}, np.int64(1), np.float64(1.5), np.float64('nan'), (None,1), (1,None), ('a',1), (1.0,), (float('nan'),), [float('nan')]]
n = len(U)
C = [[None]*n for _ in range(n)]
exc = []
for i in range(n):
    for j in range(n):
        try: C[i][j] = cmp(U[i],U[j])
        except Exception as e:
            C[i][j] = None; exc.append((repr(U[i]),repr(U[j]),type(e).__name__, str(e)[:60]))
print('exceptions', len(exc)); 
for e in exc[:30]: print(e)
asym = [(repr(U[i]),repr(U[j]),C[i][j],C[j][i]) for i in range(n) for j in range(n) if C[i][j] is not None and C[j][i] is not None and C[i][j] != -C[j][i]]
print('antisym fails', len(asym)); print(asym[:20])
tr = []
for i in range(n):
    for j in range(n):
        for k in range(n):
            a,b,c = C[i][j],C[j][k],C[i][k]
            if None in (a,b,c): continue
            if a<=0 and b<=0 and not c<=0: tr.append((repr(U[i]),repr(U[j]),repr(U[k]),a,b,c))
print('trans fails', len(tr)); print(tr[:20])
vals = set(v for row in C for v in row); print('values', vals)
# sort
S = [None, 0, 1, -1, 2, 1.0, 1.5, -0.5, float('nan'), float('nan'), '', 'a', 'b', 'aa', D(2000,1,1), D(2001,1,1)]
random.seed(1)
bad=0
for t in range(3000):
    xs = [random.choice(S) for _ in range(random.randint(0,7))]
    try:
        ys = sort(xs)
    except Exception as e:
        print('sort EXC', xs, e); bad+=1; continue
    ok = all(cmp(ys[i],ys[i+1])<=0 for i in range(len(ys)-1))
    if not ok:
        bad+=1
        if bad<10: print('sort not nondecreasing', xs, ys)
print('bad sorts', bad)
bad=0
for t in range(3000):
    k = random.randint(1,3)
    xs = [tuple(random.choice(S) for _ in range(k)) for _ in range(random.randint(0,6))]
    try:
        ys = sort(xs)
    except Exception as e:
        print('sort EXC', xs, e); bad+=1; continue
    ok = all(cmp(ys[i],ys[i+1])<=0 for i in range(len(ys)-1))
    if not ok:
        bad+=1
        if bad<10: print('tuple sort not nondecreasing', xs, ys)
print('bad tuple sorts', bad)
