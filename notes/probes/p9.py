import sys, itertools, random, time, warnings
warnings.filterwarnings('ignore')
sys.path.insert(0,'/repo/src')
from pyg_base import *
import numpy as np, pandas as pd, datetime
D = datetime.datetime; DAY = datetime.timedelta(1)
nan = np.nan
def T(f,*a,**k):
    try: return f(*a,**k)
    except Exception as e: return 'EXC %s %s'%(type(e).__name__, str(e)[:80])
random.seed(11)
bad=0
# C13 single slice
for trial in range(3000):
    n = random.randint(0,7)
    days = sorted(random.sample(range(0,14), n))
    idx = [D(2020,1,1)+DAY*i for i in days]
    s = pd.Series([float(i) for i in days], idx, dtype=float)
    lb = random.choice([None]+[D(2020,1,1)+DAY*i - DAY/2*random.choice([0,1]) for i in range(-1,15)])
    ub = random.choice([None]+[D(2020,1,1)+DAY*i - DAY/2*random.choice([0,1]) for i in range(-1,15)])
    oc = random.choice(['()','(]','[)','[]'])
    r = T(df_slice, s, lb, ub, oc)
    exp = [t for t in idx if (lb is None or (t>=lb if oc[0]=='[' else t>lb)) and (ub is None or (t<=ub if oc[1]==']' else t<ub))]
    if isinstance(r,str) or list(r.index)!=exp or list(r.values)!=[float((t-D(2020,1,1)).days) for t in exp]:
        bad+=1
        if bad<10: print('slice', days, lb, ub, oc, r if isinstance(r,str) else list(r.index.day), [t.day for t in exp])
print('bad slice', bad)
# time of day
idx = [D(2020,1,1)+datetime.timedelta(hours=h) for h in range(0,72,3)]
s = pd.Series(range(len(idx)), idx)
for lb,ub in [(datetime.time(6),datetime.time(12)), (datetime.time(18),datetime.time(6)), (None, datetime.time(6)), (datetime.time(6), None)]:
    for oc in ['()','(]','[)','[]']:
        r = T(df_slice, s, lb, ub, oc)
        print(lb,ub,oc, sorted(set(r.index.hour)) if not isinstance(r,str) else r)
