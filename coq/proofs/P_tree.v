(* C15 - proofs about M_tree: flatten / rebuild, path insertion = recursive merge, ownership frame *)
From Coq Require Import ZArith NArith List Bool String Lia.
From PB Require Import model.M_eq model.M_tree proofs.P_eq proofs.P_eq_py.
Import ListNotations.

(* ------------------------------------------------------------ nested induction principles *)
Section tree_ind_nested.
  Variable P : tree -> Prop.
  Hypothesis HLeaf : forall v, P (Leaf v).
  Hypothesis HNode : forall o c kids, Forall (fun kv => P (snd kv)) kids -> P (Node o c kids).
  Fixpoint tree_ind' (t : tree) : P t :=
    match t with
    | Leaf v => HLeaf v
    | Node o c kids =>
        HNode o c kids
          ((fix go (l : list (string * tree)) : Forall (fun kv => P (snd kv)) l :=
              match l with
              | [] => Forall_nil _
              | kv :: r => Forall_cons kv (match kv as p return P (snd p) with (_, s) => tree_ind' s end) (go r)
              end) kids)
    end.
End tree_ind_nested.

Section ptree_ind_nested.
  Variable P : ptree -> Prop.
  Hypothesis HLeaf : forall v, P (PLeaf v).
  Hypothesis HNode : forall kids, Forall (fun kv => P (snd kv)) kids -> P (PNode kids).
  Fixpoint ptree_ind' (t : ptree) : P t :=
    match t with
    | PLeaf v => HLeaf v
    | PNode kids =>
        HNode kids
          ((fix go (l : list (string * ptree)) : Forall (fun kv => P (snd kv)) l :=
              match l with
              | [] => Forall_nil _
              | kv :: r => Forall_cons kv (match kv as p return P (snd p) with (_, s) => ptree_ind' s end) (go r)
              end) kids)
    end.
End ptree_ind_nested.

Fixpoint twf (t : tree) : bool :=
  match t with
  | Leaf _ => true
  | Node _ _ kids => nodup_keys kids && forallb (fun kv => twf (snd kv)) kids
  end.

(* ------------------------------------------------------------ association lists *)
Lemma lookup_map {A B} (f : A -> B) k (l : list (string * A)) :
  lookup k (map (fun kv => (fst kv, f (snd kv))) l) = option_map f (lookup k l).
Proof. induction l as [|h t IH]; simpl; [reflexivity|]. destruct (String.eqb k (fst h)); [reflexivity | exact IH]. Qed.

Lemma kset_map {A B} (f : A -> B) k x (l : list (string * A)) :
  map (fun kv => (fst kv, f (snd kv))) (kset k x l) = kset k (f x) (map (fun kv => (fst kv, f (snd kv))) l).
Proof. induction l as [|h t IH]; simpl; [reflexivity|]. destruct (String.eqb k (fst h)); simpl; [reflexivity | rewrite IH; reflexivity]. Qed.

Lemma lookup_kset_same {A} k (x : A) l : lookup k (kset k x l) = Some x.
Proof.
  induction l as [|h t IH]; simpl; [rewrite String.eqb_refl; reflexivity|].
  destruct (String.eqb k (fst h)) eqn:E; simpl; [rewrite String.eqb_refl; reflexivity | rewrite E; exact IH].
Qed.

Lemma kset_kset {A} k (x y : A) l : kset k x (kset k y l) = kset k x l.
Proof.
  induction l as [|h t IH]; simpl; [rewrite String.eqb_refl; reflexivity|].
  destruct (String.eqb k (fst h)) eqn:E; simpl; [rewrite String.eqb_refl; reflexivity | rewrite E, IH; reflexivity].
Qed.

Lemma kset_same {A} k (x : A) l : lookup k l = Some x -> kset k x l = l.
Proof.
  induction l as [|h t IH]; simpl; [discriminate|]. destruct (String.eqb k (fst h)) eqn:E.
  - intros H. injection H as <-. apply String.eqb_eq in E. subst. destruct h; reflexivity.
  - intros H. rewrite (IH H). reflexivity.
Qed.

Lemma kset_absent {A} k (x : A) l : has_key k l = false -> kset k x l = l ++ [(k, x)].
Proof.
  induction l as [|h t IH]; simpl; [reflexivity|]. intros H. apply orb_false_iff in H as [H1 H2].
  rewrite H1, (IH H2). reflexivity.
Qed.

Lemma has_key_app {A} k (l l' : list (string * A)) : has_key k (l ++ l') = has_key k l || has_key k l'.
Proof. unfold has_key. apply existsb_app. Qed.

(* ------------------------------------------------------------ keys and values are the projections of items *)
Lemma tree_keys_items t : tree_keys t = map fst (tree_items t).
Proof.
  induction t using tree_ind'; simpl; [reflexivity|].
  induction H as [|kv r Hkv Hr IH]; simpl; [reflexivity|].
  rewrite map_app, IH, Hkv, !map_map. reflexivity.
Qed.
Lemma tree_values_items t : tree_values t = map snd (tree_items t).
Proof.
  induction t using tree_ind'; simpl; [reflexivity|].
  induction H as [|kv r Hkv Hr IH]; simpl; [reflexivity|].
  rewrite map_app, IH, Hkv, !map_map. simpl. reflexivity.
Qed.

(* ------------------------------------------------------------ tree_getitem on every listed path *)
Lemma getitem_items t : twf t = true -> forall p v, In (p, v) (tree_items t) -> tree_getitem t p = Some (Leaf v).
Proof.
  induction t using tree_ind'; intros W p v' I.
  - simpl in I. destruct I as [I|[]]. injection I as <- <-. reflexivity.
  - simpl in W. apply andb_true_iff in W as [ND W]. simpl in I. apply in_flat_map in I as (kv & Ikv & I).
    apply in_map_iff in I as (it & E & Iit). injection E as <- <-.
    simpl. destruct kv as [k s]. simpl in *. rewrite (lookup_In _ _ _ ND Ikv).
    rewrite Forall_forall in H. apply (H (k, s) Ikv).
    + rewrite forallb_forall in W. apply (W (k, s) Ikv).
    + destruct it; exact Iit.
Qed.

(* ------------------------------------------------------------ ownership frame (repaired code, cow = true) *)
Lemma setitem_deep cow base ign k p v own cls kids : p <> [] ->
  setitem cow base ign (k :: p) v (Node own cls kids) =
  match lookup k kids with
  | Some (Node o c ks) =>
      if cow then (Node own cls (kset k (fst (setitem cow base ign p v (Node true c ks))) kids),
                   negb own || snd (setitem cow base ign p v (Node true c ks)))
      else (Node own cls (kset k (fst (setitem cow base ign p v (Node o c ks))) kids),
            snd (setitem cow base ign p v (Node o c ks)))
  | _ => (Node own cls (kset k (fst (setitem cow base ign p v (Node true base []))) kids),
          negb own || snd (setitem cow base ign p v (Node true base [])))
  end.
Proof. destruct p as [|k' rest]; [contradiction|]. intros _. reflexivity. Qed.

Lemma setitem_own base ign p : forall v c ks,
  exists ks', setitem true base ign p v (Node true c ks) = (Node true c ks', false).
Proof.
  induction p as [|k p IH]; intros v c ks; [eexists; reflexivity|].
  destruct p as [|k' rest].
  - simpl. destruct (lookup k ks); [destruct (in_model v ign)|]; eexists; reflexivity.
  - rewrite setitem_deep by discriminate. destruct (lookup k ks) as [[l|o c' ks0]|].
    + destruct (IH v base []) as (ks' & E). rewrite E. eexists; reflexivity.
    + destruct (IH v c' ks0) as (ks' & E). rewrite E. eexists; reflexivity.
    + destruct (IH v base []) as (ks' & E). rewrite E. eexists; reflexivity.
Qed.

Lemma set_all_own base ign items : forall c ks r w,
  set_all true base ign items (Node true c ks, false) = Some (r, w) -> w = false /\ exists ks', r = Node true c ks'.
Proof.
  induction items as [|it rest IH]; intros c ks r w H; simpl in H.
  - injection H as <- <-. split; [reflexivity | eexists; reflexivity].
  - destruct (fst it) eqn:E; [discriminate|]. rewrite <- E in H.
    destruct (setitem_own base ign (fst it) (snd it) c ks) as (ks' & S). rewrite S in H. simpl in H.
    exact (IH _ _ _ _ H).
Qed.

Theorem update_frame t u ign r w : is_node t = true -> tree_update true t u ign = Some (r, w) -> w = false.
Proof.
  unfold tree_update, items_to_tree. intros N H. destruct (nodup_paths _); [|discriminate].
  destruct t as [|o c ks]; [discriminate|]. simpl in H. apply set_all_own in H. tauto.
Qed.

Theorem table_frame t pat rows r w : is_node t = true -> table_to_tree true (Some t) pat rows = Some (r, w) -> w = false.
Proof.
  unfold table_to_tree. intros N H. destruct (rows_items rows pat); [|discriminate].
  destruct t as [|o c ks]; [discriminate|]. simpl in H. apply set_all_own in H. tauto.
Qed.

Definition child0 (k : string) (kt : list (string * ptree)) : ptree :=
  match lookup k kt with Some (PNode ks) => PNode ks | _ => PNode [] end.

Lemma pset_deep ign k p v kt : p <> [] ->
  pset ign (k :: p) v (PNode kt) = PNode (kset k (pset ign p v (child0 k kt)) kt).
Proof. destruct p as [|k' rest]; [contradiction|]. intros _. reflexivity. Qed.

(* ------------------------------------------------------------ path insertion on trees = on shapes *)
Lemma shape_setitem cow base ign p : forall v t,
  shape_of (fst (setitem cow base ign p v t)) = pset ign p v (shape_of t).
Proof.
  induction p as [|k p IH]; intros v t; destruct t as [l|o c kids]; try reflexivity.
  destruct p as [|k' rest].
  - simpl. rewrite lookup_map. destruct (lookup k kids); simpl; [destruct (in_model v ign); simpl|]; rewrite ?kset_map; reflexivity.
  - rewrite setitem_deep by discriminate. change (shape_of (Node o c kids)) with (PNode (map (fun kv => (fst kv, shape_of (snd kv))) kids)).
    rewrite pset_deep by discriminate. unfold child0. rewrite lookup_map.
    destruct (lookup k kids) as [[l|o' c' ks0]|]; cbn [option_map shape_of].
    + cbn [fst shape_of]. rewrite kset_map, IH. reflexivity.
    + destruct cow; cbn [fst shape_of]; rewrite kset_map, IH; reflexivity.
    + cbn [fst shape_of]. rewrite kset_map, IH. reflexivity.
Qed.

Lemma tree_items_shape t : tree_items t = pitems (shape_of t).
Proof.
  induction t using tree_ind'; simpl; [reflexivity|].
  induction H as [|kv r Hkv Hr IH]; simpl; [reflexivity|]. rewrite IH, Hkv. reflexivity.
Qed.

Lemma set_all_shape cow base ign items : forall t0 w0 r w,
  set_all cow base ign items (t0, w0) = Some (r, w) -> shape_of r = pset_all ign items (shape_of t0).
Proof.
  induction items as [|it rest IH]; intros t0 w0 r w H; simpl in H.
  - injection H as <- <-. reflexivity.
  - destruct (fst it) eqn:E; [discriminate|]. rewrite <- E in H. apply IH in H. rewrite H.
    unfold pset_all. simpl. rewrite shape_setitem. reflexivity.
Qed.

Lemma set_all_some cow base ign items : Forall (fun it => fst it <> []) items ->
  forall acc, exists r, set_all cow base ign items acc = Some r.
Proof.
  induction 1 as [|it rest Hit Hr IH]; intros acc; simpl; [eexists; reflexivity|].
  destruct (fst it) eqn:E; [contradiction|]. apply IH.
Qed.

Lemma node_items_nonempty_paths o c kids : Forall (fun it => fst it <> []) (tree_items (Node o c kids)).
Proof.
  apply Forall_forall. intros it I. simpl in I. apply in_flat_map in I as (kv & _ & I).
  apply in_map_iff in I as (it' & <- & _). simpl. discriminate.
Qed.

(* ------------------------------------------------------------ flatten-then-insert = recursive merge *)
Definition kids_of (t : ptree) : list (string * ptree) := match t with PNode k => k | PLeaf _ => [] end.
Definition mstep (ign : list val) (acc : list (string * ptree)) (kv : string * ptree) : list (string * ptree) :=
  match snd kv with
  | PLeaf v =>
      match lookup (fst kv) acc with
      | Some _ => if in_model v ign then acc else kset (fst kv) (PLeaf v) acc
      | None => kset (fst kv) (PLeaf v) acc
      end
  | PNode _ =>
      kset (fst kv) (pmerge ign (match lookup (fst kv) acc with Some s => s | None => PNode [] end) (snd kv)) acc
  end.

Lemma pmerge_node ign t ku : pmerge ign t (PNode ku) = PNode (fold_left (mstep ign) ku (kids_of t)).
Proof. destruct t; reflexivity. Qed.

Lemma pset_node ign p v kids : exists ks, pset ign p v (PNode kids) = PNode ks.
Proof.
  destruct p as [|k [|k' rest]]; simpl; try (eexists; reflexivity).
  destruct (lookup k kids); [destruct (in_model v ign)|]; eexists; reflexivity.
Qed.

Lemma pset_all_node ign its : forall kids, exists ks, pset_all ign its (PNode kids) = PNode ks.
Proof.
  induction its as [|it r IH]; intros kids; [eexists; reflexivity|].
  unfold pset_all. simpl. destruct (pset_node ign (fst it) (snd it) kids) as (ks & E). rewrite E. apply IH.
Qed.

Lemma child0_kset k c kt : (exists ks, c = PNode ks) -> child0 k (kset k c kt) = c.
Proof. intros (ks & ->). unfold child0. rewrite lookup_kset_same. reflexivity. Qed.

Lemma pset_all_cons ign it r t : pset_all ign (it :: r) t = pset_all ign r (pset ign (fst it) (snd it) t).
Proof. reflexivity. Qed.

Lemma pset_all_prefix ign k its : its <> [] -> Forall (fun it => fst it <> []) its -> forall kt,
  pset_all ign (map (fun it => (k :: fst it, snd it)) its) (PNode kt) =
  PNode (kset k (pset_all ign its (child0 k kt)) kt).
Proof.
  intros NE F. induction F as [|it r Hit Hr IH]; [contradiction|]. intros kt.
  cbn [map]. rewrite pset_all_cons. cbn [fst snd]. rewrite (pset_deep _ _ _ _ _ Hit).
  destruct r as [|it' r'].
  - reflexivity.
  - rewrite IH by discriminate. rewrite kset_kset.
    assert (C : exists ks, pset ign (fst it) (snd it) (child0 k kt) = PNode ks).
    { unfold child0. destruct (lookup k kt) as [[|ks0]|]; apply pset_node. }
    rewrite (child0_kset _ _ _ C). reflexivity.
Qed.

Lemma pitems_node_paths kids : Forall (fun it => fst it <> []) (pitems (PNode kids)).
Proof.
  apply Forall_forall. intros it I. simpl in I. apply in_flat_map in I as (kv & _ & I).
  apply in_map_iff in I as (it' & <- & _). simpl. discriminate.
Qed.

Lemma pitems_nonempty t : pfull t = true -> t <> PNode [] -> pitems t <> [].
Proof.
  induction t using ptree_ind'; intros F N; [discriminate|].
  destruct kids as [|kv r]; [contradiction|]. simpl in F. apply andb_true_iff in F as [F1 _].
  inversion H as [|? ? Hkv Hr]; subst. simpl.
  assert (X : pitems (snd kv) <> []).
  { destruct (snd kv) as [v|[|kv' r']] eqn:E; [discriminate | discriminate | apply Hkv; [exact F1 | discriminate]]. }
  destruct (pitems (snd kv)); [contradiction | discriminate].
Qed.

Lemma pset_all_app ign a b t : pset_all ign (a ++ b) t = pset_all ign b (pset_all ign a t).
Proof. unfold pset_all. apply fold_left_app. Qed.

Lemma insert_is_merge ign u : forall ku kt, u = PNode ku -> pfull u = true ->
  pset_all ign (pitems u) (PNode kt) = PNode (fold_left (mstep ign) ku kt).
Proof.
  induction u using ptree_ind'; intros ku kt E F; [discriminate|]. injection E as <-.
  revert kt F. induction H as [|kv r Hkv Hr IH]; intros kt F; [reflexivity|].
  simpl in F. apply andb_true_iff in F as [F1 F2].
  cbn [pitems flat_map]. rewrite pset_all_app. cbn [fold_left].
  assert (S : pset_all ign (map (fun it => (fst kv :: fst it, snd it)) (pitems (snd kv))) (PNode kt) = PNode (mstep ign kt kv)).
  { unfold mstep. destruct (snd kv) as [v|ks] eqn:E.
    - unfold pset_all. simpl. destruct (lookup (fst kv) kt); [destruct (in_model v ign)|]; reflexivity.
    - destruct ks as [|kv' ks']; [discriminate|].
      rewrite pset_all_prefix; [| apply pitems_nonempty; [exact F1 | discriminate] | apply pitems_node_paths].
      f_equal. f_equal. rewrite pmerge_node.
      unfold child0. destruct (lookup (fst kv) kt) as [[v|ks0]|]; simpl; apply (Hkv (kv' :: ks')); auto. }
  rewrite S. apply IH. exact F2.
Qed.

Theorem pset_all_is_pmerge ign t u : (exists ku, u = PNode ku) -> (exists kt, t = PNode kt) -> pfull u = true ->
  pset_all ign (pitems u) t = pmerge ign t u.
Proof.
  intros (ku & ->) (kt & ->) F. rewrite pmerge_node. apply (insert_is_merge ign (PNode ku) ku kt eq_refl F).
Qed.

(* ------------------------------------------------------------ no duplicate paths in the flattening of a well-formed tree *)
Lemma path_eqb_refl p : path_eqb p p = true.
Proof. unfold path_eqb. induction p; simpl; [reflexivity | rewrite String.eqb_refl; exact IHp]. Qed.

Lemma nodup_paths_app l1 l2 :
  nodup_paths (l1 ++ l2) = nodup_paths l1 && nodup_paths l2 && forallb (fun p => negb (existsb (path_eqb p) l2)) l1.
Proof.
  induction l1 as [|p t IH]; simpl; [rewrite andb_true_r; reflexivity|].
  rewrite existsb_app, IH, negb_orb.
  destruct (existsb (path_eqb p) t), (existsb (path_eqb p) l2), (nodup_paths t), (nodup_paths l2); simpl; reflexivity.
Qed.

Lemma existsb_cons_map k p l : existsb (path_eqb (k :: p)) (map (cons k) l) = existsb (path_eqb p) l.
Proof. induction l; simpl; [reflexivity|]. unfold path_eqb at 1. simpl. rewrite String.eqb_refl. simpl. rewrite IHl. reflexivity. Qed.

Lemma nodup_paths_cons k l : nodup_paths (map (cons k) l) = nodup_paths l.
Proof. induction l as [|p t IH]; simpl; [reflexivity|]. rewrite existsb_cons_map, IH. reflexivity. Qed.

Lemma existsb_other_head k p (kids : list (string * tree)) :
  has_key k kids = false ->
  existsb (path_eqb (k :: p)) (flat_map (fun kv => map (cons (fst kv)) (tree_keys (snd kv))) kids) = false.
Proof.
  induction kids as [|kv r IH]; simpl; [reflexivity|]. intros H. apply orb_false_iff in H as [H1 H2].
  rewrite existsb_app, (IH H2), orb_false_r.
  induction (tree_keys (snd kv)) as [|q t IHq]; simpl; [reflexivity|].
  unfold path_eqb at 1. simpl. rewrite H1. simpl. exact IHq.
Qed.

Lemma keys_nodup t : twf t = true -> nodup_paths (tree_keys t) = true.
Proof.
  induction t using tree_ind'; intros W; [reflexivity|]. simpl in W. apply andb_true_iff in W as [ND W].
  simpl. induction H as [|kv r Hkv Hr IH]; [reflexivity|].
  simpl in ND, W |- *. apply andb_true_iff in ND as [N1 N2]. apply andb_true_iff in W as [W1 W2].
  rewrite nodup_paths_app, nodup_paths_cons, (Hkv W1), (IH N2 W2). simpl.
  apply forallb_forall. intros p I. apply in_map_iff in I as (q & <- & _).
  fold (has_key (fst kv) r) in N1. apply negb_true_iff in N1. rewrite (existsb_other_head _ _ _ N1). reflexivity.
Qed.

(* ------------------------------------------------------------ the update theorems *)
Lemma shape_node t : is_node t = true -> exists k, shape_of t = PNode k.
Proof. destruct t; [discriminate|]. intros _. eexists; reflexivity. Qed.

Theorem update_is_merge cow t u ign : is_node t = true -> is_node u = true -> twf u = true -> pfull (shape_of u) = true ->
  exists r w, tree_update cow t u ign = Some (r, w) /\ shape_of r = pmerge ign (shape_of t) (shape_of u).
Proof.
  intros Nt Nu W F. unfold tree_update, items_to_tree.
  rewrite <- tree_keys_items, (keys_nodup _ W).
  destruct u as [|ou cu ku]; [discriminate|].
  destruct (set_all_some cow (cls_of (copy_top t)) ign _ (node_items_nonempty_paths ou cu ku) (copy_top t, false)) as ([r w] & S).
  exists r, w. split; [exact S|]. apply set_all_shape in S. rewrite S.
  assert (Ec : shape_of (copy_top t) = shape_of t) by (destruct t; reflexivity). rewrite Ec.
  rewrite tree_items_shape. apply pset_all_is_pmerge; [eexists; reflexivity | apply shape_node; exact Nt | exact F].
Qed.

(* merging into nothing rebuilds the tree: the round trip *)
Lemma pmerge_empty_aux ku : Forall (fun kv => forall k, snd kv = PNode k -> pwf (snd kv) = true -> pfull (snd kv) = true ->
                                       pmerge [] (PNode []) (snd kv) = snd kv) ku ->
  nodup_keys ku = true -> forallb (fun kv => pwf (snd kv)) ku = true ->
  forallb (fun kv => match snd kv with PNode [] => false | _ => pfull (snd kv) end) ku = true ->
  forall acc, (forall kv, In kv ku -> has_key (fst kv) acc = false) -> fold_left (mstep []) ku acc = acc ++ ku.
Proof.
  induction 1 as [|kv r Hkv Hr IH]; intros ND W F acc K; simpl; [rewrite app_nil_r; reflexivity|].
  simpl in ND, W, F. apply andb_true_iff in ND as [N1 N2]. apply andb_true_iff in W as [W1 W2]. apply andb_true_iff in F as [F1 F2].
  assert (A : has_key (fst kv) acc = false) by (apply K; left; reflexivity).
  assert (S : mstep [] acc kv = acc ++ [kv]).
  { unfold mstep. rewrite (proj2 (lookup_none _ _) A). destruct kv as [k s]. simpl in *. destruct s as [v|ks].
    - apply kset_absent. exact A.
    - destruct ks as [|kv' ks']; [discriminate|]. rewrite (Hkv _ eq_refl W1 F1). apply kset_absent. exact A. }
  rewrite S, (IH N2 W2 F2).
  - rewrite <- app_assoc. reflexivity.
  - intros kv' I. rewrite has_key_app, (K kv' (or_intror I)). simpl. rewrite orb_false_r.
    destruct (String.eqb (fst kv') (fst kv)) eqn:E; [|reflexivity]. apply String.eqb_eq in E.
    apply negb_true_iff in N1. assert (X : existsb (fun kv0 => String.eqb (fst kv) (fst kv0)) r = true).
    { apply existsb_exists. exists kv'. split; [exact I | rewrite E; apply String.eqb_refl]. }
    congruence.
Qed.

Lemma pmerge_empty u : forall k, u = PNode k -> pwf u = true -> pfull u = true -> pmerge [] (PNode []) u = u.
Proof.
  induction u using ptree_ind'; intros k E W F; [discriminate|].
  rewrite pmerge_node. simpl in W, F |- *. apply andb_true_iff in W as [ND W]. f_equal.
  apply (pmerge_empty_aux kids H ND W F []). reflexivity.
Qed.

Lemma nodup_keys_map {A B} (f : A -> B) (l : list (string * A)) :
  nodup_keys (map (fun kv => (fst kv, f (snd kv))) l) = nodup_keys l.
Proof.
  induction l as [|h r IH]; simpl; [reflexivity|]. rewrite IH. f_equal. f_equal.
  clear IH. induction r as [|h' r' IH']; simpl; [reflexivity|]. rewrite IH'. reflexivity.
Qed.

Lemma pwf_shape t : pwf (shape_of t) = twf t.
Proof.
  induction t using tree_ind'; simpl; [reflexivity|]. rewrite nodup_keys_map. f_equal.
  induction H as [|kv r Hkv Hr IH]; simpl; [reflexivity|]. rewrite Hkv, IH. reflexivity.
Qed.

Theorem roundtrip cow t : is_node t = true -> twf t = true -> pfull (shape_of t) = true ->
  exists r w, items_to_tree cow (tree_items t) None [] = Some (r, w) /\ shape_of r = shape_of t.
Proof.
  intros N W F. assert (PW : pwf (shape_of t) = true) by (rewrite pwf_shape; exact W).
  unfold items_to_tree. rewrite <- tree_keys_items, (keys_nodup _ W).
  destruct t as [|o c kids]; [discriminate|].
  destruct (set_all_some cow (cls_of (Node true 2 [])) [] _ (node_items_nonempty_paths o c kids) (Node true 2 [], false)) as ([r w] & S).
  exists r, w. split; [exact S|]. apply set_all_shape in S. rewrite S, tree_items_shape.
  change (shape_of (Node true 2 [])) with (PNode []).
  rewrite pset_all_is_pmerge; [| eexists; reflexivity | eexists; reflexivity | exact F].
  apply (pmerge_empty _ _ eq_refl); [exact PW | exact F].
Qed.

(* idempotence and the empty update *)
Lemma pmerge_idem_aux ign l : Forall (fun kv => pwf (snd kv) = true -> pmerge ign (snd kv) (snd kv) = snd kv) l ->
  forallb (fun kv => pwf (snd kv)) l = true ->
  forall acc, (forall kv, In kv l -> lookup (fst kv) acc = Some (snd kv)) -> fold_left (mstep ign) l acc = acc.
Proof.
  induction 1 as [|kv r Hkv Hr IH]; intros W acc K; simpl; [reflexivity|].
  simpl in W. apply andb_true_iff in W as [W1 W2].
  assert (A : lookup (fst kv) acc = Some (snd kv)) by (apply K; left; reflexivity).
  assert (S : mstep ign acc kv = acc).
  { unfold mstep. rewrite A. destruct (snd kv) as [v|ks] eqn:E.
    - destruct (in_model v ign); [reflexivity | apply kset_same; exact A].
    - rewrite (Hkv W1). apply kset_same. exact A. }
  rewrite S. apply IH; [exact W2|]. intros kv' I. apply K. right. exact I.
Qed.

Lemma pmerge_idem ign t : pwf t = true -> pmerge ign t t = t.
Proof.
  induction t using ptree_ind'; intros W; [reflexivity|].
  rewrite pmerge_node. simpl in W |- *. apply andb_true_iff in W as [ND W]. f_equal.
  apply (pmerge_idem_aux ign kids H W). intros [k s] I. apply (lookup_In _ _ _ ND I).
Qed.

Lemma pmerge_nothing ign kt : pmerge ign (PNode kt) (PNode []) = PNode kt.
Proof. reflexivity. Qed.

(* ------------------------------------------------------------ the declarative reading of the merge: per key *)
Lemma lookup_kset_other {A} k k' (x : A) l : k <> k' -> lookup k' (kset k x l) = lookup k' l.
Proof.
  intros N. induction l as [|h t IH]; simpl.
  - destruct (String.eqb k' k) eqn:E; [apply String.eqb_eq in E; congruence | reflexivity].
  - destruct (String.eqb k (fst h)) eqn:E; simpl.
    + apply String.eqb_eq in E. subst. destruct (String.eqb k' (fst h)) eqn:E'; [apply String.eqb_eq in E'; congruence | reflexivity].
    + destruct (String.eqb k' (fst h)); [reflexivity | exact IH].
Qed.

Lemma fold_mstep_other ign k ku : has_key k ku = false -> forall acc, lookup k (fold_left (mstep ign) ku acc) = lookup k acc.
Proof.
  induction ku as [|kv r IH]; intros H acc; simpl; [reflexivity|].
  simpl in H. apply orb_false_iff in H as [H1 H2]. rewrite (IH H2).
  assert (N : fst kv <> k) by (intros X; rewrite X, String.eqb_refl in H1; discriminate).
  unfold mstep. destruct (snd kv); [destruct (lookup (fst kv) acc); [destruct (in_model v ign)|]|];
    try reflexivity; apply lookup_kset_other; exact N.
Qed.

Theorem pmerge_lookup ign kt ku k : nodup_keys ku = true ->
  lookup k (kids_of (pmerge ign (PNode kt) (PNode ku))) =
  match lookup k ku with
  | None => lookup k kt
  | Some (PLeaf v) => match lookup k kt with
                      | Some old => if in_model v ign then Some old else Some (PLeaf v)
                      | None => Some (PLeaf v)
                      end
  | Some (PNode ks) => Some (pmerge ign (match lookup k kt with Some s => s | None => PNode [] end) (PNode ks))
  end.
Proof.
  rewrite pmerge_node. simpl. revert kt. induction ku as [|kv r IH]; intros kt ND; simpl; [reflexivity|].
  simpl in ND. apply andb_true_iff in ND as [N1 N2]. fold (has_key (fst kv) r) in N1. apply negb_true_iff in N1.
  destruct (String.eqb k (fst kv)) eqn:E.
  - apply String.eqb_eq in E. subst k. rewrite (fold_mstep_other _ _ _ N1).
    unfold mstep. destruct (snd kv) as [v|ks].
    + destruct (lookup (fst kv) kt) eqn:L; [destruct (in_model v ign); [exact L|]|]; apply lookup_kset_same.
    + apply lookup_kset_same.
  - rewrite (IH _ N2).
    assert (N : fst kv <> k) by (intros X; rewrite X, String.eqb_refl in E; discriminate).
    assert (L : lookup k (mstep ign kt kv) = lookup k kt).
    { unfold mstep. destruct (snd kv); [destruct (lookup (fst kv) kt); [destruct (in_model v ign)|]|];
        try reflexivity; apply lookup_kset_other; exact N. }
    rewrite L. reflexivity.
Qed.

(* ------------------------------------------------------------ table -> tree -> table, one row (partial) *)
Fixpoint chain (p : list string) (v : val) : tree :=
  match p with [] => Leaf v | k :: r => Node true 2 [(k, chain r v)] end.

Lemma setitem_chain cow ign p v : p <> [] -> fst (setitem cow 2 ign p v (Node true 2 [])) = chain p v.
Proof.
  induction p as [|k p IH]; [contradiction|]. intros _. destruct p as [|k' rest]; [reflexivity|].
  rewrite setitem_deep by discriminate. simpl lookup. cbn [fst kset chain]. rewrite IH by discriminate. reflexivity.
Qed.

Fixpoint wilds (pat : list seg) : list string :=
  match pat with [] => [] | SWild x :: r => x :: wilds r | SLit _ :: r => wilds r end.

Lemma key_of_str v k : key_of v = Some k -> v = VStr k.
Proof. destruct v; simpl; intros H; try discriminate. injection H as ->. reflexivity. Qed.

Lemma read_chain (r : row) : forall pat it, row_item r pat = Some it -> NoDup (wilds pat) ->
  exists row', tree_to_table (chain (fst it) (snd it)) pat = [row'] /\
               (forall x, In x (wilds pat) -> lookup x row' = lookup x r) /\
               (forall x, ~ In x (wilds pat) -> lookup x row' = None).
Proof.
  induction pat as [|s rest IH]; intros it H ND; [discriminate|].
  destruct rest as [|s' rest'].
  - simpl in H. destruct (seg_value r s) as [v|] eqn:SV; [|discriminate]. injection H as <-. simpl.
    destruct s as [k|x]; simpl in SV.
    + injection SV as <-. simpl. rewrite String.eqb_refl. exists []. split; [reflexivity|split]; intros x I; [destruct I | reflexivity].
    + exists [(x, v)]. split; [reflexivity|split].
      * intros y [<-|[]]. simpl. rewrite String.eqb_refl. symmetry. exact SV.
      * intros y NI. simpl. destruct (String.eqb y x) eqn:E; [|reflexivity]. apply String.eqb_eq in E. subst. elim NI. left. reflexivity.
  - remember (s' :: rest') as rest eqn:ER. assert (NE : rest <> []) by (subst; discriminate).
    assert (H' : match seg_value r s, row_item r rest with
                 | Some v, Some it0 => match key_of v with Some k => Some (k :: fst it0, snd it0) | None => None end
                 | _, _ => None end = Some it) by (subst rest; exact H).
    clear H. destruct (seg_value r s) as [v|] eqn:SV; [|discriminate].
    destruct (row_item r rest) as [it0|] eqn:RI; [|discriminate].
    destruct (key_of v) as [k|] eqn:KO; [|discriminate]. injection H' as <-. apply key_of_str in KO. subst v.
    assert (ND' : NoDup (wilds rest)) by (destruct s; simpl in ND; [exact ND | inversion ND; assumption]).
    destruct (IH it0 eq_refl ND') as (row'' & T & A & B).
    assert (TT : forall t, tree_to_table t (s :: rest) =
                 match t with
                 | Node _ _ kids => match s with
                                    | SWild x => flat_map (fun kv => map (kset x (VStr (fst kv))) (tree_to_table (snd kv) rest)) kids
                                    | SLit k0 => match lookup k0 kids with Some c => tree_to_table c rest | None => [] end
                                    end
                 | Leaf v => match rest with _ :: _ => [] | [] => match s with SWild x => [[(x, v)]] | SLit k0 => if leaf_is_str v k0 then [[]] else [] end end
                 end) by (intros t; reflexivity).
    cbn [fst snd chain]. rewrite TT. destruct s as [k0|x]; simpl in SV.
    + injection SV as ->. simpl lookup. rewrite String.eqb_refl. exists row''. simpl wilds. auto.
    + cbn [flat_map fst snd]. rewrite T. cbn [map app]. exists (kset x (VStr k) row''). split; [reflexivity|].
      simpl wilds in ND |- *. inversion ND as [|? ? NI ND2]; subst. split.
      * intros y [<-|I]; [rewrite lookup_kset_same; symmetry; exact SV|].
        rewrite lookup_kset_other; [apply A; exact I | intros ->; contradiction].
      * intros y NI'. rewrite lookup_kset_other; [apply B; intros I; apply NI'; right; exact I | intros ->; apply NI'; left; reflexivity].
Qed.

Theorem table_tree_inverse_one_row cow pat (r : row) it : row_item r pat = Some it -> fst it <> [] -> NoDup (wilds pat) ->
  exists t w row', table_to_tree cow None pat [r] = Some (t, w) /\ tree_to_table t pat = [row'] /\
                   (forall x, In x (wilds pat) -> lookup x row' = lookup x r) /\
                   (forall x, ~ In x (wilds pat) -> lookup x row' = None).
Proof.
  intros RI NE ND. unfold table_to_tree. simpl rows_items. rewrite RI. simpl.
  destruct (fst it) eqn:E; [contradiction|]. rewrite <- E.
  destruct (read_chain r pat it RI ND) as (row' & T & A & B).
  eexists. eexists. exists row'. split; [reflexivity|]. cbn [fst]. rewrite setitem_chain by (rewrite E; discriminate).
  split; [exact T | split; assumption].
Qed.
