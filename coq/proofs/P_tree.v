(* C15 - proofs about M_tree: flatten / rebuild, path insertion = recursive merge, ownership frame *)
From Coq Require Import ZArith NArith List Bool String Lia.
From PB Require Import model.M_eq model.M_tree proofs.P_eq proofs.P_eq_py.
Import ListNotations.

(* ------------------------------------------------------------ nested induction principles *)
Section tree_ind_nested.
  Variable P : tree -> Prop.
  Hypothesis HLeaf : forall v, P (Leaf v).
  Hypothesis HNode : forall o c kids, Forall (fun kv => P (snd kv)) kids -> P (Node o c kids).
  Fixpoint tree_ind' (t : tree) : P t :=
    match t with
    | Leaf v => HLeaf v
    | Node o c kids =>
        HNode o c kids
          ((fix go (l : list (string * tree)) : Forall (fun kv => P (snd kv)) l :=
              match l with
              | [] => Forall_nil _
              | kv :: r => Forall_cons kv (match kv as p return P (snd p) with (_, s) => tree_ind' s end) (go r)
              end) kids)
    end.
End tree_ind_nested.

Section ptree_ind_nested.
  Variable P : ptree -> Prop.
  Hypothesis HLeaf : forall v, P (PLeaf v).
  Hypothesis HNode : forall kids, Forall (fun kv => P (snd kv)) kids -> P (PNode kids).
  Fixpoint ptree_ind' (t : ptree) : P t :=
    match t with
    | PLeaf v => HLeaf v
    | PNode kids =>
        HNode kids
          ((fix go (l : list (string * ptree)) : Forall (fun kv => P (snd kv)) l :=
              match l with
              | [] => Forall_nil _
              | kv :: r => Forall_cons kv (match kv as p return P (snd p) with (_, s) => ptree_ind' s end) (go r)
              end) kids)
    end.
End ptree_ind_nested.

Fixpoint twf (t : tree) : bool :=
  match t with
  | Leaf _ => true
  | Node _ _ kids => nodup_keys kids && forallb (fun kv => twf (snd kv)) kids
  end.

(* ------------------------------------------------------------ association lists *)
Lemma lookup_map {A B} (f : A -> B) k (l : list (string * A)) :
  lookup k (map (fun kv => (fst kv, f (snd kv))) l) = option_map f (lookup k l).
Proof. induction l as [|h t IH]; simpl; [reflexivity|]. destruct (String.eqb k (fst h)); [reflexivity | exact IH]. Qed.

Lemma kset_map {A B} (f : A -> B) k x (l : list (string * A)) :
  map (fun kv => (fst kv, f (snd kv))) (kset k x l) = kset k (f x) (map (fun kv => (fst kv, f (snd kv))) l).
Proof. induction l as [|h t IH]; simpl; [reflexivity|]. destruct (String.eqb k (fst h)); simpl; [reflexivity | rewrite IH; reflexivity]. Qed.

Lemma lookup_kset_same {A} k (x : A) l : lookup k (kset k x l) = Some x.
Proof.
  induction l as [|h t IH]; simpl; [rewrite String.eqb_refl; reflexivity|].
  destruct (String.eqb k (fst h)) eqn:E; simpl; [rewrite String.eqb_refl; reflexivity | rewrite E; exact IH].
Qed.

Lemma kset_kset {A} k (x y : A) l : kset k x (kset k y l) = kset k x l.
Proof.
  induction l as [|h t IH]; simpl; [rewrite String.eqb_refl; reflexivity|].
  destruct (String.eqb k (fst h)) eqn:E; simpl; [rewrite String.eqb_refl; reflexivity | rewrite E, IH; reflexivity].
Qed.

Lemma kset_same {A} k (x : A) l : lookup k l = Some x -> kset k x l = l.
Proof.
  induction l as [|h t IH]; simpl; [discriminate|]. destruct (String.eqb k (fst h)) eqn:E.
  - intros H. injection H as <-. apply String.eqb_eq in E. subst. destruct h; reflexivity.
  - intros H. rewrite (IH H). reflexivity.
Qed.

Lemma kset_absent {A} k (x : A) l : has_key k l = false -> kset k x l = l ++ [(k, x)].
Proof.
  induction l as [|h t IH]; simpl; [reflexivity|]. intros H. apply orb_false_iff in H as [H1 H2].
  rewrite H1, (IH H2). reflexivity.
Qed.

Lemma has_key_app {A} k (l l' : list (string * A)) : has_key k (l ++ l') = has_key k l || has_key k l'.
Proof. unfold has_key. apply existsb_app. Qed.

(* ------------------------------------------------------------ keys and values are the projections of items *)
Lemma tree_keys_items t : tree_keys t = map fst (tree_items t).
Proof.
  induction t using tree_ind'; simpl; [reflexivity|].
  induction H as [|kv r Hkv Hr IH]; simpl; [reflexivity|].
  rewrite map_app, IH, Hkv, !map_map. reflexivity.
Qed.
Lemma tree_values_items t : tree_values t = map snd (tree_items t).
Proof.
  induction t using tree_ind'; simpl; [reflexivity|].
  induction H as [|kv r Hkv Hr IH]; simpl; [reflexivity|].
  rewrite map_app, IH, Hkv, !map_map. simpl. reflexivity.
Qed.

(* ------------------------------------------------------------ tree_getitem on every listed path *)
Lemma getitem_items t : twf t = true -> forall p v, In (p, v) (tree_items t) -> tree_getitem t p = Some (Leaf v).
Proof.
  induction t using tree_ind'; intros W p v' I.
  - simpl in I. destruct I as [I|[]]. injection I as <- <-. reflexivity.
  - simpl in W. apply andb_true_iff in W as [ND W]. simpl in I. apply in_flat_map in I as (kv & Ikv & I).
    apply in_map_iff in I as (it & E & Iit). injection E as <- <-.
    simpl. destruct kv as [k s]. simpl in *. rewrite (lookup_In _ _ _ ND Ikv).
    rewrite Forall_forall in H. apply (H (k, s) Ikv).
    + rewrite forallb_forall in W. apply (W (k, s) Ikv).
    + destruct it; exact Iit.
Qed.

(* ------------------------------------------------------------ ownership frame (repaired code, cow = true) *)
Lemma setitem_deep cow base ign k p v own cls kids : p <> [] ->
  setitem cow base ign (k :: p) v (Node own cls kids) =
  match lookup k kids with
  | Some (Node o c ks) =>
      if cow then (Node own cls (kset k (fst (setitem cow base ign p v (Node true c ks))) kids),
                   negb own || snd (setitem cow base ign p v (Node true c ks)))
      else (Node own cls (kset k (fst (setitem cow base ign p v (Node o c ks))) kids),
            snd (setitem cow base ign p v (Node o c ks)))
  | _ => (Node own cls (kset k (fst (setitem cow base ign p v (Node true base []))) kids),
          negb own || snd (setitem cow base ign p v (Node true base [])))
  end.
Proof. destruct p as [|k' rest]; [contradiction|]. intros _. reflexivity. Qed.

Lemma setitem_own base ign p : forall v c ks,
  exists ks', setitem true base ign p v (Node true c ks) = (Node true c ks', false).
Proof.
  induction p as [|k p IH]; intros v c ks; [eexists; reflexivity|].
  destruct p as [|k' rest].
  - simpl. destruct (lookup k ks); [destruct (in_model v ign)|]; eexists; reflexivity.
  - rewrite setitem_deep by discriminate. destruct (lookup k ks) as [[l|o c' ks0]|].
    + destruct (IH v base []) as (ks' & E). rewrite E. eexists; reflexivity.
    + destruct (IH v c' ks0) as (ks' & E). rewrite E. eexists; reflexivity.
    + destruct (IH v base []) as (ks' & E). rewrite E. eexists; reflexivity.
Qed.

Lemma set_all_own base ign items : forall c ks r w,
  set_all true base ign items (Node true c ks, false) = Some (r, w) -> w = false /\ exists ks', r = Node true c ks'.
Proof.
  induction items as [|it rest IH]; intros c ks r w H; simpl in H.
  - injection H as <- <-. split; [reflexivity | eexists; reflexivity].
  - destruct (fst it) eqn:E; [discriminate|]. rewrite <- E in H.
    destruct (setitem_own base ign (fst it) (snd it) c ks) as (ks' & S). rewrite S in H. simpl in H.
    exact (IH _ _ _ _ H).
Qed.

Theorem update_frame t u ign r w : is_node t = true -> tree_update true t u ign = Some (r, w) -> w = false.
Proof.
  unfold tree_update, items_to_tree. intros N H. destruct (nodup_paths _); [|discriminate].
  destruct t as [|o c ks]; [discriminate|]. simpl in H. apply set_all_own in H. tauto.
Qed.

Theorem table_frame t pat rows r w : is_node t = true -> table_to_tree true (Some t) pat rows = Some (r, w) -> w = false.
Proof.
  unfold table_to_tree. intros N H. destruct (rows_items rows pat); [|discriminate].
  destruct t as [|o c ks]; [discriminate|]. simpl in H. apply set_all_own in H. tauto.
Qed.

Definition child0 (k : string) (kt : list (string * ptree)) : ptree :=
  match lookup k kt with Some (PNode ks) => PNode ks | _ => PNode [] end.

Lemma pset_deep ign k p v kt : p <> [] ->
  pset ign (k :: p) v (PNode kt) = PNode (kset k (pset ign p v (child0 k kt)) kt).
Proof. destruct p as [|k' rest]; [contradiction|]. intros _. reflexivity. Qed.

(* ------------------------------------------------------------ path insertion on trees = on shapes *)
Lemma shape_setitem cow base ign p : forall v t,
  shape_of (fst (setitem cow base ign p v t)) = pset ign p v (shape_of t).
Proof.
  induction p as [|k p IH]; intros v t; destruct t as [l|o c kids]; try reflexivity.
  destruct p as [|k' rest].
  - simpl. rewrite lookup_map. destruct (lookup k kids); simpl; [destruct (in_model v ign); simpl|]; rewrite ?kset_map; reflexivity.
  - rewrite setitem_deep by discriminate. change (shape_of (Node o c kids)) with (PNode (map (fun kv => (fst kv, shape_of (snd kv))) kids)).
    rewrite pset_deep by discriminate. unfold child0. rewrite lookup_map.
    destruct (lookup k kids) as [[l|o' c' ks0]|]; cbn [option_map shape_of].
    + cbn [fst shape_of]. rewrite kset_map, IH. reflexivity.
    + destruct cow; cbn [fst shape_of]; rewrite kset_map, IH; reflexivity.
    + cbn [fst shape_of]. rewrite kset_map, IH. reflexivity.
Qed.

Lemma tree_items_shape t : tree_items t = pitems (shape_of t).
Proof.
  induction t using tree_ind'; simpl; [reflexivity|].
  induction H as [|kv r Hkv Hr IH]; simpl; [reflexivity|]. rewrite IH, Hkv. reflexivity.
Qed.

Lemma set_all_shape cow base ign items : forall t0 w0 r w,
  set_all cow base ign items (t0, w0) = Some (r, w) -> shape_of r = pset_all ign items (shape_of t0).
Proof.
  induction items as [|it rest IH]; intros t0 w0 r w H; simpl in H.
  - injection H as <- <-. reflexivity.
  - destruct (fst it) eqn:E; [discriminate|]. rewrite <- E in H. apply IH in H. rewrite H.
    unfold pset_all. simpl. rewrite shape_setitem. reflexivity.
Qed.

Lemma set_all_some cow base ign items : Forall (fun it => fst it <> []) items ->
  forall acc, exists r, set_all cow base ign items acc = Some r.
Proof.
  induction 1 as [|it rest Hit Hr IH]; intros acc; simpl; [eexists; reflexivity|].
  destruct (fst it) eqn:E; [contradiction|]. apply IH.
Qed.

Lemma node_items_nonempty_paths o c kids : Forall (fun it => fst it <> []) (tree_items (Node o c kids)).
Proof.
  apply Forall_forall. intros it I. simpl in I. apply in_flat_map in I as (kv & _ & I).
  apply in_map_iff in I as (it' & <- & _). simpl. discriminate.
Qed.

(* ------------------------------------------------------------ flatten-then-insert = recursive merge *)
Definition kids_of (t : ptree) : list (string * ptree) := match t with PNode k => k | PLeaf _ => [] end.
Definition mstep (ign : list val) (acc : list (string * ptree)) (kv : string * ptree) : list (string * ptree) :=
  match snd kv with
  | PLeaf v =>
      match lookup (fst kv) acc with
      | Some _ => if in_model v ign then acc else kset (fst kv) (PLeaf v) acc
      | None => kset (fst kv) (PLeaf v) acc
      end
  | PNode _ =>
      kset (fst kv) (pmerge ign (match lookup (fst kv) acc with Some s => s | None => PNode [] end) (snd kv)) acc
  end.

Lemma pmerge_node ign t ku : pmerge ign t (PNode ku) = PNode (fold_left (mstep ign) ku (kids_of t)).
Proof. destruct t; reflexivity. Qed.

Lemma pset_node ign p v kids : exists ks, pset ign p v (PNode kids) = PNode ks.
Proof.
  destruct p as [|k [|k' rest]]; simpl; try (eexists; reflexivity).
  destruct (lookup k kids); [destruct (in_model v ign)|]; eexists; reflexivity.
Qed.

Lemma pset_all_node ign its : forall kids, exists ks, pset_all ign its (PNode kids) = PNode ks.
Proof.
  induction its as [|it r IH]; intros kids; [eexists; reflexivity|].
  unfold pset_all. simpl. destruct (pset_node ign (fst it) (snd it) kids) as (ks & E). rewrite E. apply IH.
Qed.

Lemma child0_kset k c kt : (exists ks, c = PNode ks) -> child0 k (kset k c kt) = c.
Proof. intros (ks & ->). unfold child0. rewrite lookup_kset_same. reflexivity. Qed.

Lemma pset_all_cons ign it r t : pset_all ign (it :: r) t = pset_all ign r (pset ign (fst it) (snd it) t).
Proof. reflexivity. Qed.

Lemma pset_all_prefix ign k its : its <> [] -> Forall (fun it => fst it <> []) its -> forall kt,
  pset_all ign (map (fun it => (k :: fst it, snd it)) its) (PNode kt) =
  PNode (kset k (pset_all ign its (child0 k kt)) kt).
Proof.
  intros NE F. induction F as [|it r Hit Hr IH]; [contradiction|]. intros kt.
  cbn [map]. rewrite pset_all_cons. cbn [fst snd]. rewrite (pset_deep _ _ _ _ _ Hit).
  destruct r as [|it' r'].
  - reflexivity.
  - rewrite IH by discriminate. rewrite kset_kset.
    assert (C : exists ks, pset ign (fst it) (snd it) (child0 k kt) = PNode ks).
    { unfold child0. destruct (lookup k kt) as [[|ks0]|]; apply pset_node. }
    rewrite (child0_kset _ _ _ C). reflexivity.
Qed.

Lemma pitems_node_paths kids : Forall (fun it => fst it <> []) (pitems (PNode kids)).
Proof.
  apply Forall_forall. intros it I. simpl in I. apply in_flat_map in I as (kv & _ & I).
  apply in_map_iff in I as (it' & <- & _). simpl. discriminate.
Qed.

Lemma pitems_nonempty t : pfull t = true -> t <> PNode [] -> pitems t <> [].
Proof.
  induction t using ptree_ind'; intros F N; [discriminate|].
  destruct kids as [|kv r]; [contradiction|]. simpl in F. apply andb_true_iff in F as [F1 _].
  inversion H as [|? ? Hkv Hr]; subst. simpl.
  assert (X : pitems (snd kv) <> []).
  { destruct (snd kv) as [v|[|kv' r']] eqn:E; [discriminate | discriminate | apply Hkv; [exact F1 | discriminate]]. }
  destruct (pitems (snd kv)); [contradiction | discriminate].
Qed.

Lemma pset_all_app ign a b t : pset_all ign (a ++ b) t = pset_all ign b (pset_all ign a t).
Proof. unfold pset_all. apply fold_left_app. Qed.

Lemma insert_is_merge ign u : forall ku kt, u = PNode ku -> pfull u = true ->
  pset_all ign (pitems u) (PNode kt) = PNode (fold_left (mstep ign) ku kt).
Proof.
  induction u using ptree_ind'; intros ku kt E F; [discriminate|]. injection E as <-.
  revert kt F. induction H as [|kv r Hkv Hr IH]; intros kt F; [reflexivity|].
  simpl in F. apply andb_true_iff in F as [F1 F2].
  cbn [pitems flat_map]. rewrite pset_all_app. cbn [fold_left].
  assert (S : pset_all ign (map (fun it => (fst kv :: fst it, snd it)) (pitems (snd kv))) (PNode kt) = PNode (mstep ign kt kv)).
  { unfold mstep. destruct (snd kv) as [v|ks] eqn:E.
    - unfold pset_all. simpl. destruct (lookup (fst kv) kt); [destruct (in_model v ign)|]; reflexivity.
    - destruct ks as [|kv' ks']; [discriminate|].
      rewrite pset_all_prefix; [| apply pitems_nonempty; [exact F1 | discriminate] | apply pitems_node_paths].
      f_equal. f_equal. rewrite pmerge_node.
      unfold child0. destruct (lookup (fst kv) kt) as [[v|ks0]|]; simpl; apply (Hkv (kv' :: ks')); auto. }
  rewrite S. apply IH. exact F2.
Qed.

Theorem pset_all_is_pmerge ign t u : (exists ku, u = PNode ku) -> (exists kt, t = PNode kt) -> pfull u = true ->
  pset_all ign (pitems u) t = pmerge ign t u.
Proof.
  intros (ku & ->) (kt & ->) F. rewrite pmerge_node. apply (insert_is_merge ign (PNode ku) ku kt eq_refl F).
Qed.

(* ------------------------------------------------------------ no duplicate paths in the flattening of a well-formed tree *)
Lemma path_eqb_refl p : path_eqb p p = true.
Proof. unfold path_eqb. induction p; simpl; [reflexivity | rewrite String.eqb_refl; exact IHp]. Qed.

Lemma nodup_paths_app l1 l2 :
  nodup_paths (l1 ++ l2) = nodup_paths l1 && nodup_paths l2 && forallb (fun p => negb (existsb (path_eqb p) l2)) l1.
Proof.
  induction l1 as [|p t IH]; simpl; [rewrite andb_true_r; reflexivity|].
  rewrite existsb_app, IH, negb_orb.
  destruct (existsb (path_eqb p) t), (existsb (path_eqb p) l2), (nodup_paths t), (nodup_paths l2); simpl; reflexivity.
Qed.

Lemma existsb_cons_map k p l : existsb (path_eqb (k :: p)) (map (cons k) l) = existsb (path_eqb p) l.
Proof. induction l; simpl; [reflexivity|]. unfold path_eqb at 1. simpl. rewrite String.eqb_refl. simpl. rewrite IHl. reflexivity. Qed.

Lemma nodup_paths_cons k l : nodup_paths (map (cons k) l) = nodup_paths l.
Proof. induction l as [|p t IH]; simpl; [reflexivity|]. rewrite existsb_cons_map, IH. reflexivity. Qed.

Lemma existsb_other_head k p (kids : list (string * tree)) :
  has_key k kids = false ->
  existsb (path_eqb (k :: p)) (flat_map (fun kv => map (cons (fst kv)) (tree_keys (snd kv))) kids) = false.
Proof.
  induction kids as [|kv r IH]; simpl; [reflexivity|]. intros H. apply orb_false_iff in H as [H1 H2].
  rewrite existsb_app, (IH H2), orb_false_r.
  induction (tree_keys (snd kv)) as [|q t IHq]; simpl; [reflexivity|].
  unfold path_eqb at 1. simpl. rewrite H1. simpl. exact IHq.
Qed.

Lemma keys_nodup t : twf t = true -> nodup_paths (tree_keys t) = true.
Proof.
  induction t using tree_ind'; intros W; [reflexivity|]. simpl in W. apply andb_true_iff in W as [ND W].
  simpl. induction H as [|kv r Hkv Hr IH]; [reflexivity|].
  simpl in ND, W |- *. apply andb_true_iff in ND as [N1 N2]. apply andb_true_iff in W as [W1 W2].
  rewrite nodup_paths_app, nodup_paths_cons, (Hkv W1), (IH N2 W2). simpl.
  apply forallb_forall. intros p I. apply in_map_iff in I as (q & <- & _).
  fold (has_key (fst kv) r) in N1. apply negb_true_iff in N1. rewrite (existsb_other_head _ _ _ N1). reflexivity.
Qed.

(* ------------------------------------------------------------ the update theorems *)
Lemma shape_node t : is_node t = true -> exists k, shape_of t = PNode k.
Proof. destruct t; [discriminate|]. intros _. eexists; reflexivity. Qed.

Theorem update_is_merge cow t u ign : is_node t = true -> is_node u = true -> twf u = true -> pfull (shape_of u) = true ->
  exists r w, tree_update cow t u ign = Some (r, w) /\ shape_of r = pmerge ign (shape_of t) (shape_of u).
Proof.
  intros Nt Nu W F. unfold tree_update, items_to_tree.
  rewrite <- tree_keys_items, (keys_nodup _ W).
  destruct u as [|ou cu ku]; [discriminate|].
  destruct (set_all_some cow (cls_of (copy_top t)) ign _ (node_items_nonempty_paths ou cu ku) (copy_top t, false)) as ([r w] & S).
  exists r, w. split; [exact S|]. apply set_all_shape in S. rewrite S.
  assert (Ec : shape_of (copy_top t) = shape_of t) by (destruct t; reflexivity). rewrite Ec.
  rewrite tree_items_shape. apply pset_all_is_pmerge; [eexists; reflexivity | apply shape_node; exact Nt | exact F].
Qed.

(* merging into nothing rebuilds the tree: the round trip *)
Lemma pmerge_empty_aux ku : Forall (fun kv => forall k, snd kv = PNode k -> pwf (snd kv) = true -> pfull (snd kv) = true ->
                                       pmerge [] (PNode []) (snd kv) = snd kv) ku ->
  nodup_keys ku = true -> forallb (fun kv => pwf (snd kv)) ku = true ->
  forallb (fun kv => match snd kv with PNode [] => false | _ => pfull (snd kv) end) ku = true ->
  forall acc, (forall kv, In kv ku -> has_key (fst kv) acc = false) -> fold_left (mstep []) ku acc = acc ++ ku.
Proof.
  induction 1 as [|kv r Hkv Hr IH]; intros ND W F acc K; simpl; [rewrite app_nil_r; reflexivity|].
  simpl in ND, W, F. apply andb_true_iff in ND as [N1 N2]. apply andb_true_iff in W as [W1 W2]. apply andb_true_iff in F as [F1 F2].
  assert (A : has_key (fst kv) acc = false) by (apply K; left; reflexivity).
  assert (S : mstep [] acc kv = acc ++ [kv]).
  { unfold mstep. rewrite (proj2 (lookup_none _ _) A). destruct kv as [k s]. simpl in *. destruct s as [v|ks].
    - apply kset_absent. exact A.
    - destruct ks as [|kv' ks']; [discriminate|]. rewrite (Hkv _ eq_refl W1 F1). apply kset_absent. exact A. }
  rewrite S, (IH N2 W2 F2).
  - rewrite <- app_assoc. reflexivity.
  - intros kv' I. rewrite has_key_app, (K kv' (or_intror I)). simpl. rewrite orb_false_r.
    destruct (String.eqb (fst kv') (fst kv)) eqn:E; [|reflexivity]. apply String.eqb_eq in E.
    apply negb_true_iff in N1. assert (X : existsb (fun kv0 => String.eqb (fst kv) (fst kv0)) r = true).
    { apply existsb_exists. exists kv'. split; [exact I | rewrite E; apply String.eqb_refl]. }
    congruence.
Qed.

Lemma pmerge_empty u : forall k, u = PNode k -> pwf u = true -> pfull u = true -> pmerge [] (PNode []) u = u.
Proof.
  induction u using ptree_ind'; intros k E W F; [discriminate|].
  rewrite pmerge_node. simpl in W, F |- *. apply andb_true_iff in W as [ND W]. f_equal.
  apply (pmerge_empty_aux kids H ND W F []). reflexivity.
Qed.

Lemma nodup_keys_map {A B} (f : A -> B) (l : list (string * A)) :
  nodup_keys (map (fun kv => (fst kv, f (snd kv))) l) = nodup_keys l.
Proof.
  induction l as [|h r IH]; simpl; [reflexivity|]. rewrite IH. f_equal. f_equal.
  clear IH. induction r as [|h' r' IH']; simpl; [reflexivity|]. rewrite IH'. reflexivity.
Qed.

Lemma pwf_shape t : pwf (shape_of t) = twf t.
Proof.
  induction t using tree_ind'; simpl; [reflexivity|]. rewrite nodup_keys_map. f_equal.
  induction H as [|kv r Hkv Hr IH]; simpl; [reflexivity|]. rewrite Hkv, IH. reflexivity.
Qed.

Theorem roundtrip cow t : is_node t = true -> twf t = true -> pfull (shape_of t) = true ->
  exists r w, items_to_tree cow (tree_items t) None [] = Some (r, w) /\ shape_of r = shape_of t.
Proof.
  intros N W F. assert (PW : pwf (shape_of t) = true) by (rewrite pwf_shape; exact W).
  unfold items_to_tree. rewrite <- tree_keys_items, (keys_nodup _ W).
  destruct t as [|o c kids]; [discriminate|].
  destruct (set_all_some cow (cls_of (Node true 2 [])) [] _ (node_items_nonempty_paths o c kids) (Node true 2 [], false)) as ([r w] & S).
  exists r, w. split; [exact S|]. apply set_all_shape in S. rewrite S, tree_items_shape.
  change (shape_of (Node true 2 [])) with (PNode []).
  rewrite pset_all_is_pmerge; [| eexists; reflexivity | eexists; reflexivity | exact F].
  apply (pmerge_empty _ _ eq_refl); [exact PW | exact F].
Qed.

(* idempotence and the empty update *)
Lemma pmerge_idem_aux ign l : Forall (fun kv => pwf (snd kv) = true -> pmerge ign (snd kv) (snd kv) = snd kv) l ->
  forallb (fun kv => pwf (snd kv)) l = true ->
  forall acc, (forall kv, In kv l -> lookup (fst kv) acc = Some (snd kv)) -> fold_left (mstep ign) l acc = acc.
Proof.
  induction 1 as [|kv r Hkv Hr IH]; intros W acc K; simpl; [reflexivity|].
  simpl in W. apply andb_true_iff in W as [W1 W2].
  assert (A : lookup (fst kv) acc = Some (snd kv)) by (apply K; left; reflexivity).
  assert (S : mstep ign acc kv = acc).
  { unfold mstep. rewrite A. destruct (snd kv) as [v|ks] eqn:E.
    - destruct (in_model v ign); [reflexivity | apply kset_same; exact A].
    - rewrite (Hkv W1). apply kset_same. exact A. }
  rewrite S. apply IH; [exact W2|]. intros kv' I. apply K. right. exact I.
Qed.

Lemma pmerge_idem ign t : pwf t = true -> pmerge ign t t = t.
Proof.
  induction t using ptree_ind'; intros W; [reflexivity|].
  rewrite pmerge_node. simpl in W |- *. apply andb_true_iff in W as [ND W]. f_equal.
  apply (pmerge_idem_aux ign kids H W). intros [k s] I. apply (lookup_In _ _ _ ND I).
Qed.

Lemma pmerge_nothing ign kt : pmerge ign (PNode kt) (PNode []) = PNode kt.
Proof. reflexivity. Qed.

(* ------------------------------------------------------------ the declarative reading of the merge: per key *)
Lemma lookup_kset_other {A} k k' (x : A) l : k <> k' -> lookup k' (kset k x l) = lookup k' l.
Proof.
  intros N. induction l as [|h t IH]; simpl.
  - destruct (String.eqb k' k) eqn:E; [apply String.eqb_eq in E; congruence | reflexivity].
  - destruct (String.eqb k (fst h)) eqn:E; simpl.
    + apply String.eqb_eq in E. subst. destruct (String.eqb k' (fst h)) eqn:E'; [apply String.eqb_eq in E'; congruence | reflexivity].
    + destruct (String.eqb k' (fst h)); [reflexivity | exact IH].
Qed.

Lemma fold_mstep_other ign k ku : has_key k ku = false -> forall acc, lookup k (fold_left (mstep ign) ku acc) = lookup k acc.
Proof.
  induction ku as [|kv r IH]; intros H acc; simpl; [reflexivity|].
  simpl in H. apply orb_false_iff in H as [H1 H2]. rewrite (IH H2).
  assert (N : fst kv <> k) by (intros X; rewrite X, String.eqb_refl in H1; discriminate).
  unfold mstep. destruct (snd kv); [destruct (lookup (fst kv) acc); [destruct (in_model v ign)|]|];
    try reflexivity; apply lookup_kset_other; exact N.
Qed.

Theorem pmerge_lookup ign kt ku k : nodup_keys ku = true ->
  lookup k (kids_of (pmerge ign (PNode kt) (PNode ku))) =
  match lookup k ku with
  | None => lookup k kt
  | Some (PLeaf v) => match lookup k kt with
                      | Some old => if in_model v ign then Some old else Some (PLeaf v)
                      | None => Some (PLeaf v)
                      end
  | Some (PNode ks) => Some (pmerge ign (match lookup k kt with Some s => s | None => PNode [] end) (PNode ks))
  end.
Proof.
  rewrite pmerge_node. simpl. revert kt. induction ku as [|kv r IH]; intros kt ND; simpl; [reflexivity|].
  simpl in ND. apply andb_true_iff in ND as [N1 N2]. fold (has_key (fst kv) r) in N1. apply negb_true_iff in N1.
  destruct (String.eqb k (fst kv)) eqn:E.
  - apply String.eqb_eq in E. subst k. rewrite (fold_mstep_other _ _ _ N1).
    unfold mstep. destruct (snd kv) as [v|ks].
    + destruct (lookup (fst kv) kt) eqn:L; [destruct (in_model v ign); [exact L|]|]; apply lookup_kset_same.
    + apply lookup_kset_same.
  - rewrite (IH _ N2).
    assert (N : fst kv <> k) by (intros X; rewrite X, String.eqb_refl in E; discriminate).
    assert (L : lookup k (mstep ign kt kv) = lookup k kt).
    { unfold mstep. destruct (snd kv); [destruct (lookup (fst kv) kt); [destruct (in_model v ign)|]|];
        try reflexivity; apply lookup_kset_other; exact N. }
    rewrite L. reflexivity.
Qed.

(* ------------------------------------------------------------ table -> tree -> table, one row (partial) *)
Fixpoint chain (p : list string) (v : val) : tree :=
  match p with [] => Leaf v | k :: r => Node true 2 [(k, chain r v)] end.

Lemma setitem_chain cow ign p v : p <> [] -> fst (setitem cow 2 ign p v (Node true 2 [])) = chain p v.
Proof.
  induction p as [|k p IH]; [contradiction|]. intros _. destruct p as [|k' rest]; [reflexivity|].
  rewrite setitem_deep by discriminate. simpl lookup. cbn [fst kset chain]. rewrite IH by discriminate. reflexivity.
Qed.

Fixpoint wilds (pat : list seg) : list string :=
  match pat with [] => [] | SWild x :: r => x :: wilds r | SLit _ :: r => wilds r end.

Lemma key_of_str v k : key_of v = Some k -> v = VStr k.
Proof. destruct v; simpl; intros H; try discriminate. injection H as ->. reflexivity. Qed.

Lemma read_chain (r : row) : forall pat it, row_item r pat = Some it -> NoDup (wilds pat) ->
  exists row', tree_to_table (chain (fst it) (snd it)) pat = [row'] /\
               (forall x, In x (wilds pat) -> lookup x row' = lookup x r) /\
               (forall x, ~ In x (wilds pat) -> lookup x row' = None).
Proof.
  induction pat as [|s rest IH]; intros it H ND; [discriminate|].
  destruct rest as [|s' rest'].
  - simpl in H. destruct (seg_value r s) as [v|] eqn:SV; [|discriminate]. injection H as <-. simpl.
    destruct s as [k|x]; simpl in SV.
    + injection SV as <-. simpl. rewrite String.eqb_refl. exists []. split; [reflexivity|split]; intros x I; [destruct I | reflexivity].
    + exists [(x, v)]. split; [reflexivity|split].
      * intros y [<-|[]]. simpl. rewrite String.eqb_refl. symmetry. exact SV.
      * intros y NI. simpl. destruct (String.eqb y x) eqn:E; [|reflexivity]. apply String.eqb_eq in E. subst. elim NI. left. reflexivity.
  - remember (s' :: rest') as rest eqn:ER. assert (NE : rest <> []) by (subst; discriminate).
    assert (H' : match seg_value r s, row_item r rest with
                 | Some v, Some it0 => match key_of v with Some k => Some (k :: fst it0, snd it0) | None => None end
                 | _, _ => None end = Some it) by (subst rest; exact H).
    clear H. destruct (seg_value r s) as [v|] eqn:SV; [|discriminate].
    destruct (row_item r rest) as [it0|] eqn:RI; [|discriminate].
    destruct (key_of v) as [k|] eqn:KO; [|discriminate]. injection H' as <-. apply key_of_str in KO. subst v.
    assert (ND' : NoDup (wilds rest)) by (destruct s; simpl in ND; [exact ND | inversion ND; assumption]).
    destruct (IH it0 eq_refl ND') as (row'' & T & A & B).
    assert (TT : forall t, tree_to_table t (s :: rest) =
                 match t with
                 | Node _ _ kids => match s with
                                    | SWild x => flat_map (fun kv => map (kset x (VStr (fst kv))) (tree_to_table (snd kv) rest)) kids
                                    | SLit k0 => match lookup k0 kids with Some c => tree_to_table c rest | None => [] end
                                    end
                 | Leaf v => match rest with _ :: _ => [] | [] => match s with SWild x => [[(x, v)]] | SLit k0 => if leaf_is_str v k0 then [[]] else [] end end
                 end) by (intros t; reflexivity).
    cbn [fst snd chain]. rewrite TT. destruct s as [k0|x]; simpl in SV.
    + injection SV as ->. simpl lookup. rewrite String.eqb_refl. exists row''. simpl wilds. auto.
    + cbn [flat_map fst snd]. rewrite T. cbn [map app]. exists (kset x (VStr k) row''). split; [reflexivity|].
      simpl wilds in ND |- *. inversion ND as [|? ? NI ND2]; subst. split.
      * intros y [<-|I]; [rewrite lookup_kset_same; symmetry; exact SV|].
        rewrite lookup_kset_other; [apply A; exact I | intros ->; contradiction].
      * intros y NI'. rewrite lookup_kset_other; [apply B; intros I; apply NI'; right; exact I | intros ->; apply NI'; left; reflexivity].
Qed.

Theorem table_tree_inverse_one_row cow pat (r : row) it : row_item r pat = Some it -> fst it <> [] -> NoDup (wilds pat) ->
  exists t w row', table_to_tree cow None pat [r] = Some (t, w) /\ tree_to_table t pat = [row'] /\
                   (forall x, In x (wilds pat) -> lookup x row' = lookup x r) /\
                   (forall x, ~ In x (wilds pat) -> lookup x row' = None).
Proof.
  intros RI NE ND. unfold table_to_tree. simpl rows_items. rewrite RI. simpl.
  destruct (fst it) eqn:E; [contradiction|]. rewrite <- E.
  destruct (read_chain r pat it RI ND) as (row' & T & A & B).
  eexists. eexists. exists row'. split; [reflexivity|]. cbn [fst]. rewrite setitem_chain by (rewrite E; discriminate).
  split; [exact T | split; assumption].
Qed.

(* ------------------------------------------------------------ table -> tree -> table, any number of rows *)
From Coq Require Import Permutation.

Fixpoint mapfilter {A B} (f : A -> option B) (l : list A) : list B :=
  match l with [] => [] | a :: t => match f a with Some b => b :: mapfilter f t | None => mapfilter f t end end.

Lemma mapfilter_app {A B} (f : A -> option B) l l' : mapfilter f (l ++ l') = mapfilter f l ++ mapfilter f l'.
Proof. induction l; simpl; [reflexivity|]. destruct (f a); simpl; rewrite IHl; reflexivity. Qed.
Lemma mapfilter_map {A B C} (f : B -> option C) (g : A -> B) l : mapfilter f (map g l) = mapfilter (fun a => f (g a)) l.
Proof. induction l; simpl; [reflexivity|]. rewrite IHl. reflexivity. Qed.
Lemma mapfilter_ext {A B} (f g : A -> option B) l : (forall a, f a = g a) -> mapfilter f l = mapfilter g l.
Proof. intros E. induction l; simpl; [reflexivity|]. rewrite E, IHl. reflexivity. Qed.
Lemma mapfilter_option_map {A B C} (f : A -> option B) (g : B -> C) l :
  mapfilter (fun a => option_map g (f a)) l = map g (mapfilter f l).
Proof. induction l; simpl; [reflexivity|]. destruct (f a); simpl; rewrite IHl; reflexivity. Qed.
Lemma mapfilter_none {A B} (l : list A) : mapfilter (fun _ => @None B) l = [].
Proof. induction l; simpl; auto. Qed.
Lemma mapfilter_flat_map {A B C} (f : B -> option C) (g : A -> list B) l :
  mapfilter f (flat_map g l) = flat_map (fun a => mapfilter f (g a)) l.
Proof. induction l; simpl; [reflexivity|]. rewrite mapfilter_app, IHl. reflexivity. Qed.
Lemma Permutation_mapfilter {A B} (f : A -> option B) l l' : Permutation l l' -> Permutation (mapfilter f l) (mapfilter f l').
Proof.
  induction 1; simpl.
  - constructor.
  - destruct (f x); [constructor|]; assumption.
  - destruct (f x), (f y); try apply Permutation_refl. apply perm_swap.
  - eapply Permutation_trans; eassumption.
Qed.
Lemma flat_map_ext_in' {A B} (f g : A -> list B) l : (forall a, In a l -> f a = g a) -> flat_map f l = flat_map g l.
Proof.
  induction l as [|h t IH]; simpl; [reflexivity|]. intros H.
  rewrite (H h (or_introl eq_refl)), IH; [reflexivity|]. intros a I. apply H. right. exact I.
Qed.

(* tree_to_table only sees the shape *)
Fixpoint pt2table (t : ptree) (pat : list seg) {struct pat} : list row :=
  match pat with
  | [] => [[]]
  | s :: rest =>
      match t with
      | PNode kids =>
          match s with
          | SWild x => flat_map (fun kv => map (kset x (VStr (fst kv))) (pt2table (snd kv) rest)) kids
          | SLit k => match lookup k kids with Some c => pt2table c rest | None => [] end
          end
      | PLeaf v =>
          match rest with
          | _ :: _ => []
          | [] => match s with SWild x => [[(x, v)]] | SLit k => if leaf_is_str v k then [[]] else [] end
          end
      end
  end.

Lemma t2t_shape pat : forall t, tree_to_table t pat = pt2table (shape_of t) pat.
Proof.
  induction pat as [|s rest IH]; intros t; [reflexivity|]. destruct t as [v|o c kids]; [reflexivity|].
  cbn [tree_to_table pt2table shape_of]. destruct s as [k|x].
  - rewrite lookup_map. destruct (lookup k kids); simpl; [apply IH | reflexivity].
  - induction kids as [|h r IHk]; simpl; [reflexivity|]. rewrite IHk, IH. reflexivity.
Qed.

(* the row a path and its leaf denote under a pattern *)
Fixpoint read (pat : list seg) (p : list string) (v : val) {struct pat} : option row :=
  match pat with
  | [] => None
  | s :: rest =>
      match rest, p with
      | [], [] => match s with SWild x => Some [(x, v)] | SLit k => if leaf_is_str v k then Some [] else None end
      | _ :: _, k :: p' =>
          match s with
          | SWild x => option_map (kset x (VStr k)) (read rest p' v)
          | SLit k0 => if String.eqb k0 k then read rest p' v else None
          end
      | _, _ => None
      end
  end.

Fixpoint uniform (n : nat) (t : ptree) {struct n} : bool :=
  match n, t with
  | O, PLeaf _ => true
  | S m, PNode kids => forallb (fun kv => uniform m (snd kv)) kids
  | _, _ => false
  end.

Lemma uniform_leaf t : uniform 0 t = true -> exists v, t = PLeaf v.
Proof. destruct t; simpl; [eexists; reflexivity | discriminate]. Qed.
Lemma uniform_node m t : uniform (S m) t = true -> exists kids, t = PNode kids /\ forallb (fun kv => uniform m (snd kv)) kids = true.
Proof. destruct t; simpl; [discriminate|]. intros H. eexists; split; [reflexivity | exact H]. Qed.

Lemma flat_map_lookup {A B} (F : A -> list B) k0 (kids : list (string * A)) : nodup_keys kids = true ->
  flat_map (fun kv => if String.eqb k0 (fst kv) then F (snd kv) else []) kids =
  match lookup k0 kids with Some c => F c | None => [] end.
Proof.
  induction kids as [|h r IH]; intros ND; simpl; [reflexivity|]. simpl in ND. apply andb_true_iff in ND as [N1 N2].
  destruct (String.eqb k0 (fst h)) eqn:E.
  - apply String.eqb_eq in E. subst k0. rewrite (IH N2).
    fold (has_key (fst h) r) in N1. apply negb_true_iff in N1. rewrite (proj2 (lookup_none _ _) N1). apply app_nil_r.
  - simpl. apply IH. exact N2.
Qed.

Lemma table_is_items pat : forall n t, List.length pat = S n -> uniform n t = true -> pwf t = true ->
  pt2table t pat = mapfilter (fun it => read pat (fst it) (snd it)) (pitems t).
Proof.
  induction pat as [|s rest IH]; intros n t L U W; [discriminate|]. destruct rest as [|s' rest'].
  - simpl in L. injection L as <-. destruct (uniform_leaf _ U) as (v & ->). simpl.
    destruct s; [destruct (leaf_is_str v k)|]; reflexivity.
  - destruct n as [|m]; [discriminate|]. simpl in L. injection L as L.
    destruct (uniform_node _ _ U) as (kids & -> & UK). simpl in W. apply andb_true_iff in W as [ND WK].
    remember (s' :: rest') as rest eqn:ER.
    assert (RD : forall k p v, read (s :: rest) (k :: p) v =
                 match s with SWild x => option_map (kset x (VStr k)) (read rest p v)
                            | SLit k0 => if String.eqb k0 k then read rest p v else None end) by (subst rest; reflexivity).
    assert (SUB : forall kv, In kv kids -> pt2table (snd kv) rest = mapfilter (fun it => read rest (fst it) (snd it)) (pitems (snd kv))).
    { intros kv I. apply (IH m); [subst rest; simpl; f_equal; exact L | |].
      - rewrite forallb_forall in UK. apply UK. exact I.
      - rewrite forallb_forall in WK. apply WK. exact I. }
    cbn [pitems]. rewrite mapfilter_flat_map.
    assert (TT : pt2table (PNode kids) (s :: rest) =
                 match s with
                 | SWild x => flat_map (fun kv => map (kset x (VStr (fst kv))) (pt2table (snd kv) rest)) kids
                 | SLit k => match lookup k kids with Some c => pt2table c rest | None => [] end
                 end) by reflexivity.
    rewrite TT. destruct s as [k0|x].
    + rewrite <- (flat_map_lookup (fun c => pt2table c rest) k0 kids ND).
      apply flat_map_ext_in'. intros kv I. rewrite mapfilter_map. cbn [fst snd].
      rewrite (mapfilter_ext _ (fun it => if String.eqb k0 (fst kv) then read rest (fst it) (snd it) else None)) by (intros a; apply RD).
      destruct (String.eqb k0 (fst kv)); [apply SUB; exact I | symmetry; apply mapfilter_none].
    + apply flat_map_ext_in'. intros kv I. rewrite mapfilter_map. cbn [fst snd].
      rewrite (mapfilter_ext _ (fun it => option_map (kset x (VStr (fst kv))) (read rest (fst it) (snd it)))) by (intros a; apply RD).
      rewrite mapfilter_option_map, (SUB kv I). reflexivity.
Qed.

(* inserting a fresh path of the right length adds exactly that item *)
Lemma lookup_In_rev {A} k (c : A) l : lookup k l = Some c -> In (k, c) l.
Proof.
  induction l as [|h t IH]; simpl; [discriminate|]. destruct (String.eqb k (fst h)) eqn:E.
  - intros H. injection H as <-. apply String.eqb_eq in E. subst. left. destruct h; reflexivity.
  - intros H. right. apply IH. exact H.
Qed.

Lemma lookup_split {A} k (c : A) l : lookup k l = Some c ->
  exists a b, l = a ++ (k, c) :: b /\ forall x, kset k x l = a ++ (k, x) :: b.
Proof.
  induction l as [|h t IH]; simpl; [discriminate|]. destruct (String.eqb k (fst h)) eqn:E.
  - intros H. injection H as <-. apply String.eqb_eq in E. subst. exists [], t. split; [destruct h; reflexivity | reflexivity].
  - intros H. destruct (IH H) as (a & b & -> & K). exists (h :: a), b. split; [reflexivity|]. intros x. simpl. rewrite K. reflexivity.
Qed.

Fixpoint nodupk (l : list string) : bool :=
  match l with [] => true | k :: t => negb (existsb (String.eqb k) t) && nodupk t end.
Lemma nodup_keys_keys {A} (l : list (string * A)) : nodup_keys l = nodupk (map fst l).
Proof.
  induction l as [|h t IH]; simpl; [reflexivity|]. rewrite IH. f_equal. f_equal.
  clear IH. induction t as [|h' t' IH']; simpl; [reflexivity|]. rewrite IH'. reflexivity.
Qed.

Lemma nodup_keys_snoc {A} k (x : A) l : has_key k l = false -> nodup_keys l = true -> nodup_keys (l ++ [(k, x)]) = true.
Proof.
  induction l as [|h t IH]; simpl; [reflexivity|]. intros H N. apply orb_false_iff in H as [H1 H2]. apply andb_true_iff in N as [N1 N2].
  rewrite existsb_app, (IH H2 N2), andb_true_r. simpl. apply negb_true_iff in N1. rewrite N1, String.eqb_sym, H1. reflexivity.
Qed.

Lemma pitems_app a b : pitems (PNode (a ++ b)) = pitems (PNode a) ++ pitems (PNode b).
Proof. simpl. apply flat_map_app. Qed.

Lemma in_pitems_kid k c kids p v : In (k, c) kids -> In (p, v) (pitems c) -> In (k :: p, v) (pitems (PNode kids)).
Proof.
  intros I J. simpl. apply in_flat_map. exists (k, c). split; [exact I|]. apply in_map_iff. exists (p, v). split; [reflexivity | exact J].
Qed.

Lemma uniform_S m l : uniform (S m) (PNode l) = forallb (fun kv => uniform m (snd kv)) l.
Proof. reflexivity. Qed.
Lemma pwf_node l : pwf (PNode l) = nodup_keys l && forallb (fun kv => pwf (snd kv)) l.
Proof. reflexivity. Qed.

Lemma pset_fresh m : forall p v t, uniform (S m) t = true -> pwf t = true -> List.length p = S m ->
  ~ In p (map fst (pitems t)) ->
  uniform (S m) (pset [] p v t) = true /\ pwf (pset [] p v t) = true /\
  Permutation (pitems (pset [] p v t)) ((p, v) :: pitems t).
Proof.
  induction m as [|m IH]; intros p v t U W L NI; destruct (uniform_node _ _ U) as (kids & -> & UK);
    simpl in W; apply andb_true_iff in W as [ND WK]; destruct p as [|k p']; try discriminate; simpl in L; injection L as L.
  - destruct p'; [|discriminate].
    assert (HK : has_key k kids = false).
    { destruct (has_key k kids) eqn:E; [|reflexivity]. exfalso. apply NI.
      apply existsb_exists in E as ([k' c] & I & E). apply String.eqb_eq in E. simpl in E. subst k'.
      rewrite forallb_forall in UK. pose proof (UK _ I) as Uc. simpl in Uc. destruct (uniform_leaf _ Uc) as (v' & ->).
      apply in_map_iff. exists ([k], v'). split; [reflexivity|]. apply (in_pitems_kid k (PLeaf v') kids [] v' I). left. reflexivity. }
    simpl pset. rewrite (proj2 (lookup_none _ _) HK), (kset_absent _ _ _ HK). repeat split.
    + rewrite uniform_S, forallb_app, UK. reflexivity.
    + rewrite pwf_node, (nodup_keys_snoc _ _ _ HK ND), forallb_app, WK. reflexivity.
    + rewrite pitems_app. simpl. apply Permutation_sym. apply Permutation_cons_append.
  - assert (NE : p' <> []) by (destruct p'; [discriminate | discriminate]).
    rewrite (pset_deep _ _ _ _ _ NE). unfold child0.
    set (f := fun it : item => (k :: fst it, snd it)).
    destruct (lookup k kids) as [c|] eqn:LK.
    + pose proof (lookup_In_rev _ _ _ LK) as I.
      rewrite forallb_forall in UK, WK. pose proof (UK _ I) as Uc. pose proof (WK _ I) as Wc. simpl in Uc, Wc.
      destruct (uniform_node _ _ Uc) as (ks & -> & _).
      assert (NIc : ~ In p' (map fst (pitems (PNode ks)))).
      { intros J. apply NI. apply in_map_iff in J as ([q w] & <- & J). apply in_map_iff. exists (k :: q, w). split; [reflexivity|].
        apply (in_pitems_kid k (PNode ks) kids q w I J). }
      destruct (IH p' v (PNode ks) Uc Wc L NIc) as (U' & W' & P').
      destruct (lookup_split _ _ _ LK) as (a & b & -> & KS). rewrite KS.
      assert (UA : forallb (fun kv => uniform (S m) (snd kv)) (a ++ (k, PNode ks) :: b) = true) by (apply forallb_forall; exact UK).
      assert (WA : forallb (fun kv => pwf (snd kv)) (a ++ (k, PNode ks) :: b) = true) by (apply forallb_forall; exact WK).
      rewrite forallb_app in UA, WA. cbn [forallb snd] in UA, WA.
      apply andb_true_iff in UA as [UA1 UA2]. apply andb_true_iff in UA2 as [_ UA2].
      apply andb_true_iff in WA as [WA1 WA2]. apply andb_true_iff in WA2 as [_ WA2].
      repeat split.
      * rewrite uniform_S, forallb_app. cbn [forallb snd]. rewrite UA1, UA2, U'. reflexivity.
      * rewrite pwf_node, forallb_app. cbn [forallb snd]. rewrite WA1, WA2, W', !andb_true_r.
        rewrite nodup_keys_keys in ND |- *. rewrite map_app in ND |- *. exact ND.
      * rewrite !pitems_app. cbn [pitems flat_map fst snd]. fold (pitems (PNode b)). fold f.
        eapply Permutation_trans; [| apply Permutation_sym, Permutation_middle].
        apply Permutation_app_head. exact (Permutation_app_tail _ (Permutation_map f P')).
    + assert (HK : has_key k kids = false) by (apply lookup_none; exact LK).
      destruct (IH p' v (PNode []) eq_refl eq_refl L (fun x => x)) as (U' & W' & P').
      rewrite (kset_absent _ _ _ HK). repeat split.
      * rewrite uniform_S, forallb_app, UK. cbn [forallb snd]. rewrite U'. reflexivity.
      * rewrite pwf_node, (nodup_keys_snoc _ _ _ HK ND), forallb_app, WK. cbn [forallb snd]. rewrite W'. reflexivity.
      * rewrite pitems_app. cbn [pitems flat_map fst snd]. fold f. rewrite app_nil_r.
        apply (Permutation_map f) in P'. simpl in P'.
        eapply Permutation_trans; [apply Permutation_app_head; exact P'|]. apply Permutation_sym. apply Permutation_cons_append.
Qed.

Lemma pset_all_fresh m its : forall t, uniform (S m) t = true -> pwf t = true ->
  Forall (fun it => List.length (fst it) = S m) its -> NoDup (map fst its) ->
  (forall it, In it its -> ~ In (fst it) (map fst (pitems t))) ->
  uniform (S m) (pset_all [] its t) = true /\ pwf (pset_all [] its t) = true /\
  Permutation (pitems (pset_all [] its t)) (its ++ pitems t).
Proof.
  induction its as [|it r IH]; intros t U W F ND K; [repeat split; assumption || apply Permutation_refl|].
  inversion F as [|? ? Fi Fr]; subst. simpl in ND. inversion ND as [|? ? Ni NDr]; subst.
  destruct it as [p v]. simpl in Fi, Ni.
  destruct (pset_fresh m p v t U W Fi (K (p, v) (or_introl eq_refl))) as (U' & W' & P').
  rewrite pset_all_cons. cbn [fst snd].
  destruct (IH (pset [] p v t) U' W' Fr NDr) as (U2 & W2 & P2).
  { intros it' I J. apply (Permutation_in _ (Permutation_map fst P')) in J. simpl in J. destruct J as [J|J].
    - apply Ni. rewrite J. apply in_map. exact I.
    - apply (K it' (or_intror I)). exact J. }
  repeat split; try assumption.
  eapply Permutation_trans; [exact P2|]. eapply Permutation_trans; [apply Permutation_app_head; exact P'|].
  apply Permutation_sym. apply (Permutation_middle r (pitems t) (p, v)).
Qed.

(* rows and their items *)
Lemma row_item_length (r : row) : forall pat it, row_item r pat = Some it -> List.length pat = S (List.length (fst it)).
Proof.
  induction pat as [|s rest IH]; intros it H; [discriminate|]. destruct rest as [|s' rest'].
  - simpl in H. destruct (seg_value r s); [|discriminate]. injection H as <-. reflexivity.
  - remember (s' :: rest') as rest.
    assert (H' : match seg_value r s, row_item r rest with
                 | Some v, Some it0 => match key_of v with Some k => Some (k :: fst it0, snd it0) | None => None end
                 | _, _ => None end = Some it) by (subst rest; exact H).
    destruct (seg_value r s); [|discriminate]. destruct (row_item r rest) as [it0|] eqn:RI; [|discriminate].
    destruct (key_of v); [|discriminate]. injection H' as <-. simpl. rewrite (IH it0 eq_refl). reflexivity.
Qed.

Definition row_agrees (pat : list seg) (r row' : row) : Prop :=
  (forall x, In x (wilds pat) -> lookup x row' = lookup x r) /\ (forall x, ~ In x (wilds pat) -> lookup x row' = None).

Lemma read_row_item (r : row) : forall pat it, row_item r pat = Some it -> NoDup (wilds pat) ->
  exists row', read pat (fst it) (snd it) = Some row' /\ row_agrees pat r row'.
Proof.
  induction pat as [|s rest IH]; intros it H ND; [discriminate|]. destruct rest as [|s' rest'].
  - simpl in H. destruct (seg_value r s) as [v|] eqn:SV; [|discriminate]. injection H as <-. simpl.
    destruct s as [k|x]; simpl in SV.
    + injection SV as <-. simpl. rewrite String.eqb_refl. exists []. split; [reflexivity|]. split; intros x I; [destruct I | reflexivity].
    + exists [(x, v)]. split; [reflexivity|]. split.
      * intros y [<-|[]]. simpl. rewrite String.eqb_refl. symmetry. exact SV.
      * intros y NI. simpl. destruct (String.eqb y x) eqn:E; [|reflexivity]. apply String.eqb_eq in E. subst. elim NI. left. reflexivity.
  - remember (s' :: rest') as rest eqn:ER.
    assert (H' : match seg_value r s, row_item r rest with
                 | Some v, Some it0 => match key_of v with Some k => Some (k :: fst it0, snd it0) | None => None end
                 | _, _ => None end = Some it) by (subst rest; exact H).
    clear H. destruct (seg_value r s) as [v|] eqn:SV; [|discriminate].
    destruct (row_item r rest) as [it0|] eqn:RI; [|discriminate].
    destruct (key_of v) as [k|] eqn:KO; [|discriminate]. injection H' as <-. apply key_of_str in KO. subst v.
    assert (ND' : NoDup (wilds rest)) by (destruct s; simpl in ND; [exact ND | inversion ND; assumption]).
    destruct (IH it0 eq_refl ND') as (row'' & T & A & B).
    assert (RD : read (s :: rest) (k :: fst it0) (snd it0) =
                 match s with SWild x => option_map (kset x (VStr k)) (read rest (fst it0) (snd it0))
                            | SLit k0 => if String.eqb k0 k then read rest (fst it0) (snd it0) else None end) by (subst rest; reflexivity).
    cbn [fst snd]. rewrite RD, T. destruct s as [k0|x]; simpl in SV.
    + injection SV as ->. rewrite String.eqb_refl. exists row''. split; [reflexivity|]. split; simpl wilds; assumption.
    + simpl. exists (kset x (VStr k) row''). split; [reflexivity|].
      simpl wilds in ND |- *. inversion ND as [|? ? NI ND2]; subst. split.
      * intros y [<-|I]; [rewrite lookup_kset_same; symmetry; exact SV|].
        rewrite lookup_kset_other; [apply A; exact I | intros ->; contradiction].
      * intros y NI'. rewrite lookup_kset_other; [apply B; intros I; apply NI'; right; exact I | intros ->; apply NI'; left; reflexivity].
Qed.

Lemma rows_items_each rows pat : forall its, rows_items rows pat = Some its -> Forall2 (fun r it => row_item r pat = Some it) rows its.
Proof.
  induction rows as [|r t IH]; intros its H; simpl in H; [injection H as <-; constructor|].
  destruct (row_item r pat) eqn:R; [|discriminate]. destruct (rows_items t pat) eqn:T; [|discriminate].
  injection H as <-. constructor; [exact R | apply IH; reflexivity].
Qed.

Theorem table_tree_inverse_rows cow pat rows its : rows_items rows pat = Some its -> (2 <= List.length pat)%nat ->
  NoDup (wilds pat) -> NoDup (map fst its) ->
  exists t w rows', table_to_tree cow None pat rows = Some (t, w) /\
                    Permutation (tree_to_table t pat) rows' /\ Forall2 (row_agrees pat) rows rows'.
Proof.
  intros RI L2 NDW NDP. pose proof (rows_items_each _ _ _ RI) as F2.
  destruct pat as [|s0 [|s1 pat']]; simpl in L2; try lia.
  set (pat := s0 :: s1 :: pat') in *. set (m := List.length pat').
  assert (FL : Forall (fun it => List.length (fst it) = S m) its).
  { clear - F2. induction F2 as [|r it rs its' H _ IH]; constructor; [|exact IH].
    apply row_item_length in H. simpl in H. unfold m. lia. }
  assert (FN : Forall (fun it => fst it <> []) its).
  { eapply Forall_impl; [|exact FL]. simpl. intros it E X. rewrite X in E. discriminate. }
  unfold table_to_tree. rewrite RI.
  destruct (set_all_some cow 2 [] its FN (Node true 2 [], false)) as ([t w] & HS).
  exists t, w, (mapfilter (fun it => read pat (fst it) (snd it)) its). split; [exact HS|].
  apply set_all_shape in HS. change (shape_of (Node true 2 [])) with (PNode []) in HS.
  destruct (pset_all_fresh m its (PNode []) eq_refl eq_refl FL NDP (fun _ _ x => x)) as (U & W & P).
  rewrite app_nil_r in P. split.
  - rewrite t2t_shape, HS. rewrite (table_is_items pat (S m) _ eq_refl U W). apply Permutation_mapfilter. exact P.
  - clear - F2 NDW. induction F2 as [|r it rs its' H _ IH]; cbn [mapfilter]; [constructor|].
    destruct (read_row_item r pat it H NDW) as (row' & -> & A). constructor; [exact A | exact IH].
Qed.

(* ------------------------------------------------------------ ... and back: tree -> rows -> tree for trees built from rows *)
Lemma row_item_ext (r r' : row) : forall pat, (forall y, In y (wilds pat) -> lookup y r = lookup y r') -> row_item r pat = row_item r' pat.
Proof.
  induction pat as [|s rest IH]; intros E; [reflexivity|].
  assert (SV : seg_value r s = seg_value r' s) by (destruct s; simpl; [reflexivity | apply E; left; reflexivity]).
  assert (RI : row_item r rest = row_item r' rest) by (apply IH; intros y I; apply E; destruct s; simpl; [exact I | right; exact I]).
  destruct rest as [|s' rest']; simpl; [rewrite SV; reflexivity|]. simpl in RI. rewrite SV, RI. reflexivity.
Qed.

Lemma leaf_is_str_eq v k : leaf_is_str v k = true -> v = VStr k.
Proof. destruct v; simpl; try discriminate. intros H. apply String.eqb_eq in H. congruence. Qed.

Lemma read_inv : forall pat p v row', read pat p v = Some row' -> NoDup (wilds pat) -> row_item row' pat = Some (p, v).
Proof.
  induction pat as [|s rest IH]; intros p v row' H ND; [discriminate|]. destruct rest as [|s' rest'].
  - destruct p; [|destruct s; discriminate]. simpl in H. destruct s as [k|x].
    + destruct (leaf_is_str v k) eqn:E; [|discriminate]. injection H as <-. apply leaf_is_str_eq in E. subst. reflexivity.
    + injection H as <-. simpl. rewrite String.eqb_refl. reflexivity.
  - remember (s' :: rest') as rest eqn:ER. destruct p as [|k p']; [subst rest; destruct s; discriminate|].
    assert (RD : read (s :: rest) (k :: p') v =
                 match s with SWild x => option_map (kset x (VStr k)) (read rest p' v)
                            | SLit k0 => if String.eqb k0 k then read rest p' v else None end) by (subst rest; reflexivity).
    assert (RI : forall r, row_item r (s :: rest) =
                 match seg_value r s, row_item r rest with
                 | Some v0, Some it0 => match key_of v0 with Some k1 => Some (k1 :: fst it0, snd it0) | None => None end
                 | _, _ => None end) by (subst rest; reflexivity).
    rewrite RD in H. rewrite RI. destruct s as [k0|x].
    + destruct (String.eqb k0 k) eqn:E; [|discriminate]. apply String.eqb_eq in E. subst k0.
      simpl in ND. rewrite (IH p' v row' H ND). reflexivity.
    + destruct (read rest p' v) as [row''|] eqn:R; [|discriminate]. injection H as <-.
      simpl in ND. inversion ND as [|a0 b0 NI ND2]; subst a0 b0.
      simpl seg_value. rewrite lookup_kset_same.
      rewrite (row_item_ext (kset x (VStr k) row'') row'' rest), (IH p' v row'' R ND2); [reflexivity|].
      intros y I. apply lookup_kset_other. intros ->. contradiction.
Qed.

Lemma rows_items_read pat l : NoDup (wilds pat) -> Forall (fun it => exists row', read pat (fst it) (snd it) = Some row') l ->
  rows_items (mapfilter (fun it => read pat (fst it) (snd it)) l) pat = Some l.
Proof.
  intros ND F. induction F as [|it r (row' & R) _ IH]; [reflexivity|].
  cbn [mapfilter]. rewrite R. cbn [rows_items]. rewrite (read_inv _ _ _ _ R ND), IH. destruct it; reflexivity.
Qed.

Lemma forallb_kset {A} (f : string * A -> bool) k x l : forallb f l = true -> f (k, x) = true -> forallb f (kset k x l) = true.
Proof.
  induction l as [|h t IH]; simpl; intros H Hx; [rewrite Hx; reflexivity|]. apply andb_true_iff in H as [H1 H2].
  destruct (String.eqb k (fst h)); simpl; [rewrite Hx, H2 | rewrite H1, IH by assumption]; reflexivity.
Qed.

Lemma kset_nonempty {A} k (x : A) l : kset k x l <> [].
Proof. destruct l; simpl; [discriminate|]. destruct (String.eqb k (fst p)); discriminate. Qed.

Definition full_kid (kv : string * ptree) : bool := match snd kv with PNode [] => false | _ => pfull (snd kv) end.
Lemma pfull_node l : pfull (PNode l) = forallb full_kid l.
Proof. reflexivity. Qed.

Lemma pset_full : forall p v kids, p <> [] -> pfull (PNode kids) = true ->
  pfull (pset [] p v (PNode kids)) = true /\ pset [] p v (PNode kids) <> PNode [].
Proof.
  induction p as [|k p IH]; intros v kids NE F; [contradiction|]. destruct p as [|k' rest].
  - simpl. destruct (lookup k kids); (split; [rewrite pfull_node; apply forallb_kset; [exact F | reflexivity] | intros X; injection X as X; exact (kset_nonempty _ _ _ X)]).
  - rewrite pset_deep by discriminate. split; [|intros X; injection X as X; exact (kset_nonempty _ _ _ X)].
    rewrite pfull_node. apply forallb_kset; [exact F|]. unfold full_kid. cbn [snd].
    assert (C : exists ks, child0 k kids = PNode ks /\ pfull (PNode ks) = true).
    { unfold child0. destruct (lookup k kids) as [[v0|ks]|] eqn:L; try (exists []; split; reflexivity).
      exists ks. split; [reflexivity|]. apply lookup_In_rev in L. rewrite pfull_node, forallb_forall in F.
      specialize (F _ L). unfold full_kid in F. simpl in F. destruct ks; [discriminate | exact F]. }
    destruct C as (ks & -> & Fk). destruct (IH v ks ltac:(discriminate) Fk) as (F' & N').
    destruct (pset [] (k' :: rest) v (PNode ks)) as [|[|? ?]] eqn:E; [reflexivity | contradiction | exact F'].
Qed.

Lemma pset_all_full its : Forall (fun it => fst it <> []) its -> forall kids, pfull (PNode kids) = true ->
  pfull (pset_all [] its (PNode kids)) = true.
Proof.
  induction 1 as [|it r Hit _ IH]; intros kids F; [exact F|]. rewrite pset_all_cons.
  destruct (pset_node [] (fst it) (snd it) kids) as (ks & E). rewrite E. apply IH. rewrite <- E. apply pset_full; assumption.
Qed.

Theorem tree_table_tree_rows cow cow' pat rows its : rows_items rows pat = Some its -> (2 <= List.length pat)%nat ->
  NoDup (wilds pat) -> NoDup (map fst its) ->
  exists t w t' w', table_to_tree cow None pat rows = Some (t, w) /\
                    table_to_tree cow' None pat (tree_to_table t pat) = Some (t', w') /\ shape_of t' = shape_of t.
Proof.
  intros RI L2 NDW NDP. pose proof (rows_items_each _ _ _ RI) as F2.
  destruct pat as [|s0 [|s1 pat']]; simpl in L2; try lia.
  set (pat := s0 :: s1 :: pat') in *. set (m := List.length pat').
  assert (FL : Forall (fun it => List.length (fst it) = S m) its).
  { clear - F2. induction F2 as [|r it rs its' H _ IH]; constructor; [|exact IH].
    apply row_item_length in H. simpl in H. unfold m. lia. }
  assert (FN : Forall (fun it => fst it <> []) its).
  { eapply Forall_impl; [|exact FL]. simpl. intros it E X. rewrite X in E. discriminate. }
  assert (FR : Forall (fun it => exists row', read pat (fst it) (snd it) = Some row') its).
  { clear - F2 NDW. induction F2 as [|r it rs its' H _ IH]; constructor; [|exact IH].
    destruct (read_row_item r pat it H NDW) as (row' & R & _). exists row'. exact R. }
  unfold table_to_tree at 1. rewrite RI.
  destruct (set_all_some cow 2 [] its FN (Node true 2 [], false)) as ([t w] & HS).
  exists t, w. pose proof (set_all_shape _ _ _ _ _ _ _ _ HS) as SH. change (shape_of (Node true 2 [])) with (PNode []) in SH.
  destruct (pset_all_fresh m its (PNode []) eq_refl eq_refl FL NDP (fun _ _ x => x)) as (U & W & P).
  rewrite app_nil_r in P.
  pose proof (pset_all_full its FN [] eq_refl) as FU.
  destruct (pset_all_node [] its []) as (kt & ET). rewrite ET in *.
  assert (FR' : Forall (fun it => exists row', read pat (fst it) (snd it) = Some row') (pitems (PNode kt))).
  { apply Forall_forall. intros it I. rewrite Forall_forall in FR. apply FR. eapply Permutation_in; [exact P | exact I]. }
  unfold table_to_tree. rewrite t2t_shape, SH, (table_is_items pat (S m) _ eq_refl U W), (rows_items_read pat _ NDW FR').
  destruct (set_all_some cow' 2 [] _ (pitems_node_paths kt) (Node true 2 [], false)) as ([t' w'] & HS').
  exists t', w'. split; [exact HS|]. split; [exact HS'|].
  apply set_all_shape in HS'. change (shape_of (Node true 2 [])) with (PNode []) in HS'. rewrite HS'.
  rewrite pset_all_is_pmerge; [| eexists; reflexivity | eexists; reflexivity | exact FU].
  apply (pmerge_empty _ _ eq_refl W FU).
Qed.

(* ------------------------------------------------------------ updates with leafless branches: the general merge theorem *)
Definition prune_kid (kv : string * ptree) : list (string * ptree) :=
  match snd kv with
  | PLeaf v => [(fst kv, PLeaf v)]
  | PNode _ => match prune (snd kv) with PNode [] => [] | s => [(fst kv, s)] end
  end.
Lemma prune_node kids : prune (PNode kids) = PNode (flat_map prune_kid kids).
Proof. reflexivity. Qed.

Lemma pitems_prune u : pitems (prune u) = pitems u.
Proof.
  induction u using ptree_ind'; [reflexivity|]. rewrite prune_node.
  induction H as [|kv r Hkv Hr IH]; [reflexivity|].
  cbn [flat_map]. rewrite pitems_app. cbn [pitems flat_map] in IH |- *. rewrite IH. f_equal.
  unfold prune_kid. destruct (snd kv) as [v|ks] eqn:E; [simpl; rewrite ?app_nil_r; reflexivity|].
  rewrite <- Hkv. destruct (prune (PNode ks)) as [v|[|kv' ks']] eqn:P; simpl; rewrite ?app_nil_r; reflexivity.
Qed.

Lemma pfull_prune u : pfull (prune u) = true.
Proof.
  induction u using ptree_ind'; [reflexivity|]. rewrite prune_node, pfull_node.
  induction H as [|kv r Hkv Hr IH]; [reflexivity|].
  cbn [flat_map]. rewrite forallb_app, IH, andb_true_r.
  unfold prune_kid. destruct (snd kv) as [v|ks] eqn:E; [reflexivity|].
  destruct (prune (PNode ks)) as [v|[|kv' ks']] eqn:P; try reflexivity.
  unfold full_kid. simpl. rewrite andb_true_r. exact Hkv.
Qed.

Theorem update_is_merge_general cow t u ign : is_node t = true -> is_node u = true -> twf u = true ->
  exists r w, tree_update cow t u ign = Some (r, w) /\ shape_of r = merge_spec ign (shape_of t) (shape_of u).
Proof.
  intros Nt Nu W. unfold tree_update, items_to_tree, merge_spec.
  rewrite <- tree_keys_items, (keys_nodup _ W).
  destruct u as [|ou cu ku]; [discriminate|].
  destruct (set_all_some cow (cls_of (copy_top t)) ign _ (node_items_nonempty_paths ou cu ku) (copy_top t, false)) as ([r w] & S).
  exists r, w. split; [exact S|]. apply set_all_shape in S. rewrite S.
  assert (Ec : shape_of (copy_top t) = shape_of t) by (destruct t; reflexivity). rewrite Ec.
  rewrite tree_items_shape, <- pitems_prune.
  apply pset_all_is_pmerge; [cbn [shape_of]; rewrite prune_node; eexists; reflexivity | apply shape_node; exact Nt | apply pfull_prune].
Qed.

(* on an update without leafless branches the general spec is the plain recursive merge *)
Lemma prune_full u : pfull u = true -> prune u = u.
Proof.
  induction u using ptree_ind'; intros F; [reflexivity|]. rewrite prune_node. f_equal. rewrite pfull_node in F.
  induction H as [|kv r Hkv Hr IH]; [reflexivity|]. simpl in F. apply andb_true_iff in F as [F1 F2].
  cbn [flat_map]. rewrite (IH F2). unfold prune_kid, full_kid in *. destruct kv as [k s]. simpl in *.
  destruct s as [v|[|kv' ks']]; [reflexivity | discriminate|]. rewrite (Hkv F1). reflexivity.
Qed.

Lemma merge_idem_aux ign l : Forall (fun kv => pwf (snd kv) = true -> pmerge ign (snd kv) (prune (snd kv)) = snd kv) l ->
  forallb (fun kv => pwf (snd kv)) l = true ->
  forall acc, (forall kv, In kv l -> lookup (fst kv) acc = Some (snd kv)) -> fold_left (mstep ign) (flat_map prune_kid l) acc = acc.
Proof.
  induction 1 as [|kv r Hkv Hr IH]; intros W acc K; [reflexivity|].
  simpl in W. apply andb_true_iff in W as [W1 W2]. cbn [flat_map]. rewrite fold_left_app.
  assert (A : lookup (fst kv) acc = Some (snd kv)) by (apply K; left; reflexivity).
  assert (S : fold_left (mstep ign) (prune_kid kv) acc = acc).
  { unfold prune_kid. destruct (snd kv) as [v|ks] eqn:E.
    - simpl. unfold mstep. simpl. rewrite A. destruct (in_model v ign); [reflexivity | apply kset_same; exact A].
    - specialize (Hkv W1). destruct (prune (PNode ks)) as [v|[|kv' ks']] eqn:P; [| reflexivity |].
      + destruct ks; discriminate.
      + cbn [fold_left]. unfold mstep. cbn [fst snd]. rewrite A, Hkv. apply kset_same. exact A. }
  rewrite S. apply IH; [exact W2|]. intros kv' I. apply K. right. exact I.
Qed.

Lemma merge_idem ign t : pwf t = true -> pmerge ign t (prune t) = t.
Proof.
  induction t using ptree_ind'; intros W; [reflexivity|].
  rewrite prune_node, pmerge_node. simpl in W |- *. apply andb_true_iff in W as [ND W]. f_equal.
  apply (merge_idem_aux ign kids H W). intros [k s] I. apply (lookup_In _ _ _ ND I).
Qed.
