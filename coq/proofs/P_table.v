(* C01: the dict-of-lists model of dictable refines the list-of-records spec, for every history. *)
From Coq Require Import ZArith List Bool String Lia.
From PB Require Import model.M_table.
Import ListNotations.

Notation len := List.length.

(* ------------------------------------------------------------------ lists *)
Lemma map_seq_nth {A B} (f : A -> B) (l : list A) d : map (fun i => f (nth i l d)) (seq 0 (len l)) = map f l.
Proof.
  induction l as [|a l IH]; [reflexivity|]. cbn [len seq map nth]. f_equal.
  rewrite <- seq_shift, map_map. exact IH.
Qed.
Lemma seq_nth_id {A} (l : list A) d : map (fun i => nth i l d) (seq 0 (len l)) = l.
Proof. rewrite (map_seq_nth (fun x => x)). apply map_id. Qed.
Lemma map_seq_shift {B} (f : nat -> B) s n : map f (seq s n) = map (fun i => f (s + i)) (seq 0 n).
Proof.
  revert s f. induction n as [|n IH]; intros; [reflexivity|]. cbn [seq map]. rewrite Nat.add_0_r. f_equal.
  rewrite (IH (S s)), (IH 1). apply map_ext. intros. f_equal. lia.
Qed.
Lemma nth_repeat' {A} (x d : A) n i : i < n -> nth i (repeat x n) d = x.
Proof. revert i. induction n; intros i H; [lia|]. destruct i; [reflexivity|]. cbn. apply IHn. lia. Qed.
Lemma nth_skipn' {A} (l : list A) s i d : nth i (skipn s l) d = nth (s + i) l d.
Proof. revert l. induction s; intros l; [reflexivity|]. destruct l; [destruct i; reflexivity|]. cbn. apply IHs. Qed.
Lemma nth_firstn' {A} (l : list A) k i d : i < k -> nth i (firstn k l) d = nth i l d.
Proof. revert l i. induction k; intros l i H; [lia|]. destruct l; [reflexivity|]. destruct i; [reflexivity|]. cbn. apply IHk. lia. Qed.
Lemma combine_map_seq {A B} (g : nat -> A) (l : list B) d s :
  combine (map g (seq s (len l))) l = map (fun i => (g i, nth (i - s) l d)) (seq s (len l)).
Proof.
  revert s. induction l as [|b l IH]; intros s; [reflexivity|]. cbn [len seq map combine]. rewrite Nat.sub_diag. cbn [nth]. f_equal.
  rewrite IH. apply map_ext_in. intros i Hi. apply in_seq in Hi. f_equal. replace (i - s) with (S (i - S s)) by lia. reflexivity.
Qed.
Lemma mapv_combine {V W} (f : V -> W) (a : list colname) (b : list V) : mapv f (combine a b) = combine a (map f b).
Proof. revert b. induction a; intros [|x b]; cbn; try reflexivity. f_equal. apply IHa. Qed.
Lemma combine_keys_vals {V} (r : list (colname * V)) : combine (keys r) (vals r) = r.
Proof. induction r as [|[k v] r IH]; cbn; [reflexivity|]. f_equal. exact IH. Qed.
Lemma keys_combine {V} (a : list colname) (b : list V) : len a = len b -> keys (combine a b) = a.
Proof. revert b. induction a; intros [|x b] H; cbn in *; try discriminate; [reflexivity|]. f_equal. apply IHa. lia. Qed.
Lemma Forall_upd {A} (P : A -> Prop) i x l : Forall P l -> P x -> Forall P (upd i x l).
Proof. revert l. induction i; intros [|a l] Hl Hx; cbn; try constructor; inversion Hl; subst; auto. Qed.
Lemma map_upd {A B} (f : A -> B) i x l : map f (upd i x l) = upd i (f x) (map f l).
Proof. revert l. induction i; intros [|a l]; cbn; try reflexivity. f_equal. apply IHi. Qed.
Lemma mapM_map {A B C} (f : B -> res C) (g : A -> B) l : mapM f (map g l) = mapM (fun a => f (g a)) l.
Proof. induction l; cbn; [reflexivity|]. rewrite IHl. reflexivity. Qed.
Lemma mapM_ext_in {A B} (f g : A -> res B) l : (forall a, In a l -> f a = g a) -> mapM f l = mapM g l.
Proof. induction l; intros H; cbn; [reflexivity|]. rewrite (H a (or_introl eq_refl)), IHl; [reflexivity|]. intros; apply H; right; assumption. Qed.
Lemma mapM_ok {A B} (f : A -> res B) (g : A -> B) l : (forall a, In a l -> f a = Ok (g a)) -> mapM f l = Ok (map g l).
Proof. induction l; intros H; cbn; [reflexivity|]. rewrite (H a (or_introl eq_refl)), IHl; [reflexivity|]. intros; apply H; right; assumption. Qed.
Lemma mapM_In {A B} (f : A -> res B) l bs : mapM f l = Ok bs -> forall b, In b bs -> exists a, In a l /\ f a = Ok b.
Proof.
  revert bs. induction l; cbn; intros bs H b Hb.
  - inversion H; subst. destruct Hb.
  - destruct (f a) eqn:Ea; [|discriminate]. destruct (mapM f l) eqn:El; [|discriminate]. inversion H; subst.
    destruct Hb as [<-|Hb]; [exists a; split; [left; reflexivity|assumption]|].
    destruct (IHl _ eq_refl b Hb) as [a' [? ?]]. exists a'. split; [right|]; assumption.
Qed.
Lemma mapM_length {A B} (f : A -> res B) l bs : mapM f l = Ok bs -> len bs = len l.
Proof.
  revert bs. induction l; cbn; intros bs H; [inversion H; reflexivity|].
  destruct (f a); [|discriminate]. destruct (mapM f l); [|discriminate]. inversion H; subst. cbn. f_equal. apply IHl. reflexivity.
Qed.

Lemma filter_id {A} (f : A -> bool) l : (forall x, In x l -> f x = true) -> filter f l = l.
Proof. induction l; cbn; intros H; [reflexivity|]. rewrite (H a (or_introl eq_refl)). f_equal. apply IHl. intros; apply H; right; assumption. Qed.

(* ------------------------------------------------------------------ python dicts *)
Section Assoc.
Context {V : Type}.
Implicit Types d : list (colname * V).
Lemma keys_mapv {W} (f : V -> W) d : keys (mapv f d) = keys d.
Proof. unfold keys, mapv. rewrite map_map. reflexivity. Qed.
Lemma aget_mapv {W} (f : V -> W) k d : aget k (mapv f d) = option_map f (aget k d).
Proof. induction d as [|[k' v] d IH]; cbn; [reflexivity|]. destruct (String.eqb k k'); [reflexivity|exact IH]. Qed.
Lemma mapv_aset {W} (f : V -> W) k v d : mapv f (aset k v d) = aset k (f v) (mapv f d).
Proof. induction d as [|[k' v'] d IH]; cbn; [reflexivity|]. destruct (String.eqb k k'); cbn; [reflexivity|]. f_equal. exact IH. Qed.
Lemma mapv_adel {W} (f : V -> W) k d : mapv f (adel k d) = adel k (mapv f d).
Proof. induction d as [|[k' v'] d IH]; cbn; [reflexivity|]. destruct (String.eqb k k'); cbn; [reflexivity|]. f_equal. exact IH. Qed.
Lemma mapv_fold {W} (f : V -> W) kvs d :
  mapv f (fold_left (fun acc kv => aset (fst kv) (snd kv) acc) kvs d) = fold_left (fun acc kv => aset (fst kv) (snd kv) acc) (mapv f kvs) (mapv f d).
Proof.
  revert d. induction kvs as [|[k v] kvs IH]; intros d; [reflexivity|].
  change (mapv f ((k, v) :: kvs)) with ((k, f v) :: mapv f kvs). cbn [fold_left fst snd]. rewrite IH, mapv_aset. reflexivity.
Qed.
Lemma mapv_dict_of {W} (f : V -> W) kvs : mapv f (dict_of kvs) = dict_of (mapv f kvs).
Proof. unfold dict_of. exact (mapv_fold f kvs []). Qed.
Lemma mem_In k l : mem k l = true <-> In k l.
Proof.
  unfold mem. rewrite existsb_exists. split.
  - intros [x [Hx He]]. apply String.eqb_eq in He. subst. assumption.
  - intros H. exists k. split; [assumption|apply String.eqb_refl].
Qed.
Lemma aget_none k d : aget k d = None <-> ~ In k (keys d).
Proof.
  induction d as [|[k' v] d IH]; cbn; [tauto|]. destruct (String.eqb_spec k k').
  - subst. split; [discriminate|]. intros H. exfalso. apply H. left. reflexivity.
  - rewrite IH. split; [intros H [E|I]; [congruence|contradiction]|tauto].
Qed.
Lemma aget_some_in k d v : aget k d = Some v -> In (k, v) d.
Proof.
  induction d as [|[k' v'] d IH]; cbn; [discriminate|]. destruct (String.eqb_spec k k').
  - intros E. inversion E; subst. left. reflexivity.
  - intros E. right. apply IH. assumption.
Qed.
Lemma aget_mem k d : mem k (keys d) = match aget k d with Some _ => true | None => false end.
Proof.
  destruct (aget k d) eqn:E.
  - apply mem_In. apply aget_some_in in E. apply (in_map fst) in E. exact E.
  - apply aget_none in E. destruct (mem k (keys d)) eqn:M; [|reflexivity]. apply mem_In in M. contradiction.
Qed.
Lemma keys_aset k v d : keys (aset k v d) = cols_set k (keys d).
Proof.
  unfold cols_set, keys, mem. induction d as [|[k' v'] d IH]; cbn; [reflexivity|].
  destruct (String.eqb k k') eqn:E; cbn; [reflexivity|]. rewrite IH. destruct (existsb (String.eqb k) (map fst d)); reflexivity.
Qed.
Lemma In_keys_aset k v d x : In x (keys (aset k v d)) <-> x = k \/ In x (keys d).
Proof.
  rewrite keys_aset. unfold cols_set. destruct (mem k (keys d)) eqn:M.
  - apply mem_In in M. split; [tauto|]. intros [->|?]; assumption.
  - rewrite in_app_iff. cbn. split; [intros [?|[?|[]]]; auto|intros [?|?]; auto].
Qed.
Lemma NoDup_aset k v d : NoDup (keys d) -> NoDup (keys (aset k v d)).
Proof.
  intros H. rewrite keys_aset. unfold cols_set. destruct (mem k (keys d)) eqn:M; [assumption|].
  apply NoDup_rev in H. rewrite <- (rev_involutive (keys d ++ [k])). apply NoDup_rev. rewrite rev_app_distr. cbn.
  constructor; [|assumption]. rewrite <- in_rev. intros I. apply mem_In in I. congruence.
Qed.
Lemma In_adel k d x : In x (adel k d) -> In x d.
Proof. induction d as [|[k' v'] d IH]; cbn; [tauto|]. destruct (String.eqb k k'); cbn; [tauto|]. intros [?|?]; auto. Qed.
Lemma keys_adel k d : NoDup (keys d) -> keys (adel k d) = filter (fun x => negb (String.eqb k x)) (keys d).
Proof.
  unfold keys. induction d as [|[k' v'] d IH]; cbn; [reflexivity|]. intros H. inversion H; subst.
  destruct (String.eqb_spec k k'); cbn.
  - subst. symmetry. apply filter_id. intros x Hx. destruct (String.eqb_spec k' x); [subst; contradiction|reflexivity].
  - f_equal. apply IH. assumption.
Qed.
Lemma NoDup_adel k d : NoDup (keys d) -> NoDup (keys (adel k d)).
Proof. intros H. rewrite keys_adel by assumption. apply NoDup_filter. assumption. Qed.
Lemma In_aset k v d x : In x (aset k v d) -> In x d \/ x = (k, v) \/ (exists k', String.eqb k k' = true /\ x = (k', v)).
Proof.
  induction d as [|[k' v'] d IH]; cbn.
  - intros [<-|[]]. right. left. reflexivity.
  - destruct (String.eqb k k') eqn:E; cbn.
    + intros [<-|?]; [right; right; exists k'; auto|left; right; assumption].
    + intros [<-|?]; [left; left; reflexivity|]. destruct (IH H) as [?|?]; [left; right; assumption|right; assumption].
Qed.
Lemma In_aset_val k v d x : In x (aset k v d) -> In x d \/ snd x = v.
Proof. intros H. destruct (In_aset _ _ _ _ H) as [?|[->|[k' [_ ->]]]]; auto. Qed.
Lemma fold_aset_inv (P : list (colname * V) -> Prop) kvs d :
  P d -> (forall k v d, P d -> P (aset k v d)) -> P (fold_left (fun d kv => aset (fst kv) (snd kv) d) kvs d).
Proof. revert d. induction kvs; intros d H0 H; cbn; [assumption|]. apply IHkvs; [apply H; assumption|assumption]. Qed.
Lemma NoDup_dict_of (kvs : list (colname * V)) : NoDup (keys (dict_of kvs)).
Proof. unfold dict_of. apply (fold_aset_inv (fun d => NoDup (keys d))); [constructor|]. intros. apply NoDup_aset. assumption. Qed.
Lemma Forall_aset (P : V -> Prop) k v d : Forall (fun kv => P (snd kv)) d -> P v -> Forall (fun kv => P (snd kv)) (aset k v d).
Proof.
  intros Hd Hv. apply Forall_forall. intros x Hx. destruct (In_aset_val _ _ _ _ Hx) as [I|E]; [|rewrite E; assumption].
  rewrite Forall_forall in Hd. apply Hd. assumption.
Qed.
Lemma Forall_fold_aset (P : V -> Prop) kvs d :
  Forall (fun kv => P (snd kv)) kvs -> Forall (fun kv => P (snd kv)) d ->
  Forall (fun kv => P (snd kv)) (fold_left (fun acc kv => aset (fst kv) (snd kv) acc) kvs d).
Proof.
  revert d. induction kvs as [|[k v] kvs IH]; intros d Hk Hd; cbn; [assumption|]. inversion Hk; subst.
  apply IH; [assumption|]. apply Forall_aset; assumption.
Qed.
Lemma Forall_dict_of (P : V -> Prop) (kvs : list (colname * V)) :
  Forall (fun kv => P (snd kv)) kvs -> Forall (fun kv => P (snd kv)) (dict_of kvs).
Proof. intros H. unfold dict_of. apply Forall_fold_aset; [assumption|constructor]. Qed.
Lemma aset_not_nil k v d : aset k v d <> [].
Proof. destruct d as [|[k' v'] d]; cbn; [discriminate|]. destruct (String.eqb k k'); discriminate. Qed.
Lemma dict_of_not_nil (kvs : list (colname * V)) : kvs <> [] -> dict_of kvs <> [].
Proof.
  destruct kvs as [|[k v] kvs]; [congruence|]. intros _. unfold dict_of. cbn [fold_left].
  apply (fold_aset_inv (fun d => d <> [])); [apply aset_not_nil|]. intros. apply aset_not_nil.
Qed.
Lemma aset_fresh k v d : ~ In k (keys d) -> aset k v d = d ++ [(k, v)].
Proof.
  unfold keys. induction d as [|[k' v'] d IH]; cbn; intros H; [reflexivity|]. destruct (String.eqb_spec k k'); [subst; tauto|].
  f_equal. apply IH. tauto.
Qed.
Lemma fold_aset_nodup (kvs d : list (colname * V)) :
  NoDup (keys (d ++ kvs)) -> fold_left (fun acc kv => aset (fst kv) (snd kv) acc) kvs d = d ++ kvs.
Proof.
  revert d. induction kvs as [|[k v] kvs IH]; intros d H; cbn [fold_left fst snd]; [rewrite app_nil_r; reflexivity|].
  rewrite aset_fresh.
  - rewrite IH; rewrite <- app_assoc; [reflexivity|exact H].
  - unfold keys in *. rewrite map_app in H. cbn in H. apply NoDup_remove_2 in H. intros I. apply H. apply in_or_app. left. assumption.
Qed.
Lemma dict_of_nodup_id (kvs : list (colname * V)) : NoDup (keys kvs) -> dict_of kvs = kvs.
Proof. intros H. unfold dict_of. rewrite fold_aset_nodup; [reflexivity|exact H]. Qed.
End Assoc.

(* ------------------------------------------------------------------ lens *)
Lemma lens_spec ls n : lens ls = Some n -> Forall (fun l => l = n \/ l = 1) ls.
Proof.
  unfold lens. intros H. apply Forall_forall. intros l Hl.
  destruct (Nat.eq_dec l 1) as [|N]; [right; assumption|left].
  assert (I : In l (nodup Nat.eq_dec (filter (fun n => negb (Nat.eqb n 1)) ls))).
  { apply nodup_In. apply filter_In. split; [assumption|]. apply negb_true_iff. apply Nat.eqb_neq. assumption. }
  destruct (nodup Nat.eq_dec (filter (fun n => negb (Nat.eqb n 1)) ls)) as [|x [|y r]]; [destruct I| |discriminate].
  inversion H; subst. destruct I as [<-|[]]. reflexivity.
Qed.
Lemma nodup_const n ls : Forall (fun l => l = n) ls -> ls <> [] -> nodup Nat.eq_dec ls = [n].
Proof.
  induction ls as [|a ls IH]; intros H N; [congruence|]. inversion H; subst. cbn.
  destruct ls as [|b ls]; [reflexivity|]. destruct (in_dec Nat.eq_dec n (b :: ls)) as [I|I].
  - apply IH; [assumption|discriminate].
  - exfalso. apply I. inversion H3; subst. left. reflexivity.
Qed.
Lemma lens_const n ls : Forall (fun l => l = n) ls -> ls <> [] -> lens ls = Some n.
Proof.
  intros H N. unfold lens. destruct (Nat.eq_dec n 1) as [->|N1].
  - replace (filter (fun n => negb (Nat.eqb n 1)) ls) with (@nil nat).
    + cbn. destruct ls; [congruence|reflexivity].
    + symmetry. clear N. induction ls; [reflexivity|]. inversion H; subst. cbn. apply IHls. assumption.
  - rewrite filter_id.
    + rewrite (nodup_const n); auto.
    + intros x Hx. rewrite Forall_forall in H. rewrite (H x Hx). apply negb_true_iff. apply Nat.eqb_neq. assumption.
Qed.
Lemma bcast_id {A} n (l : list A) : len l = n -> bcast n l = l.
Proof. intros H. destruct l as [|x [|y l]]; cbn in *; subst; reflexivity. Qed.
Lemma In_bcast {A} n (l : list A) x : In x (bcast n l) -> In x l.
Proof.
  destruct l as [|a [|b l]]; cbn -[Nat.ltb]; auto. destruct (Nat.ltb 1 n); [|auto]. intros H. apply repeat_spec in H. left. congruence.
Qed.
Lemma minlen_const n (ls : list (list cell)) : Forall (fun l => len l = n) ls -> ls <> [] -> minlen ls = n.
Proof.
  destruct ls as [|l ls]; [congruence|]. intros H _. inversion H; subst. cbn. clear H.
  induction ls as [|a ls IH]; cbn; [reflexivity|]. inversion H3; subst. rewrite H1, Nat.min_id. apply IH. assumption.
Qed.

(* ------------------------------------------------------------------ rectangular tables *)
Definition Lens (n : nat) (c : ctable) : Prop := Forall (fun kv => len (snd kv) = n) c.
Lemma Lens_nrows n c : Lens n c -> c <> [] -> nrows c = n.
Proof. destruct c as [|kv c]; [congruence|]. intros H _. inversion H; subst. reflexivity. Qed.
Lemma Rect_Lens c : Rect c -> Lens (nrows c) c.
Proof. intros [_ [n H]]. destruct c as [|kv c]; [constructor|]. rewrite (Lens_nrows n); [assumption|assumption|discriminate]. Qed.
Lemma Lens_vals n c : Lens n c -> Forall (fun l => len l = n) (vals c).
Proof. unfold vals. intros H. apply Forall_map. exact H. Qed.
Lemma lens_Lens n c : Lens n c -> c <> [] -> lens (map (@len cell) (vals c)) = Some n.
Proof.
  intros H N. apply lens_const.
  - apply Forall_map. apply Lens_vals. assumption.
  - destruct c; [congruence|discriminate].
Qed.
Lemma tlen_Lens n c : Lens n c -> c <> [] -> tlen c = n.
Proof. intros H N. unfold tlen. rewrite (lens_Lens n); auto. Qed.
Lemma tlen_rect c : Rect c -> tlen c = nrows c.
Proof. intros H. destruct c as [|kv c]; [reflexivity|]. apply tlen_Lens; [apply Rect_Lens; assumption|discriminate]. Qed.
Lemma minlen_Lens n c : Lens n c -> c <> [] -> minlen (vals c) = n.
Proof. intros H N. apply minlen_const; [apply Lens_vals; assumption|destruct c; [congruence|discriminate]]. Qed.
Lemma iter_Lens n c : Lens n c -> c <> [] -> c_iter c = map (fun i => rec_at i c) (seq 0 n).
Proof. intros H N. unfold c_iter. rewrite (minlen_Lens n); auto. Qed.
Lemma iter_nil : c_iter [] = [].
Proof. reflexivity. Qed.
Lemma iter_rect c : Rect c -> c_iter c = map (fun i => rec_at i c) (seq 0 (nrows c)).
Proof. intros H. destruct c as [|kv c]; [reflexivity|]. apply iter_Lens; [apply Rect_Lens; assumption|discriminate]. Qed.
Lemma iter_length c : Rect c -> len (c_iter c) = nrows c.
Proof. intros H. rewrite iter_rect by assumption. rewrite map_length, seq_length. reflexivity. Qed.
Lemma finish_id n c : Lens n c -> finish c = Ok c.
Proof.
  intros H. destruct c as [|kv c]; [reflexivity|]. unfold finish. rewrite (lens_Lens n) by (auto; discriminate).
  f_equal. unfold mapv. rewrite <- (map_id (kv :: c)) at 2. apply map_ext_in. intros [k v] I. cbn. f_equal.
  unfold Lens in H. rewrite Forall_forall in H. specialize (H _ I). cbn in H. destruct v as [|x [|y v]]; cbn in *; subst; reflexivity.
Qed.
Lemma finish_Lens c c' : finish c = Ok c' -> exists n, lens (map (@len cell) (vals c)) = Some n /\ Lens n c' /\ keys c' = keys c.
Proof.
  unfold finish. destruct (lens (map (@len cell) (vals c))) as [n|] eqn:E; [|discriminate]. intros H. inversion H; subst. clear H.
  exists n. split; [reflexivity|]. split; [|apply keys_mapv].
  apply lens_spec in E. unfold Lens, mapv. apply Forall_map. apply Forall_forall. intros [k v] I. cbn.
  rewrite Forall_forall in E. assert (Hv : len v = n \/ len v = 1). { apply E. unfold vals. rewrite map_map. apply (in_map (fun x => len (snd x)) _ _ I). }
  destruct v as [|x [|y v]]; cbn in *; [lia|apply repeat_length|lia].
Qed.
Lemma finish_Rect c c' : NoDup (keys c) -> finish c = Ok c' -> Rect c'.
Proof. intros N H. destruct (finish_Lens _ _ H) as [n [_ [L K]]]. split; [rewrite K; assumption|exists n; exact L]. Qed.
Lemma abs_nil : abs [] = r_empty.
Proof. reflexivity. Qed.
Lemma Rect_nil : Rect [].
Proof. split; [constructor|exists 0; constructor]. Qed.

(* ------------------------------------------------------------------ helpers *)
Lemma rmap_Ok {A B} (f : A -> B) x : rmap f (Ok x) = Ok (f x).
Proof. reflexivity. Qed.
Lemma bind_Ok {A B} (f : A -> res B) x : Ok x >>= f = f x.
Proof. reflexivity. Qed.
Lemma Lens_In n c k v : Lens n c -> In (k, v) c -> len v = n.
Proof. unfold Lens. rewrite Forall_forall. intros H I. exact (H _ I). Qed.
Lemma nth_map_seq {B} (f : nat -> B) n j d : j < n -> nth j (map f (seq 0 n)) d = f j.
Proof. intros H. rewrite (nth_indep _ d (f 0)) by (rewrite map_length, seq_length; assumption). rewrite map_nth, seq_nth by assumption. reflexivity. Qed.
Lemma mapv_id_pair {V} (r : list (colname * V)) : map (fun kv => (fst kv, snd kv)) r = r.
Proof. induction r as [|[k v] r IH]; cbn; [reflexivity|]. f_equal. exact IH. Qed.
Definition py_idx (n : nat) (i : Z) : option nat :=
  let nz := Z.of_nat n in let j := if (i <? 0)%Z then (i + nz)%Z else i in
  if ((0 <=? j)%Z && (j <? nz)%Z)%bool then Some (Z.to_nat j) else None.
Lemma py_idx_lt n i j : py_idx n i = Some j -> j < n.
Proof. unfold py_idx. destruct (i <? 0)%Z; destruct (_ && _)%bool eqn:E; intros H; inversion H; subst; apply andb_true_iff in E; destruct E as [E1 E2]; apply Z.leb_le in E1; apply Z.ltb_lt in E2; lia. Qed.
Lemma py_nth_idx {A} (l : list A) i d : py_nth l i = match py_idx (len l) i with Some j => Ok (nth j l d) | None => Err EIndex end.
Proof.
  unfold py_nth. pose proof (py_idx_lt (len l) i) as L. unfold py_idx in *. cbv zeta in *.
  destruct ((0 <=? (if (i <? 0)%Z then (i + Z.of_nat (len l))%Z else i))%Z && ((if (i <? 0)%Z then (i + Z.of_nat (len l))%Z else i) <? Z.of_nat (len l))%Z)%bool; [|reflexivity].
  rewrite (nth_error_nth' l d); [reflexivity|]. apply L. reflexivity.
Qed.
Lemma rec_at_aset i key l c : rec_at i (aset key l c) = aset key (nth i l CNone) (rec_at i c).
Proof. unfold rec_at. exact (mapv_aset (fun col => nth i col CNone) key l c). Qed.
Lemma get_rec_at i key c col : aget key c = Some col -> get_or_none key (rec_at i c) = nth i col CNone.
Proof. intros E. unfold get_or_none, rec_at. rewrite aget_mapv, E. reflexivity. Qed.
Lemma get_rec_at_none i key c : aget key c = None -> get_or_none key (rec_at i c) = CNone.
Proof. intros E. unfold get_or_none, rec_at. rewrite aget_mapv, E. reflexivity. Qed.
Lemma keys_rec_at i c : keys (rec_at i c) = keys c.
Proof. apply keys_mapv. Qed.

(* ------------------------------------------------------------------ __setitem__ *)
Lemma Lens_aset n key l c : Lens n c -> len l = n -> Lens n (aset key l c).
Proof. intros H E. apply (Forall_aset (fun v => len v = n)); assumption. Qed.
Lemma Rect_aset c key l : Rect c -> (len l = nrows c \/ c = []) -> Rect (aset key l c).
Proof.
  intros R H. split; [apply NoDup_aset; apply R|]. destruct H as [H| ->].
  - exists (nrows c). apply Lens_aset; [apply Rect_Lens; assumption|assumption].
  - exists (len l). cbn. constructor; [reflexivity|constructor].
Qed.
Lemma abs_aset c key l : Rect c -> (len l = nrows c \/ c = []) -> abs (aset key l c) = r_setrows (abs c) key l.
Proof.
  intros R H. unfold abs, r_setrows. cbn [cols recs]. f_equal; [apply keys_aset|].
  destruct c as [|kv c1] eqn:Ec.
  - cbn. apply (map_seq_nth (fun x => [(key, x)])).
  - rewrite <- Ec in *. assert (N : c <> []) by (rewrite Ec; discriminate).
    destruct H as [H|H]; [|congruence].
    assert (L : Lens (len l) (aset key l c)). { apply Lens_aset; [rewrite H; apply Rect_Lens; assumption|reflexivity]. }
    rewrite (iter_Lens (len l) _ L (aset_not_nil _ _ _)). rewrite (iter_rect c) by assumption.
    replace (keys c) with (fst kv :: keys c1) by (rewrite Ec; reflexivity). rewrite <- H.
    rewrite (combine_map_seq _ l CNone 0). rewrite map_map. apply map_ext. intros i. cbn [fst snd]. rewrite Nat.sub_0_r. apply rec_at_aset.
Qed.
Lemma set_cases c key v : Rect c ->
  (exists l, c_set c key v = Ok (aset key l c) /\ r_set (abs c) key v = Ok (r_setrows (abs c) key l) /\ (len l = nrows c \/ c = []))
  \/ (c_set c key v = Err EValue /\ r_set (abs c) key v = Err EValue).
Proof.
  intros R. unfold c_set, r_set. cbn [cols recs abs]. rewrite iter_length, tlen_rect by assumption. unfold keys. rewrite map_length.
  destruct (Nat.eqb (len (value_list v)) (nrows c) || Nat.eqb (len c) 0)%bool eqn:E.
  - left. exists (value_list v). split; [reflexivity|]. split; [reflexivity|]. apply orb_true_iff in E. destruct E as [E|E].
    + left. apply Nat.eqb_eq. assumption.
    + right. apply Nat.eqb_eq in E. destruct c; [reflexivity|discriminate].
  - destruct (value_list v) as [|x [|y l]]; [right; auto| |right; auto].
    left. exists (repeat x (nrows c)). split; [reflexivity|]. split; [reflexivity|]. left. apply repeat_length.
Qed.
Lemma ref_set c key v : Rect c -> r_set (abs c) key v = rmap abs (c_set c key v).
Proof.
  intros R. destruct (set_cases c key v R) as [[l [-> [-> H]]]|[-> ->]]; [|reflexivity]. cbn. rewrite abs_aset; auto.
Qed.
Lemma rect_set c key v c' : Rect c -> c_set c key v = Ok c' -> Rect c'.
Proof.
  intros R E. destruct (set_cases c key v R) as [[l [E' [_ H]]]|[E' _]]; rewrite E' in E; [|discriminate].
  inversion E; subst. apply Rect_aset; assumption.
Qed.

(* ------------------------------------------------------------------ __delitem__ *)
Lemma Lens_adel n key c : Lens n c -> Lens n (adel key c).
Proof. unfold Lens. rewrite !Forall_forall. intros H x I. apply H. apply In_adel in I. assumption. Qed.
Lemma ref_del c key : Rect c -> r_del (abs c) key = rmap abs (c_del c key).
Proof.
  intros R. unfold r_del, c_del. cbn [cols recs abs]. rewrite aget_mem. destruct (aget key c) eqn:E; [|reflexivity]. unfold Ok. cbn [rmap].
  f_equal. unfold abs. rewrite <- keys_adel by apply R. f_equal.
  destruct (adel key c) as [|kv' c'] eqn:Ea; [reflexivity|]. replace (keys (kv' :: c')) with (fst kv' :: keys c') by reflexivity. cbv iota.
  rewrite <- Ea. rewrite (iter_Lens (nrows c) (adel key c)).
  - rewrite iter_rect by assumption. rewrite map_map. apply map_ext. intros i. unfold rec_at. symmetry. exact (mapv_adel (fun col => nth i col CNone) key c).
  - apply Lens_adel. apply Rect_Lens. assumption.
  - rewrite Ea. discriminate.
Qed.
Lemma rect_del c key c' : Rect c -> c_del c key = Ok c' -> Rect c'.
Proof.
  intros R. unfold c_del. destruct (aget key c); [|discriminate]. intros E. inversion E; subst.
  split; [apply NoDup_adel; apply R|]. exists (nrows c). apply Lens_adel. apply Rect_Lens. assumption.
Qed.

(* ------------------------------------------------------------------ d[i], d[key] *)
Lemma ref_getrow c i : Rect c -> r_getrow (abs c) i = c_getrow c i.
Proof.
  intros R. unfold r_getrow, c_getrow. cbn [cols recs abs]. destruct c as [|kv c]; [reflexivity|].
  remember (kv :: c) as c0. replace (keys c0) with (fst kv :: keys c) by (subst; reflexivity). cbv iota.
  rewrite (py_nth_idx (c_iter c0) i []). rewrite iter_length by assumption.
  assert (Hc : forall kv0, In kv0 c0 -> py_nth (snd kv0) i = match py_idx (nrows c0) i with Some j => Ok (nth j (snd kv0) CNone) | None => Err EIndex end).
  { intros [k v] I. cbn [snd]. rewrite (py_nth_idx v i CNone). rewrite (Lens_In (nrows c0) c0 k v); [reflexivity|apply Rect_Lens; assumption|assumption]. }
  destruct (py_idx (nrows c0) i) as [j|] eqn:Ej.
  - rewrite (mapM_ok _ (fun kv0 => (fst kv0, nth j (snd kv0) CNone))).
    + rewrite iter_rect by assumption. rewrite nth_map_seq by (eapply py_idx_lt; eassumption). reflexivity.
    + intros kv0 I. rewrite (Hc kv0 I). reflexivity.
  - subst c0. cbn [mapM]. rewrite (Hc kv (or_introl eq_refl)). reflexivity.
Qed.
Lemma ref_getcol c key : Rect c -> r_getcol (abs c) key = c_getcol c key.
Proof.
  intros R. unfold r_getcol, c_getcol. cbn [cols recs abs]. rewrite aget_mem. destruct (aget key c) as [col|] eqn:E; [|reflexivity].
  unfold Ok. f_equal. rewrite iter_rect by assumption. rewrite map_map.
  rewrite (map_ext _ (fun i => nth i col CNone)) by (intros; apply get_rec_at; assumption).
  rewrite <- (Lens_In (nrows c) c key col); [apply seq_nth_id|apply Rect_Lens; assumption|apply aget_some_in; assumption].
Qed.

(* ------------------------------------------------------------------ single record, records *)
Lemma of_record_ok r : c_of_record r = Ok (mapv (fun x => [x]) r).
Proof. unfold c_of_record. apply (finish_id 1). unfold Lens, mapv. apply Forall_map. apply Forall_forall. intros; reflexivity. Qed.
Lemma abs_singleton r : abs (mapv (fun x => [x]) r) = match r with [] => r_empty | _ => mkR (keys r) [r] end.
Proof.
  destruct r as [|kv r]; [reflexivity|]. remember (kv :: r) as r0. unfold abs. rewrite keys_mapv. f_equal.
  rewrite (iter_Lens 1).
  - cbn [seq map]. f_equal. unfold rec_at, mapv. rewrite map_map. cbn. apply mapv_id_pair.
  - unfold Lens, mapv. apply Forall_map. apply Forall_forall. intros; reflexivity.
  - subst. discriminate.
Qed.
Lemma ref_of_record r : r_of_record r = rmap abs (c_of_record r).
Proof. rewrite of_record_ok. cbn. rewrite abs_singleton. reflexivity. Qed.
Lemma rect_of_record r c' : NoDup (keys r) -> c_of_record r = Ok c' -> Rect c'.
Proof. intros N H. unfold c_of_record in H. apply finish_Rect in H; [assumption|]. rewrite keys_mapv. assumption. Qed.
Lemma keys_map_pair {V} (f : colname -> V) U : keys (map (fun k => (k, f k)) U) = U.
Proof. unfold keys. rewrite map_map. cbn. apply map_id. Qed.
Lemma abs_records_table U (rs : list record) : U <> [] ->
  abs (map (fun k => (k, map (get_or_none k) rs)) U) = mkR U (map (rekey U) rs).
Proof.
  intros NU. unfold abs. rewrite keys_map_pair. f_equal. rewrite (iter_Lens (len rs)).
  - rewrite <- (map_seq_nth (rekey U) rs []). apply map_ext. intros i. unfold rec_at, mapv, rekey. rewrite map_map. cbn [fst snd].
    apply map_ext. intros k. f_equal. change CNone with (get_or_none k []). apply map_nth.
  - unfold Lens. apply Forall_map. apply Forall_forall. intros; cbn. apply map_length.
  - destruct U; [congruence|discriminate].
Qed.
Lemma new_records_many (rs : list record) : 2 <= len rs ->
  c_new_records rs = Ok (map (fun k => (k, map (get_or_none k) rs)) (union_keys rs)).
Proof.
  intros H. destruct rs as [|d1 [|d2 rs]]; cbn in H; try lia. unfold c_new_records. apply (finish_id (len (d1 :: d2 :: rs))).
  unfold Lens. apply Forall_map. apply Forall_forall. intros; cbn [snd]. apply map_length.
Qed.
Lemma ref_new_records rs : r_new_records rs = rmap abs (c_new_records rs).
Proof.
  destruct rs as [|d1 [|d2 rs]]; [reflexivity| |].
  - change (c_new_records [d1]) with (c_of_record d1). rewrite of_record_ok. cbn. rewrite abs_singleton. reflexivity.
  - rewrite new_records_many by (cbn; lia). unfold r_new_records. rewrite rmap_Ok. remember (d1 :: d2 :: rs) as rs0.
    destruct (union_keys rs0) eqn:EU; [reflexivity|]. rewrite <- EU. rewrite abs_records_table by (rewrite EU; discriminate). reflexivity.
Qed.
Lemma NoDup_union_keys {V} (ds : list (list (colname * V))) : NoDup (union_keys ds).
Proof. apply NoDup_nodup. Qed.
Lemma rect_new_records rs c' : Forall (fun r => NoDup (keys r)) rs -> c_new_records rs = Ok c' -> Rect c'.
Proof.
  intros N H. destruct rs as [|d1 [|d2 rs]].
  - inversion H. apply Rect_nil.
  - inversion N; subst. apply (rect_of_record d1); assumption.
  - rewrite new_records_many in H by (cbn; lia). inversion H; subst. split.
    + rewrite keys_map_pair. apply NoDup_union_keys.
    + exists (S (S (len rs))). apply Forall_map. apply Forall_forall. intros; cbn. rewrite map_length. reflexivity.
Qed.

(* ------------------------------------------------------------------ d(key = ...), do *)
Lemma ref_call c key arg : Rect c -> r_call (abs c) key arg = rmap abs (c_call c key arg).
Proof.
  intros R. destruct arg as [v|f]; cbn [r_call c_call]; [apply ref_set; assumption|].
  cbn [recs abs]. match goal with |- context [mapM ?g (c_iter c)] => destruct (mapM g (c_iter c)) end; cbn [bind]; [apply ref_set; assumption|reflexivity].
Qed.
Lemma rect_call c key arg c' : Rect c -> c_call c key arg = Ok c' -> Rect c'.
Proof.
  intros R. destruct arg as [v|f]; cbn [c_call]; [apply rect_set; assumption|].
  match goal with |- context [mapM ?g (c_iter c)] => destruct (mapM g (c_iter c)) end; cbn [bind]; [apply rect_set; assumption|discriminate].
Qed.
Lemma ref_do1 f c key : Rect c -> r_do1 f (abs c) key = rmap abs (c_do1 f c key).
Proof.
  intros R. unfold r_do1, c_do1. cbn [recs abs]. match goal with |- context [mapM ?g (c_iter c)] => destruct (mapM g (c_iter c)) end; cbn [bind]; [apply ref_set; assumption|reflexivity].
Qed.
Lemma rect_do1 f c key c' : Rect c -> c_do1 f c key = Ok c' -> Rect c'.
Proof. intros R. unfold c_do1. match goal with |- context [mapM ?g (c_iter c)] => destruct (mapM g (c_iter c)) end; cbn [bind]; [apply rect_set; assumption|discriminate]. Qed.
Lemma do_fold (kfs : list (colname * colfn)) (x : res ctable) :
  match x with inl c => Rect c | inr _ => True end ->
  fold_left (fun acc kf => acc >>= fun t => r_do1 (snd kf) t (fst kf)) kfs (rmap abs x) = rmap abs (fold_left (fun acc kf => acc >>= fun t => c_do1 (snd kf) t (fst kf)) kfs x)
  /\ match fold_left (fun acc kf => acc >>= fun t => c_do1 (snd kf) t (fst kf)) kfs x with inl c => Rect c | inr _ => True end.
Proof.
  revert x. induction kfs as [|[k f] kfs IH]; intros x Hx; cbn [fold_left]; [split; [reflexivity|assumption]|].
  destruct x as [c|e]; cbn [rmap bind fst snd].
  - rewrite (ref_do1 f c k Hx). apply IH. destruct (c_do1 f c k) eqn:E; [eapply rect_do1; eassumption|exact I].
  - apply (IH (inr e)). exact I.
Qed.
Lemma ref_do c fs ks : Rect c -> r_do (abs c) fs ks = rmap abs (c_do c fs ks).
Proof. intros R. unfold r_do, c_do. cbn [cols abs]. apply (do_fold _ (Ok c)). exact R. Qed.
Lemma rect_do c fs ks c' : Rect c -> c_do c fs ks = Ok c' -> Rect c'.
Proof. intros R E. unfold c_do in E. pose proof (proj2 (do_fold (do_steps (match ks with None => keys c | Some l => l end) fs) (Ok c) R)) as H. unfold Ok in *. rewrite E in H. exact H. Qed.

(* ------------------------------------------------------------------ masks: rows through dict_concat *)
Lemma rekey_self (r : record) : NoDup (keys r) -> rekey (keys r) r = r.
Proof.
  unfold rekey, keys. induction r as [|[k v] r IH]; intros N; [reflexivity|]. inversion N; subst. cbn [map fst].
  f_equal.
  - unfold get_or_none. cbn. rewrite String.eqb_refl. reflexivity.
  - rewrite <- IH at 2 by assumption. apply map_ext_in. intros k' I. f_equal. unfold get_or_none. cbn.
    destruct (String.eqb_spec k' k); [subst; contradiction|reflexivity].
Qed.
Lemma nodup_app_absorb (K L : list colname) : incl K L -> nodup string_dec (K ++ L) = nodup string_dec L.
Proof.
  induction K as [|a K IH]; intros I; [reflexivity|]. cbn. destruct (in_dec string_dec a (K ++ L)) as [J|J].
  - apply IH. intros x Hx. apply I. right. assumption.
  - exfalso. apply J. apply in_or_app. right. apply I. left. reflexivity.
Qed.
Lemma union_keys_uniform K (rs : list record) : NoDup K -> rs <> [] -> Forall (fun r => keys r = K) rs -> union_keys rs = K.
Proof.
  intros N NE H. rewrite Forall_forall in H. unfold union_keys. induction rs as [|r rs IH]; [congruence|]. cbn [flat_map].
  destruct rs as [|r' rs].
  - cbn. rewrite app_nil_r. rewrite (H r (or_introl eq_refl)). apply nodup_fixed_point. assumption.
  - rewrite nodup_app_absorb.
    + apply IH; [discriminate|]. intros x I. apply H. right. assumption.
    + intros x Hx. cbn [flat_map]. apply in_or_app. left. rewrite (H r' (or_intror (or_introl eq_refl))). rewrite (H r (or_introl eq_refl)) in Hx. assumption.
Qed.
Lemma map_id_in {A} (f : A -> A) l : (forall a, In a l -> f a = a) -> map f l = l.
Proof. intros H. rewrite <- (map_id l) at 2. apply map_ext_in. assumption. Qed.
Lemma new_records_uniform K (rs : list record) : NoDup K -> K <> [] -> rs <> [] -> Forall (fun r => keys r = K) rs ->
  rmap abs (c_new_records rs) = Ok (mkR K rs).
Proof.
  intros N NK NE H. rewrite <- ref_new_records. destruct rs as [|d1 [|d2 rs]]; [congruence| |].
  - inversion H; subst. cbn. destruct d1; [exfalso; apply NK; reflexivity|reflexivity].
  - unfold r_new_records. rewrite (union_keys_uniform K) by assumption. destruct K; [congruence|]. f_equal. f_equal.
    apply map_id_in. intros r I. rewrite Forall_forall in H. rewrite <- (H r I). apply rekey_self. rewrite (H r I). assumption.
Qed.
Lemma Rect_empty_cols c : Rect c -> Rect (empty_cols c).
Proof. intros R. split; [unfold empty_cols; rewrite keys_mapv; apply R|]. exists 0. unfold empty_cols, mapv. apply Forall_map. apply Forall_forall. intros; reflexivity. Qed.
Lemma abs_empty_cols c : abs (empty_cols c) = mkR (keys c) [].
Proof.
  unfold abs. unfold empty_cols at 1. rewrite keys_mapv. f_equal. destruct c as [|kv c]; [reflexivity|].
  rewrite (iter_Lens 0); [reflexivity| |discriminate]. unfold empty_cols, mapv. apply Forall_map. apply Forall_forall. intros; reflexivity.
Qed.
Lemma iter_keys c : Rect c -> Forall (fun r => keys r = keys c) (c_iter c).
Proof. intros R. rewrite iter_rect by assumption. apply Forall_map. apply Forall_forall. intros. apply keys_rec_at. Qed.
Lemma In_kept {A} (xs : list A) m n x : In x (kept (combine (bcast n xs) (bcast n m))) -> In x xs.
Proof.
  unfold kept. intros H. apply in_map_iff in H. destruct H as [[a b] [<- H]]. apply filter_In in H. destruct H as [H _].
  apply in_combine_l in H. apply In_bcast in H. assumption.
Qed.
Lemma zipper2_In {A B} (xs : list A) (m : list B) ps : zipper2 xs m = Ok ps -> forall x, In x (map fst ps) -> In x xs.
Proof.
  unfold zipper2. destruct (lens _); [|discriminate]. intros H. inversion H; subst. intros x I.
  apply in_map_iff in I. destruct I as [[a b] [<- I]]. apply in_combine_l in I. apply In_bcast in I. assumption.
Qed.
Lemma In_kept_fst {A} (ps : list (A * bool)) x : In x (kept ps) -> In x (map fst ps).
Proof. unfold kept. intros H. apply in_map_iff in H. destruct H as [p [<- H]]. apply filter_In in H. apply in_map. apply H. Qed.
Lemma ref_mask c m : Rect c -> r_mask (abs c) m = rmap abs (c_mask c m).
Proof.
  intros R. unfold r_mask, c_mask. cbn [cols recs abs]. destruct m as [|b m]; [rewrite rmap_Ok, abs_empty_cols; reflexivity|].
  destruct (zipper2 (c_iter c) (b :: m)) as [ps|e] eqn:Z; cbn [bind]; [|reflexivity].
  destruct (kept ps) as [|r rs] eqn:K; [rewrite rmap_Ok, abs_empty_cols; reflexivity|].
  assert (F : Forall (fun r0 => keys r0 = keys c) (r :: rs)).
  { apply Forall_forall. intros x I. rewrite <- K in I. apply In_kept_fst in I. apply (zipper2_In _ _ _ Z) in I.
    pose proof (iter_keys c R) as IK. rewrite Forall_forall in IK. apply IK. assumption. }
  symmetry. apply new_records_uniform; [apply R| |discriminate|assumption].
  destruct c; [|discriminate]. exfalso. assert (I : In r (kept ps)) by (rewrite K; left; reflexivity).
  apply In_kept_fst in I. apply (zipper2_In _ _ _ Z) in I. destruct I.
Qed.
Lemma rect_mask c m c' : Rect c -> c_mask c m = Ok c' -> Rect c'.
Proof.
  intros R. unfold c_mask. destruct m as [|b m]; [intros H; inversion H; apply Rect_empty_cols; assumption|].
  destruct (zipper2 (c_iter c) (b :: m)) as [ps|e] eqn:Z; cbn [bind]; [|discriminate].
  destruct (kept ps) as [|r rs] eqn:K; [intros H; inversion H; apply Rect_empty_cols; assumption|].
  apply rect_new_records. apply Forall_forall. intros x I. rewrite <- K in I. apply In_kept_fst in I. apply (zipper2_In _ _ _ Z) in I.
  pose proof (iter_keys c R) as IK. rewrite Forall_forall in IK. rewrite (IK x I). apply R.
Qed.

(* ------------------------------------------------------------------ projections, relabel, tuples *)
Definition colof (c : ctable) (k : colname) : list cell := match aget k c with Some col => col | None => [] end.
Definition chk (c : ctable) (k : colname) : res colname := if mem k (keys c) then Ok k else Err EKey.
Lemma chk_id c names ks : mapM (chk c) names = Ok ks -> ks = names /\ forall k, In k names -> exists col, aget k c = Some col.
Proof.
  revert ks. induction names as [|k names IH]; cbn; intros ks H; [inversion H; split; [reflexivity|intros ? []]|].
  unfold chk at 1 in H. rewrite aget_mem in H. destruct (aget k c) as [col|] eqn:E; [|discriminate].
  destruct (mapM (chk c) names) as [ks'|] eqn:M; [|discriminate]. inversion H; subst. destruct (IH _ eq_refl) as [-> HI].
  split; [reflexivity|]. intros k' [<-|I]; [exists col; assumption|apply HI; assumption].
Qed.
Lemma getcols_mapM {B} c (g : colname -> list cell -> B) names :
  mapM (fun k => c_getcol c k >>= fun col => Ok (g k col)) names = rmap (map (fun k => g k (colof c k))) (mapM (chk c) names).
Proof.
  induction names as [|k names IH]; [reflexivity|]. cbn [mapM]. rewrite IH. clear IH.
  unfold c_getcol. replace (chk c k) with (if mem k (keys c) then Ok k else Err EKey) by reflexivity. rewrite aget_mem.
  assert (C : forall col, aget k c = Some col -> colof c k = col) by (intros col E; unfold colof; rewrite E; reflexivity).
  destruct (aget k c) as [col|]; [|reflexivity].
  destruct (mapM (chk c) names); cbn; [rewrite (C col eq_refl)|]; reflexivity.
Qed.
Lemma keys_dict_of_tt {V} (kvs : list (colname * V)) : keys (dict_of kvs) = keys (dict_of (mapv (fun _ => tt) kvs)).
Proof. rewrite <- mapv_dict_of. symmetry. apply keys_mapv. Qed.
Lemma colof_len c k : Rect c -> (exists col, aget k c = Some col) -> len (colof c k) = nrows c.
Proof. intros R [col E]. unfold colof. rewrite E. apply (Lens_In (nrows c) c k); [apply Rect_Lens; assumption|apply aget_some_in; assumption]. Qed.
Lemma proj_Lens c ks : Rect c -> (forall k, In k ks -> exists col, aget k c = Some col) -> Lens (nrows c) (dict_of (map (fun k => (k, colof c k)) ks)).
Proof.
  intros R H. apply (Forall_dict_of (fun v => len v = nrows c)). apply Forall_map. apply Forall_forall. intros k I. cbn [snd]. apply colof_len; auto.
Qed.
Lemma ref_proj c names : Rect c -> r_proj (abs c) names = rmap abs (c_proj c names).
Proof.
  intros R. unfold r_proj, c_proj. cbn [cols recs abs]. destruct names as [|k0 names0]; [rewrite rmap_Ok, abs_empty_cols; reflexivity|].
  remember (k0 :: names0) as names. rewrite (getcols_mapM c (fun k col => (k, col))). fold (chk c).
  destruct (mapM (chk c) names) as [ks|e] eqn:M; cbn [rmap bind]; [|reflexivity].
  destruct (chk_id _ _ _ M) as [-> HI]. pose proof (proj_Lens c names R HI) as L. rewrite (finish_id _ _ L). rewrite rmap_Ok. unfold Ok. f_equal.
  unfold abs. f_equal.
  - rewrite (keys_dict_of_tt (map (fun k => (k, colof c k)) names)). f_equal. f_equal. unfold mapv. rewrite map_map. reflexivity.
  - rewrite (iter_Lens _ _ L) by (apply dict_of_not_nil; subst; discriminate). rewrite iter_rect by assumption. rewrite map_map.
    apply map_ext. intros i.
    transitivity (dict_of (mapv (fun col => nth i col CNone) (map (fun k => (k, colof c k)) names))); [|symmetry; apply mapv_dict_of].
    f_equal. unfold mapv. rewrite map_map. cbn [fst snd].
    apply map_ext_in. intros k I. f_equal. destruct (HI k I) as [col E]. unfold colof. rewrite E. apply get_rec_at. assumption.
Qed.
Lemma rect_proj c names c' : Rect c -> c_proj c names = Ok c' -> Rect c'.
Proof.
  intros R. unfold c_proj. destruct names as [|k0 names0]; [intros H; inversion H; apply Rect_empty_cols; assumption|].
  destruct (mapM _ (k0 :: names0)); cbn [bind]; [|discriminate]. apply finish_Rect. apply NoDup_dict_of.
Qed.
Lemma ref_relabel c sp : Rect c -> r_relabel (abs c) sp = rmap abs (c_relabel c sp).
Proof.
  intros R. unfold r_relabel, c_relabel. cbn [cols recs abs].
  assert (L : Lens (nrows c) (dict_of (map (fun kv => (ren sp (fst kv), snd kv)) c))).
  { apply (Forall_dict_of (fun v => len v = nrows c)). apply Forall_map. apply Rect_Lens. assumption. }
  rewrite (finish_id _ _ L), rmap_Ok. unfold Ok. f_equal. unfold abs. f_equal.
  - rewrite (keys_dict_of_tt (map _ c)). f_equal. f_equal. unfold mapv, keys. rewrite !map_map. reflexivity.
  - destruct c as [|kv c1] eqn:Ec; [reflexivity|]. rewrite <- Ec in *.
    rewrite (iter_Lens _ _ L) by (apply dict_of_not_nil; rewrite Ec; discriminate). rewrite iter_rect by assumption. rewrite map_map.
    apply map_ext. intros i. unfold rec_at. rewrite mapv_dict_of. f_equal. unfold mapv. rewrite !map_map. reflexivity.
Qed.
Lemma rect_relabel c sp c' : c_relabel c sp = Ok c' -> Rect c'.
Proof. unfold c_relabel. apply finish_Rect. apply NoDup_dict_of. Qed.
Lemma ref_tuple c names : Rect c -> r_tuple (abs c) names = c_tuple c names.
Proof.
  intros R. unfold r_tuple, c_tuple. cbn [cols recs abs]. fold (chk c).
  assert (G : mapM (c_getcol c) names = rmap (map (colof c)) (mapM (chk c) names)).
  { rewrite <- (getcols_mapM c (fun _ col => col)). apply mapM_ext_in. intros k _. destruct (c_getcol c k); reflexivity. }
  rewrite G. destruct (mapM (chk c) names) as [ks|e] eqn:M; cbn [rmap bind]; [|reflexivity].
  destruct (chk_id _ _ _ M) as [-> HI]. destruct names as [|k0 names0]; [reflexivity|]. remember (k0 :: names0) as names.
  unfold Ok. f_equal. unfold zip_star. rewrite (minlen_const (nrows c)).
  - rewrite iter_rect by assumption. rewrite map_map. apply map_ext. intros i. rewrite map_map. apply map_ext_in. intros k I.
    destruct (HI k I) as [col E]. unfold colof. rewrite E. apply get_rec_at. assumption.
  - apply Forall_map. apply Forall_forall. intros k I. apply colof_len; auto.
  - subst. discriminate.
Qed.

(* ------------------------------------------------------------------ slices *)
Definition s_start (a : option Z) (n : nat) : nat := Z.to_nat (match a with Some x => slice_bound (Z.of_nat n) x | None => 0%Z end).
Definition s_count (a b : option Z) (n : nat) : nat :=
  Z.to_nat ((match b with Some x => slice_bound (Z.of_nat n) x | None => Z.of_nat n end) - (match a with Some x => slice_bound (Z.of_nat n) x | None => 0%Z end)).
Lemma slice_list_eq {A} a b (l : list A) : slice_list a b l = firstn (s_count a b (len l)) (skipn (s_start a (len l)) l).
Proof. reflexivity. Qed.
Lemma slice_len {A} a b (l : list A) : len (slice_list a b l) = Nat.min (s_count a b (len l)) (len l - s_start a (len l)).
Proof. rewrite slice_list_eq, firstn_length, skipn_length. reflexivity. Qed.
Lemma slice_nth {A} a b (l : list A) i d : i < len (slice_list a b l) -> nth i (slice_list a b l) d = nth (s_start a (len l) + i) l d.
Proof. intros H. rewrite slice_len in H. rewrite slice_list_eq, nth_firstn' by lia. apply nth_skipn'. Qed.
Lemma slice_Lens c a b : Rect c -> Lens (Nat.min (s_count a b (nrows c)) (nrows c - s_start a (nrows c))) (mapv (slice_list a b) c).
Proof.
  intros R. unfold Lens, mapv. apply Forall_map. apply Forall_forall. intros [k v] I. cbn [snd]. rewrite slice_len.
  rewrite (Lens_In (nrows c) c k v); [reflexivity|apply Rect_Lens; assumption|assumption].
Qed.
Lemma ref_slice_plain c a b : Rect c -> Ok (mkR (keys c) (slice_list a b (c_iter c))) = rmap abs (finish (mapv (slice_list a b) c)).
Proof.
  intros R. pose proof (slice_Lens c a b R) as L. rewrite (finish_id _ _ L), rmap_Ok.
  unfold Ok. f_equal. unfold abs. rewrite keys_mapv. f_equal.
  destruct c as [|kv c1] eqn:Ec; [cbn; rewrite slice_list_eq; cbn; rewrite skipn_nil, firstn_nil; reflexivity|]. rewrite <- Ec in *.
  assert (N : c <> []) by (rewrite Ec; discriminate).
  rewrite (iter_Lens _ _ L) by (rewrite Ec; discriminate).
  apply (nth_ext _ _ [] []).
  - rewrite slice_len, iter_length, map_length, seq_length by assumption. reflexivity.
  - intros i Hi. rewrite slice_nth by assumption. rewrite slice_len, iter_length in Hi by assumption.
    rewrite iter_length by assumption. rewrite iter_rect by assumption. rewrite nth_map_seq by lia.
    rewrite nth_map_seq by lia. unfold rec_at, mapv. rewrite map_map. apply map_ext_in. intros [k v] I. cbn [fst snd]. f_equal.
    assert (Lv : len v = nrows c) by (apply (Lens_In (nrows c) c k v); [apply Rect_Lens; assumption|assumption]).
    rewrite slice_nth; rewrite ?slice_len, Lv; [reflexivity|lia].
Qed.
(* picking rows by a list of valid positions: column-wise on the dict of lists = row-wise on the records *)
Lemma nth_map_idx {A} (g : Z -> A) (idx : list Z) j d : j < len idx -> nth j (map g idx) d = g (nth j idx 0%Z).
Proof. intros H. rewrite (nth_indep _ d (g 0%Z)) by (rewrite map_length; assumption). apply map_nth. Qed.
Lemma select_rows c (idx : list Z) : Rect c -> (forall i, In i idx -> Z.to_nat i < nrows c) ->
  abs (mapv (fun col => map (fun i => nth (Z.to_nat i) col CNone) idx) c) = mkR (keys c) (map (fun i => nth (Z.to_nat i) (c_iter c) []) idx).
Proof.
  intros R B. unfold abs. rewrite keys_mapv. f_equal. destruct c as [|kv c1] eqn:Ec.
  - destruct idx as [|i0 idx0]; [reflexivity|]. exfalso. specialize (B i0 (or_introl eq_refl)). cbn in B. lia.
  - rewrite <- Ec in *. rewrite (iter_Lens (len idx)).
    + rewrite (map_ext_in _ (fun i => rec_at (Z.to_nat i) c) idx).
      * rewrite <- (map_seq_nth (fun i => rec_at (Z.to_nat i) c) idx 0%Z). apply map_ext_in. intros j Hj. apply in_seq in Hj.
        unfold rec_at, mapv. rewrite map_map. apply map_ext. intros [k v]. cbn [fst snd]. f_equal. apply nth_map_idx. lia.
      * intros i I. rewrite iter_rect by assumption. exact (nth_map_seq (fun i0 => rec_at i0 c) (nrows c) (Z.to_nat i) [] (B i I)).
    + unfold Lens, mapv. apply Forall_map. apply Forall_forall. intros; cbn [snd]. apply map_length.
    + rewrite Ec. discriminate.
Qed.
Lemma step_cols c a b s : Rect c -> c <> [] ->
  mapv (slice_step CNone a b s) c =
  mapv (fun col => map (fun i => nth (Z.to_nat i) col CNone) (filter (in_range (nrows c)) (slice_idx a b s (Z.of_nat (nrows c))))) c.
Proof.
  intros R N. unfold mapv. apply map_ext_in. intros [k v] I. cbn [fst snd]. f_equal. unfold slice_step, sel_idx.
  rewrite (Lens_In (nrows c) c k v); [reflexivity|apply Rect_Lens; assumption|assumption].
Qed.
Lemma in_range_lt n i : in_range n i = true -> Z.to_nat i < n.
Proof. unfold in_range. intros H. apply andb_true_iff in H. destruct H as [H1 H2]. apply Z.leb_le in H1. apply Z.ltb_lt in H2. lia. Qed.
Lemma sel_idx_nil {A} (d : A) idx : sel_idx d idx [] = [].
Proof.
  unfold sel_idx. replace (filter (in_range (len (@nil A))) idx) with (@nil Z); [reflexivity|]. symmetry.
  induction idx as [|i idx IH]; [reflexivity|]. cbn [filter]. replace (in_range (len (@nil A)) i) with false; [exact IH|].
  unfold in_range. cbn. destruct (0 <=? i)%Z eqn:E1; destruct (i <? 0)%Z eqn:E2; try reflexivity. apply Z.leb_le in E1. apply Z.ltb_lt in E2. lia.
Qed.
Lemma ref_slice c a b st : Rect c -> r_slice (abs c) a b st = rmap abs (c_slice c a b st).
Proof.
  intros R. unfold r_slice, c_slice. cbn [cols recs abs]. destruct st as [s|]; [|apply ref_slice_plain; assumption].
  destruct (Z.eqb s 0); [destruct c; reflexivity|].
  destruct c as [|kv c1] eqn:Ec; [cbn; unfold slice_step; rewrite sel_idx_nil; reflexivity|]. rewrite <- Ec in *. assert (N : c <> []) by (rewrite Ec; discriminate).
  rewrite step_cols by assumption.
  set (idx := filter (in_range (nrows c)) (slice_idx a b s (Z.of_nat (nrows c)))).
  assert (B : forall i, In i idx -> Z.to_nat i < nrows c). { intros i I. apply filter_In in I. apply in_range_lt. apply I. }
  rewrite (finish_id (len idx)).
  - rewrite rmap_Ok, select_rows by assumption. unfold slice_step, sel_idx. rewrite iter_length by assumption. reflexivity.
  - unfold Lens, mapv. apply Forall_map. apply Forall_forall. intros; cbn [snd]. apply map_length.
Qed.
Lemma rect_slice c a b st c' : Rect c -> c_slice c a b st = Ok c' -> Rect c'.
Proof.
  intros R. unfold c_slice. destruct st as [s|]; [|apply finish_Rect; rewrite keys_mapv; apply R].
  destruct (Z.eqb s 0); [destruct c; [intros H; inversion H; apply Rect_nil|discriminate]|]. apply finish_Rect. rewrite keys_mapv. apply R.
Qed.

(* ------------------------------------------------------------------ constructor from columns *)
Lemma lens_nil : lens [] = Some 0.
Proof. reflexivity. Qed.
Lemma ref_new_cols kvs : r_new_cols kvs = rmap abs (c_new_cols kvs).
Proof.
  unfold r_new_cols, c_new_cols. set (d := dict_of (mapv value_list kvs)). destruct (finish d) as [c'|e] eqn:F.
  - destruct (finish_Lens _ _ F) as [n [E [L K]]]. rewrite E. unfold finish in F. rewrite E in F. inversion F; subst c'. clear F.
    cbn [rmap]. unfold Ok. f_equal. unfold abs. rewrite K. f_equal.
    destruct d as [|kv d1] eqn:Ed; [cbn in E; inversion E; reflexivity|]. rewrite <- Ed in *.
    rewrite (iter_Lens _ _ L) by (rewrite Ed; discriminate). apply map_ext_in. intros i Hi. apply in_seq in Hi.
    unfold rec_at, mapv. rewrite map_map. apply map_ext. intros [k v]. cbn [fst snd]. f_equal.
    destruct v as [|x [|y v]]; [reflexivity| |reflexivity]. symmetry. apply nth_repeat'. lia.
  - unfold finish in F. destruct (lens (map (@len cell) (vals d))); [discriminate|]. inversion F; subst. reflexivity.
Qed.
Lemma rect_new_cols kvs c' : c_new_cols kvs = Ok c' -> Rect c'.
Proof. unfold c_new_cols. apply finish_Rect. apply NoDup_dict_of. Qed.

(* ------------------------------------------------------------------ rows + headers, integer lists *)
Lemma nodupb_NoDup l : nodupb l = true -> NoDup l.
Proof.
  induction l; cbn; intros H; [constructor|]. apply andb_true_iff in H. destruct H as [H1 H2]. constructor; [|auto].
  intros I. apply mem_In in I. rewrite I in H1. discriminate.
Qed.
Lemma lens_two k : lens [k; k] = Some k.
Proof. apply lens_const; [repeat constructor|discriminate]. Qed.
Definition cols_of_rows (k : nat) (rows : list (list cell)) : list (list cell) := map (fun j => map (fun r => nth j r CNone) rows) (seq 0 k).
Lemma new_rows_wf hdr names rows : NoDup names -> names <> [] -> rows <> [] -> Forall (fun r => len r = len names) rows ->
  c_new_rows hdr names rows = Ok (combine names (cols_of_rows (len names) rows)).
Proof.
  intros N NN NR F. set (k := len names). set (cs := cols_of_rows k rows).
  assert (Lcs : len cs = k) by (unfold cs, cols_of_rows; rewrite map_length, seq_length; reflexivity).
  assert (Z1 : zipperN rows = Ok cs).
  { unfold zipperN. rewrite (lens_const k); [|apply Forall_map; exact F|destruct rows; [congruence|discriminate]].
    rewrite (map_id_in (bcast k)) by (intros r I; apply bcast_id; rewrite Forall_forall in F; apply F; assumption).
    unfold zip_star. rewrite (minlen_const k); auto. }
  assert (Z2 : zipper2 names cs = Ok (combine names cs)).
  { unfold zipper2. rewrite Lcs. fold k. rewrite lens_two. rewrite !bcast_id; auto. }
  assert (E : c_new_rows hdr names rows = zipperN rows >>= (fun cs0 => zipper2 names cs0 >>= fun kvs => match dict_of kvs with [] => Ok (if hdr then [] else dict_of (map (fun k => (k, [])) names)) | d => finish d end)).
  { unfold c_new_rows. destruct hdr; [reflexivity|]. destruct rows; [congruence|reflexivity]. }
  rewrite E, Z1, bind_Ok. cbv beta. rewrite Z2, bind_Ok. cbv beta. rewrite dict_of_nodup_id by (rewrite keys_combine; [assumption|symmetry; assumption]).
  destruct (combine names cs) eqn:EC.
  - exfalso. destruct names as [|n0 names]; [congruence|]. destruct cs; [cbn in Lcs; unfold k in Lcs; cbn in Lcs; discriminate|discriminate].
  - rewrite <- EC. apply (finish_id (len rows)). unfold Lens. apply Forall_forall. intros [kk v] I. cbn [snd]. apply in_combine_r in I.
    unfold cs, cols_of_rows in I. apply in_map_iff in I. destruct I as [j [<- _]]. apply map_length.
Qed.
Lemma nth_nil' {A} j (d : A) : nth j [] d = d.
Proof. destruct j; reflexivity. Qed.
Lemma abs_rows_table names rows : names <> [] -> rows <> [] -> Forall (fun r => len r = len names) rows ->
  abs (combine names (cols_of_rows (len names) rows)) = mkR names (map (combine names) rows).
Proof.
  intros NN NR F. set (cs := cols_of_rows (len names) rows).
  assert (Lcs : len cs = len names) by (unfold cs, cols_of_rows; rewrite map_length, seq_length; reflexivity).
  unfold abs. rewrite keys_combine by (symmetry; assumption). f_equal.
  rewrite (iter_Lens (len rows)).
  - rewrite <- (map_seq_nth (combine names) rows []). apply map_ext_in. intros i Hi. apply in_seq in Hi. unfold rec_at. rewrite mapv_combine. f_equal.
    unfold cs, cols_of_rows. rewrite map_map.
    transitivity (map (fun j => nth j (nth i rows []) CNone) (seq 0 (len names))).
    + apply map_ext. intros j. rewrite (nth_indep _ CNone ((fun r => nth j r CNone) [])) by (rewrite map_length; lia).
      rewrite (map_nth (fun r => nth j r CNone)). reflexivity.
    + assert (Li : len (nth i rows []) = len names). { rewrite Forall_forall in F. apply F. apply nth_In. lia. }
      rewrite <- Li. apply seq_nth_id.
  - unfold Lens. apply Forall_forall. intros [kk v] I. cbn [snd]. apply in_combine_r in I.
    unfold cs, cols_of_rows in I. apply in_map_iff in I. destruct I as [j [<- _]]. apply map_length.
  - destruct names as [|n0 names]; [congruence|]. destruct cs; [cbn in Lcs; discriminate|discriminate].
Qed.
Lemma rows_wf_spec names rows : rows_wf names rows = true -> NoDup names /\ names <> [] /\ rows <> [] /\ Forall (fun r => len r = len names) rows.
Proof.
  unfold rows_wf. intros H. apply andb_true_iff in H. destruct H as [H HD]. apply andb_true_iff in H. destruct H as [H HC].
  apply andb_true_iff in H. destruct H as [HA HB].
  split; [apply nodupb_NoDup; assumption|]. split; [destruct names; [discriminate|discriminate]|].
  split; [destruct rows; [discriminate|discriminate]|]. apply Forall_forall. intros r I. rewrite forallb_forall in HB. apply Nat.eqb_eq. apply HB. assumption.
Qed.
Lemma ref_new_rows hdr names rows : r_new_rows hdr names rows = rmap abs (c_new_rows hdr names rows).
Proof.
  unfold r_new_rows. destruct (rows_wf names rows) eqn:W; [|reflexivity].
  destruct (rows_wf_spec _ _ W) as [N [NN [NR F]]]. rewrite new_rows_wf by assumption. rewrite rmap_Ok, abs_rows_table by assumption. reflexivity.
Qed.
Lemma Rect_names_empty (names : list colname) : Rect (dict_of (map (fun k => (k, @nil cell)) names)).
Proof.
  split; [apply NoDup_dict_of|]. exists 0. apply (Forall_dict_of (fun v => len v = 0)). apply Forall_map. apply Forall_forall. intros; reflexivity.
Qed.
Lemma rect_new_rows hdr names rows c' : c_new_rows hdr names rows = Ok c' -> Rect c'.
Proof.
  assert (G : (zipperN rows >>= (fun cs0 => zipper2 names cs0 >>= fun kvs => match dict_of kvs with [] => Ok (if hdr then [] else dict_of (map (fun k => (k, [])) names)) | d => finish d end)) = Ok c' -> Rect c').
  { destruct (zipperN rows); cbn [bind]; [|discriminate]. destruct (zipper2 names l) as [kvs|]; cbn [bind]; [|discriminate].
    destruct (dict_of kvs) eqn:D.
    - intros H. inversion H. destruct hdr; [apply Rect_nil|apply Rect_names_empty].
    - rewrite <- D. apply finish_Rect. apply NoDup_dict_of. }
  unfold c_new_rows. destruct hdr; [exact G|]. destruct rows; [|exact G]. intros H. inversion H. apply Rect_names_empty.
Qed.
Lemma py_nth_map {A B} (f : A -> B) l i : py_nth (map f l) i = rmap f (py_nth l i).
Proof.
  unfold py_nth. rewrite map_length. destruct (_ && _)%bool; [|reflexivity]. rewrite nth_error_map. destruct (nth_error l _); reflexivity.
Qed.
Lemma py_nth_In {A} (l : list A) i x : py_nth l i = Ok x -> In x l.
Proof.
  unfold py_nth. destruct (_ && _)%bool; [|discriminate]. destruct (nth_error l _) eqn:E; [|discriminate]. intros H. inversion H; subst.
  eapply nth_error_In. eassumption.
Qed.
Lemma mapM_py_nth_map {A B} (f : A -> B) l idx : mapM (py_nth (map f l)) idx = rmap (map f) (mapM (py_nth l) idx).
Proof.
  induction idx as [|i idx IH]; [reflexivity|]. cbn [mapM]. rewrite IH, py_nth_map. destruct (py_nth l i); cbn [rmap]; [|reflexivity].
  destruct (mapM (py_nth l) idx); reflexivity.
Qed.
Lemma len_vals {V} (r : list (colname * V)) : len (vals r) = len (keys r).
Proof. unfold vals, keys. rewrite !map_length. reflexivity. Qed.
Lemma ints_rows c idx rs : Rect c -> idx <> [] -> mapM (py_nth (c_iter c)) idx = Ok rs ->
  rs <> [] /\ keys c <> [] /\ Forall (fun r => keys r = keys c) rs.
Proof.
  intros R NI M. assert (F : Forall (fun r => keys r = keys c) rs).
  { apply Forall_forall. intros r I. destruct (mapM_In _ _ _ M r I) as [i [_ P]]. apply py_nth_In in P.
    pose proof (iter_keys c R) as IK. rewrite Forall_forall in IK. apply IK. assumption. }
  assert (NR : rs <> []). { apply mapM_length in M. destruct rs; [destruct idx; [congruence|discriminate]|discriminate]. }
  split; [assumption|]. split; [|assumption]. destruct rs as [|r rs]; [congruence|].
  destruct (mapM_In _ _ _ M r (or_introl eq_refl)) as [i [_ P]]. apply py_nth_In in P. destruct c; [destruct P|discriminate].
Qed.
Lemma ref_ints c idx : Rect c -> r_ints (abs c) idx = rmap abs (c_ints c idx).
Proof.
  intros R. unfold r_ints, c_ints. cbn [cols recs abs]. destruct idx as [|i0 idx0]; [rewrite rmap_Ok, abs_empty_cols; reflexivity|].
  remember (i0 :: idx0) as idx. rewrite mapM_py_nth_map. unfold record in *. destruct (@mapM Z (list (colname * cell)) (@py_nth (list (colname * cell)) (c_iter c)) idx) as [rs|e] eqn:M; cbn [rmap bind]; [|reflexivity].
  destruct (ints_rows c idx rs R) as [NR [NK F]]; [subst; discriminate|assumption|].
  assert (F' : Forall (fun r => len r = len (keys c)) (map (@vals cell) rs)).
  { apply Forall_map. apply Forall_forall. intros r I. rewrite Forall_forall in F. rewrite len_vals, (F r I). reflexivity. }
  rewrite new_rows_wf; [|apply R|assumption|destruct rs; [exfalso; apply NR; reflexivity|discriminate]|assumption].
  rewrite rmap_Ok, abs_rows_table; [|assumption|destruct rs; [exfalso; apply NR; reflexivity|discriminate]|assumption].
  unfold Ok. f_equal. f_equal. rewrite map_map. symmetry. apply map_id_in. intros r I. rewrite Forall_forall in F. rewrite <- (F r I). apply combine_keys_vals.
Qed.
Lemma rect_ints c idx c' : Rect c -> c_ints c idx = Ok c' -> Rect c'.
Proof.
  intros R. unfold c_ints. destruct idx; [intros H; inversion H; apply Rect_empty_cols; assumption|].
  destruct (mapM _ (z :: idx)); cbn [bind]; [apply rect_new_rows|discriminate].
Qed.

(* ------------------------------------------------------------------ concatenation *)
Definition total (ts : list ctable) : nat := fold_right (fun t acc => nrows t + acc) 0 ts.
Lemma col_or_none_len k c : Rect c -> len (col_or_none k c) = nrows c.
Proof.
  intros R. unfold col_or_none. destruct (aget k c) eqn:E.
  - apply (Lens_In (nrows c) c k); [apply Rect_Lens; assumption|apply aget_some_in; assumption].
  - rewrite repeat_length. apply tlen_rect. assumption.
Qed.
Lemma get_col_or_none k c i : Rect c -> i < nrows c -> nth i (col_or_none k c) CNone = get_or_none k (rec_at i c).
Proof.
  intros R H. unfold col_or_none. destruct (aget k c) eqn:E.
  - symmetry. apply get_rec_at. assumption.
  - rewrite tlen_rect by assumption. rewrite nth_repeat' by assumption. symmetry. apply get_rec_at_none. assumption.
Qed.
Lemma stack_len k ts : Forall Rect ts -> len (flat_map (col_or_none k) ts) = total ts.
Proof. induction ts as [|t ts IH]; intros F; [reflexivity|]. inversion F; subst. cbn [flat_map]. rewrite app_length, IH, col_or_none_len by assumption. reflexivity. Qed.
Lemma stack_iter U ts : Forall Rect ts ->
  map (fun i => map (fun k => (k, nth i (flat_map (col_or_none k) ts) CNone)) U) (seq 0 (total ts)) = flat_map (fun t => map (rekey U) (c_iter t)) ts.
Proof.
  induction ts as [|t ts IH]; intros F; [reflexivity|]. inversion F; subst.
  change (total (t :: ts)) with (nrows t + total ts). cbn [flat_map]. rewrite seq_app, map_app. f_equal.
  - rewrite iter_rect by assumption. rewrite map_map. apply map_ext_in. intros i Hi. apply in_seq in Hi. unfold rekey. apply map_ext. intros k. f_equal.
    rewrite app_nth1 by (rewrite col_or_none_len by assumption; lia). apply get_col_or_none; [assumption|lia].
  - rewrite <- IH by assumption. cbn [plus]. rewrite (map_seq_shift _ (nrows t)). apply map_ext. intros i. apply map_ext. intros k. f_equal.
    rewrite <- (col_or_none_len k t) by assumption. apply app_nth2_plus.
Qed.
Lemma flat_map_map {A B C} (f : B -> list C) (g : A -> B) l : flat_map f (map g l) = flat_map (fun a => f (g a)) l.
Proof. induction l; cbn; [reflexivity|]. rewrite IHl. reflexivity. Qed.
Lemma union_nil (ts : list ctable) : union_keys ts = [] -> Forall (fun t => t = []) ts.
Proof.
  unfold union_keys. intros H. apply Forall_forall. intros t I. destruct t as [|[k v] t]; [reflexivity|]. exfalso.
  assert (J : In k (nodup string_dec (flat_map keys ts))). { apply nodup_In. apply in_flat_map. exists ((k, v) :: t). split; [assumption|left; reflexivity]. }
  rewrite H in J. destruct J.
Qed.
Definition concat_table (ts : list ctable) : ctable := map (fun k => (k, flat_map (col_or_none k) ts)) (union_keys ts).
Lemma concat_ok ts : Forall Rect ts -> ts <> [] -> c_concat ts = Ok (concat_table ts).
Proof.
  intros F N. unfold c_concat. destruct ts as [|t ts]; [congruence|]. apply (finish_id (total (t :: ts))).
  unfold Lens. apply Forall_map. apply Forall_forall. intros k _. cbn [snd]. apply stack_len. assumption.
Qed.
Lemma ref_concat ts : Forall Rect ts -> r_concat (map abs ts) = rmap abs (c_concat ts).
Proof.
  intros F. destruct ts as [|t0 ts0] eqn:Ets; [reflexivity|]. rewrite <- Ets in *. assert (N : ts <> []) by (rewrite Ets; discriminate).
  rewrite concat_ok, rmap_Ok by assumption. unfold r_concat.
  replace (map abs ts) with (abs t0 :: map abs ts0) by (rewrite Ets; reflexivity). cbv iota. replace (abs t0 :: map abs ts0) with (map abs ts) by (rewrite Ets; reflexivity).
  unfold Ok. f_equal. unfold r_union. rewrite !flat_map_map. cbn [cols recs abs]. fold (@union_keys (list cell) ts).
  unfold abs, concat_table. rewrite keys_map_pair. f_equal.
  destruct (union_keys ts) as [|u0 U0] eqn:EU.
  - cbn. apply union_nil in EU. clear -EU. induction ts as [|t ts IH]; [reflexivity|]. inversion EU; subst. cbn. apply IH. assumption.
  - rewrite <- EU. rewrite (iter_Lens (total ts)).
    + rewrite <- stack_iter by assumption. apply map_ext. intros i. unfold rec_at, mapv. rewrite map_map. reflexivity.
    + unfold Lens. apply Forall_map. apply Forall_forall. intros k _. cbn [snd]. apply stack_len. assumption.
    + rewrite EU. discriminate.
Qed.
Lemma rect_concat ts c' : c_concat ts = Ok c' -> Rect c'.
Proof.
  unfold c_concat. destruct ts; [intros H; inversion H; apply Rect_nil|]. apply finish_Rect. rewrite keys_map_pair. apply NoDup_union_keys.
Qed.

(* ================================================================== histories *)
Definition Inv (s : gstate ctable) : Prop := Forall Rect (heap s).
Lemma rd_rect s r : Inv s -> Rect (rd cops s r).
Proof.
  intros H. unfold rd. cbn [t_empty cops]. destruct (nth_in_or_default (ptr s r) (heap s) []) as [I|E]; [|rewrite E; apply Rect_nil].
  unfold Inv in H. rewrite Forall_forall in H. apply H. assumption.
Qed.
Lemma rd_abs s r : rd rops (abs_state s) r = abs (rd cops s r).
Proof. unfold rd, ptr, abs_state. cbn [regs heap t_empty rops cops]. change r_empty with (abs []). apply map_nth. Qed.
Lemma fresh_inv s dst x : Inv s -> (forall t, x = Ok t -> Rect t) -> Inv (fst (fresh s dst x)).
Proof.
  intros H Hx. destruct x as [t|e]; cbn; [|assumption]. unfold Inv. cbn. apply Forall_app. split; [assumption|]. constructor; [|constructor]. apply Hx. reflexivity.
Qed.
Lemma inplace_inv s r x : Inv s -> (forall t, x = Ok t -> Rect t) -> Inv (fst (inplace s r x)).
Proof.
  intros H Hx. destruct x as [t|e]; cbn; [|assumption]. unfold Inv. cbn. apply Forall_upd; [assumption|]. apply Hx. reflexivity.
Qed.
Lemma fresh_ref s dst x y : y = rmap abs x -> fresh (abs_state s) dst y = (abs_state (fst (fresh s dst x)), snd (fresh s dst x)).
Proof. intros ->. destruct x as [t|e]; cbn; [|reflexivity]. unfold abs_state. cbn. rewrite map_app, map_length. reflexivity. Qed.
Lemma inplace_ref s r x y : y = rmap abs x -> inplace (abs_state s) r y = (abs_state (fst (inplace s r x)), snd (inplace s r x)).
Proof. intros ->. destruct x as [t|e]; cbn; [|reflexivity]. unfold abs_state, ptr. cbn. rewrite map_upd. reflexivity. Qed.
Lemma Forall_dict_of_nodup (rs : list record) : Forall (fun r => NoDup (keys r)) (map (@dict_of cell) rs).
Proof. apply Forall_map. apply Forall_forall. intros. apply NoDup_dict_of. Qed.
Lemma rd_all_rect s srcs : Inv s -> Forall Rect (map (rd cops s) srcs).
Proof. intros H. apply Forall_map. apply Forall_forall. intros. apply rd_rect. assumption. Qed.
Lemma rd_all_abs s srcs : map (rd rops (abs_state s)) srcs = map abs (map (rd cops s) srcs).
Proof. rewrite map_map. apply map_ext. intros. apply rd_abs. Qed.

Lemma sub_ref ks c : Rect c -> sub_keys rops (abs c) ks = abs (sub_keys cops c ks) /\ Rect (sub_keys cops c ks).
Proof.
  revert c. induction ks as [|k ks IH]; intros c R; [split; [reflexivity|assumption]|]. unfold sub_keys. cbn [fold_left t_del rops cops].
  rewrite (ref_del c k R). destruct (c_del c k) as [c'|e] eqn:E; cbn [rmap].
  - apply (IH c'). eapply rect_del; eassumption.
  - apply (IH c R).
Qed.
(* the invariant is preserved by every op, accepted or rejected *)
Lemma step_inv s o : Inv s -> Inv (fst (step cops s o)).
Proof.
  intros H. pose proof (rd_rect s) as RD. destruct o; cbn [step cops t_new_records t_new_cols t_new_rows t_set t_del t_getrow t_getcol t_tuple t_apply t_iter
    t_slice t_mask t_ints t_proj t_call t_relabel t_do t_concat t_of_record t_keys]; try exact H;
    try (apply fresh_inv; [assumption|intros t E]); try (apply inplace_inv; [assumption|intros t E]).
  - eapply rect_new_records; [apply Forall_dict_of_nodup|eassumption].
  - eapply rect_new_cols; eassumption.
  - eapply rect_new_rows; eassumption.
  - eapply rect_set; [apply RD; assumption|eassumption].
  - eapply rect_del; [apply RD; assumption|eassumption].
  - eapply rect_slice; [apply RD; assumption|eassumption].
  - eapply rect_mask; [apply RD; assumption|eassumption].
  - eapply rect_ints; [apply RD; assumption|eassumption].
  - eapply rect_proj; [apply RD; assumption|eassumption].
  - eapply rect_call; [apply RD; assumption|eassumption].
  - eapply rect_relabel; eassumption.
  - eapply rect_do; [apply RD; assumption|eassumption].
  - destruct srcs as [|r [|r2 srcs]]; try exact H; apply fresh_inv; try assumption; intros t E; eapply rect_concat; eassumption.
  - destruct a; try exact H; apply fresh_inv; try assumption; intros t E.
    + eapply rect_concat; eassumption.
    + destruct (c_of_record (dict_of rc)); cbn [bind] in E; [eapply rect_concat; eassumption|discriminate].
    + destruct (c_new_records (map (@dict_of cell) rs)); cbn [bind] in E; [eapply rect_concat; eassumption|discriminate].
  - inversion E; subst. apply RD. assumption.
  - destruct (Z.eqb s0 0); [discriminate|]. eapply rect_ints; [apply RD; assumption|eassumption].
  - inversion E; subst. apply sub_ref. apply RD. assumption.
  - eapply rect_proj; [apply RD; assumption|eassumption].
Qed.

(* one step of the dict-of-lists model commutes with the abstraction and yields the same output *)
Lemma step_ref s o : Inv s -> step rops (abs_state s) o = (abs_state (fst (step cops s o)), snd (step cops s o)).
Proof.
  intros H. pose proof (rd_rect s) as RD. pose proof (rd_abs s) as RA.
  destruct o; cbn [step cops rops t_new_records t_new_cols t_new_rows t_set t_del t_getrow t_getcol t_tuple t_apply t_iter
    t_slice t_mask t_ints t_proj t_call t_relabel t_do t_concat t_of_record t_keys]; repeat rewrite RA;
    try (apply fresh_ref); try (apply inplace_ref).
  - apply ref_new_records.
  - apply ref_new_cols.
  - apply ref_new_rows.
  - apply ref_set. apply RD. assumption.
  - apply ref_del. apply RD. assumption.
  - unfold query. rewrite ref_getrow by (apply RD; assumption). reflexivity.
  - unfold query. rewrite ref_getcol by (apply RD; assumption). reflexivity.
  - rewrite ref_getrow, ref_getcol by (apply RD; assumption). reflexivity.
  - unfold query. rewrite ref_tuple by (apply RD; assumption). reflexivity.
  - reflexivity.
  - reflexivity.
  - apply ref_slice. apply RD. assumption.
  - apply ref_mask. apply RD. assumption.
  - apply ref_ints. apply RD. assumption.
  - apply ref_proj. apply RD. assumption.
  - apply ref_call. apply RD. assumption.
  - apply ref_relabel. apply RD. assumption.
  - apply ref_do. apply RD. assumption.
  - destruct srcs as [|r [|r2 srcs]].
    + apply fresh_ref. reflexivity.
    + reflexivity.
    + apply fresh_ref. rewrite rd_all_abs. apply ref_concat. apply rd_all_rect. assumption.
  - destruct a; try reflexivity; repeat rewrite RA; apply fresh_ref.
    + change [abs (rd cops s r); abs (rd cops s r0)] with (map abs [rd cops s r; rd cops s r0]). apply ref_concat. repeat constructor; apply RD; assumption.
    + rewrite ref_of_record. destruct (c_of_record (dict_of rc)) as [t2|e] eqn:E; cbn [rmap bind]; [|reflexivity].
      change [abs (rd cops s r); abs t2] with (map abs [rd cops s r; t2]). apply ref_concat. constructor; [apply RD; assumption|]. constructor; [|constructor].
      eapply rect_of_record; [apply NoDup_dict_of|eassumption].
    + rewrite ref_new_records. destruct (c_new_records (map (@dict_of cell) rs)) as [t2|e] eqn:E; cbn [rmap bind]; [|reflexivity].
      change [abs (rd cops s r); abs t2] with (map abs [rd cops s r; t2]). apply ref_concat. constructor; [apply RD; assumption|]. constructor; [|constructor].
      eapply rect_new_records; [apply Forall_dict_of_nodup|eassumption].
  - reflexivity.
  - destruct (Z.eqb s0 0); [reflexivity|]. apply ref_ints. apply RD. assumption.
  - rewrite (proj1 (sub_ref ks _ (RD r H))). reflexivity.
  - cbn [cols abs]. apply ref_proj. apply RD. assumption.
Qed.

Lemma run_fold_inv ops s acc : Inv s ->
  Inv (fst (fold_left (fun a o => let '(s', o') := step cops (fst a) o in (s', snd a ++ [o'])) ops (s, acc))).
Proof.
  revert s acc. induction ops as [|o ops IH]; intros s acc H; [exact H|]. cbn [fold_left fst snd].
  pose proof (step_inv s o H) as H'. destruct (step cops s o) as [s' o']. apply IH. exact H'.
Qed.
Lemma run_fold_ref ops s acc : Inv s ->
  fold_left (fun a o => let '(s', o') := step rops (fst a) o in (s', snd a ++ [o'])) ops (abs_state s, acc) =
  (abs_state (fst (fold_left (fun a o => let '(s', o') := step cops (fst a) o in (s', snd a ++ [o'])) ops (s, acc))),
   snd (fold_left (fun a o => let '(s', o') := step cops (fst a) o in (s', snd a ++ [o'])) ops (s, acc))).
Proof.
  revert s acc. induction ops as [|o ops IH]; intros s acc H; [reflexivity|]. cbn [fold_left fst snd].
  rewrite (step_ref s o H). pose proof (step_inv s o H) as H'. destruct (step cops s o) as [s' o']. cbn [fst snd]. apply IH. exact H'.
Qed.
Lemma init_inv n : Inv (init_state cops n).
Proof. unfold Inv, init_state. cbn. apply Forall_forall. intros t I. apply repeat_spec in I. subst. apply Rect_nil. Qed.
Lemma init_abs n : abs_state (init_state cops n) = init_state rops n.
Proof. unfold abs_state, init_state. cbn. f_equal. induction n; cbn; [reflexivity|]. f_equal. assumption. Qed.
Theorem run_inv ops s : Inv s -> Inv (fst (run cops s ops)).
Proof. apply run_fold_inv. Qed.
Theorem run_refines ops s : Inv s -> run rops (abs_state s) ops = (abs_state (fst (run cops s ops)), snd (run cops s ops)).
Proof. apply run_fold_ref. Qed.

(* ------------------------------------------------------------------ corollaries in the words of the property *)
Lemma len_shape c : Rect c -> tlen c = len (recs (abs c)) /\ len c = len (cols (abs c)) /\ Forall (fun kv => len (snd kv) = tlen c) c.
Proof.
  intros R. cbn [recs cols abs]. rewrite iter_length, tlen_rect by assumption. split; [reflexivity|]. split; [unfold keys; rewrite map_length; reflexivity|].
  apply Rect_Lens. assumption.
Qed.
Lemma getrow_cases c i : Rect c -> c <> [] -> c_getrow c i = match py_idx (nrows c) i with Some j => Ok (rec_at j c) | None => Err EIndex end.
Proof.
  intros R N. rewrite <- ref_getrow by assumption. unfold r_getrow. cbn [cols recs abs]. destruct c as [|kv c1] eqn:Ec; [congruence|]. rewrite <- Ec in *.
  replace (keys c) with (fst kv :: keys c1) by (rewrite Ec; reflexivity). cbv iota. rewrite (py_nth_idx (c_iter c) i []), iter_length by assumption.
  destruct (py_idx (nrows c) i) as [j|] eqn:E; [|reflexivity]. rewrite iter_rect, nth_map_seq by (try assumption; eapply py_idx_lt; eassumption). reflexivity.
Qed.
(* d[i][key] == d[key][i] *)
Lemma cell_commutes c i key rc col : Rect c -> c_getrow c i = Ok rc -> c_getcol c key = Ok col ->
  exists x, aget key rc = Some x /\ py_nth col i = Ok x.
Proof.
  intros R G C. unfold c_getcol in C. destruct (aget key c) as [col'|] eqn:E; [|discriminate]. inversion C; subst col'. clear C.
  assert (N : c <> []) by (intros ->; discriminate). rewrite getrow_cases in G by assumption.
  destruct (py_idx (nrows c) i) as [j|] eqn:P; [|discriminate]. inversion G; subst rc. exists (nth j col CNone). split.
  - unfold rec_at. rewrite aget_mapv, E. reflexivity.
  - rewrite (py_nth_idx col i CNone). rewrite (Lens_In (nrows c) c key col); [rewrite P; reflexivity|apply Rect_Lens; assumption|apply aget_some_in; assumption].
Qed.
(* iteration yields exactly the rows: row i maps every column name to the i-th cell of that column *)
Lemma iter_rows c : Rect c -> len (c_iter c) = tlen c /\ forall i, i < tlen c -> nth i (c_iter c) [] = rec_at i c.
Proof.
  intros R. rewrite tlen_rect by assumption. split; [apply iter_length; assumption|]. intros i H. rewrite iter_rect by assumption. exact (nth_map_seq (fun i0 => rec_at i0 c) (nrows c) i [] H).
Qed.
Lemma concat2_appends a b : Rect a -> Rect b ->
  let U := union_keys [a; b] in
  rmap abs (c_concat [a; b]) = Ok (mkR U (map (rekey U) (c_iter a) ++ map (rekey U) (c_iter b))).
Proof.
  intros Ra Rb U. rewrite <- (ref_concat [a; b]) by (constructor; [assumption|constructor; [assumption|constructor]]). unfold r_concat, r_union. cbn [map flat_map cols recs abs]. rewrite !app_nil_r. subst U. unfold union_keys. cbn [flat_map]. rewrite app_nil_r. reflexivity.
Qed.
Definition in_place (o : op) : bool := match o with OSet _ _ _ | ODel _ _ => true | _ => false end.
(* ops that return a table (new or the operand itself) and queries leave every existing table as it was *)
Lemma operands_unchanged s o : in_place o = false -> exists ext, heap (fst (step cops s o)) = heap s ++ ext.
Proof.
  assert (F : forall dst x, exists ext, heap (fst (fresh s dst x)) = heap s ++ ext).
  { intros dst [t|e]; cbn; [exists [t]; reflexivity|exists []; rewrite app_nil_r; reflexivity]. }
  assert (Z : exists ext : list ctable, heap s = heap s ++ ext) by (exists []; rewrite app_nil_r; reflexivity).
  intros H. destruct o; try discriminate; cbn [step]; try apply F; try exact Z.
  - destruct srcs as [|r [|r2 srcs]]; [apply F|exact Z|apply F].
  - destruct a; try exact Z; apply F.
Qed.
(* an in-place op touches only the table its register names *)
Lemma in_place_touches_one s o : in_place o = true -> exists p t, heap (fst (step cops s o)) = upd p t (heap s) \/ heap (fst (step cops s o)) = heap s.
Proof.
  intros H. destruct o; try discriminate; cbn [step]; unfold inplace.
  - destruct (t_set cops (rd cops s r) key v) as [t|e]; [exists (ptr s r), t; left; reflexivity|exists 0, []; right; reflexivity].
  - destruct (t_del cops (rd cops s r) key) as [t|e]; [exists (ptr s r), t; left; reflexivity|exists 0, []; right; reflexivity].
Qed.
Lemma misfit_rejected c key v : Rect c -> c <> [] -> len (value_list v) <> nrows c -> len (value_list v) <> 1 -> c_set c key v = Err EValue.
Proof.
  intros R N H1 H2. unfold c_set. rewrite tlen_rect by assumption. apply Nat.eqb_neq in H1. rewrite H1.
  destruct c; [congruence|]. cbn [len Nat.eqb orb]. destruct (value_list v) as [|x [|y l]]; [reflexivity|cbn in H2; congruence|reflexivity].
Qed.
Lemma misfit_state_unchanged s r key v : Inv s -> rd cops s r <> [] -> len (value_list v) <> nrows (rd cops s r) -> len (value_list v) <> 1 ->
  step cops s (OSet r key v) = (s, OutErr EValue).
Proof. intros H N H1 H2. cbn [step t_set cops]. rewrite misfit_rejected; auto. apply rd_rect. assumption. Qed.
