(* C06: inc / exc on the dict-of-lists model = filter / filter-negation on the records *)
From Coq Require Import ZArith List Bool String Lia Permutation.
From PB Require Import model.M_table model.M_filter proofs.P_table.
Import ListNotations.
Notation len := List.length.

(* ------------------------------------------------------------------ filter facts *)
Lemma kept_combine_map {A} (f : A -> bool) l : kept (combine l (map f l)) = filter f l.
Proof. unfold kept. induction l as [|a l IH]; [reflexivity|]. cbn. destruct (f a); cbn; rewrite IH; reflexivity. Qed.
Lemma kept_combine_negb {A} (f : A -> bool) l : kept (combine l (map negb (map f l))) = filter (fun x => negb (f x)) l.
Proof. rewrite map_map. apply (kept_combine_map (fun x => negb (f x))). Qed.
Lemma filter_true {A} (l : list A) : filter (fun _ => true) l = l.
Proof. induction l; cbn; [reflexivity|]. f_equal. assumption. Qed.
Lemma filter_filter {A} (f g : A -> bool) l : filter g (filter f l) = filter (fun x => f x && g x)%bool l.
Proof. induction l as [|a l IH]; [reflexivity|]. cbn. destruct (f a); cbn; [destruct (g a); cbn; rewrite IH; reflexivity|assumption]. Qed.
Lemma filter_idem {A} (f : A -> bool) l : filter f (filter f l) = filter f l.
Proof. rewrite filter_filter. apply filter_ext. intros a. destruct (f a); reflexivity. Qed.
Lemma filter_partition {A} (f : A -> bool) l : Permutation (filter f l ++ filter (fun x => negb (f x)) l) l.
Proof.
  induction l as [|a l IH]; [constructor|]. cbn. destruct (f a); cbn.
  - constructor. assumption.
  - eapply Permutation_trans; [apply Permutation_sym; apply Permutation_middle|]. constructor. assumption.
Qed.
(* order kept: a filtered list is a subsequence *)
Inductive subseq {A} : list A -> list A -> Prop :=
| sub_nil : subseq [] []
| sub_skip a l1 l2 : subseq l1 l2 -> subseq l1 (a :: l2)
| sub_keep a l1 l2 : subseq l1 l2 -> subseq (a :: l1) (a :: l2).
Lemma filter_subseq {A} (f : A -> bool) l : subseq (filter f l) l.
Proof. induction l as [|a l IH]; [constructor|]. cbn. destruct (f a); constructor; assumption. Qed.

(* ------------------------------------------------------------------ one mask of full length *)
Lemma iter_nil_of_zero t : Rect t -> nrows t = 0 -> c_iter t = [].
Proof. intros R H. rewrite iter_rect, H by assumption. reflexivity. Qed.
Lemma mask_full t m : Rect t -> len m = nrows t -> rmap abs (c_mask t m) = Ok (mkR (keys t) (kept (combine (c_iter t) m))).
Proof.
  intros R H. rewrite <- ref_mask by assumption. unfold r_mask. cbn [cols recs abs]. destruct m as [|b m].
  - rewrite iter_nil_of_zero by (auto; symmetry; assumption). reflexivity.
  - unfold zipper2. rewrite iter_length, <- H, lens_two by assumption. rewrite !bcast_id by (try reflexivity; rewrite iter_length by assumption; symmetry; assumption).
    reflexivity.
Qed.
Lemma col_is_get t key col : Rect t -> aget key t = Some col -> col = map (get_or_none key) (c_iter t).
Proof.
  intros R E. pose proof (ref_getcol t key R) as G. unfold r_getcol, c_getcol in G. cbn [cols recs abs] in G. rewrite aget_mem, E in G. inversion G. reflexivity.
Qed.
Lemma filter1_step t key cd col : Rect t -> aget key t = Some col ->
  rmap abs (c_mask t (map (cond_check cd) col)) = Ok (mkR (keys t) (filter (fun r => cond_check cd (get_or_none key r)) (c_iter t))).
Proof.
  intros R E. rewrite mask_full; [|assumption|rewrite map_length; apply (Lens_In (nrows t) t key); [apply Rect_Lens; assumption|apply aget_some_in; assumption]].
  rewrite (col_is_get t key col R E) at 1. rewrite map_map. rewrite (kept_combine_map (fun r => cond_check cd (get_or_none key r))). reflexivity.
Qed.
Lemma fold_filter1_err fs e : fold_left c_filter1 fs (inr e) = inr e.
Proof. induction fs; [reflexivity|]. cbn. exact IHfs. Qed.
Lemma rmap_abs_ok x r : rmap abs x = Ok r -> exists t, x = Ok t /\ abs t = r.
Proof. destruct x as [t|e]; cbn; intros H; inversion H. exists t. split; reflexivity. Qed.
(* the sequence of masks = one filter by the conjunction; a missing column is a KeyError *)
Lemma filters_fold fs t : Rect t ->
  match fold_left c_filter1 fs (Ok t) with
  | inl t' => keys_ok fs (keys t) = true /\ Rect t' /\ abs t' = mkR (keys t) (filter (sat_filters fs) (c_iter t))
  | inr e => keys_ok fs (keys t) = false /\ e = EKey
  end.
Proof.
  revert t. induction fs as [|[key cd] fs IH]; intros t R.
  - cbn. split; [reflexivity|]. split; [assumption|]. unfold abs. f_equal. symmetry. apply filter_true.
  - cbn [fold_left]. unfold c_filter1 at 2. rewrite bind_Ok. cbn [fst snd]. unfold c_getcol.
    cbn [keys_ok forallb fst]. fold (keys_ok fs (keys t)). rewrite aget_mem.
    destruct (aget key t) as [col|] eqn:E; [|unfold Err; cbn [bind]; rewrite fold_filter1_err; split; reflexivity].
    rewrite bind_Ok. destruct (rmap_abs_ok _ _ (filter1_step t key cd col R E)) as [t1 [M A]]. rewrite M.
    assert (R1 : Rect t1) by (eapply rect_mask; eassumption).
    assert (K1 : keys t1 = keys t) by (apply (f_equal cols) in A; exact A).
    assert (I1 : c_iter t1 = filter (fun r => cond_check cd (get_or_none key r)) (c_iter t)) by (apply (f_equal recs) in A; exact A).
    specialize (IH t1 R1). destruct (fold_left c_filter1 fs (Ok t1)) as [t'|e].
    + destruct IH as [KO [R' A']]. rewrite K1 in KO. split; [exact KO|]. split; [assumption|]. rewrite A', K1, I1, filter_filter. reflexivity.
    + destruct IH as [KO ->]. rewrite K1 in KO. split; [exact KO|reflexivity].
Qed.
(* an empty result gets the columns of the original table back *)
Lemma or_empty_abs c res K rs : Rect res -> abs res = mkR K rs -> (rs <> [] -> K = keys c) -> abs (c_or_empty c res) = mkR (keys c) rs.
Proof.
  intros R A H. unfold c_or_empty. assert (L : len rs = tlen res). { apply (f_equal recs) in A. cbn in A. rewrite <- A. rewrite iter_length, tlen_rect by assumption. reflexivity. }
  destruct (Nat.eqb (tlen res) 0) eqn:Z.
  - apply Nat.eqb_eq in Z. rewrite Z in L. destruct rs; [|discriminate]. apply abs_empty_cols.
  - rewrite A. f_equal. apply H. intros ->. cbn in L. apply Nat.eqb_neq in Z. congruence.
Qed.
Lemma rebuild_kept c (keep : list bool) : Rect c ->
  exists res, c_rebuild (kept (combine (c_iter c) keep)) = Ok res /\ Rect res /\
              abs (c_or_empty c res) = mkR (keys c) (kept (combine (c_iter c) keep)).
Proof.
  intros R. set (rs := kept (combine (c_iter c) keep)).
  assert (F : Forall (fun r => keys r = keys c) rs).
  { apply Forall_forall. intros r I. unfold rs in I. apply In_kept_fst in I. apply in_map_iff in I. destruct I as [[a b] [<- I]]. apply in_combine_l in I.
    pose proof (iter_keys c R) as IK. rewrite Forall_forall in IK. apply IK. assumption. }
  destruct rs as [|r0 rs0] eqn:Ers.
  - exists []. split; [reflexivity|]. split; [apply Rect_nil|]. unfold c_or_empty. cbn. apply abs_empty_cols.
  - rewrite <- Ers in *. assert (NK : keys c <> []).
    { destruct c; [|discriminate]. exfalso. assert (I : In r0 rs) by (rewrite Ers; left; reflexivity). unfold rs in I. apply In_kept_fst in I.
      apply in_map_iff in I. destruct I as [[a b] [_ I]]. apply in_combine_l in I. destruct I. }
    destruct (rmap_abs_ok _ _ (new_records_uniform (keys c) rs (proj1 R) NK ltac:(rewrite Ers; discriminate) F)) as [res [E A]].
    exists res. split; [exact E|]. assert (Rr : Rect res).
    { eapply rect_new_records; [|exact E]. apply Forall_forall. intros r I. rewrite Forall_forall in F. rewrite (F r I). apply R. }
    split; [assumption|]. eapply or_empty_abs; [assumption|exact A|reflexivity].
Qed.

(* ------------------------------------------------------------------ inc *)
Lemma ref_inc c q : Rect c -> r_inc (abs c) q = rmap abs (c_inc c q).
Proof.
  intros R. destruct q as [|f|fs]; unfold r_inc, c_inc, sats; cbn [cols recs abs].
  - rewrite bind_Ok, (kept_combine_map (fun _ => true)), filter_true. reflexivity.
  - destruct (mapM (fun r => rmap truthy (eval_rowfn f r)) (c_iter c)) as [keep|e]; cbn [bind]; [|reflexivity].
    destruct (rebuild_kept c keep R) as [res [E [Rr A]]]. rewrite E, bind_Ok. cbv beta. unfold Ok; cbn [rmap]. rewrite A. reflexivity.
  - pose proof (filters_fold (dict_of fs) c R) as H. destruct (dict_of fs) as [|f0 fs'] eqn:D.
    + cbn [keys_ok forallb]. rewrite bind_Ok. cbn [sat_filters forallb]. rewrite (kept_combine_map (fun _ => true)), filter_true. reflexivity.
    + rewrite <- D in *. destruct (fold_left c_filter1 (dict_of fs) (Ok c)) as [t'|e].
      * destruct H as [KO [R' A']]. rewrite KO, bind_Ok. cbv beta. cbn [bind]. unfold Ok; cbn [rmap]. rewrite kept_combine_map. f_equal.
        symmetry. eapply or_empty_abs; [assumption|exact A'|reflexivity].
      * destruct H as [KO ->]. rewrite KO. reflexivity.
Qed.
Lemma rect_inc c q t : Rect c -> c_inc c q = Ok t -> Rect t.
Proof.
  intros R H. assert (RE : forall res, Rect res -> Rect (c_or_empty c res)).
  { intros res Rr. unfold c_or_empty. destruct (Nat.eqb (tlen res) 0); [apply Rect_empty_cols|]; assumption. }
  destruct q as [|f|fs]; unfold c_inc in H.
  - inversion H; subst. assumption.
  - destruct (mapM _ (c_iter c)) as [keep|e]; cbn [bind] in H; [|discriminate].
    destruct (rebuild_kept c keep R) as [res [E [Rr A]]]. rewrite E, bind_Ok in H. inversion H; subst. apply RE. assumption.
  - pose proof (filters_fold (dict_of fs) c R) as F. destruct (dict_of fs) as [|f0 fs'] eqn:D; [inversion H; subst; assumption|].
    rewrite <- D in *. destruct (fold_left c_filter1 (dict_of fs) (Ok c)) as [t'|e]; cbn [bind] in H; [|discriminate].
    inversion H; subst. apply RE. apply F.
Qed.

(* ------------------------------------------------------------------ exc *)
Lemma row_checks_spec fs r : row_checks fs r = if keys_ok fs (keys r) then Ok (sat_filters fs r) else Err EKey.
Proof.
  unfold row_checks. induction fs as [|[key cd] fs IH]; [reflexivity|]. cbn [mapM keys_ok forallb sat_filters fst snd]. fold (keys_ok fs (keys r)). fold (sat_filters fs r).
  rewrite aget_mem. unfold get_or_none. destruct (aget key r) as [v|]; [|reflexivity]. unfold Ok at 1.
  destruct (mapM _ fs) as [bs|e]; cbn [rmap] in *; destruct (keys_ok fs (keys r)); cbn [andb]; try discriminate; inversion IH; subst; reflexivity.
Qed.
Lemma exc_checks c fs : Rect c -> c_iter c <> [] ->
  mapM (row_checks fs) (c_iter c) = if keys_ok fs (keys c) then Ok (map (sat_filters fs) (c_iter c)) else Err EKey.
Proof.
  intros R N. pose proof (iter_keys c R) as IK. rewrite Forall_forall in IK. destruct (keys_ok fs (keys c)) eqn:KO.
  - apply mapM_ok. intros r I. rewrite row_checks_spec, (IK r I), KO. reflexivity.
  - destruct (c_iter c) as [|r rs]; [congruence|]. cbn [mapM]. rewrite row_checks_spec, (IK r (or_introl eq_refl)), KO. reflexivity.
Qed.
Lemma tlen_zero_iter c : Rect c -> (tlen c = 0 <-> c_iter c = []).
Proof.
  intros R. rewrite tlen_rect by assumption. split; [apply iter_nil_of_zero; assumption|]. intros H. rewrite <- iter_length by assumption. rewrite H. reflexivity.
Qed.
Lemma mask_or_empty c m : Rect c -> len m = nrows c ->
  exists res, c_mask c m = Ok res /\ abs (c_or_empty c res) = mkR (keys c) (kept (combine (c_iter c) m)).
Proof.
  intros R L. destruct (rmap_abs_ok _ _ (mask_full c m R L)) as [res [E A]]. exists res. split; [assumption|].
  eapply or_empty_abs; [eapply rect_mask; eassumption|exact A|reflexivity].
Qed.
Lemma ref_exc c q : Rect c -> r_exc (abs c) q = rmap abs (c_exc c q).
Proof.
  intros R. destruct q as [|f|fs].
  - cbn. destruct (c_iter c); reflexivity.
  - assert (E0 : r_exc (abs c) (QFun f) = sats (QFun f) (abs c) >>= fun keep => Ok (mkR (keys c) (kept (combine (c_iter c) (map negb keep))))).
    { unfold r_exc. cbn [recs cols abs]. destruct (c_iter c); reflexivity. }
    rewrite E0. unfold sats, c_exc. cbn [recs abs].
    destruct (mapM (fun r => rmap truthy (eval_rowfn f r)) (c_iter c)) as [keep|e]; cbn [bind]; [|reflexivity].
    destruct (rebuild_kept c (map negb keep) R) as [res [E [Rr A]]]. rewrite E, bind_Ok. cbv beta. unfold Ok; cbn [rmap]. rewrite A. reflexivity.
  - unfold c_exc. destruct (dict_of fs) as [|f0 fs'] eqn:D.
    + destruct fs as [|f1 fs1]; [cbn; destruct (c_iter c); reflexivity|]. exfalso. apply (dict_of_not_nil (f1 :: fs1)); [discriminate|assumption].
    + rewrite <- D in *. destruct fs as [|f1 fs1]; [discriminate|]. remember (f1 :: fs1) as fs0.
      destruct (Nat.eqb (tlen c) 0) eqn:Z.
      * apply Nat.eqb_eq in Z. apply tlen_zero_iter in Z; [|assumption]. unfold r_exc. cbn [recs abs]. rewrite Z. subst fs0. rewrite rmap_Ok, abs_empty_cols. unfold abs. rewrite Z. reflexivity.
      * apply Nat.eqb_neq in Z. assert (N : c_iter c <> []) by (intros H; apply Z; apply tlen_zero_iter; assumption).
        assert (E0 : r_exc (abs c) (QFilters fs0) = sats (QFilters fs0) (abs c) >>= fun keep => Ok (mkR (keys c) (kept (combine (c_iter c) (map negb keep))))).
        { unfold r_exc. cbn [recs cols abs]. subst fs0. destruct (c_iter c); [congruence|reflexivity]. }
        rewrite E0. unfold sats. cbn [cols recs abs]. rewrite exc_checks by assumption.
        destruct (keys_ok (dict_of fs0) (keys c)); [|reflexivity]. rewrite !bind_Ok. cbv beta.
        destruct (mask_or_empty c (map negb (map (sat_filters (dict_of fs0)) (c_iter c))) R) as [res [E A]].
        { rewrite !map_length. apply iter_length. assumption. }
        rewrite E, bind_Ok. cbv beta. unfold Ok; cbn [rmap]. rewrite A. reflexivity.
Qed.

(* ------------------------------------------------------------------ the property on the records *)
Definition satb (q : query) (r : rtable) (keep : list bool) : Prop := sats q r = Ok keep.
Lemma inc_rows r q keep : sats q r = Ok keep -> r_inc r q = Ok (mkR (cols r) (kept (combine (recs r) keep))).
Proof. intros H. unfold r_inc. rewrite H. reflexivity. Qed.
(* for keyword / dict filters: literally filter by the conjunction, and filter by its negation *)
Lemma inc_filters_is_filter r fs : keys_ok (dict_of fs) (cols r) = true ->
  r_inc r (QFilters fs) = Ok (mkR (cols r) (filter (sat_filters (dict_of fs)) (recs r))).
Proof. intros H. unfold r_inc, sats. rewrite H, bind_Ok, kept_combine_map. reflexivity. Qed.
Lemma exc_filters_is_filter_neg r fs : fs <> [] -> keys_ok (dict_of fs) (cols r) = true ->
  r_exc r (QFilters fs) = Ok (mkR (cols r) (filter (fun rc => negb (sat_filters (dict_of fs) rc)) (recs r))).
Proof.
  intros N H. unfold r_exc, sats. destruct fs as [|f fs]; [congruence|].
  destruct (recs r) eqn:E; [cbn; destruct r; cbn in *; subst; reflexivity|]. rewrite <- E. rewrite H, bind_Ok, kept_combine_negb. reflexivity.
Qed.
(* general form (callables too): one boolean per row decides; inc keeps the trues, exc the falses *)
Lemma kept_is_filter {A} (l : list A) (keep : list bool) : len keep = len l ->
  kept (combine l keep) = map fst (filter snd (combine l keep)) /\ kept (combine l (map negb keep)) = map fst (filter (fun p => negb (snd p)) (combine l keep)).
Proof.
  intros H. split; [reflexivity|]. unfold kept. revert keep H. induction l as [|a l IH]; intros [|b keep] H; try discriminate; [reflexivity|].
  cbn. destruct b; cbn; rewrite IH by (cbn in H; lia); reflexivity.
Qed.
Lemma sats_length q r keep : sats q r = Ok keep -> len keep = len (recs r).
Proof.
  destruct q as [|f|fs]; unfold sats.
  - intros H. inversion H. apply map_length.
  - apply mapM_length.
  - destruct (keys_ok _ _); [|discriminate]. intros H. inversion H. apply map_length.
Qed.
Lemma partition_rows r q keep : sats q r = Ok keep ->
  let inc_rows := kept (combine (recs r) keep) in let exc_rows := kept (combine (recs r) (map negb keep)) in
  Permutation (inc_rows ++ exc_rows) (recs r) /\ subseq inc_rows (recs r) /\ subseq exc_rows (recs r).
Proof.
  intros H. apply sats_length in H. cbv zeta. revert keep H. induction (recs r) as [|a l IH]; intros [|b keep] H; try discriminate.
  - cbn. repeat split; constructor.
  - cbn in H. destruct (IH keep ltac:(lia)) as [P [S1 S2]]. unfold kept in *. cbn. destruct b; cbn.
    + split; [constructor; assumption|]. split; constructor; assumption.
    + split; [eapply Permutation_trans; [apply Permutation_sym; apply Permutation_middle|constructor; assumption]|]. split; constructor; assumption.
Qed.
Lemma inc_idempotent_filters r fs t : r_inc r (QFilters fs) = Ok t -> r_inc t (QFilters fs) = Ok t.
Proof.
  unfold r_inc, sats. destruct (keys_ok (dict_of fs) (cols r)) eqn:K; [|discriminate]. rewrite bind_Ok. intros H. inversion H; subst. cbn [cols recs].
  rewrite K, bind_Ok. rewrite !kept_combine_map, filter_idem. reflexivity.
Qed.
Lemma inc_no_condition r : r_inc r QNone = Ok r /\ r_inc r (QFilters []) = Ok r.
Proof.
  unfold r_inc, sats. cbn. rewrite !(kept_combine_map (fun _ => true)), filter_true. destruct r; split; reflexivity.
Qed.
Lemma inc_cols r q t : r_inc r q = Ok t -> cols t = cols r.
Proof. unfold r_inc. destruct (sats q r); cbn; intros H; inversion H. reflexivity. Qed.
Lemma exc_cols r q t : r_exc r q = Ok t -> cols t = cols r.
Proof.
  unfold r_exc. destruct q as [|f|[|f fs]]; destruct (recs r); try (intros H; inversion H; reflexivity);
  destruct (sats _ r); cbn; intros H; inversion H; reflexivity.
Qed.
(* find_<key>: the value v is returned iff the selected rows are not empty and all hold (a cell equal to) v *)
Lemma find_unique r key q items : mem key (cols r) = true -> r_inc r q = Ok items ->
  forall v, r_find r key q = Ok v <->
            exists rest, map (get_or_none key) (recs items) = v :: rest /\ forallb (same_cell v) rest = true.
Proof.
  intros M I v. unfold r_find. rewrite M, I, bind_Ok. destruct (map (get_or_none key) (recs items)) as [|x rest].
  - split; [discriminate|intros [rest [H _]]; discriminate].
  - destruct (forallb (same_cell x) rest) eqn:F.
    + split; [intros H; inversion H; subst; exists rest; split; [reflexivity|assumption]|intros [rest' [H _]]; inversion H; reflexivity].
    + split; [discriminate|intros [rest' [H F']]; inversion H; subst; congruence].
Qed.

(* find_ on the concrete model = find_ on the records *)
Lemma ref_find c key q : Rect c -> r_find (abs c) key q = c_find c key q.
Proof.
  intros R. unfold r_find, c_find. cbn [cols abs]. rewrite aget_mem. destruct (aget key c) as [col0|] eqn:E0; [|reflexivity].
  rewrite (ref_inc c q R). destruct (c_inc c q) as [items|e] eqn:I; cbn [rmap bind]; [|reflexivity].
  assert (Ri : Rect items) by (eapply rect_inc; eassumption).
  assert (K : keys items = keys c).
  { pose proof (ref_inc c q R) as H. rewrite I in H. cbn [rmap] in H. apply inc_cols in H. exact H. }
  cbn [recs abs]. destruct (Nat.eqb (tlen items) 0) eqn:Z.
  - apply Nat.eqb_eq in Z. apply tlen_zero_iter in Z; [|assumption]. rewrite Z. reflexivity.
  - unfold c_getcol. assert (M : mem key (keys items) = true). { rewrite K, aget_mem, E0. reflexivity. }
    rewrite aget_mem in M. destruct (aget key items) as [col|] eqn:E; [|discriminate]. rewrite bind_Ok.
    rewrite <- (col_is_get items key col Ri E). destruct col as [|x rest]; [|reflexivity].
    exfalso. apply Nat.eqb_neq in Z. apply Z. apply tlen_zero_iter; [assumption|].
    pose proof (col_is_get items key [] Ri E) as H. symmetry in H. apply map_eq_nil in H. exact H.
Qed.

Lemma mapM_kept {A} (g : A -> res bool) l keep : mapM g l = Ok keep ->
  mapM g (kept (combine l keep)) = Ok (map (fun _ => true) (kept (combine l keep))).
Proof.
  unfold kept. revert keep. induction l as [|a l IH]; intros keep H; cbn in H.
  - inversion H. reflexivity.
  - destruct (g a) as [b|] eqn:Ga; [|discriminate]. destruct (mapM g l) as [bs|] eqn:M; [|discriminate]. inversion H; subst. cbn. destruct b; cbn.
    + rewrite Ga. rewrite (IH bs eq_refl). reflexivity.
    + apply IH. reflexivity.
Qed.
Lemma inc_idempotent r q t : r_inc r q = Ok t -> r_inc t q = Ok t.
Proof.
  destruct q as [|f|fs]; [| |apply inc_idempotent_filters].
  - intros H. rewrite (proj1 (inc_no_condition r)) in H. inversion H; subst. apply inc_no_condition.
  - unfold r_inc, sats. destruct (mapM (fun rc => rmap truthy (eval_rowfn f rc)) (recs r)) as [keep|e] eqn:M; cbn [bind]; [|discriminate].
    intros H. inversion H; subst. cbn [cols recs]. rewrite (mapM_kept _ _ _ M), bind_Ok. rewrite (kept_combine_map (fun _ => true)), filter_true. reflexivity.
Qed.

(* one_or_none on the concrete model = on the records *)
Lemma ref_one_or_none c q : Rect c -> r_one_or_none (abs c) q = c_one_or_none c q.
Proof.
  intros R. unfold r_one_or_none, c_one_or_none. rewrite (ref_inc c q R). destruct (c_inc c q) as [res|e] eqn:I; cbn [rmap bind]; [|reflexivity].
  assert (Rr : Rect res) by (eapply rect_inc; eassumption). cbn [recs abs].
  assert (L : len (c_iter res) = tlen res) by (rewrite iter_length, tlen_rect by assumption; reflexivity).
  pose proof (iter_rect res Rr) as IR. rewrite <- tlen_rect in IR by assumption.
  destruct (c_iter res) as [|x [|y l]] eqn:E; cbn [len] in L; rewrite <- L.
  - reflexivity.
  - cbn [Nat.ltb Nat.leb Nat.eqb]. assert (N : res <> []) by (intros ->; discriminate).
    rewrite getrow_cases by assumption. rewrite <- tlen_rect, <- L by assumption. cbn. rewrite <- L in IR. cbn in IR. inversion IR. reflexivity.
  - reflexivity.
Qed.
