(* Lemmas about the operator model M_tsops (C08), generic in the cell operation opc. *)
From Coq Require Import ZArith List Bool Lia Arith.
From PB Require Import model.M_align model.M_tsops proofs.P_align.
Import ListNotations.
Open Scope Z_scope.

Lemma reindex_m_val_at m s idx : reindex_m None is_nan m s idx = map (fun t => (t, val_at m s t)) idx.
Proof. destruct m; reflexivity. Qed.

Lemma at_map_fn (g : Z -> cell) idx t : In t idx -> at_ None (map (fun t => (t, g t)) idx) t = g t.
Proof. intros H. unfold at_, cell in *. rewrite (lookup_map_fn None is_nan g idx t H). reflexivity. Qed.

(* reindexing a sorted series on its own index changes nothing *)
Lemma reindex_self (s : gts cell) : sorted (index_of s) -> map (fun t => (t, at_ None s t)) (index_of s) = s.
Proof.
  intros Hs. unfold index_of. rewrite map_map. rewrite <- (map_id s) at 2. apply map_ext_in.
  intros [t v] Hin. simpl. unfold at_. rewrite (lookup_sorted None is_nan t v s Hs Hin). reflexivity.
Qed.

Lemma join_index_single h i : (forall x, h <> HX x) -> join_index h [i] = Some i.
Proof. destruct h; intros H; try reflexivity. exfalso. apply (H idx). reflexivity. Qed.

Section OPS.
  Variable opc : cell -> cell -> cell.

  (* ---- two series: index = the joint index, value = opc of the aligned values *)
  Theorem binop_series h m ch d a b P : join_index h [index_of a; index_of b] = Some P ->
    binop opc h m ch d (OS a) (OS b) = OS (map (fun t => (t, opc (val_at m a t) (val_at m b t))) P).
  Proof.
    intros HP. unfold binop, presync_calls. simpl flat_map. unfold df_index. simpl pd_indexes. rewrite HP.
    simpl frame_cols. replace (join_index ch []) with (@None (list Z)) by reflexivity.
    simpl. rewrite !reindex_m_val_at. f_equal. rewrite map_map. apply map_ext_in. intros t Ht. simpl.
    rewrite (at_map_fn (val_at m b) P t Ht). reflexivity.
  Qed.

  Corollary binop_series_index h m ch d a b P s : join_index h [index_of a; index_of b] = Some P ->
    binop opc h m ch d (OS a) (OS b) = OS s -> index_of s = P.
  Proof.
    intros HP H. rewrite (binop_series h m ch d a b P HP) in H. inversion H.
    apply (index_map_fn (fun t => opc (val_at m a t) (val_at m b t))).
  Qed.

  Corollary binop_series_pointwise h m ch d a b P t : join_index h [index_of a; index_of b] = Some P -> In t P ->
    exists s, binop opc h m ch d (OS a) (OS b) = OS s /\ lookup t s = Some (opc (val_at m a t) (val_at m b t)).
  Proof.
    intros HP Ht. eexists. split; [apply (binop_series h m ch d a b P HP)|].
    apply (lookup_map_fn None is_nan (fun t => opc (val_at m a t) (val_at m b t))). exact Ht.
  Qed.

  (* ---- scalar broadcast: the series keeps its own index *)
  Theorem binop_scalar_right h m ch d a c : (forall x, h <> HX x) ->
    binop opc h m ch d (OS a) (ON c) = OS (map (fun t => (t, opc (val_at m a t) c)) (index_of a)).
  Proof.
    intros Hh. unfold binop, presync_calls. simpl flat_map. unfold df_index. simpl pd_indexes.
    rewrite (join_index_single h _ Hh). simpl frame_cols. replace (join_index ch []) with (@None (list Z)) by reflexivity.
    simpl. rewrite reindex_m_val_at. f_equal. rewrite map_map. reflexivity.
  Qed.

  Theorem binop_scalar_left h m ch d a c : (forall x, h <> HX x) ->
    binop opc h m ch d (ON c) (OS a) = OS (map (fun t => (t, opc c (val_at m a t))) (index_of a)).
  Proof.
    intros Hh. unfold binop, presync_calls. simpl flat_map. unfold df_index. simpl pd_indexes.
    rewrite (join_index_single h _ Hh). simpl frame_cols. replace (join_index ch []) with (@None (list Z)) by reflexivity.
    simpl. rewrite reindex_m_val_at. f_equal. rewrite map_map. reflexivity.
  Qed.

  Theorem binop_scalar_scalar h m ch d c1 c2 : binop opc h m ch d (ON c1) (ON c2) = ON (opc c1 c2).
  Proof.
    unfold binop, presync_calls. simpl flat_map. unfold df_index. simpl.
    replace (join_index ch []) with (@None (list Z)) by reflexivity. reflexivity.
  Qed.

  (* without a fill method, on a sorted series: cell by cell *)
  Corollary binop_scalar_cells h ch d a c : (forall x, h <> HX x) -> sorted (index_of a) ->
    binop opc h MNone ch d (OS a) (ON c) = OS (map (fun p => (fst p, opc (snd p) c)) a) /\
    binop opc h MNone ch d (ON c) (OS a) = OS (map (fun p => (fst p, opc c (snd p))) a).
  Proof.
    intros Hh Hs. rewrite binop_scalar_right, binop_scalar_left by exact Hh. simpl val_at.
    split; f_equal.
    - rewrite <- (reindex_self a Hs) at 2. rewrite map_map. reflexivity.
    - rewrite <- (reindex_self a Hs) at 2. rewrite map_map. reflexivity.
  Qed.

  (* ---- lists reduce left to right *)
  Theorem reduce_snoc h m ch d x xs y :
    reduce opc h m ch d ((x :: xs) ++ [y]) =
    match reduce opc h m ch d (x :: xs) with Some r => Some (binop opc h m ch d r y) | None => None end.
  Proof. simpl. rewrite fold_left_app. reflexivity. Qed.

  Theorem reduce_two h m ch d x y : reduce opc h m ch d [x; y] = Some (binop opc h m ch d x y).
  Proof. reflexivity. Qed.

  Theorem reduce_one h m ch d x : reduce opc h m ch d [x] = Some x.
  Proof. reflexivity. Qed.

  (* ---- column policy 'oj': a column one frame lacks is replaced by the default scalar *)
  Lemma multi_two c : multi c = true -> exists c0 c1 cs, c = c0 :: c1 :: cs.
  Proof. destruct c as [|c0 [|c1 cs]]; try discriminate. intros _. eauto. Qed.

  Lemma column_obj_has x d c r : multi c = true -> In x c -> column_obj (Some x) d (OF c r) = OS (column c r x).
  Proof.
    intros Hm Hx. destruct (multi_two c Hm) as [c0 [c1 [cs ->]]]. unfold column_obj.
    apply mem_In in Hx. rewrite Hx. reflexivity.
  Qed.
  Lemma column_obj_lacks x d c r : multi c = true -> ~ In x c -> column_obj (Some x) d (OF c r) = ON d.
  Proof.
    intros Hm Hx. destruct (multi_two c Hm) as [c0 [c1 [cs ->]]]. unfold column_obj.
    destruct (mem x (c0 :: c1 :: cs)) eqn:E; [apply mem_In in E; contradiction | reflexivity].
  Qed.

  Theorem oj_missing_column_call h m d ca ra cb rb x call :
    multi ca = true -> multi cb = true -> In x ca -> ~ In x cb ->
    In (Some x, call) (presync_calls h m (Some HO) d [Leaf (OF ca ra); Leaf (OF cb rb)]) ->
    exists P, join_index h [index_of ra; index_of rb] = Some P /\
      call = [Leaf (OS (column ca (reindex_m (nanrow ca) row_isnan m ra P) x)); Leaf (ON d)].
  Proof.
    intros Hma Hmb Hxa Hxb Hin. unfold presync_calls in Hin. simpl flat_map in Hin.
    unfold df_index in Hin. simpl pd_indexes in Hin.
    destruct (join_index h [index_of ra; index_of rb]) as [P|] eqn:HP; [|destruct h; discriminate].
    exists P. split; [reflexivity|].
    simpl frame_cols in Hin. rewrite Hma, Hmb in Hin. simpl app in Hin.
    change (join_index HO [ca; cb]) with (Some (union ca cb)) in Hin.
    apply in_map_iff in Hin. destruct Hin as [x0 [E _]]. injection E as E1 E2. subst x0. rewrite <- E2.
    cbn [map tmap reindex_obj].
    destruct (multi_two ca Hma) as [a0 [a1 [ar Ea]]]. destruct (multi_two cb Hmb) as [b0 [b1 [br Eb]]].
    apply mem_In in Hxa.
    assert (Hxb' : mem x cb = false) by (destruct (mem x cb) eqn:Q; [apply mem_In in Q; contradiction | reflexivity]).
    unfold column_obj. rewrite Hxa, Hxb'. rewrite Ea, Eb. reflexivity.
  Qed.

  Theorem op2_neutral_right d s : (forall v, opc v d = v) -> op2 opc (OS s) (ON d) = OS s.
  Proof.
    intros H. simpl. f_equal. rewrite <- (map_id s) at 2. apply map_ext. intros [t v]. simpl. rewrite H. reflexivity.
  Qed.
  Theorem op2_neutral_left d s : (forall v, opc d v = v) -> op2 opc (ON d) (OS s) = OS s.
  Proof.
    intros H. simpl. f_equal. rewrite <- (map_id s) at 2. apply map_ext. intros [t v]. simpl. rewrite H. reflexivity.
  Qed.

  (* ---- commutativity (inner / outer join) *)
  Lemma join2_comm h ia ib P1 P2 : sorted ia -> sorted ib -> (h = HI \/ h = HO) ->
    join_index h [ia; ib] = Some P1 -> join_index h [ib; ia] = Some P2 -> P1 = P2.
  Proof.
    intros Ha Hb Hh H1 H2. simpl in H1, H2. destruct Hh; subst h; simpl in H1, H2; inversion H1; inversion H2; subst.
    - apply sorted_ext; [apply inter_sorted; exact Ha | apply inter_sorted; exact Hb |].
      intros t. rewrite !inter_In. tauto.
    - apply sorted_ext; [apply union_sorted; exact Ha | apply union_sorted; exact Hb |].
      intros t. rewrite !union_In. tauto.
  Qed.

  Theorem binop_series_comm h m ch d a b : (forall x y, opc x y = opc y x) ->
    sorted (index_of a) -> sorted (index_of b) -> (h = HI \/ h = HO) ->
    binop opc h m ch d (OS a) (OS b) = binop opc h m ch d (OS b) (OS a).
  Proof.
    intros Hc Ha Hb Hh.
    destruct (join_index h [index_of a; index_of b]) as [P1|] eqn:H1; [|destruct Hh; subst; discriminate].
    destruct (join_index h [index_of b; index_of a]) as [P2|] eqn:H2; [|destruct Hh; subst; discriminate].
    rewrite (binop_series h m ch d a b P1 H1), (binop_series h m ch d b a P2 H2).
    rewrite (join2_comm h _ _ P1 P2 Ha Hb Hh H1 H2). f_equal. apply map_ext. intros t. rewrite Hc. reflexivity.
  Qed.

  Theorem binop_scalar_comm h m ch d a c : (forall x y, opc x y = opc y x) -> (forall x, h <> HX x) ->
    binop opc h m ch d (OS a) (ON c) = binop opc h m ch d (ON c) (OS a).
  Proof.
    intros Hc Hh. rewrite binop_scalar_right, binop_scalar_left by exact Hh. f_equal. apply map_ext. intros t. rewrite Hc. reflexivity.
  Qed.
End OPS.

(* ------------------------------------------------------------------ the concrete arithmetic (integers with +-inf) *)
Lemma unview_view z : unview (view z) = z.
Proof.
  unfold view. destruct (z =? INFZ) eqn:E1; [apply Z.eqb_eq in E1; subst; reflexivity|].
  destruct (z =? - INFZ) eqn:E2; [apply Z.eqb_eq in E2; subst; reflexivity | reflexivity].
Qed.
Lemma view_fin z : z <> INFZ -> z <> - INFZ -> view z = Fin z.
Proof.
  intros H1 H2. unfold view. apply Z.eqb_neq in H1. apply Z.eqb_neq in H2. rewrite H1, H2. reflexivity.
Qed.
Ltac view_cases a E := destruct (view a) eqn:E; pose proof (unview_view a) as U; rewrite E in U; cbn [unview] in U; subst a.

Lemma divc_zero x : divc x (Some 0) = None.
Proof. destruct x as [a|]; [|reflexivity]. unfold divc, lifte. change (view 0) with (Fin 0). destruct (view a); reflexivity. Qed.
Lemma divc_nan_r x : divc x None = None.
Proof. destruct x; reflexivity. Qed.
Lemma divc_exact a b : b <> 0 -> b <> INFZ -> b <> - INFZ -> a * b <> INFZ -> a * b <> - INFZ ->
  divc (Some (a * b)) (Some b) = Some a.
Proof.
  intros Hb B1 B2 A1 A2. unfold divc, lifte. rewrite (view_fin b B1 B2), (view_fin (a * b) A1 A2). cbn [ediv].
  destruct (b =? 0) eqn:E; [apply Z.eqb_eq in E; contradiction|]. cbn [unview]. rewrite Z.div_mul by exact Hb. reflexivity.
Qed.
(* an infinite numerator over a non-zero finite denominator stays infinite; finite / inf = 0; inf / inf = NaN *)
Lemma divc_inf b : b <> 0 -> b <> INFZ -> b <> - INFZ ->
  divc (Some INFZ) (Some b) = Some (if 0 <? b then INFZ else - INFZ) /\
  divc (Some (- INFZ)) (Some b) = Some (if b <? 0 then INFZ else - INFZ) /\
  divc (Some b) (Some INFZ) = Some 0 /\ divc (Some INFZ) (Some INFZ) = None /\ divc (Some INFZ) (Some (- INFZ)) = None.
Proof.
  intros Hb B1 B2. unfold divc, lifte. rewrite (view_fin b B1 B2).
  change (view INFZ) with PInf. change (view (- INFZ)) with NInf. cbn [ediv].
  apply Z.eqb_neq in Hb. rewrite Hb. repeat split; try reflexivity; [destruct (0 <? b) | destruct (b <? 0)]; reflexivity.
Qed.
Lemma arith_inf a : a <> INFZ -> a <> - INFZ ->
  addc (Some INFZ) (Some a) = Some INFZ /\ addc (Some a) (Some (- INFZ)) = Some (- INFZ) /\
  addc (Some INFZ) (Some (- INFZ)) = None /\ subc (Some INFZ) (Some INFZ) = None /\ subc (Some a) (Some INFZ) = Some (- INFZ) /\
  mulc (Some INFZ) (Some 0) = None /\ mulc (Some INFZ) (Some INFZ) = Some INFZ /\
  (0 < a -> mulc (Some a) (Some (- INFZ)) = Some (- INFZ)) /\ (a < 0 -> mulc (Some a) (Some (- INFZ)) = Some INFZ).
Proof.
  intros A1 A2. unfold addc, subc, mulc, lifte. rewrite (view_fin a A1 A2).
  change (view INFZ) with PInf. change (view (- INFZ)) with NInf. change (view 0) with (Fin 0).
  repeat split; try reflexivity.
  - intros H. cbn [emul]. destruct (a =? 0) eqn:E; [apply Z.eqb_eq in E; lia|].
    destruct (a <? 0) eqn:E2; [apply Z.ltb_lt in E2; lia | reflexivity].
  - intros H. cbn [emul]. destruct (a =? 0) eqn:E; [apply Z.eqb_eq in E; lia|].
    destruct (a <? 0) eqn:E2; [reflexivity | apply Z.ltb_ge in E2; lia].
Qed.

Lemma eadd_comm x y : eadd x y = eadd y x.
Proof. destruct x, y; simpl; try reflexivity. f_equal. f_equal. lia. Qed.
Lemma emul_comm x y : emul x y = emul y x.
Proof. destruct x, y; simpl; try reflexivity. f_equal. f_equal. lia. Qed.
Lemma addc_comm x y : addc x y = addc y x.
Proof. destruct x, y; try reflexivity. unfold addc, lifte. rewrite eadd_comm. reflexivity. Qed.
Lemma mulc_comm x y : mulc x y = mulc y x.
Proof. destruct x, y; try reflexivity. unfold mulc, lifte. rewrite emul_comm. reflexivity. Qed.
Lemma addc_neutral v : addc v (Some 0) = v /\ addc (Some 0) v = v /\ subc v (Some 0) = v.
Proof.
  destruct v as [a|]; [|repeat split; reflexivity]. unfold addc, subc, lifte. change (view 0) with (Fin 0).
  view_cases a E; cbn [eadd eneg unview]; repeat split; try reflexivity; f_equal; lia.
Qed.
Lemma mulc_neutral v : mulc v (Some 1) = v /\ mulc (Some 1) v = v.
Proof.
  destruct v as [a|]; [|repeat split; reflexivity]. unfold mulc, lifte. change (view 1) with (Fin 1).
  view_cases a E; cbn [emul unview]; repeat split; try reflexivity; f_equal; lia.
Qed.
Lemma divc_neutral v : divc v (Some 1) = v.
Proof.
  destruct v as [a|]; [|reflexivity]. unfold divc, lifte. change (view 1) with (Fin 1).
  view_cases a E; cbn [ediv unview]; try reflexivity. change (1 =? 0) with false. cbv iota. rewrite Z.div_1_r. reflexivity.
Qed.
Lemma lift2_strict f x y : (x = None \/ y = None) -> lift2 f x y = None.
Proof. intros [->| ->]; [reflexivity | destruct x; reflexivity]. Qed.
Lemma lifte_strict f x y : (x = None \/ y = None) -> lifte f x y = None.
Proof. intros [->| ->]; [reflexivity | destruct x; reflexivity]. Qed.

(* ------------------------------------------------------------------ aggregates *)
Lemma sum_impl_from acc cs :
  fold_left (fun acc c => acc + match c with Some v => v | None => 0 end) cs acc = acc + zsum (present cs).
Proof.
  revert acc. induction cs as [|c cs IH]; intros acc; simpl; [lia|].
  rewrite IH. destruct c; simpl; unfold zsum in *; simpl; lia.
Qed.
Lemma n_impl_from acc cs :
  fold_left (fun acc c => acc + if is_nan c then 0 else 1) cs acc = acc + Z.of_nat (length (present cs)).
Proof.
  revert acc. induction cs as [|c cs IH]; intros acc; simpl; [lia|].
  rewrite IH. destruct c; simpl; lia.
Qed.
Theorem sum_impl_spec cs : sum_impl cs = zsum (present cs).
Proof. unfold sum_impl. rewrite sum_impl_from. lia. Qed.
Theorem n_impl_spec cs : n_impl cs = Z.of_nat (length (present cs)).
Proof. unfold n_impl. rewrite n_impl_from. lia. Qed.

Lemma present_nil cs : present cs = [] <-> (forall c, In c cs -> c = None).
Proof.
  induction cs as [|c cs IH]; simpl; [tauto|]. destruct c as [v|]; simpl.
  - split; [discriminate | intros H; specialize (H (Some v) (or_introl eq_refl)); discriminate].
  - rewrite IH. split; [intros H c [<-|Hc]; auto | intros H c Hc; apply H; auto].
Qed.

(* NaN operands are skipped; NaN (count 0) exactly where no operand has data *)
Theorem agg_cell_spec cs :
  agg_cell ACount cs = Some (Z.of_nat (length (present cs))) /\
  (present cs = [] -> agg_cell ASum cs = None /\ agg_cell AMean cs = None) /\
  (present cs <> [] -> has_pinf cs = false -> has_ninf cs = false ->
     agg_cell ASum cs = Some (zsum (present cs)) /\
     agg_cell AMean cs = Some (zsum (present cs) / Z.of_nat (length (present cs)))) /\
  (present cs <> [] -> has_pinf cs = true -> has_ninf cs = false -> agg_cell ASum cs = Some INFZ /\ agg_cell AMean cs = Some INFZ) /\
  (present cs <> [] -> has_pinf cs = false -> has_ninf cs = true -> agg_cell ASum cs = Some (- INFZ) /\ agg_cell AMean cs = Some (- INFZ)) /\
  (has_pinf cs = true -> has_ninf cs = true -> agg_cell ASum cs = None /\ agg_cell AMean cs = None).
Proof.
  unfold agg_cell. rewrite n_impl_spec, sum_impl_spec. split; [reflexivity|]. split.
  - intros ->. simpl. split; reflexivity.
  - assert (NZ : present cs <> [] -> Z.of_nat (length (present cs)) =? 0 = false).
    { intros H. destruct (present cs) as [|v l]; [contradiction|]. apply Z.eqb_neq. simpl length. lia. }
    split; [|split; [|split]].
    + intros H Hp Hn. rewrite (NZ H), Hp, Hn. split; reflexivity.
    + intros H Hp Hn. rewrite (NZ H), Hp, Hn. split; reflexivity.
    + intros H Hp Hn. rewrite (NZ H), Hp, Hn. split; reflexivity.
    + intros Hp Hn. rewrite Hp, Hn. destruct (Z.of_nat (length (present cs)) =? 0); split; reflexivity.
Qed.

(* an infinite operand is data, not a missing value: it is counted *)
Lemma present_counts_inf cs : has_pinf cs = true \/ has_ninf cs = true -> present cs <> [].
Proof.
  intros H E. assert (Q : forall c, In c cs -> c = None) by (apply present_nil; exact E).
  destruct H as [H|H]; unfold has_pinf, has_ninf in H; apply existsb_exists in H; destruct H as [c [Hc Hv]];
    rewrite (Q c Hc) in Hv; discriminate.
Qed.

(* a list of series: the aggregate is a series on the joint index, cell = aggregate of the aligned cells *)
Lemma flatten_leaves xs : flatten (TL (map Leaf xs)) = xs.
Proof. simpl. induction xs as [|x xs IH]; simpl; [reflexivity | rewrite IH; reflexivity]. Qed.

Definition all_series (xs : list obj) : Prop := Forall (fun o => exists s, o = OS s) xs.

Lemma all_series_frame_cols xs : all_series xs -> frame_cols xs = [].
Proof. induction 1 as [|o xs [s ->] _ IH]; simpl; [reflexivity | exact IH]. Qed.
Lemma all_series_pd_indexes xs : all_series xs -> pd_indexes xs = map (fun o => match o with OS s => index_of s | _ => [] end) xs.
Proof. induction 1 as [|o xs [s ->] _ IH]; simpl; [reflexivity | rewrite IH; reflexivity]. Qed.

Theorem df_agg_series g h m ch s0 rest P : all_series (OS s0 :: rest) ->
  join_index h (pd_indexes (OS s0 :: rest)) = Some P ->
  df_agg g h m ch (OS s0 :: rest) =
    OS (map (fun t => (t, agg_cell g (map (fun o => match o with OS s => val_at m s t | _ => None end) (OS s0 :: rest)))) P).
Proof.
  intros Hall HP. unfold df_agg.
  assert (Hn : forall o, TL (map Leaf (OS s0 :: rest)) <> Leaf o) by (intros o; discriminate).
  rewrite (proj1 (df_sync_leafwise _ h m (Some ch) Hn)). rewrite flatten_leaves.
  set (xs := OS s0 :: rest) in *.
  assert (Hleaf : forall o, In o xs -> sync_leaf (TL (map Leaf xs)) h m (Some ch) o = reindex_obj (TgIdx P) m o).
  { intros o _. unfold sync_leaf. rewrite flatten_leaves. rewrite (all_series_frame_cols xs Hall).
    rewrite (df_index_pd _ _ _ HP). destruct ch; reflexivity. }
  rewrite (map_ext_in _ _ xs Hleaf).
  assert (Hser : forall l, all_series l -> first_frame (map (reindex_obj (TgIdx P) m) l) = None).
  { unfold first_frame. induction 1 as [|o l [s ->] _ IH]; simpl; [reflexivity | exact IH]. }
  rewrite (Hser xs Hall). unfold xs at 1. unfold first_series. simpl flat_map. cbv iota beta.
  rewrite index_reindex_m. f_equal. apply map_ext_in. intros t Ht. f_equal. f_equal.
  rewrite map_map. apply map_ext_in. intros o Ho.
  unfold all_series in Hall. rewrite Forall_forall in Hall. destruct (Hall o Ho) as [s ->]. simpl.
  rewrite reindex_m_val_at. apply at_map_fn. exact Ht.
Qed.

(* ------------------------------------------------------------------ whole DataFrames *)
Lemma reindex_m_row_val m c r idx : reindex_m (nanrow c) row_isnan m r idx = map (fun t => (t, row_val m c r t)) idx.
Proof. destruct m; reflexivity. Qed.

Lemma column_map_fn c (g : Z -> list cell) idx x :
  column c (map (fun t => (t, g t)) idx) x = map (fun t => (t, row_get c (g t) x)) idx.
Proof. unfold column. rewrite map_map. reflexivity. Qed.

(* the column set by policy is made of columns of the operands *)
Lemma join_cols_subset ch ca cb C : (forall x, ch <> HX x) -> join_index ch [ca; cb] = Some C ->
  forall x, In x C -> In x ca \/ In x cb.
Proof.
  intros Hx H x Hin. pose proof (join_index_spec ch _ C H) as S. destruct ch.
  - left. apply (proj1 (S x) Hin). left. reflexivity.
  - destruct (proj1 (S x) Hin) as [i [[<-|[<-|[]]] Hi]]; auto.
  - destruct S as [rest E]. inversion E. subst. auto.
  - simpl in H. inversion H. subst. auto.
  - exfalso. apply (Hx idx). reflexivity.
Qed.

Section FRAMES.
  Variable opc : cell -> cell -> cell.

  Lemma op2_ss (fa fb : Z -> cell) P :
    op2 opc (OS (map (fun t => (t, fa t)) P)) (OS (map (fun t => (t, fb t)) P)) = OS (map (fun t => (t, opc (fa t) (fb t))) P).
  Proof.
    simpl. f_equal. rewrite map_map. apply map_ext_in. intros t Ht. simpl. rewrite (at_map_fn fb P t Ht). reflexivity.
  Qed.
  Lemma op2_sn (fa : Z -> cell) d P :
    op2 opc (OS (map (fun t => (t, fa t)) P)) (ON d) = OS (map (fun t => (t, opc (fa t) d)) P).
  Proof. simpl. f_equal. rewrite map_map. reflexivity. Qed.
  Lemma op2_ns (fb : Z -> cell) d P :
    op2 opc (ON d) (OS (map (fun t => (t, fb t)) P)) = OS (map (fun t => (t, opc d (fb t))) P).
  Proof. simpl. f_equal. rewrite map_map. reflexivity. Qed.

  (* the per-column call for column x yields the series of opc applied to the two operand cells *)
  Lemma call_series_frames m d ca ra cb rb P x : multi ca = true -> multi cb = true -> In x ca \/ In x cb ->
    call_series opc (Some x, [Leaf (column_obj (Some x) d (OF ca (map (fun t => (t, row_val m ca ra t)) P)));
                              Leaf (column_obj (Some x) d (OF cb (map (fun t => (t, row_val m cb rb t)) P)))])
    = map (fun t => (t, opc (fcell m d ca ra x t) (fcell m d cb rb x t))) P.
  Proof.
    intros Ha Hb Hx. unfold call_series, fcell. cbn [snd].
    destruct (mem x ca) eqn:Ea; destruct (mem x cb) eqn:Eb.
    - apply mem_In in Ea. apply mem_In in Eb.
      rewrite (column_obj_has x d ca _ Ha Ea), (column_obj_has x d cb _ Hb Eb), !column_map_fn, op2_ss. reflexivity.
    - apply mem_In in Ea. assert (Nb : ~ In x cb) by (intros Q; apply mem_In in Q; congruence).
      rewrite (column_obj_has x d ca _ Ha Ea), (column_obj_lacks x d cb _ Hb Nb), column_map_fn, op2_sn. reflexivity.
    - apply mem_In in Eb. assert (Na : ~ In x ca) by (intros Q; apply mem_In in Q; congruence).
      rewrite (column_obj_lacks x d ca _ Ha Na), (column_obj_has x d cb _ Hb Eb), column_map_fn, op2_ns. reflexivity.
    - exfalso. destruct Hx as [Q|Q]; apply mem_In in Q; congruence.
  Qed.

  Definition frame_result m d ca ra cb rb (C P : list Z) : obj :=
    match C with
    | [] => OS []
    | _ => OF C (map (fun t => (t, map (fun x => opc (fcell m d ca ra x t) (fcell m d cb rb x t)) C)) P)
    end.

  (* two proper frames: presync's column dispatch + _convert give exactly the frame of the cellwise results *)
  Theorem binop_frames h m ch d ca ra cb rb P C : multi ca = true -> multi cb = true -> (forall x, ch <> HX x) ->
    join_index h [index_of ra; index_of rb] = Some P -> join_index ch [ca; cb] = Some C ->
    binop opc h m ch d (OF ca ra) (OF cb rb) = frame_result m d ca ra cb rb C P.
  Proof.
    intros Ha Hb Hch HP HC. pose proof (join_cols_subset ch ca cb C Hch HC) as Hsub.
    unfold binop, presync_calls. simpl flat_map. unfold df_index. simpl pd_indexes. rewrite HP.
    simpl frame_cols. rewrite Ha, Hb. simpl app. rewrite HC.
    cbn [map tmap reindex_obj]. rewrite !reindex_m_row_val.
    unfold frame_result. destruct C as [|x0 C']; [reflexivity|].
    set (C := x0 :: C') in *.
    set (mk := fun x : Z => (Some x, [Leaf (column_obj (Some x) d (OF ca (map (fun t => (t, row_val m ca ra t)) P)));
                                     Leaf (column_obj (Some x) d (OF cb (map (fun t => (t, row_val m cb rb t)) P)))])).
    change (assemble opc (map mk C) (has1 (OF ca ra) || has1 (OF cb rb)) =
            OF C (map (fun t => (t, map (fun x => opc (fcell m d ca ra x t) (fcell m d cb rb x t)) C)) P)).
    assert (Hs : map (call_series opc) (map mk C) = map (fun x => map (fun t => (t, opc (fcell m d ca ra x t) (fcell m d cb rb x t))) P) C).
    { rewrite map_map. apply map_ext_in. intros x Hx. unfold mk. apply call_series_frames; auto. }
    assert (Hc : map (fun c : option Z * list tree => match fst c with Some x => x | None => 0 end) (map mk C) = C).
    { rewrite map_map. unfold mk. cbn [fst]. clear. generalize C. intros l. induction l as [|y l IH]; simpl; [reflexivity | rewrite IH; reflexivity]. }
    assert (Hasm : assemble opc (map mk C) (has1 (OF ca ra) || has1 (OF cb rb)) =
                   let sers := map (call_series opc) (map mk C) in
                   let idx := match sers with s :: _ => index_of s | [] => [] end in
                   OF (map (fun c : option Z * list tree => match fst c with Some x => x | None => 0 end) (map mk C))
                      (map (fun t => (t, map (fun s => at_ None s t) sers)) idx)).
    { unfold C, mk. reflexivity. }
    rewrite Hasm. cbv zeta. rewrite Hs, Hc.
    assert (Hidx : match map (fun x => map (fun t => (t, opc (fcell m d ca ra x t) (fcell m d cb rb x t))) P) C with
                   | [] => [] | s :: _ => index_of s end = P).
    { unfold C. cbn [map]. apply (index_map_fn (fun t => opc (fcell m d ca ra x0 t) (fcell m d cb rb x0 t))). }
    f_equal. etransitivity; [apply f_equal; exact Hidx|].
    apply map_ext_in. intros t Ht. f_equal.
    rewrite map_map. apply map_ext. intros x.
    apply (at_map_fn (fun t => opc (fcell m d ca ra x t) (fcell m d cb rb x t)) P t Ht).
  Qed.

  (* reading a cell of the result frame *)
  Theorem frame_result_cell m d ca ra cb rb C P t x : In t P -> In x C ->
    frame_cell (frame_result m d ca ra cb rb C P) t x = opc (fcell m d ca ra x t) (fcell m d cb rb x t).
  Proof.
    intros Ht Hx. unfold frame_result. destruct C as [|x0 C']; [destruct Hx|].
    set (C := x0 :: C') in *. unfold frame_cell, at_.
    rewrite (lookup_map_fn (nanrow C) row_isnan (fun t => map (fun x => opc (fcell m d ca ra x t) (fcell m d cb rb x t)) C) P t Ht).
    apply (row_get_map C (fun x => opc (fcell m d ca ra x t) (fcell m d cb rb x t)) x Hx).
  Qed.

  Theorem frame_result_shape m d ca ra cb rb C P : C <> [] ->
    exists rows, frame_result m d ca ra cb rb C P = OF C rows /\ index_of rows = P.
  Proof.
    intros HC. unfold frame_result. destruct C as [|x0 C']; [contradiction|].
    eexists. split; [reflexivity|].
    apply (index_map_fn (fun t => map (fun x => opc (fcell m d ca ra x t) (fcell m d cb rb x t)) (x0 :: C'))).
  Qed.

  (* commutativity for whole frames *)
  Theorem binop_frames_comm h m ch d ca ra cb rb : (forall x y, opc x y = opc y x) ->
    multi ca = true -> multi cb = true -> sorted (index_of ra) -> sorted (index_of rb) -> sorted ca -> sorted cb ->
    (h = HI \/ h = HO) -> (ch = HI \/ ch = HO) ->
    binop opc h m ch d (OF ca ra) (OF cb rb) = binop opc h m ch d (OF cb rb) (OF ca ra).
  Proof.
    intros Hc Ha Hb Sra Srb Sca Scb Hh Hch.
    assert (Hnx : forall x, ch <> HX x) by (intros x E; destruct Hch; subst; discriminate).
    destruct (join_index h [index_of ra; index_of rb]) as [P1|] eqn:H1; [|destruct Hh; subst; discriminate].
    destruct (join_index h [index_of rb; index_of ra]) as [P2|] eqn:H2; [|destruct Hh; subst; discriminate].
    destruct (join_index ch [ca; cb]) as [C1|] eqn:G1; [|destruct Hch; subst; discriminate].
    destruct (join_index ch [cb; ca]) as [C2|] eqn:G2; [|destruct Hch; subst; discriminate].
    rewrite (binop_frames h m ch d ca ra cb rb P1 C1 Ha Hb Hnx H1 G1), (binop_frames h m ch d cb rb ca ra P2 C2 Hb Ha Hnx H2 G2).
    rewrite (join2_comm h _ _ P1 P2 Sra Srb Hh H1 H2), (join2_comm ch _ _ C1 C2 Sca Scb Hch G1 G2).
    unfold frame_result. destruct C2; [reflexivity|]. f_equal. apply map_ext. intros t. f_equal. apply map_ext. intros x. apply Hc.
  Qed.
End FRAMES.

(* without a fill method the operand cell is the frame's own cell at (t, x), NaN when the frame lacks t *)
Lemma fcell_none d c r x t : In x c ->
  fcell MNone d c r x t = match lookup t r with Some row => row_get c row x | None => None end.
Proof.
  intros Hx. unfold fcell. apply mem_In in Hx. rewrite Hx. simpl. unfold at_.
  destruct (lookup t r); [reflexivity | apply row_get_nanrow].
Qed.
Lemma fcell_missing m d c r x t : ~ In x c -> fcell m d c r x t = d.
Proof. intros Hx. unfold fcell. destruct (mem x c) eqn:E; [apply mem_In in E; contradiction | reflexivity]. Qed.

(* ------------------------------------------------------------------ concrete cell operations *)
Lemma powc_spec a b : 0 <= b -> powc (Some a) (Some b) = Some (a ^ b).
Proof.
  intros Hb. destruct a as [|[q|q|]|q], b as [|p|p]; try reflexivity; try lia.
  unfold powc. rewrite Z.pow_1_l by lia. reflexivity.
Qed.
Lemma powc_nan : powc None (Some 0) = Some 1 /\ (forall y, powc (Some 1) y = Some 1) /\
  (forall b, b <> 0 -> powc None (Some b) = None) /\ (forall a, a <> 1 -> powc (Some a) None = None).
Proof.
  split; [reflexivity|]. split; [intros [[| |]|]; reflexivity|]. split.
  - intros b Hb. destruct b; [contradiction | reflexivity | reflexivity].
  - intros a Ha. destruct a as [|[q|q|]|q]; try reflexivity. contradiction.
Qed.
Lemma cmpc_spec f a b : cmpc f (Some a) (Some b) = Some (if f a b then 1 else 0) /\
  (forall x, cmpc f None x = Some 0) /\ (forall x, cmpc f x None = Some 0).
Proof. repeat split; intros [x|]; reflexivity. Qed.
Lemma minmaxc_spec a b : minc (Some a) (Some b) = Some (Z.min a b) /\ maxc (Some a) (Some b) = Some (Z.max a b) /\
  (forall x, minc None x = None /\ minc x None = None /\ maxc None x = None /\ maxc x None = None).
Proof. repeat split; try reflexivity; destruct x; reflexivity. Qed.

(* min_ / max_ on two series: df_sync then np.minimum / np.maximum = the same pointwise law *)
Theorem minmax_series opc h m ch a b P : join_index h [index_of a; index_of b] = Some P ->
  minmax opc h m ch [OS a; OS b] = Some (OS (map (fun t => (t, opc (val_at m a t) (val_at m b t))) P)).
Proof.
  intros HP. unfold minmax, df_sync. cbn [map]. cbn [flatten flat_map app].
  unfold df_index. simpl pd_indexes. rewrite HP. simpl frame_cols.
  replace (join_index ch []) with (@None (list Z)) by reflexivity.
  cbn [tmap map flatten flat_map app reindex_obj fold_left mm2]. rewrite !reindex_m_val_at. rewrite op2_ss. reflexivity.
Qed.

(* ------------------------------------------------------------------ any mix of Series / scalar / pseudo-series / frame *)
Section MIX.
  Variable opc : cell -> cell -> cell.

  Lemma opnd_spec m d P o x : simple o = true ->
    column_obj (Some x) d (reindex_obj (TgIdx P) m o) =
      if is_ser o x then OS (map (fun t => (t, ocell m d o x t)) P) else ON (ocell m d o x 0).
  Proof.
    destruct o as [s|c r|a|k rows|c|i]; try discriminate.
    - intros _. simpl. rewrite reindex_m_val_at. reflexivity.
    - destruct c as [|c0 [|c1 cs]]; intros H; [discriminate H| |].
      + cbn [reindex_obj column_obj is_ser ocell]. rewrite reindex_m_row_val, column_map_fn. reflexivity.
      + cbn [reindex_obj]. unfold column_obj, is_ser, ocell, fcell. rewrite reindex_m_row_val.
        destruct (mem x (c0 :: c1 :: cs)); [rewrite column_map_fn|]; reflexivity.
    - intros _. reflexivity.
  Qed.

  Lemma ocell_scalar_const m d o x t : simple o = true -> is_ser o x = false -> ocell m d o x t = ocell m d o x 0.
  Proof.
    destruct o as [s|c r|a|k rows|c|i]; try discriminate; intros _ H.
    - destruct c as [|c0 [|c1 cs]]; [reflexivity | cbn in H; discriminate H |].
      change (mem x (c0 :: c1 :: cs) = false) in H. unfold ocell, fcell. rewrite H. reflexivity.
    - reflexivity.
  Qed.

  Lemma call_series_mix m d P a b x : simple a = true -> simple b = true -> is_ser a x || is_ser b x = true ->
    call_series opc (Some x, [Leaf (column_obj (Some x) d (reindex_obj (TgIdx P) m a));
                              Leaf (column_obj (Some x) d (reindex_obj (TgIdx P) m b))])
    = map (fun t => (t, opc (ocell m d a x t) (ocell m d b x t))) P.
  Proof.
    intros Sa Sb Hs. unfold call_series. cbn [snd]. rewrite (opnd_spec m d P a x Sa), (opnd_spec m d P b x Sb).
    destruct (is_ser a x) eqn:Ea; destruct (is_ser b x) eqn:Eb; try discriminate.
    - rewrite op2_ss. reflexivity.
    - rewrite op2_sn. apply map_ext. intros t. rewrite (ocell_scalar_const m d b x t Sb Eb). reflexivity.
    - rewrite op2_ns. apply map_ext. intros t. rewrite (ocell_scalar_const m d a x t Sa Ea). reflexivity.
  Qed.

  Definition mix_result m d a b (C P : list Z) : obj :=
    match C with
    | [] => OS []
    | _ => OF C (map (fun t => (t, map (fun x => opc (ocell m d a x t) (ocell m d b x t)) C)) P)
    end.

  (* whenever at least one operand is a proper frame (so that presync loops over columns) *)
  Theorem binop_mix h m ch d a b P C : simple a = true -> simple b = true ->
    join_index h (pd_indexes [a; b]) = Some P -> join_index ch (frame_cols [a; b]) = Some C ->
    (forall x, In x C -> is_ser a x || is_ser b x = true) ->
    binop opc h m ch d a b = mix_result m d a b C P.
  Proof.
    intros Sa Sb HP HC Hser.
    unfold binop, presync_calls. cbn [flat_map flatten app]. rewrite (df_index_pd _ _ _ HP). rewrite HC.
    cbn [map tmap]. unfold mix_result. destruct C as [|x0 C']; [reflexivity|].
    set (C := x0 :: C') in *.
    set (mk := fun x : Z => (Some x, [Leaf (column_obj (Some x) d (reindex_obj (TgIdx P) m a));
                                     Leaf (column_obj (Some x) d (reindex_obj (TgIdx P) m b))])).
    change (assemble opc (map mk C) (has1 a || has1 b) =
            OF C (map (fun t => (t, map (fun x => opc (ocell m d a x t) (ocell m d b x t)) C)) P)).
    assert (Hs : map (call_series opc) (map mk C) = map (fun x => map (fun t => (t, opc (ocell m d a x t) (ocell m d b x t))) P) C).
    { rewrite map_map. apply map_ext_in. intros x Hx. unfold mk. apply call_series_mix; auto. }
    assert (Hc : map (fun c : option Z * list tree => match fst c with Some x => x | None => 0 end) (map mk C) = C).
    { rewrite map_map. unfold mk. cbn [fst]. clear. generalize C. intros l. induction l as [|y l IH]; simpl; [reflexivity | rewrite IH; reflexivity]. }
    assert (Hasm : assemble opc (map mk C) (has1 a || has1 b) =
                   let sers := map (call_series opc) (map mk C) in
                   let idx := match sers with s :: _ => index_of s | [] => [] end in
                   OF (map (fun c : option Z * list tree => match fst c with Some x => x | None => 0 end) (map mk C))
                      (map (fun t => (t, map (fun s => at_ None s t) sers)) idx)).
    { unfold C, mk. reflexivity. }
    rewrite Hasm. cbv zeta. rewrite Hs, Hc.
    assert (Hidx : match map (fun x => map (fun t => (t, opc (ocell m d a x t) (ocell m d b x t))) P) C with
                   | [] => [] | s :: _ => index_of s end = P).
    { unfold C. cbn [map]. apply (index_map_fn (fun t => opc (ocell m d a x0 t) (ocell m d b x0 t))). }
    f_equal. etransitivity; [apply f_equal; exact Hidx|].
    apply map_ext_in. intros t Ht. f_equal.
    rewrite map_map. apply map_ext. intros x.
    apply (at_map_fn (fun t => opc (ocell m d a x t) (ocell m d b x t)) P t Ht).
  Qed.

  Theorem mix_result_cell m d a b C P t x : In t P -> In x C ->
    frame_cell (mix_result m d a b C P) t x = opc (ocell m d a x t) (ocell m d b x t).
  Proof.
    intros Ht Hx. unfold mix_result. destruct C as [|x0 C']; [destruct Hx|].
    set (C := x0 :: C') in *. unfold frame_cell, at_.
    rewrite (lookup_map_fn (nanrow C) row_isnan (fun t => map (fun x => opc (ocell m d a x t) (ocell m d b x t)) C) P t Ht).
    apply (row_get_map C (fun x => opc (ocell m d a x t) (ocell m d b x t)) x Hx).
  Qed.
End MIX.

(* frame x Series, frame x scalar, frame x pseudo-series: the columns are the frame's, every operand other than the
   frame is used for every column *)
Lemma frame_cols_one ca ra b : multi ca = true -> (forall c r, b = OF c r -> multi c = false) ->
  frame_cols [OF ca ra; b] = [ca] /\ frame_cols [b; OF ca ra] = [ca].
Proof.
  intros Ha Hb. unfold frame_cols. cbn [flat_map]. rewrite Ha. destruct b; try (split; reflexivity).
  rewrite (Hb cols rows eq_refl). split; reflexivity.
Qed.

(* ------------------------------------------------------------------ df_sum / df_mean / df_count on DataFrames *)
Definition all_frames (xs : list obj) : Prop := Forall (fun o => exists c r, o = OF c r /\ multi c = true) xs.

Lemma row_get_fcell m c r x t : row_get c (row_val m c r t) x = fcell m None c r x t.
Proof.
  unfold fcell. destruct (mem x c) eqn:E; [reflexivity|].
  apply row_get_notin. intros Q. apply mem_In in Q. congruence.
Qed.

Definition synced_frame m (C P : list Z) (o : obj) : obj := OF C (map (fun t => (t, map (fun x => ocell m None o x t) C)) P).

Lemma sync_leaf_frame xs h m ch P C c r : join_index h (pd_indexes xs) = Some P -> join_index ch (frame_cols xs) = Some C ->
  multi c = true ->
  sync_leaf (TL (map Leaf xs)) h m (Some ch) (OF c r) = synced_frame m C P (OF c r).
Proof.
  intros HP HC Hm. unfold sync_leaf. rewrite flatten_leaves, (df_index_pd _ _ _ HP), HC.
  cbn [reindex_obj recolumn_obj]. rewrite Hm. rewrite reindex_m_row_val, map_map. unfold synced_frame. f_equal.
  apply map_ext. intros t. cbn [fst snd]. f_equal. apply map_ext. intros x.
  destruct (multi_two c Hm) as [c0 [c1 [cs ->]]]. apply row_get_fcell.
Qed.

Lemma cell_of_synced m C P o t x : In t P -> In x C -> cell_of (synced_frame m C P o) t x = ocell m None o x t.
Proof.
  intros Ht Hx. unfold synced_frame, cell_of, at_.
  rewrite (lookup_map_fn (nanrow C) row_isnan (fun t => map (fun x => ocell m None o x t) C) P t Ht).
  apply (row_get_map C (fun x => ocell m None o x t) x Hx).
Qed.

Theorem df_agg_frames g h m ch c0 r0 rest P C : all_frames (OF c0 r0 :: rest) ->
  join_index h (pd_indexes (OF c0 r0 :: rest)) = Some P -> join_index ch (frame_cols (OF c0 r0 :: rest)) = Some C ->
  df_agg g h m ch (OF c0 r0 :: rest) =
    OF C (map (fun t => (t, map (fun x => agg_cell g (map (fun o => ocell m None o x t) (OF c0 r0 :: rest))) C)) P).
Proof.
  intros Hall HP HC. unfold df_agg.
  assert (Hn : forall o, TL (map Leaf (OF c0 r0 :: rest)) <> Leaf o) by (intros o; discriminate).
  rewrite (proj1 (df_sync_leafwise _ h m (Some ch) Hn)). rewrite flatten_leaves.
  set (xs := OF c0 r0 :: rest) in *.
  assert (Hleaf : forall o, In o xs -> sync_leaf (TL (map Leaf xs)) h m (Some ch) o = synced_frame m C P o).
  { intros o Ho. unfold all_frames in Hall. rewrite Forall_forall in Hall. destruct (Hall o Ho) as [c [r [-> Hm]]].
    apply sync_leaf_frame; assumption. }
  rewrite (map_ext_in _ _ xs Hleaf).
  assert (Hff : first_frame (map (synced_frame m C P) xs) = Some (C, P)).
  { unfold xs, first_frame, synced_frame. cbn [map flat_map app]. f_equal. f_equal.
    apply (index_map_fn (fun t => map (fun x => ocell m None (OF c0 r0) x t) C)). }
  rewrite Hff. f_equal. apply map_ext_in. intros t Ht. f_equal. apply map_ext_in. intros x Hx. f_equal.
  rewrite map_map. apply map_ext. intros o. apply cell_of_synced; assumption.
Qed.

(* ------------------------------------------------------------------ no proper frame: Series / scalar / single-column frame *)
Section PSEUDO.
  Variable opc : cell -> cell -> cell.

  Lemma pseudo_simple o : pseudo o = true -> simple o = true.
  Proof. destruct o as [s|c r|a|k rows|c|i]; try discriminate; try reflexivity. destruct c as [|c0 [|c1 cs]]; try discriminate. reflexivity. Qed.

  Lemma opnd_none_spec m d P o : pseudo o = true ->
    column_obj None d (reindex_obj (TgIdx P) m o) =
      if is_ser o 0 then OS (map (fun t => (t, ocell m d o 0 t)) P) else ON (ocell m d o 0 0).
  Proof.
    destruct o as [s|c r|a|k rows|c|i]; try discriminate.
    - intros _. simpl. rewrite reindex_m_val_at. reflexivity.
    - destruct c as [|c0 [|c1 cs]]; try discriminate. intros _.
      cbn [reindex_obj column_obj is_ser ocell]. rewrite reindex_m_row_val, column_map_fn. reflexivity.
    - intros _. reflexivity.
  Qed.

  Lemma frame_cols_pseudo a b : pseudo a = true -> pseudo b = true -> frame_cols [a; b] = [].
  Proof.
    intros Ha Hb. unfold frame_cols. cbn [flat_map].
    assert (Q : forall o, pseudo o = true -> match o with OF c _ => if multi c then [c] else [] | _ => [] end = []).
    { intros o Ho. destruct o as [s|c r|x|k rows|c|i]; try reflexivity. destruct c as [|c0 [|c1 cs]]; try discriminate; reflexivity. }
    rewrite (Q a Ha), (Q b Hb). reflexivity.
  Qed.

  Definition pseudo_result m d a b (P : list Z) : obj :=
    let s := map (fun t => (t, opc (ocell m d a 0 t) (ocell m d b 0 t))) P in
    if has1 a || has1 b then OF [0] (map (fun p => (fst p, [snd p])) s) else OS s.

  (* one call; a Series result is wrapped into a one-column frame when an operand was a single-column frame
     (the name of that column is not claimed: 0 in the model) *)
  Theorem binop_pseudo h m ch d a b P : pseudo a = true -> pseudo b = true ->
    join_index h (pd_indexes [a; b]) = Some P -> is_ser a 0 || is_ser b 0 = true ->
    binop opc h m ch d a b = pseudo_result m d a b P.
  Proof.
    intros Pa Pb HP Hs. pose proof (pseudo_simple a Pa) as Sa. pose proof (pseudo_simple b Pb) as Sb.
    unfold binop, presync_calls. cbn [flat_map flatten app]. rewrite (df_index_pd _ _ _ HP).
    rewrite (frame_cols_pseudo a b Pa Pb). replace (join_index ch []) with (@None (list Z)) by reflexivity.
    cbn [map tmap assemble]. rewrite (opnd_none_spec m d P a Pa), (opnd_none_spec m d P b Pb).
    unfold pseudo_result.
    destruct (is_ser a 0) eqn:Ea; destruct (is_ser b 0) eqn:Eb; try discriminate.
    - rewrite op2_ss. reflexivity.
    - rewrite op2_sn.
      replace (map (fun t => (t, opc (ocell m d a 0 t) (ocell m d b 0 0))) P)
        with (map (fun t => (t, opc (ocell m d a 0 t) (ocell m d b 0 t))) P); [reflexivity|].
      apply map_ext. intros t. rewrite (ocell_scalar_const m d b 0 t Sb Eb). reflexivity.
    - rewrite op2_ns.
      replace (map (fun t => (t, opc (ocell m d a 0 0) (ocell m d b 0 t))) P)
        with (map (fun t => (t, opc (ocell m d a 0 t) (ocell m d b 0 t))) P); [reflexivity|].
      apply map_ext. intros t. rewrite (ocell_scalar_const m d a 0 t Sa Ea). reflexivity.
  Qed.
End PSEUDO.

(* ------------------------------------------------------------------ min_ / max_ on DataFrames *)
Section MINMAXF.
  Variable opc : cell -> cell -> cell.

  Lemma combine_map_map {A} (f g : A -> cell) (l : list A) :
    map (fun xy => opc (fst xy) (snd xy)) (combine (map f l) (map g l)) = map (fun x => opc (f x) (g x)) l.
  Proof. induction l as [|x l IH]; simpl; [reflexivity | rewrite IH; reflexivity]. Qed.

  (* np.minimum / np.maximum of an accumulated frame with the next synced frame: cell by cell *)
  Lemma mm2_synced m C P (F : Z -> Z -> cell) o :
    mm2 opc (OF C (map (fun t => (t, map (F t) C)) P)) (synced_frame m C P o) =
    OF C (map (fun t => (t, map (fun x => opc (F t x) (ocell m None o x t)) C)) P).
  Proof.
    unfold synced_frame. cbn [mm2]. unfold rows2. f_equal. rewrite map_map. apply map_ext_in. intros t Ht.
    cbn [fst snd]. f_equal. unfold at_.
    rewrite (lookup_map_fn (nanrow C) row_isnan (fun t => map (fun x => ocell m None o x t) C) P t Ht).
    apply combine_map_map.
  Qed.

  Lemma fold_mm2_synced m C P rest : forall (F : Z -> Z -> cell),
    fold_left (mm2 opc) (map (synced_frame m C P) rest) (OF C (map (fun t => (t, map (F t) C)) P)) =
    OF C (map (fun t => (t, map (fun x => fold_left opc (map (fun o => ocell m None o x t) rest) (F t x)) C)) P).
  Proof.
    induction rest as [|o rest IH]; intros F; [reflexivity|].
    cbn [map fold_left]. rewrite mm2_synced. rewrite (IH (fun t x => opc (F t x) (ocell m None o x t))). reflexivity.
  Qed.

  (* min_ / max_ of DataFrames: joint index, column set by policy, each cell the left-to-right min/max of the aligned
     cells (a frame lacking column x or timestamp t contributes NaN) *)
  Theorem minmax_frames h m ch c0 r0 rest P C : all_frames (OF c0 r0 :: rest) ->
    join_index h (pd_indexes (OF c0 r0 :: rest)) = Some P -> join_index ch (frame_cols (OF c0 r0 :: rest)) = Some C ->
    minmax opc h m ch (OF c0 r0 :: rest) =
      Some (OF C (map (fun t => (t, map (fun x => fold_left opc (map (fun o => ocell m None o x t) rest)
                                                             (ocell m None (OF c0 r0) x t)) C)) P)).
  Proof.
    intros Hall HP HC. unfold minmax.
    assert (Hn : forall o, TL (map Leaf (OF c0 r0 :: rest)) <> Leaf o) by (intros o; discriminate).
    rewrite (proj1 (df_sync_leafwise _ h m (Some ch) Hn)). rewrite flatten_leaves.
    set (xs := OF c0 r0 :: rest) in *.
    assert (Hleaf : forall o, In o xs -> sync_leaf (TL (map Leaf xs)) h m (Some ch) o = synced_frame m C P o).
    { intros o Ho. unfold all_frames in Hall. rewrite Forall_forall in Hall. destruct (Hall o Ho) as [c [r [-> Hm]]].
      apply sync_leaf_frame; assumption. }
    rewrite (map_ext_in _ _ xs Hleaf). unfold xs. cbn [map]. f_equal.
    unfold synced_frame at 2.
    apply (fold_mm2_synced m C P rest (fun t x => ocell m None (OF c0 r0) x t)).
  Qed.
End MINMAXF.

(* min_ / max_ of a one-column frame and a Series (either order): the frame is squeezed to its column, the result is a Series *)
Theorem minmax_one_column opc h m ch c0 r s P : join_index h [index_of r; index_of s] = Some P ->
  minmax opc h m ch [OF [c0] r; OS s] =
    Some (OS (map (fun t => (t, opc (row_get [c0] (row_val m [c0] r t) c0) (val_at m s t))) P)).
Proof.
  intros HP. unfold minmax, df_sync. cbn [map]. cbn [flatten flat_map app].
  unfold df_index. simpl pd_indexes. rewrite HP. simpl frame_cols.
  replace (join_index ch []) with (@None (list Z)) by reflexivity.
  cbn [tmap map flatten flat_map app reindex_obj fold_left mm2 squeeze1].
  rewrite reindex_m_val_at, reindex_m_row_val, column_map_fn, op2_ss. reflexivity.
Qed.
Theorem minmax_one_column_swapped opc h m ch c0 r s P : join_index h [index_of s; index_of r] = Some P ->
  minmax opc h m ch [OS s; OF [c0] r] =
    Some (OS (map (fun t => (t, opc (val_at m s t) (row_get [c0] (row_val m [c0] r t) c0))) P)).
Proof.
  intros HP. unfold minmax, df_sync. cbn [map]. cbn [flatten flat_map app].
  unfold df_index. simpl pd_indexes. rewrite HP. simpl frame_cols.
  replace (join_index ch []) with (@None (list Z)) by reflexivity.
  cbn [tmap map flatten flat_map app reindex_obj fold_left mm2 squeeze1].
  rewrite reindex_m_val_at, reindex_m_row_val, column_map_fn, op2_ss. reflexivity.
Qed.
