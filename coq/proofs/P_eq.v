(* C14 - proofs about M_eq.eq_model: equivalence laws, NaN at any depth, type strictness,
   array / pandas geometry.  (Agreement with Python == on plain values: P_eq_py.v) *)
From Coq Require Import ZArith NArith List Bool String Lia.
From PB Require Import model.M_eq.
Import ListNotations.
Open Scope Z_scope.

(* ------------------------------------------------------------ induction principle for the nested type *)
Section val_ind_nested.
  Variable P : val -> Prop.
  Hypothesis HNone : P VNone.
  Hypothesis HBool : forall b, P (VBool b).
  Hypothesis HNum : forall f t, P (VNum f t).
  Hypothesis HInf : forall b, P (VInf b).
  Hypothesis HNaN : forall i, P (VNaN i).
  Hypothesis HStr : forall s, P (VStr s).
  Hypothesis HDate : forall u, P (VDate u).
  Hypothesis HFlt : forall m e, P (VFlt m e).
  Hypothesis HTuple : forall l, Forall P l -> P (VTuple l).
  Hypothesis HList : forall l, Forall P l -> P (VList l).
  Hypothesis HSeq : forall c l, Forall P l -> P (VSeq c l).
  Hypothesis HDict : forall c items, Forall (fun kv => P (snd kv)) items -> P (VDict c items).
  Hypothesis HArr : forall sh c, Forall P c -> P (VArr sh c).
  Hypothesis HSeries : forall ix c, Forall P ix -> Forall P c -> P (VSeries ix c).
  Hypothesis HFrame : forall ix col c, Forall P ix -> Forall P col -> Forall P c -> P (VFrame ix col c).

  Fixpoint val_ind' (v : val) : P v :=
    let all := fix go (l : list val) : Forall P l :=
      match l with [] => Forall_nil _ | a :: t => Forall_cons a (val_ind' a) (go t) end in
    match v with
    | VNone => HNone | VBool b => HBool b | VNum f t => HNum f t | VInf b => HInf b
    | VNaN i => HNaN i | VStr s => HStr s | VDate u => HDate u | VFlt m e => HFlt m e
    | VTuple l => HTuple l (all l)
    | VList l => HList l (all l)
    | VSeq c l => HSeq c l (all l)
    | VDict c items =>
        HDict c items
          ((fix go (l : list (string * val)) : Forall (fun kv => P (snd kv)) l :=
              match l with
              | [] => Forall_nil _
              | kv :: t => Forall_cons kv (match kv as p return P (snd p) with (_, v) => val_ind' v end) (go t)
              end) items)
    | VArr sh c => HArr sh c (all c)
    | VSeries ix c => HSeries ix c (all ix) (all c)
    | VFrame ix col c => HFrame ix col c (all ix) (all col) (all c)
    end.
End val_ind_nested.

(* ------------------------------------------------------------ forall2b *)
Lemma forall2b_refl {A} (f : A -> A -> bool) l :
  Forall (fun a => f a a = true) l -> forall2b f l l = true.
Proof. induction 1; simpl; [reflexivity | rewrite H, IHForall; reflexivity]. Qed.

Lemma forall2b_sym {A B} (f : A -> B -> bool) (g : B -> A -> bool) l :
  Forall (fun a => forall b, f a b = g b a) l -> forall l', forall2b f l l' = forall2b g l' l.
Proof.
  induction 1; intros [|b t']; simpl; try reflexivity.
  rewrite H, IHForall. reflexivity.
Qed.

Lemma forall2b_trans {A B C} (f : A -> B -> bool) (g : B -> C -> bool) (h : A -> C -> bool) l :
  Forall (fun a => forall b c, f a b = true -> g b c = true -> h a c = true) l ->
  forall l' l'', forall2b f l l' = true -> forall2b g l' l'' = true -> forall2b h l l'' = true.
Proof.
  induction 1; intros [|b t'] [|c t'']; simpl; intros H1 H2; try discriminate; try reflexivity.
  apply andb_true_iff in H1 as [H1 H1']. apply andb_true_iff in H2 as [H2 H2'].
  rewrite (H b c H1 H2), (IHForall _ _ H1' H2'). reflexivity.
Qed.

Lemma forall2b_Forall2 {A B} (f : A -> B -> bool) l l' :
  forall2b f l l' = true <-> Forall2 (fun a b => f a b = true) l l'.
Proof.
  revert l'. induction l as [|a t IH]; intros [|b t']; simpl.
  - split; intros; [constructor | reflexivity].
  - split; intros H; [discriminate | inversion H].
  - split; intros H; [discriminate | inversion H].
  - rewrite andb_true_iff, IH. split.
    + intros [H1 H2]. constructor; assumption.
    + intros H. inversion H; subst. split; assumption.
Qed.

Lemma forall2b_length {A B} (f : A -> B -> bool) l l' : forall2b f l l' = true -> List.length l = List.length l'.
Proof. intros H. apply forall2b_Forall2 in H. induction H; simpl; congruence. Qed.

Lemma forall2b_map {A B A' B'} (f : A' -> B' -> bool) (p : A -> A') (q : B -> B') l l' :
  forall2b f (map p l) (map q l') = forall2b (fun a b => f (p a) (q b)) l l'.
Proof. revert l'. induction l; intros [|b t']; simpl; try reflexivity. rewrite IHl. reflexivity. Qed.

Lemma forall2b_map_r {A} (f : A -> A -> bool) (g : A -> A) l :
  Forall (fun a => f a (g a) = true) l -> forall2b f l (map g l) = true.
Proof. induction 1; simpl; [reflexivity | rewrite H, IHForall; reflexivity]. Qed.

Lemma forall2b_ext {A B} (f g : A -> B -> bool) l :
  Forall (fun a => forall b, f a b = g a b) l -> forall l', forall2b f l l' = forall2b g l l'.
Proof. induction 1; intros [|b t']; simpl; try reflexivity. rewrite H, IHForall. reflexivity. Qed.

Lemma is_nil_length {A B} (l : list A) (l' : list B) : List.length l = List.length l' -> is_nil l = is_nil l'.
Proof. destruct l, l'; simpl; intros; try reflexivity; discriminate. Qed.

(* ------------------------------------------------------------ shapes *)
Lemma shape_eqb_eq a b : shape_eqb a b = true <-> a = b.
Proof.
  unfold shape_eqb. revert b. induction a as [|x a IH]; intros [|y b]; simpl; split; intros H; try discriminate; try reflexivity.
  - apply andb_true_iff in H as [H1 H2]. apply Z.eqb_eq in H1. apply IH in H2. congruence.
  - injection H as -> ->. rewrite Z.eqb_refl. apply IH. reflexivity.
Qed.
Lemma shape_eqb_refl a : shape_eqb a a = true.
Proof. apply shape_eqb_eq. reflexivity. Qed.
Lemma shape_eqb_sym a b : shape_eqb a b = shape_eqb b a.
Proof.
  destruct (shape_eqb a b) eqn:E.
  - apply shape_eqb_eq in E. subst. symmetry. apply shape_eqb_refl.
  - destruct (shape_eqb b a) eqn:E'; [|reflexivity]. apply shape_eqb_eq in E'. subst. rewrite shape_eqb_refl in E. discriminate.
Qed.

(* ------------------------------------------------------------ scalars *)
Lemma scalar_eqb_sym x y : scalar_eqb x y = scalar_eqb y x.
Proof.
  destruct x, y; simpl; try reflexivity;
    try apply Z.eqb_sym; try apply String.eqb_sym; try (unfold scalar_eqb; simpl; f_equal; apply Z.eqb_sym);
    repeat match goal with b : bool |- _ => destruct b end; reflexivity.
Qed.

Lemma scalar_eqb_trans x y z : scalar_eqb x y = true -> scalar_eqb y z = true -> scalar_eqb x z = true.
Proof.
  destruct x, y; simpl; try discriminate; destruct z; simpl; try discriminate; intros H1 H2;
    try (apply Z.eqb_eq in H1; apply Z.eqb_eq in H2; apply Z.eqb_eq; congruence);
    try (apply String.eqb_eq in H1; apply String.eqb_eq in H2; apply String.eqb_eq; congruence);
    try (unfold scalar_eqb in *; simpl in *; apply andb_true_iff in H1 as [A1 B1]; apply andb_true_iff in H2 as [A2 B2]; apply Z.eqb_eq in A1, B1, A2, B2; subst; rewrite !Z.eqb_refl; reflexivity);
    repeat match goal with b : bool |- _ => destruct b end; simpl in *; try discriminate; reflexivity.
Qed.

(* ------------------------------------------------------------ the three laws on eq_core *)
Lemma eq_core_refl v : eq_core v v = true.
Proof.
  induction v using val_ind'; simpl; try reflexivity.
  - destruct b; reflexivity.
  - apply Z.eqb_refl.
  - destruct b; reflexivity.
  - apply String.eqb_refl.
  - apply Z.eqb_refl.
  - unfold scalar_eqb. simpl. rewrite !Z.eqb_refl. reflexivity.
  - apply forall2b_refl; assumption.
  - apply forall2b_refl; assumption.
  - rewrite N.eqb_refl. simpl. apply forall2b_refl; assumption.
  - rewrite N.eqb_refl. simpl. apply forall2b_refl.
    eapply Forall_impl; [|exact H]. simpl. intros kv Hkv. rewrite String.eqb_refl, Hkv. reflexivity.
  - rewrite shape_eqb_refl, (forall2b_refl _ _ H). simpl. apply orb_true_r.
  - rewrite (forall2b_refl _ _ H), (forall2b_refl _ _ H0). simpl. apply orb_true_r.
  - rewrite (forall2b_refl _ _ H), (forall2b_refl _ _ H0), (forall2b_refl _ _ H1). simpl. apply orb_true_r.
Qed.

Lemma eq_core_sym x : forall y, eq_core x y = eq_core y x.
Proof.
  induction x using val_ind'; intros y.
  1-4,6-8: destruct y; simpl; try reflexivity; apply (scalar_eqb_sym _ _) || (symmetry; apply (scalar_eqb_sym _ _)) || idtac.
  all: try (destruct y; simpl; reflexivity).
  - (* tuple *) destruct y; simpl; try reflexivity. apply forall2b_sym. exact H.
  - destruct y; simpl; try reflexivity. apply forall2b_sym. exact H.
  - (* subclass *) destruct y; simpl; try reflexivity. rewrite N.eqb_sym. f_equal. apply forall2b_sym. exact H.
  - (* dict *) destruct y; simpl; try reflexivity. rewrite N.eqb_sym. f_equal.
    apply forall2b_sym. eapply Forall_impl; [|exact H]. simpl. intros kv Hkv b.
    rewrite String.eqb_sym, Hkv. reflexivity.
  - (* array *) destruct y; simpl; try reflexivity.
    rewrite shape_eqb_sym. destruct (shape_eqb shape sh) eqn:E; [|reflexivity].
    apply shape_eqb_eq in E. subst. rewrite (forall2b_sym _ eq_core _ H). reflexivity.
  - (* series *) destruct y; simpl; try reflexivity.
    rewrite (forall2b_sym _ eq_core _ H). destruct (forall2b eq_core index ix) eqn:E; [|reflexivity].
    rewrite (is_nil_length _ _ (forall2b_length _ _ _ E)), (forall2b_sym _ eq_core _ H0). reflexivity.
  - (* frame *) destruct y; simpl; try reflexivity.
    rewrite (forall2b_sym _ eq_core _ H), (forall2b_sym _ eq_core _ H0).
    destruct (forall2b eq_core index ix) eqn:E; [|reflexivity].
    destruct (forall2b eq_core columns col) eqn:E'; [|reflexivity].
    rewrite (is_nil_length _ _ (forall2b_length _ _ _ E)), (is_nil_length _ _ (forall2b_length _ _ _ E')),
      (forall2b_sym _ eq_core _ H1). reflexivity.
Qed.

Lemma eq_core_trans x : forall y z, eq_core x y = true -> eq_core y z = true -> eq_core x z = true.
Proof.
  induction x using val_ind'; intros y z E1 E2.
  1-4,6-8: destruct y; simpl in E1; try discriminate; destruct z; simpl in E2 |- *; try discriminate;
    eapply scalar_eqb_trans; eassumption.
  - (* NaN *) destruct y; simpl in E1; try discriminate. destruct z; simpl in E2 |- *; try discriminate. reflexivity.
  - destruct y; simpl in E1; try discriminate. destruct z; simpl in E2 |- *; try discriminate.
    eapply forall2b_trans; eassumption.
  - destruct y; simpl in E1; try discriminate. destruct z; simpl in E2 |- *; try discriminate.
    eapply forall2b_trans; eassumption.
  - (* subclass *) destruct y; simpl in E1; try discriminate. destruct z; simpl in E2 |- *; try discriminate.
    apply andb_true_iff in E1 as [C1 E1]. apply andb_true_iff in E2 as [C2 E2].
    apply N.eqb_eq in C1, C2. subst. rewrite N.eqb_refl. simpl. eapply forall2b_trans; eassumption.
  - (* dict *) destruct y; simpl in E1; try discriminate. destruct z; simpl in E2 |- *; try discriminate.
    apply andb_true_iff in E1 as [C1 E1]. apply andb_true_iff in E2 as [C2 E2].
    apply N.eqb_eq in C1, C2. subst. rewrite N.eqb_refl. simpl.
    eapply forall2b_trans; [|exact E1|exact E2].
    eapply Forall_impl; [|exact H]. simpl. intros kv Hkv b c' Hb Hc.
    apply andb_true_iff in Hb as [K1 V1]. apply andb_true_iff in Hc as [K2 V2].
    apply String.eqb_eq in K1, K2. rewrite K1, K2, String.eqb_refl. simpl. eapply Hkv; eassumption.
  - (* array *) destruct y; simpl in E1; try discriminate. destruct z; simpl in E2 |- *; try discriminate.
    apply andb_true_iff in E1 as [S1 E1]. apply andb_true_iff in E2 as [S2 E2].
    apply shape_eqb_eq in S1, S2. subst. rewrite shape_eqb_refl. simpl.
    match goal with |- (has_zero ?s || _) = true => destruct (has_zero s) end; simpl in *; [reflexivity|]. eapply forall2b_trans; eassumption.
  - (* series *) destruct y; simpl in E1; try discriminate. destruct z; simpl in E2 |- *; try discriminate.
    apply andb_true_iff in E1 as [I1 E1]. apply andb_true_iff in E2 as [I2 E2].
    rewrite (forall2b_trans _ _ eq_core _ H _ _ I1 I2). simpl.
    rewrite <- (is_nil_length _ _ (forall2b_length _ _ _ I1)) in E2.
    match goal with |- (is_nil ?s || _) = true => destruct (is_nil s) end; simpl in *; [reflexivity|]. eapply forall2b_trans; eassumption.
  - (* frame *) destruct y; simpl in E1; try discriminate. destruct z; simpl in E2 |- *; try discriminate.
    apply andb_true_iff in E1 as [I1 E1]. apply andb_true_iff in I1 as [I1 J1].
    apply andb_true_iff in E2 as [I2 E2]. apply andb_true_iff in I2 as [I2 J2].
    rewrite (forall2b_trans _ _ eq_core _ H _ _ I1 I2), (forall2b_trans _ _ eq_core _ H0 _ _ J1 J2). simpl.
    rewrite <- (is_nil_length _ _ (forall2b_length _ _ _ I1)), <- (is_nil_length _ _ (forall2b_length _ _ _ J1)) in E2.
    destruct (is_nil ix); simpl in *; [reflexivity|].
    destruct (is_nil col); simpl in *; [reflexivity|]. eapply forall2b_trans; eassumption.
Qed.

Theorem eq_model_refl v : eq_model v v = true.
Proof. apply eq_core_refl. Qed.
Theorem eq_model_sym x y : eq_model x y = eq_model y x.
Proof. apply eq_core_sym. Qed.
Theorem eq_model_trans x y z : eq_model x y = true -> eq_model y z = true -> eq_model x z = true.
Proof. apply eq_core_trans. Qed.

(* ------------------------------------------------------------ NaN at any depth *)
Lemma eq_core_refresh f v : eq_core v (refresh f v) = true.
Proof.
  induction v using val_ind'; simpl; try reflexivity.
  - destruct b; reflexivity.
  - apply Z.eqb_refl.
  - destruct b; reflexivity.
  - apply String.eqb_refl.
  - apply Z.eqb_refl.
  - unfold scalar_eqb. simpl. rewrite !Z.eqb_refl. reflexivity.
  - apply forall2b_map_r; assumption.
  - apply forall2b_map_r; assumption.
  - rewrite N.eqb_refl. simpl. apply forall2b_map_r; assumption.
  - rewrite N.eqb_refl. simpl. apply (forall2b_map_r _ (fun kv => (fst kv, refresh f (snd kv)))).
    eapply Forall_impl; [|exact H]. simpl. intros kv Hkv. rewrite String.eqb_refl, Hkv. reflexivity.
  - rewrite shape_eqb_refl, (forall2b_map_r _ _ _ H). simpl. apply orb_true_r.
  - rewrite (forall2b_map_r _ _ _ H), (forall2b_map_r _ _ _ H0). simpl. apply orb_true_r.
  - rewrite (forall2b_map_r _ _ _ H), (forall2b_map_r _ _ _ H0), (forall2b_map_r _ _ _ H1). simpl. apply orb_true_r.
Qed.

Lemma insert_map_snd {A B} (g : A -> B) kv l :
  insert_item (fst kv, g (snd kv)) (map (fun p => (fst p, g (snd p))) l) =
  map (fun p => (fst p, g (snd p))) (insert_item kv l).
Proof.
  induction l as [|h t IH]; simpl; [reflexivity|].
  destruct (String.leb (fst kv) (fst h)); simpl; [reflexivity | rewrite IH; reflexivity].
Qed.
Lemma sort_map_snd {A B} (g : A -> B) l :
  sort_items (map (fun p => (fst p, g (snd p))) l) = map (fun p => (fst p, g (snd p))) (sort_items l).
Proof. induction l as [|kv t IH]; simpl; [reflexivity|]. rewrite IH. apply (insert_map_snd g kv). Qed.

Lemma map_ext_Forall' {A B} (f g : A -> B) l : Forall (fun a => f a = g a) l -> map f l = map g l.
Proof. induction 1; simpl; congruence. Qed.

Lemma norm_refresh f v : norm (refresh f v) = refresh f (norm v).
Proof.
  induction v using val_ind'; simpl; try reflexivity.
  1-3,5-7: rewrite ?map_map; f_equal; apply map_ext_Forall'; assumption.
  f_equal. rewrite map_map.
  rewrite <- (sort_map_snd (refresh f)). f_equal. rewrite map_map. simpl.
  apply map_ext_Forall'. eapply Forall_impl; [|exact H]. simpl. intros kv Hkv. rewrite Hkv. reflexivity.
Qed.

Theorem eq_model_refresh f v : eq_model v (refresh f v) = true.
Proof. unfold eq_model. rewrite norm_refresh. apply eq_core_refresh. Qed.

(* ------------------------------------------------------------ type strictness *)
Lemma kind_of_norm v : kind_of (norm v) = kind_of v.
Proof. destruct v; reflexivity. Qed.

Lemma eq_core_kind x y : eq_core x y = true -> kind_of x = kind_of y.
Proof.
  destruct x, y; simpl; intros H; try discriminate; try reflexivity;
    apply andb_true_iff in H as [H _]; apply N.eqb_eq in H; congruence.
Qed.

Theorem eq_model_kind x y : kind_of x <> kind_of y -> eq_model x y = false.
Proof.
  intros H. destruct (eq_model x y) eqn:E; [|reflexivity].
  apply eq_core_kind in E. rewrite !kind_of_norm in E. contradiction.
Qed.

(* ------------------------------------------------------------ arrays and pandas *)
Definition eqm (a b : val) : Prop := eq_model a b = true.

Lemma forall2b_norm l l' : forall2b eq_core (map norm l) (map norm l') = true <-> Forall2 eqm l l'.
Proof. rewrite forall2b_map. apply forall2b_Forall2. Qed.

Lemma has_zero_prod sh : has_zero sh = true -> fold_right Z.mul 1 sh = 0.
Proof.
  induction sh as [|d sh IH]; [discriminate|].
  unfold has_zero in *. cbn [existsb fold_right]. intros H. apply orb_true_iff in H as [H|H].
  - apply Z.eqb_eq in H. subst. reflexivity.
  - rewrite (IH H). lia.
Qed.

Lemma length_zero_nil {A} (l : list A) : Z.of_nat (List.length l) = 0 -> l = [].
Proof. destruct l; simpl; [reflexivity | lia]. Qed.

Theorem eq_model_array sh c sh' c' :
  eq_model (VArr sh c) (VArr sh' c') = true <-> sh = sh' /\ (has_zero sh = true \/ Forall2 eqm c c').
Proof.
  unfold eq_model. simpl. rewrite andb_true_iff, orb_true_iff, shape_eqb_eq, forall2b_norm. reflexivity.
Qed.

Theorem eq_model_array_wf sh c sh' c' : arr_wf sh c -> arr_wf sh' c' ->
  (eq_model (VArr sh c) (VArr sh' c') = true <-> sh = sh' /\ Forall2 eqm c c').
Proof.
  intros W W'. rewrite eq_model_array. split; intros [E H]; split; try assumption; [|right; assumption].
  destruct H as [H|H]; [|assumption]. subst sh'. unfold arr_wf in *. rewrite (has_zero_prod _ H) in W, W'.
  rewrite (length_zero_nil _ W), (length_zero_nil _ W'). constructor.
Qed.

Lemma Forall2_length' {A B} (R : A -> B -> Prop) l l' : Forall2 R l l' -> List.length l = List.length l'.
Proof. induction 1; simpl; congruence. Qed.

Theorem eq_model_series ix c ix' c' : series_wf ix c -> series_wf ix' c' ->
  (eq_model (VSeries ix c) (VSeries ix' c') = true <-> Forall2 eqm ix ix' /\ Forall2 eqm c c').
Proof.
  unfold series_wf. intros W W'. unfold eq_model. simpl. rewrite andb_true_iff, orb_true_iff, !forall2b_norm.
  split; intros [I H]; split; try assumption; [|right; assumption].
  destruct H as [H|H]; [|assumption].
  pose proof (Forall2_length' _ _ _ I) as L.
  destruct ix; simpl in H; [|discriminate]. destruct ix'; simpl in L; [|discriminate].
  destruct c; [|discriminate]. destruct c'; [|discriminate]. constructor.
Qed.

Theorem eq_model_frame ix col c ix' col' c' : frame_wf ix col c -> frame_wf ix' col' c' ->
  (eq_model (VFrame ix col c) (VFrame ix' col' c') = true <->
   Forall2 eqm ix ix' /\ Forall2 eqm col col' /\ Forall2 eqm c c').
Proof.
  unfold frame_wf. intros W W'. unfold eq_model. simpl. rewrite !andb_true_iff, !orb_true_iff, !forall2b_norm.
  split.
  - intros [[I J] H]. repeat split; try assumption.
    pose proof (Forall2_length' _ _ _ I) as LI. pose proof (Forall2_length' _ _ _ J) as LJ.
    destruct H as [[H|H]|H]; [| |assumption].
    + destruct ix; simpl in H; [|discriminate]. destruct ix'; simpl in LI; [|discriminate].
      simpl in W, W'. destruct c; [|discriminate]. destruct c'; [|discriminate]. constructor.
    + destruct col; simpl in H; [|discriminate]. destruct col'; simpl in LJ; [|discriminate].
      rewrite Nat.mul_0_r in W, W'. destruct c; [|discriminate]. destruct c'; [|discriminate]. constructor.
  - intros (I & J & H). repeat split; try assumption. right. assumption.
Qed.

(* ------------------------------------------------------------ membership *)
Theorem in_model_spec x seq : in_model x seq = true <-> exists s, In s seq /\ eq_model x s = true.
Proof. unfold in_model. apply existsb_exists. Qed.
