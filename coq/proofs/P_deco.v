(* C18 — proofs about the models in model/M_deco.v *)
From Coq Require Import List Bool Ascii String Arith Lia Permutation.
From PB Require Import model.M_keys model.M_deco proofs.P_keys.
Import ListNotations.

(* ================================================================== wrapper stacks *)
Lemma tag_eqb_eq a b : tag_eqb a b = true <-> a = b.
Proof. destruct a, b; simpl; split; congruence. Qed.
Lemma tag_eqb_refl a : tag_eqb a a = true.
Proof. apply tag_eqb_eq. reflexivity. Qed.
Definition rm (t : tag) (l : list tag) : list tag := filter (fun x => negb (tag_eqb x t)) l.
Lemma rm_rm t l : rm t (rm t l) = rm t l.
Proof. unfold rm. rewrite filter_filter. apply filter_ext. intros x. destruct (negb (tag_eqb x t)); reflexivity. Qed.
Lemma rm_comm t m l : rm t (rm m l) = rm m (rm t l).
Proof. unfold rm. rewrite !filter_filter. apply filter_ext. intros x. apply andb_comm. Qed.
Lemma rm_notin t l : ~ In t l -> rm t l = l.
Proof.
  intros H. apply filter_all. intros y Hy. destruct (tag_eqb y t) eqn:E; auto.
  apply tag_eqb_eq in E. subst. contradiction.
Qed.
Lemma In_rm t x l : In x (rm t l) <-> In x l /\ x <> t.
Proof.
  unfold rm. rewrite filter_In, negb_true_iff. split; intros [H1 H2]; split; auto.
  - intros ->. rewrite tag_eqb_refl in H2. discriminate.
  - destruct (tag_eqb x t) eqn:E; auto. apply tag_eqb_eq in E. contradiction.
Qed.

(* wrapping twice with the same decorator equals wrapping once: for EVERY chain *)
Theorem wrap_idempotent t s : wrap t (wrap t s) = wrap t s.
Proof.
  unfold wrap. rewrite tag_eqb_refl.
  destruct (match s with [] => [] | h :: tl => if tag_eqb h t then tl else s end) as [|f rest]; auto.
  fold (rm t rest). fold (rm t (rm t rest)). rewrite rm_rm. reflexivity.
Qed.
(* on chains without repeated types (all chains built by the constructor): the new type on top, removed below *)
Lemma wrap_char t c : NoDup c -> wrap t c = t :: rm t c.
Proof.
  intros H. destruct c as [|h tl]; [reflexivity|]. apply NoDup_cons_iff in H. destruct H as [H1 H2].
  unfold wrap. destruct (tag_eqb h t) eqn:E.
  - apply tag_eqb_eq in E. subst h. f_equal. unfold rm at 1. simpl. rewrite tag_eqb_refl. simpl. fold (rm t tl).
    rewrite (rm_notin t tl H1). destruct tl as [|f rest]; auto. fold (rm t rest). rewrite rm_notin; auto.
    intros Hin. apply H1. right. auto.
  - f_equal. unfold rm. simpl. rewrite E. reflexivity.
Qed.
Lemma wrap_NoDup t c : NoDup c -> NoDup (wrap t c).
Proof.
  intros H. rewrite wrap_char by auto. constructor.
  - intros Hin. apply In_rm in Hin. tauto.
  - apply NoDup_filter. auto.
Qed.
Lemma built_NoDup c : built c -> NoDup c.
Proof. induction 1; [constructor|apply wrap_NoDup; auto]. Qed.
Lemma wraps_NoDup mid c : NoDup c -> NoDup (wraps mid c).
Proof. induction mid; simpl; auto. intros. apply wrap_NoDup; auto. Qed.
(* ... also through a chain of other decorators *)
Lemma rm_cons t x l : rm t (x :: l) = if tag_eqb x t then rm t l else x :: rm t l.
Proof. unfold rm. simpl. destruct (tag_eqb x t); reflexivity. Qed.
Arguments wrap : simpl never.
Lemma rm_wraps t mid c : NoDup c -> rm t (wraps mid (wrap t c)) = rm t (wraps mid c).
Proof.
  intros H. induction mid as [|m mid IH]; cbn [wraps fold_right].
  - rewrite (wrap_char t c H), rm_cons, tag_eqb_refl. apply rm_rm.
  - fold (wraps mid (wrap t c)). fold (wraps mid c).
    rewrite (wrap_char m (wraps mid (wrap t c)) (wraps_NoDup mid _ (wrap_NoDup t c H))).
    rewrite (wrap_char m (wraps mid c) (wraps_NoDup mid c H)).
    rewrite !rm_cons. destruct (tag_eqb m t) eqn:E.
    + apply tag_eqb_eq in E. subst m. rewrite !rm_rm. exact IH.
    + f_equal. rewrite !(rm_comm t m). rewrite IH. reflexivity.
Qed.
Theorem wrap_through_chain t mid c : NoDup c -> wrap t (wraps mid (wrap t c)) = wrap t (wraps mid c).
Proof.
  intros H. rewrite (wrap_char t (wraps mid (wrap t c)) (wraps_NoDup mid _ (wrap_NoDup t c H))).
  rewrite (wrap_char t (wraps mid c) (wraps_NoDup mid c H)). f_equal. apply rm_wraps. auto.
Qed.
Lemma chain_spec_id {V} (c : list tag) (s : sig V) : chain_spec c s = s.
Proof. induction c; simpl; auto. Qed.

(* ================================================================== try_* and kwargs_support *)
Section BehaveProofs.
  Context {V R : Type}.
  Theorem try_value_spec (v : R) (f : call V -> lres R) c :
    (forall r, f c = LOk r -> try_value v f c = LOk r) /\ (forall e, f c = LErr e -> try_value v f c = LOk v) /\
    (forall e, try_value v f c <> LErr e).
  Proof. unfold try_value. destruct (f c); repeat split; intros; try congruence. Qed.
  Theorem try_back_spec (inj : V -> R) (s : sig V) (f : call V -> lres R) a args kw :
    (forall r, f (a :: args, kw) = LOk r -> try_back inj s f (a :: args, kw) = LOk r) /\
    (forall e, f (a :: args, kw) = LErr e -> try_back inj s f (a :: args, kw) = LOk (inj a)).
  Proof. unfold try_back. destruct (f (a :: args, kw)); split; intros; simpl; congruence. Qed.
  Theorem try_back_spec_kw (inj : V -> R) (s : sig V) (f : call V -> lres R) p ps v kw :
    pos s = p :: ps -> aget p kw = Some v ->
    (forall r, f ([], kw) = LOk r -> try_back inj s f ([], kw) = LOk r) /\
    (forall e, f ([], kw) = LErr e -> try_back inj s f ([], kw) = LOk (inj v)).
  Proof. intros Hp Hv. unfold try_back. destruct (f ([], kw)); split; intros; simpl; try congruence. rewrite Hp, Hv. reflexivity. Qed.

  (* kwargs_support: the function sees the call without exactly the keywords it does not declare *)
  Theorem kwargs_support_spec (s : sig V) (f : call V -> lres R) args kw :
    kwargs_support s f (args, kw) = f (args, named_kw s kw) /\
    (forall kv, In kv (named_kw s kw) <-> In kv kw /\ In (fst kv) (pos s)) /\
    ((forall kv, In kv kw -> In (fst kv) (pos s)) -> kwargs_support s f (args, kw) = f (args, kw)).
  Proof.
    split; [reflexivity|split].
    - intros kv. unfold named_kw. rewrite filter_In, inl_In. tauto.
    - intros H. unfold kwargs_support, named_kw. simpl. rewrite filter_all; auto.
      intros kv Hkv. apply inl_In. auto.
  Qed.

  (* a whole stack is transparent on a call whose keywords are all declared: it returns what f returns; and when f
     raises and no try_* wrapper is in the stack the same exception comes out *)
  Theorem stack_transparent (none : R) (inj : V -> R) pdcall (s : sig V) chain (f : call V -> lres R) c :
    (forall kv, In kv (snd c) -> In (fst kv) (pos s)) -> ~ In "axis"%string (map fst (snd c)) -> pdcall s c = c ->
    (forall r, f c = LOk r -> apply_chain none inj pdcall s chain f c = LOk r) /\
    (forall e, f c = LErr e -> ~ In TTry chain -> ~ In TBack chain -> apply_chain none inj pdcall s chain f c = LErr e).
  Proof.
    intros Hk Hax Hpd. assert (Hl : loops_call s c = c).
    { assert (Ha : (fst c, adel "axis"%string (snd c)) = c).
      { destruct c as [a k]. simpl in *. f_equal. unfold adel. apply filter_all. intros kv Hkv.
        destruct (String.eqb_spec "axis"%string (fst kv)) as [E|E]; auto. exfalso. apply Hax. rewrite E. apply in_map. auto. }
      unfold loops_call. destruct (fst c); [destruct (pos s) as [|top ps]; auto; destruct (String.eqb top "axis"); auto;
        destruct (ahas top (snd c)); auto|auto]. }
    assert (Hc : (fst c, named_kw s (snd c)) = c).
    { destruct c as [a k]. simpl in *. unfold named_kw. rewrite filter_all; auto. intros kv Hkv. apply inl_In. auto. }
    induction chain as [|t chain [IH1 IH2]]; simpl; [split; auto|]. split.
    - intros r Hr. specialize (IH1 r Hr). destruct t; simpl; unfold try_value, try_back, kwargs_support; rewrite ?Hc, ?Hl, ?Hpd, IH1; reflexivity.
    - intros e He Ht Hb. assert (IH : apply_chain none inj pdcall s chain f c = LErr e) by (apply IH2; auto).
      destruct t; simpl; unfold kwargs_support; rewrite ?Hc, ?Hl, ?Hpd; auto; exfalso; [apply Ht|apply Hb]; left; reflexivity.
  Qed.
End BehaveProofs.

(* a fresh copy per failure: every failing call of every history returns the pristine fallback, whatever the caller
   did to the fallbacks returned before *)
Lemma try_hist_fresh {R} (mut : R -> R) (v : R) (outs : list (lres R)) :
  try_hist true mut v outs = map (fun o => match o with LOk r => r | LErr _ => v end) outs.
Proof. induction outs as [|[r|e] outs IH]; simpl; congruence. Qed.

(* ================================================================== cache *)
Lemma F2_impl {A B} (P Q : A -> B -> Prop) l l' : (forall a b, P a b -> Q a b) -> Forall2 P l l' -> Forall2 Q l l'.
Proof. intros H. induction 1; constructor; auto. Qed.
Lemma F2_nth {A B} (P : A -> B -> Prop) l l' : Forall2 P l l' ->
  forall i a b, nth_error l i = Some a -> nth_error l' i = Some b -> P a b.
Proof.
  induction 1; intros [|i] a b H1 H2; simpl in *; try discriminate.
  - inversion H1; inversion H2; subst. auto.
  - eauto.
Qed.
Section CacheProofs.
  Context {C K R : Type}.
  Variable key : C -> K.
  Variable keqb : K -> K -> bool.
  Variable f : nat -> C -> R.
  Hypothesis keqb_refl : forall x, keqb x x = true.
  Hypothesis keqb_sym : forall x y, keqb x y = keqb y x.
  Hypothesis keqb_trans : forall x y z, keqb x y = true -> keqb y z = true -> keqb x z = true.

  Notation clookup := (clookup keqb).
  Notation cstep := (cstep key keqb f).
  Notation crun := (crun key keqb f).

  Lemma clookup_mem k (st : list (K * R)) : clookup k st = None <-> mem keqb k (map fst st) = false.
  Proof.
    induction st as [|[k' r] st IH]; simpl; [tauto|]. destruct (keqb k k'); simpl; [split; discriminate|exact IH].
  Qed.
  Lemma clookup_app_some k (st st' : list (K * R)) r : clookup k st = Some r -> clookup k (st ++ st') = Some r.
  Proof. induction st as [|[k' r'] st IH]; simpl; [discriminate|]. destruct (keqb k k'); auto. Qed.
  Lemma clookup_app_none k (st st' : list (K * R)) : clookup k st = None -> clookup k (st ++ st') = clookup k st'.
  Proof. induction st as [|[k' r'] st IH]; simpl; auto. destruct (keqb k k'); [discriminate|auto]. Qed.
  Lemma clookup_compat k1 k2 (st : list (K * R)) : keqb k1 k2 = true -> clookup k1 st = clookup k2 st.
  Proof.
    intros H. induction st as [|[k' r'] st IH]; simpl; auto.
    rewrite (eqb_compat_l keqb keqb_sym keqb_trans k1 k2 k' H), IH. reflexivity.
  Qed.
  Lemma crun_snoc cs c : crun (cs ++ [c]) = cstep (crun cs) c.
  Proof. unfold M_deco.crun. rewrite fold_left_app. reflexivity. Qed.

  Definition cinv (cs : list C) (st : cstate) : Prop :=
    map fst (store st) = map key (trace st) /\
    map key (trace st) = dedup keqb (map key cs) /\
    Forall2 (fun c r => clookup (key c) (store st) = Some r) cs (rets st) /\
    (forall n c, nth_error (trace st) n = Some c -> nth_error (store st) n = Some (key c, f n c)).

  Lemma cinv_run cs : cinv cs (crun cs).
  Proof.
    induction cs as [|c cs IH] using rev_ind.
    - repeat split; simpl; auto. intros [|n] c; discriminate.
    - rewrite crun_snoc. destruct IH as [Ia [Ib [Ic Id]]]. set (st := crun cs) in *.
      unfold M_deco.cstep. destruct (clookup (key c) (store st)) eqn:E; simpl.
      + assert (Hm : mem keqb (key c) (map key cs) = true).
        { rewrite <- (mem_dedup keqb keqb_sym keqb_trans), <- Ib, <- Ia.
          destruct (mem keqb (key c) (map fst (store st))) eqn:M; auto. apply clookup_mem in M. congruence. }
        unfold cinv; simpl; repeat split; auto.
        * rewrite Ib, map_app. simpl. rewrite (dedup_app keqb keqb_sym). simpl. rewrite Hm. simpl. rewrite app_nil_r. reflexivity.
        * apply Forall2_app; auto.
      + assert (Hm : mem keqb (key c) (map key cs) = false).
        { rewrite <- (mem_dedup keqb keqb_sym keqb_trans), <- Ib, <- Ia. apply clookup_mem. exact E. }
        unfold cinv; simpl; repeat split.
        * rewrite !map_app, Ia. reflexivity.
        * rewrite !map_app, Ib. simpl. rewrite (dedup_app keqb keqb_sym). simpl. rewrite Hm. reflexivity.
        * apply Forall2_app.
          -- eapply F2_impl; [|exact Ic]. intros a b H. apply clookup_app_some. exact H.
          -- constructor; [|constructor]. rewrite clookup_app_none by auto. simpl. rewrite keqb_refl. reflexivity.
        * intros n c' Hn. assert (Hl : List.length (store st) = List.length (trace st)).
          { rewrite <- (map_length fst), Ia, map_length. reflexivity. }
          destruct (Nat.lt_ge_cases n (List.length (trace st))) as [L|L].
          -- rewrite nth_error_app1 in Hn by auto. rewrite nth_error_app1 by lia. auto.
          -- rewrite nth_error_app2 in Hn by auto. rewrite nth_error_app2 by lia. rewrite Hl.
             destruct (n - List.length (trace st)) as [|m] eqn:En; simpl in *; [|destruct m; discriminate].
             inversion Hn; subst c'. assert (n = List.length (trace st)) by lia. subst n. reflexivity.
  Qed.

  (* for EVERY call sequence: one evaluation per distinct key, in order of first occurrence; the n-th
     evaluation is stored under its key; every return is the stored (= first) result for its key, so two
     calls with equal keys return the same value *)
  Theorem cache_once_per_key cs :
    let st := crun cs in
    map key (trace st) = dedup keqb (map key cs) /\
    NoDupE keqb (map key (trace st)) /\
    (forall n c, nth_error (trace st) n = Some c -> nth_error (store st) n = Some (key c, f n c)) /\
    Forall2 (fun c r => clookup (key c) (store st) = Some r) cs (rets st) /\
    (forall i j ci cj ri rj, nth_error cs i = Some ci -> nth_error cs j = Some cj ->
       nth_error (rets st) i = Some ri -> nth_error (rets st) j = Some rj ->
       keqb (key ci) (key cj) = true -> ri = rj).
  Proof.
    intros st. destruct (cinv_run cs) as [Ia [Ib [Ic Id]]]. fold st in Ia, Ib, Ic, Id.
    split; [exact Ib|]. split; [rewrite Ib; apply NoDupE_dedup; auto|]. split; [exact Id|]. split; [exact Ic|].
    intros i j ci cj ri rj Hi Hj Hri Hrj Hk.
    pose proof (F2_nth _ _ _ Ic) as G. simpl in G.
    pose proof (G i ci ri Hi Hri) as G1. pose proof (G j cj rj Hj Hrj) as G2.
    rewrite (clookup_compat _ _ _ Hk) in G1. congruence.
  Qed.

  (* with hashable arguments only, the cache with the uncached fallback is the cache *)
  Lemma crunu_hashable (hashable : C -> bool) cs : (forall c, In c cs -> hashable c = true) ->
    M_deco.crunu key keqb f hashable cs = crun cs.
  Proof.
    intros H. unfold M_deco.crunu, M_deco.crun.
    assert (G : forall st, fold_left (M_deco.cstepu key keqb f hashable) cs st = fold_left cstep cs st).
    { induction cs as [|c cs IH]; intros st; simpl; auto.
      unfold M_deco.cstepu at 2. rewrite (H c) by (left; auto). apply IH. intros c' Hc'. apply H. right. auto. }
    apply G.
  Qed.
End CacheProofs.

(* ================================================================== getcallargs agrees with inspect.getcallargs *)
Lemma NoDup_app_r {X} (l1 l2 : list X) : NoDup (l1 ++ l2) -> NoDup l2.
Proof. induction l1; simpl; auto. intros H. apply NoDup_cons_iff in H. tauto. Qed.
Section BindProofs.
  Context {V : Type}.
  Notation sig := (sig V).
  Notation call := (call V).
  Notation bval := (bval V).

  Definition wf_sig (s : sig) : Prop :=
    NoDup (pos s) /\ ~ In VARGS (pos s) /\ ~ In VKW (pos s) /\ List.length (defs s) <= List.length (pos s).

  Lemma aget_bvs k (l : list (string * V)) : aget k (bvs l) = option_map BV (aget k l).
  Proof. induction l as [|[k' v] l IH]; simpl; auto. destruct (String.eqb k k'); auto. Qed.
  Lemma akeys_bvs (l : list (string * V)) : akeys (bvs l) = map fst l.
  Proof. unfold akeys, bvs. rewrite map_map. reflexivity. Qed.
  Lemma keys_combine (ps : list string) : forall (args : list V) k, In k (map fst (combine ps args)) -> In k ps.
  Proof. induction ps as [|p ps IH]; intros [|a args] k; simpl; try tauto. intros [H|H]; eauto. Qed.
  Lemma NoDup_keys_combine (ps : list string) : forall (args : list V), NoDup ps -> NoDup (map fst (combine ps args)).
  Proof.
    induction ps as [|p ps IH]; intros [|a args] H; simpl; try constructor.
    - apply NoDup_cons_iff in H. intros Hin. apply keys_combine in Hin. tauto.
    - apply IH. apply NoDup_cons_iff in H. tauto.
  Qed.
  Lemma aget_notin_keys k (m : list (string * V)) : ~ In k (map fst m) -> aget k m = None.
  Proof. intros H. apply aget_None. exact H. Qed.

  (* what bind_params computes, as lookups *)
  Lemma bind_params_spec (kwargs dflt : list (string * V)) : forall ps (args : list V) (r : list (string * V)), NoDup ps ->
    bind_params ps args kwargs dflt = Some r ->
    map fst r = ps /\
    (forall p, In p (map fst (combine ps args)) -> aget p kwargs = None) /\
    (forall p, In p ps -> exists v, aget p r = Some v /\
        Some v = match aget p (combine ps args) with
                 | Some a => Some a
                 | None => match aget p kwargs with Some v => Some v | None => aget p dflt end
                 end).
  Proof.
    induction ps as [|p0 ps IH]; intros args r HN H.
    - simpl in H. inversion H; subst. repeat split; simpl; tauto.
    - apply NoDup_cons_iff in HN. destruct HN as [Hn HN]. simpl in H. destruct args as [|a args].
      + destruct (match aget p0 kwargs with Some v => Some v | None => aget p0 dflt end) as [v|] eqn:Ev; [|discriminate].
        destruct (bind_params ps [] kwargs dflt) as [r'|] eqn:Er; [|discriminate]. inversion H; subst r.
        destruct (IH [] r' HN Er) as [I1 [I2 I3]]. split; [simpl; congruence|]. split.
        * simpl. tauto.
        * intros p [<-|Hp].
          -- exists v. simpl. rewrite String.eqb_refl. split; auto.
          -- destruct (I3 p Hp) as [v' [G1 G2]]. exists v'. simpl.
             destruct (String.eqb_spec p p0); [subst; contradiction|]. split; auto.
             destruct ps; simpl in G2; exact G2.
      + destruct (aget p0 kwargs) eqn:Ek; [discriminate|].
        destruct (bind_params ps args kwargs dflt) as [r'|] eqn:Er; [|discriminate]. inversion H; subst r.
        destruct (IH args r' HN Er) as [I1 [I2 I3]]. split; [simpl; congruence|]. split.
        * simpl. intros p [<-|Hp]; auto.
        * intros p [<-|Hp].
          -- exists a. simpl. rewrite String.eqb_refl. auto.
          -- destruct (I3 p Hp) as [v' [G1 G2]]. exists v'. simpl.
             destruct (String.eqb_spec p p0); [subst; contradiction|]. auto.
  Qed.

  Lemma aget_app_bvs k (r : list (string * V)) (tl : amap bval) :
    aget k (bvs r ++ tl) = match aget k r with Some v => Some (BV v) | None => aget k tl end.
  Proof. rewrite aget_app, aget_bvs. destruct (aget k r); reflexivity. Qed.

  Lemma defaults_keys (s : sig) k : In k (map fst (defaults_of s)) -> In k (pos s).
  Proof.
    unfold defaults_of. intros H. apply keys_combine in H.
    rewrite <- (firstn_skipn (npos s - ndef s) (pos s)). apply in_or_app. auto.
  Qed.

  Theorem getcallargs_agrees (s : sig) (args : list V) kwargs r :
    wf_sig s -> NoDup (map fst kwargs) -> bind s (args, kwargs) = Some r ->
    exists r', lib_getcallargs s (args, kwargs) = LOk r' /\ (forall k, aget k r' = aget k r) /\ NoDup (akeys r').
  Proof.
    intros [Hnd [Hva [Hvk Hdef]]] Hkw Hb. unfold bind in Hb.
    destruct (negb (varargs s) && negb (Nat.eqb (List.length (skipn (npos s) args)) 0)) eqn:G1; [discriminate|].
    destruct (negb (varkw s) && negb (Nat.eqb (List.length (extra_kw s kwargs)) 0)) eqn:G2; [discriminate|].
    destruct (bind_params (pos s) args kwargs (defaults_of s)) as [bp|] eqn:Ebp; [|discriminate].
    inversion Hb; subst r; clear Hb.
    destruct (bind_params_spec kwargs (defaults_of s) (pos s) args bp Hnd Ebp) as [B1 [B2 B3]].
    unfold lib_getcallargs.
    assert (GL1 : existsb (fun kv => ahas (fst kv) (combine (pos s) args)) kwargs = false).
    { destruct (existsb (fun kv => ahas (fst kv) (combine (pos s) args)) kwargs) eqn:E; auto.
      apply existsb_exists in E. destruct E as [kv [Hkv Hh]]. apply existsb_exists in Hh. destruct Hh as [pa [Hpa He]].
      apply String.eqb_eq in He. assert (Hn : aget (fst kv) kwargs = None).
      { apply B2. rewrite He. apply in_map. auto. }
      apply aget_None in Hn. exfalso. apply Hn. apply in_map. auto. }
    rewrite GL1, G1.
    set (a2k := combine (pos s) args) in *. set (extra := skipn (npos s) args) in *.
    set (res1 := aupdate (bvs (defaults_of s)) (bvs a2k)).
    set (res2 := if varargs s then aset VARGS (BT extra) res1 else res1).
    assert (Nd : NoDup (akeys (bvs (defaults_of s)))).
    { rewrite akeys_bvs. unfold defaults_of. apply NoDup_keys_combine.
      rewrite <- (firstn_skipn (npos s - ndef s) (pos s)) in Hnd. apply NoDup_app_r in Hnd. auto. }
    assert (Na : NoDup (akeys (bvs a2k))) by (rewrite akeys_bvs; apply NoDup_keys_combine; auto).
    assert (N1 : NoDup (akeys res1)) by (apply akeys_aupdate; auto).
    assert (L1 : forall k, aget k res1 = match aget k a2k with Some a => Some (BV a) | None => option_map BV (aget k (defaults_of s)) end).
    { intros k. unfold res1. pose proof (aget_merged k (bvs (defaults_of s)) (bvs a2k) Na) as E. unfold merged in E.
      rewrite E, !aget_bvs. destruct (aget k a2k); reflexivity. }
    assert (N2 : NoDup (akeys res2)) by (unfold res2; destruct (varargs s); auto; apply NoDup_akeys_aset; auto).
    assert (L2 : forall k, aget k res2 = if varargs s && String.eqb k VARGS then Some (BT extra) else aget k res1).
    { intros k. unfold res2. destruct (varargs s); simpl; auto. apply aget_aset. }
    (* lookups of parameters *)
    assert (P : forall k, In k (pos s) -> exists v, aget k bp = Some v /\
               (match aget k kwargs with Some v => Some (BV v) | None => aget k res1 end) = Some (BV v)).
    { intros k Hk. destruct (B3 k Hk) as [v [E1 E2]]. exists v. split; auto. rewrite L1. fold a2k in E2.
      destruct (aget k a2k) eqn:Ea.
      - rewrite (B2 k). + congruence. + apply aget_In in Ea. change k with (fst (k, v0)). apply in_map. auto.
      - destruct (aget k kwargs); [congruence|]. rewrite <- E2. reflexivity. }
    assert (Q : forall k, ~ In k (pos s) -> aget k bp = None /\ aget k res1 = None).
    { intros k Hk. split.
      - apply aget_notin_keys. rewrite B1. auto.
      - rewrite L1. rewrite (aget_notin_keys k a2k) by (intros H; apply keys_combine in H; auto).
        rewrite (aget_notin_keys k (defaults_of s)) by (intros H; apply defaults_keys in H; auto). reflexivity. }
    assert (VV : String.eqb VARGS VKW = false) by reflexivity.
    destruct (varkw s) eqn:Evk.
    - (* with **kw *)
      eexists. split; [reflexivity|].
      assert (Nn : NoDup (akeys (bvs (named_kw s kwargs)))) by (rewrite akeys_bvs; apply NoDup_map_filter'; auto).
      split.
      + intros k. pose proof (aget_merged k (aset VKW (BD (extra_kw s kwargs)) res2) (bvs (named_kw s kwargs)) Nn) as E.
        unfold merged in E. rewrite E, aget_bvs. unfold named_kw.
        rewrite (aget_filter (fun k => inl k (pos s)) k kwargs), aget_aset, L2, aget_app_bvs.
        destruct (inl k (pos s)) eqn:Ei.
        * apply inl_In in Ei. destruct (P k Ei) as [v [E1 E2]]. rewrite E1.
          assert (k <> VKW) by (intros ->; contradiction). assert (k <> VARGS) by (intros ->; contradiction).
          destruct (String.eqb_spec k VKW); [contradiction|]. destruct (String.eqb_spec k VARGS); [contradiction|].
          rewrite andb_false_r. destruct (aget k kwargs); simpl; auto.
        * apply inl_false in Ei. destruct (Q k Ei) as [E1 E2]. rewrite E1, E2. simpl.
          destruct (varargs s); simpl.
          -- destruct (String.eqb_spec k VARGS); [subst k; rewrite VV; reflexivity|].
             simpl. destruct (String.eqb k VKW); reflexivity.
          -- destruct (String.eqb k VKW); reflexivity.
      + apply akeys_aupdate. apply NoDup_akeys_aset. auto.
    - (* without **kw: every keyword names a parameter *)
      simpl in G2. apply negb_false_iff, Nat.eqb_eq, length_zero_iff_nil in G2.
      assert (AK : forall k, ~ In k (pos s) -> aget k kwargs = None).
      { intros k Hk. destruct (aget k kwargs) eqn:E; auto. apply aget_In in E.
        assert (In (k, v) (extra_kw s kwargs)) by (apply filter_In; split; auto; apply negb_true_iff, inl_false; auto).
        rewrite G2 in H. contradiction. }
      eexists. split; [reflexivity|].
      assert (Nk : NoDup (akeys (bvs kwargs))) by (rewrite akeys_bvs; auto).
      split.
      + intros k. pose proof (aget_merged k res2 (bvs kwargs) Nk) as E. unfold merged in E.
        rewrite E, aget_bvs, L2, aget_app_bvs.
        destruct (in_dec string_dec k (pos s)) as [Ei|Ei].
        * destruct (P k Ei) as [v [E1 E2]]. rewrite E1.
          assert (k <> VARGS) by (intros ->; contradiction). destruct (String.eqb_spec k VARGS); [contradiction|].
          rewrite andb_false_r. destruct (aget k kwargs); simpl; auto.
        * destruct (Q k Ei) as [E1 E2]. rewrite E1, E2, (AK k Ei). simpl.
          destruct (varargs s); simpl; [|reflexivity]. destruct (String.eqb k VARGS); reflexivity.
      + apply akeys_aupdate. auto.
  Qed.

  (* ---- call_with_callargs on the result of getcallargs hands f the same binding as the direct call *)
  Lemma bind_params_positional (ekw dflt : list (string * V)) : forall (bp : list (string * V)) tail,
    (forall p, In p (map fst bp) -> aget p ekw = None) ->
    bind_params (map fst bp) (map snd bp ++ tail) ekw dflt = Some bp.
  Proof.
    induction bp as [|[p v] bp IH]; intros tail H; simpl; auto.
    rewrite (H p) by (left; auto). rewrite IH by (intros; apply H; right; auto). reflexivity.
  Qed.
  Lemma flat_map_vals (g : string -> list V) : forall (bp : list (string * V)),
    (forall p v, In (p, v) bp -> g p = [v]) -> flat_map g (map fst bp) = map snd bp.
  Proof.
    induction bp as [|[p v] bp IH]; intros H; simpl; auto.
    rewrite (H p v) by (left; auto). simpl. f_equal. apply IH. intros. apply H. right. auto.
  Qed.
  Lemma extra_kw_idem (s : sig) kw : extra_kw s (extra_kw s kw) = extra_kw s kw.
  Proof. unfold extra_kw. rewrite filter_filter. apply filter_ext. intros x. destruct (negb (inl (fst x) (pos s))); reflexivity. Qed.

  Theorem call_with_callargs_roundtrip (s : sig) (args : list V) kwargs r :
    wf_sig s -> NoDup (map fst kwargs) -> bind s (args, kwargs) = Some r ->
    exists r', lib_getcallargs s (args, kwargs) = LOk r' /\ bind s (call_with_callargs s r') = Some r.
  Proof.
    intros Hwf Hkw Hb. destruct (getcallargs_agrees s args kwargs r Hwf Hkw Hb) as [r' [E [L N]]].
    exists r'. split; auto. destruct Hwf as [Hnd [Hva [Hvk Hdef]]]. unfold bind in Hb.
    destruct (negb (varargs s) && negb (Nat.eqb (List.length (skipn (npos s) args)) 0)) eqn:G1; [discriminate|].
    destruct (negb (varkw s) && negb (Nat.eqb (List.length (extra_kw s kwargs)) 0)) eqn:G2; [discriminate|].
    destruct (bind_params (pos s) args kwargs (defaults_of s)) as [bp|] eqn:Ebp; [|discriminate].
    inversion Hb; subst r; clear Hb.
    destruct (bind_params_spec kwargs (defaults_of s) (pos s) args bp Hnd Ebp) as [B1 _].
    set (extra := skipn (npos s) args) in *. set (ekw := extra_kw s kwargs) in *.
    assert (VV : String.eqb VARGS VKW = false) by reflexivity.
    assert (VV' : String.eqb VKW VARGS = false) by reflexivity.
    assert (Lp : forall k, ~ In k (pos s) -> aget k bp = None) by (intros k Hk; apply aget_notin_keys; rewrite B1; auto).
    (* the *args and **kw entries *)
    assert (Eva : (if varargs s then match aget VARGS r' with Some (BT l) => l | _ => [] end else []) = extra).
    { destruct (varargs s) eqn:Ev.
      - rewrite L, aget_app_bvs, (Lp VARGS Hva). simpl. reflexivity.
      - simpl in G1. apply negb_false_iff, Nat.eqb_eq, length_zero_iff_nil in G1. auto. }
    assert (Evk : (if varkw s then match aget VKW r' with Some (BD d) => d | _ => [] end else []) = ekw).
    { destruct (varkw s) eqn:Ev.
      - rewrite L, aget_app_bvs, (Lp VKW Hvk). destruct (varargs s); simpl; rewrite ?VV'; simpl; reflexivity.
      - simpl in G2. apply negb_false_iff, Nat.eqb_eq, length_zero_iff_nil in G2. auto. }
    unfold call_with_callargs. rewrite Eva, Evk.
    set (c := if varkw s then adel VKW (if varargs s then adel VARGS r' else r') else (if varargs s then adel VARGS r' else r')).
    assert (Nc : NoDup (akeys c)).
    { unfold c. destruct (varkw s), (varargs s); auto; unfold akeys, adel; repeat apply NoDup_map_filter'; auto. }
    assert (Lc : forall p, In p (pos s) -> aget p c = aget p r').
    { intros p Hp. assert (p <> VKW) by (intros ->; contradiction). assert (p <> VARGS) by (intros ->; contradiction).
      unfold c. destruct (varkw s), (varargs s); rewrite ?aget_adel; auto;
        repeat (match goal with |- context [String.eqb ?a ?b] => destruct (String.eqb_spec a b); [congruence|] end); auto. }
    assert (Hargs : flat_map (fun p => match aget p (aupdate (bvs (defaults_of s)) c) with Some (BV v) => [v] | _ => [] end) (pos s) = map snd bp).
    { rewrite <- B1. apply flat_map_vals. intros p v Hin.
      assert (Hp : In p (pos s)) by (rewrite <- B1; change p with (fst (p, v)); apply in_map; auto).
      pose proof (aget_merged p (bvs (defaults_of s)) c Nc) as Em. unfold merged in Em. rewrite Em, (Lc p Hp), L, aget_app_bvs.
      rewrite (In_aget p v bp); [reflexivity| |auto]. unfold akeys. rewrite B1. auto. }
    rewrite Hargs. unfold bind.
    assert (Hlen : List.length (map snd bp) = npos s) by (rewrite map_length, <- (map_length fst), B1; reflexivity).
    assert (Hskip : skipn (npos s) (map snd bp ++ extra) = extra).
    { rewrite skipn_app, Hlen, Nat.sub_diag, skipn_all2 by lia. reflexivity. }
    rewrite Hskip. fold extra in G1. rewrite G1. unfold ekw at 1. rewrite extra_kw_idem. fold ekw. rewrite G2.
    rewrite <- B1 at 1. rewrite bind_params_positional.
    - unfold ekw at 1. rewrite extra_kw_idem. reflexivity.
    - intros p Hp. rewrite B1 in Hp. unfold ekw, extra_kw.
      rewrite (aget_filter (fun k => negb (inl k (pos s))) p kwargs). apply inl_In in Hp. rewrite Hp. reflexivity.
  Qed.
End BindProofs.
