(* Proofs about container lifting (C19). *)
From Coq Require Import ZArith List Bool Arith Lia Permutation.
From PB Require Import model.M_loop.
Import ListNotations.

(* ------------------------------------------------------------ induction on nested values *)
Section val_ind2.
  Variable P : val -> Prop.
  Hypothesis Hleaf : forall z, P (VLeaf z).
  Hypothesis Hlist : forall l, Forall P l -> P (VList l).
  Hypothesis Htuple : forall l, Forall P l -> P (VTuple l).
  Hypothesis Hdict : forall c items, Forall (fun kv => P (snd kv)) items -> P (VDict c items).
  Fixpoint val_ind2 (v : val) : P v :=
    match v with
    | VLeaf z => Hleaf z
    | VList l => Hlist l ((fix go (l : list val) : Forall P l :=
                             match l with [] => Forall_nil P | x :: l' => Forall_cons x (val_ind2 x) (go l') end) l)
    | VTuple l => Htuple l ((fix go (l : list val) : Forall P l :=
                             match l with [] => Forall_nil P | x :: l' => Forall_cons x (val_ind2 x) (go l') end) l)
    | VDict c items => Hdict c items ((fix go (l : list (Z * val)) : Forall (fun kv => P (snd kv)) l :=
                             match l with [] => Forall_nil _ | x :: l' => Forall_cons x (val_ind2 (snd x)) (go l') end) items)
    end.
End val_ind2.

Lemma nth_error_mapi_from {A B} (g : nat -> A -> B) s l i :
  nth_error (mapi_from g s l) i = option_map (g (s + i)) (nth_error l i).
Proof.
  revert s i. induction l as [|x l IH]; intros s i; destruct i; simpl; auto.
  - rewrite Nat.add_0_r. reflexivity.
  - rewrite IH. f_equal. f_equal. lia.
Qed.
Lemma length_mapi_from {A B} (g : nat -> A -> B) s l : length (mapi_from g s l) = length l.
Proof. revert s. induction l; intros s; simpl; auto. Qed.
Lemma mapi_from_ext {A B} (g h : nat -> A -> B) s l :
  Forall (fun x => forall i, g i x = h i x) l -> mapi_from g s l = mapi_from h s l.
Proof. intros H. revert s. induction H; intros s; simpl; auto. rewrite H, IHForall. reflexivity. Qed.
Lemma lookup_opt_map (h : Z -> val -> val) k items :
  lookup_opt k (map (fun kv => (fst kv, h (fst kv) (snd kv))) items) = option_map (h k) (lookup_opt k items).
Proof.
  induction items as [|kv r IH]; simpl; auto. destruct (fst kv =? k)%Z eqn:E; auto.
  simpl. f_equal. f_equal. lia.
Qed.
Lemma map_fst_map {A} (h : Z * A -> A) (items : list (Z * A)) : map fst (map (fun kv => (fst kv, h kv)) items) = map fst items.
Proof. induction items; simpl; auto. rewrite IHitems. reflexivity. Qed.

(* ------------------------------------------------------------ the path theorem (leaf-wise map) *)
Theorem wrapped_at_path f : forall p arg pos kw sub, get arg p = Some sub ->
  get (wrapped f arg pos kw) p = Some (wrapped f sub (map (comp_at arg p) pos) (map_kw (comp_at arg p) kw)).
Proof.
  induction p as [|s p IH]; intros arg pos kw sub H.
  - simpl in *. inversion H; subst. rewrite map_id. unfold map_kw.
    rewrite (map_ext _ (fun x => x)) by (intros [n v]; reflexivity). rewrite map_id. reflexivity.
  - cbn [get] in H. destruct (child arg s) as [c|] eqn:Ec; [|discriminate].
    assert (Hm : forall (h : val -> val), map (comp_at arg (s :: p)) pos = map (comp_at c p) (map (select arg s) pos)).
    { intros _. rewrite map_map. apply map_ext. intros a. cbn [comp_at]. rewrite Ec. reflexivity. }
    assert (Hk : map_kw (comp_at arg (s :: p)) kw = map_kw (comp_at c p) (map_kw (select arg s) kw)).
    { unfold map_kw. rewrite map_map. apply map_ext. intros a. cbn [comp_at fst snd]. rewrite Ec. reflexivity. }
    rewrite (Hm (fun x => x)), Hk. clear Hm Hk.
    destruct arg as [z|l|l|cl items]; destruct s as [i|k]; simpl in Ec; try discriminate.
    + cbn [wrapped get child]. rewrite nth_error_mapi_from, Ec. simpl. apply IH; auto.
    + cbn [wrapped get child]. rewrite nth_error_mapi_from, Ec. simpl. apply IH; auto.
    + cbn [wrapped get child].
      rewrite (lookup_opt_map (fun k0 x => wrapped f x (map (fun a => item_by_key a k0 (sortZ (map fst items))) pos)
                                             (map_kw (fun a => item_by_key a k0 (sortZ (map fst items))) kw))).
      rewrite Ec. simpl. apply IH; auto.
Qed.

(* ------------------------------------------------------------ shape *)
Lemma Forall2_mapi_from {A B} (R : A -> B -> Prop) (g : nat -> A -> B) s l :
  Forall (fun x => forall i, R x (g i x)) l -> Forall2 R l (mapi_from g s l).
Proof. intros H. revert s. induction H; intros s; simpl; constructor; auto. Qed.
Theorem wrapped_shaped f : forall arg pos kw, shaped arg (wrapped f arg pos kw).
Proof.
  induction arg using val_ind2; intros pos kw.
  - constructor.
  - cbn [wrapped]. constructor. apply Forall2_mapi_from. eapply Forall_impl; [|exact H]. simpl. intros x Hx i. apply Hx.
  - cbn [wrapped]. constructor. apply Forall2_mapi_from. eapply Forall_impl; [|exact H]. simpl. intros x Hx i. apply Hx.
  - cbn [wrapped]. constructor.
    + symmetry. apply (map_fst_map (fun kv => wrapped f (snd kv) _ _)).
    + rewrite map_map. cbn [snd]. generalize (sortZ (map fst items)) as keys. intros keys. induction H; simpl; constructor; auto.
Qed.

(* ------------------------------------------------------------ positional = keyword *)
Lemma map_kw_app h a b : map_kw h (a ++ b) = map_kw h a ++ map_kw h b.
Proof. unfold map_kw. apply map_app. Qed.
Lemma map_kw_combine h names pos : map_kw h (combine names pos) = combine names (map h pos).
Proof. revert pos. induction names; intros [|x pos]; simpl; auto. rewrite IHnames. reflexivity. Qed.
Theorem positional_is_keyword g names : forall arg pos kw,
  wrapped (f_named g names) arg pos kw = wrapped (f_named g names) arg [] (combine names pos ++ kw).
Proof.
  induction arg using val_ind2; intros pos kw.
  - simpl. unfold f_named. destruct names; reflexivity.
  - cbn [wrapped]. f_equal. apply mapi_from_ext. eapply Forall_impl; [|exact H]. simpl. intros x Hx i.
    rewrite Hx. rewrite map_kw_app, map_kw_combine. reflexivity.
  - cbn [wrapped]. f_equal. apply mapi_from_ext. eapply Forall_impl; [|exact H]. simpl. intros x Hx i.
    rewrite Hx. rewrite map_kw_app, map_kw_combine. reflexivity.
  - cbn [wrapped]. f_equal. apply map_ext_in. intros kv Hin. rewrite Forall_forall in H. f_equal.
    rewrite (H kv Hin). rewrite map_kw_app, map_kw_combine. reflexivity.
Qed.

(* ------------------------------------------------------------ companion matching *)
Lemma item_by_i_same_len l i n : length l = n ->
  item_by_i (VList l) i n = nth i l (VLeaf 0) /\ item_by_i (VTuple l) i n = nth i l (VLeaf 0).
Proof. intros H. simpl. rewrite (proj2 (Nat.eqb_eq _ _) H). auto. Qed.
Lemma list_eqb_refl l : list_eqb l l = true.
Proof. induction l; simpl; auto. rewrite Z.eqb_refl. auto. Qed.
Lemma list_eqb_eq a : forall b, list_eqb a b = true -> a = b.
Proof. induction a; destruct b; simpl; try discriminate; auto. intros H. apply andb_true_iff in H. destruct H. f_equal; [lia|auto]. Qed.
Lemma item_by_key_same_keys c items k keys : sortZ (map fst items) = keys ->
  item_by_key (VDict c items) k keys = lookup k items.
Proof. intros H. simpl. rewrite H, list_eqb_refl. reflexivity. Qed.
Lemma map_id_in {A} (h : A -> A) l : (forall x, In x l -> h x = x) -> map h l = l.
Proof. induction l; simpl; auto. intros H. rewrite H, IHl; auto. Qed.
Lemma item_by_i_plain i n : forall v, plain_i n v = true -> item_by_i v i n = v.
Proof.
  induction v using val_ind2; simpl; auto; intros Hp; apply andb_true_iff in Hp; destruct Hp as [H1 H2];
    apply negb_true_iff in H1; rewrite H1; f_equal; rewrite forallb_forall in H2; rewrite Forall_forall in H;
    apply map_id_in; intros x Hx; apply H; auto.
Qed.
Lemma item_by_key_plain k keys : forall v, plain_k keys v = true -> item_by_key v k keys = v.
Proof.
  induction v using val_ind2; simpl; auto. intros Hp. apply andb_true_iff in Hp. destruct Hp as [H1 H2].
  apply negb_true_iff in H1. rewrite H1. f_equal. rewrite forallb_forall in H2. rewrite Forall_forall in H.
  apply map_id_in. intros [k0 x] Hx. simpl. f_equal. apply (H (k0, x)); auto.
Qed.
(* scalars are broadcast to every leaf *)
Lemma comp_at_leaf z : forall p arg, comp_at arg p (VLeaf z) = VLeaf z.
Proof.
  induction p as [|s p IH]; intros arg; simpl; auto. destruct (child arg s) as [c|]; auto.
  replace (select arg s (VLeaf z)) with (VLeaf z); auto. destruct arg, s; reflexivity.
Qed.
(* a companion of the same lengths / keys all along the path is matched element by element *)
Lemma nth_error_nth l i (x : val) : nth_error l i = Some x -> nth i l (VLeaf 0) = x.
Proof. revert i. induction l; destruct i; simpl; try discriminate; auto. congruence. Qed.
Lemma comp_at_follows : forall p arg a, follows arg a p -> get a p = Some (comp_at arg p a).
Proof.
  induction p as [|s p IH]; intros arg a H; simpl in *; auto.
  destruct (child arg s) as [c|] eqn:Ec; [|tauto]. destruct (child a s) as [ca|] eqn:Ea; [|tauto].
  destruct H as [Hl Hf]. replace (select arg s a) with ca; [apply IH; auto|].
  destruct arg as [z|l|l|cl items]; destruct s as [i|k]; simpl in Ec; try discriminate;
    destruct a as [z'|l'|l'|cl' items']; simpl in Ea, Hl; try discriminate; cbn [select item_by_i item_by_key]; rewrite ?Hl;
    try (symmetry; apply nth_error_nth; exact Ea).
  unfold lookup. rewrite Ea. reflexivity.
Qed.

(* ------------------------------------------------------------ as_list / as_tuple *)
Lemma as_list_is_list v : exists l, as_list v = VList l.
Proof.
  unfold as_list. destruct (is_none v); [eexists; reflexivity|].
  destruct v as [z|l|l|c items]; try (eexists; reflexivity).
  destruct l as [|x [|y r]]; try (eexists; reflexivity); destruct x; eexists; reflexivity.
Qed.
Theorem as_list_idempotent v : as_list (as_list v) = as_list v.
Proof. destruct (as_list_is_list v) as [l ->]. reflexivity. Qed.
(* as_tuple is idempotent except when its result is a 1-tuple holding a list (then the second
   application unpacks that list) *)
Definition single_list (v : val) : bool := match v with VTuple [VList _] => true | _ => false end.
Lemma as_tuple_is_tuple v : exists l, as_tuple v = VTuple l.
Proof.
  unfold as_tuple. destruct (is_none v); [eexists; reflexivity|].
  destruct v as [z|l|l|c items]; try (eexists; reflexivity).
  destruct l as [|x [|y r]]; try (eexists; reflexivity); destruct x; eexists; reflexivity.
Qed.
Theorem as_tuple_idempotent_unless_single_list v :
  single_list (as_tuple v) = false -> as_tuple (as_tuple v) = as_tuple v.
Proof.
  destruct (as_tuple_is_tuple v) as [l ->]. simpl. unfold as_tuple. simpl.
  destruct l as [|x [|y r]]; auto; destruct x; auto; discriminate.
Qed.
Theorem as_tuple_not_idempotent : exists v, as_tuple (as_tuple v) <> as_tuple v.
Proof. exists (VList [VList [VLeaf 1; VLeaf 2]]). vm_compute. discriminate. Qed.

(* ------------------------------------------------------------ waiter *)
Section wval_ind2.
  Variable P : wval -> Prop.
  Hypothesis Hleaf : forall z, P (WLeaf z).
  Hypothesis Hawait : forall i, P (WAwait i).
  Hypothesis Hlist : forall l, Forall P l -> P (WList l).
  Hypothesis Htuple : forall l, Forall P l -> P (WTuple l).
  Hypothesis Hdict : forall c items, Forall (fun kv => P (snd kv)) items -> P (WDict c items).
  Fixpoint wval_ind2 (v : wval) : P v :=
    match v with
    | WLeaf z => Hleaf z
    | WAwait i => Hawait i
    | WList l => Hlist l ((fix go (l : list wval) : Forall P l :=
                             match l with [] => Forall_nil P | x :: l' => Forall_cons x (wval_ind2 x) (go l') end) l)
    | WTuple l => Htuple l ((fix go (l : list wval) : Forall P l :=
                             match l with [] => Forall_nil P | x :: l' => Forall_cons x (wval_ind2 x) (go l') end) l)
    | WDict c items => Hdict c items ((fix go (l : list (Z * wval)) : Forall (fun kv => P (snd kv)) l :=
                             match l with [] => Forall_nil _ | x :: l' => Forall_cons x (wval_ind2 (snd x)) (go l') end) items)
    end.
End wval_ind2.

Definition events (res : nat -> val) (order : list nat) : list (nat * val) := map (fun i => (i, res i)) order.
Lemma done_opt_complete i st e :
  done_opt i (complete st e) =
  match done_opt i st with Some v => Some v | None => if fst e =? i then Some (snd e) else None end.
Proof.
  unfold complete. destruct (done_opt (fst e) st) eqn:E.
  - destruct (done_opt i st) eqn:Ei; auto. destruct (fst e =? i) eqn:En; auto.
    apply Nat.eqb_eq in En. rewrite En in E. congruence.
  - simpl. destruct (fst e =? i) eqn:En; auto.
    + apply Nat.eqb_eq in En. rewrite En in E. rewrite E. reflexivity.
    + destruct (done_opt i st); auto.
Qed.
(* induction over the schedule: after any sequence of completions, future i is done iff it was
   done before or occurs in the sequence, and it holds its own result *)
Lemma done_opt_schedule res : forall order st i,
  done_opt i (fold_left complete (events res order) st) =
  match done_opt i st with Some v => Some v | None => if existsb (Nat.eqb i) order then Some (res i) else None end.
Proof.
  induction order as [|j order IH]; intros st i; simpl.
  - destruct (done_opt i st); auto.
  - rewrite IH. rewrite done_opt_complete. simpl. destruct (done_opt i st); auto.
    rewrite (Nat.eqb_sym i j). destruct (j =? i) eqn:E; simpl; auto. apply Nat.eqb_eq in E. subst. reflexivity.
Qed.
Lemma all_some_map {A B} (g : A -> option B) (h : A -> B) l :
  Forall (fun x => g x = Some (h x)) l -> all_some (map g l) = Some (map h l).
Proof. induction 1; simpl; auto. rewrite H, IHForall. reflexivity. Qed.
Lemma all_some_none {A B} (g : A -> option B) l x : In x l -> g x = None -> all_some (map g l) = None.
Proof.
  induction l as [|y l IH]; simpl; [tauto|]. intros [->|Hin] Hn.
  - rewrite Hn. reflexivity.
  - destruct (g y); auto. rewrite IH; auto.
Qed.
Lemma combine_fst_map {A B} (h : Z * A -> B) (items : list (Z * A)) :
  combine (map fst items) (map h items) = map (fun kv => (fst kv, h kv)) items.
Proof. induction items; simpl; auto. rewrite IHitems. reflexivity. Qed.

Theorem waiter_final res order : forall w, (forall i, In i (awaits w) -> In i order) ->
  collect (run_schedule (events res order)) w = Some (subst res w).
Proof.
  unfold run_schedule. induction w using wval_ind2; intros Hin; cbn [collect subst].
  - reflexivity.
  - rewrite done_opt_schedule. simpl. replace (existsb (Nat.eqb i) order) with true; auto.
    symmetry. apply existsb_exists. exists i. split; [apply Hin; simpl; auto|apply Nat.eqb_refl].
  - rewrite (all_some_map _ (subst res)); auto. rewrite Forall_forall in *. intros x Hx. apply H; auto.
    intros i Hi. apply Hin. simpl. apply in_flat_map. exists x; auto.
  - rewrite (all_some_map _ (subst res)); auto. rewrite Forall_forall in *. intros x Hx. apply H; auto.
    intros i Hi. apply Hin. simpl. apply in_flat_map. exists x; auto.
  - rewrite (all_some_map _ (fun kv => subst res (snd kv))).
    + simpl. rewrite combine_fst_map. reflexivity.
    + rewrite Forall_forall in *. intros x Hx. apply H; auto.
      intros i Hi. apply Hin. simpl. apply in_flat_map. exists x; auto.
Qed.
(* waiter does not return before every awaitable has completed *)
Theorem waiter_pending res order : forall w i, In i (awaits w) -> ~ In i order ->
  collect (run_schedule (events res order)) w = None.
Proof.
  unfold run_schedule. induction w using wval_ind2; intros j Hj Hn; cbn [collect]; simpl in Hj.
  - tauto.
  - destruct Hj as [->|[]]. rewrite done_opt_schedule. simpl.
    replace (existsb (Nat.eqb j) order) with false; auto. symmetry. apply not_true_is_false. intros He.
    apply existsb_exists in He. destruct He as [x [Hx He]]. apply Nat.eqb_eq in He. subst. tauto.
  - apply in_flat_map in Hj. destruct Hj as [x [Hx Hj]]. rewrite Forall_forall in H.
    rewrite (all_some_none _ l x); auto. apply (H x Hx j); auto.
  - apply in_flat_map in Hj. destruct Hj as [x [Hx Hj]]. rewrite Forall_forall in H.
    rewrite (all_some_none _ l x); auto. apply (H x Hx j); auto.
  - apply in_flat_map in Hj. destruct Hj as [x [Hx Hj]]. rewrite Forall_forall in H.
    rewrite (all_some_none _ items x); auto. apply (H x Hx j); auto.
Qed.
Theorem waiter_schedule_independent res w order1 order2 :
  Permutation order1 order2 -> (forall i, In i (awaits w) -> In i order1) ->
  collect (run_schedule (events res order1)) w = Some (subst res w) /\
  collect (run_schedule (events res order2)) w = Some (subst res w).
Proof.
  intros Hp Hin. split; apply waiter_final; auto. intros i Hi. eapply Permutation_in; eauto.
Qed.

(* ------------------------------------------------------------ zipper / lens *)
Lemma nodup_nat_In x l : In x (nodup_nat l) <-> In x l.
Proof.
  induction l as [|y l IH]; simpl; [tauto|]. destruct (existsb (Nat.eqb y) l) eqn:E; simpl; rewrite IH; [|tauto].
  split; [tauto|]. intros [->|H]; auto. apply existsb_exists in E. destruct E as [z [Hz E]]. apply Nat.eqb_eq in E. subst. auto.
Qed.
Lemma nodup_nat_NoDup l : NoDup (nodup_nat l).
Proof.
  induction l as [|y l IH]; simpl; [constructor|]. destruct (existsb (Nat.eqb y) l) eqn:E; auto. constructor; auto.
  rewrite nodup_nat_In. intros Hin. assert (existsb (Nat.eqb y) l = true); [|congruence].
  apply existsb_exists. exists y. split; auto. apply Nat.eqb_refl.
Qed.
Definition ne1 (n : nat) : bool := negb (n =? 1).
Definition lengths (vs : list val) : list nat := map (fun v => length (elems v)) vs.
Lemma lengths_map vs : map (@length val) (map elems vs) = lengths vs.
Proof. unfold lengths. rewrite map_map. reflexivity. Qed.
Lemma lens_cases vs : vs <> [] ->
  lens (map elems vs) = match nodup_nat (filter ne1 (lengths vs)) with [] => Some 1 | [n] => Some n | _ => None end.
Proof. destruct vs; [congruence|]. intros _. unfold lens. cbn [map]. rewrite <- lengths_map. reflexivity. Qed.
Lemma in_D a vs : In a (nodup_nat (filter ne1 (lengths vs))) <-> In a (lengths vs) /\ a <> 1.
Proof.
  rewrite nodup_nat_In, filter_In. unfold ne1. rewrite negb_true_iff, Nat.eqb_neq. tauto.
Qed.
Theorem zipper_error_iff vs :
  zipper vs = None <-> exists a b, In a (lengths vs) /\ In b (lengths vs) /\ a <> 1 /\ b <> 1 /\ a <> b.
Proof.
  unfold zipper. destruct vs as [|v0 vs'].
  - simpl. split; [discriminate|]. intros [a [b [[] _]]].
  - set (vs := v0 :: vs'). rewrite (lens_cases vs) by discriminate.
    pose proof (nodup_nat_NoDup (filter ne1 (lengths vs))) as Hnd. pose proof (fun a => in_D a vs) as HD.
    destruct (nodup_nat (filter ne1 (lengths vs))) as [|a [|b r]] eqn:E.
    + split; [discriminate|]. intros [a [b [Ha [_ [Ha1 _]]]]]. exfalso. apply (proj2 (HD a)); auto.
    + split; [discriminate|]. intros [x [y [Hx [Hy [Hx1 [Hy1 Hxy]]]]]]. exfalso.
      assert (In x [a]) by (apply HD; auto). assert (In y [a]) by (apply HD; auto). simpl in *. lia.
    + split; auto. intros _. exists a, b.
      assert (Ha : In a (a :: b :: r)) by (simpl; auto). assert (Hb : In b (a :: b :: r)) by (simpl; auto).
      apply HD in Ha, Hb. inversion Hnd; subst. repeat split; try tauto. intros ->. apply H1. simpl; auto.
Qed.

Definition pick (j : nat) (v : val) : val :=
  let l := elems v in if length l =? 1 then nth 0 l (VLeaf 0) else nth j l (VLeaf 0).
Lemma min_len_le ls : forall l, In l ls -> min_len ls <= length l.
Proof.
  destruct ls as [|l0 r]; simpl; [tauto|].
  assert (G : forall r m, fold_left Nat.min (map (@length val) r) m <= m /\
                          forall l, In l r -> fold_left Nat.min (map (@length val) r) m <= length l).
  { clear. induction r as [|x r IH]; intros m; simpl; [split; [lia|tauto]|].
    destruct (IH (Nat.min m (length x))) as [A B]. split; [lia|]. intros l [<-|H]; [lia|auto]. }
  destruct (G r (length l0)) as [A B]. intros l [<-|H]; [exact A|apply B; auto].
Qed.
Lemma min_len_const ls n : ls <> [] -> (forall l, In l ls -> length l = n) -> min_len ls = n.
Proof.
  destruct ls as [|l0 r]; [congruence|]. intros _ H. simpl.
  assert (G : forall r m, (forall l, In l r -> length l = m) -> fold_left Nat.min (map (@length val) r) m = m).
  { clear. induction r as [|x r IH]; intros m Hm; simpl; auto. rewrite (Hm x) by (simpl; auto). rewrite Nat.min_id.
    apply IH. intros l Hl. apply Hm. simpl; auto. }
  rewrite G; [apply H; simpl; auto|]. intros l Hl. rewrite (H l), (H l0); simpl; auto.
Qed.
Lemma nth_repeat_lt (x d : val) n j : j < n -> nth j (repeat x n) d = x.
Proof. revert j. induction n; intros j H; [lia|]. destruct j; simpl; auto. apply IHn. lia. Qed.
Lemma concat_repeat_single (x : val) n : concat (repeat [x] n) = repeat x n.
Proof. induction n; simpl; auto. rewrite IHn. reflexivity. Qed.
Lemma nth_map_seq {A} (g : nat -> A) n j d : j < n -> nth j (map g (seq 0 n)) d = g j.
Proof. intros H. rewrite (nth_indep _ d (g 0)) by (rewrite map_length, seq_length; auto). rewrite map_nth, seq_nth; auto. Qed.

Theorem zipper_rows vs rows : zipper vs = Some rows -> vs <> [] ->
  exists n, length rows = n /\
    (forall v, In v vs -> length (elems v) = 1 \/ length (elems v) = n) /\
    (n <> 1 -> exists v, In v vs /\ length (elems v) = n) /\
    forall j, j < n -> nth j rows [] = map (pick j) vs.
Proof.
  unfold zipper. intros Hz Hne. rewrite (lens_cases vs Hne) in Hz.
  pose proof (fun a => in_D a vs) as HD.
  assert (Hlen : forall v, In v vs -> In (length (elems v)) (lengths vs)).
  { intros v Hv. unfold lengths. apply (in_map (fun v => length (elems v))); auto. }
  assert (Hcases : exists n, Some rows = Some (zip_rows (if 1 <? n then map (fun l => if length l =? 1 then concat (repeat l n) else l) (map elems vs) else map elems vs)) /\
            (forall v, In v vs -> length (elems v) = 1 \/ length (elems v) = n) /\
            (n <> 1 -> exists v, In v vs /\ length (elems v) = n)).
  { destruct (nodup_nat (filter ne1 (lengths vs))) as [|a [|b r]] eqn:E; [| |discriminate].
    - exists 1. split; [auto|]. split; [|congruence]. intros v Hv. left.
      destruct (Nat.eq_dec (length (elems v)) 1); auto. exfalso. apply (proj2 (HD (length (elems v)))); auto.
    - exists a. split; [auto|]. split.
      + intros v Hv. destruct (Nat.eq_dec (length (elems v)) 1); auto. right.
        assert (In (length (elems v)) [a]) by (apply HD; auto). simpl in *. lia.
      + intros _. assert (Ha : In a [a]) by (simpl; auto). apply HD in Ha. destruct Ha as [Ha _].
        unfold lengths in Ha. apply in_map_iff in Ha. destruct Ha as [v [Hv Hin]]. exists v. auto. }
  clear Hz. destruct Hcases as [n [Hrows [HA HB]]]. injection Hrows as Hr. exists n.
  set (ls' := if 1 <? n then _ else _) in *.
  assert (Hmin : min_len ls' = n).
  { unfold ls'. destruct (1 <? n) eqn:E1.
    - apply Nat.ltb_lt in E1. apply min_len_const; [destruct vs; [congruence|discriminate]|].
      intros l Hl. rewrite map_map in Hl. apply in_map_iff in Hl. destruct Hl as [v [<- Hv]].
      destruct (HA v Hv) as [H1|Hn].
      + rewrite H1. simpl. destruct (elems v) as [|x [|y r]]; simpl in H1; try lia.
        rewrite concat_repeat_single, repeat_length. reflexivity.
      + replace (length (elems v) =? 1) with false by (symmetry; apply Nat.eqb_neq; lia). auto.
    - apply Nat.ltb_ge in E1. destruct (Nat.eq_dec n 1) as [->|Hn1].
      + apply min_len_const; [destruct vs; [congruence|discriminate]|]. intros l Hl. apply in_map_iff in Hl.
        destruct Hl as [v [<- Hv]]. destruct (HA v Hv); auto.
      + assert (n = 0) by lia. subst. destruct (HB Hn1) as [v [Hv H0]].
        pose proof (min_len_le (map elems vs) (elems v) (in_map elems vs v Hv)). lia. }
  split; [|split; [auto|split; [auto|]]].
  - rewrite Hr. unfold zip_rows. rewrite map_length, seq_length. auto.
  - intros j Hj. rewrite Hr. unfold zip_rows. rewrite Hmin. rewrite (nth_map_seq _ n j []) by auto.
    unfold ls'. destruct (1 <? n) eqn:E1.
    + rewrite !map_map. apply map_ext_in. intros v Hv. unfold pick. destruct (HA v Hv) as [H1|Hn].
      * rewrite H1. simpl. destruct (elems v) as [|x [|y r]]; simpl in H1; try lia.
        rewrite concat_repeat_single. simpl. apply nth_repeat_lt; auto.
      * apply Nat.ltb_lt in E1. replace (length (elems v) =? 1) with false by (symmetry; apply Nat.eqb_neq; lia). reflexivity.
    + rewrite map_map. apply map_ext_in. intros v Hv. unfold pick. apply Nat.ltb_ge in E1.
      assert (j = 0) by lia. subst. destruct (length (elems v) =? 1); reflexivity.
Qed.

(* "everything else is broadcast" fails for a companion of another length that holds sub-lists of the matching length:
   loop(list)(f)([1,2], [[1,2],[3,4],[5,6]]) hands [1,3,5] (not the companion) to the first leaf *)
Theorem broadcast_refuted :
  exists (l : list val) (i n : nat), length l <> n /\ item_by_i (VList l) i n <> VList l /\
    forall f : leaf_fun, get (wrapped f (VList [VLeaf 1; VLeaf 2]) [VList l] []) [SI i] =
                         Some (f (VLeaf 1) [VList [VLeaf 1; VLeaf 3; VLeaf 5]] []).
Proof.
  exists [VList [VLeaf 1; VLeaf 2]; VList [VLeaf 3; VLeaf 4]; VList [VLeaf 5; VLeaf 6]], 0, 2.
  split; [simpl; lia|]. split; [vm_compute; discriminate|]. intros f. reflexivity.
Qed.
