(* C07: cmp is a total preorder on all of val; insertion sort by it is a stable sort; dictable.sort. *)
From Coq Require Import ZArith List Bool Lia Permutation Sorted.
From PB Require Import model.M_sort.
Import ListNotations.
Open Scope Z_scope.

(* ------------------------------------------------------------------ induction principle for nested val *)
Section ValInd.
  Variable P : val -> Prop.
  Hypothesis HNone : P VNone.
  Hypothesis HBool : forall b, P (VBool b).
  Hypothesis HNum : forall f t, P (VNum f t).
  Hypothesis HNaN : forall i, P (VNaN i).
  Hypothesis HInf : forall b, P (VInf b).
  Hypothesis HStr : forall s, P (VStr s).
  Hypothesis HDate : forall u, P (VDate u).
  Hypothesis HTuple : forall l, Forall P l -> P (VTuple l).
  Hypothesis HList : forall l, Forall P l -> P (VList l).
  Hypothesis HDict : forall items, Forall (fun kv => P (snd kv)) items -> P (VDict items).
  Fixpoint val_ind' (v : val) : P v :=
    match v with
    | VNone => HNone | VBool b => HBool b | VNum f t => HNum f t | VNaN i => HNaN i | VInf b => HInf b
    | VStr s => HStr s | VDate u => HDate u
    | VTuple l => HTuple l ((fix go (l : list val) : Forall P l :=
                               match l with [] => Forall_nil _ | x :: l' => Forall_cons _ (val_ind' x) (go l') end) l)
    | VList l => HList l ((fix go (l : list val) : Forall P l :=
                               match l with [] => Forall_nil _ | x :: l' => Forall_cons _ (val_ind' x) (go l') end) l)
    | VDict items => HDict items ((fix go (l : list (list N * val)) : Forall (fun kv => P (snd kv)) l :=
                               match l with [] => Forall_nil _ | kv :: l' => Forall_cons _ (val_ind' (snd kv)) (go l') end) items)
    end.
End ValInd.

(* ------------------------------------------------------------------ laws of three-valued comparisons *)
(* on the three results c x y, c y z, c x z: Eq is a congruence on both sides and Lt is transitive *)
Definition TRv (xy yz xz : comparison) : Prop :=
  (xy = Eq -> xz = yz) /\ (xy = Lt -> yz = Lt -> xz = Lt) /\ (yz = Eq -> xz = xy).
Definition TR {A} (c : A -> A -> comparison) (x y z : A) : Prop := TRv (c x y) (c y z) (c x z).
Definition AS {A} (c : A -> A -> comparison) (x y : A) : Prop := c y x = CompOpp (c x y).

Lemma thenc_TRv xy yz xz xy' yz' xz' :
  TRv xy yz xz -> (xy = Eq -> yz = Eq -> TRv xy' yz' xz') -> TRv (thenc xy xy') (thenc yz yz') (thenc xz xz').
Proof.
  unfold TRv. intros [A1 [A2 A3]] H.
  destruct xy, yz; cbn [thenc];
    try (specialize (A1 eq_refl)); try (specialize (A3 eq_refl)); try (specialize (A2 eq_refl eq_refl));
    try (specialize (H eq_refl eq_refl)); subst; cbn [thenc];
    repeat split; intros; try congruence; try tauto.
Qed.

Lemma thenc_AS xy yx xy' yx' :
  yx = CompOpp xy -> (xy = Eq -> yx' = CompOpp xy') -> thenc yx yx' = CompOpp (thenc xy xy').
Proof. intros -> H. destruct xy; cbn; auto. Qed.

Lemma Zcompare_TRv a b c : TRv (Z.compare a b) (Z.compare b c) (Z.compare a c).
Proof.
  unfold TRv. repeat split; intros.
  - apply Z.compare_eq in H. subst. reflexivity.
  - rewrite Z.compare_lt_iff in *. lia.
  - apply Z.compare_eq in H. subst. reflexivity.
Qed.
Lemma Ncompare_TRv a b c : TRv (N.compare a b) (N.compare b c) (N.compare a c).
Proof.
  unfold TRv. repeat split; intros.
  - apply N.compare_eq in H. subst. reflexivity.
  - rewrite N.compare_lt_iff in *. lia.
  - apply N.compare_eq in H. subst. reflexivity.
Qed.
Lemma TRv_Eq : TRv Eq Eq Eq.
Proof. unfold TRv. tauto. Qed.

Lemma cmp_ext_TRv a b c : TRv (cmp_ext a b) (cmp_ext b c) (cmp_ext a c).
Proof.
  destruct a as [a|], b as [b|], c as [c|]; cbn [cmp_ext]; try apply Zcompare_TRv;
    unfold TRv; repeat split; intros; try congruence.
Qed.
Lemma cmp_ext_AS a b : cmp_ext b a = CompOpp (cmp_ext a b).
Proof. destruct a, b; cbn; auto. apply Z.compare_antisym. Qed.
Lemma cmp_ext_refl a : cmp_ext a a = Eq.
Proof. destruct a; cbn; auto. apply Z.compare_refl. Qed.

Lemma cmp_str_TR a : forall b c, TR cmp_str a b c.
Proof.
  unfold TR. induction a as [|x a IH]; destruct b as [|y b]; destruct c as [|z c]; cbn [cmp_str];
    try (unfold TRv; repeat split; intros; congruence).
  apply (thenc_TRv (N.compare x y) (N.compare y z) (N.compare x z) (cmp_str a b) (cmp_str b c) (cmp_str a c)); [apply Ncompare_TRv | intros; apply IH].
Qed.
Lemma cmp_str_AS a : forall b, AS cmp_str a b.
Proof.
  unfold AS. induction a as [|x a IH]; destruct b as [|y b]; cbn [cmp_str]; auto.
  apply (thenc_AS (N.compare x y) (N.compare y x) (cmp_str a b) (cmp_str b a)); [apply N.compare_antisym | intros; apply IH].
Qed.
Lemma cmp_str_refl a : cmp_str a a = Eq.
Proof. induction a; cbn; auto. rewrite N.compare_refl. auto. Qed.
Lemma cmp_str_eq a : forall b, cmp_str a b = Eq -> a = b.
Proof.
  induction a as [|x a IH]; destruct b as [|y b]; cbn [cmp_str]; try congruence.
  destruct (N.compare x y) eqn:E; cbn [thenc]; try congruence. apply N.compare_eq in E. intros H. f_equal; auto.
Qed.

(* cmparr over zip *)
Lemma lexp_TR {A B} (p : A -> B) (c : B -> B -> comparison) : forall a b d,
  length a = length b -> length b = length d ->
  Forall (fun x => forall y z, TR c (p x) y z) a -> TR (lexp p c) a b d.
Proof.
  unfold TR. induction a as [|x a IH]; destruct b as [|y b]; destruct d as [|z d]; cbn [lexp length]; try discriminate;
    intros L1 L2 F; try apply TRv_Eq.
  inversion F; subst.
  apply (thenc_TRv (c (p x) (p y)) (c (p y) (p z)) (c (p x) (p z)) (lexp p c a b) (lexp p c b d) (lexp p c a d)); [apply H1 | intros; apply IH; auto].
Qed.
Lemma lexp_AS {A B} (p : A -> B) (c : B -> B -> comparison) : forall a b,
  Forall (fun x => forall y, AS c (p x) y) a -> AS (lexp p c) a b.
Proof.
  unfold AS. induction a as [|x a IH]; destruct b as [|y b]; cbn [lexp]; auto. intros F. inversion F; subst.
  apply (thenc_AS (c (p x) (p y)) (c (p y) (p x)) (lexp p c a b) (lexp p c b a)); [apply H1 | intros; apply IH; auto].
Qed.
Lemma lexp_refl {A B} (p : A -> B) (c : B -> B -> comparison) : forall a,
  Forall (fun x => c (p x) (p x) = Eq) a -> lexp p c a a = Eq.
Proof. induction a; cbn; auto. intros F. inversion F; subst. rewrite H1. cbn. auto. Qed.

(* ------------------------------------------------------------------ cmpn *)
Definition cmpn_body (x y : val) : comparison :=
  match x, y with
  | VTuple a, VTuple b => lexz cmpn a b
  | VList a, VList b => lexz cmpn a b
  | VDict a, VDict b => thenc (lexp fst cmp_str a b) (lexp snd cmpn a b)
  | _, _ => body_scalar x y
  end.
Lemma cmpn_eq x y : cmpn x y = thenc (Z.compare (rank x) (rank y)) (thenc (Z.compare (len0 x) (len0 y)) (cmpn_body x y)).
Proof. destruct x; reflexivity. Qed.

Lemma len_eq {A B} (a : list A) (b : list B) : Z.compare (Z.of_nat (length a)) (Z.of_nat (length b)) = Eq -> length a = length b.
Proof. intros H. apply Z.compare_eq in H. lia. Qed.

Lemma cmpn_TR x : forall y z, TR cmpn x y z.
Proof.
  induction x using val_ind'; intros y z; unfold TR; rewrite !cmpn_eq;
    (apply thenc_TRv; [apply Zcompare_TRv | intros R1 R2]);
    (apply thenc_TRv; [apply Zcompare_TRv | intros L1 L2]);
    destruct y; try discriminate R1; destruct z; try discriminate R2;
    cbn [cmpn_body body_scalar numkey];
    try apply TRv_Eq; try apply Zcompare_TRv; try apply cmp_ext_TRv; try apply cmp_str_TR.
  - apply (lexp_TR (fun x => x) cmpn); [apply (len_eq _ _ L1) | apply (len_eq _ _ L2) | exact H].
  - apply (lexp_TR (fun x => x) cmpn); [apply (len_eq _ _ L1) | apply (len_eq _ _ L2) | exact H].
  - apply thenc_TRv; [| intros _ _].
    + apply (lexp_TR fst cmp_str); [apply (len_eq _ _ L1) | apply (len_eq _ _ L2) |].
      apply Forall_forall. intros kv _ a b. apply cmp_str_TR.
    + apply (lexp_TR snd cmpn); [apply (len_eq _ _ L1) | apply (len_eq _ _ L2) | exact H].
Qed.

Lemma cmpn_AS x : forall y, AS cmpn x y.
Proof.
  induction x using val_ind'; intros y; unfold AS; rewrite !cmpn_eq;
    (apply thenc_AS; [apply Z.compare_antisym | intros R1]);
    (apply thenc_AS; [apply Z.compare_antisym | intros L1]);
    destruct y; try discriminate R1;
    cbn [cmpn_body body_scalar numkey];
    try reflexivity; try apply Z.compare_antisym; try apply cmp_ext_AS; try apply cmp_str_AS.
  - apply (lexp_AS (fun x => x) cmpn). exact H.
  - apply (lexp_AS (fun x => x) cmpn). exact H.
  - apply thenc_AS; [| intros _].
    + apply (lexp_AS fst cmp_str). apply Forall_forall. intros kv _ b. apply cmp_str_AS.
    + apply (lexp_AS snd cmpn). exact H.
Qed.

Lemma cmpn_refl x : cmpn x x = Eq.
Proof.
  induction x using val_ind'; rewrite cmpn_eq, !Z.compare_refl; cbn [thenc cmpn_body body_scalar numkey];
    try reflexivity; try apply Z.compare_refl; try apply cmp_str_refl.
  - apply (lexp_refl (fun x => x) cmpn). exact H.
  - apply (lexp_refl (fun x => x) cmpn). exact H.
  - rewrite (lexp_refl fst cmp_str); [cbn; apply (lexp_refl snd cmpn); exact H |].
    apply Forall_forall. intros. apply cmp_str_refl.
Qed.

(* ------------------------------------------------------------------ cmp : val -> val -> Z *)
Lemma cmp_range x y : cmp x y = -1 \/ cmp x y = 0 \/ cmp x y = 1.
Proof. unfold cmp. destruct (cmpc x y); cbn; auto. Qed.
Lemma cmp_refl x : cmp x x = 0.
Proof. unfold cmp, cmpc. rewrite cmpn_refl. reflexivity. Qed.
Lemma cmp_antisym x y : cmp x y = - cmp y x.
Proof. unfold cmp, cmpc. rewrite (cmpn_AS (norm y) (norm x)). destruct (cmpn (norm y) (norm x)); reflexivity. Qed.

Lemma cmp_eq_compat_l x y z : cmp x y = 0 -> cmp x z = cmp y z.
Proof.
  unfold cmp, cmpc. destruct (cmpn_TR (norm x) (norm y) (norm z)) as [T1 _].
  destruct (cmpn (norm x) (norm y)); cbn; try discriminate. intros _. rewrite T1; auto.
Qed.
Lemma cmp_eq_compat_r x y z : cmp y z = 0 -> cmp x z = cmp x y.
Proof.
  unfold cmp, cmpc. destruct (cmpn_TR (norm x) (norm y) (norm z)) as [_ [_ T3]].
  destruct (cmpn (norm y) (norm z)); cbn; try discriminate. intros _. rewrite T3; auto.
Qed.
Lemma cmp_lt_trans x y z : cmp x y = -1 -> cmp y z = -1 -> cmp x z = -1.
Proof.
  unfold cmp, cmpc. destruct (cmpn_TR (norm x) (norm y) (norm z)) as [_ [T2 _]].
  destruct (cmpn (norm x) (norm y)); cbn; try discriminate.
  destruct (cmpn (norm y) (norm z)); cbn; try discriminate. intros _ _. rewrite T2; auto.
Qed.
(* every combination: the sign of cmp x z is forced by the signs of cmp x y and cmp y z whenever they do not point in opposite directions *)
Lemma cmp_trans x y z : cmp x y <= 0 -> cmp y z <= 0 -> cmp x z <= 0.
Proof.
  intros H1 H2.
  destruct (cmp_range x y) as [A|[A|A]]; try lia; destruct (cmp_range y z) as [B|[B|B]]; try lia.
  - rewrite (cmp_lt_trans x y z A B). lia.
  - rewrite (cmp_eq_compat_r x y z B). lia.
  - rewrite (cmp_eq_compat_l x y z A). lia.
  - rewrite (cmp_eq_compat_l x y z A). lia.
Qed.
Lemma cmp_lt_le_trans x y z : cmp x y < 0 -> cmp y z <= 0 -> cmp x z < 0.
Proof.
  intros H1 H2.
  destruct (cmp_range x y) as [A|[A|A]]; try lia; destruct (cmp_range y z) as [B|[B|B]]; try lia.
  - rewrite (cmp_lt_trans x y z A B). lia.
  - rewrite (cmp_eq_compat_r x y z B). lia.
Qed.
Lemma cmp_le_lt_trans x y z : cmp x y <= 0 -> cmp y z < 0 -> cmp x z < 0.
Proof.
  intros H1 H2.
  destruct (cmp_range x y) as [A|[A|A]]; try lia; destruct (cmp_range y z) as [B|[B|B]]; try lia.
  - rewrite (cmp_lt_trans x y z A B). lia.
  - rewrite (cmp_eq_compat_l x y z A). lia.
Qed.
Lemma cmp_total x y : cmp x y <= 0 \/ cmp y x <= 0.
Proof. rewrite (cmp_antisym y x). destruct (cmp_range x y) as [A|[A|A]]; lia. Qed.

Lemma cmp_int_float f g t : cmp (VNum f t) (VNum g t) = 0.
Proof. unfold cmp, cmpc. cbn. rewrite Z.compare_refl. reflexivity. Qed.
Lemma cmp_nan_above_finite i f t : cmp (VNaN i) (VNum f t) = 1 /\ cmp (VNum f t) (VNaN i) = -1.
Proof. split; reflexivity. Qed.
Lemma cmp_nan_nan i j : cmp (VNaN i) (VNaN j) = 0.
Proof. reflexivity. Qed.
Lemma cmp_num f g a b : cmp (VNum f a) (VNum g b) = c2z (Z.compare a b).
Proof. reflexivity. Qed.
Lemma cmp_none_smallest v : v <> VNone -> cmp VNone v = -1.
Proof. destruct v; try congruence; intros _; reflexivity. Qed.
