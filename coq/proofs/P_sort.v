(* C07: cmp is a total preorder on all of val; insertion sort by it is a stable sort; dictable.sort. *)
From Coq Require Import ZArith List Bool Lia Permutation Sorted.
From PB Require Import model.M_sort.
Import ListNotations.
Open Scope Z_scope.

(* ------------------------------------------------------------------ induction principle for nested val *)
Section ValInd.
  Variable P : val -> Prop.
  Hypothesis HNone : P VNone.
  Hypothesis HBool : forall b, P (VBool b).
  Hypothesis HNum : forall f t, P (VNum f t).
  Hypothesis HNaN : forall i, P (VNaN i).
  Hypothesis HInf : forall b, P (VInf b).
  Hypothesis HStr : forall s, P (VStr s).
  Hypothesis HDate : forall u, P (VDate u).
  Hypothesis HTuple : forall l, Forall P l -> P (VTuple l).
  Hypothesis HList : forall l, Forall P l -> P (VList l).
  Hypothesis HDict : forall items, Forall (fun kv => P (fst kv) /\ P (snd kv)) items -> P (VDict items).
  Fixpoint val_ind' (v : val) : P v :=
    match v with
    | VNone => HNone | VBool b => HBool b | VNum f t => HNum f t | VNaN i => HNaN i | VInf b => HInf b
    | VStr s => HStr s | VDate u => HDate u
    | VTuple l => HTuple l ((fix go (l : list val) : Forall P l :=
                               match l with [] => Forall_nil _ | x :: l' => Forall_cons _ (val_ind' x) (go l') end) l)
    | VList l => HList l ((fix go (l : list val) : Forall P l :=
                               match l with [] => Forall_nil _ | x :: l' => Forall_cons _ (val_ind' x) (go l') end) l)
    | VDict items => HDict items ((fix go (l : list (val * val)) : Forall (fun kv => P (fst kv) /\ P (snd kv)) l :=
                               match l with [] => Forall_nil _ | kv :: l' => Forall_cons _ (conj (val_ind' (fst kv)) (val_ind' (snd kv))) (go l') end) items)
    end.
End ValInd.

(* ------------------------------------------------------------------ laws of three-valued comparisons *)
(* on the three results c x y, c y z, c x z: Eq is a congruence on both sides and Lt is transitive *)
Definition TRv (xy yz xz : comparison) : Prop :=
  (xy = Eq -> xz = yz) /\ (xy = Lt -> yz = Lt -> xz = Lt) /\ (yz = Eq -> xz = xy).
Definition TR {A} (c : A -> A -> comparison) (x y z : A) : Prop := TRv (c x y) (c y z) (c x z).
Definition AS {A} (c : A -> A -> comparison) (x y : A) : Prop := c y x = CompOpp (c x y).

Lemma thenc_TRv xy yz xz xy' yz' xz' :
  TRv xy yz xz -> (xy = Eq -> yz = Eq -> TRv xy' yz' xz') -> TRv (thenc xy xy') (thenc yz yz') (thenc xz xz').
Proof.
  unfold TRv. intros [A1 [A2 A3]] H.
  destruct xy, yz; cbn [thenc];
    try (specialize (A1 eq_refl)); try (specialize (A3 eq_refl)); try (specialize (A2 eq_refl eq_refl));
    try (specialize (H eq_refl eq_refl)); subst; cbn [thenc];
    repeat split; intros; try congruence; try tauto.
Qed.

Lemma thenc_AS xy yx xy' yx' :
  yx = CompOpp xy -> (xy = Eq -> yx' = CompOpp xy') -> thenc yx yx' = CompOpp (thenc xy xy').
Proof. intros -> H. destruct xy; cbn; auto. Qed.

Lemma Zcompare_TRv a b c : TRv (Z.compare a b) (Z.compare b c) (Z.compare a c).
Proof.
  unfold TRv. repeat split; intros.
  - apply Z.compare_eq in H. subst. reflexivity.
  - rewrite Z.compare_lt_iff in *. lia.
  - apply Z.compare_eq in H. subst. reflexivity.
Qed.
Lemma Ncompare_TRv a b c : TRv (N.compare a b) (N.compare b c) (N.compare a c).
Proof.
  unfold TRv. repeat split; intros.
  - apply N.compare_eq in H. subst. reflexivity.
  - rewrite N.compare_lt_iff in *. lia.
  - apply N.compare_eq in H. subst. reflexivity.
Qed.
Lemma TRv_Eq : TRv Eq Eq Eq.
Proof. unfold TRv. tauto. Qed.

Lemma cmp_ext_TRv a b c : TRv (cmp_ext a b) (cmp_ext b c) (cmp_ext a c).
Proof.
  destruct a as [|a| |], b as [|b| |], c as [|c| |]; cbn [cmp_ext erank]; try apply Zcompare_TRv;
    unfold TRv; cbn; repeat split; intros; try congruence; try reflexivity.
Qed.
Lemma cmp_ext_AS a b : cmp_ext b a = CompOpp (cmp_ext a b).
Proof. destruct a, b; cbn; auto. apply Z.compare_antisym. Qed.
Lemma cmp_ext_refl a : cmp_ext a a = Eq.
Proof. destruct a; cbn; auto. apply Z.compare_refl. Qed.

Lemma cmp_str_TR a : forall b c, TR cmp_str a b c.
Proof.
  unfold TR. induction a as [|x a IH]; destruct b as [|y b]; destruct c as [|z c]; cbn [cmp_str];
    try (unfold TRv; repeat split; intros; congruence).
  apply (thenc_TRv (N.compare x y) (N.compare y z) (N.compare x z) (cmp_str a b) (cmp_str b c) (cmp_str a c)); [apply Ncompare_TRv | intros; apply IH].
Qed.
Lemma cmp_str_AS a : forall b, AS cmp_str a b.
Proof.
  unfold AS. induction a as [|x a IH]; destruct b as [|y b]; cbn [cmp_str]; auto.
  apply (thenc_AS (N.compare x y) (N.compare y x) (cmp_str a b) (cmp_str b a)); [apply N.compare_antisym | intros; apply IH].
Qed.
Lemma cmp_str_refl a : cmp_str a a = Eq.
Proof. induction a; cbn; auto. rewrite N.compare_refl. auto. Qed.
Lemma cmp_str_eq a : forall b, cmp_str a b = Eq -> a = b.
Proof.
  induction a as [|x a IH]; destruct b as [|y b]; cbn [cmp_str]; try congruence.
  destruct (N.compare x y) eqn:E; cbn [thenc]; try congruence. apply N.compare_eq in E. intros H. f_equal; auto.
Qed.

(* cmparr over zip *)
Lemma lexp_TR {A B} (p : A -> B) (c : B -> B -> comparison) : forall a b d,
  length a = length b -> length b = length d ->
  Forall (fun x => forall y z, TR c (p x) y z) a -> TR (lexp p c) a b d.
Proof.
  unfold TR. induction a as [|x a IH]; destruct b as [|y b]; destruct d as [|z d]; cbn [lexp length]; try discriminate;
    intros L1 L2 F; try apply TRv_Eq.
  inversion F; subst.
  apply (thenc_TRv (c (p x) (p y)) (c (p y) (p z)) (c (p x) (p z)) (lexp p c a b) (lexp p c b d) (lexp p c a d)); [apply H1 | intros; apply IH; auto].
Qed.
Lemma lexp_AS {A B} (p : A -> B) (c : B -> B -> comparison) : forall a b,
  Forall (fun x => forall y, AS c (p x) y) a -> AS (lexp p c) a b.
Proof.
  unfold AS. induction a as [|x a IH]; destruct b as [|y b]; cbn [lexp]; auto. intros F. inversion F; subst.
  apply (thenc_AS (c (p x) (p y)) (c (p y) (p x)) (lexp p c a b) (lexp p c b a)); [apply H1 | intros; apply IH; auto].
Qed.
Lemma lexp_refl {A B} (p : A -> B) (c : B -> B -> comparison) : forall a,
  Forall (fun x => c (p x) (p x) = Eq) a -> lexp p c a a = Eq.
Proof. induction a; cbn; auto. intros F. inversion F; subst. rewrite H1. cbn. auto. Qed.

(* ------------------------------------------------------------------ cmpn *)
Definition cmpn_body (x y : val) : comparison :=
  match x, y with
  | VTuple a, VTuple b => lexz cmpn a b
  | VList a, VList b => lexz cmpn a b
  | VDict a, VDict b => thenc (lexp fst cmpn a b) (lexp snd cmpn a b)
  | _, _ => body_scalar x y
  end.
Lemma cmpn_eq x y : cmpn x y = thenc (Z.compare (rank x) (rank y)) (thenc (Z.compare (len0 x) (len0 y)) (cmpn_body x y)).
Proof. destruct x; reflexivity. Qed.

Lemma len_eq {A B} (a : list A) (b : list B) : Z.compare (Z.of_nat (length a)) (Z.of_nat (length b)) = Eq -> length a = length b.
Proof. intros H. apply Z.compare_eq in H. lia. Qed.

Lemma cmpn_TR x : forall y z, TR cmpn x y z.
Proof.
  induction x using val_ind'; intros y z; unfold TR; rewrite !cmpn_eq;
    (apply thenc_TRv; [apply Zcompare_TRv | intros R1 R2]);
    (apply thenc_TRv; [apply Zcompare_TRv | intros L1 L2]);
    destruct y; try discriminate R1; destruct z; try discriminate R2;
    cbn [cmpn_body body_scalar numkey];
    try apply TRv_Eq; try apply Zcompare_TRv; try apply cmp_ext_TRv; try apply cmp_str_TR.
  - apply (lexp_TR (fun x => x) cmpn); [apply (len_eq _ _ L1) | apply (len_eq _ _ L2) | exact H].
  - apply (lexp_TR (fun x => x) cmpn); [apply (len_eq _ _ L1) | apply (len_eq _ _ L2) | exact H].
  - apply thenc_TRv; [| intros _ _].
    + apply (lexp_TR fst cmpn); [apply (len_eq _ _ L1) | apply (len_eq _ _ L2) |].
      eapply Forall_impl; [|exact H]. intros kv [Hk _]. exact Hk.
    + apply (lexp_TR snd cmpn); [apply (len_eq _ _ L1) | apply (len_eq _ _ L2) |].
      eapply Forall_impl; [|exact H]. intros kv [_ Hv]. exact Hv.
Qed.

Lemma cmpn_AS x : forall y, AS cmpn x y.
Proof.
  induction x using val_ind'; intros y; unfold AS; rewrite !cmpn_eq;
    (apply thenc_AS; [apply Z.compare_antisym | intros R1]);
    (apply thenc_AS; [apply Z.compare_antisym | intros L1]);
    destruct y; try discriminate R1;
    cbn [cmpn_body body_scalar numkey];
    try reflexivity; try apply Z.compare_antisym; try apply cmp_ext_AS; try apply cmp_str_AS.
  - apply (lexp_AS (fun x => x) cmpn). exact H.
  - apply (lexp_AS (fun x => x) cmpn). exact H.
  - apply thenc_AS; [| intros _].
    + apply (lexp_AS fst cmpn). eapply Forall_impl; [|exact H]. intros kv [Hk _]. exact Hk.
    + apply (lexp_AS snd cmpn). eapply Forall_impl; [|exact H]. intros kv [_ Hv]. exact Hv.
Qed.

Lemma cmpn_refl x : cmpn x x = Eq.
Proof.
  induction x using val_ind'; rewrite cmpn_eq, !Z.compare_refl; cbn [thenc cmpn_body body_scalar numkey];
    try reflexivity; try apply Z.compare_refl; try apply cmp_str_refl; try apply cmp_ext_refl.
  - apply (lexp_refl (fun x => x) cmpn). exact H.
  - apply (lexp_refl (fun x => x) cmpn). exact H.
  - rewrite (lexp_refl fst cmpn); [cbn; apply (lexp_refl snd cmpn); eapply Forall_impl; [|exact H]; intros kv [_ Hv]; exact Hv |].
    eapply Forall_impl; [|exact H]. intros kv [Hk _]. exact Hk.
Qed.

(* ------------------------------------------------------------------ cmp : val -> val -> Z *)
Lemma cmp_range x y : cmp x y = -1 \/ cmp x y = 0 \/ cmp x y = 1.
Proof. unfold cmp. destruct (cmpc x y); cbn; auto. Qed.
Lemma cmp_refl x : cmp x x = 0.
Proof. unfold cmp, cmpc. rewrite cmpn_refl. reflexivity. Qed.
Lemma cmp_antisym x y : cmp x y = - cmp y x.
Proof. unfold cmp, cmpc. rewrite (cmpn_AS (norm y) (norm x)). destruct (cmpn (norm y) (norm x)); reflexivity. Qed.

Lemma cmp_eq_compat_l x y z : cmp x y = 0 -> cmp x z = cmp y z.
Proof.
  unfold cmp, cmpc. destruct (cmpn_TR (norm x) (norm y) (norm z)) as [T1 _].
  destruct (cmpn (norm x) (norm y)); cbn; try discriminate. intros _. rewrite T1; auto.
Qed.
Lemma cmp_eq_compat_r x y z : cmp y z = 0 -> cmp x z = cmp x y.
Proof.
  unfold cmp, cmpc. destruct (cmpn_TR (norm x) (norm y) (norm z)) as [_ [_ T3]].
  destruct (cmpn (norm y) (norm z)); cbn; try discriminate. intros _. rewrite T3; auto.
Qed.
Lemma cmp_lt_trans x y z : cmp x y = -1 -> cmp y z = -1 -> cmp x z = -1.
Proof.
  unfold cmp, cmpc. destruct (cmpn_TR (norm x) (norm y) (norm z)) as [_ [T2 _]].
  destruct (cmpn (norm x) (norm y)); cbn; try discriminate.
  destruct (cmpn (norm y) (norm z)); cbn; try discriminate. intros _ _. rewrite T2; auto.
Qed.
(* every combination: the sign of cmp x z is forced by the signs of cmp x y and cmp y z whenever they do not point in opposite directions *)
Lemma cmp_trans x y z : cmp x y <= 0 -> cmp y z <= 0 -> cmp x z <= 0.
Proof.
  intros H1 H2.
  destruct (cmp_range x y) as [A|[A|A]]; try lia; destruct (cmp_range y z) as [B|[B|B]]; try lia.
  - rewrite (cmp_lt_trans x y z A B). lia.
  - rewrite (cmp_eq_compat_r x y z B). lia.
  - rewrite (cmp_eq_compat_l x y z A). lia.
  - rewrite (cmp_eq_compat_l x y z A). lia.
Qed.
Lemma cmp_lt_le_trans x y z : cmp x y < 0 -> cmp y z <= 0 -> cmp x z < 0.
Proof.
  intros H1 H2.
  destruct (cmp_range x y) as [A|[A|A]]; try lia; destruct (cmp_range y z) as [B|[B|B]]; try lia.
  - rewrite (cmp_lt_trans x y z A B). lia.
  - rewrite (cmp_eq_compat_r x y z B). lia.
Qed.
Lemma cmp_le_lt_trans x y z : cmp x y <= 0 -> cmp y z < 0 -> cmp x z < 0.
Proof.
  intros H1 H2.
  destruct (cmp_range x y) as [A|[A|A]]; try lia; destruct (cmp_range y z) as [B|[B|B]]; try lia.
  - rewrite (cmp_lt_trans x y z A B). lia.
  - rewrite (cmp_eq_compat_l x y z A). lia.
Qed.
Lemma cmp_total x y : cmp x y <= 0 \/ cmp y x <= 0.
Proof. rewrite (cmp_antisym y x). destruct (cmp_range x y) as [A|[A|A]]; lia. Qed.

Lemma cmp_int_float f g t : cmp (VNum f t) (VNum g t) = 0.
Proof. unfold cmp, cmpc. cbn. rewrite Z.compare_refl. reflexivity. Qed.
Lemma cmp_nan_above_finite i f t : cmp (VNaN i) (VNum f t) = 1 /\ cmp (VNum f t) (VNaN i) = -1.
Proof. split; reflexivity. Qed.
(* NaN ranks above +inf and -inf as well; -inf < every finite number < +inf; an infinity equals itself only *)
Lemma cmp_nan_above_inf i b : cmp (VNaN i) (VInf b) = 1 /\ cmp (VInf b) (VNaN i) = -1.
Proof. destruct b; split; reflexivity. Qed.
Lemma cmp_inf_order f t : cmp (VInf true) (VNum f t) = -1 /\ cmp (VNum f t) (VInf false) = -1 /\ cmp (VInf true) (VInf false) = -1 /\
  cmp (VInf false) (VInf false) = 0 /\ cmp (VInf true) (VInf true) = 0.
Proof. repeat split; reflexivity. Qed.
Lemma cmp_nan_nan i j : cmp (VNaN i) (VNaN j) = 0.
Proof. reflexivity. Qed.
Lemma cmp_num f g a b : cmp (VNum f a) (VNum g b) = c2z (Z.compare a b).
Proof. reflexivity. Qed.
Lemma cmp_none_smallest v : v <> VNone -> cmp VNone v = -1.
Proof. destruct v; try congruence; intros _; reflexivity. Qed.

(* ------------------------------------------------------------------ insertion sort *)
Section ISortP.
  Context {A : Type} (le : A -> A -> bool).
  Let R := fun a b => le a b = true.
  Lemma insert_perm x l : Permutation (insert le x l) (x :: l).
  Proof.
    induction l as [|y l IH]; cbn; auto. destruct (le x y); auto.
    eapply perm_trans; [apply perm_skip, IH | apply perm_swap].
  Qed.
  Lemma isort_cons x l : isort le (x :: l) = insert le x (isort le l).
  Proof. reflexivity. Qed.
  Lemma isort_perm l : Permutation (isort le l) l.
  Proof. induction l; [constructor|]. rewrite isort_cons. eapply perm_trans; [apply insert_perm | auto]. Qed.
  Lemma isort_length l : length (isort le l) = length l.
  Proof. apply Permutation_length, isort_perm. Qed.
  Lemma isort_id l : Sorted R l -> isort le l = l.
  Proof.
    induction l as [|x l IH]; [reflexivity|]. rewrite isort_cons. intros S. apply Sorted_inv in S. destruct S as [S H].
    rewrite IH by auto. destruct l as [|y l]; cbn [insert]; auto. apply HdRel_inv in H. unfold R in H. rewrite H. reflexivity.
  Qed.
  Hypothesis total : forall x y, le x y = false -> le y x = true.
  Lemma insert_sorted x l : Sorted R l -> Sorted R (insert le x l).
  Proof.
    induction l as [|y l IH]; cbn; intros S; [repeat constructor|].
    destruct (le x y) eqn:E; [constructor; auto|].
    apply Sorted_inv in S. destruct S as [S H]. constructor; [apply IH; auto|].
    destruct l as [|z l]; cbn; [constructor; apply total; auto|].
    destruct (le x z); constructor; [apply total; auto | apply HdRel_inv in H; auto].
  Qed.
  Lemma isort_sorted l : Sorted R (isort le l).
  Proof. induction l; [constructor | rewrite isort_cons; apply insert_sorted; auto]. Qed.
  Hypothesis trans : forall x y z, le x y = true -> le y z = true -> le x z = true.
  Lemma isort_ssorted l : StronglySorted R (isort le l).
  Proof. apply Sorted_StronglySorted; [intros x y z; apply trans | apply isort_sorted]. Qed.
End ISortP.

Lemma insert_map {A B} (f : A -> B) (le : B -> B -> bool) x l :
  insert le (f x) (map f l) = map f (insert (fun a b => le (f a) (f b)) x l).
Proof. induction l as [|y l IH]; cbn; auto. destruct (le (f x) (f y)); cbn; congruence. Qed.
Lemma isort_map {A B} (f : A -> B) (le : B -> B -> bool) l :
  isort le (map f l) = map f (isort (fun a b => le (f a) (f b)) l).
Proof. induction l; [reflexivity|]. cbn [map]. rewrite !isort_cons. rewrite IHl. apply insert_map. Qed.

Lemma insert_ext {A} (le le' : A -> A -> bool) x l : (forall a b, le a b = le' a b) -> insert le x l = insert le' x l.
Proof. intros H. induction l as [|y m IHm]; cbn [insert]; [reflexivity|]. rewrite H, IHm. reflexivity. Qed.
Lemma isort_ext {A} (le le' : A -> A -> bool) l : (forall a b, le a b = le' a b) -> isort le l = isort le' l.
Proof. intros H. induction l as [|x l IH]; [reflexivity|]. rewrite !isort_cons, IH. apply insert_ext, H. Qed.

Lemma cmp_le_total x y : cmp_le x y = false -> cmp_le y x = true.
Proof. unfold cmp_le. intros H. apply Z.leb_gt in H. apply Z.leb_le. rewrite cmp_antisym. lia. Qed.
Lemma cmp_le_trans x y z : cmp_le x y = true -> cmp_le y z = true -> cmp_le x z = true.
Proof. unfold cmp_le. rewrite !Z.leb_le. apply cmp_trans. Qed.

Theorem sort_perm_sorted l : Permutation (sort l) l /\ StronglySorted (fun a b => cmp a b <= 0) (sort l).
Proof.
  split; [apply isort_perm|].
  pose proof (isort_ssorted cmp_le cmp_le_total cmp_le_trans l) as S.
  unfold sort. induction S; constructor; auto.
  eapply Forall_impl; [|exact H]. intros b Hb. apply Z.leb_le. exact Hb.
Qed.
Lemma sort_sorted_id l : Sorted (fun a b => cmp a b <= 0) l -> sort l = l.
Proof.
  intros S. apply isort_id. induction S; constructor; auto.
  destruct H; constructor. apply Z.leb_le. auto.
Qed.
Lemma sort_idempotent l : sort (sort l) = sort l.
Proof. apply sort_sorted_id. apply StronglySorted_Sorted. apply sort_perm_sorted. Qed.

(* ------------------------------------------------------------------ lists indexed by position *)
Lemma map_nth_seq {X} (d : X) : forall l s, map (fun i => nth (i - s) l d) (seq s (length l)) = l.
Proof.
  induction l as [|x l IH]; intros s; cbn [length seq map]; auto. f_equal.
  - rewrite Nat.sub_diag. reflexivity.
  - rewrite <- (IH (S s)) at 2. apply map_ext_in. intros i Hi. apply in_seq in Hi.
    replace (i - s)%nat with (S (i - S s)) by lia. reflexivity.
Qed.
Lemma gather_seq {X} (d : X) l : gather d l (seq 0 (length l)) = l.
Proof.
  unfold gather. transitivity (map (fun i => nth (i - 0) l d) (seq 0 (length l))); [|apply map_nth_seq].
  apply map_ext. intros. f_equal. lia.
Qed.
Lemma combine_seq {X} (d : X) : forall l s, combine l (seq s (length l)) = map (fun i => (nth (i - s) l d, i)) (seq s (length l)).
Proof.
  induction l as [|x l IH]; intros s; cbn [length seq map combine]; auto. f_equal.
  - rewrite Nat.sub_diag. reflexivity.
  - rewrite (IH (S s)). apply map_ext_in. intros i Hi. apply in_seq in Hi.
    replace (i - s)%nat with (S (i - S s)) by lia. reflexivity.
Qed.

Lemma StronglySorted_nth {X} (R : X -> X -> Prop) d : forall l, StronglySorted R l ->
  forall p q, (p < q < length l)%nat -> R (nth p l d) (nth q l d).
Proof.
  induction 1; intros p q Hpq; cbn in Hpq; [lia|].
  destruct q; [lia|]. destruct p; cbn.
  - rewrite Forall_forall in H0. apply H0. apply nth_In. lia.
  - apply IHStronglySorted. lia.
Qed.
Lemma nth_StronglySorted {X} (R : X -> X -> Prop) d : forall l,
  (forall p q, (p < q < length l)%nat -> R (nth p l d) (nth q l d)) -> StronglySorted R l.
Proof.
  induction l as [|x l IH]; intros H; constructor.
  - apply IH. intros p q Hpq. apply (H (S p) (S q)). cbn. lia.
  - apply Forall_forall. intros y Hy. destruct (In_nth _ _ d Hy) as [q [Hq E]]. rewrite <- E.
    apply (H 0%nat (S q)). cbn. lia.
Qed.
Lemma StronglySorted_NoDup_impl {X} (R R' : X -> X -> Prop) l :
  StronglySorted R l -> NoDup l -> (forall a b, R a b -> a <> b -> R' a b) -> StronglySorted R' l.
Proof.
  induction 1; intros ND HI; constructor; inversion ND; subst; auto.
  rewrite Forall_forall in *. intros b Hb. apply HI; auto. intros ->. contradiction.
Qed.

(* ------------------------------------------------------------------ dictable.sort: decorate / sort / undecorate *)
Lemma thenc_Eq_r c : thenc c Eq = c.
Proof. destruct c; reflexivity. Qed.
Lemma cmpc_decorate k i k' i' :
  cmpc (decorate1 (k, i)) (decorate1 (k', i')) = thenc (cmpc k k') (Nat.compare i i').
Proof.
  unfold cmpc, decorate1, vidx. cbn [fst snd norm map]. rewrite cmpn_eq.
  cbn [rank len0 length cmpn_body lexz lexp]. rewrite !Z.compare_refl. cbn [thenc]. f_equal.
  rewrite cmpn_eq. cbn [rank len0 cmpn_body body_scalar numkey cmp_ext]. rewrite !Z.compare_refl. cbn [thenc].
  rewrite thenc_Eq_r. rewrite <- (Nat2Z.inj_compare i i').
  destruct (Z.compare_spec (Z.of_nat i) (Z.of_nat i')) as [E|E|E];
    [apply Z.compare_eq_iff | apply Z.compare_lt_iff | apply Z.compare_gt_iff]; lia.
Qed.
Lemma idx_of_decorate1 k i : idx_of (decorate1 (k, i)) = i.
Proof.
  unfold idx_of, decorate1, vidx. cbn [fst snd]. rewrite Z.mul_comm, Z.div_mul by lia. apply Nat2Z.id.
Qed.

(* the comparison the sort actually uses on row indices *)
Definition ile (ks : list val) (i j : nat) : bool := cmp_le (decorate1 (nth i ks VNone, i)) (decorate1 (nth j ks VNone, j)).

Lemma dsort_idx_eq ks : dsort_idx ks = isort (ile ks) (seq 0 (length ks)).
Proof.
  unfold dsort_idx, decorate, sort. rewrite (combine_seq VNone ks 0%nat). rewrite map_map.
  rewrite (isort_map (fun i => decorate1 (nth (i - 0) ks VNone, i)) cmp_le). rewrite map_map.
  erewrite map_ext; [rewrite map_id|intros; apply idx_of_decorate1].
  apply isort_ext. intros a b. unfold ile. rewrite !Nat.sub_0_r. reflexivity.
Qed.

Lemma ile_spec ks i j : ile ks i j = true <-> (key_lt ks i j \/ (cmp (nth i ks VNone) (nth j ks VNone) = 0 /\ i = j)).
Proof.
  unfold ile, cmp_le, key_lt, cmp. rewrite cmpc_decorate, Z.leb_le.
  destruct (cmpc (nth i ks VNone) (nth j ks VNone)); cbn [thenc c2z].
  - destruct (Nat.compare_spec i j); cbn; split; intros; try lia.
  - split; intros; lia.
  - split; intros; lia.
Qed.
Lemma ile_total ks i j : ile ks i j = false -> ile ks j i = true.
Proof. apply cmp_le_total. Qed.
Lemma ile_trans ks i j k : ile ks i j = true -> ile ks j k = true -> ile ks i k = true.
Proof. apply cmp_le_trans. Qed.

(* dictable.sort is a STABLE sort: the row indices come out as a permutation, strictly ordered by (key under cmp, original position) *)
Theorem dsort_idx_stable ks :
  Permutation (dsort_idx ks) (seq 0 (length ks)) /\ StronglySorted (key_lt ks) (dsort_idx ks).
Proof.
  rewrite dsort_idx_eq. split; [apply isort_perm|].
  apply (StronglySorted_NoDup_impl (fun a b => ile ks a b = true)).
  - apply isort_ssorted; [apply ile_total | apply ile_trans].
  - eapply Permutation_NoDup; [apply Permutation_sym, isort_perm | apply seq_NoDup].
  - intros a b H Hab. apply ile_spec in H. destruct H as [H|[_ H]]; [auto | contradiction].
Qed.
Lemma dsort_idx_length ks : length (dsort_idx ks) = length ks.
Proof. rewrite (Permutation_length (proj1 (dsort_idx_stable ks))). apply seq_length. Qed.
Lemma dsort_idx_lt ks : Forall (fun i => (i < length ks)%nat) (dsort_idx ks).
Proof.
  apply Forall_forall. intros i Hi. apply (Permutation_in _ (proj1 (dsort_idx_stable ks))) in Hi. apply in_seq in Hi. lia.
Qed.

(* keys that are already in stable order are left alone *)
Lemma dsort_idx_sorted_id ks :
  (forall p q, (p < q < length ks)%nat -> cmp (nth p ks VNone) (nth q ks VNone) <= 0) -> dsort_idx ks = seq 0 (length ks).
Proof.
  intros H. rewrite dsort_idx_eq. apply isort_id. apply StronglySorted_Sorted.
  apply (nth_StronglySorted _ 0%nat). intros p q Hpq. rewrite seq_length in Hpq. rewrite !seq_nth by lia. cbn.
  apply ile_spec. left. unfold key_lt. specialize (H p q Hpq). lia.
Qed.

(* sorting the gathered keys again gives the identity permutation *)
Lemma dsort_idx_idem ks : dsort_idx (gather VNone ks (dsort_idx ks)) = seq 0 (length ks).
Proof.
  pose proof (dsort_idx_stable ks) as [P S]. pose proof (dsort_idx_length ks) as L. pose proof (dsort_idx_lt ks) as B.
  set (idx := dsort_idx ks) in *.
  assert (LG : length (gather VNone ks idx) = length ks) by (unfold gather; rewrite map_length; auto).
  rewrite <- LG. apply dsort_idx_sorted_id. rewrite LG. intros p q Hpq.
  unfold gather. rewrite !(nth_indep (map _ idx) VNone (nth 0%nat ks VNone)) by (rewrite map_length; lia).
  rewrite !(map_nth (fun i => nth i ks VNone) idx 0%nat).
  assert (K : key_lt ks (nth p idx 0%nat) (nth q idx 0%nat)) by (apply StronglySorted_nth; auto; lia).
  unfold key_lt in K. lia.
Qed.

(* ---- tables *)
Lemma nrows_permute t idx : t <> [] -> nrows (permute t idx) = length idx.
Proof. destruct t as [|[c vs] t]; [congruence|]. intros _. cbn. unfold gather. apply map_length. Qed.
Lemma row_permute t idx j : (j < length idx)%nat -> row (permute t idx) j = row t (nth j idx 0%nat).
Proof.
  intros Hj. unfold row, permute. rewrite map_map. apply map_ext. intros [c vs]. cbn [fst snd]. f_equal.
  unfold gather. rewrite (nth_indep (map _ idx) VNone (nth (0%nat) vs VNone)) by (rewrite map_length; auto).
  apply (map_nth (fun i => nth i vs VNone)).
Qed.
Lemma rows_permute t idx : t <> [] -> rows (permute t idx) = map (row t) idx.
Proof.
  intros Ht. unfold rows. rewrite nrows_permute by auto.
  transitivity (map (row t) (map (fun i => nth (i - 0) idx 0%nat) (seq 0 (length idx)))); [|f_equal; apply map_nth_seq].
  rewrite map_map. apply map_ext_in. intros j Hj. apply in_seq in Hj.
  rewrite Nat.sub_0_r. apply row_permute. lia.
Qed.
Lemma permute_seq n t : rect n t -> permute t (seq 0 n) = t.
Proof.
  unfold rect, permute. induction 1 as [|[c vs] t H _ IH]; cbn [map]; auto. rewrite IH. cbn [fst snd] in *.
  rewrite <- H. rewrite gather_seq. reflexivity.
Qed.
Lemma rect_permute t idx : rect (length idx) (permute t idx).
Proof. unfold rect, permute. apply Forall_forall. intros cv H. apply in_map_iff in H. destruct H as [[c vs] [<- _]]. cbn. apply map_length. Qed.
Lemma nrows_pos_ne t : nrows t <> 0%nat -> t <> [].
Proof. destruct t; cbn; congruence. Qed.
Lemma keys_length (kf : arow -> val) t : length (map kf (rows t)) = nrows t.
Proof. unfold rows. rewrite map_length, map_length. apply seq_length. Qed.

(* dictable.sort: the rows of the result are the rows of t taken in stable key order *)
Theorem dsort_with_stable kf t :
  let ks := map kf (rows t) in
  exists idx, Permutation idx (seq 0 (nrows t)) /\ StronglySorted (key_lt ks) idx /\
              rows (dsort_with kf t) = map (row t) idx /\ (nrows t <> 0%nat -> dsort_with kf t = permute t idx).
Proof.
  intros ks. exists (dsort_idx ks). pose proof (dsort_idx_stable ks) as [P S]. unfold ks in P at 2. rewrite keys_length in P.
  split; [exact P|]. split; [exact S|].
  unfold dsort_with. destruct (nrows t) eqn:E.
  - split; [|congruence]. unfold rows. rewrite E. apply Permutation_sym, Permutation_nil in P. rewrite P. reflexivity.
  - fold ks. split; [|auto]. apply rows_permute. apply nrows_pos_ne. lia.
Qed.

Lemma nth_keys (kf : arow -> val) t i : (i < nrows t)%nat -> nth i (map kf (rows t)) VNone = kf (row t i).
Proof.
  intros H. unfold rows. rewrite map_map.
  rewrite (nth_indep _ VNone (kf (row t 0%nat))) by (rewrite map_length, seq_length; auto).
  rewrite (map_nth (fun i => kf (row t i)) (seq 0 (nrows t)) 0%nat). rewrite seq_nth by auto. reflexivity.
Qed.

Theorem dsort_with_idempotent kf n t : rect n t -> dsort_with kf (dsort_with kf t) = dsort_with kf t.
Proof.
  intros Hr. unfold dsort_with at 2 3. destruct (nrows t) eqn:E; [unfold dsort_with; rewrite E; reflexivity|].
  assert (Ht : t <> []) by (apply nrows_pos_ne; lia).
  set (ks := map kf (rows t)). set (idx := dsort_idx ks).
  assert (Lk : length ks = S n0) by (unfold ks; rewrite keys_length; auto).
  assert (Li : length idx = S n0) by (unfold idx; rewrite dsort_idx_length; auto).
  unfold dsort_with. rewrite nrows_permute, Li by auto.
  rewrite rows_permute by auto. rewrite map_map.
  assert (EK : map (fun x => kf (row t x)) idx = gather VNone ks idx).
  { unfold gather. apply map_ext_in. intros i Hi. unfold ks. rewrite nth_keys; auto.
    pose proof (dsort_idx_lt ks) as B. rewrite Forall_forall in B. specialize (B i Hi). lia. }
  rewrite EK. unfold idx at 2. rewrite dsort_idx_idem. rewrite Lk, <- Li. apply (permute_seq (length idx)). apply rect_permute.
Qed.

(* ------------------------------------------------------------------ explicit value orders: d.sort(col = [v0, v1, ...]) *)
Definition distinct_vals (vals : list val) : Prop :=
  Forall (fun v => elem_eqb v v = true) vals /\
  forall i j, (i < length vals)%nat -> (j < length vals)%nat -> elem_eqb (nth i vals VNone) (nth j vals VNone) = true -> i = j.

Lemma distinct_tail v vs : distinct_vals (v :: vs) -> distinct_vals vs /\ existsb (elem_eqb v) vs = false.
Proof.
  intros [R D]. inversion R; subst. split; [split; auto|].
  - intros i j Hi Hj E. specialize (D (S i) (S j)). cbn in D. assert (S i = S j) by (apply D; auto; lia). lia.
  - destruct (existsb (elem_eqb v) vs) eqn:E; auto. apply existsb_exists in E. destruct E as [y [Hy E]].
    destruct (In_nth _ _ VNone Hy) as [j [Hj Ej]]. specialize (D 0%nat (S j)). cbn in D. rewrite Ej in D.
    assert (0 = S j)%nat by (apply D; auto; lia). lia.
Qed.
Lemma last_index_none x vals : forall i, existsb (elem_eqb x) vals = false -> last_index x vals i = None.
Proof.
  induction vals as [|v vs IH]; cbn; auto. intros i H. apply orb_false_iff in H. destruct H as [H1 H2].
  rewrite IH by auto. rewrite H1. reflexivity.
Qed.
Lemma last_index_some x vals : forall i, existsb (elem_eqb x) vals = true ->
  exists j, last_index x vals i = Some j /\ i <= j < i + Z.of_nat (length vals).
Proof.
  induction vals as [|v vs IH]; cbn [existsb last_index length]; [discriminate|]. intros i H.
  destruct (existsb (elem_eqb x) vs) eqn:E.
  - destruct (IH (i + 1) eq_refl) as [j [-> Hj]]. exists j. split; auto. lia.
  - rewrite last_index_none by auto. rewrite orb_false_r in H. rewrite H. exists i. split; auto. lia.
Qed.
Lemma last_index_nth vals : distinct_vals vals -> forall p i, (p < length vals)%nat ->
  last_index (nth p vals VNone) vals i = Some (i + Z.of_nat p).
Proof.
  induction vals as [|v vs IH]; intros D p i Hp; cbn in Hp; [lia|].
  destruct (distinct_tail _ _ D) as [D' E]. destruct D as [R _]. inversion R; subst.
  destruct p; cbn [nth last_index].
  - rewrite last_index_none by auto. rewrite H1. f_equal. lia.
  - rewrite IH by (auto; lia). f_equal. lia.
Qed.
Lemma ndistinct_distinct vals : distinct_vals vals -> ndistinct vals = Z.of_nat (length vals).
Proof.
  induction vals as [|v vs IH]; intros D; [reflexivity|]. destruct (distinct_tail _ _ D) as [D' E].
  cbn [ndistinct length]. rewrite E, IH by auto. lia.
Qed.

(* listed values get their position in the given order, every unlisted value the common last rank *)
Theorem vrank_listed vals p : distinct_vals vals -> (p < length vals)%nat -> vrank vals (nth p vals VNone) = Z.of_nat p.
Proof. intros D H. unfold vrank. rewrite last_index_nth by auto. lia. Qed.
Theorem vrank_unlisted vals x : distinct_vals vals -> existsb (elem_eqb x) vals = false -> vrank vals x = Z.of_nat (length vals).
Proof. intros D H. unfold vrank. rewrite last_index_none by auto. apply ndistinct_distinct, D. Qed.
Theorem vrank_listed_lt vals x : existsb (elem_eqb x) vals = true -> 0 <= vrank vals x < Z.of_nat (length vals).
Proof. intros H. unfold vrank. destruct (last_index_some x vals 0 H) as [j [-> Hj]]. lia. Qed.

Lemma cmp_rank1 a b : cmp (VList [VNum false (2 * a)]) (VList [VNum false (2 * b)]) = c2z (Z.compare a b).
Proof.
  unfold cmp, cmpc. cbn [norm map]. rewrite cmpn_eq. cbn [rank len0 length cmpn_body lexz lexp thenc]. rewrite !Z.compare_refl. cbn [thenc].
  rewrite cmpn_eq. cbn [rank len0 cmpn_body body_scalar numkey cmp_ext]. rewrite !Z.compare_refl. cbn [thenc]. rewrite thenc_Eq_r. f_equal.
  destruct (Z.compare_spec a b) as [E|E|E]; [apply Z.compare_eq_iff | apply Z.compare_lt_iff | apply Z.compare_gt_iff]; lia.
Qed.

(* one value-ordered column: down the result the rank never decreases (so listed values come in the given order and
   unlisted ones last), and rows of equal rank keep their original order *)
Theorem dsort_byval1_order c vals t :
  exists idx, Permutation idx (seq 0 (nrows t)) /\ rows (dsort_byval [(c, vals)] t) = map (row t) idx /\
    StronglySorted (fun i j => let ri := vrank vals (lookup (row t i) c) in let rj := vrank vals (lookup (row t j) c) in
                               ri < rj \/ (ri = rj /\ (i < j)%nat)) idx.
Proof.
  destruct (dsort_with_stable (key_byval [(c, vals)]) t) as [idx [P [S [R _]]]]. exists idx. split; [exact P|]. split; [exact R|].
  assert (B : Forall (fun i => (i < nrows t)%nat) idx).
  { apply Forall_forall. intros i Hi. apply (Permutation_in _ P) in Hi. apply in_seq in Hi. lia. }
  clear P R. induction S; constructor; inversion B; subst; auto.
  rewrite Forall_forall in *. intros j Hj. specialize (H j Hj). unfold key_lt in H. rewrite !nth_keys in H by auto.
  unfold key_byval in H. cbn [map fst snd] in H. rewrite cmp_rank1 in H. cbn zeta.
  destruct (Z.compare_spec (vrank vals (lookup (row t a) c)) (vrank vals (lookup (row t j) c))); cbn in H; lia.
Qed.
