(* C11: the run-length grouping of the stably sorted keys *)
From Coq Require Import ZArith List Bool Lia Permutation Sorted.
From PB Require Import model.M_sort model.M_group proofs.P_sort.
Import ListNotations.
Open Scope Z_scope.

(* one step of the loop *)
Lemma group_cons k i k2 i2 l :
  group ((k, i) :: (k2, i2) :: l) =
  match group ((k2, i2) :: l) with
  | (rep, is_) :: g => if key_eqb k2 k then (rep, i :: is_) :: g else (k, [i]) :: (rep, is_) :: g
  | [] => [(k, [i])]
  end.
Proof. reflexivity. Qed.
Lemma group_ne k i l : group ((k, i) :: l) <> [].
Proof.
  revert k i. induction l as [|[k2 i2] l IH]; intros k i; [cbn; congruence|]. rewrite group_cons.
  destruct (group ((k2, i2) :: l)) as [|[rep is_] g]; [congruence|]. destruct (key_eqb k2 k); congruence.
Qed.

(* the groups list every row index exactly once, in the sorted order *)
Lemma group_flat l : flat_map snd (group l) = map snd l.
Proof.
  induction l as [|[k i] l IH]; [reflexivity|]. destruct l as [|[k2 i2] l']; [reflexivity|]. rewrite group_cons.
  destruct (group ((k2, i2) :: l')) as [|[rep is_] g] eqn:E; [exfalso; eapply group_ne; eauto|].
  destruct (key_eqb k2 k); cbn [flat_map snd map app] in *; rewrite <- IH; reflexivity.
Qed.
Lemma group_nonempty l : Forall (fun g => snd g <> []) (group l).
Proof.
  induction l as [|[k i] l IH]; [constructor|]. destruct l as [|[k2 i2] l']; [repeat constructor; cbn; congruence|]. rewrite group_cons.
  destruct (group ((k2, i2) :: l')) as [|[rep is_] g] eqn:E; [repeat constructor; cbn; congruence|].
  inversion IH; subst. destruct (key_eqb k2 k); repeat constructor; cbn; auto; congruence.
Qed.
Lemma length_flat_map {A B} (f : A -> list B) l : length (flat_map f l) = fold_right (fun a s => (length (f a) + s)%nat) 0%nat l.
Proof. induction l; cbn; auto. rewrite app_length, IHl. reflexivity. Qed.

(* == on the keys present coincides with cmp = 0 (true for NaN-free scalar keys, and when the NaN cells of a key column are one object) *)
Definition eq_cmp_compat (ks : list val) : Prop := forall a b, In a ks -> In b ks -> (key_eqb a b = true <-> cmp a b = 0).

Section Grouping.
  Variable l : list (val * nat).
  Hypothesis H : eq_cmp_compat (map fst l).
  Hypothesis S : StronglySorted (fun a b => cmp (fst a) (fst b) <= 0) l.

  Lemma cmp0_sym a b : cmp a b = 0 -> cmp b a = 0.
  Proof. intros E. rewrite cmp_antisym, E. reflexivity. Qed.
End Grouping.

(* the key a group is filed under compares 0 with the key of the first row of the run *)
Lemma group_head_rep : forall l k i rep is_ g, eq_cmp_compat (map fst ((k, i) :: l)) ->
  group ((k, i) :: l) = (rep, is_) :: g -> cmp k rep = 0.
Proof.
  induction l as [|[k2 i2] l' IH]; intros k i rep is_ g H G.
  - cbn in G. inversion G; subst. apply cmp_refl.
  - rewrite group_cons in G.
    assert (H' : eq_cmp_compat (map fst ((k2, i2) :: l'))) by (intros a b Ha Hb; apply H; right; auto).
    destruct (group ((k2, i2) :: l')) as [|[rep' is'] g'] eqn:E; [inversion G; subst; apply cmp_refl|].
    specialize (IH k2 i2 rep' is' g' H' E).
    destruct (key_eqb k2 k) eqn:K; inversion G; subst; [|apply cmp_refl].
    apply H in K; [|right; left; reflexivity|left; reflexivity].
    rewrite (cmp_eq_compat_l k k2 rep); [exact IH|]. rewrite cmp_antisym, K. reflexivity.
Qed.

(* one group per distinct key: the groups' keys are strictly increasing under cmp *)
Lemma group_reps_increasing : forall l, eq_cmp_compat (map fst l) ->
  StronglySorted (fun a b => cmp (fst a) (fst b) <= 0) l -> StronglySorted (fun a b => cmp a b < 0) (map fst (group l)).
Proof.
  induction l as [|[k i] l IH]; intros H S; [constructor|]. destruct l as [|[k2 i2] l']; [repeat constructor|]. rewrite group_cons.
  assert (H' : eq_cmp_compat (map fst ((k2, i2) :: l'))) by (intros a b Ha Hb; apply H; right; auto).
  inversion S as [|? ? S' F]; subst. specialize (IH H' S').
  destruct (group ((k2, i2) :: l')) as [|[rep is_] g] eqn:E; [repeat constructor|]. pose proof (group_head_rep _ _ _ _ _ _ H' E) as HR.
  destruct (key_eqb k2 k) eqn:K; [exact IH|].
  cbn [map fst] in *. constructor; [exact IH|].
  assert (L : cmp k k2 < 0).
  { inversion F; subst. cbn in H2. destruct (Z.eq_dec (cmp k k2) 0) as [Z0|]; [|lia].
    assert (key_eqb k2 k = true); [|congruence]. apply H; [right; left; reflexivity | left; reflexivity |]. rewrite cmp_antisym, Z0. reflexivity. }
  assert (L2 : cmp k rep < 0) by (rewrite (cmp_eq_compat_r k k2 rep HR); exact L).
  constructor; [exact L2|]. inversion IH; subst. eapply Forall_impl; [|exact H3]. intros r Hr. cbn beta in Hr.
  apply (cmp_lt_le_trans k rep r); lia.
Qed.

(* every row sits in the group whose key compares 0 with its own *)
Lemma group_members : forall l, eq_cmp_compat (map fst l) ->
  Forall (fun g => forall i, In i (snd g) -> exists k, In (k, i) l /\ cmp k (fst g) = 0) (group l).
Proof.
  induction l as [|[k i] l IH]; intros H; [constructor|].
  destruct l as [|[k2 i2] l']. { repeat constructor. cbn. intros j [<-|[]]. exists k. split; auto. apply cmp_refl. }
  rewrite group_cons.
  assert (H' : eq_cmp_compat (map fst ((k2, i2) :: l'))) by (intros a b Ha Hb; apply H; right; auto).
  specialize (IH H').
  assert (W : forall g, (forall j, In j (snd g) -> exists k0, In (k0, j) ((k2, i2) :: l') /\ cmp k0 (fst g) = 0) ->
                        (forall j, In j (snd g) -> exists k0, In (k0, j) ((k, i) :: (k2, i2) :: l') /\ cmp k0 (fst g) = 0)).
  { intros g Hg j Hj. destruct (Hg j Hj) as [k0 [I0 C0]]. exists k0. split; [right; exact I0 | exact C0]. }
  destruct (group ((k2, i2) :: l')) as [|[rep is_] g] eqn:E.
  { repeat constructor. cbn. intros j [<-|[]]. exists k. split; [left; reflexivity | apply cmp_refl]. }
  inversion IH as [|? ? I1 I2]; subst. pose proof (group_head_rep _ _ _ _ _ _ H' E) as HR.
  destruct (key_eqb k2 k) eqn:K.
  - constructor; [|eapply Forall_impl; [|exact I2]; intros a Ha; apply W; exact Ha].
    cbn [fst snd] in *. intros j [<-|Hj]; [|apply (W (rep, is_)); auto].
    exists k. split; [left; reflexivity|].
    apply H in K; [|right; left; reflexivity|left; reflexivity].
    rewrite (cmp_eq_compat_l k k2 rep); [exact HR|]. rewrite cmp_antisym, K. reflexivity.
  - constructor; [|constructor; [apply (W (rep, is_)); exact I1 | eapply Forall_impl; [|exact I2]; intros a Ha; apply W; exact Ha]].
    cbn. intros j [<-|[]]. exists k. split; [left; reflexivity | apply cmp_refl].
Qed.

(* ---- _listby on the keys of a table *)
Lemma sorted_pairs_snd ks : map snd (sorted_pairs ks) = dsort_idx ks.
Proof. unfold sorted_pairs. rewrite map_map. cbn. apply map_id. Qed.
Lemma sorted_pairs_fst_in ks a : In a (map fst (sorted_pairs ks)) -> In a ks.
Proof.
  unfold sorted_pairs. rewrite map_map. cbn. intros Ha. apply in_map_iff in Ha. destruct Ha as [i [<- Hi]].
  apply nth_In. pose proof (dsort_idx_lt ks) as B. rewrite Forall_forall in B. apply B. exact Hi.
Qed.
Lemma sorted_pairs_sorted ks : StronglySorted (fun a b => cmp (fst a) (fst b) <= 0) (sorted_pairs ks).
Proof.
  unfold sorted_pairs. pose proof (proj2 (dsort_idx_stable ks)) as S.
  induction S; cbn [map]; constructor; auto.
  apply Forall_forall. intros p Hp. apply in_map_iff in Hp. destruct Hp as [j [<- Hj]]. cbn [fst].
  rewrite Forall_forall in H. specialize (H j Hj). unfold key_lt in H. lia.
Qed.

Theorem listby_groups_flat ks : flat_map snd (listby_groups ks) = dsort_idx ks.
Proof. unfold listby_groups. rewrite group_flat. apply sorted_pairs_snd. Qed.

Theorem listby_groups_perm ks : Permutation (flat_map snd (listby_groups ks)) (seq 0 (length ks)).
Proof. rewrite listby_groups_flat. apply dsort_idx_stable. Qed.

Theorem listby_groups_sizes ks : fold_right (fun g s => (length (snd g) + s)%nat) 0%nat (listby_groups ks) = length ks.
Proof. rewrite <- length_flat_map, listby_groups_flat. apply dsort_idx_length. Qed.

Theorem listby_groups_one_per_key ks : eq_cmp_compat ks ->
  StronglySorted (fun a b => cmp a b < 0) (map fst (listby_groups ks)) /\
  Forall (fun g => snd g <> [] /\ forall i, In i (snd g) -> (i < length ks)%nat /\ cmp (nth i ks VNone) (fst g) = 0) (listby_groups ks).
Proof.
  intros H. assert (H' : eq_cmp_compat (map fst (sorted_pairs ks))) by (intros a b Ha Hb; apply H; apply sorted_pairs_fst_in; auto).
  split; [apply group_reps_increasing; [exact H' | apply sorted_pairs_sorted]|].
  pose proof (group_members _ H') as M. pose proof (group_nonempty (sorted_pairs ks)) as NE. unfold listby_groups.
  rewrite Forall_forall in *. intros g Hg. split; [apply NE; auto|]. intros i Hi. destruct (M g Hg i Hi) as [k [Ik Ck]].
  unfold sorted_pairs in Ik. apply in_map_iff in Ik. destruct Ik as [j [Ej Hj]]. inversion Ej; subst.
  split; [|exact Ck]. pose proof (dsort_idx_lt ks) as B. rewrite Forall_forall in B. apply B. exact Hj.
Qed.

(* within a group the row indices increase: values are listed in original row order *)
Lemma run_increasing ks rep : forall (is_ rest : list nat), (forall i, In i is_ -> cmp (nth i ks VNone) rep = 0) ->
  StronglySorted (key_lt ks) (is_ ++ rest) -> StronglySorted (fun i j => (i < j)%nat) is_.
Proof.
  induction is_ as [|i is_ IH]; intros rest M S; [constructor|]. cbn [app] in S. inversion S as [|? ? S' F]; subst.
  constructor; [apply (IH rest); [intros j Hj; apply M; right; exact Hj | exact S']|].
  rewrite Forall_forall in *. intros j Hj. specialize (F j (in_or_app _ _ _ (or_introl Hj))). unfold key_lt in F.
  destruct F as [F|[_ F]]; [|exact F]. exfalso.
  pose proof (M i (or_introl eq_refl)) as Ci. pose proof (M j (or_intror Hj)) as Cj.
  rewrite (cmp_eq_compat_r _ _ _ (cmp0_sym _ _ Cj)) in F. rewrite Ci in F. lia.
Qed.
Lemma ssorted_app_r {X} (R : X -> X -> Prop) a : forall b, StronglySorted R (a ++ b) -> StronglySorted R b.
Proof. induction a; cbn; auto. intros b S. inversion S; auto. Qed.
Theorem listby_groups_original_order ks : eq_cmp_compat ks ->
  Forall (fun g => StronglySorted (fun i j => (i < j)%nat) (snd g)) (listby_groups ks).
Proof.
  intros H. destruct (listby_groups_one_per_key ks H) as [_ M].
  pose proof (proj2 (dsort_idx_stable ks)) as S. rewrite <- listby_groups_flat in S.
  induction (listby_groups ks) as [|g gs IH]; [constructor|]. inversion M as [|? ? [_ Mg] Ms]; subst.
  cbn [flat_map] in S. constructor.
  - apply (run_increasing ks (fst g) (snd g) (flat_map snd gs)); [intros i Hi; apply Mg; exact Hi | exact S].
  - apply IH; [exact Ms | apply (ssorted_app_r _ _ _ S)].
Qed.

(* ---- groupby *)
Lemma nrows_gather_table (cols : table) is_ : cols <> [] -> nrows (map (fun cv => (fst cv, gather VNone (snd cv) is_)) cols) = length is_.
Proof. destruct cols as [|[c vs] cols]; [congruence|]. intros _. cbn. unfold gather. apply map_length. Qed.

Theorem groupby_sizes_sum by_ t kt subs : nonkey (all_if_none by_ t) t <> [] -> groupby by_ t = Some (kt, subs) ->
  fold_right (fun s n => (nrows s + n)%nat) 0%nat subs = nrows t /\ length (match kt with [] => [] | cv :: _ => snd cv end) = length subs.
Proof.
  intros NK. unfold groupby. destruct (nrows t) eqn:E. { intros G. inversion G; subst. cbn. split; auto. destruct kt as [|[c vs] kt]; cbn in *; auto. }
  destruct (Nat.eqb _ _); [discriminate|]. intros G. inversion G; subst. clear G. split.
  - rewrite <- (keys_length (key_cols (all_if_none by_ t)) t) in E. fold (keys_of (all_if_none by_ t) t) in E. rewrite <- E.
    rewrite <- (listby_groups_sizes (keys_of (all_if_none by_ t) t)).
    induction (listby_groups (keys_of (all_if_none by_ t) t)) as [|g gs IH]; [reflexivity|]. cbn [map fold_right]. rewrite IH.
    rewrite nrows_gather_table by exact NK. reflexivity.
  - unfold key_table. destruct (all_if_none by_ t) as [|c cs] eqn:B; cbn; rewrite ?map_length; auto.
    (* no key column at all: only when the table has no columns, which nrows t = S n excludes *)
    unfold all_if_none in B. destruct by_; [|discriminate]. destruct t; [cbn in E; discriminate | discriminate].
Qed.
(* ---- the precondition eq_cmp_compat holds for NaN-free scalar key tuples *)
Definition scalar_nf (v : val) : Prop := match v with VNone | VNum _ _ | VStr _ | VDate _ => True | _ => False end.
Lemma scalar_nf_norm v : scalar_nf v -> norm v = v.
Proof. destruct v; cbn; tauto. Qed.
Lemma elem_eqb_cmpn x y : scalar_nf x -> scalar_nf y -> (elem_eqb x y = true <-> cmpn x y = Eq).
Proof.
  destruct x, y; cbn [scalar_nf]; try tauto; intros _ _; rewrite cmpn_eq; cbn [rank len0 cmpn_body body_scalar numkey cmp_ext elem_eqb];
    rewrite ?Z.compare_refl; cbn [thenc]; try (cbn; split; congruence).
  - rewrite Z.eqb_eq, Z.compare_eq_iff. tauto.
  - destruct (cmp_str s s0); split; congruence.
  - rewrite Z.eqb_eq, Z.compare_eq_iff. tauto.
Qed.
Lemma thenc_Eq c d : thenc c d = Eq <-> c = Eq /\ d = Eq.
Proof. destruct c; cbn; split; intros; try tauto; try congruence; destruct H; congruence. Qed.
Lemma forallb_lexz : forall a b, Forall scalar_nf a -> Forall scalar_nf b -> length a = length b ->
  (forallb (fun p => elem_eqb (fst p) (snd p)) (combine a b) = true <-> lexz cmpn a b = Eq).
Proof.
  induction a as [|x a IH]; destruct b as [|y b]; cbn [length]; try discriminate; intros Fa Fb L; [cbn; tauto|].
  inversion Fa; inversion Fb; subst. cbn [combine forallb fst snd]. unfold lexz in *. cbn [lexp]. rewrite andb_true_iff, thenc_Eq.
  rewrite (elem_eqb_cmpn x y) by auto. rewrite IH by (auto; lia). tauto.
Qed.
Lemma map_norm_id l : Forall scalar_nf l -> map norm l = l.
Proof. induction 1; cbn; auto. rewrite scalar_nf_norm, IHForall; auto. Qed.
(* since _listby groups on cmp(...) == 0 the precondition holds for EVERY key list *)
Lemma eq_cmp_compat_always ks : eq_cmp_compat ks.
Proof. intros a b _ _. unfold key_eqb. apply Z.eqb_eq. Qed.
Theorem scalar_keys_compat ks : Forall (fun k => exists l, k = VTuple l /\ Forall scalar_nf l) ks -> eq_cmp_compat ks.
Proof. intros _. apply eq_cmp_compat_always. Qed.
(* ================================================================== table level: unlist . listby and ungroup . groupby *)
Definition is_list (v : val) : bool := match v with VList _ => true | _ => false end.
Definition scalar_table (t : table) : Prop := Forall (fun cv => Forall (fun v => is_list v = false) (snd cv)) t.
(* the key a row is filed under, once per row of its group, in group order *)
Definition reps_of (G : list (val * list nat)) : list val := flat_map (fun g => repeat (fst g) (length (snd g))) G.
(* key columns rebuilt from one key tuple per row *)
Definition rep_table (by_ : list colname) (reps : list val) : table :=
  map (fun jc => (snd jc, map (tuple_nth (fst jc)) reps)) (combine (seq 0 (length by_)) by_).
Definition keypart (by_ : list colname) (t : table) : table := map (fun c => (c, getcol t c)) by_.

Lemma spread_list l : spread (length l) (VList l) = l.
Proof. destruct l as [|x [|y l]]; reflexivity. Qed.
Lemma spread_scalar n v : is_list v = false -> spread n v = repeat v n.
Proof. destruct v; cbn; try discriminate; auto. Qed.
Lemma cell_len_scalar v : is_list v = false -> cell_len v = 1%nat.
Proof. destruct v; cbn; try discriminate; auto. Qed.

Lemma flat_map_map {A B C} (g : A -> B) (f : B -> list C) l : flat_map f (map g l) = flat_map (fun x => f (g x)) l.
Proof. induction l; cbn; congruence. Qed.
Lemma map_flat_map {A B C} (f : B -> C) (g : A -> list B) l : map f (flat_map g l) = flat_map (fun x => map f (g x)) l.
Proof. induction l; cbn; auto. rewrite map_app, IHl. reflexivity. Qed.
Lemma map_repeat' {A B} (f : A -> B) x n : map f (repeat x n) = repeat (f x) n.
Proof. induction n; cbn; congruence. Qed.
Lemma flat_map_ext_in' {A B} (f g : A -> list B) l : (forall a, In a l -> f a = g a) -> flat_map f l = flat_map g l.
Proof. induction l; cbn; auto. intros H. rewrite H, IHl; auto. Qed.
Lemma flat_map_seq_nth {A B} (f : A -> list B) d l : flat_map (fun i => f (nth i l d)) (seq 0 (length l)) = flat_map f l.
Proof.
  transitivity (flat_map f (map (fun i => nth (i - 0) l d) (seq 0 (length l)))); [|f_equal; apply map_nth_seq].
  rewrite flat_map_map. apply flat_map_ext_in'. intros i _. rewrite Nat.sub_0_r. reflexivity.
Qed.
Lemma filter_map_comm {A} (p : A -> bool) (h : A -> A) l : (forall a, p (h a) = p a) -> filter p (map h l) = map h (filter p l).
Proof. intros H. induction l; cbn; auto. rewrite H. destruct (p a); cbn; congruence. Qed.
Lemma combine_map {A B C} (f : A -> B) (h : A -> C) l : combine (map f l) (map h l) = map (fun a => (f a, h a)) l.
Proof. induction l; cbn; congruence. Qed.

Lemma row_len_ge (r : arow) cv : In cv r -> (cell_len (snd cv) <= row_len r)%nat.
Proof. induction r as [|a r IH]; cbn; [tauto|]. intros [->|H]; [apply Nat.le_max_l | etransitivity; [apply IH; auto | apply Nat.le_max_r]]. Qed.
Lemma row_len_le (r : arow) m : (1 <= m)%nat -> (forall cv, In cv r -> (cell_len (snd cv) <= m)%nat) -> (row_len r <= m)%nat.
Proof. intros Hm. induction r as [|a r IH]; cbn; intros H; [exact Hm|]. apply Nat.max_lub; [apply H; auto | apply IH; intros; apply H; auto]. Qed.

Lemma unlist_pos t m : nrows t = m -> m <> 0%nat ->
  unlist t = map (fun cv => (fst cv, flat_map (fun i => spread (row_len (row t i)) (nth i (snd cv) VNone)) (seq 0 m))) t.
Proof. intros E Hm. unfold unlist. rewrite E. destruct m; [congruence|reflexivity]. Qed.

(* a table whose rows are groups: key-derived scalar cells + list cells; unlist spreads it group by group *)
Lemma unlist_grouped (G : list (val * list nat)) (kc : list (colname * (val -> val))) (nc : table) :
  G <> [] -> kc <> [] -> nc <> [] -> Forall (fun g => snd g <> []) G ->
  (forall g f, In g G -> In f kc -> is_list (snd f (fst g)) = false) ->
  unlist (map (fun f => (fst f, map (fun g => snd f (fst g)) G)) kc ++ map (fun cv => (fst cv, map (fun g => VList (gather VNone (snd cv) (snd g))) G)) nc)
  = map (fun f => (fst f, flat_map (fun g => repeat (snd f (fst g)) (length (snd g))) G)) kc
    ++ map (fun cv => (fst cv, flat_map (fun g => gather VNone (snd cv) (snd g)) G)) nc.
Proof.
  intros HG Hkc Hnc NE SC.
  set (L := map (fun f => (fst f, map (fun g => snd f (fst g)) G)) kc ++ map (fun cv => (fst cv, map (fun g => VList (gather VNone (snd cv) (snd g))) G)) nc).
  set (d := (VNone, @nil nat)).
  assert (NR : nrows L = length G). { unfold L. destruct kc as [|f0 kc']; [congruence|]. cbn. apply map_length. }
  assert (RL : forall i, (i < length G)%nat -> row_len (row L i) = length (snd (nth i G d))).
  { intros i Hi. assert (Ig : In (nth i G d) G) by (apply nth_In; exact Hi).
    rewrite Forall_forall in NE. pose proof (NE _ Ig) as NEi.
    apply Nat.le_antisymm.
    - apply row_len_le; [destruct (snd (nth i G d)); [congruence | cbn; lia]|].
      intros cv Hcv. unfold row in Hcv. apply in_map_iff in Hcv. destruct Hcv as [cv0 [<- H0]]. cbn [snd].
      unfold L in H0. apply in_app_or in H0. destruct H0 as [H0|H0]; apply in_map_iff in H0; destruct H0 as [a [<- Ha]]; cbn [snd].
      + rewrite (nth_indep _ VNone (snd a (fst d))) by (rewrite map_length; exact Hi).
        rewrite (map_nth (fun g => snd a (fst g)) G d). rewrite cell_len_scalar by (apply SC; auto).
        destruct (snd (nth i G d)); [congruence | cbn; lia].
      + rewrite (nth_indep _ VNone (VList (gather VNone (snd a) (snd d)))) by (rewrite map_length; exact Hi).
        rewrite (map_nth (fun g => VList (gather VNone (snd a) (snd g))) G d). cbn [cell_len]. unfold gather. rewrite map_length. lia.
    - destruct nc as [|c0 nc']; [congruence|].
      set (cv := (fst c0, nth i (map (fun g => VList (gather VNone (snd c0) (snd g))) G) VNone)).
      assert (Icv : In cv (row L i)).
      { unfold row. apply in_map_iff. exists (fst c0, map (fun g => VList (gather VNone (snd c0) (snd g))) G). split; [reflexivity|].
        unfold L. apply in_or_app. right. left. reflexivity. }
      pose proof (row_len_ge _ _ Icv) as LE. unfold cv in LE. cbn [snd] in LE.
      rewrite (nth_indep _ VNone (VList (gather VNone (snd c0) (snd d)))) in LE by (rewrite map_length; exact Hi).
      rewrite (map_nth (fun g => VList (gather VNone (snd c0) (snd g))) G d) in LE. cbn [cell_len] in LE. unfold gather in LE. rewrite map_length in LE. exact LE. }
  rewrite (unlist_pos L (length G) NR) by (destruct G; cbn; congruence).
  subst L. rewrite map_app, !map_map. f_equal; apply map_ext_in; intros a Ha; cbn [fst snd]; f_equal.
  - rewrite <- (flat_map_seq_nth (fun g => repeat (snd a (fst g)) (length (snd g))) d G).
    apply flat_map_ext_in'. intros i Hi. apply in_seq in Hi. rewrite RL by lia.
    rewrite (nth_indep _ VNone (snd a (fst d))) by (rewrite map_length; lia).
    rewrite (map_nth (fun g => snd a (fst g)) G d). apply spread_scalar. apply SC; auto. apply nth_In. lia.
  - rewrite <- (flat_map_seq_nth (fun g => gather VNone (snd a) (snd g)) d G).
    apply flat_map_ext_in'. intros i Hi. apply in_seq in Hi. rewrite RL by lia.
    rewrite (nth_indep _ VNone (VList (gather VNone (snd a) (snd d)))) by (rewrite map_length; lia).
    rewrite (map_nth (fun g => VList (gather VNone (snd a) (snd g))) G d).
    replace (length (snd (nth i G d))) with (length (gather VNone (snd a) (snd (nth i G d)))) by (unfold gather; apply map_length).
    apply spread_list.
Qed.

(* the key a group is filed under is one of the keys *)
Lemma group_rep_in : forall l g, In g (group l) -> In (fst g) (map fst l).
Proof.
  induction l as [|[k i] l IH]; intros g Hg; [destruct Hg|]. destruct l as [|[k2 i2] l']. { cbn in Hg. destruct Hg as [<-|[]]. left. reflexivity. }
  rewrite group_cons in Hg. destruct (group ((k2, i2) :: l')) as [|[rep is_] g'] eqn:E.
  { destruct Hg as [<-|[]]. left. reflexivity. }
  destruct (key_eqb k2 k).
  - destruct Hg as [<-|Hg]; right; [apply (IH (rep, is_)); left; reflexivity | apply IH; right; exact Hg].
  - destruct Hg as [<-|Hg]; [left; reflexivity | right; apply IH; exact Hg].
Qed.
Lemma listby_groups_rep_in ks g : In g (listby_groups ks) -> In (fst g) ks.
Proof. intros H. apply sorted_pairs_fst_in. apply group_rep_in. exact H. Qed.
Lemma listby_groups_ne ks : ks <> [] -> listby_groups ks <> [].
Proof.
  intros H E. pose proof (listby_groups_sizes ks) as S. rewrite E in S. cbn in S. destruct ks; [congruence | discriminate].
Qed.

(* keys of a table with scalar cells are tuples of non-list cells *)
Lemma lookup_nonlist (r : arow) c : Forall (fun cv => is_list (snd cv) = false) r -> is_list (lookup r c) = false.
Proof. induction 1 as [|[c' v] r H _ IH]; cbn; auto. destruct (cmp_str c c'); auto. Qed.
Lemma row_nonlist t i : scalar_table t -> Forall (fun cv => is_list (snd cv) = false) (row t i).
Proof.
  intros H. unfold row. apply Forall_forall. intros cv Hcv. apply in_map_iff in Hcv. destruct Hcv as [[c vs] [<- Hc]]. cbn [snd].
  unfold scalar_table in H. rewrite Forall_forall in H. specialize (H _ Hc). cbn in H.
  destruct (Nat.lt_ge_cases i (length vs)) as [Hi|Hi]; [|rewrite nth_overflow by exact Hi; reflexivity].
  rewrite Forall_forall in H. apply H. apply nth_In. exact Hi.
Qed.
Lemma keys_nonlist by_ t k j : scalar_table t -> In k (keys_of by_ t) -> is_list (tuple_nth j k) = false.
Proof.
  intros H Hk. unfold keys_of in Hk. apply in_map_iff in Hk. destruct Hk as [r [<- Hr]]. unfold rows in Hr. apply in_map_iff in Hr. destruct Hr as [i [<- _]].
  unfold key_cols, tuple_nth. destruct (Nat.lt_ge_cases j (length (map (lookup (row t i)) by_))) as [Hj|Hj]; [|rewrite nth_overflow by exact Hj; reflexivity].
  rewrite (nth_indep _ VNone (lookup (row t i) [])) by exact Hj. rewrite map_nth. apply lookup_nonlist. apply row_nonlist. exact H.
Qed.

Lemma key_table_as_kc by_ G :
  key_table by_ G = map (fun f : colname * (val -> val) => (fst f, map (fun g : val * list nat => snd f (fst g)) G))
                        (map (fun jc : nat * colname => (snd jc, tuple_nth (fst jc))) (combine (seq 0 (length by_)) by_)).
Proof. unfold key_table. rewrite map_map. reflexivity. Qed.
Lemma rep_table_as_kc by_ G :
  map (fun f : colname * (val -> val) => (fst f, flat_map (fun g : val * list nat => repeat (snd f (fst g)) (length (snd g))) G))
      (map (fun jc : nat * colname => (snd jc, tuple_nth (fst jc))) (combine (seq 0 (length by_)) by_)) = rep_table by_ (reps_of G).
Proof.
  unfold rep_table, reps_of. rewrite map_map. apply map_ext. intros [j c]. cbn [fst snd]. f_equal.
  rewrite map_flat_map. apply flat_map_ext_in'. intros g _. rewrite map_repeat'. reflexivity.
Qed.
Lemma nonkey_permute by_ t idx : nonkey by_ (permute t idx) = map (fun cv => (fst cv, gather VNone (snd cv) idx)) (nonkey by_ t).
Proof. unfold nonkey, permute. apply filter_map_comm. intros [c vs]. reflexivity. Qed.
Lemma gather_flat {X} (d : X) vs (G : list (val * list nat)) : flat_map (fun g => gather d vs (snd g)) G = gather d vs (flat_map snd G).
Proof. unfold gather. rewrite map_flat_map. reflexivity. Qed.

(* unlist(listby): the key columns rebuilt from the groups' keys, then the other columns of the stably sorted table *)
Theorem unlist_listby_table by_ t : by_ <> [] -> nrows t <> 0%nat -> nonkey by_ t <> [] -> scalar_table t ->
  let ks := keys_of by_ t in
  unlist (listby by_ t) = rep_table by_ (reps_of (listby_groups ks)) ++ nonkey by_ (permute t (dsort_idx ks)).
Proof.
  intros Hby Hn Hnk Hs ks. unfold listby. destruct (nrows t) eqn:E; [congruence|].
  assert (A : all_if_none by_ t = by_) by (destruct by_; [congruence | reflexivity]). rewrite A. fold ks.
  assert (Hks : ks <> []). { intros E0. pose proof (keys_length (key_cols by_) t) as L. fold (keys_of by_ t) in L. fold ks in L. rewrite E0, E in L. discriminate. }
  rewrite key_table_as_kc. rewrite unlist_grouped.
  - rewrite rep_table_as_kc. f_equal. rewrite nonkey_permute. apply map_ext. intros cv. f_equal. rewrite gather_flat, listby_groups_flat. reflexivity.
  - apply listby_groups_ne. exact Hks.
  - destruct by_; [congruence|]. cbn. congruence.
  - exact Hnk.
  - apply group_nonempty.
  - intros g f Hg Hf. apply in_map_iff in Hf. destruct Hf as [[j c] [<- _]]. cbn [snd fst].
    apply (keys_nonlist by_ t); [exact Hs | apply listby_groups_rep_in; exact Hg].
Qed.

(* row by row, the key a row is listed under compares 0 with that row's own key *)
Lemma Forall2_repeat {A B} (R : A -> B -> Prop) b : forall l, (forall a, In a l -> R a b) -> Forall2 R l (repeat b (length l)).
Proof. induction l; cbn; constructor; auto. Qed.
Theorem reps_match ks : eq_cmp_compat ks ->
  Forall2 (fun i rep => cmp (nth i ks VNone) rep = 0) (dsort_idx ks) (reps_of (listby_groups ks)).
Proof.
  intros H. rewrite <- listby_groups_flat. destruct (listby_groups_one_per_key ks H) as [_ M]. unfold reps_of.
  induction M as [|g G [_ Mg] _ IH]; cbn [flat_map]; [constructor|]. apply Forall2_app; [|exact IH].
  apply Forall2_repeat. intros i Hi. apply Mg. exact Hi.
Qed.
Lemma reps_length ks : length (reps_of (listby_groups ks)) = length ks.
Proof.
  rewrite <- (listby_groups_sizes ks). unfold reps_of. rewrite length_flat_map.
  induction (listby_groups ks); cbn; auto. rewrite repeat_length, IHl. reflexivity.
Qed.

(* ---- ungroup . groupby *)
Lemma getcol_in (T : table) cv : NoDup (map fst T) -> In cv T -> getcol T (fst cv) = snd cv.
Proof.
  unfold getcol. induction T as [|a T IH]; intros ND Hin; [destruct Hin|]. cbn [find]. inversion ND; subst.
  destruct Hin as [->|Hin]. { unfold name_eqb. rewrite cmp_str_refl. reflexivity. }
  destruct (name_eqb (fst cv) (fst a)) eqn:E; [|apply IH; auto].
  exfalso. unfold name_eqb in E. destruct (cmp_str (fst cv) (fst a)) eqn:E2; try discriminate. apply cmp_str_eq in E2.
  apply H1. rewrite <- E2. apply in_map. exact Hin.
Qed.

Theorem ungroup_groupby_table by_ t kt subs : by_ <> [] -> nrows t <> 0%nat -> nonkey by_ t <> [] -> NoDup (map fst t) ->
  groupby by_ t = Some (kt, subs) ->
  let ks := keys_of by_ t in
  ungroup kt subs = nonkey by_ (permute t (dsort_idx ks)) ++ rep_table by_ (reps_of (listby_groups ks)).
Proof.
  intros Hby Hn Hnk ND Gb ks. unfold groupby in Gb. destruct (nrows t) eqn:E; [congruence|].
  assert (A : all_if_none by_ t = by_) by (destruct by_; [congruence | reflexivity]). rewrite A in Gb. fold ks in Gb.
  destruct (Nat.eqb _ _); [discriminate|]. inversion Gb; subst kt subs. clear Gb.
  assert (Hks : ks <> []). { intros E0. pose proof (keys_length (key_cols by_) t) as L. fold (keys_of by_ t) in L. fold ks in L. rewrite E0, E in L. discriminate. }
  pose proof (listby_groups_ne ks Hks) as HG. pose proof (listby_groups_flat ks) as FL. remember (listby_groups ks) as G eqn:EG0. clear EG0.
  assert (NDnk : NoDup (map fst (nonkey by_ t))).
  { unfold nonkey. clear - ND. induction t as [|a t IH]; cbn; [constructor|]. inversion ND; subst.
    destruct (negb (in_names (fst a) by_)); cbn; [constructor|]; auto.
    intros Hin. apply H1. apply in_map_iff in Hin. destruct Hin as [x [Ex Hx]]. apply filter_In in Hx. rewrite <- Ex. apply in_map. tauto. }
  unfold ungroup. f_equal.
  - assert (NM : match map (fun gi : val * list nat => map (fun cv : colname * list val => (fst cv, gather VNone (snd cv) (snd gi))) (nonkey by_ t)) G with
                 | s :: _ => map fst s | [] => [] end = map fst (nonkey by_ t)).
    { destruct G as [|g0 G']; [congruence|]. cbn [map]. rewrite map_map. reflexivity. }
    match goal with |- map _ ?X = _ => replace X with (map fst (nonkey by_ t)) by (symmetry; exact NM) end.
    rewrite !map_map. rewrite nonkey_permute. apply map_ext_in. intros cv Hcv. f_equal.
    rewrite flat_map_map. rewrite <- FL. rewrite <- gather_flat. apply flat_map_ext_in'. intros g _.
    set (h := fun cv0 : colname * list val => (fst cv0, gather VNone (snd cv0) (snd g))).
    change (fst cv) with (fst (h cv)). change (gather VNone (snd cv) (snd g)) with (snd (h cv)).
    apply getcol_in; [rewrite map_map; cbn; exact NDnk | apply in_map; exact Hcv].
  - unfold key_table, rep_table. rewrite map_map. apply map_ext. intros [j c]. cbn [fst snd]. f_equal.
    rewrite combine_map, flat_map_map. cbn [fst snd]. unfold reps_of. rewrite map_flat_map. apply flat_map_ext_in'. intros g _.
    rewrite nrows_gather_table by exact Hnk. rewrite map_repeat'. reflexivity.
Qed.

(* ---- when == keys are identical (no 1 next to 1.0 in a key column): literal statements about rows *)
Definition keys_exact (ks : list val) : Prop := forall a b, In a ks -> In b ks -> cmp a b = 0 -> a = b.

Lemma reps_in ks r : In r (reps_of (listby_groups ks)) -> In r ks.
Proof.
  unfold reps_of. intros H. apply in_flat_map in H. destruct H as [g [Hg Hr]]. apply repeat_spec in Hr. subst. apply listby_groups_rep_in. exact Hg.
Qed.
Lemma reps_exact ks : eq_cmp_compat ks -> keys_exact ks -> reps_of (listby_groups ks) = map (fun i => nth i ks VNone) (dsort_idx ks).
Proof.
  intros H X. pose proof (reps_match ks H) as M. pose proof (dsort_idx_lt ks) as B. pose proof (reps_in ks) as RI.
  induction M as [|i r l rs Hir _ IH]; [reflexivity|]. inversion B; subst. cbn [map]. f_equal.
  - symmetry. apply X; [apply nth_In; auto | apply RI; left; reflexivity | exact Hir].
  - apply IH; [auto | intros r' Hr'; apply RI; right; exact Hr'].
Qed.

Lemma lookup_row t i c : lookup (row t i) c = nth i (getcol t c) VNone.
Proof.
  unfold getcol. induction t as [|[c' vs] t IH]; cbn [row map lookup find fst snd]; [destruct i; reflexivity|].
  unfold name_eqb. destruct (cmp_str c c'); auto.
Qed.
Lemma getcol_permute t idx c : in_names c (map fst t) = true -> getcol (permute t idx) c = gather VNone (getcol t c) idx.
Proof.
  unfold getcol, in_names. induction t as [|[c' vs] t IH]; cbn [map existsb permute find fst snd]; [discriminate|].
  destruct (name_eqb c c'); cbn [orb snd]; auto.
Qed.
Lemma rep_table_gen (F : nat -> list val) (Hc : colname -> list val) : forall by' s,
  (forall j, (j < length by')%nat -> F (s + j)%nat = Hc (nth j by' [])) ->
  map (fun jc : nat * colname => (snd jc, F (fst jc))) (combine (seq s (length by')) by') = map (fun c => (c, Hc c)) by'.
Proof.
  induction by' as [|c by' IH]; intros s H; [reflexivity|]. cbn [length seq combine map fst snd]. f_equal.
  - f_equal. pose proof (H 0%nat) as H0. cbn [nth length] in H0. rewrite <- H0 by lia. f_equal. lia.
  - apply IH. intros j Hj. pose proof (H (S j)) as HS. cbn [nth length] in HS. rewrite <- HS by lia. f_equal. lia.
Qed.

Lemma rep_table_exact by_ t idx : Forall (fun c => in_names c (map fst t) = true) by_ -> Forall (fun i => (i < nrows t)%nat) idx ->
  rep_table by_ (map (fun i => nth i (keys_of by_ t) VNone) idx) = keypart by_ (permute t idx).
Proof.
  intros Hsub B. unfold rep_table, keypart.
  apply (rep_table_gen (fun j => map (tuple_nth j) (map (fun i => nth i (keys_of by_ t) VNone) idx)) (fun c => getcol (permute t idx) c) by_ 0%nat).
  intros j Hj. cbv beta. change (0 + j)%nat with j. rewrite Forall_forall in Hsub.
  etransitivity; [|symmetry; apply getcol_permute; apply Hsub; apply nth_In; exact Hj].
  rewrite map_map. unfold gather. apply map_ext_in. intros i Hi. rewrite Forall_forall in B. specialize (B i Hi).
  unfold keys_of. rewrite nth_keys by exact B. unfold key_cols, tuple_nth.
  rewrite (nth_indep _ VNone (lookup (row t i) [])) by (rewrite map_length; exact Hj). rewrite map_nth. apply lookup_row.
Qed.
Lemma keypart_permute by_ t idx : Forall (fun c => in_names c (map fst t) = true) by_ -> permute (keypart by_ t) idx = keypart by_ (permute t idx).
Proof.
  intros H. unfold keypart, permute. rewrite map_map. apply map_ext_in. intros c Hc. cbv beta. cbn [fst snd]. rewrite Forall_forall in H.
  f_equal. symmetry. apply getcol_permute. apply H; exact Hc.
Qed.
Lemma permute_app a b idx : permute (a ++ b) idx = permute a idx ++ permute b idx.
Proof. apply map_app. Qed.
Lemma nonkey_permute' by_ t idx : permute (nonkey by_ t) idx = nonkey by_ (permute t idx).
Proof. rewrite nonkey_permute. reflexivity. Qed.

Section Exact.
  Variables (by_ : list colname) (t : table).
  Hypothesis Hby : by_ <> [].
  Hypothesis Hn : nrows t <> 0%nat.
  Hypothesis Hnk : nonkey by_ t <> [].
  Hypothesis Hsub : Forall (fun c => in_names c (map fst t) = true) by_.
  Let ks := keys_of by_ t.
  Hypothesis Hc : eq_cmp_compat ks.
  Hypothesis Hx : keys_exact ks.
  Let idx := dsort_idx ks.

  Lemma idx_lt_nrows : Forall (fun i => (i < nrows t)%nat) idx.
  Proof. pose proof (dsort_idx_lt ks) as B. unfold ks in B at 1. unfold keys_of in B. rewrite keys_length in B. exact B. Qed.

  (* unlist(listby(keys)) IS the table (key columns first) with its rows in stable key order *)
  Theorem unlist_listby_exact : scalar_table t ->
    unlist (listby by_ t) = permute (keypart by_ t ++ nonkey by_ t) idx /\
    rows (unlist (listby by_ t)) = map (row (keypart by_ t ++ nonkey by_ t)) idx.
  Proof.
    intros Hs. assert (E : unlist (listby by_ t) = permute (keypart by_ t ++ nonkey by_ t) idx).
    { rewrite (unlist_listby_table by_ t Hby Hn Hnk Hs). fold ks. rewrite (reps_exact ks Hc Hx). fold idx.
      rewrite permute_app, keypart_permute, nonkey_permute' by exact Hsub. f_equal. apply rep_table_exact; [exact Hsub | apply idx_lt_nrows]. }
    split; [exact E|]. rewrite E. apply rows_permute. destruct by_; [congruence | discriminate].
  Qed.

  (* ungroup(groupby(keys)) holds exactly the rows of the table (key columns last), each once *)
  Theorem ungroup_groupby_exact n kt subs : rect n t -> NoDup (map fst t) -> groupby by_ t = Some (kt, subs) ->
    ungroup kt subs = permute (nonkey by_ t ++ keypart by_ t) idx /\
    Permutation (rows (ungroup kt subs)) (rows (nonkey by_ t ++ keypart by_ t)).
  Proof.
    intros Hr ND Gb. assert (E : ungroup kt subs = permute (nonkey by_ t ++ keypart by_ t) idx).
    { rewrite (ungroup_groupby_table by_ t kt subs Hby Hn Hnk ND Gb). fold ks. rewrite (reps_exact ks Hc Hx). fold idx.
      rewrite permute_app, keypart_permute, nonkey_permute' by exact Hsub. f_equal. apply rep_table_exact; [exact Hsub | apply idx_lt_nrows]. }
    split; [exact E|]. rewrite E. rewrite rows_permute by (destruct (nonkey by_ t); [congruence | discriminate]).
    unfold rows at 1. apply Permutation_map.
    assert (NR : nrows (nonkey by_ t ++ keypart by_ t) = nrows t).
    { destruct (nonkey by_ t) as [|[c vs] nk] eqn:EN; [congruence|]. cbn.
      assert (In (c, vs) t). { assert (I : In (c, vs) (nonkey by_ t)) by (rewrite EN; left; reflexivity). unfold nonkey in I. apply filter_In in I. tauto. }
      unfold rect in Hr. rewrite Forall_forall in Hr. pose proof (Hr _ H) as L1. cbn in L1. rewrite L1. destruct t as [|[c0 v0] t']; [destruct H|]. cbn. symmetry. apply (Hr (c0, v0)). left. reflexivity. }
    rewrite NR. pose proof (proj1 (dsort_idx_stable ks)) as P. unfold ks in P at 2. unfold keys_of in P. rewrite keys_length in P. exact P.
  Qed.
End Exact.

(* ================================================================== a group holds EXACTLY the rows whose key compares 0 with its key *)
Lemma ssorted_filter {X} (R : X -> X -> Prop) p l : StronglySorted R l -> StronglySorted R (filter p l).
Proof.
  induction 1; cbn; [constructor|]. destruct (p a); auto. constructor; auto.
  rewrite Forall_forall in *. intros b Hb. apply filter_In in Hb. apply H0. tauto.
Qed.
Lemma seq_ssorted : forall n s, StronglySorted (fun i j => (i < j)%nat) (seq s n).
Proof. induction n; intros s; cbn; constructor; auto. apply Forall_forall. intros j Hj. apply in_seq in Hj. lia. Qed.
Lemma sorted_lt_unique : forall l1 l2 : list nat, StronglySorted (fun i j => (i < j)%nat) l1 -> StronglySorted (fun i j => (i < j)%nat) l2 ->
  (forall i, In i l1 <-> In i l2) -> l1 = l2.
Proof.
  induction l1 as [|a l1 IH]; intros l2 S1 S2 H.
  - destruct l2 as [|b l2]; auto. exfalso. apply (proj2 (H b)). left. reflexivity.
  - destruct l2 as [|b l2]; [exfalso; apply (proj1 (H a)); left; reflexivity|].
    inversion S1 as [|? ? S1' F1]; inversion S2 as [|? ? S2' F2]; subst. rewrite Forall_forall in F1, F2.
    assert (a = b).
    { destruct (proj1 (H a) (or_introl eq_refl)) as [Hb|Hb]; [auto|]. destruct (proj2 (H b) (or_introl eq_refl)) as [Ha|Ha]; [auto|].
      specialize (F1 _ Ha). specialize (F2 _ Hb). lia. }
    subst b. f_equal. apply IH; auto. intros i. split; intros Hi.
    + destruct (proj1 (H i) (or_intror Hi)) as [E|E]; [subst; specialize (F1 _ Hi); lia | exact E].
    + destruct (proj2 (H i) (or_intror Hi)) as [E|E]; [subst; specialize (F2 _ Hi); lia | exact E].
Qed.
Lemma ssorted_map_trichotomy {X Y} (R : Y -> Y -> Prop) (f : X -> Y) : forall l, StronglySorted R (map f l) ->
  forall a b, In a l -> In b l -> a = b \/ R (f a) (f b) \/ R (f b) (f a).
Proof.
  induction l as [|x l IH]; intros S a b Ha Hb; [destruct Ha|]. cbn in S. inversion S as [|? ? S' F]; subst. rewrite Forall_forall in F.
  destruct Ha as [<-|Ha], Hb as [<-|Hb]; auto.
  - right. left. apply F. apply in_map. exact Hb.
  - right. right. apply F. apply in_map. exact Ha.
Qed.

Theorem listby_group_ids ks g : eq_cmp_compat ks -> In g (listby_groups ks) ->
  snd g = filter (fun i => cmp (nth i ks VNone) (fst g) =? 0) (seq 0 (length ks)).
Proof.
  intros H Hg. destruct (listby_groups_one_per_key ks H) as [SS M]. pose proof (listby_groups_original_order ks H) as OO.
  rewrite Forall_forall in M, OO. destruct (M g Hg) as [_ Mg].
  apply sorted_lt_unique; [apply OO; exact Hg | apply ssorted_filter, seq_ssorted|].
  intros i. rewrite filter_In, in_seq, Z.eqb_eq. split.
  - intros Hi. destruct (Mg i Hi). split; [lia | auto].
  - intros [Hi Ci]. assert (Ii : In i (flat_map snd (listby_groups ks))).
    { apply (Permutation_in _ (Permutation_sym (listby_groups_perm ks))). apply in_seq. lia. }
    apply in_flat_map in Ii. destruct Ii as [g' [Hg' Hi']]. destruct (M g' Hg') as [_ Mg']. destruct (Mg' i Hi') as [_ Ci'].
    destruct (ssorted_map_trichotomy _ fst _ SS g g' Hg Hg') as [E|[L|L]]; [subst; exact Hi' | |]; exfalso.
    + rewrite (cmp_eq_compat_l (fst g) (nth i ks VNone) (fst g')) in L by (apply cmp0_sym; exact Ci). lia.
    + rewrite (cmp_eq_compat_l (fst g') (nth i ks VNone) (fst g)) in L by (apply cmp0_sym; exact Ci'). lia.
Qed.
(* ================================================================== pivot *)
Lemma cmp0_trans a b c : cmp a b = 0 -> cmp b c = 0 -> cmp a c = 0.
Proof. intros H1 H2. rewrite (cmp_eq_compat_l a b c H1). exact H2. Qed.
Lemma c2z_0 c : c2z c = 0 <-> c = Eq.
Proof. destruct c; cbn; split; intros; try reflexivity; try discriminate; try lia. Qed.
Lemma thenc_assoc a b c : thenc (thenc a b) c = thenc a (thenc b c).
Proof. destruct a; reflexivity. Qed.
Lemma lexp_app {A B} (p : A -> B) (c : B -> B -> comparison) : forall a b l1 l2, length a = length b ->
  lexp p c (a ++ l1) (b ++ l2) = thenc (lexp p c a b) (lexp p c l1 l2).
Proof.
  induction a as [|x a IH]; destruct b as [|y b]; cbn [length]; try discriminate; intros l1 l2 L; [reflexivity|].
  cbn [app lexp]. rewrite IH by lia. rewrite thenc_assoc. reflexivity.
Qed.
Lemma cmp_scalar u v : scalar_nf u -> scalar_nf v -> cmp u v = c2z (cmpn u v).
Proof. intros Hu Hv. unfold cmp, cmpc. rewrite !scalar_nf_norm by auto. reflexivity. Qed.
Lemma elem_eqb_cmp u v : scalar_nf u -> scalar_nf v -> (elem_eqb u v = true <-> cmp u v = 0).
Proof. intros Hu Hv. rewrite cmp_scalar, c2z_0 by auto. apply elem_eqb_cmpn; auto. Qed.
Lemma cmp_tuple_scalar a b : Forall scalar_nf a -> Forall scalar_nf b -> length a = length b ->
  cmp (VTuple a) (VTuple b) = c2z (lexz cmpn a b).
Proof.
  intros Fa Fb L. unfold cmp, cmpc. cbn [norm]. rewrite !map_norm_id by auto. rewrite cmpn_eq. cbn [rank len0 cmpn_body].
  rewrite L, !Z.compare_refl. reflexivity.
Qed.
Lemma cmp_tuple1 a b : cmp (VTuple [a]) (VTuple [b]) = cmp a b.
Proof.
  unfold cmp, cmpc. cbn [norm map]. rewrite cmpn_eq. cbn [rank len0 length cmpn_body lexz lexp]. rewrite !Z.compare_refl. cbn [thenc].
  rewrite thenc_Eq_r. reflexivity.
Qed.
Lemma cmp_tuple_gen a b : length a = length b -> cmp (VTuple a) (VTuple b) = c2z (lexz cmpn (map norm a) (map norm b)).
Proof. intros L. unfold cmp, cmpc. cbn [norm]. rewrite cmpn_eq. cbn [rank len0 cmpn_body]. rewrite !map_length, L, !Z.compare_refl. reflexivity. Qed.
(* for ANY values (NaN, containers ...): a tuple key with one more component compares 0 iff both parts do *)
Lemma cmp_xy_split a b u v : length a = length b ->
  (cmp (VTuple (a ++ [u])) (VTuple (b ++ [v])) = 0 <-> cmp (VTuple a) (VTuple b) = 0 /\ cmp u v = 0).
Proof.
  intros L. rewrite cmp_tuple_gen by (rewrite !app_length; cbn; lia). rewrite (cmp_tuple_gen a b L).
  change (cmp u v) with (c2z (cmpn (norm u) (norm v))). rewrite !c2z_0, !map_app. cbn [map].
  unfold lexz. rewrite lexp_app by (rewrite !map_length; exact L). cbn [lexp]. rewrite thenc_Eq_r. apply thenc_Eq.
Qed.

(* index_of: the first label == the value *)
Lemma index_of_some x : forall l i k, index_of x l i = Some k -> (i <= k < i + length l)%nat /\ elem_eqb (nth (k - i) l VNone) x = true.
Proof.
  induction l as [|v l IH]; intros i k H; cbn in H; [discriminate|]. destruct (elem_eqb v x) eqn:E.
  - inversion H; subst. rewrite Nat.sub_diag. cbn. split; [lia | exact E].
  - apply IH in H. destruct H as [H1 H2]. cbn [length]. split; [lia|]. replace (k - i)%nat with (S (k - S i)) by lia. exact H2.
Qed.
Lemma index_of_exists x : forall l i, (exists k, (k < length l)%nat /\ elem_eqb (nth k l VNone) x = true) -> exists k', index_of x l i = Some k'.
Proof.
  induction l as [|v l IH]; intros i [k [Hk E]]; [cbn in Hk; lia|]. cbn [index_of]. destruct (elem_eqb v x) eqn:E0; [eexists; reflexivity|].
  destruct k; [cbn in E; congruence|]. apply IH. exists k. cbn in Hk, E. split; [lia | exact E].
Qed.

(* the fold that fills one pivot cell keeps the value of the last group filed there *)
Lemma find_app' {A} (m : A -> bool) l l' : find m (l ++ l') = match find m l with Some x => Some x | None => find m l' end.
Proof. induction l as [|x l IH]; cbn; auto. destruct (m x); auto. Qed.
Lemma fold_last_match {A} (m : nat -> bool) (V : nat -> A) : forall js acc,
  fold_left (fun acc j => if m j then V j else acc) js acc = match find m (rev js) with Some j => V j | None => acc end.
Proof.
  induction js as [|j js IH]; intros acc; [reflexivity|]. cbn [fold_left rev]. rewrite IH, find_app'.
  destruct (find m (rev js)); [reflexivity|]. cbn [find]. destruct (m j); reflexivity.
Qed.
Lemma ssorted_map_transfer {X Y Z} (R : Y -> Y -> Prop) (R' : Z -> Z -> Prop) (f : X -> Y) (h : X -> Z) : forall l,
  (forall a b, In a l -> In b l -> R (f a) (f b) -> R' (h a) (h b)) -> StronglySorted R (map f l) -> StronglySorted R' (map h l).
Proof.
  induction l as [|x l IH]; intros H S; [constructor|]. cbn in *. inversion S as [|? ? S' F]; subst. constructor.
  - apply IH; auto.
  - rewrite Forall_forall in *. intros z Hz. apply in_map_iff in Hz. destruct Hz as [b [<- Hb]]. apply H; auto. apply F. apply in_map. exact Hb.
Qed.

(* a key of xyz's first _listby: the x cells (ANY values) followed by the y cell, a NaN-free scalar (y2id is a dict: lookup by ==) *)
Definition xyshape (m : nat) (k : val) : Prop := exists a u, k = VTuple (a ++ [u]) /\ length a = m /\ scalar_nf u.
Definition pv_xys (KS : list val) : list val := map fst (listby_groups KS).
Definition pv_ylabels (m : nat) (KS : list val) : list val :=
  map (fun gi : val * list nat => tuple_nth 0 (fst gi)) (listby_groups (map (fun xy => VTuple [tuple_nth m xy]) (pv_xys KS))).
Definition pv_xg (m : nat) (KS : list val) : list (val * list nat) := listby_groups (map (tuple_firstn m) (pv_xys KS)).
Definition pv_cell (m : nat) (KS zs : list val) (a : agg) (gi : val * list nat) (k : nat) : val :=
  fold_left (fun acc j => match index_of (tuple_nth m (nth j (pv_xys KS) VNone)) (pv_ylabels m KS) 0 with
                          | Some k' => if Nat.eqb k k' then apply_agg a (gather VNone zs (snd (nth j (listby_groups KS) (VNone, [])))) else acc
                          | None => acc
                          end) (snd gi) VNone.
(* the model's pivot, with its cells named *)
Lemma pivot_unfold x y z a t :
  pivot x y z a t =
  key_table x (pv_xg (length x) (keys_of (x ++ [y]) t)) ++
  map (fun kl => (label_of (snd kl), map (fun gi => pv_cell (length x) (keys_of (x ++ [y]) t) (getcol t z) a gi (fst kl)) (pv_xg (length x) (keys_of (x ++ [y]) t))))
      (combine (seq 0 (length (pv_ylabels (length x) (keys_of (x ++ [y]) t)))) (pv_ylabels (length x) (keys_of (x ++ [y]) t))).
Proof. reflexivity. Qed.

Lemma fold_left_ext {A B} (f g : A -> B -> A) : (forall a b, f a b = g a b) -> forall l a, fold_left f l a = fold_left g l a.
Proof. intros H. induction l; cbn; auto. intros. rewrite H. auto. Qed.
Lemma tuple_firstn_shape m a u : length a = m -> tuple_firstn m (VTuple (a ++ [u])) = VTuple a.
Proof. intros L. cbn. rewrite firstn_app, L, Nat.sub_diag. cbn. rewrite <- L, firstn_all, app_nil_r. reflexivity. Qed.
Lemma tuple_nth_shape m a u : length a = m -> tuple_nth m (VTuple (a ++ [u])) = u.
Proof. intros L. cbn. rewrite app_nth2 by lia. rewrite L, Nat.sub_diag. reflexivity. Qed.

Section Pivot.
  Variables (m : nat) (KS : list val).
  Hypothesis HK : Forall (xyshape m) KS.
  Let G := listby_groups KS.
  Let xys := pv_xys KS.
  Let XS := map (tuple_firstn m) xys.
  Let YS := map (fun xy => VTuple [tuple_nth m xy]) xys.
  Let YL := pv_ylabels m KS.
  Let d : val * list nat := (VNone, []).

  Lemma pv_compatKS : eq_cmp_compat KS.
  Proof. apply eq_cmp_compat_always. Qed.
  Lemma pv_xys_shape : Forall (xyshape m) xys.
  Proof.
    apply Forall_forall. intros k Hk. unfold xys, pv_xys in Hk. apply in_map_iff in Hk. destruct Hk as [g [<- Hg]].
    rewrite Forall_forall in HK. apply HK. apply listby_groups_rep_in. exact Hg.
  Qed.
  Lemma pv_compatXS : eq_cmp_compat XS.
  Proof. apply eq_cmp_compat_always. Qed.
  Lemma pv_compatYS : eq_cmp_compat YS.
  Proof. apply eq_cmp_compat_always. Qed.
  Lemma pv_xys_nth j : (j < length G)%nat -> nth j xys VNone = fst (nth j G d) /\ In (nth j G d) G /\ xyshape m (nth j xys VNone).
  Proof.
    intros Hj. unfold xys, pv_xys. fold G. split; [apply (map_nth fst G d)|]. split; [apply nth_In; exact Hj|].
    pose proof pv_xys_shape as S. rewrite Forall_forall in S. apply S. unfold xys, pv_xys. fold G. apply nth_In. rewrite map_length. exact Hj.
  Qed.
  Lemma pv_YL_scalar : Forall scalar_nf YL.
  Proof.
    apply Forall_forall. intros v Hv. unfold YL, pv_ylabels in Hv. apply in_map_iff in Hv. destruct Hv as [gy [<- Hgy]].
    apply listby_groups_rep_in in Hgy. fold xys in Hgy. apply in_map_iff in Hgy. destruct Hgy as [xy [<- Hxy]].
    pose proof pv_xys_shape as S. rewrite Forall_forall in S. destruct (S _ Hxy) as [a [u [-> [L Hu]]]].
    rewrite tuple_nth_shape by exact L. cbn. exact Hu.
  Qed.
  Lemma pv_YL_sorted : StronglySorted (fun a b => cmp a b < 0) YL.
  Proof.
    unfold YL, pv_ylabels. fold xys. fold YS.
    apply (ssorted_map_transfer (fun a b => cmp a b < 0) (fun a b => cmp a b < 0) fst (fun gi => tuple_nth 0 (fst gi))).
    - intros g1 g2 H1 H2 C. apply listby_groups_rep_in in H1, H2. unfold YS in H1, H2. apply in_map_iff in H1, H2.
      destruct H1 as [xy1 [E1 _]], H2 as [xy2 [E2 _]]. rewrite <- E1, <- E2 in *. cbn. rewrite cmp_tuple1 in C. exact C.
    - apply (listby_groups_one_per_key YS pv_compatYS).
  Qed.

  Lemma pv_LXS : length XS = length G.
  Proof. unfold XS, xys, pv_xys. rewrite !map_length. reflexivity. Qed.
  Lemma pv_XSj j : (j < length G)%nat -> exists aj uj, nth j xys VNone = VTuple (aj ++ [uj]) /\ length aj = m /\ scalar_nf uj /\
                       nth j XS VNone = VTuple aj /\ tuple_nth m (nth j xys VNone) = uj.
  Proof.
    intros Hj. destruct (pv_xys_nth j Hj) as [_ [_ [aj [uj [E [L Hu]]]]]]. exists aj, uj. repeat split; auto.
    - unfold XS. change VNone with (tuple_firstn m VNone) at 1. rewrite map_nth, E. apply tuple_firstn_shape. exact L.
    - rewrite E. apply tuple_nth_shape. exact L.
  Qed.
  Lemma pv_KSi i : (i < length KS)%nat -> exists ai ui, nth i KS VNone = VTuple (ai ++ [ui]) /\ length ai = m /\ scalar_nf ui.
  Proof. intros Hi. rewrite Forall_forall in HK. apply (HK (nth i KS VNone)). apply nth_In. exact Hi. Qed.
  (* row i against the distinct (x, y) key number j *)
  Lemma pv_split i j : (i < length KS)%nat -> (j < length G)%nat ->
              (cmp (nth i KS VNone) (nth j xys VNone) = 0 <->
               cmp (tuple_firstn m (nth i KS VNone)) (nth j XS VNone) = 0 /\ cmp (tuple_nth m (nth i KS VNone)) (tuple_nth m (nth j xys VNone)) = 0).
  Proof.
    intros Hi Hj. destruct (pv_KSi i Hi) as [ai [ui [Ei [Li Hui]]]]. destruct (pv_XSj j Hj) as [aj [uj [Ej [Lj [Huj [EX EY]]]]]].
    rewrite EX, EY, Ei, Ej. rewrite tuple_firstn_shape, tuple_nth_shape by exact Li. apply cmp_xy_split. lia.
  Qed.

  Theorem pivot_cell_spec zs a gi k : In gi (pv_xg m KS) -> (k < length YL)%nat ->
    pv_cell m KS zs a gi k =
    match filter (fun i => (cmp (tuple_firstn m (nth i KS VNone)) (fst gi) =? 0) && (cmp (tuple_nth m (nth i KS VNone)) (nth k YL VNone) =? 0)) (seq 0 (length KS)) with
    | [] => VNone
    | R => apply_agg a (gather VNone zs R)
    end.
  Proof.
    intros Hgi Hk. set (X := fst gi). set (Y := nth k YL VNone).
    assert (HY : scalar_nf Y). { pose proof pv_YL_scalar as S. rewrite Forall_forall in S. apply S. apply nth_In. exact Hk. }
    set (mb := fun j => match index_of (tuple_nth m (nth j xys VNone)) YL 0 with Some k' => Nat.eqb k k' | None => false end).
    set (V := fun j => apply_agg a (gather VNone zs (snd (nth j G d)))).
    assert (EF : pv_cell m KS zs a gi k = fold_left (fun acc j => if mb j then V j else acc) (snd gi) VNone).
    { unfold pv_cell. apply fold_left_ext. intros acc j. unfold mb, V. fold xys. fold YL. fold G. fold d.
      destruct (index_of (tuple_nth m (nth j xys VNone)) YL 0); [destruct (Nat.eqb k n)|]; reflexivity. }
    rewrite EF, fold_last_match. clear EF.
    (* what the groups are *)
    pose proof (listby_group_ids XS gi pv_compatXS Hgi) as IDS. fold X in IDS.
    pose proof pv_LXS as LXS. pose proof pv_XSj as XSj. pose proof pv_KSi as KSi. pose proof pv_split as SPLIT.
    pose proof pv_compatKS as CK. destruct (listby_groups_one_per_key KS CK) as [_ MEM]. fold G in MEM. rewrite Forall_forall in MEM.
    destruct (find mb (rev (snd gi))) as [j|] eqn:FD.
    - apply find_some in FD. destruct FD as [Ij Mj]. apply in_rev in Ij.
      rewrite IDS in Ij. apply filter_In in Ij. destruct Ij as [Ij Cj]. apply in_seq in Ij. rewrite LXS in Ij. apply Z.eqb_eq in Cj.
      assert (Hj : (j < length G)%nat) by lia.
      destruct (XSj j Hj) as [aj [uj [Ej [Lj [Huj [EX EY]]]]]].
      unfold mb in Mj. destruct (index_of (tuple_nth m (nth j xys VNone)) YL 0) as [k'|] eqn:IO; [|discriminate]. apply Nat.eqb_eq in Mj. subst k'.
      apply index_of_some in IO. destruct IO as [_ IO]. rewrite Nat.sub_0_r in IO. fold Y in IO. rewrite EY in IO.
      apply (elem_eqb_cmp Y uj HY Huj) in IO.
      destruct (pv_xys_nth j Hj) as [EF [IG _]].
      assert (ER : filter (fun i => (cmp (tuple_firstn m (nth i KS VNone)) X =? 0) && (cmp (tuple_nth m (nth i KS VNone)) Y =? 0)) (seq 0 (length KS)) = snd (nth j G d)).
      { rewrite (listby_group_ids KS (nth j G d) CK IG). apply filter_ext_in. intros i Hi. apply in_seq in Hi.
        apply eq_true_iff_eq. rewrite andb_true_iff, !Z.eqb_eq. rewrite <- EF. rewrite (SPLIT i j) by lia. rewrite EY.
        split; intros [A B]; split.
        - apply (cmp0_trans _ X); [exact A | apply cmp0_sym; exact Cj].
        - apply (cmp0_trans _ Y); [exact B | exact IO].
        - apply (cmp0_trans _ (nth j XS VNone)); [exact A | exact Cj].
        - apply (cmp0_trans _ uj); [exact B | apply cmp0_sym; exact IO]. }
      rewrite ER. unfold V. destruct (MEM _ IG) as [NE _]. destruct (snd (nth j G d)); [congruence | reflexivity].
    - destruct (filter _ (seq 0 (length KS))) as [|i R'] eqn:ER; [reflexivity|]. exfalso.
      assert (Ii : In i (i :: R')) by (left; reflexivity). rewrite <- ER in Ii. apply filter_In in Ii. destruct Ii as [Hi Ci].
      apply in_seq in Hi. apply andb_true_iff in Ci. rewrite !Z.eqb_eq in Ci. destruct Ci as [CX CY].
      assert (Ig : In i (flat_map snd G)). { apply (Permutation_in _ (Permutation_sym (listby_groups_perm KS))). apply in_seq. lia. }
      apply in_flat_map in Ig. destruct Ig as [g [Hg Hig]]. destruct (In_nth _ _ d Hg) as [j [Hj Eg]].
      destruct (MEM _ Hg) as [_ Mg]. destruct (Mg i Hig) as [_ Cg]. rewrite <- Eg in Cg.
      destruct (pv_xys_nth j Hj) as [EF _]. rewrite <- EF in Cg. apply (SPLIT i j) in Cg; [|lia|exact Hj]. destruct Cg as [CgX CgY].
      destruct (XSj j Hj) as [aj [uj [Ej [Lj [Huj [EX EY]]]]]].
      assert (Ij : In j (snd gi)).
      { rewrite IDS. apply filter_In. split; [apply in_seq; lia|]. apply Z.eqb_eq. apply (cmp0_trans _ (tuple_firstn m (nth i KS VNone))); [apply cmp0_sym; exact CgX | exact CX]. }
      assert (Mj : mb j = true).
      { unfold mb. rewrite EY in *. assert (CYu : cmp Y uj = 0) by (apply (cmp0_trans _ (tuple_nth m (nth i KS VNone))); [apply cmp0_sym; exact CY | exact CgY]).
        destruct (index_of_exists uj YL 0%nat) as [k' IO]. { exists k. split; [exact Hk|]. apply (elem_eqb_cmp Y uj HY Huj). exact CYu. }
        rewrite IO. apply Nat.eqb_eq. apply index_of_some in IO. destruct IO as [B IO]. rewrite Nat.sub_0_r in IO. cbn in B.
        assert (SK : scalar_nf (nth k' YL VNone)). { pose proof pv_YL_scalar as S. rewrite Forall_forall in S. apply S. apply nth_In. lia. }
        apply (elem_eqb_cmp _ uj SK Huj) in IO.
        assert (C0 : cmp (nth k' YL VNone) Y = 0) by (apply (cmp0_trans _ uj); [exact IO | apply cmp0_sym; exact CYu]).
        destruct (Nat.lt_trichotomy k k') as [L|[E|L]]; [|exact E|]; exfalso.
        - pose proof (StronglySorted_nth _ VNone YL pv_YL_sorted k k') as S. cbv beta in S. fold Y in S. specialize (S ltac:(lia)). rewrite (cmp_antisym Y) in S. lia.
        - pose proof (StronglySorted_nth _ VNone YL pv_YL_sorted k' k) as S. cbv beta in S. fold Y in S. specialize (S ltac:(lia)). lia. }
      pose proof (find_none _ _ FD j) as FN. rewrite FN in Mj; [discriminate|]. apply in_rev. rewrite rev_involutive. exact Ij.
  Qed.

  (* every row has its cell: an x-group and a y label comparing 0 with the row's own x key and y value *)
  Theorem pivot_row_has_cell i : (i < length KS)%nat ->
    exists gi k, In gi (pv_xg m KS) /\ (k < length YL)%nat /\
      cmp (tuple_firstn m (nth i KS VNone)) (fst gi) = 0 /\ cmp (tuple_nth m (nth i KS VNone)) (nth k YL VNone) = 0.
  Proof.
    intros Hi. pose proof pv_compatKS as CK. destruct (listby_groups_one_per_key KS CK) as [_ MEM]. fold G in MEM. rewrite Forall_forall in MEM.
    assert (Ig : In i (flat_map snd G)). { apply (Permutation_in _ (Permutation_sym (listby_groups_perm KS))). apply in_seq. lia. }
    apply in_flat_map in Ig. destruct Ig as [g [Hg Hig]]. destruct (In_nth _ _ d Hg) as [j [Hj Eg]].
    destruct (MEM _ Hg) as [_ Mg]. destruct (Mg i Hig) as [_ Cg]. rewrite <- Eg in Cg.
    destruct (pv_xys_nth j Hj) as [EF _]. rewrite <- EF in Cg. apply (pv_split i j Hi Hj) in Cg. destruct Cg as [CgX CgY].
    destruct (pv_XSj j Hj) as [aj [uj [Ej [Lj [Huj [EX EY]]]]]].
    (* the x group of j *)
    assert (JX : In j (flat_map snd (pv_xg m KS))).
    { apply (Permutation_in _ (Permutation_sym (listby_groups_perm XS))). apply in_seq. rewrite pv_LXS. lia. }
    apply in_flat_map in JX. destruct JX as [gi [Hgi Hjg]].
    destruct (listby_groups_one_per_key XS pv_compatXS) as [_ MX]. rewrite Forall_forall in MX. destruct (MX _ Hgi) as [_ MXg]. destruct (MXg j Hjg) as [_ CXg].
    (* the y label of j *)
    assert (LYS : length YS = length G) by (unfold YS, xys, pv_xys; rewrite !map_length; reflexivity).
    assert (JY : In j (flat_map snd (listby_groups YS))).
    { apply (Permutation_in _ (Permutation_sym (listby_groups_perm YS))). apply in_seq. rewrite LYS. lia. }
    apply in_flat_map in JY. destruct JY as [gy [Hgy Hjy]].
    destruct (listby_groups_one_per_key YS pv_compatYS) as [_ MY]. rewrite Forall_forall in MY. destruct (MY _ Hgy) as [_ MYg]. destruct (MYg j Hjy) as [_ CYg].
    destruct (In_nth _ _ d Hgy) as [k [Hk Ek]].
    exists gi, k. split; [exact Hgi|]. split; [unfold YL, pv_ylabels; fold xys; fold YS; rewrite map_length; exact Hk|].
    split; [apply (cmp0_trans _ (nth j XS VNone)); [exact CgX | exact CXg]|].
    assert (EL : nth k YL VNone = tuple_nth 0 (fst gy)).
    { unfold YL, pv_ylabels. fold xys. fold YS. rewrite <- Ek. apply (map_nth (fun gi0 : val * list nat => tuple_nth 0 (fst gi0)) (listby_groups YS) d). }
    assert (EYS : nth j YS VNone = VTuple [uj]).
    { unfold YS. rewrite (nth_indep _ VNone (VTuple [tuple_nth m VNone])) by (rewrite map_length; unfold xys, pv_xys; rewrite map_length; exact Hj).
      rewrite (map_nth (fun xy => VTuple [tuple_nth m xy])). rewrite EY. reflexivity. }
    pose proof (listby_groups_rep_in YS gy Hgy) as RY. unfold YS in RY. apply in_map_iff in RY. destruct RY as [xy [Exy _]].
    rewrite EL, <- Exy. cbn [tuple_nth nth]. rewrite EYS, <- Exy, cmp_tuple1 in CYg.
    apply (cmp0_trans _ uj); [rewrite <- EY; exact CgY | exact CYg].
  Qed.
  Lemma pv_xg_sorted : StronglySorted (fun a b => cmp a b < 0) (map fst (pv_xg m KS)).
  Proof. apply (listby_groups_one_per_key XS pv_compatXS). Qed.
End Pivot.

(* ---- on tables whose cells are NaN-free scalars *)
Lemma nth_scalar l i : Forall scalar_nf l -> scalar_nf (nth i l VNone).
Proof.
  intros H. destruct (Nat.lt_ge_cases i (length l)) as [Hi|Hi]; [|rewrite nth_overflow by exact Hi; exact I].
  rewrite Forall_forall in H. apply H. apply nth_In. exact Hi.
Qed.
Lemma key_cols_xy x y r : key_cols (x ++ [y]) r = VTuple (map (lookup r) x ++ [lookup r y]).
Proof. unfold key_cols. rewrite map_app. reflexivity. Qed.
Lemma keys_xy_shape x y t : Forall scalar_nf (getcol t y) -> Forall (xyshape (length x)) (keys_of (x ++ [y]) t).
Proof.
  intros H. apply Forall_forall. intros k Hk. unfold keys_of in Hk. apply in_map_iff in Hk. destruct Hk as [r [<- Hr]].
  unfold rows in Hr. apply in_map_iff in Hr. destruct Hr as [i [<- _]]. rewrite key_cols_xy.
  exists (map (lookup (row t i)) x), (lookup (row t i) y). split; [reflexivity|]. split; [apply map_length|].
  rewrite lookup_row. apply nth_scalar. exact H.
Qed.

Theorem pivot_cell_table x y z a t : Forall scalar_nf (getcol t y) ->
  let KS := keys_of (x ++ [y]) t in let m := length x in let xg := pv_xg m KS in let YL := pv_ylabels m KS in let zs := getcol t z in
  pivot x y z a t = key_table x xg ++ map (fun kl => (label_of (snd kl), map (fun gi => pv_cell m KS zs a gi (fst kl)) xg)) (combine (seq 0 (length YL)) YL) /\
  StronglySorted (fun a b => cmp a b < 0) (map fst xg) /\ StronglySorted (fun a b => cmp a b < 0) YL /\
  (forall gi k, In gi xg -> (k < length YL)%nat ->
     pv_cell m KS zs a gi k =
     match filter (fun i => (cmp (key_cols x (row t i)) (fst gi) =? 0) && (cmp (lookup (row t i) y) (nth k YL VNone) =? 0)) (seq 0 (nrows t)) with
     | [] => VNone
     | R => apply_agg a (gather VNone zs R)
     end) /\
  (forall i, (i < nrows t)%nat -> exists gi k, In gi xg /\ (k < length YL)%nat /\
     cmp (key_cols x (row t i)) (fst gi) = 0 /\ cmp (lookup (row t i) y) (nth k YL VNone) = 0).
Proof.
  intros H KS m xg YL zs. pose proof (keys_xy_shape x y t H) as HK. fold KS in HK. fold m in HK.
  assert (LK : length KS = nrows t) by (unfold KS, keys_of; apply keys_length).
  assert (PX : forall i, (i < nrows t)%nat -> tuple_firstn m (nth i KS VNone) = key_cols x (row t i) /\ tuple_nth m (nth i KS VNone) = lookup (row t i) y).
  { intros i Hi. unfold KS, keys_of. rewrite nth_keys by exact Hi. rewrite key_cols_xy.
    rewrite tuple_firstn_shape, tuple_nth_shape by apply map_length. split; reflexivity. }
  split; [apply pivot_unfold|]. split; [apply (pv_xg_sorted m KS)|]. split; [apply (pv_YL_sorted m KS)|]. split.
  - intros gi k Hgi Hk. rewrite (pivot_cell_spec m KS HK zs a gi k Hgi Hk). rewrite LK.
    erewrite filter_ext_in; [reflexivity|]. intros i Hi. apply in_seq in Hi. destruct (PX i ltac:(lia)) as [-> ->]. reflexivity.
  - intros i Hi. destruct (pivot_row_has_cell m KS HK i ltac:(lia)) as [gi [k [A [B [C D]]]]]. destruct (PX i Hi) as [E1 E2]. rewrite E1 in C. rewrite E2 in D.
    exists gi, k. auto.
Qed.
(* ================================================================== unpivot . pivot *)
Lemma map_snd_combine_seq {X} (l : list X) : forall s, map snd (combine (seq s (length l)) l) = l.
Proof. induction l; intros s; cbn; auto. rewrite IHl. reflexivity. Qed.
Lemma map_fst_combine_seq {X} (l : list X) : forall s, map fst (combine (seq s (length l)) l) = seq s (length l).
Proof. induction l; intros s; cbn; auto. rewrite IHl. reflexivity. Qed.
Lemma filter_none {X} (p : X -> bool) l : (forall a, In a l -> p a = false) -> filter p l = [].
Proof. induction l; cbn; auto. intros H. rewrite (H a) by auto. apply IHl. intros; apply H; auto. Qed.
Lemma filter_all {X} (p : X -> bool) l : (forall a, In a l -> p a = true) -> filter p l = l.
Proof. induction l; cbn; auto. intros H. rewrite (H a) by auto. f_equal. apply IHl. intros; apply H; auto. Qed.
Lemma find_in_nodup (A : table) cv : NoDup (map fst A) -> In cv A -> find (fun cv' => name_eqb (fst cv) (fst cv')) A = Some cv.
Proof.
  induction A as [|a A IH]; intros ND Hin; [destruct Hin|]. cbn [find]. inversion ND; subst.
  destruct Hin as [->|Hin]. { unfold name_eqb. rewrite cmp_str_refl. reflexivity. }
  destruct (name_eqb (fst cv) (fst a)) eqn:E; [|apply IH; auto].
  exfalso. unfold name_eqb in E. destruct (cmp_str (fst cv) (fst a)) eqn:E2; try discriminate. apply cmp_str_eq in E2.
  apply H1. rewrite <- E2. apply in_map. exact Hin.
Qed.
Lemma getcol_app_in (A B : table) cv : NoDup (map fst A) -> In cv A -> getcol (A ++ B) (fst cv) = snd cv.
Proof. intros ND Hin. unfold getcol. rewrite find_app', (find_in_nodup A cv ND Hin). reflexivity. Qed.
Lemma key_table_names x G : map fst (key_table x G) = x.
Proof. unfold key_table. rewrite map_map. cbn [fst]. apply map_snd_combine_seq. Qed.
Lemma key_table_nth x G j : (j < length x)%nat -> In (nth j x [], map (fun gi : val * list nat => tuple_nth j (fst gi)) G) (key_table x G).
Proof.
  intros Hj. unfold key_table. apply in_map_iff. exists (j, nth j x []). split; [reflexivity|].
  replace (j, nth j x []) with (nth j (combine (seq 0 (length x)) x) (0%nat, [])).
  - apply nth_In. rewrite combine_length, seq_length, Nat.min_id. exact Hj.
  - rewrite combine_nth by apply seq_length. rewrite seq_nth by exact Hj. reflexivity.
Qed.
Lemma name_eqb_refl c : name_eqb c c = true.
Proof. unfold name_eqb. rewrite cmp_str_refl. reflexivity. Qed.

Theorem unpivot_pivot_table x y z a t : x <> [] -> NoDup x ->
  let KS := keys_of (x ++ [y]) t in let m := length x in let xg := pv_xg m KS in let YL := pv_ylabels m KS in let zs := getcol t z in
  Forall (fun l => in_names (label_of l) x = false) YL ->
  unpivot x y z (pivot x y z a t) =
  map (fun jc => (snd jc, flat_map (fun gi : val * list nat => repeat (tuple_nth (fst jc) (fst gi)) (length YL)) xg)) (combine (seq 0 (length x)) x)
  ++ [(y, flat_map (fun _ : val * list nat => map (fun l => VStr (label_of l)) YL) xg);
      (z, flat_map (fun gi => map (fun k => pv_cell m KS zs a gi k) (seq 0 (length YL))) xg)].
Proof.
  intros Hx ND KS m xg YL zs NC. rewrite pivot_unfold. fold KS. fold m. fold xg. fold YL. fold zs.
  set (LC := map (fun kl : nat * val => (label_of (snd kl), map (fun gi => pv_cell m KS zs a gi (fst kl)) xg)) (combine (seq 0 (length YL)) YL)).
  set (d := (VNone, @nil nat)).
  assert (NK : nonkey x (key_table x xg ++ LC) = LC).
  { unfold nonkey. rewrite filter_app. rewrite filter_none, filter_all; [reflexivity | |].
    - intros cv Hcv. unfold LC in Hcv. apply in_map_iff in Hcv. destruct Hcv as [[k l] [<- Hkl]]. cbn [fst snd]. apply in_combine_r in Hkl.
      rewrite Forall_forall in NC. rewrite (NC l Hkl). reflexivity.
    - intros cv Hcv. assert (In (fst cv) x) by (rewrite <- (key_table_names x xg); apply in_map; exact Hcv).
      assert (in_names (fst cv) x = true); [|rewrite H0; reflexivity]. unfold in_names. apply existsb_exists. exists (fst cv). split; [exact H | apply name_eqb_refl]. }
  assert (NR : nrows (key_table x xg ++ LC) = length xg).
  { destruct x as [|c x']; [congruence|]. cbn. apply map_length. }
  assert (LLC : length LC = length YL) by (unfold LC; rewrite map_length, combine_length, seq_length; apply Nat.min_id).
  unfold unpivot. rewrite NK, NR, LLC. f_equal; [|f_equal; [|f_equal]].
  - symmetry. apply (rep_table_gen (fun j => flat_map (fun gi : val * list nat => repeat (tuple_nth j (fst gi)) (length YL)) xg)
                                    (fun c => flat_map (fun v => repeat v (length YL)) (getcol (key_table x xg ++ LC) c)) x 0%nat).
    intros j Hj. cbv beta. change (0 + j)%nat with j.
    pose proof (getcol_app_in (key_table x xg) LC _ ltac:(rewrite key_table_names; exact ND) (key_table_nth x xg j Hj)) as GC. cbn [fst snd] in GC.
    rewrite GC, flat_map_map. reflexivity.
  - f_equal. rewrite <- (flat_map_seq_nth (fun _ : val * list nat => map (fun l => VStr (label_of l)) YL) d xg).
    apply flat_map_ext_in'. intros r _. cbv beta. unfold LC. rewrite map_map. cbn [fst].
    transitivity (map (fun l => VStr (label_of l)) (map snd (combine (seq 0 (length YL)) YL))); [rewrite map_map; reflexivity | f_equal; apply map_snd_combine_seq].
  - f_equal. rewrite <- (flat_map_seq_nth (fun gi => map (fun k => pv_cell m KS zs a gi k) (seq 0 (length YL))) d xg).
    apply flat_map_ext_in'. intros r Hr. apply in_seq in Hr. cbv beta. unfold LC. rewrite map_map. cbn [snd].
    transitivity (map (fun k => pv_cell m KS zs a (nth r xg d) k) (map fst (combine (seq 0 (length YL)) YL))); [|f_equal; apply map_fst_combine_seq].
    rewrite map_map. apply map_ext. intros kl.
    rewrite (nth_indep _ VNone (pv_cell m KS zs a d (fst kl))) by (rewrite map_length; lia).
    apply (map_nth (fun gi => pv_cell m KS zs a gi (fst kl)) xg d).
Qed.

(* with unique (x, y) pairs every pivot cell is empty or holds the z of its one row *)
Theorem pivot_cell_unique x y z a t : Forall scalar_nf (getcol t y) -> (a = ALast \/ a = AFirst) ->
  (forall i i', (i < nrows t)%nat -> (i' < nrows t)%nat ->
     cmp (key_cols (x ++ [y]) (row t i)) (key_cols (x ++ [y]) (row t i')) = 0 -> i = i') ->
  let KS := keys_of (x ++ [y]) t in let m := length x in let xg := pv_xg m KS in let YL := pv_ylabels m KS in let zs := getcol t z in
  forall gi k, In gi xg -> (k < length YL)%nat ->
    let matches i := cmp (key_cols x (row t i)) (fst gi) = 0 /\ cmp (lookup (row t i) y) (nth k YL VNone) = 0 in
    (pv_cell m KS zs a gi k = VNone /\ forall i, (i < nrows t)%nat -> ~ matches i) \/
    (exists i, (i < nrows t)%nat /\ matches i /\ pv_cell m KS zs a gi k = nth i zs VNone /\ forall i', (i' < nrows t)%nat -> matches i' -> i' = i).
Proof.
  intros H Ha U KS m xg YL zs gi k Hgi Hk matches.
  destruct (pivot_cell_table x y z a t H) as [_ [_ [_ [CS _]]]]. fold KS m xg YL zs in CS. rewrite (CS gi k Hgi Hk). clear CS.
  set (f := fun i => (cmp (key_cols x (row t i)) (fst gi) =? 0) && (cmp (lookup (row t i) y) (nth k YL VNone) =? 0)).
  assert (FM : forall i, f i = true <-> matches i). { intros i. unfold f, matches. rewrite andb_true_iff, !Z.eqb_eq. tauto. }
  assert (UM : forall i i', (i < nrows t)%nat -> (i' < nrows t)%nat -> matches i -> matches i' -> i = i').
  { intros i i' Hi Hi' [A B] [A' B']. apply U; auto. rewrite !key_cols_xy.
    apply cmp_xy_split; [rewrite !map_length; reflexivity|].
    split; [apply (cmp0_trans _ (fst gi)); [exact A | apply cmp0_sym; exact A'] | apply (cmp0_trans _ (nth k YL VNone)); [exact B | apply cmp0_sym; exact B']]. }
  pose proof (ssorted_filter _ f _ (seq_ssorted (nrows t) 0%nat)) as SS.
  destruct (filter f (seq 0 (nrows t))) as [|i R'] eqn:ER.
  - left. split; [reflexivity|]. intros i Hi Mi. apply FM in Mi.
    assert (In i (filter f (seq 0 (nrows t)))) by (apply filter_In; split; [apply in_seq; lia | exact Mi]). rewrite ER in H0. destruct H0.
  - right. assert (Ii : In i (filter f (seq 0 (nrows t)))) by (rewrite ER; left; reflexivity). apply filter_In in Ii. destruct Ii as [Hi Mi].
    apply in_seq in Hi. apply FM in Mi. exists i. split; [lia|]. split; [exact Mi|].
    assert (R' = []).
    { destruct R' as [|i' R'']; [reflexivity|]. exfalso.
      assert (Ii' : In i' (filter f (seq 0 (nrows t)))) by (rewrite ER; right; left; reflexivity). apply filter_In in Ii'. destruct Ii' as [Hi' Mi'].
      apply in_seq in Hi'. apply FM in Mi'. assert (i = i') by (apply UM; auto; lia).
      inversion SS as [|? ? _ F]; subst. rewrite Forall_forall in F. specialize (F i' (or_introl eq_refl)). lia. }
    subst R'. split; [destruct Ha as [-> | ->]; reflexivity|].
    intros i' Hi' Mi'. symmetry. apply UM; auto. lia.
Qed.
(* ================================================================== unpivot . pivot as a Permutation of (x, y label, z) rows *)
Definition is_none (v : val) : bool := match v with VNone => true | _ => false end.
Definition z_some (tr : val * val * val) : bool := negb (is_none (snd tr)).
(* the (x key, y rendered as column label, z) rows of a table *)
Definition t_triples (x : list colname) (y z : colname) (t : table) : list (val * val * val) :=
  map (fun i => (key_cols x (row t i), VStr (label_of (lookup (row t i) y)), nth i (getcol t z) VNone)) (seq 0 (nrows t)).
(* the rows of unpivot(pivot): one per (x group, y label), row-major *)
Definition u_triples (m : nat) (KS zs : list val) (a : agg) : list (val * val * val) :=
  flat_map (fun gi => map (fun k => (fst gi, VStr (label_of (nth k (pv_ylabels m KS) VNone)), pv_cell m KS zs a gi k)) (seq 0 (length (pv_ylabels m KS)))) (pv_xg m KS).

Lemma NoDup_app' {X} (l1 l2 : list X) : NoDup l1 -> NoDup l2 -> (forall e, In e l1 -> In e l2 -> False) -> NoDup (l1 ++ l2).
Proof.
  induction l1 as [|a l1 IH]; cbn; auto. intros N1 N2 D. inversion N1; subst. constructor.
  - intros Hin. apply in_app_or in Hin. destruct Hin; [contradiction | apply (D a); auto].
  - apply IH; auto. intros e He1 He2. apply (D e); auto.
Qed.
Lemma NoDup_map_in {X Y} (f : X -> Y) l : NoDup l -> (forall a b, In a l -> In b l -> f a = f b -> a = b) -> NoDup (map f l).
Proof.
  induction 1 as [|a l Ha N IH]; cbn; intros Inj; constructor.
  - intros Hin. apply in_map_iff in Hin. destruct Hin as [b [E Hb]]. assert (b = a) by (apply Inj; auto). subst. contradiction.
  - apply IH. intros; apply Inj; auto.
Qed.
Lemma NoDup_flat_map_key {X Y Z} (f : X -> list Y) (g : Y -> Z) (h : X -> Z) l :
  NoDup (map h l) -> (forall a, In a l -> NoDup (f a)) -> (forall a e, In a l -> In e (f a) -> g e = h a) -> NoDup (flat_map f l).
Proof.
  induction l as [|a l IH]; cbn; intros N F K; [constructor|]. inversion N; subst. apply NoDup_app'.
  - apply F. auto.
  - apply IH; auto.
  - intros e He1 He2. apply in_flat_map in He2. destruct He2 as [b [Hb He]]. apply H1.
    rewrite <- (K a e) by auto. rewrite (K b e) by auto. apply in_map. exact Hb.
Qed.
Lemma ssorted_cmp_nodup l : StronglySorted (fun a b => cmp a b < 0) l -> NoDup l.
Proof.
  induction 1; constructor; auto. intros Hin. rewrite Forall_forall in H0. specialize (H0 _ Hin). rewrite cmp_refl in H0. lia.
Qed.
Lemma map_const_seq {X} (c : X) : forall n s, map (fun _ => c) (seq s n) = repeat c n.
Proof. induction n; intros s; cbn; auto. rewrite IHn. reflexivity. Qed.

(* group keys and labels are cells of actual rows *)
Lemma pv_xg_rep m KS gi : In gi (pv_xg m KS) -> exists k0, In k0 KS /\ fst gi = tuple_firstn m k0.
Proof.
  intros H. apply listby_groups_rep_in in H. apply in_map_iff in H. destruct H as [xy [E Hxy]]. unfold pv_xys in Hxy.
  apply in_map_iff in Hxy. destruct Hxy as [g [<- Hg]]. exists (fst g). split; [apply listby_groups_rep_in; exact Hg | symmetry; exact E].
Qed.
Lemma pv_YL_rep m KS v : In v (pv_ylabels m KS) -> exists k0, In k0 KS /\ v = tuple_nth m k0.
Proof.
  intros H. unfold pv_ylabels in H. apply in_map_iff in H. destruct H as [gy [<- Hgy]]. apply listby_groups_rep_in in Hgy.
  apply in_map_iff in Hgy. destruct Hgy as [xy [<- Hxy]]. unfold pv_xys in Hxy. apply in_map_iff in Hxy. destruct Hxy as [g [<- Hg]].
  exists (fst g). split; [apply listby_groups_rep_in; exact Hg | reflexivity].
Qed.
Lemma keys_of_row x y t k0 : In k0 (keys_of (x ++ [y]) t) -> exists i, (i < nrows t)%nat /\
  tuple_firstn (length x) k0 = key_cols x (row t i) /\ tuple_nth (length x) k0 = lookup (row t i) y.
Proof.
  intros H. unfold keys_of in H. apply in_map_iff in H. destruct H as [r [<- Hr]]. unfold rows in Hr. apply in_map_iff in Hr.
  destruct Hr as [i [<- Hi]]. apply in_seq in Hi. exists i. split; [lia|]. rewrite key_cols_xy.
  rewrite tuple_firstn_shape, tuple_nth_shape by apply map_length. split; reflexivity.
Qed.

Section Perm.
  Variables (x : list colname) (y z : colname) (a : agg) (t : table).
  Hypothesis Hx : x <> [].
  Hypothesis NDx : NoDup x.
  Hypothesis Hy : Forall scalar_nf (getcol t y).
  Hypothesis Ha : a = ALast \/ a = AFirst.
  Hypothesis U : forall i i', (i < nrows t)%nat -> (i' < nrows t)%nat ->
     cmp (key_cols (x ++ [y]) (row t i)) (key_cols (x ++ [y]) (row t i')) = 0 -> i = i'.
  Hypothesis ZN : forall i, (i < nrows t)%nat -> nth i (getcol t z) VNone <> VNone.
  (* == x keys / y values are identical (no 1 next to 1.0, one NaN object), and different y values have different labels *)
  Hypothesis EXx : forall i i', (i < nrows t)%nat -> (i' < nrows t)%nat ->
     cmp (key_cols x (row t i)) (key_cols x (row t i')) = 0 -> key_cols x (row t i) = key_cols x (row t i').
  Hypothesis EXy : forall i i', (i < nrows t)%nat -> (i' < nrows t)%nat ->
     cmp (lookup (row t i) y) (lookup (row t i') y) = 0 -> lookup (row t i) y = lookup (row t i') y.
  Hypothesis LI : forall i i', (i < nrows t)%nat -> (i' < nrows t)%nat ->
     label_of (lookup (row t i) y) = label_of (lookup (row t i') y) -> lookup (row t i) y = lookup (row t i') y.
  Let KS := keys_of (x ++ [y]) t.
  Let m := length x.
  Let xg := pv_xg m KS.
  Let YL := pv_ylabels m KS.
  Let zs := getcol t z.

  Lemma perm_xrep gi : In gi xg -> exists i, (i < nrows t)%nat /\ fst gi = key_cols x (row t i).
  Proof.
    intros H. destruct (pv_xg_rep m KS gi H) as [k0 [Hk E]]. destruct (keys_of_row x y t k0 Hk) as [i [Hi [E1 _]]].
    exists i. split; [exact Hi|]. rewrite E. exact E1.
  Qed.
  Lemma perm_yrep k : (k < length YL)%nat -> exists i, (i < nrows t)%nat /\ nth k YL VNone = lookup (row t i) y.
  Proof.
    intros H. destruct (pv_YL_rep m KS (nth k YL VNone) (nth_In _ _ H)) as [k0 [Hk E]]. destruct (keys_of_row x y t k0 Hk) as [i [Hi [_ E2]]].
    exists i. split; [exact Hi|]. rewrite E. exact E2.
  Qed.

  Lemma t_triples_nodup : NoDup (t_triples x y z t).
  Proof.
    unfold t_triples. apply NoDup_map_in; [apply seq_NoDup|]. intros i i' Hi Hi' E. apply in_seq in Hi, Hi'. inversion E as [[E1 E2 E3]].
    apply U; try lia. rewrite !key_cols_xy. apply cmp_xy_split; [rewrite !map_length; reflexivity|].
    rewrite E1. split; [apply cmp_refl|].
    rewrite (LI i i') by (auto; lia). apply cmp_refl.
  Qed.
  Lemma YL_label_inj k k' : (k < length YL)%nat -> (k' < length YL)%nat ->
    label_of (nth k YL VNone) = label_of (nth k' YL VNone) -> k = k'.
  Proof.
    intros Hk Hk' E. destruct (perm_yrep k Hk) as [i [Hi Ei]]. destruct (perm_yrep k' Hk') as [i' [Hi' Ei']].
    rewrite Ei, Ei' in E. apply LI in E; auto. rewrite <- Ei, <- Ei' in E.
    pose proof (ssorted_cmp_nodup YL (pv_YL_sorted m KS)) as ND. apply (proj1 (NoDup_nth YL VNone) ND); auto.
  Qed.
  Lemma u_triples_nodup : NoDup (u_triples m KS zs a).
  Proof.
    unfold u_triples. fold xg. fold YL.
    apply (NoDup_flat_map_key _ (fun tr : val * val * val => fst (fst tr)) (fun gi : val * list nat => fst gi)).
    - apply ssorted_cmp_nodup. apply (pv_xg_sorted m KS).
    - intros gi _. apply NoDup_map_in; [apply seq_NoDup|]. intros k k' Hk Hk' E. apply in_seq in Hk, Hk'. inversion E as [[E1 E2]].
      apply YL_label_inj; auto; lia.
    - intros gi e _ He. apply in_map_iff in He. destruct He as [k [<- _]]. reflexivity.
  Qed.

  Theorem unpivot_pivot_perm : Permutation (filter z_some (u_triples m KS zs a)) (t_triples x y z t).
  Proof.
    apply NoDup_Permutation; [apply NoDup_filter, u_triples_nodup | apply t_triples_nodup|].
    pose proof (pivot_cell_unique x y z a t Hy Ha U) as PU. cbv zeta in PU. fold KS m xg YL zs in PU.
    destruct (pivot_cell_table x y z a t Hy) as [_ [_ [_ [_ HC]]]]. fold KS m xg YL zs in HC.
    intros tr. split.
    - intros H. apply filter_In in H. destruct H as [H ZS]. unfold u_triples in H. fold xg YL in H. apply in_flat_map in H. destruct H as [gi [Hgi H]].
      apply in_map_iff in H. destruct H as [k [<- Hk]]. apply in_seq in Hk. assert (Hk' : (k < length YL)%nat) by lia.
      destruct (PU gi k Hgi Hk') as [[EN _]|[i [Hi [[MX MY] [Ei _]]]]].
      + unfold z_some in ZS. cbn [snd] in ZS. rewrite EN in ZS. discriminate.
      + unfold t_triples. apply in_map_iff. exists i. split; [|apply in_seq; lia].
        destruct (perm_xrep gi Hgi) as [i1 [Hi1 E1]]. destruct (perm_yrep k Hk') as [i2 [Hi2 E2]].
        rewrite E1 in MX |- *. rewrite E2 in MY |- *. rewrite (EXx i i1 Hi Hi1 MX), (EXy i i2 Hi Hi2 MY). fold zs. rewrite Ei. reflexivity.
    - intros H. unfold t_triples in H. apply in_map_iff in H. destruct H as [i [<- Hi]]. apply in_seq in Hi. assert (Hi' : (i < nrows t)%nat) by lia.
      destruct (HC i Hi') as [gi [k [Hgi [Hk [MX MY]]]]].
      assert (EC : pv_cell m KS zs a gi k = nth i zs VNone).
      { destruct (PU gi k Hgi Hk) as [[_ L]|[i0 [Hi0 [Mi0 [Ei0 Ui0]]]]]; [exfalso; apply (L i Hi'); split; assumption|].
        rewrite Ei0. f_equal. symmetry. apply Ui0; [exact Hi' | split; assumption]. }
      destruct (perm_xrep gi Hgi) as [i1 [Hi1 E1]]. destruct (perm_yrep k Hk) as [i2 [Hi2 E2]].
      apply filter_In. split.
      + unfold u_triples. fold xg YL. apply in_flat_map. exists gi. split; [exact Hgi|]. apply in_map_iff. exists k. split; [|apply in_seq; lia].
        rewrite EC. rewrite E1 in MX |- *. rewrite E2 in MY |- *. rewrite (EXx i i1 Hi' Hi1 MX), (EXy i i2 Hi' Hi2 MY). reflexivity.
      + unfold z_some. cbn [snd]. fold zs. pose proof (ZN i Hi') as NZ. fold zs in NZ. destruct (nth i zs VNone); try reflexivity. congruence.
  Qed.

  (* and these triples are the rows of the unpivoted table, column by column *)
  Theorem unpivot_pivot_columns : Forall (fun l => in_names (label_of l) x = false) YL ->
    unpivot x y z (pivot x y z a t) =
    map (fun jc => (snd jc, map (fun tr : val * val * val => tuple_nth (fst jc) (fst (fst tr))) (u_triples m KS zs a))) (combine (seq 0 (length x)) x)
    ++ [(y, map (fun tr : val * val * val => snd (fst tr)) (u_triples m KS zs a)); (z, map (fun tr : val * val * val => snd tr) (u_triples m KS zs a))].
  Proof.
    intros NC. rewrite (unpivot_pivot_table x y z a t Hx NDx NC). fold KS m xg YL zs. unfold u_triples. fold xg YL.
    f_equal; [apply map_ext; intros [j c]; cbn [fst snd]; f_equal | f_equal; [|f_equal]; f_equal].
    - rewrite map_flat_map. apply flat_map_ext_in'. intros gi _. rewrite map_map. cbn [fst]. symmetry. apply map_const_seq.
    - rewrite map_flat_map. apply flat_map_ext_in'. intros gi _. rewrite map_map. cbn [fst snd].
      rewrite <- (map_nth_seq VNone YL 0%nat) at 1. rewrite map_map. apply map_ext. intros k. rewrite Nat.sub_0_r. reflexivity.
    - rewrite map_flat_map. apply flat_map_ext_in'. intros gi _. rewrite map_map. reflexivity.
  Qed.
End Perm.
