(* C11: the run-length grouping of the stably sorted keys *)
From Coq Require Import ZArith List Bool Lia Permutation Sorted.
From PB Require Import model.M_sort model.M_group proofs.P_sort.
Import ListNotations.
Open Scope Z_scope.

(* one step of the loop *)
Lemma group_cons k i k2 i2 l :
  group ((k, i) :: (k2, i2) :: l) =
  match group ((k2, i2) :: l) with
  | (rep, is_) :: g => if key_eqb k2 k then (rep, i :: is_) :: g else (k, [i]) :: (rep, is_) :: g
  | [] => [(k, [i])]
  end.
Proof. reflexivity. Qed.
Lemma group_ne k i l : group ((k, i) :: l) <> [].
Proof.
  revert k i. induction l as [|[k2 i2] l IH]; intros k i; [cbn; congruence|]. rewrite group_cons.
  destruct (group ((k2, i2) :: l)) as [|[rep is_] g]; [congruence|]. destruct (key_eqb k2 k); congruence.
Qed.

(* the groups list every row index exactly once, in the sorted order *)
Lemma group_flat l : flat_map snd (group l) = map snd l.
Proof.
  induction l as [|[k i] l IH]; [reflexivity|]. destruct l as [|[k2 i2] l']; [reflexivity|]. rewrite group_cons.
  destruct (group ((k2, i2) :: l')) as [|[rep is_] g] eqn:E; [exfalso; eapply group_ne; eauto|].
  destruct (key_eqb k2 k); cbn [flat_map snd map app] in *; rewrite <- IH; reflexivity.
Qed.
Lemma group_nonempty l : Forall (fun g => snd g <> []) (group l).
Proof.
  induction l as [|[k i] l IH]; [constructor|]. destruct l as [|[k2 i2] l']; [repeat constructor; cbn; congruence|]. rewrite group_cons.
  destruct (group ((k2, i2) :: l')) as [|[rep is_] g] eqn:E; [repeat constructor; cbn; congruence|].
  inversion IH; subst. destruct (key_eqb k2 k); repeat constructor; cbn; auto; congruence.
Qed.
Lemma length_flat_map {A B} (f : A -> list B) l : length (flat_map f l) = fold_right (fun a s => (length (f a) + s)%nat) 0%nat l.
Proof. induction l; cbn; auto. rewrite app_length, IHl. reflexivity. Qed.

(* == on the keys present coincides with cmp = 0 (true for NaN-free scalar keys, and when the NaN cells of a key column are one object) *)
Definition eq_cmp_compat (ks : list val) : Prop := forall a b, In a ks -> In b ks -> (key_eqb a b = true <-> cmp a b = 0).

Section Grouping.
  Variable l : list (val * nat).
  Hypothesis H : eq_cmp_compat (map fst l).
  Hypothesis S : StronglySorted (fun a b => cmp (fst a) (fst b) <= 0) l.

  Lemma cmp0_sym a b : cmp a b = 0 -> cmp b a = 0.
  Proof. intros E. rewrite cmp_antisym, E. reflexivity. Qed.
End Grouping.

(* the key a group is filed under compares 0 with the key of the first row of the run *)
Lemma group_head_rep : forall l k i rep is_ g, eq_cmp_compat (map fst ((k, i) :: l)) ->
  group ((k, i) :: l) = (rep, is_) :: g -> cmp k rep = 0.
Proof.
  induction l as [|[k2 i2] l' IH]; intros k i rep is_ g H G.
  - cbn in G. inversion G; subst. apply cmp_refl.
  - rewrite group_cons in G.
    assert (H' : eq_cmp_compat (map fst ((k2, i2) :: l'))) by (intros a b Ha Hb; apply H; right; auto).
    destruct (group ((k2, i2) :: l')) as [|[rep' is'] g'] eqn:E; [inversion G; subst; apply cmp_refl|].
    specialize (IH k2 i2 rep' is' g' H' E).
    destruct (key_eqb k2 k) eqn:K; inversion G; subst; [|apply cmp_refl].
    apply H in K; [|right; left; reflexivity|left; reflexivity].
    rewrite (cmp_eq_compat_l k k2 rep); [exact IH|]. rewrite cmp_antisym, K. reflexivity.
Qed.

(* one group per distinct key: the groups' keys are strictly increasing under cmp *)
Lemma group_reps_increasing : forall l, eq_cmp_compat (map fst l) ->
  StronglySorted (fun a b => cmp (fst a) (fst b) <= 0) l -> StronglySorted (fun a b => cmp a b < 0) (map fst (group l)).
Proof.
  induction l as [|[k i] l IH]; intros H S; [constructor|]. destruct l as [|[k2 i2] l']; [repeat constructor|]. rewrite group_cons.
  assert (H' : eq_cmp_compat (map fst ((k2, i2) :: l'))) by (intros a b Ha Hb; apply H; right; auto).
  inversion S as [|? ? S' F]; subst. specialize (IH H' S').
  destruct (group ((k2, i2) :: l')) as [|[rep is_] g] eqn:E; [repeat constructor|]. pose proof (group_head_rep _ _ _ _ _ _ H' E) as HR.
  destruct (key_eqb k2 k) eqn:K; [exact IH|].
  cbn [map fst] in *. constructor; [exact IH|].
  assert (L : cmp k k2 < 0).
  { inversion F; subst. cbn in H2. destruct (Z.eq_dec (cmp k k2) 0) as [Z0|]; [|lia].
    assert (key_eqb k2 k = true); [|congruence]. apply H; [right; left; reflexivity | left; reflexivity |]. rewrite cmp_antisym, Z0. reflexivity. }
  assert (L2 : cmp k rep < 0) by (rewrite (cmp_eq_compat_r k k2 rep HR); exact L).
  constructor; [exact L2|]. inversion IH; subst. eapply Forall_impl; [|exact H3]. intros r Hr. cbn beta in Hr.
  apply (cmp_lt_le_trans k rep r); lia.
Qed.

(* every row sits in the group whose key compares 0 with its own *)
Lemma group_members : forall l, eq_cmp_compat (map fst l) ->
  Forall (fun g => forall i, In i (snd g) -> exists k, In (k, i) l /\ cmp k (fst g) = 0) (group l).
Proof.
  induction l as [|[k i] l IH]; intros H; [constructor|].
  destruct l as [|[k2 i2] l']. { repeat constructor. cbn. intros j [<-|[]]. exists k. split; auto. apply cmp_refl. }
  rewrite group_cons.
  assert (H' : eq_cmp_compat (map fst ((k2, i2) :: l'))) by (intros a b Ha Hb; apply H; right; auto).
  specialize (IH H').
  assert (W : forall g, (forall j, In j (snd g) -> exists k0, In (k0, j) ((k2, i2) :: l') /\ cmp k0 (fst g) = 0) ->
                        (forall j, In j (snd g) -> exists k0, In (k0, j) ((k, i) :: (k2, i2) :: l') /\ cmp k0 (fst g) = 0)).
  { intros g Hg j Hj. destruct (Hg j Hj) as [k0 [I0 C0]]. exists k0. split; [right; exact I0 | exact C0]. }
  destruct (group ((k2, i2) :: l')) as [|[rep is_] g] eqn:E.
  { repeat constructor. cbn. intros j [<-|[]]. exists k. split; [left; reflexivity | apply cmp_refl]. }
  inversion IH as [|? ? I1 I2]; subst. pose proof (group_head_rep _ _ _ _ _ _ H' E) as HR.
  destruct (key_eqb k2 k) eqn:K.
  - constructor; [|eapply Forall_impl; [|exact I2]; intros a Ha; apply W; exact Ha].
    cbn [fst snd] in *. intros j [<-|Hj]; [|apply (W (rep, is_)); auto].
    exists k. split; [left; reflexivity|].
    apply H in K; [|right; left; reflexivity|left; reflexivity].
    rewrite (cmp_eq_compat_l k k2 rep); [exact HR|]. rewrite cmp_antisym, K. reflexivity.
  - constructor; [|constructor; [apply (W (rep, is_)); exact I1 | eapply Forall_impl; [|exact I2]; intros a Ha; apply W; exact Ha]].
    cbn. intros j [<-|[]]. exists k. split; [left; reflexivity | apply cmp_refl].
Qed.

(* ---- _listby on the keys of a table *)
Lemma sorted_pairs_snd ks : map snd (sorted_pairs ks) = dsort_idx ks.
Proof. unfold sorted_pairs. rewrite map_map. cbn. apply map_id. Qed.
Lemma sorted_pairs_fst_in ks a : In a (map fst (sorted_pairs ks)) -> In a ks.
Proof.
  unfold sorted_pairs. rewrite map_map. cbn. intros Ha. apply in_map_iff in Ha. destruct Ha as [i [<- Hi]].
  apply nth_In. pose proof (dsort_idx_lt ks) as B. rewrite Forall_forall in B. apply B. exact Hi.
Qed.
Lemma sorted_pairs_sorted ks : StronglySorted (fun a b => cmp (fst a) (fst b) <= 0) (sorted_pairs ks).
Proof.
  unfold sorted_pairs. pose proof (proj2 (dsort_idx_stable ks)) as S.
  induction S; cbn [map]; constructor; auto.
  apply Forall_forall. intros p Hp. apply in_map_iff in Hp. destruct Hp as [j [<- Hj]]. cbn [fst].
  rewrite Forall_forall in H. specialize (H j Hj). unfold key_lt in H. lia.
Qed.

Theorem listby_groups_flat ks : flat_map snd (listby_groups ks) = dsort_idx ks.
Proof. unfold listby_groups. rewrite group_flat. apply sorted_pairs_snd. Qed.

Theorem listby_groups_perm ks : Permutation (flat_map snd (listby_groups ks)) (seq 0 (length ks)).
Proof. rewrite listby_groups_flat. apply dsort_idx_stable. Qed.

Theorem listby_groups_sizes ks : fold_right (fun g s => (length (snd g) + s)%nat) 0%nat (listby_groups ks) = length ks.
Proof. rewrite <- length_flat_map, listby_groups_flat. apply dsort_idx_length. Qed.

Theorem listby_groups_one_per_key ks : eq_cmp_compat ks ->
  StronglySorted (fun a b => cmp a b < 0) (map fst (listby_groups ks)) /\
  Forall (fun g => snd g <> [] /\ forall i, In i (snd g) -> (i < length ks)%nat /\ cmp (nth i ks VNone) (fst g) = 0) (listby_groups ks).
Proof.
  intros H. assert (H' : eq_cmp_compat (map fst (sorted_pairs ks))) by (intros a b Ha Hb; apply H; apply sorted_pairs_fst_in; auto).
  split; [apply group_reps_increasing; [exact H' | apply sorted_pairs_sorted]|].
  pose proof (group_members _ H') as M. pose proof (group_nonempty (sorted_pairs ks)) as NE. unfold listby_groups.
  rewrite Forall_forall in *. intros g Hg. split; [apply NE; auto|]. intros i Hi. destruct (M g Hg i Hi) as [k [Ik Ck]].
  unfold sorted_pairs in Ik. apply in_map_iff in Ik. destruct Ik as [j [Ej Hj]]. inversion Ej; subst.
  split; [|exact Ck]. pose proof (dsort_idx_lt ks) as B. rewrite Forall_forall in B. apply B. exact Hj.
Qed.

(* within a group the row indices increase: values are listed in original row order *)
Lemma run_increasing ks rep : forall (is_ rest : list nat), (forall i, In i is_ -> cmp (nth i ks VNone) rep = 0) ->
  StronglySorted (key_lt ks) (is_ ++ rest) -> StronglySorted (fun i j => (i < j)%nat) is_.
Proof.
  induction is_ as [|i is_ IH]; intros rest M S; [constructor|]. cbn [app] in S. inversion S as [|? ? S' F]; subst.
  constructor; [apply (IH rest); [intros j Hj; apply M; right; exact Hj | exact S']|].
  rewrite Forall_forall in *. intros j Hj. specialize (F j (in_or_app _ _ _ (or_introl Hj))). unfold key_lt in F.
  destruct F as [F|[_ F]]; [|exact F]. exfalso.
  pose proof (M i (or_introl eq_refl)) as Ci. pose proof (M j (or_intror Hj)) as Cj.
  rewrite (cmp_eq_compat_r _ _ _ (cmp0_sym _ _ Cj)) in F. rewrite Ci in F. lia.
Qed.
Lemma ssorted_app_r {X} (R : X -> X -> Prop) a : forall b, StronglySorted R (a ++ b) -> StronglySorted R b.
Proof. induction a; cbn; auto. intros b S. inversion S; auto. Qed.
Theorem listby_groups_original_order ks : eq_cmp_compat ks ->
  Forall (fun g => StronglySorted (fun i j => (i < j)%nat) (snd g)) (listby_groups ks).
Proof.
  intros H. destruct (listby_groups_one_per_key ks H) as [_ M].
  pose proof (proj2 (dsort_idx_stable ks)) as S. rewrite <- listby_groups_flat in S.
  induction (listby_groups ks) as [|g gs IH]; [constructor|]. inversion M as [|? ? [_ Mg] Ms]; subst.
  cbn [flat_map] in S. constructor.
  - apply (run_increasing ks (fst g) (snd g) (flat_map snd gs)); [intros i Hi; apply Mg; exact Hi | exact S].
  - apply IH; [exact Ms | apply (ssorted_app_r _ _ _ S)].
Qed.

(* ---- groupby *)
Lemma nrows_gather_table (cols : table) is_ : cols <> [] -> nrows (map (fun cv => (fst cv, gather VNone (snd cv) is_)) cols) = length is_.
Proof. destruct cols as [|[c vs] cols]; [congruence|]. intros _. cbn. unfold gather. apply map_length. Qed.

Theorem groupby_sizes_sum by_ t kt subs : nonkey (all_if_none by_ t) t <> [] -> groupby by_ t = Some (kt, subs) ->
  fold_right (fun s n => (nrows s + n)%nat) 0%nat subs = nrows t /\ length (match kt with [] => [] | cv :: _ => snd cv end) = length subs.
Proof.
  intros NK. unfold groupby. destruct (nrows t) eqn:E. { intros G. inversion G; subst. cbn. split; auto. destruct kt as [|[c vs] kt]; cbn in *; auto. }
  destruct (Nat.eqb _ _); [discriminate|]. intros G. inversion G; subst. clear G. split.
  - rewrite <- (keys_length (key_cols (all_if_none by_ t)) t) in E. fold (keys_of (all_if_none by_ t) t) in E. rewrite <- E.
    rewrite <- (listby_groups_sizes (keys_of (all_if_none by_ t) t)).
    induction (listby_groups (keys_of (all_if_none by_ t) t)) as [|g gs IH]; [reflexivity|]. cbn [map fold_right]. rewrite IH.
    rewrite nrows_gather_table by exact NK. reflexivity.
  - unfold key_table. destruct (all_if_none by_ t) as [|c cs] eqn:B; cbn; rewrite ?map_length; auto.
    (* no key column at all: only when the table has no columns, which nrows t = S n excludes *)
    unfold all_if_none in B. destruct by_; [|discriminate]. destruct t; [cbn in E; discriminate | discriminate].
Qed.
(* ---- the precondition eq_cmp_compat holds for NaN-free scalar key tuples *)
Definition scalar_nf (v : val) : Prop := match v with VNone | VNum _ _ | VStr _ | VDate _ => True | _ => False end.
Lemma scalar_nf_norm v : scalar_nf v -> norm v = v.
Proof. destruct v; cbn; tauto. Qed.
Lemma elem_eqb_cmpn x y : scalar_nf x -> scalar_nf y -> (elem_eqb x y = true <-> cmpn x y = Eq).
Proof.
  destruct x, y; cbn [scalar_nf]; try tauto; intros _ _; rewrite cmpn_eq; cbn [rank len0 cmpn_body body_scalar numkey cmp_ext elem_eqb];
    rewrite ?Z.compare_refl; cbn [thenc]; try (cbn; split; congruence).
  - rewrite Z.eqb_eq, Z.compare_eq_iff. tauto.
  - destruct (cmp_str s s0); split; congruence.
  - rewrite Z.eqb_eq, Z.compare_eq_iff. tauto.
Qed.
Lemma thenc_Eq c d : thenc c d = Eq <-> c = Eq /\ d = Eq.
Proof. destruct c; cbn; split; intros; try tauto; try congruence; destruct H; congruence. Qed.
Lemma forallb_lexz : forall a b, Forall scalar_nf a -> Forall scalar_nf b -> length a = length b ->
  (forallb (fun p => elem_eqb (fst p) (snd p)) (combine a b) = true <-> lexz cmpn a b = Eq).
Proof.
  induction a as [|x a IH]; destruct b as [|y b]; cbn [length]; try discriminate; intros Fa Fb L; [cbn; tauto|].
  inversion Fa; inversion Fb; subst. cbn [combine forallb fst snd]. unfold lexz in *. cbn [lexp]. rewrite andb_true_iff, thenc_Eq.
  rewrite (elem_eqb_cmpn x y) by auto. rewrite IH by (auto; lia). tauto.
Qed.
Lemma map_norm_id l : Forall scalar_nf l -> map norm l = l.
Proof. induction 1; cbn; auto. rewrite scalar_nf_norm, IHForall; auto. Qed.
Theorem scalar_keys_compat ks : Forall (fun k => exists l, k = VTuple l /\ Forall scalar_nf l) ks -> eq_cmp_compat ks.
Proof.
  intros F a b Ha Hb. rewrite Forall_forall in F. destruct (F a Ha) as [la [-> Fa]]. destruct (F b Hb) as [lb [-> Fb]].
  unfold cmp, cmpc. cbn [norm key_eqb]. rewrite !map_norm_id by auto. rewrite cmpn_eq. cbn [rank len0 cmpn_body]. rewrite Z.compare_refl. cbn [thenc].
  destruct (Nat.eqb_spec (length la) (length lb)) as [E|E].
  - rewrite E, Z.compare_refl. cbn [thenc andb]. rewrite (forallb_lexz la lb Fa Fb E). destruct (lexz cmpn la lb); cbn; split; congruence.
  - cbn [andb]. destruct (Z.compare_spec (Z.of_nat (length la)) (Z.of_nat (length lb))); cbn; try lia; split; congruence.
Qed.
