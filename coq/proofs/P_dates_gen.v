(* Bridge: the text generated from /repo/src/pyg_base/_dates.py by the translator
   computes the same function as the hand-written model the theorems are about.
   A semantic edit of the Python arithmetic breaks a Qed here. *)
From Coq Require Import ZArith List Bool Lia ZifyBool.
From PB Require Import model.M_cal model.M_dates.
From PB Require gen.Gen_dates.
Open Scope Z_scope.
Ltac Zify.zify_post_hook ::= Z.to_euclidean_division_equations.

Lemma gen_ym y m : Gen_dates.ym y m = Some (ym y m).
Proof. reflexivity. Qed.

Lemma gen_ymd y m d : Gen_dates.u_ymd y m d = ymd_us y m d.
Proof.
  unfold Gen_dates.u_ymd, ymd_us. rewrite !gen_ym.
  destruct ((1500 <? d) && (d <? 3000) && (0 <? y) && (y <? 32) && (0 <? m) && (m <? 13));
  match goal with |- context [ym ?a ?b] => destruct (ym a b) as [y2 m2] end;
  destruct (mk_datetime y2 m2 1); reflexivity.
Qed.

Lemma gen_bump_d t k : Gen_dates.bump_d t k = bump1 t (k, UD). Proof. reflexivity. Qed.
Lemma gen_bump_w t k : Gen_dates.bump_w t k = bump1 t (k, UW). Proof. reflexivity. Qed.
Lemma gen_bump_h t k : Gen_dates.bump_h t k = bump1 t (k, UH). Proof. reflexivity. Qed.
Lemma gen_bump_n t k : Gen_dates.bump_n t k = bump1 t (k, UN). Proof. reflexivity. Qed.
Lemma gen_bump_s t k : Gen_dates.bump_s t k = bump1 t (k, US). Proof. reflexivity. Qed.
Lemma gen_bump_m t k : Gen_dates.bump_m t k = bump1 t (k, UM).
Proof. unfold Gen_dates.bump_m, bump1. rewrite gen_ymd. destruct (ymd_us _ _ _); reflexivity. Qed.
Lemma gen_bump_q t k : Gen_dates.bump_q t k = bump1 t (k, UQ).
Proof. unfold Gen_dates.bump_q, bump1. rewrite gen_ymd. destruct (ymd_us _ _ _); reflexivity. Qed.
Lemma gen_bump_y t k : Gen_dates.bump_y t k = bump1 t (k, UY).
Proof. unfold Gen_dates.bump_y, bump1. rewrite gen_ymd. destruct (ymd_us _ _ _); reflexivity. Qed.
Lemma gen_bump_b t k : Gen_dates.bump_b t k = bump1 t (k, UB).
Proof.
  unfold Gen_dates.bump_b, bump1, bump_b, delta_b.
  destruct (4 <? weekday t) eqn:E1;
  repeat match goal with |- context [if ?c then _ else _] => destruct c eqn:? end; f_equal; lia.
Qed.

(* the exact amounts added by the fixed-length units *)
Lemma fixed_units t k :
  bump1 t (k, UD) = Some (t + k * DAYUS) /\ bump1 t (k, UW) = Some (t + 7 * k * DAYUS) /\
  bump1 t (k, UH) = Some (t + k * 3600000000) /\ bump1 t (k, UN) = Some (t + k * 60000000) /\
  bump1 t (k, US) = Some (t + k * 1000000).
Proof. cbn [bump1]. unfold DAYUS. repeat split; apply f_equal; lia. Qed.
Lemma fixed_units_inverse t k u t' : (u = UD \/ u = UW \/ u = UH \/ u = UN \/ u = US) ->
  bump1 t (k, u) = Some t' -> bump1 t' (- k, u) = Some t.
Proof.
  intros Hu H. destruct Hu as [-> | [-> | [-> | [-> | ->]]]]; cbn [bump1] in *;
  match goal with H0 : Some ?a = Some t' |- _ => assert (E : a = t') by congruence; clear H0; subst t' end;
  apply f_equal; unfold DAYUS; lia.
Qed.
