(* C12 — lemmas about the fill model (M_fill): vectors first, then frames. *)
From Coq Require Import ZArith List Bool Arith Lia.
From PB Require Import model.M_fill.
Import ListNotations.

(* ------------------------------------------------------------------ vectors *)
Definition obs_at (v : vec) (p : nat) (x : val) := nth_error v p = Some (Some x).
Definition nan_at (v : vec) (q : nat) := nth_error v q = Some None.

Lemma ffill_from_length lim v : forall last d, length (ffill_from lim last d v) = length v.
Proof. induction v as [|[x|] t IH]; intros; simpl; auto. Qed.
Lemma ffill_length lim v : length (ffill lim v) = length v.
Proof. apply ffill_from_length. Qed.
Lemma bfill_length lim v : length (bfill lim v) = length v.
Proof. unfold bfill. now rewrite rev_length, ffill_length, rev_length. Qed.
Lemma cfill_from_length lim c v : forall u, length (cfill_from lim u c v) = length v.
Proof. induction v as [|[x|] t IH]; intros; simpl; auto. Qed.
Lemma cfill_length lim c v : length (cfill lim c v) = length v.
Proof. apply cfill_from_length. Qed.

(* observations are never changed *)
Lemma ffill_from_keeps lim v : forall last d i x, obs_at v i x -> obs_at (ffill_from lim last d v) i x.
Proof.
  unfold obs_at. induction v as [|[y|] t IH]; intros last d [|i] x H; simpl in *; try discriminate; auto.
Qed.
Lemma cfill_from_keeps lim c v : forall u i x, obs_at v i x -> obs_at (cfill_from lim u c v) i x.
Proof.
  unfold obs_at. induction v as [|[y|] t IH]; intros u [|i] x H; simpl in *; try discriminate; auto.
Qed.

(* the run counter: which NaN does ffill reach *)
Lemma ffill_from_spec lim : forall v last d i, nan_at v i ->
  (forall p x, p < i -> obs_at v p x -> (forall q, p < q < i -> nan_at v q) ->
     nth_error (ffill_from lim last d v) i = Some (if within lim (i - p) then Some x else None))
  /\ ((forall q, q < i -> nan_at v q) ->
     nth_error (ffill_from lim last d v) i =
       Some (match last with Some x => if within lim (d + S i) then Some x else None | None => None end)).
Proof.
  unfold obs_at, nan_at.
  induction v as [|c t IH]; intros last d i Hi; [destruct i; discriminate|].
  destruct i as [|i].
  - simpl in Hi. injection Hi as ->. split.
    + intros p x Hp. lia.
    + intros _. simpl. replace (d + 1) with (S d) by lia. reflexivity.
  - simpl in Hi. destruct c as [y|]; simpl.
    + destruct (IH (Some y) 0 i Hi) as [IH1 IH2]. split.
      * intros [|p] x Hp Hx Hq.
        -- simpl in Hx. injection Hx as <-.
           rewrite IH2. { simpl. replace (S i - 0) with (S i) by lia. reflexivity. }
           intros q Hq'. apply (Hq (S q)). lia.
        -- simpl in Hx. rewrite (IH1 p x); [reflexivity | lia | exact Hx |].
           intros q Hq'. apply (Hq (S q)). lia.
      * intros Hq. specialize (Hq 0 ltac:(lia)). simpl in Hq. discriminate.
    + destruct (IH last (S d) i Hi) as [IH1 IH2]. split.
      * intros [|p] x Hp Hx Hq.
        -- simpl in Hx. discriminate.
        -- simpl in Hx. rewrite (IH1 p x); [reflexivity | lia | exact Hx |].
           intros q Hq'. apply (Hq (S q)). lia.
      * intros Hq. rewrite IH2.
        -- replace (S d + S i) with (d + S (S i)) by lia. reflexivity.
        -- intros q Hq'. apply (Hq (S q)). lia.
Qed.

Theorem ffill_limit_exact lim v i : nan_at v i ->
  (forall p x, p < i -> obs_at v p x -> (forall q, p < q < i -> nan_at v q) ->
     nth_error (ffill lim v) i = Some (if within lim (i - p) then Some x else None))
  /\ ((forall q, q < i -> nan_at v q) -> nth_error (ffill lim v) i = Some None).
Proof. intros H. exact (ffill_from_spec lim v None 0 i H). Qed.

Lemma ffill_keeps lim v i x : obs_at v i x -> obs_at (ffill lim v) i x.
Proof. apply ffill_from_keeps. Qed.

(* reversal bookkeeping *)
Lemma nth_error_rev {A} (l : list A) i : i < length l -> nth_error (rev l) i = nth_error l (length l - S i).
Proof.
  intros H. destruct l as [|a l']; [simpl in H; lia|].
  set (l := a :: l') in *.
  rewrite (nth_error_nth' (rev l) a) by (rewrite rev_length; exact H).
  rewrite rev_nth by exact H.
  rewrite (nth_error_nth' l a) by lia. reflexivity.
Qed.
Lemma nth_error_Some_lt {A} (l : list A) i a : nth_error l i = Some a -> i < length l.
Proof. intros H. apply nth_error_Some. congruence. Qed.

(* bfill: a NaN at distance k before the next observation is filled iff k <= limit *)
Theorem bfill_limit_exact lim v i : nan_at v i ->
  (forall p x, i < p -> obs_at v p x -> (forall q, i < q < p -> nan_at v q) ->
     nth_error (bfill lim v) i = Some (if within lim (p - i) then Some x else None))
  /\ ((forall q, i < q < length v -> nan_at v q) -> nth_error (bfill lim v) i = Some None).
Proof.
  unfold nan_at, obs_at, bfill. intros Hi.
  pose proof (nth_error_Some_lt _ _ _ Hi) as Hlt.
  set (n := length v) in *.
  assert (Hrl : length (rev v) = n) by apply rev_length.
  assert (Hnan : nan_at (rev v) (n - S i)).
  { unfold nan_at. rewrite nth_error_rev by lia. fold n. replace (n - S (n - S i)) with i by lia. exact Hi. }
  destruct (ffill_limit_exact lim (rev v) (n - S i) Hnan) as [F1 F2].
  rewrite nth_error_rev by (rewrite ffill_length; lia). rewrite ffill_length, Hrl.
  split.
  - intros p x Hp Hx Hq.
    pose proof (nth_error_Some_lt _ _ _ Hx) as Hpl. fold n in Hpl.
    rewrite (F1 (n - S p) x).
    + replace (n - S i - (n - S p)) with (p - i) by lia. reflexivity.
    + lia.
    + unfold obs_at. rewrite nth_error_rev by lia. fold n. replace (n - S (n - S p)) with p by lia. exact Hx.
    + intros q Hq'. unfold nan_at. rewrite nth_error_rev by lia. fold n. apply Hq. lia.
  - intros Hq. apply F2. intros q Hq'. unfold nan_at. rewrite nth_error_rev by lia. fold n. apply Hq. lia.
Qed.

Lemma bfill_keeps lim v i x : obs_at v i x -> obs_at (bfill lim v) i x.
Proof.
  unfold obs_at, bfill. intros H. pose proof (nth_error_Some_lt _ _ _ H) as Hlt.
  rewrite nth_error_rev by (rewrite ffill_length, rev_length; lia).
  rewrite ffill_length, rev_length. apply ffill_keeps. unfold obs_at.
  rewrite nth_error_rev by lia. replace (length v - S (length v - S i)) with i by lia. exact H.
Qed.

(* constant fill: the first `limit` NaNs of the column, all of them when limit is None *)
Definition count_nan (v : vec) : nat := length (filter is_nan v).
Lemma cfill_from_spec lim c v : forall u i, nan_at v i ->
  nth_error (cfill_from lim u c v) i = Some (if within lim (S (u + count_nan (firstn i v))) then Some c else None).
Proof.
  unfold nan_at, count_nan. induction v as [|[y|] t IH]; intros u [|i] H; simpl in *; try discriminate.
  - exact (IH u i H).
  - now rewrite Nat.add_0_r.
  - rewrite (IH (S u) i H). now rewrite Nat.add_succ_r.
Qed.
Theorem cfill_exact lim c v i : nan_at v i ->
  nth_error (cfill lim c v) i = Some (if within lim (S (count_nan (firstn i v))) then Some c else None).
Proof. intros H. exact (cfill_from_spec lim c v 0 i H). Qed.
Lemma cfill_from_unbounded c v : forall u, cfill_from None u c v = map (fun x => match x with None => Some c | s => s end) v.
Proof. induction v as [|[y|] t IH]; intros u; simpl; f_equal; auto. Qed.
Lemma cfill_keeps lim c v i x : obs_at v i x -> obs_at (cfill lim c v) i x.
Proof. apply cfill_from_keeps. Qed.

(* ffill_na / ffill_0 *)
Definition all_none (v : vec) := Forall (fun c => c = None) v.
Lemma lvf_nans v : forall j acc, all_none v -> last_valid_from j acc v = acc.
Proof. induction v as [|c t IH]; intros j acc H; simpl; [reflexivity|]. inversion H; subst. now apply IH. Qed.
Lemma lvf_app a : forall j acc x tail, all_none tail -> last_valid_from j acc (a ++ Some x :: tail) = Some (j + length a).
Proof.
  induction a as [|[y|] t IH]; intros j acc x tail H; simpl.
  - rewrite lvf_nans by exact H. f_equal. lia.
  - rewrite IH by exact H. f_equal. lia.
  - rewrite IH by exact H. f_equal. lia.
Qed.
Lemma lvf_mono v : forall j a, a <= j -> exists p, last_valid_from j (Some a) v = Some p /\ a <= p.
Proof.
  induction v as [|[y|] t IH]; intros j a H; simpl.
  - eauto.
  - destruct (IH (S j) j ltac:(lia)) as [p [E L]]. exists p. split; [exact E | lia].
  - apply IH. lia.
Qed.
Lemma lvf_obs v : forall j acc i x, obs_at v i x -> exists p, last_valid_from j acc v = Some p /\ j + i <= p.
Proof.
  unfold obs_at. induction v as [|c t IH]; intros j acc [|i] x H; simpl in *; try discriminate.
  - injection H as ->. destruct (lvf_mono t (S j) j ltac:(lia)) as [p [E L]]. exists p. split; [exact E | lia].
  - destruct c as [y|].
    + destruct (IH (S j) (Some j) i x H) as [p [E L]]. exists p. split; [exact E | lia].
    + destruct (IH (S j) acc i x H) as [p [E L]]. exists p. split; [exact E | lia].
Qed.
Lemma ffill_from_firstn lim a : forall last d b, firstn (length a) (ffill_from lim last d (a ++ b)) = ffill_from lim last d a.
Proof. induction a as [|[y|] t IH]; intros; simpl; [reflexivity| |]; f_equal; apply IH. Qed.
Lemma nth_error_firstn_lt {A} n : forall (l : list A) i, i < n -> nth_error (firstn n l) i = nth_error l i.
Proof.
  induction n as [|n IH]; intros l i H; [lia|].
  destruct l as [|a l]; [reflexivity|]. destruct i as [|i]; [reflexivity|]. simpl. apply IH. lia.
Qed.

Theorem ffill_tail_spec lim inv body x tail : all_none tail ->
  ffill_tail lim inv (body ++ Some x :: tail) = ffill lim (body ++ [Some x]) ++ repeat inv (length tail).
Proof.
  intros H. unfold ffill_tail, last_valid. rewrite lvf_app by exact H. simpl.
  unfold overwrite_after. rewrite ffill_length.
  replace (body ++ Some x :: tail) with ((body ++ [Some x]) ++ tail) by (rewrite <- app_assoc; reflexivity).
  replace (S (length body)) with (length (body ++ [Some x])) by (rewrite app_length; simpl; lia).
  unfold ffill at 1. rewrite ffill_from_firstn. f_equal. f_equal.
  unfold vec, cell in *. rewrite !app_length. simpl. lia.
Qed.
Theorem ffill_tail_all_nan lim inv v : all_none v -> ffill_tail lim inv v = v.
Proof. intros H. unfold ffill_tail, last_valid. now rewrite lvf_nans. Qed.
Lemma ffill_tail_length lim inv v : length (ffill_tail lim inv v) = length v.
Proof.
  unfold ffill_tail. destruct (last_valid v) as [p|]; [|reflexivity].
  unfold overwrite_after. rewrite app_length, firstn_length, repeat_length, ffill_length. lia.
Qed.
Lemma ffill_tail_keeps lim inv v i x : obs_at v i x -> obs_at (ffill_tail lim inv v) i x.
Proof.
  intros H. unfold ffill_tail, last_valid. destruct (lvf_obs v 0 None i x H) as [p [E L]]. rewrite E.
  unfold overwrite_after, obs_at. pose proof (nth_error_Some_lt _ _ _ H) as Hlt.
  rewrite nth_error_app1 by (rewrite firstn_length, ffill_length; lia).
  rewrite nth_error_firstn_lt by lia. apply ffill_keeps. exact H.
Qed.

(* ------------------------------------------------------------------ frames *)
Definition wf (k : nat) (rows : list row) := Forall (fun r => length r = k) rows.
Definition keeps (f : vec -> vec) := forall v i x, obs_at v i x -> obs_at (f v) i x.
Definition same_length (f : vec -> vec) := forall v, length (f v) = length v.

Lemma nth_map_seq {A} (h : nat -> A) k j d : j < k -> nth j (map h (seq 0 k)) d = h j.
Proof.
  intros H. rewrite (nth_indep _ d (h 0)) by (rewrite map_length, seq_length; exact H).
  rewrite map_nth, seq_nth by exact H. reflexivity.
Qed.
Lemma map_nth_seq {A} (l : list A) d : map (fun i => nth i l d) (seq 0 (length l)) = l.
Proof.
  apply (nth_ext _ _ d d).
  - now rewrite map_length, seq_length.
  - intros n H. rewrite map_length, seq_length in H. now rewrite nth_map_seq.
Qed.
Lemma Forall2_nth_intro {A B} (R : A -> B -> Prop) da db : forall l l',
  length l = length l' -> (forall i, i < length l -> R (nth i l da) (nth i l' db)) -> Forall2 R l l'.
Proof.
  induction l as [|a l IH]; intros [|b l'] HL H; simpl in HL; try discriminate; constructor.
  - apply (H 0). simpl. lia.
  - apply IH; [lia|]. intros i Hi. apply (H (S i)). simpl. lia.
Qed.

Lemma lift_cols_length k f rows : length (lift_cols k f rows) = length rows.
Proof. unfold lift_cols. now rewrite map_length, seq_length. Qed.
Lemma lift_cols_wf k f rows : wf k (lift_cols k f rows).
Proof.
  unfold wf, lift_cols. apply Forall_forall. intros r Hr. apply in_map_iff in Hr.
  destruct Hr as [i [<- _]]. now rewrite map_length, seq_length.
Qed.
(* a column of the result is the vector operation applied to that column of the input *)
Lemma lift_cols_col k f rows j : j < k -> same_length f -> col j (lift_cols k f rows) = f (col j rows).
Proof.
  intros Hj HL. unfold col at 1. unfold lift_cols. rewrite map_map.
  rewrite (map_ext _ (fun i => nth i (f (col j rows)) None)) by (intros i; exact (nth_map_seq (fun j' => nth i (f (col j' rows)) None) k j None Hj)).
  replace (length rows) with (length (f (col j rows))) by (rewrite HL; unfold col; apply map_length).
  apply map_nth_seq.
Qed.

Definition cell_ext (a b : cell) := forall x, a = Some x -> b = Some x.
Definition row_ext (r r' : row) := Forall2 cell_ext r r'.
(* lf' is obtained from lf by dropping rows and filling NaN cells: same labels, same order, same
   width, every non-NaN cell unchanged *)
Inductive sub_ext : lframe -> lframe -> Prop :=
| se_nil : sub_ext [] []
| se_drop p l l' : sub_ext l l' -> sub_ext (p :: l) l'
| se_keep t r r' l l' : row_ext r r' -> sub_ext l l' -> sub_ext ((t, r) :: l) ((t, r') :: l').

Lemma row_ext_refl r : row_ext r r.
Proof. induction r; constructor; auto. intros x H; exact H. Qed.
Lemma row_ext_trans a b c : row_ext a b -> row_ext b c -> row_ext a c.
Proof.
  intros H; revert c; induction H; intros c H2; inversion H2; subst; constructor;
    [unfold cell_ext in *; eauto | apply IHForall2; assumption].
Qed.
Lemma sub_ext_refl l : sub_ext l l.
Proof. induction l as [|[t r] l IH]; [apply se_nil | apply se_keep; auto using row_ext_refl]. Qed.
Lemma sub_ext_trans a b : sub_ext a b -> forall c, sub_ext b c -> sub_ext a c.
Proof.
  induction 1; intros c H2.
  - exact H2.
  - apply se_drop. auto.
  - inversion H2; subst.
    + apply se_drop. auto.
    + apply se_keep; [eapply row_ext_trans; eauto | auto].
Qed.
Lemma sub_ext_in a b : sub_ext a b -> forall t r', In (t, r') b -> exists r, In (t, r) a /\ row_ext r r'.
Proof.
  induction 1; intros t0 r0 Hin.
  - destruct Hin.
  - destruct (IHsub_ext _ _ Hin) as [r1 [H1 H2]]. exists r1. split; [right; exact H1 | exact H2].
  - destruct Hin as [E|Hin].
    + injection E as <- <-. exists r. split; [left; reflexivity | assumption].
    + destruct (IHsub_ext _ _ Hin) as [r1 [H1 H2]]. exists r1. split; [right; exact H1 | exact H2].
Qed.
Lemma sub_ext_length a b : sub_ext a b -> length b <= length a.
Proof. induction 1; simpl; lia. Qed.
Lemma row_ext_length r r' : row_ext r r' -> length r' = length r.
Proof. induction 1; simpl; auto. Qed.
Lemma sub_ext_wf k a b : sub_ext a b -> wf k (map snd a) -> wf k (map snd b).
Proof.
  unfold wf. induction 1; simpl; intros W; auto.
  - inversion W; auto.
  - inversion W; subst. constructor; auto. simpl in *. now rewrite (row_ext_length _ _ H).
Qed.
Lemma row_ext_cell r r' j x : row_ext r r' -> nth_error r j = Some (Some x) -> nth_error r' j = Some (Some x).
Proof.
  intros H; revert j; induction H; intros [|j] Hj; simpl in *; try discriminate; auto.
  injection Hj as ->. f_equal. now apply H.
Qed.

Lemma sub_ext_filter p l : sub_ext l (filter p l).
Proof. induction l as [|[t r] l IH]; simpl; [constructor|]. destruct (p (t, r)); [apply se_keep; auto using row_ext_refl | apply se_drop; exact IH]. Qed.
Lemma sub_ext_dropwhile p l : sub_ext l (dropwhile p l).
Proof. induction l as [|[t r] l IH]; simpl; [constructor|]. destruct (p (t, r)); [apply se_drop; exact IH | apply sub_ext_refl]. Qed.
Lemma sub_ext_combine lf : forall rows', Forall2 row_ext (map snd lf) rows' -> sub_ext lf (combine (map fst lf) rows').
Proof.
  induction lf as [|[t r] lf IH]; intros rows' H; inversion H; subst; simpl; [apply se_nil | apply se_keep; auto].
Qed.

Lemma col_obs rows i j x : i < length rows -> nth j (nth i rows []) None = Some x -> obs_at (col j rows) i x.
Proof.
  intros Hi H. unfold obs_at, col. rewrite nth_error_map, (nth_error_nth' rows [] Hi). simpl. now f_equal.
Qed.
Lemma lift_cols_ext k f rows : wf k rows -> keeps f -> same_length f -> Forall2 row_ext rows (lift_cols k f rows).
Proof.
  intros W K L. apply (Forall2_nth_intro _ [] []); [now rewrite lift_cols_length|].
  intros i Hi. unfold lift_cols. rewrite nth_map_seq by exact Hi.
  assert (Hk : length (nth i rows []) = k).
  { unfold wf in W. rewrite Forall_forall in W. apply W. now apply nth_In. }
  apply (Forall2_nth_intro _ None None); [now rewrite map_length, seq_length|].
  intros j Hj0. assert (Hj : j < k) by (rewrite <- Hk; exact Hj0). rewrite nth_map_seq by exact Hj.
  intros x Hx. pose proof (K _ _ _ (col_obs rows i j x Hi Hx)) as Ho.
  unfold obs_at in Ho. now apply nth_error_nth.
Qed.

Lemma vec_op_keeps lim m f : vec_op lim m = Some f -> keeps f /\ same_length f.
Proof.
  destruct m; simpl; intros E; inversion E; subst; split; intros v; intros.
  - now apply ffill_keeps.  - apply ffill_length.
  - now apply bfill_keeps.  - apply bfill_length.
  - now apply cfill_keeps.  - apply cfill_length.
  - now apply ffill_tail_keeps.  - apply ffill_tail_length.
  - now apply ffill_tail_keeps.  - apply ffill_tail_length.
Qed.

Lemma fill1_sub_ext k lim lf m : wf k (map snd lf) -> sub_ext lf (fill1 k lim lf m).
Proof.
  intros W. unfold fill1. destruct (vec_op lim m) as [f|] eqn:E.
  - destruct (vec_op_keeps _ _ _ E) as [K L]. unfold lift, relabel. apply sub_ext_combine. now apply lift_cols_ext.
  - destruct m; try discriminate; [apply sub_ext_filter | apply sub_ext_dropwhile].
Qed.
Lemma fill_sub_ext k lim ms : forall lf, wf k (map snd lf) -> sub_ext lf (fill k lim ms lf).
Proof.
  unfold fill. induction ms as [|m ms IH]; intros lf W; simpl; [apply sub_ext_refl|].
  pose proof (fill1_sub_ext k lim lf m W) as H1.
  eapply sub_ext_trans; [exact H1|]. apply IH. eapply sub_ext_wf; eauto.
Qed.

(* method lists *)
Lemma fill_app k lim ms1 ms2 lf : fill k lim (ms1 ++ ms2) lf = fill k lim ms2 (fill k lim ms1 lf).
Proof. unfold fill. apply fold_left_app. Qed.

(* columns of a frame are filled as vectors *)
Lemma map_snd_combine {A B} (a : list A) (b : list B) : length a = length b -> map snd (combine a b) = b.
Proof. revert b; induction a; intros [|y b] H; simpl in *; try discriminate; auto. f_equal. apply IHa. lia. Qed.
Lemma map_fst_combine {A B} (a : list A) (b : list B) : length a = length b -> map fst (combine a b) = a.
Proof. revert b; induction a; intros [|y b] H; simpl in *; try discriminate; auto. f_equal. apply IHa. lia. Qed.
Lemma lift_values k f lf : map snd (lift k f lf) = lift_cols k f (map snd lf).
Proof. unfold lift, relabel. apply map_snd_combine. now rewrite lift_cols_length, !map_length. Qed.
Lemma lift_labels k f lf : map fst (lift k f lf) = map fst lf.
Proof. unfold lift, relabel. apply map_fst_combine. now rewrite lift_cols_length, !map_length. Qed.
Lemma fill1_columnwise k lim m f lf j : vec_op lim m = Some f -> j < k ->
  col j (map snd (fill1 k lim lf m)) = f (col j (map snd lf)) /\ map fst (fill1 k lim lf m) = map fst lf.
Proof.
  intros E Hj. unfold fill1. rewrite E. rewrite lift_values, lift_labels. split; [|reflexivity].
  apply lift_cols_col; [exact Hj|]. now destruct (vec_op_keeps _ _ _ E).
Qed.

(* the values of the result do not depend on the index labels *)
Definition fillv1 (k : nat) (lim : option nat) (rows : list row) (m : meth) : list row :=
  match vec_op lim m with
  | Some f => lift_cols k f rows
  | None => match m with MNona => filter (fun r => negb (all_nan r)) rows | _ => dropwhile all_nan rows end
  end.
Lemma map_snd_filter {A B} (p : B -> bool) (l : list (A * B)) : map snd (filter (fun x => p (snd x)) l) = filter p (map snd l).
Proof. induction l as [|[a b] l IH]; simpl; [reflexivity|]. destruct (p b); simpl; now rewrite IH. Qed.
Lemma map_snd_dropwhile {A B} (p : B -> bool) (l : list (A * B)) : map snd (dropwhile (fun x => p (snd x)) l) = dropwhile p (map snd l).
Proof. induction l as [|[a b] l IH]; simpl; [reflexivity|]. destruct (p b); simpl; [exact IH | reflexivity]. Qed.
Lemma fill1_values k lim lf m : map snd (fill1 k lim lf m) = fillv1 k lim (map snd lf) m.
Proof.
  unfold fill1, fillv1. destruct (vec_op lim m) as [f|]; [apply lift_values|].
  destruct m; first [apply (map_snd_filter (fun r => negb (all_nan r))) | apply (map_snd_dropwhile all_nan)].
Qed.
Lemma fill_values k lim ms : forall lf, map snd (fill k lim ms lf) = fold_left (fillv1 k lim) ms (map snd lf).
Proof.
  unfold fill. induction ms as [|m ms IH]; intros lf; simpl; [reflexivity|]. now rewrite IH, fill1_values.
Qed.
Lemma of_array_values rows : map snd (of_array rows) = rows.
Proof. unfold of_array, range_labels. apply map_snd_combine. now rewrite map_length, seq_length. Qed.
Theorem fill_array_values k lim ms lf : fill_array k lim ms (map snd lf) = map snd (fill k lim ms lf).
Proof. unfold fill_array. now rewrite !fill_values, of_array_values. Qed.

(* nona / fnna *)
Lemma dropwhile_spec {A} (p : A -> bool) l :
  exists pre, l = pre ++ dropwhile p l /\ Forall (fun a => p a = true) pre /\
              (forall a t, dropwhile p l = a :: t -> p a = false).
Proof.
  induction l as [|a l [pre [E [F N]]]]; simpl.
  - exists []. repeat split; auto. intros; discriminate.
  - destruct (p a) eqn:Pa.
    + exists (a :: pre). repeat split; [simpl; now f_equal | constructor; auto | exact N].
    + exists []. repeat split; auto. intros a0 t H. now injection H as <- _.
Qed.
Lemma dropwhile_none {A} (p : A -> bool) l : filter (fun a => negb (p a)) l = [] -> dropwhile p l = [].
Proof. induction l as [|a l IH]; simpl; [reflexivity|]. destruct (p a); simpl; [exact IH | discriminate]. Qed.
Lemma filter_rev_nil {A} (p : A -> bool) l : filter p l = [] -> filter p (rev l) = [].
Proof.
  intros H. destruct (filter p (rev l)) as [|a t] eqn:E; [reflexivity|].
  assert (Ha : In a (filter p (rev l))) by (rewrite E; left; reflexivity).
  apply filter_In in Ha. destruct Ha as [Hin Hp]. apply in_rev in Hin.
  assert (Hb : In a (filter p l)) by (apply filter_In; auto). rewrite H in Hb. destruct Hb.
Qed.
Lemma nona_f_all value lf : nona_f value EAll lf = filter (fun p => negb (masked value p)) lf.
Proof. reflexivity. Qed.
Lemma nona_f_historic value lf : nona_f value EHistoric lf = dropwhile (masked value) lf.
Proof.
  unfold nona_f. destruct (filter _ lf) eqn:E; [|reflexivity]. symmetry. now apply dropwhile_none.
Qed.
Lemma nona_f_latest value lf : nona_f value ELatest lf = rev (dropwhile (masked value) (rev lf)).
Proof.
  unfold nona_f. destruct (filter _ lf) eqn:E; [|reflexivity].
  rewrite dropwhile_none; [reflexivity|]. now apply filter_rev_nil.
Qed.

Lemma nona_f_latest_spec value lf :
  exists post, lf = nona_f value ELatest lf ++ post /\ Forall (fun p => masked value p = true) post /\
               (forall init a, nona_f value ELatest lf = init ++ [a] -> masked value a = false).
Proof.
  rewrite nona_f_latest. destruct (dropwhile_spec (masked value) (rev lf)) as [pre [E [F N]]].
  exists (rev pre). repeat split.
  - rewrite <- rev_app_distr, <- E. now rewrite rev_involutive.
  - now apply Forall_rev.
  - intros init a H. apply (N a (rev init)).
    rewrite <- (rev_involutive (dropwhile (masked value) (rev lf))), H, rev_app_distr. reflexivity.
Qed.
Lemma nona_f_historic_spec value lf :
  exists pre, lf = pre ++ nona_f value EHistoric lf /\ Forall (fun p => masked value p = true) pre /\
              (forall a t, nona_f value EHistoric lf = a :: t -> masked value a = false).
Proof. rewrite nona_f_historic. apply dropwhile_spec. Qed.

(* nona: values do not depend on labels either *)
Definition nonav (value : cell) (e : edge) (rows : list row) : list row :=
  let m := forallb (cell_is value) in
  match e with
  | EAll => filter (fun r => negb (m r)) rows
  | ELatest => rev (dropwhile m (rev rows))
  | EHistoric => dropwhile m rows
  end.
Lemma nona_f_values value e lf : map snd (nona_f value e lf) = nonav value e (map snd lf).
Proof.
  destruct e.
  - rewrite nona_f_all. apply (map_snd_filter (fun r => negb (forallb (cell_is value) r))).
  - rewrite nona_f_latest. unfold nonav. rewrite map_rev. f_equal. rewrite <- map_rev.
    apply (map_snd_dropwhile (forallb (cell_is value))).
  - rewrite nona_f_historic. apply (map_snd_dropwhile (forallb (cell_is value))).
Qed.
Theorem nona_array_values value e lf : nona_array value e (map snd lf) = map snd (nona_f value e lf).
Proof. unfold nona_array. now rewrite !nona_f_values, of_array_values. Qed.

(* +-inf are observations like any other: a row holding one is not an all-NaN row *)
Lemma all_nan_false r j (x : val) : nth_error r j = Some (Some x) -> all_nan r = false.
Proof.
  revert j. induction r as [|c r IH]; intros [|j] H; simpl in *; try discriminate.
  - injection H as ->. reflexivity.
  - destruct c; [reflexivity|]. simpl. now apply (IH j).
Qed.
Lemma masked_nan p : masked None p = all_nan (snd p).
Proof. unfold masked, all_nan. induction (snd p) as [|c r IH]; simpl; [reflexivity|]. now rewrite IH; destruct c. Qed.
