From Coq Require Import ZArith List Bool Lia ZifyBool.
From PB Require Import model.M_cal model.M_dates model.M_dtparse proofs.P_cal proofs.P_dates_m proofs.P_dates_gen.
From PB Require gen.Gen_dates.
Open Scope Z_scope.
Ltac Zify.zify_post_hook ::= Z.to_euclidean_division_equations.

Lemma valid_md_ymd y m d : 1 <= y -> valid_md y m d = true -> valid_ymd y m d = true.
Proof. unfold valid_md, valid_ymd. lia. Qed.

Lemma mk_datetime_valid y m d : 1 <= y <= 9999 -> valid_md y m d = true ->
  mk_datetime y m d = Some (us_of_ord (ord_of_ymd y m d)).
Proof. intros Hy V. unfold mk_datetime. rewrite (valid_md_ymd y m d) by (try exact V; lia). replace (y <=? 9999) with true by lia. reflexivity. Qed.

Lemma valid_md_bounds y m d : valid_md y m d = true -> 1 <= m <= 12 /\ 1 <= d <= 31.
Proof. intros V. pose proof (dim_range y m). unfold valid_md in V. lia. Qed.

Lemma ymd_us_valid y m d : 1 <= y <= 9999 -> valid_md y m d = true ->
  ymd_us y m d = Some (us_of_ord (ord_of_ymd y m d)).
Proof.
  intros Hy V. destruct (valid_md_bounds y m d V) as [Hm Hd].
  rewrite (ymd_us_plain y m d y m) by (try apply ym_id; lia).
  f_equal. rewrite <- (ord_first_plus y m d). unfold us_of_ord. lia.
Qed.

(* dt(y, m, d) with any month / day offsets: first day of the normalised month + (d-1) days *)
Lemma tuple_overflow y m d : d <= 1500 -> let '(y', m') := ym y m in 1 <= y' <= 9999 ->
  ymd_us y m d = Some (us_of_ord (ord_of_ymd y' m' 1) + (d - 1) * DAYUS).
Proof. destruct (ym y m) as [y' m'] eqn:E. intros Hd Hy. apply (ymd_us_plain y m d y' m'); assumption. Qed.

Lemma yyyymmdd_decode y m d : 1 <= m <= 12 -> 1 <= d <= 31 ->
  let n := y * 10000 + m * 100 + d in n / 10000 = y /\ (n mod 10000) / 100 = m /\ n mod 100 = d.
Proof. intros Hm Hd. cbv zeta. lia. Qed.

Lemma num_yyyymmdd y m d : 1001 <= y <= 2999 -> valid_md y m d = true ->
  num_model (y * 10000 + m * 100 + d) = Some (us_of_ord (ord_of_ymd y m d)).
Proof.
  intros Hy V. destruct (valid_md_bounds y m d V) as [Hm Hd].
  destruct (yyyymmdd_decode y m d Hm Hd) as [E1 [E2 E3]]. cbv zeta in *.
  unfold num_model. set (n := y * 10000 + m * 100 + d) in *.
  assert (10010101 <= n <= 29991231) by (unfold n; lia).
  replace (n <=? 1500) with false by lia. replace (n <=? 3000) with false by lia.
  replace (n <? 300000) with false by lia. replace (n <? 1095000) with false by lia.
  replace ((10000101 <? n) && (n <? 30001231)) with true by lia.
  rewrite E1, E2, E3. apply ymd_us_valid; [lia | exact V].
Qed.

Lemma num_ordinal n : 300000 <= n < 1095000 -> num_model n = Some (us_of_ord n).
Proof.
  intros H. unfold num_model.
  replace (n <=? 1500) with false by lia. replace (n <=? 3000) with false by lia.
  replace (n <? 300000) with false by lia. replace (n <? 1095000) with true by lia. reflexivity.
Qed.

Lemma gen_num2dt today n : 1500 < n -> Gen_dates.num2dt today n = num_model n.
Proof.
  intros H. unfold Gen_dates.num2dt, num_model, Gen_dates.td_days, Gen_dates.utc_ts, id.
  replace (n - n) with 0 by lia. replace (DAYUS * 0) with 0 by lia.
  replace (n <=? 1500) with false by lia.
  destruct (n <=? 3000); [destruct (mk_datetime n 1 1); [f_equal; lia | reflexivity]|].
  destruct (n <? 300000); [f_equal; lia|]. destruct (n <? 1095000); [f_equal; lia|].
  destruct ((10000101 <? n) && (n <? 30001231)); [|reflexivity].
  rewrite gen_ymd. destruct (ymd_us _ _ _); [f_equal; lia | reflexivity].
Qed.

(* dialects *)
Lemma du_month_first y m d : 1 <= y <= 9999 -> valid_md y m d = true ->
  du_resolve m d y = Some (y, m, d).
Proof.
  intros Hy V. destruct (valid_md_bounds y m d V). unfold du_resolve.
  replace (12 <? m) with false by lia. rewrite (valid_md_ymd y m d) by (try exact V; lia).
  replace (y <=? 9999) with true by lia. reflexivity.
Qed.
Lemma du_day_first y m d : 1 <= y <= 9999 -> valid_md y m d = true -> 12 < d ->
  du_resolve d m y = Some (y, m, d).
Proof.
  intros Hy V Hd. unfold du_resolve. replace (12 <? d) with true by lia.
  rewrite (valid_md_ymd y m d) by (try exact V; lia). replace (y <=? 9999) with true by lia. reflexivity.
Qed.
Lemma valid_md_swap_small y m d : valid_md y m d = true -> d <= 12 -> valid_md y d m = true.
Proof. intros V Hd. destruct (valid_md_bounds y m d V). pose proof (dim_range y d). unfold valid_md in *. lia. Qed.

Lemma uk_dmy y m d : 1 <= y <= 9999 -> valid_md y m d = true ->
  uk_model d m y = Some (us_of_ord (ord_of_ymd y m d)).
Proof.
  intros Hy V. destruct (valid_md_bounds y m d V) as [Hm Hd]. unfold uk_model.
  destruct (Z_le_gt_dec d 12) as [Hs | Hl].
  - rewrite (du_month_first y d m Hy (valid_md_swap_small y m d V Hs)).
    replace (m <? 13) with true by lia. apply ymd_us_valid; assumption.
  - rewrite (du_day_first y m d Hy V) by lia. replace (d <? 13) with false by lia.
    rewrite Z.eqb_refl. reflexivity.
Qed.
Lemma us_mdy y m d : 1 <= y <= 9999 -> valid_md y m d = true ->
  us_model m d y = Some (us_of_ord (ord_of_ymd y m d)).
Proof. intros Hy V. unfold us_model. rewrite (du_month_first y m d Hy V). rewrite Z.eqb_refl. reflexivity. Qed.
Lemma cross_dialect_rejected y m d : 1 <= y <= 9999 -> valid_md y m d = true -> 12 < d ->
  uk_model m d y = None /\ us_model d m y = None.
Proof.
  intros Hy V Hd. destruct (valid_md_bounds y m d V) as [Hm _]. split.
  - unfold uk_model. rewrite (du_month_first y m d Hy V). replace (d <? 13) with false by lia.
    replace (m =? d) with false by lia. reflexivity.
  - unfold us_model. rewrite (du_day_first y m d Hy V Hd). replace (m =? d) with false by lia. reflexivity.
Qed.

(* lossless formats and dt2str *)
Lemma ord_tod_split t : t = us_of_ord (ord_of_us t) + tod_of_us t.
Proof. unfold us_of_ord, ord_of_us, tod_of_us, DAYUS. lia. Qed.
Lemma dt2str_roundtrip t : 1 <= year_of t <= 9999 -> dt_model (dt2str_model t) = Some t.
Proof.
  intros Hy. unfold dt2str_model, year_of in *.
  pose proof (ymd_of_ord_valid (ord_of_us t)) as V. destruct (ymd_of_ord (ord_of_us t)) as [[y m] d].
  destruct V as [V O]. cbn [dt_model]. rewrite mk_datetime_valid by assumption. rewrite O.
  replace ((0 <=? tod_of_us t) && (tod_of_us t <? DAYUS)) with true by (unfold tod_of_us, DAYUS; lia).
  f_equal. symmetry. apply ord_tod_split.
Qed.
Lemma ymd_drops_time t : ord_of_us (ymd_model t) = ord_of_us t /\ tod_of_us (ymd_model t) = 0.
Proof. unfold ymd_model. split; [apply ord_us_roundtrip|]. unfold tod_of_us, us_of_ord. apply Z.mod_mul. unfold DAYUS; lia. Qed.
