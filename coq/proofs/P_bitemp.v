(* Proofs about the bitemporal store model (C17). *)
From Coq Require Import ZArith List Bool Lia.
From PB Require Import model.M_bitemp.
Import ListNotations.
Open Scope Z_scope.

(* ------------------------------------------------------------ generic list facts *)
Inductive sub {A} : list A -> list A -> Prop :=
| sub_nil : sub [] []
| sub_keep x l1 l2 : sub l1 l2 -> sub (x :: l1) (x :: l2)
| sub_skip x l1 l2 : sub l1 l2 -> sub l1 (x :: l2).
#[local] Hint Constructors sub : core.

Lemma sub_refl {A} (l : list A) : sub l l.
Proof. induction l; auto. Qed.
Lemma sub_Forall {A} (P : A -> Prop) l1 l2 : sub l1 l2 -> Forall P l2 -> Forall P l1.
Proof. induction 1; intros HF; auto; inversion HF; subst; auto. Qed.
Lemma sub_In {A} (l1 l2 : list A) x : sub l1 l2 -> In x l1 -> In x l2.
Proof. induction 1; simpl; intuition. Qed.
Lemma sub_filter {A} (P : A -> bool) l : sub (filter P l) l.
Proof. induction l; simpl; auto. destruct (P a); auto. Qed.
Lemma filter_comm {A} (P Q : A -> bool) l : filter P (filter Q l) = filter Q (filter P l).
Proof. induction l; simpl; auto. destruct (Q a) eqn:EQ, (P a) eqn:EP; simpl; rewrite ?EQ, ?EP, IHl; auto. Qed.
Lemma filter_true {A} (P : A -> bool) l : Forall (fun x => P x = true) l -> filter P l = l.
Proof. induction 1; simpl; auto. rewrite H, IHForall; auto. Qed.
Lemma filter_false {A} (P : A -> bool) l : Forall (fun x => P x = false) l -> filter P l = [].
Proof. induction 1; simpl; auto. rewrite H; auto. Qed.
Lemma filter_nil_iff {A} (P : A -> bool) l : filter P l = [] <-> forall x, In x l -> P x = false.
Proof.
  induction l; simpl; split; intros; auto; try tauto.
  - destruct (P a) eqn:E; try discriminate. destruct H0; subst; auto. apply IHl; auto.
  - destruct (P a) eqn:E. rewrite (H a) in E; auto; discriminate. apply IHl; auto.
Qed.
Lemma last_cons {A} (x : A) l d : l <> [] -> last (x :: l) d = last l d.
Proof. destruct l; [congruence | reflexivity]. Qed.
Lemma last_nth {A} (l : list A) d : last l d = nth (length l - 1) l d.
Proof.
  induction l as [|x l IH]; auto. destruct l as [|y l]; auto.
  rewrite last_cons by discriminate. rewrite IH. simpl. rewrite Nat.sub_0_r. reflexivity.
Qed.

(* ------------------------------------------------------------ sortedness by stamp *)
Fixpoint wsorted (l : list row) : Prop :=
  match l with [] => True | r :: l' => Forall (fun y => rs r <= rs y) l' /\ wsorted l' end.
Fixpoint ssorted (l : list row) : Prop :=
  match l with [] => True | r :: l' => Forall (fun y => rs r < rs y) l' /\ ssorted l' end.
Fixpoint zs (l : list Z) : Prop :=
  match l with [] => True | x :: l' => Forall (fun y => x < y) l' /\ zs l' end.

Lemma ssorted_wsorted l : ssorted l -> wsorted l.
Proof. induction l; simpl; auto. intros [H1 H2]; split; auto. eapply Forall_impl; [|exact H1]. simpl; lia. Qed.
Lemma sub_wsorted l1 l2 : sub l1 l2 -> wsorted l2 -> wsorted l1.
Proof. induction 1; simpl; auto; intros [H1 H2]; auto. split; auto. eapply sub_Forall; eauto. Qed.
Lemma sub_ssorted l1 l2 : sub l1 l2 -> ssorted l2 -> ssorted l1.
Proof. induction 1; simpl; auto; intros [H1 H2]; auto. split; auto. eapply sub_Forall; eauto. Qed.

Lemma insert_In r l x : In x (insert r l) <-> x = r \/ In x l.
Proof.
  induction l; simpl; [intuition|]. destruct (rs r <=? rs a); simpl; [intuition|]. rewrite IHl. intuition.
Qed.
Lemma ssort_In l x : In x (ssort l) <-> In x l.
Proof. induction l; simpl; [tauto|]. rewrite insert_In, IHl. intuition. Qed.
Lemma insert_wsorted r l : wsorted l -> wsorted (insert r l).
Proof.
  induction l; simpl; auto. intros [H1 H2]. destruct (rs r <=? rs a) eqn:E; simpl.
  - split; auto. constructor; [lia|]. eapply Forall_impl; [|exact H1]. simpl; lia.
  - split; auto. apply Forall_forall. intros x Hx. apply insert_In in Hx. destruct Hx as [->|Hx]; [lia|].
    rewrite Forall_forall in H1; auto.
Qed.
Lemma ssort_wsorted l : wsorted (ssort l).
Proof. induction l; simpl; auto. apply insert_wsorted; auto. Qed.
Lemma insert_head r l : Forall (fun y => rs r <= rs y) l -> insert r l = r :: l.
Proof. destruct l; simpl; auto. intros H; inversion H; subst. destruct (rs r <=? rs r0) eqn:E; auto; lia. Qed.
Lemma ssort_id l : wsorted l -> ssort l = l.
Proof. induction l; simpl; auto. intros [H1 H2]. rewrite IHl; auto. apply insert_head; auto. Qed.
Lemma filter_insert (P : row -> bool) r l : wsorted l ->
  filter P (insert r l) = if P r then insert r (filter P l) else filter P l.
Proof.
  induction l; simpl; intros Hs.
  - destruct (P r); auto.
  - destruct Hs as [H1 H2]. destruct (rs r <=? rs a) eqn:E.
    + simpl. destruct (P r) eqn:EP; auto.
      symmetry. apply (insert_head r (if P a then a :: filter P l else filter P l)).
      assert (HF : Forall (fun y => rs r <= rs y) (a :: l)).
      { constructor; [lia|]. eapply Forall_impl; [|exact H1]. simpl; lia. }
      apply (sub_Forall _ _ _ (sub_filter P (a :: l))) in HF. simpl in HF. exact HF.
    + simpl. rewrite IHl; auto. destruct (P r) eqn:EP, (P a) eqn:EA; simpl; rewrite ?E; auto.
Qed.
Lemma filter_ssort (P : row -> bool) l : filter P (ssort l) = ssort (filter P l).
Proof.
  induction l; simpl; auto. rewrite filter_insert by apply ssort_wsorted.
  destruct (P a); simpl; rewrite IHl; auto.
Qed.

(* a weakly sorted list splits at T *)
Lemma wsorted_split T l : wsorted l ->
  l = filter (le_stamp T) l ++ filter (fun r => negb (le_stamp T r)) l.
Proof.
  induction l; simpl; auto. intros [H1 H2]. destruct (le_stamp T a) eqn:E; simpl; unfold le_stamp in E.
  - f_equal; auto.
  - assert (HF : Forall (fun y => le_stamp T y = false) l).
    { eapply Forall_impl; [|exact H1]. unfold le_stamp; simpl; intros; lia. }
    rewrite (filter_false _ _ HF). simpl. f_equal. symmetry. apply filter_true.
    eapply Forall_impl; [|exact HF]. simpl. intros x ->; auto.
Qed.

(* ------------------------------------------------------------ sort_uniq *)
Lemma uinsert_In a l x : In x (uinsert a l) <-> x = a \/ In x l.
Proof.
  induction l as [|y l IH]; simpl; [intuition|].
  destruct (a <? y) eqn:E1; simpl; [intuition|]. destruct (a =? y) eqn:E2; simpl.
  - assert (a = y) by lia. subst. intuition.
  - rewrite IH. intuition.
Qed.
Lemma sort_uniq_In l x : In x (sort_uniq l) <-> In x l.
Proof. induction l; simpl; [tauto|]. rewrite uinsert_In, IHl. intuition. Qed.
Lemma uinsert_zs a l : zs l -> zs (uinsert a l).
Proof.
  induction l as [|y l IH]; simpl; auto. intros [H1 H2].
  destruct (a <? y) eqn:E1; simpl.
  - split; auto. constructor; [lia|]. eapply Forall_impl; [|exact H1]. simpl; lia.
  - destruct (a =? y) eqn:E2; simpl; auto. split; auto.
    apply Forall_forall. intros x Hx. apply uinsert_In in Hx. destruct Hx as [->|Hx]; [lia|].
    rewrite Forall_forall in H1; auto.
Qed.
Lemma sort_uniq_zs l : zs (sort_uniq l).
Proof. induction l; simpl; auto. apply uinsert_zs; auto. Qed.
Lemma sub_zs l1 l2 : sub l1 l2 -> zs l2 -> zs l1.
Proof. induction 1; simpl; auto; intros [H1 H2]; auto. split; auto. eapply sub_Forall; eauto. Qed.
Lemma zs_unique l1 : forall l2, zs l1 -> zs l2 -> (forall x, In x l1 <-> In x l2) -> l1 = l2.
Proof.
  induction l1 as [|a l1 IH]; intros [|b l2]; simpl; intros S1 S2 H; auto.
  - exfalso. apply (H b); auto.
  - exfalso. apply (H a); auto.
  - destruct S1 as [F1 S1], S2 as [F2 S2]. rewrite Forall_forall in F1, F2.
    assert (a = b).
    { destruct (proj1 (H a) (or_introl eq_refl)) as [|Ha]; auto.
      destruct (proj2 (H b) (or_introl eq_refl)) as [|Hb]; auto.
      apply F2 in Ha. apply F1 in Hb. lia. }
    subst. f_equal. apply IH; auto. intros x; split; intros Hx.
    + destruct (proj1 (H x) (or_intror Hx)) as [|]; auto. subst. apply F1 in Hx. lia.
    + destruct (proj2 (H x) (or_intror Hx)) as [|]; auto. subst. apply F2 in Hx. lia.
Qed.

(* ------------------------------------------------------------ values: ffill, NaN prefix *)
Definition valid (r : row) : Prop := rv r <> None.
Fixpoint nanprefix (l : list row) : Prop :=
  match l with
  | [] => True
  | r :: l' => match rv r with None => nanprefix l' | Some _ => Forall valid l' end
  end.
Lemma valid_nanprefix l : Forall valid l -> nanprefix l.
Proof. induction 1; simpl; auto. destruct (rv x); auto. Qed.
Lemma sub_nanprefix l1 l2 : sub l1 l2 -> nanprefix l2 -> nanprefix l1.
Proof.
  induction 1; simpl; auto.
  - destruct (rv x); auto. apply sub_Forall; auto.
  - destruct (rv x); auto. intros HF. apply IHsub. apply valid_nanprefix; auto.
Qed.
Lemma lastv_app p l1 l2 : lastv p (l1 ++ l2) = lastv (lastv p l1) l2.
Proof. unfold lastv. rewrite map_app, fold_left_app. reflexivity. Qed.
Lemma lastv_valid p l : Forall valid l -> l <> [] -> lastv p l = rv (last l row0).
Proof.
  intros H. revert p. induction H; intros p Hne; [congruence|].
  destruct l as [|y l].
  - unfold lastv; simpl. unfold valid in H. destruct (rv x); simpl; congruence.
  - rewrite last_cons by discriminate. rewrite <- (IHForall (upd p (rv x))) by discriminate. reflexivity.
Qed.
Lemma lastv_nanprefix l : nanprefix l -> l <> [] -> lastv None l = rv (last l row0).
Proof.
  induction l as [|r l IH]; [congruence|]. intros Hn _. cbn [nanprefix] in Hn.
  destruct l as [|y l].
  - unfold lastv; simpl. destruct (rv r); auto.
  - rewrite last_cons by discriminate. destruct (rv r) eqn:E.
    + rewrite <- (lastv_valid (upd None (rv r))); auto; discriminate.
    + rewrite <- IH by (auto; discriminate). unfold lastv; simpl. rewrite E. reflexivity.
Qed.

(* ------------------------------------------------------------ _drop_repeats *)
Lemma veq_eq a b : veq a b = true -> a = b.
Proof. destruct a, b; simpl; try discriminate. intros; f_equal; lia. Qed.
Lemma sub_drop_eq p l : sub (drop_eq p l) l.
Proof. revert p; induction l; simpl; auto. intros p. destruct (veq _ _); auto. Qed.
Lemma sub_keep_last l : sub (keep_last l) l.
Proof. induction l; simpl; auto. destruct (existsb _ _); auto. Qed.
Lemma sub_drop_repeats l : sub (drop_repeats l) l.
Proof.
  unfold drop_repeats. generalize (sub_keep_last (drop_eq None l)) (sub_drop_eq None l).
  generalize (keep_last (drop_eq None l)) (drop_eq None l). intros a b H1 H2.
  revert a H1. induction H2; intros a H1; auto.
  - inversion H1; subst; auto.
  - inversion H1; subst; auto.
Qed.
Lemma drop_eq_lastv p l : lastv p (drop_eq p l) = lastv p l.
Proof.
  revert p; induction l; simpl; auto. intros p. destruct (veq (upd p (rv a)) p) eqn:E.
  - apply veq_eq in E. change (lastv p (a :: l)) with (lastv (upd p (rv a)) l). rewrite <- IHl. rewrite E. rewrite E at 2. reflexivity.
  - change (lastv p (a :: l)) with (lastv (upd p (rv a)) l). rewrite <- IHl. reflexivity.
Qed.
Lemma drop_eq_valid p l : p <> None -> Forall valid (drop_eq p l).
Proof.
  revert p; induction l; simpl; auto. intros p Hp.
  assert (Hc : upd p (rv a) <> None) by (destruct (rv a); simpl; congruence).
  destruct (veq (upd p (rv a)) p) eqn:E; auto. constructor; auto.
  unfold valid. intros Hn. rewrite Hn in E. simpl in E. destruct p; [|congruence]. simpl in E. lia.
Qed.
Lemma drop_eq_None_cons r l : drop_eq None (r :: l) = r :: drop_eq (rv r) l.
Proof. simpl. replace (upd None (rv r)) with (rv r) by (destruct (rv r); auto). destruct (rv r); auto. Qed.
Lemma drop_eq_nanprefix l : nanprefix (drop_eq None l).
Proof.
  induction l; [simpl; auto|]. rewrite drop_eq_None_cons. simpl. destruct (rv a) eqn:E; auto.
  apply drop_eq_valid; congruence.
Qed.
Lemma drop_eq_app p l1 l2 : drop_eq p (l1 ++ l2) = drop_eq p l1 ++ drop_eq (lastv p l1) l2.
Proof.
  revert p; induction l1; simpl; auto. intros p.
  change (lastv p (a :: l1)) with (lastv (upd p (rv a)) l1).
  destruct (veq _ _); simpl; rewrite IHl1; auto.
Qed.
Lemma keep_last_last l : l <> [] -> keep_last l <> [] /\ last (keep_last l) row0 = last l row0.
Proof.
  induction l as [|r l IH]; [congruence|]. intros _. destruct l as [|y l].
  - simpl. split; [discriminate|auto].
  - destruct IH as [H1 H2]; [discriminate|]. rewrite (last_cons r (y :: l)) by discriminate.
    change (keep_last (r :: y :: l)) with (if existsb (fun r' => rs r' =? rs r) (y :: l) then keep_last (y :: l) else r :: keep_last (y :: l)).
    destruct (existsb _ _); auto. split; [discriminate|]. rewrite last_cons; auto.
Qed.
Lemma keep_last_ssorted l : wsorted l -> ssorted (keep_last l).
Proof.
  induction l; simpl; auto. intros [H1 H2]. destruct (existsb _ _) eqn:E; auto. simpl. split; auto.
  apply (sub_Forall _ _ _ (sub_keep_last l)). apply Forall_forall. intros x Hx.
  rewrite Forall_forall in H1. specialize (H1 x Hx).
  assert (rs x <> rs a); [|lia]. intros Heq.
  assert (existsb (fun r' => rs r' =? rs a) l = true); [|congruence].
  apply existsb_exists. exists x; split; auto. lia.
Qed.
Lemma keep_last_app T a b : Forall (fun r => rs r <= T) a -> Forall (fun r => T < rs r) b ->
  keep_last (a ++ b) = keep_last a ++ keep_last b.
Proof.
  induction 1; intros Hb; simpl; auto. rewrite existsb_app.
  replace (existsb (fun r' => rs r' =? rs x) b) with false.
  - rewrite orb_false_r. destruct (existsb _ l); simpl; rewrite IHForall; auto.
  - symmetry. apply not_true_is_false. intros He. apply existsb_exists in He. destruct He as [y [Hy He]].
    rewrite Forall_forall in Hb. apply Hb in Hy. lia.
Qed.

(* reading a prefix of the cleaned column = cleaning the prefix *)
Lemma drop_repeats_prefix T c : wsorted c ->
  filter (le_stamp T) (drop_repeats c) = drop_repeats (filter (le_stamp T) c).
Proof.
  intros Hs. unfold drop_repeats. rewrite (wsorted_split T c Hs) at 1.
  set (q := filter (le_stamp T) c). set (t := filter (fun r => negb (le_stamp T r)) c).
  assert (Hq : Forall (fun r => rs r <= T) q).
  { apply Forall_forall. intros x Hx. apply filter_In in Hx. unfold le_stamp in Hx. lia. }
  assert (Ht : Forall (fun r => T < rs r) t).
  { apply Forall_forall. intros x Hx. apply filter_In in Hx. unfold le_stamp in Hx. destruct Hx as [_ Hx].
    apply negb_true_iff in Hx. lia. }
  rewrite drop_eq_app. rewrite (keep_last_app T).
  - rewrite filter_app. rewrite filter_true, filter_false, app_nil_r; auto.
    + apply (sub_Forall _ _ _ (sub_keep_last _)). apply (sub_Forall _ _ _ (sub_drop_eq _ _)).
      eapply Forall_impl; [|exact Ht]. unfold le_stamp; simpl; intros; lia.
    + apply (sub_Forall _ _ _ (sub_keep_last _)). apply (sub_Forall _ _ _ (sub_drop_eq _ _)).
      eapply Forall_impl; [|exact Hq]. unfold le_stamp; simpl; intros; lia.
  - apply (sub_Forall _ _ _ (sub_drop_eq _ _)); auto.
  - apply (sub_Forall _ _ _ (sub_drop_eq _ _)); auto.
Qed.

Lemma drop_repeats_nil_iff q : drop_repeats q = [] <-> q = [].
Proof.
  split; [|intros ->; reflexivity]. destruct q as [|r q]; auto. unfold drop_repeats.
  rewrite drop_eq_None_cons. intros H. exfalso. eapply (proj1 (keep_last_last (r :: drop_eq (rv r) q) _)); eauto.
  Unshelve. discriminate.
Qed.
Lemma drop_repeats_lastv q : lastv None (drop_repeats q) = lastv None q.
Proof.
  destruct q as [|r q]; auto. rewrite <- (drop_eq_lastv None (r :: q)).
  assert (Hne : drop_eq None (r :: q) <> []) by (rewrite drop_eq_None_cons; discriminate).
  pose proof (drop_eq_nanprefix (r :: q)) as Hn.
  destruct (keep_last_last _ Hne) as [K1 K2]. unfold drop_repeats.
  rewrite (lastv_nanprefix (keep_last _)); auto.
  - rewrite K2. symmetry. apply lastv_nanprefix; auto.
  - eapply sub_nanprefix; [apply sub_keep_last|auto].
Qed.

(* the central fact about _drop_repeats on a column in (weak) stamp order *)
Definition colinv (c : list row) : Prop := ssorted c /\ nanprefix c.
Definition same_reads (c p : list row) : Prop :=
  forall T, (filter (le_stamp T) c = [] <-> filter (le_stamp T) p = []) /\
            lastv None (filter (le_stamp T) c) = lastv None (filter (le_stamp T) p).
Lemma drop_repeats_ok c : wsorted c -> colinv (drop_repeats c) /\ same_reads (drop_repeats c) c.
Proof.
  intros Hs. split; [split|].
  - unfold drop_repeats. apply keep_last_ssorted. eapply sub_wsorted; [apply sub_drop_eq|auto].
  - unfold drop_repeats. eapply sub_nanprefix; [apply sub_keep_last|apply drop_eq_nanprefix].
  - intros T. rewrite drop_repeats_prefix by auto. split; [apply drop_repeats_nil_iff|apply drop_repeats_lastv].
Qed.
Lemma same_reads_trans a b c : same_reads a b -> same_reads b c -> same_reads a c.
Proof. intros H1 H2 T. destruct (H1 T) as [A1 A2], (H2 T) as [B1 B2]. split; [tauto|congruence]. Qed.
Lemma same_reads_app a b n : same_reads a b -> same_reads (a ++ n) (b ++ n).
Proof.
  intros H T. destruct (H T) as [A1 A2]. rewrite !filter_app, !lastv_app, A2. split; auto.
  split; intros HH; apply app_eq_nil in HH; destruct HH as [H1 H2]; rewrite H2, app_nil_r; tauto.
Qed.
