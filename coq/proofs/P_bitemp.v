(* Proofs about the bitemporal store model (C17). *)
From Coq Require Import ZArith List Bool Lia.
From PB Require Import model.M_bitemp.
Import ListNotations.
Open Scope Z_scope.

(* ------------------------------------------------------------ generic list facts *)
Inductive sub {A} : list A -> list A -> Prop :=
| sub_nil : sub [] []
| sub_keep x l1 l2 : sub l1 l2 -> sub (x :: l1) (x :: l2)
| sub_skip x l1 l2 : sub l1 l2 -> sub l1 (x :: l2).
#[local] Hint Constructors sub : core.

Lemma sub_refl {A} (l : list A) : sub l l.
Proof. induction l; auto. Qed.
Lemma sub_Forall {A} (P : A -> Prop) l1 l2 : sub l1 l2 -> Forall P l2 -> Forall P l1.
Proof. induction 1; intros HF; auto; inversion HF; subst; auto. Qed.
Lemma sub_In {A} (l1 l2 : list A) x : sub l1 l2 -> In x l1 -> In x l2.
Proof. induction 1; simpl; intuition. Qed.
Lemma sub_filter {A} (P : A -> bool) l : sub (filter P l) l.
Proof. induction l; simpl; auto. destruct (P a); auto. Qed.
Lemma filter_comm {A} (P Q : A -> bool) l : filter P (filter Q l) = filter Q (filter P l).
Proof. induction l; simpl; auto. destruct (Q a) eqn:EQ, (P a) eqn:EP; simpl; rewrite ?EQ, ?EP, IHl; auto. Qed.
Lemma filter_true {A} (P : A -> bool) l : Forall (fun x => P x = true) l -> filter P l = l.
Proof. induction 1; simpl; auto. rewrite H, IHForall; auto. Qed.
Lemma filter_false {A} (P : A -> bool) l : Forall (fun x => P x = false) l -> filter P l = [].
Proof. induction 1; simpl; auto. rewrite H; auto. Qed.
Lemma filter_nil_iff {A} (P : A -> bool) l : filter P l = [] <-> forall x, In x l -> P x = false.
Proof.
  induction l; simpl; split; intros; auto; try tauto.
  - destruct (P a) eqn:E; try discriminate. destruct H0; subst; auto. apply IHl; auto.
  - destruct (P a) eqn:E. rewrite (H a) in E; auto; discriminate. apply IHl; auto.
Qed.
Lemma last_cons {A} (x : A) l d : l <> [] -> last (x :: l) d = last l d.
Proof. destruct l; [congruence | reflexivity]. Qed.
Lemma last_nth {A} (l : list A) d : last l d = nth (length l - 1) l d.
Proof.
  induction l as [|x l IH]; auto. destruct l as [|y l]; auto.
  rewrite last_cons by discriminate. rewrite IH. simpl. rewrite Nat.sub_0_r. reflexivity.
Qed.

(* ------------------------------------------------------------ sortedness by stamp *)
Fixpoint wsorted (l : list row) : Prop :=
  match l with [] => True | r :: l' => Forall (fun y => rs r <= rs y) l' /\ wsorted l' end.
Fixpoint ssorted (l : list row) : Prop :=
  match l with [] => True | r :: l' => Forall (fun y => rs r < rs y) l' /\ ssorted l' end.
Fixpoint zs (l : list Z) : Prop :=
  match l with [] => True | x :: l' => Forall (fun y => x < y) l' /\ zs l' end.

Lemma ssorted_wsorted l : ssorted l -> wsorted l.
Proof. induction l; simpl; auto. intros [H1 H2]; split; auto. eapply Forall_impl; [|exact H1]. simpl; lia. Qed.
Lemma sub_wsorted l1 l2 : sub l1 l2 -> wsorted l2 -> wsorted l1.
Proof. induction 1; simpl; auto; intros [H1 H2]; auto. split; auto. eapply sub_Forall; eauto. Qed.
Lemma sub_ssorted l1 l2 : sub l1 l2 -> ssorted l2 -> ssorted l1.
Proof. induction 1; simpl; auto; intros [H1 H2]; auto. split; auto. eapply sub_Forall; eauto. Qed.

Lemma insert_In r l x : In x (insert r l) <-> x = r \/ In x l.
Proof.
  induction l; simpl; [intuition|]. destruct (rs r <=? rs a); simpl; [intuition|]. rewrite IHl. intuition.
Qed.
Lemma ssort_In l x : In x (ssort l) <-> In x l.
Proof. induction l; simpl; [tauto|]. rewrite insert_In, IHl. intuition. Qed.
Lemma insert_wsorted r l : wsorted l -> wsorted (insert r l).
Proof.
  induction l; simpl; auto. intros [H1 H2]. destruct (rs r <=? rs a) eqn:E; simpl.
  - split; auto. constructor; [lia|]. eapply Forall_impl; [|exact H1]. simpl; lia.
  - split; auto. apply Forall_forall. intros x Hx. apply insert_In in Hx. destruct Hx as [->|Hx]; [lia|].
    rewrite Forall_forall in H1; auto.
Qed.
Lemma ssort_wsorted l : wsorted (ssort l).
Proof. induction l; simpl; auto. apply insert_wsorted; auto. Qed.
Lemma insert_head r l : Forall (fun y => rs r <= rs y) l -> insert r l = r :: l.
Proof. destruct l; simpl; auto. intros H; inversion H; subst. destruct (rs r <=? rs r0) eqn:E; auto; lia. Qed.
Lemma ssort_id l : wsorted l -> ssort l = l.
Proof. induction l; simpl; auto. intros [H1 H2]. rewrite IHl; auto. apply insert_head; auto. Qed.
Lemma filter_insert (P : row -> bool) r l : wsorted l ->
  filter P (insert r l) = if P r then insert r (filter P l) else filter P l.
Proof.
  induction l; simpl; intros Hs.
  - destruct (P r); auto.
  - destruct Hs as [H1 H2]. destruct (rs r <=? rs a) eqn:E.
    + simpl. destruct (P r) eqn:EP; auto.
      symmetry. apply (insert_head r (if P a then a :: filter P l else filter P l)).
      assert (HF : Forall (fun y => rs r <= rs y) (a :: l)).
      { constructor; [lia|]. eapply Forall_impl; [|exact H1]. simpl; lia. }
      apply (sub_Forall _ _ _ (sub_filter P (a :: l))) in HF. simpl in HF. exact HF.
    + simpl. rewrite IHl; auto. destruct (P r) eqn:EP, (P a) eqn:EA; simpl; rewrite ?E; auto.
Qed.
Lemma filter_ssort (P : row -> bool) l : filter P (ssort l) = ssort (filter P l).
Proof.
  induction l; simpl; auto. rewrite filter_insert by apply ssort_wsorted.
  destruct (P a); simpl; rewrite IHl; auto.
Qed.

(* a weakly sorted list splits at T *)
Lemma wsorted_split T l : wsorted l ->
  l = filter (le_stamp T) l ++ filter (fun r => negb (le_stamp T r)) l.
Proof.
  induction l; simpl; auto. intros [H1 H2]. destruct (le_stamp T a) eqn:E; simpl; unfold le_stamp in E.
  - f_equal; auto.
  - assert (HF : Forall (fun y => le_stamp T y = false) l).
    { eapply Forall_impl; [|exact H1]. unfold le_stamp; simpl; intros; lia. }
    rewrite (filter_false _ _ HF). simpl. f_equal. symmetry. apply filter_true.
    eapply Forall_impl; [|exact HF]. simpl. intros x ->; auto.
Qed.

(* ------------------------------------------------------------ sort_uniq *)
Lemma uinsert_In a l x : In x (uinsert a l) <-> x = a \/ In x l.
Proof.
  induction l as [|y l IH]; simpl; [intuition|].
  destruct (a <? y) eqn:E1; simpl; [intuition|]. destruct (a =? y) eqn:E2; simpl.
  - assert (a = y) by lia. subst. intuition.
  - rewrite IH. intuition.
Qed.
Lemma sort_uniq_In l x : In x (sort_uniq l) <-> In x l.
Proof. induction l; simpl; [tauto|]. rewrite uinsert_In, IHl. intuition. Qed.
Lemma uinsert_zs a l : zs l -> zs (uinsert a l).
Proof.
  induction l as [|y l IH]; simpl; auto. intros [H1 H2].
  destruct (a <? y) eqn:E1; simpl.
  - split; auto. constructor; [lia|]. eapply Forall_impl; [|exact H1]. simpl; lia.
  - destruct (a =? y) eqn:E2; simpl; auto. split; auto.
    apply Forall_forall. intros x Hx. apply uinsert_In in Hx. destruct Hx as [->|Hx]; [lia|].
    rewrite Forall_forall in H1; auto.
Qed.
Lemma sort_uniq_zs l : zs (sort_uniq l).
Proof. induction l; simpl; auto. apply uinsert_zs; auto. Qed.
Lemma sub_zs l1 l2 : sub l1 l2 -> zs l2 -> zs l1.
Proof. induction 1; simpl; auto; intros [H1 H2]; auto. split; auto. eapply sub_Forall; eauto. Qed.
Lemma zs_unique l1 : forall l2, zs l1 -> zs l2 -> (forall x, In x l1 <-> In x l2) -> l1 = l2.
Proof.
  induction l1 as [|a l1 IH]; intros [|b l2]; simpl; intros S1 S2 H; auto.
  - exfalso. apply (H b); auto.
  - exfalso. apply (H a); auto.
  - destruct S1 as [F1 S1], S2 as [F2 S2]. rewrite Forall_forall in F1, F2.
    assert (a = b).
    { destruct (proj1 (H a) (or_introl eq_refl)) as [|Ha]; auto.
      destruct (proj2 (H b) (or_introl eq_refl)) as [|Hb]; auto.
      apply F2 in Ha. apply F1 in Hb. lia. }
    subst. f_equal. apply IH; auto. intros x; split; intros Hx.
    + destruct (proj1 (H x) (or_intror Hx)) as [|]; auto. subst. apply F1 in Hx. lia.
    + destruct (proj2 (H x) (or_intror Hx)) as [|]; auto. subst. apply F2 in Hx. lia.
Qed.

(* ------------------------------------------------------------ values: ffill, NaN prefix *)
Definition valid (r : row) : Prop := rv r <> None.
Fixpoint nanprefix (l : list row) : Prop :=
  match l with
  | [] => True
  | r :: l' => match rv r with None => nanprefix l' | Some _ => Forall valid l' end
  end.
Lemma valid_nanprefix l : Forall valid l -> nanprefix l.
Proof. induction 1; simpl; auto. destruct (rv x); auto. Qed.
Lemma sub_nanprefix l1 l2 : sub l1 l2 -> nanprefix l2 -> nanprefix l1.
Proof.
  induction 1; simpl; auto.
  - destruct (rv x); auto. apply sub_Forall; auto.
  - destruct (rv x); auto. intros HF. apply IHsub. apply valid_nanprefix; auto.
Qed.
Lemma lastv_app p l1 l2 : lastv p (l1 ++ l2) = lastv (lastv p l1) l2.
Proof. unfold lastv. rewrite map_app, fold_left_app. reflexivity. Qed.
Lemma lastv_valid p l : Forall valid l -> l <> [] -> lastv p l = rv (last l row0).
Proof.
  intros H. revert p. induction H; intros p Hne; [congruence|].
  destruct l as [|y l].
  - unfold lastv; simpl. unfold valid in H. destruct (rv x); simpl; congruence.
  - rewrite last_cons by discriminate. rewrite <- (IHForall (upd p (rv x))) by discriminate. reflexivity.
Qed.
Lemma lastv_nanprefix l : nanprefix l -> l <> [] -> lastv None l = rv (last l row0).
Proof.
  induction l as [|r l IH]; [congruence|]. intros Hn _. cbn [nanprefix] in Hn.
  destruct l as [|y l].
  - unfold lastv; simpl. destruct (rv r); auto.
  - rewrite last_cons by discriminate. destruct (rv r) eqn:E.
    + rewrite <- (lastv_valid (upd None (rv r))); auto; discriminate.
    + rewrite <- IH by (auto; discriminate). unfold lastv; simpl. rewrite E. reflexivity.
Qed.

(* ------------------------------------------------------------ _drop_repeats *)
Lemma veq_eq a b : veq a b = true -> a = b.
Proof. destruct a, b; simpl; try discriminate. intros; f_equal; lia. Qed.
Lemma sub_drop_eq p l : sub (drop_eq p l) l.
Proof. revert p; induction l; simpl; auto. intros p. destruct (veq _ _); auto. Qed.
Lemma sub_keep_last l : sub (keep_last l) l.
Proof. induction l; simpl; auto. destruct (existsb _ _); auto. Qed.
Lemma sub_trans {A} (l1 l2 l3 : list A) : sub l1 l2 -> sub l2 l3 -> sub l1 l3.
Proof.
  intros H1 H2. revert l1 H1. induction H2; intros l0 H1; auto.
  inversion H1; subst; auto.
Qed.
Lemma sub_drop_repeats l : sub (drop_repeats l) l.
Proof. eapply sub_trans; [apply sub_keep_last | apply sub_drop_eq]. Qed.
Lemma lastv_cons p a l : lastv p (a :: l) = lastv (upd p (rv a)) l.
Proof. reflexivity. Qed.
Lemma drop_eq_lastv p l : lastv p (drop_eq p l) = lastv p l.
Proof.
  revert p; induction l; auto. intros p. cbn [drop_eq]. rewrite (lastv_cons p a l).
  destruct (veq (upd p (rv a)) p) eqn:E.
  - apply veq_eq in E. rewrite E. apply IHl.
  - rewrite lastv_cons. apply IHl.
Qed.
Lemma drop_eq_valid p l : p <> None -> Forall valid (drop_eq p l).
Proof.
  revert p; induction l; simpl; auto. intros p Hp.
  assert (Hc : upd p (rv a) <> None) by (destruct (rv a); simpl; congruence).
  destruct (veq (upd p (rv a)) p) eqn:E; auto. constructor; auto.
  unfold valid. intros Hn. rewrite Hn in E. simpl in E. destruct p; [|congruence]. simpl in E. lia.
Qed.
Lemma drop_eq_None_cons r l : drop_eq None (r :: l) = r :: drop_eq (rv r) l.
Proof. simpl. replace (upd None (rv r)) with (rv r) by (destruct (rv r); auto). destruct (rv r); auto. Qed.
Lemma drop_eq_nanprefix l : nanprefix (drop_eq None l).
Proof.
  induction l; [simpl; auto|]. rewrite drop_eq_None_cons. simpl. destruct (rv a) eqn:E; auto.
  apply drop_eq_valid; congruence.
Qed.
Lemma drop_eq_app p l1 l2 : drop_eq p (l1 ++ l2) = drop_eq p l1 ++ drop_eq (lastv p l1) l2.
Proof.
  revert p; induction l1; simpl; auto. intros p.
  change (lastv p (a :: l1)) with (lastv (upd p (rv a)) l1).
  destruct (veq _ _); simpl; rewrite IHl1; auto.
Qed.
Lemma keep_last_last l : l <> [] -> keep_last l <> [] /\ last (keep_last l) row0 = last l row0.
Proof.
  induction l as [|r l IH]; [congruence|]. intros _. destruct l as [|y l].
  - simpl. split; [discriminate|auto].
  - destruct IH as [H1 H2]; [discriminate|]. rewrite (last_cons r (y :: l)) by discriminate.
    change (keep_last (r :: y :: l)) with (if existsb (fun r' => rs r' =? rs r) (y :: l) then keep_last (y :: l) else r :: keep_last (y :: l)).
    destruct (existsb _ _); auto. split; [discriminate|]. rewrite last_cons; auto.
Qed.
Lemma keep_last_ssorted l : wsorted l -> ssorted (keep_last l).
Proof.
  induction l; simpl; auto. intros [H1 H2]. destruct (existsb _ _) eqn:E; auto. simpl. split; auto.
  apply (sub_Forall _ _ _ (sub_keep_last l)). apply Forall_forall. intros x Hx.
  rewrite Forall_forall in H1. specialize (H1 x Hx).
  assert (rs x <> rs a); [|lia]. intros Heq.
  assert (existsb (fun r' => rs r' =? rs a) l = true); [|congruence].
  apply existsb_exists. exists x; split; auto. lia.
Qed.
Lemma keep_last_app T a b : Forall (fun r => rs r <= T) a -> Forall (fun r => T < rs r) b ->
  keep_last (a ++ b) = keep_last a ++ keep_last b.
Proof.
  induction 1; intros Hb; simpl; auto. rewrite existsb_app.
  replace (existsb (fun r' => rs r' =? rs x) b) with false.
  - rewrite orb_false_r. destruct (existsb _ l); simpl; rewrite IHForall; auto.
  - symmetry. apply not_true_is_false. intros He. apply existsb_exists in He. destruct He as [y [Hy He]].
    rewrite Forall_forall in Hb. apply Hb in Hy. lia.
Qed.

(* reading a prefix of the cleaned column = cleaning the prefix *)
Lemma drop_repeats_prefix T c : wsorted c ->
  filter (le_stamp T) (drop_repeats c) = drop_repeats (filter (le_stamp T) c).
Proof.
  intros Hs. unfold drop_repeats. rewrite (wsorted_split T c Hs) at 1.
  set (q := filter (le_stamp T) c). set (t := filter (fun r => negb (le_stamp T r)) c).
  assert (Hq : Forall (fun r => rs r <= T) q).
  { apply Forall_forall. intros x Hx. apply filter_In in Hx. unfold le_stamp in Hx. lia. }
  assert (Ht : Forall (fun r => T < rs r) t).
  { apply Forall_forall. intros x Hx. apply filter_In in Hx. unfold le_stamp in Hx. destruct Hx as [_ Hx].
    apply negb_true_iff in Hx. lia. }
  rewrite drop_eq_app. rewrite (keep_last_app T).
  - rewrite filter_app. rewrite filter_true, filter_false, app_nil_r; auto.
    + apply (sub_Forall _ _ _ (sub_keep_last _)). apply (sub_Forall _ _ _ (sub_drop_eq _ _)).
      eapply Forall_impl; [|exact Ht]. unfold le_stamp; simpl; intros; lia.
    + apply (sub_Forall _ _ _ (sub_keep_last _)). apply (sub_Forall _ _ _ (sub_drop_eq _ _)).
      eapply Forall_impl; [|exact Hq]. unfold le_stamp; simpl; intros; lia.
  - apply (sub_Forall _ _ _ (sub_drop_eq _ _)); auto.
  - apply (sub_Forall _ _ _ (sub_drop_eq _ _)); auto.
Qed.

Lemma drop_repeats_nil_iff q : drop_repeats q = [] <-> q = [].
Proof.
  split; [|intros ->; reflexivity]. destruct q as [|r q]; auto. unfold drop_repeats.
  rewrite drop_eq_None_cons. intros H. exfalso. eapply (proj1 (keep_last_last (r :: drop_eq (rv r) q) _)); eauto.
  Unshelve. discriminate.
Qed.
Lemma drop_repeats_lastv q : lastv None (drop_repeats q) = lastv None q.
Proof.
  destruct q as [|r q]; auto. rewrite <- (drop_eq_lastv None (r :: q)).
  assert (Hne : drop_eq None (r :: q) <> []) by (rewrite drop_eq_None_cons; discriminate).
  pose proof (drop_eq_nanprefix (r :: q)) as Hn.
  destruct (keep_last_last _ Hne) as [K1 K2]. unfold drop_repeats.
  rewrite (lastv_nanprefix (keep_last _)); auto.
  - rewrite K2. symmetry. apply lastv_nanprefix; auto.
  - eapply sub_nanprefix; [apply sub_keep_last|auto].
Qed.

(* the central fact about _drop_repeats on a column in (weak) stamp order *)
Definition colinv (c : list row) : Prop := ssorted c /\ nanprefix c.
Definition same_reads (c p : list row) : Prop :=
  forall T, (filter (le_stamp T) c = [] <-> filter (le_stamp T) p = []) /\
            lastv None (filter (le_stamp T) c) = lastv None (filter (le_stamp T) p).
Lemma drop_repeats_ok c : wsorted c -> colinv (drop_repeats c) /\ same_reads (drop_repeats c) c.
Proof.
  intros Hs. split; [split|].
  - unfold drop_repeats. apply keep_last_ssorted. eapply sub_wsorted; [apply sub_drop_eq|auto].
  - unfold drop_repeats. eapply sub_nanprefix; [apply sub_keep_last|apply drop_eq_nanprefix].
  - intros T. rewrite drop_repeats_prefix by auto. split; [apply drop_repeats_nil_iff|apply drop_repeats_lastv].
Qed.
Lemma same_reads_trans a b c : same_reads a b -> same_reads b c -> same_reads a c.
Proof. intros H1 H2 T. destruct (H1 T) as [A1 A2], (H2 T) as [B1 B2]. split; [tauto|congruence]. Qed.
Lemma same_reads_app a b n : same_reads a b -> same_reads (a ++ n) (b ++ n).
Proof.
  intros H T. destruct (H T) as [A1 A2]. rewrite !filter_app, !lastv_app, A2. split; auto.
  split; intros HH; apply app_eq_nil in HH; destruct HH as [H1 H2]; rewrite H2, app_nil_r; tauto.
Qed.

(* ------------------------------------------------------------ frames: columns per date *)
Definition col (d : Z) (l : list row) : list row := filter (on_date d) l.

Lemma in_map_rd_iff d l : In d (map rd l) <-> col d l <> [].
Proof.
  unfold col. split.
  - intros H. apply in_map_iff in H. destruct H as [r [Hr Hin]]. intros Hn.
    rewrite filter_nil_iff in Hn. specialize (Hn r Hin). unfold on_date in Hn. lia.
  - intros H. destruct (filter (on_date d) l) as [|r q] eqn:E; [congruence|].
    assert (Hr : In r (filter (on_date d) l)) by (rewrite E; left; auto).
    apply filter_In in Hr. destruct Hr as [Hin Hd]. apply in_map_iff. exists r. unfold on_date in Hd. split; [lia|auto].
Qed.
Lemma flat_map_col_notin d (g : Z -> list row) ds :
  (forall d', Forall (fun r => rd r = d') (g d')) -> ~ In d ds -> col d (flat_map g ds) = [].
Proof.
  intros Hg. induction ds as [|a ds IH]; simpl; auto. intros Hn. unfold col in *. rewrite filter_app, IH by tauto.
  rewrite app_nil_r. apply filter_false. eapply Forall_impl; [|apply (Hg a)]. simpl. intros r Hr.
  unfold on_date. assert (a <> d) by tauto. lia.
Qed.
Lemma flat_map_col_in d (g : Z -> list row) ds :
  (forall d', Forall (fun r => rd r = d') (g d')) -> zs ds -> In d ds -> col d (flat_map g ds) = g d.
Proof.
  intros Hg. induction ds as [|a ds IH]; simpl; [tauto|]. intros [HF Hz] [->|Hin].
  - unfold col. rewrite filter_app. fold (col d (flat_map g ds)). rewrite flat_map_col_notin; auto.
    + rewrite app_nil_r. apply filter_true. eapply Forall_impl; [|apply (Hg d)]. simpl. intros r Hr. unfold on_date. lia.
    + intros Hin. rewrite Forall_forall in HF. apply HF in Hin. lia.
  - unfold col. rewrite filter_app. fold (col d (flat_map g ds)). rewrite IH; auto.
    rewrite filter_false; auto. eapply Forall_impl; [|apply (Hg a)]. simpl. intros r Hr. unfold on_date.
    rewrite Forall_forall in HF. apply HF in Hin. lia.
Qed.
Lemma col_merge_frames d l : col d (merge_frames l) = drop_repeats (ssort (col d l)).
Proof.
  unfold merge_frames.
  set (g := fun d' => drop_repeats (filter (on_date d') (ssort l))).
  assert (Hg : forall d', Forall (fun r => rd r = d') (g d')).
  { intros d'. unfold g. apply (sub_Forall _ _ _ (sub_drop_repeats _)). apply Forall_forall.
    intros x Hx. apply filter_In in Hx. unfold on_date in Hx. lia. }
  change (col d (flat_map g (sort_uniq (map rd (ssort l)))) = drop_repeats (ssort (col d l))).
  unfold col at 2. rewrite <- filter_ssort.
  destruct (in_dec Z.eq_dec d (sort_uniq (map rd (ssort l)))) as [Hin|Hn].
  - rewrite flat_map_col_in; auto. apply sort_uniq_zs.
  - rewrite flat_map_col_notin; auto. rewrite sort_uniq_In, in_map_rd_iff in Hn.
    unfold col in Hn. destruct (filter (on_date d) (ssort l)); [reflexivity|]. exfalso. apply Hn. discriminate.
Qed.
Lemma drop_repeats_short l : (length l <= 1)%nat -> drop_repeats (ssort l) = l.
Proof.
  destruct l as [|r [|y l]]; simpl; intros H; try lia; auto.
  unfold drop_repeats. rewrite drop_eq_None_cons. reflexivity.
Qed.
Lemma col_bi_merge d old new : (length (col d new) <= 1)%nat ->
  col d (bi_merge old new) = drop_repeats (ssort (col d old ++ col d new)).
Proof.
  intros Hl. unfold bi_merge. destruct old as [|o old].
  - simpl. symmetry. apply drop_repeats_short; auto.
  - rewrite col_merge_frames. unfold col. rewrite filter_app. reflexivity.
Qed.
Lemma In_bi_merge r old new : In r (bi_merge old new) -> In r (old ++ new).
Proof.
  unfold bi_merge. destruct old as [|o old]; auto. unfold merge_frames. intros H.
  apply in_flat_map in H. destruct H as [d [_ H]]. apply (sub_In _ _ _ (sub_drop_repeats _)) in H.
  apply filter_In in H. destruct H as [H _]. apply (proj1 (ssort_In _ _)) in H. exact H.
Qed.

Lemma Bi_stamp v : Forall (fun r => rs r = fst v) (Bi v).
Proof. unfold Bi. apply Forall_forall. intros r Hr. apply in_map_iff in Hr. destruct Hr as [p [<- _]]. reflexivity. Qed.
Lemma col_Bi_len d v : NoDup (map fst (snd v)) -> (length (col d (Bi v)) <= 1)%nat.
Proof.
  unfold Bi. generalize (fst v) as s. induction (snd v) as [|p l IH]; simpl; intros s Hnd; auto.
  inversion Hnd; subst. unfold on_date at 1. unfold rd at 1. simpl.
  destruct (fst p =? d) eqn:E.
  - assert (Hnil : col d (map (fun p0 => (fst p0, s, snd p0)) l) = []).
    { unfold col. apply filter_nil_iff. intros x Hx. apply in_map_iff in Hx. destruct Hx as [q [<- Hq]].
      unfold on_date, rd; simpl. assert (fst q <> fst p); [|lia]. intros Heq. apply H1. rewrite <- Heq. apply in_map; auto. }
    rewrite Hnil. simpl; lia.
  - apply IH; auto.
Qed.

(* ------------------------------------------------------------ reading a column *)
Lemma nth_what_last l : l <> [] -> nth_what (-1) l = last l row0.
Proof.
  intros Hne. unfold nth_what. destruct (0 <=? -1) eqn:E01; [lia|]. clear E01.
  assert (0 < Z.of_nat (length l)) by (destruct l; [congruence|cbn [length]; lia]).
  replace (Z.of_nat (length l) + Z.max (-1) (- Z.of_nat (length l))) with (Z.of_nat (length l) - 1) by lia.
  rewrite last_nth. f_equal. lia.
Qed.
Lemma nth_what_first l : l <> [] -> nth_what 0 l = hd row0 l.
Proof.
  intros Hne. unfold nth_what. destruct (0 <=? 0) eqn:E01; [|lia]. clear E01.
  assert (0 < Z.of_nat (length l)) by (destruct l; [congruence|cbn [length]; lia]).
  replace (Z.min 0 (Z.of_nat (length l) - 1)) with 0 by lia. destruct l; [congruence|reflexivity].
Qed.
Lemma fle_wsorted T c : wsorted c -> ssort (filter (le_stamp T) c) = filter (le_stamp T) c.
Proof. intros H. apply ssort_id. eapply sub_wsorted; [apply sub_filter|auto]. Qed.

(* as-of-T read of a clean column c that reads like the (weakly sorted) publication list p *)
Definition firstval (p : list row) : option Z :=
  match p with [] => None | r :: _ => lastv None (filter (le_stamp (rs r)) p) end.
Lemma col_read_last T c p : colinv c -> same_reads c p -> filter (le_stamp T) c <> [] ->
  rv (nth_what (-1) (ssort (filter (le_stamp T) c))) = lastv None (filter (le_stamp T) p).
Proof.
  intros [Hs Hn] Hr Hne. rewrite fle_wsorted by (apply ssorted_wsorted; auto).
  rewrite nth_what_last by auto. rewrite <- (proj2 (Hr T)). symmetry. apply lastv_nanprefix; auto.
  eapply sub_nanprefix; [apply sub_filter|auto].
Qed.
Lemma wsorted_hd_min r p x : wsorted (r :: p) -> In x (r :: p) -> rs r <= rs x.
Proof. simpl. intros [H _] [->|Hx]; [lia|]. rewrite Forall_forall in H; auto. Qed.
Lemma fle_ne_witness T l : filter (le_stamp T) l <> [] -> exists x, In x l /\ rs x <= T.
Proof.
  destruct (filter (le_stamp T) l) as [|x q] eqn:E; [congruence|]. intros _.
  assert (Hx : In x (filter (le_stamp T) l)) by (rewrite E; left; auto).
  apply filter_In in Hx. exists x. unfold le_stamp in Hx. split; [tauto|lia].
Qed.
Lemma fle_ne_intro T l x : In x l -> rs x <= T -> filter (le_stamp T) l <> [].
Proof.
  intros Hin Hle Hn. rewrite filter_nil_iff in Hn. specialize (Hn x Hin). unfold le_stamp in Hn. lia.
Qed.
Lemma ssorted_fle_hd r c : ssorted (r :: c) -> filter (le_stamp (rs r)) (r :: c) = [r].
Proof.
  simpl. intros [HF _]. unfold le_stamp at 1. rewrite Z.leb_refl. f_equal. apply filter_false.
  eapply Forall_impl; [|exact HF]. unfold le_stamp; simpl; intros; lia.
Qed.
Lemma col_read_first T c p : colinv c -> same_reads c p -> wsorted p -> filter (le_stamp T) c <> [] ->
  rv (nth_what 0 (ssort (filter (le_stamp T) c))) = firstval p.
Proof.
  intros [Hs Hn] Hr Hp Hne. rewrite fle_wsorted by (apply ssorted_wsorted; auto).
  rewrite nth_what_first by auto.
  destruct c as [|r c]; [simpl in Hne; congruence|].
  assert (Hw := ssorted_wsorted _ Hs).
  assert (HrT : rs r <= T).
  { destruct (fle_ne_witness _ _ Hne) as [x [Hx Hle]]. pose proof (wsorted_hd_min r c x Hw Hx). lia. }
  cbn [filter]. unfold le_stamp at 1. replace (rs r <=? T) with true by lia. cbn [hd].
  assert (Hc1 : filter (le_stamp (rs r)) (r :: c) <> []) by (rewrite ssorted_fle_hd by auto; discriminate).
  destruct p as [|r0 p].
  - exfalso. apply Hc1. apply (proj1 (Hr (rs r))). reflexivity.
  - unfold firstval.
    assert (rs r0 = rs r).
    { assert (A : filter (le_stamp (rs r)) (r0 :: p) <> []) by (intros HH; apply Hc1; apply (proj1 (Hr (rs r))); auto).
      destruct (fle_ne_witness _ _ A) as [x [Hx Hle]]. pose proof (wsorted_hd_min r0 p x Hp Hx).
      assert (B : filter (le_stamp (rs r0)) (r :: c) <> []).
      { intros HH. apply (proj1 (Hr (rs r0))) in HH. revert HH. apply (fle_ne_intro _ _ r0); [left; auto|lia]. }
      destruct (fle_ne_witness _ _ B) as [y [Hy Hle2]]. pose proof (wsorted_hd_min r c y Hw Hy). lia. }
    rewrite H. rewrite <- (proj2 (Hr (rs r))). rewrite ssorted_fle_hd by auto.
    unfold lastv; simpl. destruct (rv r); auto.
Qed.

(* ------------------------------------------------------------ bi_read through columns *)
Lemma sort_uniq_ext l1 l2 : (forall x, In x l1 <-> In x l2) -> sort_uniq l1 = sort_uniq l2.
Proof. intros H. apply zs_unique; try apply sort_uniq_zs. intros x. rewrite !sort_uniq_In. auto. Qed.
Lemma bi_read_cols st T n :
  bi_read st (Some T) n =
  map (fun d => (d, rv (nth_what n (ssort (filter (le_stamp T) (col d st))))))
      (sort_uniq (map rd (filter (le_stamp T) st))).
Proof.
  unfold bi_read. rewrite (sort_uniq_ext (map rd (ssort (filter (le_stamp T) st))) (map rd (filter (le_stamp T) st))).
  - apply map_ext. intros d. rewrite filter_ssort. unfold col. rewrite filter_comm. reflexivity.
  - intros x. rewrite !in_map_iff. split; intros [r [Hr Hin]]; exists r; (split; [auto|]); apply ssort_In; auto.
Qed.
Definition has (T : Z) (p : Z -> list row) (d : Z) : bool :=
  match filter (le_stamp T) (p d) with [] => false | _ => true end.
Lemma has_true T p d : has T p d = true <-> filter (le_stamp T) (p d) <> [].
Proof. unfold has. destruct (filter _ _); split; congruence. Qed.

(* general reading theorem: a store whose columns are clean and read like p *)
Lemma read_dates st T (p : Z -> list row) (ds : list Z) :
  (forall d, same_reads (col d st) (p d)) -> zs ds -> (forall d, p d <> [] -> In d ds) ->
  sort_uniq (map rd (filter (le_stamp T) st)) = filter (has T p) ds.
Proof.
  intros Hr Hz Hds. apply zs_unique.
  - apply sort_uniq_zs.
  - eapply sub_zs; [apply sub_filter|auto].
  - intros d. rewrite sort_uniq_In, in_map_rd_iff, filter_In, has_true. unfold col. rewrite filter_comm.
    fold (col d st). pose proof (proj1 (Hr d T)) as HH. split.
    + intros H. split; [|tauto]. apply Hds. intros Hn. apply H. apply HH. rewrite Hn. reflexivity.
    + tauto.
Qed.
Lemma read_general st T (p : Z -> list row) ds :
  (forall d, colinv (col d st)) -> (forall d, same_reads (col d st) (p d)) -> (forall d, wsorted (p d)) ->
  zs ds -> (forall d, p d <> [] -> In d ds) ->
  bi_read st (Some T) (-1) = map (fun d => (d, lastv None (filter (le_stamp T) (p d)))) (filter (has T p) ds) /\
  bi_read st (Some T) 0 = map (fun d => (d, firstval (p d))) (filter (has T p) ds).
Proof.
  intros Hc Hr Hp Hz Hds. rewrite !bi_read_cols. rewrite (read_dates st T p ds) by auto.
  split; apply map_ext_in; intros d Hd; apply filter_In in Hd; destruct Hd as [_ Hd]; apply has_true in Hd;
    f_equal; [apply col_read_last|apply col_read_first]; auto; intros Hn; apply Hd; apply (proj1 (Hr d T)); auto.
Qed.

(* ------------------------------------------------------------ histories *)
Lemma store_snoc h v : store_of (h ++ [v]) = bi_merge (store_of h) (Bi v).
Proof. unfold store_of. rewrite fold_left_app. reflexivity. Qed.
Lemma pubs_snoc h v d : pubs (h ++ [v]) d = pubs h d ++ col d (Bi v).
Proof. unfold pubs, col. rewrite flat_map_app, filter_app. simpl. rewrite app_nil_r. reflexivity. Qed.
Lemma nondecr_snoc h v : stamps_nondecreasing (h ++ [v]) ->
  stamps_nondecreasing h /\ Forall (fun w => fst w <= fst v) h.
Proof.
  induction h as [|a h IH]; simpl; auto. intros [H1 H2]. destruct (IH H2) as [A B].
  apply Forall_app in H1. destruct H1 as [H1 H3]. inversion H3; subst. repeat split; auto.
Qed.
Lemma wsorted_app a b : wsorted a -> wsorted b -> (forall x y, In x a -> In y b -> rs x <= rs y) -> wsorted (a ++ b).
Proof.
  induction a as [|r a IH]; simpl; auto. intros [H1 H2] Hb Hx. split.
  - apply Forall_app. split; auto. apply Forall_forall. intros y Hy. apply Hx; auto.
  - apply IH; auto.
Qed.
Lemma const_stamp_wsorted s l : Forall (fun r => rs r = s) l -> wsorted l.
Proof. induction 1; simpl; auto. split; auto. eapply Forall_impl; [|exact H0]. simpl; intros; lia. Qed.
Lemma hist_rows_le h s : Forall (fun w => fst w <= s) h -> forall r, In r (flat_map Bi h) -> rs r <= s.
Proof.
  intros HF r Hr. apply in_flat_map in Hr. destruct Hr as [w [Hw Hr]].
  rewrite Forall_forall in HF. apply HF in Hw. pose proof (Bi_stamp w) as Hs. rewrite Forall_forall in Hs.
  rewrite (Hs r Hr). auto.
Qed.
Lemma hist_wsorted h : stamps_nondecreasing h -> wsorted (flat_map Bi h).
Proof.
  induction h as [|v h IH]; simpl; auto. intros [H1 H2]. apply wsorted_app; auto.
  - apply (const_stamp_wsorted (fst v)). apply Bi_stamp.
  - intros x y Hx Hy. pose proof (Bi_stamp v) as Hs. rewrite Forall_forall in Hs. rewrite (Hs x Hx).
    apply in_flat_map in Hy. destruct Hy as [w [Hw Hy]]. pose proof (Bi_stamp w) as Hs2. rewrite Forall_forall in Hs2.
    rewrite (Hs2 y Hy). rewrite Forall_forall in H1. auto.
Qed.
Lemma pubs_wsorted h d : stamps_nondecreasing h -> wsorted (pubs h d).
Proof. intros H. eapply sub_wsorted; [apply sub_filter|apply hist_wsorted; auto]. Qed.

(* the invariant, by induction over the publication history *)
Theorem store_invariant h : stamps_nondecreasing h -> series_ok h ->
  (forall d, colinv (col d (store_of h)) /\ same_reads (col d (store_of h)) (pubs h d)) /\
  (forall r, In r (store_of h) -> In r (flat_map Bi h)).
Proof.
  induction h as [|v h IH] using rev_ind; intros Hs Hok.
  - split; [|simpl; tauto]. intros d. unfold store_of, pubs, col; simpl. repeat split; simpl; auto.
  - apply nondecr_snoc in Hs. destruct Hs as [Hs Hle]. unfold series_ok in Hok. apply Forall_app in Hok.
    destruct Hok as [Hok Hv]. inversion Hv; subst. clear Hv. destruct (IH Hs Hok) as [IH1 IH2]. clear IH.
    rewrite store_snoc. split.
    + intros d. destruct (IH1 d) as [[Hss Hnp] Hsr].
      rewrite col_bi_merge by (apply col_Bi_len; auto). rewrite pubs_snoc.
      assert (Hw : wsorted (col d (store_of h) ++ col d (Bi v))).
      { apply wsorted_app.
        - apply ssorted_wsorted; auto.
        - apply (const_stamp_wsorted (fst v)). apply (sub_Forall _ _ _ (sub_filter _ _)). apply Bi_stamp.
        - intros x y Hx Hy. apply filter_In in Hx, Hy. destruct Hx as [Hx _], Hy as [Hy _].
          pose proof (Bi_stamp v) as Hb. rewrite Forall_forall in Hb. rewrite (Hb y Hy).
          apply (hist_rows_le h); auto. }
      rewrite (ssort_id _ Hw). destruct (drop_repeats_ok _ Hw) as [A B]. split; auto.
      eapply same_reads_trans; [exact B|]. apply same_reads_app; auto.
    + intros r Hr. apply In_bi_merge in Hr. rewrite flat_map_app. simpl. rewrite app_nil_r.
      apply in_app_iff in Hr. apply in_app_iff. destruct Hr; auto.
Qed.

(* ------------------------------------------------------------ the property *)
Lemma latest_le_has T h d :
  latest_le T h d = if has T (pubs h) d then Some (lastv None (filter (le_stamp T) (pubs h d))) else None.
Proof. unfold latest_le, has. destruct (filter (le_stamp T) (pubs h d)); reflexivity. Qed.
Lemma spec_read_map T h :
  spec_read T h = map (fun d => (d, lastv None (filter (le_stamp T) (pubs h d)))) (filter (has T (pubs h)) (hist_dates h)).
Proof.
  unfold spec_read. induction (hist_dates h) as [|d L IH]; simpl; auto.
  rewrite latest_le_has. destruct (has T (pubs h) d); simpl; rewrite IH; reflexivity.
Qed.
Lemma spec_first_map T h :
  spec_first T h = map (fun d => (d, firstval (pubs h d))) (filter (has T (pubs h)) (hist_dates h)).
Proof.
  unfold spec_first. induction (hist_dates h) as [|d L IH]; simpl; auto.
  rewrite latest_le_has. destruct (has T (pubs h) d); simpl; rewrite IH; reflexivity.
Qed.
Lemma hist_dates_complete h d : pubs h d <> [] -> In d (hist_dates h).
Proof. intros H. unfold hist_dates. rewrite sort_uniq_In. apply in_map_rd_iff. exact H. Qed.

Theorem read_is_latest h T : stamps_nondecreasing h -> series_ok h ->
  bi_read (store_of h) (Some T) (-1) = spec_read T h /\ bi_read (store_of h) (Some T) 0 = spec_first T h.
Proof.
  intros Hs Hok. destruct (store_invariant h Hs Hok) as [Hinv _].
  rewrite spec_read_map, spec_first_map. apply read_general.
  - intros d; apply Hinv.
  - intros d; apply Hinv.
  - intros d; apply pubs_wsorted; auto.
  - apply sort_uniq_zs.
  - intros d; apply hist_dates_complete.
Qed.

Lemma bi_read_none st n T : Forall (fun r => rs r <= T) st -> bi_read st None n = bi_read st (Some T) n.
Proof.
  intros H. unfold bi_read. rewrite filter_true; auto. eapply Forall_impl; [|exact H]. unfold le_stamp; simpl; intros; lia.
Qed.

(* no look-ahead *)
Lemma hist_le_rows T h : flat_map Bi (hist_le T h) = filter (le_stamp T) (flat_map Bi h).
Proof.
  induction h as [|v h IH]; simpl; auto. rewrite filter_app, <- IH. pose proof (Bi_stamp v) as Hs.
  destruct (fst v <=? T) eqn:E; simpl.
  - f_equal. symmetry. apply filter_true. eapply Forall_impl; [|exact Hs]. unfold le_stamp; simpl; intros; lia.
  - rewrite filter_false; auto. eapply Forall_impl; [|exact Hs]. unfold le_stamp; simpl; intros; lia.
Qed.
Lemma pubs_hist_le T h d : pubs (hist_le T h) d = filter (le_stamp T) (pubs h d).
Proof. unfold pubs. rewrite hist_le_rows. apply filter_comm. Qed.
Lemma nondecr_filter (P : version -> bool) h : stamps_nondecreasing h -> stamps_nondecreasing (filter P h).
Proof.
  induction h as [|v h IH]; simpl; auto. intros [H1 H2]. destruct (P v); simpl; auto. split; auto.
  apply (sub_Forall _ _ _ (sub_filter P h)); auto.
Qed.
Lemma series_ok_filter (P : version -> bool) h : series_ok h -> series_ok (filter P h).
Proof. unfold series_ok. apply sub_Forall. apply sub_filter. Qed.
Lemma fle_idem T (l : list row) : filter (le_stamp T) (filter (le_stamp T) l) = filter (le_stamp T) l.
Proof. apply filter_true. apply Forall_forall. intros x Hx. apply filter_In in Hx. tauto. Qed.
Lemma firstval_fle T p : wsorted p -> filter (le_stamp T) p <> [] -> firstval (filter (le_stamp T) p) = firstval p.
Proof.
  intros Hw Hne. destruct p as [|r p]; auto.
  assert (HrT : rs r <= T).
  { destruct (fle_ne_witness _ _ Hne) as [x [Hx Hle]]. pose proof (wsorted_hd_min r p x Hw Hx). lia. }
  assert (E : filter (le_stamp T) (r :: p) = r :: filter (le_stamp T) p).
  { cbn [filter]. unfold le_stamp at 1. replace (rs r <=? T) with true by lia. reflexivity. }
  rewrite E. unfold firstval. rewrite <- E.
  rewrite filter_comm. f_equal. apply filter_true. apply Forall_forall. intros x Hx. apply filter_In in Hx.
  unfold le_stamp in *. lia.
Qed.
Lemma filter_has_eq T p1 p2 ds1 ds2 : zs ds1 -> zs ds2 ->
  (forall d, p1 d <> [] -> In d ds1) -> (forall d, p2 d <> [] -> In d ds2) ->
  (forall d, has T p1 d = has T p2 d) -> filter (has T p1) ds1 = filter (has T p2) ds2.
Proof.
  intros Z1 Z2 C1 C2 Hh. apply zs_unique.
  - eapply sub_zs; [apply sub_filter|auto].
  - eapply sub_zs; [apply sub_filter|auto].
  - intros d. rewrite !filter_In. rewrite <- Hh. split; intros [_ Hd]; split; auto.
    + apply C2. intros Hn. rewrite Hh in Hd. apply has_true in Hd. rewrite Hn in Hd. auto.
    + apply C1. intros Hn. apply has_true in Hd. rewrite Hn in Hd. auto.
Qed.
Theorem no_lookahead h T : stamps_nondecreasing h -> series_ok h ->
  bi_read (store_of h) (Some T) (-1) = bi_read (store_of (hist_le T h)) (Some T) (-1) /\
  bi_read (store_of h) (Some T) 0 = bi_read (store_of (hist_le T h)) (Some T) 0.
Proof.
  intros Hs Hok.
  destruct (read_is_latest h T Hs Hok) as [A1 A0].
  destruct (read_is_latest (hist_le T h) T (nondecr_filter _ _ Hs) (series_ok_filter _ _ Hok)) as [B1 B0].
  rewrite A1, A0, B1, B0, !spec_read_map, !spec_first_map.
  assert (Hh : forall d, has T (pubs h) d = has T (pubs (hist_le T h)) d).
  { intros d. unfold has. rewrite pubs_hist_le, fle_idem. reflexivity. }
  rewrite (filter_has_eq T (pubs h) (pubs (hist_le T h)) (hist_dates h) (hist_dates (hist_le T h)));
    try apply sort_uniq_zs; try (intros d; apply hist_dates_complete); auto.
  split; apply map_ext_in; intros d Hd; f_equal.
  - rewrite pubs_hist_le, fle_idem. reflexivity.
  - apply filter_In in Hd. destruct Hd as [_ Hd]. rewrite <- Hh in Hd. apply has_true in Hd.
    rewrite pubs_hist_le. symmetry. apply firstval_fle; auto. apply pubs_wsorted; auto.
Qed.

(* ------------------------------------------------------------ re-merging a version that is in the store *)
Lemma ssort_snoc q r : wsorted q ->
  ssort (q ++ [r]) = filter (le_stamp (rs r)) q ++ r :: filter (fun x => negb (le_stamp (rs r) x)) q.
Proof.
  unfold ssort. rewrite fold_right_app. change (fold_right insert [] [r]) with [r].
  induction q as [|a q IH]; [reflexivity|]. intros [H1 H2]. cbn [fold_right]. rewrite IH by auto. cbn [filter].
  destruct (le_stamp (rs r) a) eqn:E; unfold le_stamp in E; cbn [negb].
  - apply insert_head. apply Forall_app. split.
    + apply (sub_Forall _ _ _ (sub_filter _ q)); auto.
    + constructor; [lia|]. apply (sub_Forall _ _ _ (sub_filter _ q)); auto.
  - assert (HF : Forall (fun y => le_stamp (rs r) y = false) q).
    { eapply Forall_impl; [|exact H1]. unfold le_stamp; simpl; intros; lia. }
    rewrite (filter_false _ _ HF).
    rewrite (filter_true (fun x => negb (le_stamp (rs r) x)) q) by (eapply Forall_impl; [|exact HF]; simpl; intros x ->; auto).
    simpl. replace (rs a <=? rs r) with false by lia. f_equal. apply insert_head; auto.
Qed.
Lemma ssorted_fle_last q r : ssorted q -> In r q -> exists A, filter (le_stamp (rs r)) q = A ++ [r].
Proof.
  induction q as [|a q IH]; [simpl; tauto|]. intros Hs [->|Hin].
  - exists []. apply ssorted_fle_hd; auto.
  - destruct Hs as [HF Hs]. destruct (IH Hs Hin) as [A HA]. exists (a :: A). cbn [filter]. rewrite HA.
    rewrite Forall_forall in HF. apply HF in Hin. unfold le_stamp at 1. replace (rs a <=? rs r) with true by lia. reflexivity.
Qed.
Lemma same_reads_refl c : same_reads c c.
Proof. intros T; split; [tauto|reflexivity]. Qed.
Lemma same_reads_dup c r : ssorted c -> In r c -> same_reads (ssort (c ++ [r])) c.
Proof.
  intros Hs Hin T. rewrite filter_ssort, filter_app. cbn [filter].
  assert (Hq : ssorted (filter (le_stamp T) c)) by (eapply sub_ssorted; [apply sub_filter|auto]).
  destruct (le_stamp T r) eqn:E.
  - assert (Hrq : In r (filter (le_stamp T) c)) by (apply filter_In; auto).
    set (q := filter (le_stamp T) c) in *.
    rewrite ssort_snoc by (apply ssorted_wsorted; auto).
    destruct (ssorted_fle_last q r Hq Hrq) as [A HA].
    pose proof (wsorted_split (rs r) q (ssorted_wsorted _ Hq)) as Hsplit.
    set (F := filter (le_stamp (rs r)) q) in *. set (G := filter (fun x => negb (le_stamp (rs r) x)) q) in *.
    split.
    + split; intros HH; exfalso.
      * rewrite HA in HH. destruct A; discriminate.
      * rewrite HH in Hrq. destruct Hrq.
    + transitivity (lastv None (F ++ G)); [|rewrite <- Hsplit; reflexivity].
      rewrite !lastv_app. rewrite HA, lastv_app. rewrite (lastv_cons _ r G). f_equal.
      unfold lastv at 1 3. simpl. destruct (rv r); reflexivity.
  - rewrite app_nil_r. rewrite ssort_id by (apply ssorted_wsorted; auto). split; [tauto|reflexivity].
Qed.
Theorem remerge_reads h v T : stamps_nondecreasing h -> series_ok h -> NoDup (map fst (snd v)) ->
  (forall r, In r (Bi v) -> In r (store_of h)) ->
  bi_read (bi_merge (store_of h) (Bi v)) (Some T) (-1) = bi_read (store_of h) (Some T) (-1) /\
  bi_read (bi_merge (store_of h) (Bi v)) (Some T) 0 = bi_read (store_of h) (Some T) 0.
Proof.
  intros Hs Hok Hnd Hsub. destruct (store_invariant h Hs Hok) as [Hinv _].
  set (st := store_of h) in *. set (ds := sort_uniq (map rd st)).
  assert (Hds : forall d, col d st <> [] -> In d ds) by (intros d Hd; unfold ds; rewrite sort_uniq_In; apply in_map_rd_iff; auto).
  assert (Hw : forall d, wsorted (col d st)) by (intros d; apply ssorted_wsorted; apply Hinv).
  destruct (read_general st T (fun d => col d st) ds) as [A1 A0]; auto; try apply sort_uniq_zs.
  { intros d; apply Hinv. } { intros d; apply same_reads_refl. }
  assert (Hnew : forall d, colinv (col d (bi_merge st (Bi v))) /\ same_reads (col d (bi_merge st (Bi v))) (col d st)).
  { intros d. pose proof (col_Bi_len d v Hnd) as Hlen. rewrite col_bi_merge by auto.
    destruct (Hinv d) as [[Hss Hnp] _].
    destruct (col d (Bi v)) as [|r [|r2 n]] eqn:En.
    - rewrite app_nil_r, ssort_id by auto. apply drop_repeats_ok; auto.
    - assert (Hr : In r (col d st)).
      { assert (Hr : In r (col d (Bi v))) by (rewrite En; left; auto). unfold col in *. apply filter_In in Hr.
        apply filter_In. split; [apply Hsub|]; tauto. }
      destruct (drop_repeats_ok (ssort (col d st ++ [r])) (ssort_wsorted _)) as [B1 B2]. split; auto.
      eapply same_reads_trans; [exact B2|]. apply same_reads_dup; auto.
    - simpl in Hlen. lia. }
  destruct (read_general (bi_merge st (Bi v)) T (fun d => col d st) ds) as [B1 B0]; auto; try apply sort_uniq_zs.
  { intros d; apply Hnew. } { intros d; apply Hnew. }
  rewrite A1, A0, B1, B0. auto.
Qed.

(* re-merging the most recent version *)
Lemma nondecr_snoc_intro h v : stamps_nondecreasing h -> Forall (fun w => fst w <= fst v) h -> stamps_nondecreasing (h ++ [v]).
Proof.
  induction h as [|a h IH]; simpl; auto. intros [H1 H2] HF. inversion HF; subst. split; auto.
  apply Forall_app; split; auto.
Qed.
Lemma same_reads_dup_tail P n : (length n <= 1)%nat -> same_reads ((P ++ n) ++ n) (P ++ n).
Proof.
  intros Hl T. destruct n as [|r [|r2 n]]; [rewrite !app_nil_r; split; [tauto|reflexivity]| |simpl in Hl; lia].
  rewrite !filter_app. cbn [filter]. destruct (le_stamp T r).
  - split.
    + split; intros HH; exfalso; apply app_eq_nil in HH; destruct HH as [_ HH]; discriminate.
    + rewrite !lastv_app. unfold lastv at 1 2 4. simpl. destruct (rv r); reflexivity.
  - rewrite !app_nil_r. split; [tauto|reflexivity].
Qed.
Theorem remerge_last h v T : stamps_nondecreasing (h ++ [v]) -> series_ok (h ++ [v]) ->
  bi_read (bi_merge (store_of (h ++ [v])) (Bi v)) (Some T) (-1) = bi_read (store_of (h ++ [v])) (Some T) (-1) /\
  bi_read (bi_merge (store_of (h ++ [v])) (Bi v)) (Some T) 0 = bi_read (store_of (h ++ [v])) (Some T) 0.
Proof.
  intros Hs Hok. rewrite <- (store_snoc (h ++ [v]) v).
  assert (Hs2 : stamps_nondecreasing ((h ++ [v]) ++ [v])).
  { apply nondecr_snoc_intro; [exact Hs|]. destruct (nondecr_snoc _ _ Hs) as [_ HF]. apply Forall_app; split; auto. constructor; [lia|constructor]. }
  assert (Hnd : NoDup (map fst (snd v))).
  { unfold series_ok in Hok. apply Forall_app in Hok. destruct Hok as [_ Hv]. inversion Hv; auto. }
  assert (Hok2 : series_ok ((h ++ [v]) ++ [v])) by (apply Forall_app; split; auto).
  destruct (store_invariant _ Hs2 Hok2) as [Hinv _].
  destruct (read_is_latest (h ++ [v]) T Hs Hok) as [A1 A0]. rewrite A1, A0, spec_read_map, spec_first_map.
  apply read_general.
  - intros d; apply Hinv.
  - intros d. eapply same_reads_trans; [apply Hinv|]. rewrite (pubs_snoc (h ++ [v])), pubs_snoc.
    apply same_reads_dup_tail. apply col_Bi_len; auto.
  - intros d; apply pubs_wsorted; auto.
  - apply sort_uniq_zs.
  - intros d; apply hist_dates_complete.
Qed.

(* what the spec's value is: the last non-NaN publication in merge order, which (stamps
   non-decreasing) carries the largest stamp <= T and was merged last among equal stamps *)
Lemma wsorted_app_inv a b : wsorted (a ++ b) -> wsorted a /\ wsorted b /\ (forall x y, In x a -> In y b -> rs x <= rs y).
Proof.
  induction a as [|r a IH]; simpl; [tauto|]. intros [H1 H2]. destruct (IH H2) as [A [B C]].
  apply Forall_app in H1. destruct H1 as [H1 H3]. repeat split; auto.
  intros x y [->|Hx] Hy; auto. rewrite Forall_forall in H3; auto.
Qed.
Lemma lastv_decompose q x : wsorted q -> lastv None q = Some x ->
  exists p1 r p2, q = p1 ++ r :: p2 /\ rv r = Some x /\ Forall (fun y => rv y = None) p2 /\ Forall (fun y => rs y <= rs r) p1.
Proof.
  induction q as [|y q IH] using rev_ind; [discriminate|]. intros Hw Hl. rewrite lastv_app in Hl.
  destruct (wsorted_app_inv _ _ Hw) as [Hq [_ Hc]]. unfold lastv at 1 in Hl. simpl in Hl. destruct (rv y) eqn:E.
  - exists q, y, []. simpl in Hl. repeat split; auto; [congruence|]. apply Forall_forall. intros w Hw0. apply Hc; simpl; auto.
  - simpl in Hl. destruct (IH Hq Hl) as [p1 [r [p2 [-> [H1 [H2 H3]]]]]]. exists p1, r, (p2 ++ [y]).
    rewrite <- app_assoc. repeat split; auto. apply Forall_app; split; auto.
Qed.
Theorem latest_characterised T h d x : stamps_nondecreasing h -> latest_le T h d = Some (Some x) ->
  exists p1 r p2, filter (le_stamp T) (pubs h d) = p1 ++ r :: p2 /\ rv r = Some x /\ rs r <= T /\
    Forall (fun y => rv y = None) p2 /\ Forall (fun y => rs y <= rs r) p1.
Proof.
  intros Hs Hl. rewrite latest_le_has in Hl. destruct (has T (pubs h) d); [|discriminate].
  assert (Hl' : lastv None (filter (le_stamp T) (pubs h d)) = Some x) by congruence. clear Hl.
  assert (Hw : wsorted (filter (le_stamp T) (pubs h d))) by (eapply sub_wsorted; [apply sub_filter|apply pubs_wsorted; auto]).
  destruct (lastv_decompose _ x Hw Hl') as [p1 [r [p2 [E [H1 [H2 H3]]]]]]. exists p1, r, p2. repeat split; auto.
  assert (Hr : In r (filter (le_stamp T) (pubs h d))) by (rewrite E; apply in_elt).
  apply filter_In in Hr. unfold le_stamp in Hr. destruct Hr as [_ Hr]. lia.
Qed.

(* asof=None reads like any T at or after every stamp *)
Lemma read_none_is_latest h T : stamps_nondecreasing h -> series_ok h ->
  Forall (fun v => fst v <= T) h -> bi_read (store_of h) None (-1) = spec_read T h.
Proof.
  intros H1 H2 H3. rewrite (bi_read_none _ _ T).
  - exact (proj1 (read_is_latest h T H1 H2)).
  - apply Forall_forall. intros r Hr. apply (hist_rows_le h T H3). apply (proj2 (store_invariant h H1 H2)); exact Hr.
Qed.

Lemma read_none_first h T : stamps_nondecreasing h -> series_ok h ->
  Forall (fun v => fst v <= T) h -> bi_read (store_of h) None 0 = spec_first T h.
Proof.
  intros H1 H2 H3. rewrite (bi_read_none _ _ T).
  - exact (proj2 (read_is_latest h T H1 H2)).
  - apply Forall_forall. intros r Hr. apply (hist_rows_le h T H3). apply (proj2 (store_invariant h H1 H2)); exact Hr.
Qed.

(* ------------------------------------------------------------ several versions merged by one call *)
Lemma col_bi_merge_list d old news : news <> [] ->
  (old = [] -> forall f, news = [f] -> (length (col d f) <= 1)%nat) ->
  col d (bi_merge_list old news) = drop_repeats (ssort (col d old ++ col d (concat news))).
Proof.
  intros Hne Hraw. unfold bi_merge_list. destruct old as [|o old].
  - destruct news as [|f [|f2 r]]; [congruence| |].
    + simpl. rewrite app_nil_r. symmetry. apply drop_repeats_short. apply Hraw; auto.
    + cbn [app]. rewrite col_merge_frames. reflexivity.
  - destruct news as [|f r]; [congruence|]. cbn [app]. rewrite col_merge_frames.
    change (concat ((o :: old) :: f :: r)) with ((o :: old) ++ concat (f :: r)). unfold col. rewrite filter_app. reflexivity.
Qed.
Lemma In_bi_merge_list r old news : In r (bi_merge_list old news) -> In r (old ++ concat news).
Proof.
  unfold bi_merge_list.
  assert (G : forall fs, In r (merge_frames (concat fs)) -> In r (concat fs)).
  { intros fs H. unfold merge_frames in H. apply in_flat_map in H. destruct H as [d [_ H]].
    apply (sub_In _ _ _ (sub_drop_repeats _)) in H. apply filter_In in H. destruct H as [H _].
    apply (proj1 (ssort_In _ _)) in H. exact H. }
  destruct old as [|o old].
  - destruct news as [|f [|f2 r0]].
    + simpl; auto.
    + simpl. rewrite app_nil_r; auto.
    + cbn [app]. intros H. apply (G (f :: f2 :: r0)) in H. exact H.
  - destruct news as [|f r0]; cbn [app].
    + simpl. rewrite app_nil_r. auto.
    + intros H. apply (G ((o :: old) :: f :: r0)) in H. exact H.
Qed.
Lemma nondecr_app a b : stamps_nondecreasing (a ++ b) ->
  stamps_nondecreasing a /\ stamps_nondecreasing b /\ forall w v, In w a -> In v b -> fst w <= fst v.
Proof.
  induction a as [|x a IH]; simpl; [tauto|]. intros [H1 H2]. destruct (IH H2) as [A [B C]].
  apply Forall_app in H1. destruct H1 as [H1 H3]. repeat split; auto.
  intros w v [<-|Hw] Hv; auto. rewrite Forall_forall in H3. auto.
Qed.
Lemma store_groups_snoc gs g : store_of_groups (gs ++ [g]) = bi_merge_list (store_of_groups gs) (map Bi g).
Proof. unfold store_of_groups. rewrite fold_left_app. reflexivity. Qed.
Theorem groups_invariant gs : Forall (fun g => g <> []) gs ->
  stamps_nondecreasing (concat gs) -> series_ok (concat gs) ->
  (forall d, colinv (col d (store_of_groups gs)) /\ same_reads (col d (store_of_groups gs)) (pubs (concat gs) d)) /\
  (forall r, In r (store_of_groups gs) -> In r (flat_map Bi (concat gs))).
Proof.
  induction gs as [|g gs IH] using rev_ind; intros Hne Hs Hok.
  - split; [|simpl; tauto]. intros d. unfold store_of_groups, pubs, col; simpl. repeat split; simpl; auto.
  - apply Forall_app in Hne. destruct Hne as [Hne Hg]. inversion Hg as [|? ? Hg1 _]; subst. clear Hg.
    rewrite concat_app in Hs, Hok |- *. cbn [concat] in Hs, Hok |- *. rewrite app_nil_r in Hs, Hok |- *.
    destruct (nondecr_app _ _ Hs) as [Hs1 [Hs2 Hcross]]. unfold series_ok in Hok. apply Forall_app in Hok.
    destruct Hok as [Hok1 Hok2]. destruct (IH Hne Hs1 Hok1) as [IH1 IH2]. clear IH.
    rewrite store_groups_snoc. split.
    + intros d. destruct (IH1 d) as [[Hss Hnp] Hsr].
      assert (Hcat : concat (map Bi g) = flat_map Bi g) by (symmetry; apply flat_map_concat_map).
      rewrite col_bi_merge_list.
      * rewrite Hcat.
        assert (Hp : pubs (concat gs ++ g) d = pubs (concat gs) d ++ pubs g d)
          by (unfold pubs; rewrite flat_map_app, filter_app; reflexivity).
        rewrite Hp. change (col d (flat_map Bi g)) with (pubs g d).
        assert (Hw : wsorted (col d (store_of_groups gs) ++ pubs g d)).
        { apply wsorted_app.
          - apply ssorted_wsorted; auto.
          - apply pubs_wsorted; auto.
          - intros x y Hx Hy. apply filter_In in Hx, Hy. destruct Hx as [Hx _], Hy as [Hy _].
            apply IH2 in Hx. apply in_flat_map in Hx, Hy. destruct Hx as [w [Hw Hx]], Hy as [v [Hv Hy]].
            pose proof (Bi_stamp w) as B1. pose proof (Bi_stamp v) as B2. rewrite Forall_forall in B1, B2.
            rewrite (B1 x Hx), (B2 y Hy). apply Hcross; auto. }
        rewrite (ssort_id _ Hw). destruct (drop_repeats_ok _ Hw) as [A B]. split; auto.
        eapply same_reads_trans; [exact B|]. apply same_reads_app; auto.
      * destruct g; [congruence|discriminate].
      * intros _ f Hf. destruct g as [|v [|v2 g']]; try discriminate. simpl in Hf. inversion Hf; subst.
        apply col_Bi_len. inversion Hok2; auto.
    + intros r Hr. apply In_bi_merge_list in Hr. rewrite flat_map_app. apply in_app_iff in Hr. apply in_app_iff.
      destruct Hr as [Hr|Hr]; auto. right. rewrite flat_map_concat_map. exact Hr.
Qed.
Theorem groups_read_is_latest gs T : Forall (fun g => g <> []) gs ->
  stamps_nondecreasing (concat gs) -> series_ok (concat gs) ->
  bi_read (store_of_groups gs) (Some T) (-1) = spec_read T (concat gs) /\
  bi_read (store_of_groups gs) (Some T) 0 = spec_first T (concat gs).
Proof.
  intros Hne Hs Hok. destruct (groups_invariant gs Hne Hs Hok) as [Hinv _].
  rewrite spec_read_map, spec_first_map. apply read_general.
  - intros d; apply Hinv.
  - intros d; apply Hinv.
  - intros d; apply pubs_wsorted; auto.
  - apply sort_uniq_zs.
  - intros d; apply hist_dates_complete.
Qed.
