(* C05: Calendar business-day arithmetic = day-by-day counting.  Everything in the Section Cal below
   is proved for ARBITRARY hol / wk / month / t0 / t1 (no bound on the range, no assumption on the
   holiday set or the weekend definition). *)
From Coq Require Import ZArith List Bool Lia ZifyBool Sorted.
From PB Require Import model.M_cal model.M_bdays.
Import ListNotations.
Open Scope Z_scope.

(* ------------------------------------------------------------------ ranges *)
Lemma In_rng n : forall a x, In x (rng a n) <-> a <= x < a + Z.of_nat n.
Proof. induction n as [|n IH]; intros a x; cbn [rng In]; [lia | rewrite IH; lia]. Qed.
Lemma rng_app n : forall a m, rng a (n + m) = rng a n ++ rng (a + Z.of_nat n) m.
Proof.
  induction n as [|n IH]; intros a m; cbn [rng Nat.add app].
  - replace (a + Z.of_nat 0) with a by lia. reflexivity.
  - rewrite IH. replace (a + 1 + Z.of_nat n) with (a + Z.of_nat (S n)) by lia. reflexivity.
Qed.
Lemma rng_length n : forall a, length (rng a n) = n.
Proof. induction n as [|n IH]; intros a; cbn [rng length]; [reflexivity | rewrite IH; reflexivity]. Qed.

(* ------------------------------------------------------------------ filter P (range) *)
Section Filter.
Variable P : Z -> bool.
Definition F (a : Z) (n : nat) : list Z := filter P (rng a n).

Lemma In_F a n x : In x (F a n) <-> a <= x < a + Z.of_nat n /\ P x = true.
Proof. unfold F. rewrite filter_In, In_rng. tauto. Qed.
Lemma F_app a n m : F a (n + m) = F a n ++ F (a + Z.of_nat n) m.
Proof. unfold F. rewrite rng_app, filter_app. reflexivity. Qed.
Lemma F_lb n : forall a, Forall (fun x => a <= x) (F a n).
Proof. intros a. apply Forall_forall. intros x H. apply In_F in H. lia. Qed.
Lemma F_sorted n : forall a, StronglySorted Z.lt (F a n).
Proof.
  induction n as [|n IH]; intros a; unfold F; cbn [rng filter]; [constructor|].
  destruct (P a); [|apply IH]. constructor; [apply IH|].
  apply Forall_forall. intros x H. apply (In_F (a + 1) n x) in H. lia.
Qed.

(* day-by-day counting *)
Lemma cnt_F a b : cnt P a b = Z.of_nat (length (F a (Z.to_nat (b - a)))).
Proof. reflexivity. Qed.
Lemma cnt_nonneg a b : 0 <= cnt P a b.
Proof. unfold cnt. lia. Qed.
Lemma cnt_empty a b : b <= a -> cnt P a b = 0.
Proof. intros H. unfold cnt. replace (Z.to_nat (b - a)) with O by lia. reflexivity. Qed.
Lemma cnt_split a b c : a <= b <= c -> cnt P a c = cnt P a b + cnt P b c.
Proof.
  intros H. rewrite !cnt_F.
  replace (Z.to_nat (c - a)) with (Z.to_nat (b - a) + Z.to_nat (c - b))%nat by lia.
  rewrite F_app, app_length. replace (a + Z.of_nat (Z.to_nat (b - a))) with b by lia. lia.
Qed.
Lemma cnt_one x : cnt P x (x + 1) = if P x then 1 else 0.
Proof.
  unfold cnt. replace (Z.to_nat (x + 1 - x)) with 1%nat by lia. cbn [rng filter].
  destruct (P x); reflexivity.
Qed.
Lemma cnt_mono a b c : b <= c -> cnt P a b <= cnt P a c.
Proof.
  intros H. destruct (Z_le_gt_dec a b) as [L|G].
  - rewrite (cnt_split a b c) by lia. pose proof (cnt_nonneg b c). lia.
  - rewrite (cnt_empty a b) by lia. apply cnt_nonneg.
Qed.
Lemma cnt_zero_none a b : cnt P a b = 0 -> forall d, a <= d < b -> P d = false.
Proof.
  intros H d Hd. destruct (P d) eqn:E; [|reflexivity]. exfalso.
  assert (I : In d (F a (Z.to_nat (b - a)))) by (apply In_F; split; [lia | exact E]).
  rewrite cnt_F in H. destruct (F a (Z.to_nat (b - a))); [destruct I | cbn [length] in H; lia].
Qed.
Lemma cnt_none_zero a b : (forall d, a <= d < b -> P d = false) -> cnt P a b = 0.
Proof.
  intros H. rewrite cnt_F. destruct (F a (Z.to_nat (b - a))) as [|x l] eqn:E; [reflexivity|].
  assert (I : In x (F a (Z.to_nat (b - a)))) by (rewrite E; left; reflexivity).
  apply In_F in I. destruct I as [R Px]. rewrite H in Px by lia. discriminate.
Qed.
Lemma cnt_mem_pos a b d : a <= d < b -> P d = true -> 1 <= cnt P a b.
Proof.
  intros Hd Pd. rewrite (cnt_split a d b) by lia. rewrite (cnt_split d (d + 1) b) by lia.
  rewrite cnt_one, Pd. pose proof (cnt_nonneg a d). pose proof (cnt_nonneg (d + 1) b). lia.
Qed.

(* THE CORE LIST LEMMA: in L = filter P [a .. b] the index of a member x is the number of P-days in [a, x) *)
Lemma index_of_notin x l : ~ In x l -> index_of x l = None.
Proof.
  induction l as [|y l IH]; intros H; cbn [index_of]; [reflexivity|].
  destruct (y =? x) eqn:E; [exfalso; apply H; left; lia|].
  rewrite IH; [reflexivity | intros I; apply H; right; exact I].
Qed.
Lemma index_of_In x : forall l i, index_of x l = Some i -> In x l.
Proof.
  induction l as [|y l IH]; intros i H; cbn [index_of] in H; [discriminate|].
  destruct (y =? x) eqn:E; [left; lia|].
  destruct (index_of x l) eqn:E2; [right; eapply IH; reflexivity | discriminate].
Qed.
Lemma index_of_nth x : forall l i, index_of x l = Some i -> nth_error l i = Some x.
Proof.
  induction l as [|y l IH]; intros i H; cbn [index_of] in H; [discriminate|].
  destruct (y =? x) eqn:E.
  - injection H as <-. cbn. f_equal. lia.
  - destruct (index_of x l) eqn:E2; [|discriminate]. injection H as <-. cbn. apply IH. reflexivity.
Qed.
Lemma index_of_app x l1 l2 : ~ In x l1 -> index_of x (l1 ++ x :: l2) = Some (length l1).
Proof.
  induction l1 as [|y l1 IH]; intros H; cbn [app index_of length].
  - rewrite Z.eqb_refl. reflexivity.
  - destruct (y =? x) eqn:E; [exfalso; apply H; left; lia|].
    rewrite IH; [reflexivity | intros I; apply H; right; exact I].
Qed.
Lemma nth_index l : NoDup l -> forall i x, nth_error l i = Some x -> index_of x l = Some i.
Proof.
  induction 1 as [|y l Hy Hl IH]; intros i x H; [destruct i; discriminate|].
  destruct i as [|i]; cbn in H.
  - injection H as ->. cbn [index_of]. rewrite Z.eqb_refl. reflexivity.
  - cbn [index_of]. destruct (y =? x) eqn:E.
    + exfalso. apply Hy. apply nth_error_In in H. replace y with x by lia. exact H.
    + rewrite (IH i x H). reflexivity.
Qed.
Lemma sorted_NoDup l : StronglySorted Z.lt l -> NoDup l.
Proof.
  induction 1 as [|y l Hs IH Hf]; constructor; [|exact IH].
  intros I. rewrite Forall_forall in Hf. specialize (Hf y I). lia.
Qed.

Lemma index_of_F a b x : a <= x <= b -> P x = true ->
  index_of x (F a (Z.to_nat (b - a + 1))) = Some (length (F a (Z.to_nat (x - a)))).
Proof.
  intros R Px.
  replace (Z.to_nat (b - a + 1)) with (Z.to_nat (x - a) + S (Z.to_nat (b - x)))%nat by lia.
  rewrite F_app. replace (a + Z.of_nat (Z.to_nat (x - a))) with x by lia.
  unfold F at 2. cbn [rng filter]. rewrite Px. apply index_of_app.
  intros I. apply In_F in I. lia.
Qed.
End Filter.

(* lookups of a contiguous index range of A ++ B ++ C return exactly B *)
Lemma znth_app_mid (A : list Z) b R : znth (A ++ b :: R) (Z.of_nat (length A)) = Some b.
Proof.
  unfold znth. destruct (Z.of_nat (length A) <? 0) eqn:E; [lia|].
  rewrite Nat2Z.id. rewrite nth_error_app2 by lia. rewrite Nat.sub_diag. reflexivity.
Qed.
Lemma lookup_all_mid : forall (B A C : list Z),
  lookup_all (A ++ B ++ C) (rng (Z.of_nat (length A)) (length B)) = Ok B.
Proof.
  induction B as [|b B IH]; intros A C; cbn [length rng lookup_all app]; [reflexivity|].
  rewrite znth_app_mid.
  replace (A ++ b :: B ++ C) with ((A ++ [b]) ++ B ++ C) by (rewrite <- app_assoc; reflexivity).
  replace (Z.of_nat (length A) + 1) with (Z.of_nat (length (A ++ [b]))) by (rewrite app_length; cbn [length]; lia).
  rewrite IH. reflexivity.
Qed.

(* ================================================================== the calendar *)
Section Cal.
Variable hol : Z -> bool.
Variable wk : Z -> bool.
Variable month : Z -> Z.
Variables t0 t1 : Z.
Set Default Proof Using "Type".
Notation B := (is_bday hol wk).
Notation H := (is_holiday hol wk).
Notation WE := (weekend wk).
Notation T := (populate hol wk t0 t1).
Notation adjf := (adjust_f hol wk t1).
Notation adjp := (adjust_p hol wk t0).
Notation adjm := (adjust_m hol wk month t0 t1).
Notation adj := (adjust hol wk month t0 t1).
Notation aloop := (add_loop hol wk).
Notation Add := (add hol wk month t0 t1 T).
Notation Bdays := (bdays hol wk month t0 t1 T).
Notation Drange := (drange_1b hol wk month t0 t1 T).
Notation Nth := (nth_bday hol wk).

Lemma is_bday_iff d : B d = true <-> (WE d = false /\ hol d = false).
Proof. clear t0 month t1. unfold is_bday. destruct (WE d), (hol d); cbn; intuition congruence. Qed.
Lemma is_bday_not_holiday d : B d = negb (H d).
Proof. unfold is_bday, is_holiday. destruct (WE d), (hol d); reflexivity. Qed.
Lemma bday_holiday_false d : B d = true <-> H d = false.
Proof. clear t0 month t1. rewrite is_bday_not_holiday. destruct (H d); cbn; intuition congruence. Qed.
Lemma not_holiday_not_weekend d : H d = false -> WE d = false.
Proof. unfold is_holiday. destruct (WE d); cbn; congruence. Qed.

(* ---- the table ---- *)
Lemma populate_F : T = F B t0 (Z.to_nat (t1 - t0 + 1)).
Proof. reflexivity. Qed.
Lemma In_T x : In x T <-> t0 <= x <= t1 /\ B x = true.
Proof. rewrite populate_F, In_F. lia. Qed.
Lemma T_sorted : StronglySorted Z.lt T.
Proof. rewrite populate_F. apply F_sorted. Qed.
Lemma T_NoDup : NoDup T.
Proof. apply sorted_NoDup, T_sorted. Qed.

(* dt2int x is defined exactly for the business days of [t0, t1] and is the day-by-day count of
   business days in [t0, x) *)
Lemma dt2int_char x i : dt2int T x = Some i <-> (t0 <= x <= t1 /\ B x = true /\ i = cnt B t0 x).
Proof.
  unfold dt2int. split.
  - intros E. destruct (index_of x T) as [k|] eqn:K; [|discriminate]. cbn in E. injection E as <-.
    pose proof (index_of_In _ _ _ K) as I. apply In_T in I. destruct I as [R Bx].
    split; [exact R|]. split; [exact Bx|].
    rewrite populate_F, (index_of_F B t0 t1 x R Bx) in K. injection K as <-. reflexivity.
  - intros (R & Bx & ->). rewrite populate_F, (index_of_F B t0 t1 x R Bx). reflexivity.
Qed.
(* int2dt is its inverse *)
Lemma int2dt_dt2int i x : int2dt T i = Some x <-> dt2int T x = Some i.
Proof.
  unfold int2dt, dt2int, znth. split.
  - destruct (i <? 0) eqn:E; [discriminate|]. intros N.
    rewrite (nth_index T T_NoDup _ _ N). cbn. f_equal. lia.
  - destruct (index_of x T) as [k|] eqn:K; [|discriminate]. cbn. intros E. injection E as <-.
    destruct (Z.of_nat k <? 0) eqn:E; [lia|]. rewrite Nat2Z.id. apply index_of_nth. exact K.
Qed.
Lemma int2dt_char i x : int2dt T i = Some x <-> (t0 <= x <= t1 /\ B x = true /\ i = cnt B t0 x).
Proof. rewrite int2dt_dt2int. apply dt2int_char. Qed.

(* the successor in the table is the least larger business day (DESIGN core lemma) *)
Lemma table_successor i x y : int2dt T i = Some x -> int2dt T (i + 1) = Some y ->
  x < y /\ B y = true /\ forall d, x < d < y -> B d = false.
Proof.
  intros Hx Hy. apply int2dt_char in Hx. apply int2dt_char in Hy.
  destruct Hx as (Rx & Bx & Ex), Hy as (Ry & By & Ey).
  assert (L : x < y).
  { destruct (Z_lt_ge_dec x y) as [L|G]; [exact L|]. pose proof (cnt_mono B t0 y x ltac:(lia)). lia. }
  split; [exact L|]. split; [exact By|].
  pose proof (cnt_split B t0 x y ltac:(lia)) as S1. pose proof (cnt_split B x (x + 1) y ltac:(lia)) as S2.
  rewrite cnt_one, Bx in S2. intros d Hd. apply (cnt_zero_none B (x + 1) y); lia.
Qed.

(* s, r in the table: index difference n  <->  r is the n-th business day counted from s *)
Lemma index_diff_nth s r n : t0 <= s <= t1 -> B s = true -> t0 <= r <= t1 -> B r = true ->
  (cnt B t0 r = cnt B t0 s + n <-> Nth s n r).
Proof.
  intros Rs Bs Rr Br. unfold nth_bday. split.
  - intros E. destruct (Z.compare_spec n 0) as [N|N|N].
    + left. split; [exact N|]. destruct (Z.compare_spec r s) as [C|C|C]; [exact C| |]; exfalso.
      * pose proof (cnt_split B t0 r s ltac:(lia)). pose proof (cnt_mem_pos B r s r ltac:(lia) Br). lia.
      * pose proof (cnt_split B t0 s r ltac:(lia)). pose proof (cnt_mem_pos B s r s ltac:(lia) Bs). lia.
    + right. right. assert (L : r < s).
      { destruct (Z_lt_ge_dec r s) as [L|G]; [exact L|]. pose proof (cnt_mono B t0 s r ltac:(lia)). lia. }
      pose proof (cnt_split B t0 r s ltac:(lia)). repeat split; try assumption; lia.
    + right. left. assert (L : s < r).
      { destruct (Z_lt_ge_dec s r) as [L|G]; [exact L|]. pose proof (cnt_mono B t0 r s ltac:(lia)). lia. }
      pose proof (cnt_split B t0 s r ltac:(lia)) as S1. pose proof (cnt_split B s (s + 1) r ltac:(lia)) as S2.
      pose proof (cnt_split B (s + 1) r (r + 1) ltac:(lia)) as S3.
      rewrite cnt_one, Bs in S2. rewrite cnt_one, Br in S3. repeat split; try assumption; lia.
  - intros [(N & ->) | [(N & L & _ & C) | (N & L & _ & C)]].
    + lia.
    + pose proof (cnt_split B t0 s r ltac:(lia)) as S1. pose proof (cnt_split B s (s + 1) r ltac:(lia)) as S2.
      pose proof (cnt_split B (s + 1) r (r + 1) ltac:(lia)) as S3.
      rewrite cnt_one, Bs in S2. rewrite cnt_one, Br in S3. lia.
    + pose proof (cnt_split B t0 r s ltac:(lia)). lia.
Qed.

(* "the n-th business day" is unique *)
Lemma nth_bday_unique s n r r' : Nth s n r -> Nth s n r' -> r = r'.
Proof.
  unfold nth_bday. intros [(N & ->) | [(N & L & Br & C) | (N & L & Br & C)]] [(N' & ->) | [(N' & L' & Br' & C') | (N' & L' & Br' & C')]]; try lia.
  - destruct (Z.compare_spec r r') as [E|E|E]; [exact E| |]; exfalso.
    + pose proof (cnt_split B (s + 1) (r + 1) (r' + 1) ltac:(lia)). pose proof (cnt_mem_pos B (r + 1) (r' + 1) r' ltac:(lia) Br'). lia.
    + pose proof (cnt_split B (s + 1) (r' + 1) (r + 1) ltac:(lia)). pose proof (cnt_mem_pos B (r' + 1) (r + 1) r ltac:(lia) Br). lia.
  - destruct (Z.compare_spec r r') as [E|E|E]; [exact E| |]; exfalso.
    + pose proof (cnt_split B r r' s ltac:(lia)). pose proof (cnt_mem_pos B r r' r ltac:(lia) Br). lia.
    + pose proof (cnt_split B r' r s ltac:(lia)). pose proof (cnt_mem_pos B r' r r' ltac:(lia) Br'). lia.
Qed.

(* ================================================================== adjust *)
Lemma adj_f1_spec fuel : forall t r, adj_f1 hol wk t1 fuel t = Some r ->
  t <= r /\ (forall d, t <= d < r -> H d = true /\ d <= t1) /\ (H r = false \/ t1 < r).
Proof.
  induction fuel as [|k IH]; intros t r E; cbn [adj_f1] in E; [discriminate|].
  destruct (H t) eqn:Ht; destruct (t <=? t1) eqn:Lt; cbn [andb] in E;
    try (injection E as <-; split; [lia|]; split; [intros; lia|]; first [left; assumption | right; lia]).
  apply IH in E. destruct E as (L & A & Z). split; [lia|]. split; [|exact Z].
  intros d Hd. destruct (Z.eq_dec d t) as [->|N]; [split; [assumption | lia] | apply A; lia].
Qed.
Lemma adj_p1_spec fuel : forall t r, adj_p1 hol wk t0 fuel t = Some r ->
  r <= t /\ (forall d, r < d <= t -> H d = true /\ t0 <= d) /\ (H r = false \/ r < t0).
Proof.
  induction fuel as [|k IH]; intros t r E; cbn [adj_p1] in E; [discriminate|].
  destruct (H t) eqn:Ht; destruct (t0 <=? t) eqn:Lt; cbn [andb] in E;
    try (injection E as <-; split; [lia|]; split; [intros; lia|]; first [left; assumption | right; lia]).
  apply IH in E. destruct E as (L & A & Z). split; [lia|]. split; [|exact Z].
  intros d Hd. destruct (Z.eq_dec d t) as [->|N]; [split; [assumption | lia] | apply A; lia].
Qed.
Lemma adj_f2_id fuel t : (0 < fuel)%nat -> t <= t1 \/ WE t = false -> adj_f2 wk t1 fuel t = Some t.
Proof.
  destruct fuel; [lia|]. intros _ C. cbn [adj_f2].
  destruct (t1 <? t) eqn:E; destruct (WE t) eqn:E2; cbn [andb]; try reflexivity.
  destruct C; [lia | discriminate].
Qed.
Lemma adj_p2_id fuel t : (0 < fuel)%nat -> t0 <= t \/ WE t = false -> adj_p2 wk t0 fuel t = Some t.
Proof.
  destruct fuel; [lia|]. intros _ C. cbn [adj_p2].
  destruct (t <? t0) eqn:E; destruct (WE t) eqn:E2; cbn [andb]; try reflexivity.
  destruct C; [lia | discriminate].
Qed.
Lemma adj_f2_in fuel : forall t r, adj_f2 wk t1 fuel t = Some r -> r <= t1 -> r = t.
Proof.
  induction fuel as [|k IH]; intros t r E L; cbn [adj_f2] in E; [discriminate|].
  destruct (t1 <? t) eqn:C; destruct (WE t); cbn [andb] in E; try (injection E as <-; reflexivity).
  specialize (IH _ _ E L). lia.
Qed.
Lemma adj_p2_in fuel : forall t r, adj_p2 wk t0 fuel t = Some r -> t0 <= r -> r = t.
Proof.
  induction fuel as [|k IH]; intros t r E L; cbn [adj_p2] in E; [discriminate|].
  destruct (t <? t0) eqn:C; destruct (WE t); cbn [andb] in E; try (injection E as <-; reflexivity).
  specialize (IH _ _ E L). lia.
Qed.
Lemma adjust_fuel_pos fuel a t s : adj fuel a t = Some s -> (0 < fuel)%nat.
Proof. destruct fuel; [|lia]. destruct a; cbn; discriminate. Qed.

(* 'f': the nearest business day on-or-after t (whenever one exists up to t1) *)
Theorem adjust_f_least fuel t b r : t <= b <= t1 -> B b = true -> adjf fuel t = Some r ->
  t <= r <= b /\ B r = true /\ forall d, t <= d < r -> B d = false.
Proof.
  intros Rb Bb E. unfold adjust_f in E. destruct (adj_f1 hol wk t1 fuel t) as [r1|] eqn:E1; [|discriminate].
  destruct (adj_f1_spec _ _ _ E1) as (L & A & Z).
  assert (Lb : r1 <= b).
  { destruct (Z_le_gt_dec r1 b) as [?|G]; [assumption|]. destruct (A b ltac:(lia)) as [Hb _].
    apply bday_holiday_false in Bb. congruence. }
  assert (Hr : H r1 = false) by (destruct Z; [assumption | lia]).
  rewrite adj_f2_id in E; [| destruct fuel; [discriminate | lia] | left; lia]. injection E as <-.
  split; [lia|]. split; [apply bday_holiday_false; exact Hr|].
  intros d Hd. destruct (A d Hd) as [Hd' _]. rewrite is_bday_not_holiday, Hd'. reflexivity.
Qed.
Theorem adjust_p_greatest fuel t b r : t0 <= b <= t -> B b = true -> adjp fuel t = Some r ->
  b <= r <= t /\ B r = true /\ forall d, r < d <= t -> B d = false.
Proof.
  intros Rb Bb E. unfold adjust_p in E. destruct (adj_p1 hol wk t0 fuel t) as [r1|] eqn:E1; [|discriminate].
  destruct (adj_p1_spec _ _ _ E1) as (L & A & Z).
  assert (Lb : b <= r1).
  { destruct (Z_le_gt_dec b r1) as [?|G]; [assumption|]. destruct (A b ltac:(lia)) as [Hb _].
    apply bday_holiday_false in Bb. congruence. }
  assert (Hr : H r1 = false) by (destruct Z; [assumption | lia]).
  rewrite adj_p2_id in E; [| destruct fuel; [discriminate | lia] | left; lia]. injection E as <-.
  split; [lia|]. split; [apply bday_holiday_false; exact Hr|].
  intros d Hd. destruct (A d Hd) as [Hd' _]. rewrite is_bday_not_holiday, Hd'. reflexivity.
Qed.
(* the loops terminate within (distance to that business day) + 1 iterations *)
Lemma adj_f1_total fuel : forall t b, t <= b -> H b = false -> b - t < Z.of_nat fuel ->
  exists r, adj_f1 hol wk t1 fuel t = Some r.
Proof.
  induction fuel as [|k IH]; intros t b L Hb Fu; [lia|]. cbn [adj_f1].
  destruct (H t) eqn:Ht; destruct (t <=? t1) eqn:Lt; cbn [andb]; try (eexists; reflexivity).
  apply (IH (t + 1) b); [|exact Hb|lia]. destruct (Z.eq_dec t b) as [->|]; [congruence | lia].
Qed.
Lemma adj_p1_total fuel : forall t b, b <= t -> H b = false -> t - b < Z.of_nat fuel ->
  exists r, adj_p1 hol wk t0 fuel t = Some r.
Proof.
  induction fuel as [|k IH]; intros t b L Hb Fu; [lia|]. cbn [adj_p1].
  destruct (H t) eqn:Ht; destruct (t0 <=? t) eqn:Lt; cbn [andb]; try (eexists; reflexivity).
  apply (IH (t - 1) b); [|exact Hb|lia]. destruct (Z.eq_dec t b) as [->|]; [congruence | lia].
Qed.
Theorem adjust_f_total fuel t b : t <= b <= t1 -> B b = true -> b - t < Z.of_nat fuel ->
  exists r, adjf fuel t = Some r.
Proof.
  intros Rb Bb Fu. destruct (adj_f1_total fuel t b ltac:(lia) ltac:(apply bday_holiday_false; exact Bb) Fu) as [r1 E1].
  unfold adjust_f. rewrite E1. destruct (adj_f1_spec _ _ _ E1) as (L & A & Z).
  assert (Lb : r1 <= b).
  { destruct (Z_le_gt_dec r1 b) as [?|G]; [assumption|]. destruct (A b ltac:(lia)) as [Hb _].
    apply bday_holiday_false in Bb. congruence. }
  exists r1. apply adj_f2_id; [lia | left; lia].
Qed.
Theorem adjust_p_total fuel t b : t0 <= b <= t -> B b = true -> t - b < Z.of_nat fuel ->
  exists r, adjp fuel t = Some r.
Proof.
  intros Rb Bb Fu. destruct (adj_p1_total fuel t b ltac:(lia) ltac:(apply bday_holiday_false; exact Bb) Fu) as [r1 E1].
  unfold adjust_p. rewrite E1. destruct (adj_p1_spec _ _ _ E1) as (L & A & Z).
  assert (Lb : b <= r1).
  { destruct (Z_le_gt_dec b r1) as [?|G]; [assumption|]. destruct (A b ltac:(lia)) as [Hb _].
    apply bday_holiday_false in Bb. congruence. }
  exists r1. apply adj_p2_id; [lia | left; lia].
Qed.
(* 'm': 'f' unless that leaves t's month, then 'p' *)
Theorem adjust_m_spec fuel t rf : adjf fuel t = Some rf ->
  adjm fuel t = if month rf =? month t then Some rf else adjp fuel t.
Proof. intros E. unfold adjust_m. rewrite E. destruct (month rf =? month t); reflexivity. Qed.

(* a non-holiday is its own adjustment, whatever the convention (even outside [t0, t1]) *)
Lemma adjust_fix fuel a r : H r = false -> (0 < fuel)%nat -> adj fuel a r = Some r.
Proof.
  intros Hr Fu. pose proof (not_holiday_not_weekend r Hr) as Wr.
  assert (Ef : adjf fuel r = Some r).
  { unfold adjust_f. destruct fuel; [lia|]. cbn [adj_f1]. rewrite Hr. cbn [andb]. apply adj_f2_id; [lia | right; exact Wr]. }
  assert (Ep : adjp fuel r = Some r).
  { unfold adjust_p. destruct fuel; [lia|]. cbn [adj_p1]. rewrite Hr. cbn [andb]. apply adj_p2_id; [lia | right; exact Wr]. }
  destruct a; cbn [adjust]; [exact Ef | exact Ep |]. unfold adjust_m. rewrite Ef, Z.eqb_refl. reflexivity.
Qed.
(* an adjustment that stays inside [t0, t1] is a business day *)
Lemma adjust_f_in fuel t s : adjf fuel t = Some s -> s <= t1 -> H s = false.
Proof.
  unfold adjust_f. intros E L. destruct (adj_f1 hol wk t1 fuel t) as [r1|] eqn:E1; [|discriminate].
  pose proof (adj_f2_in _ _ _ E L) as ->. destruct (adj_f1_spec _ _ _ E1) as (_ & _ & [Z|Z]); [exact Z | lia].
Qed.
Lemma adjust_p_in fuel t s : adjp fuel t = Some s -> t0 <= s -> H s = false.
Proof.
  unfold adjust_p. intros E L. destruct (adj_p1 hol wk t0 fuel t) as [r1|] eqn:E1; [|discriminate].
  pose proof (adj_p2_in _ _ _ E L) as ->. destruct (adj_p1_spec _ _ _ E1) as (_ & _ & [Z|Z]); [exact Z | lia].
Qed.
Lemma adjust_in_range fuel a t s : adj fuel a t = Some s -> t0 <= s <= t1 -> H s = false.
Proof.
  intros E R. destruct a; cbn [adjust] in E.
  - eapply adjust_f_in; [exact E | lia].
  - eapply adjust_p_in; [exact E | lia].
  - unfold adjust_m in E. destruct (adjf fuel t) as [rf|] eqn:Ef; [|discriminate].
    destruct (negb (month rf =? month t)).
    + eapply adjust_p_in; [exact E | lia].
    + injection E as <-. eapply adjust_f_in; [exact Ef | lia].
Qed.

(* ================================================================== add: the |n| <= 1 loop *)
Lemma add_loop_spec fuel n : forall x r, aloop fuel n x = Some r ->
  exists k : nat, (k < fuel)%nat /\ r = x + n * Z.of_nat k /\ H r = false /\
                  forall j : nat, (j < k)%nat -> H (x + n * Z.of_nat j) = true.
Proof.
  induction fuel as [|f IH]; intros x r E; cbn [add_loop] in E; [discriminate|].
  destruct (H x) eqn:Hx.
  - apply IH in E. destruct E as (k & Kf & -> & Hr & A). exists (S k). split; [lia|]. split; [lia|]. split.
    + replace (x + n * Z.of_nat (S k)) with (x + n + n * Z.of_nat k) by lia. exact Hr.
    + intros j Hj. destruct j as [|j].
      * replace (x + n * Z.of_nat 0) with x by lia. exact Hx.
      * replace (x + n * Z.of_nat (S j)) with (x + n + n * Z.of_nat j) by lia. apply A. lia.
  - injection E as <-. exists O. split; [lia|]. split; [lia|]. split; [exact Hx|]. intros j Hj. lia.
Qed.
Lemma add_loop_run n : forall (k fuel : nat) x, (k < fuel)%nat ->
  (forall j : nat, (j < k)%nat -> H (x + n * Z.of_nat j) = true) -> H (x + n * Z.of_nat k) = false ->
  aloop fuel n x = Some (x + n * Z.of_nat k).
Proof.
  induction k as [|k IH]; intros fuel x Kf A Hk; (destruct fuel as [|fuel]; [lia|]); cbn [add_loop].
  - replace (x + n * Z.of_nat 0) with x in * by lia. rewrite Hk. reflexivity.
  - pose proof (A O ltac:(lia)) as H0. replace (x + n * Z.of_nat 0) with x in H0 by lia. rewrite H0.
    replace (x + n * Z.of_nat (S k)) with (x + n + n * Z.of_nat k) in * by lia.
    apply IH; [lia | | exact Hk].
    intros j Hj. replace (x + n + n * Z.of_nat j) with (x + n * Z.of_nat (S j)) by lia. apply A. lia.
Qed.
Lemma add_loop_total n : forall (k fuel : nat) x, (k < fuel)%nat -> H (x + n * Z.of_nat k) = false ->
  exists r, aloop fuel n x = Some r.
Proof.
  induction k as [|k IH]; intros fuel x Kf Hk; (destruct fuel as [|fuel]; [lia|]); cbn [add_loop].
  - replace (x + n * Z.of_nat 0) with x in * by lia. rewrite Hk. eexists; reflexivity.
  - destruct (H x); [|eexists; reflexivity]. apply IH; [lia|].
    replace (x + n + n * Z.of_nat k) with (x + n * Z.of_nat (S k)) by lia. exact Hk.
Qed.
(* EXACT termination condition of `while self.is_holiday(res): res = res + increment` (any increment,
   n = 0 included: it terminates iff the start is not a holiday) *)
Theorem add_loop_terminates_iff n x :
  (exists fuel r, aloop fuel n x = Some r) <-> (exists k : nat, H (x + n * Z.of_nat k) = false).
Proof.
  split.
  - intros (fuel & r & E). destruct (add_loop_spec _ _ _ _ E) as (k & _ & -> & Hr & _). exists k. exact Hr.
  - intros (k & Hk). exists (S k). apply (add_loop_total n k); [lia | exact Hk].
Qed.

Lemma add_loop_next fuel s r : aloop fuel 1 (s + 1) = Some r ->
  s < r /\ H r = false /\ (forall d, s < d < r -> H d = true) /\ r - s <= Z.of_nat fuel.
Proof.
  intros E. destruct (add_loop_spec _ _ _ _ E) as (k & Kf & -> & Hr & A).
  split; [lia|]. split; [exact Hr|]. split; [|lia].
  intros d Hd. specialize (A (Z.to_nat (d - s - 1)) ltac:(lia)).
  replace (s + 1 + 1 * Z.of_nat (Z.to_nat (d - s - 1))) with d in A by lia. exact A.
Qed.
Lemma add_loop_prev fuel s r : aloop fuel (-1) (s + -1) = Some r ->
  r < s /\ H r = false /\ (forall d, r < d < s -> H d = true) /\ s - r <= Z.of_nat fuel.
Proof.
  intros E. destruct (add_loop_spec _ _ _ _ E) as (k & Kf & -> & Hr & A).
  split; [lia|]. split; [exact Hr|]. split; [|lia].
  intros d Hd. specialize (A (Z.to_nat (s - 1 - d)) ltac:(lia)).
  replace (s + -1 + -1 * Z.of_nat (Z.to_nat (s - 1 - d))) with d in A by lia. exact A.
Qed.
Lemma add_loop_run_next fuel s r : s < r -> H r = false -> (forall d, s < d < r -> H d = true) ->
  r - s <= Z.of_nat fuel -> aloop fuel 1 (s + 1) = Some r.
Proof.
  intros L Hr A Fu. replace r with (s + 1 + 1 * Z.of_nat (Z.to_nat (r - s - 1))) by lia.
  apply add_loop_run; [lia | |].
  - intros j Hj. apply A. lia.
  - replace (s + 1 + 1 * Z.of_nat (Z.to_nat (r - s - 1))) with r by lia. exact Hr.
Qed.
Lemma add_loop_run_prev fuel s r : r < s -> H r = false -> (forall d, r < d < s -> H d = true) ->
  s - r <= Z.of_nat fuel -> aloop fuel (-1) (s + -1) = Some r.
Proof.
  intros L Hr A Fu. replace r with (s + -1 + -1 * Z.of_nat (Z.to_nat (s - 1 - r))) by lia.
  apply add_loop_run; [lia | |].
  - intros j Hj. apply A. lia.
  - replace (s + -1 + -1 * Z.of_nat (Z.to_nat (s - 1 - r))) with r by lia. exact Hr.
Qed.
Lemma holidays_cnt_zero a b : (forall d, a < d < b -> H d = true) -> cnt B (a + 1) b = 0.
Proof. intros A. apply cnt_none_zero. intros d Hd. rewrite is_bday_not_holiday, A by lia. reflexivity. Qed.

(* the loop path computes the n-th business day from s, n in {-1, 0, 1} *)
Lemma add_loop_nth fuel n s r : -1 <= n <= 1 -> aloop fuel n (s + n) = Some r ->
  Nth s n r /\ H r = false.
Proof.
  intros N E. assert (C : n = 0 \/ n = 1 \/ n = -1) by lia. unfold nth_bday. destruct C as [-> | [-> | ->]].
  - destruct (add_loop_spec _ _ _ _ E) as (k & _ & -> & Hr & _). split; [left; lia | exact Hr].
  - destruct (add_loop_next _ _ _ E) as (L & Hr & A & _). split; [|exact Hr]. right. left.
    pose proof (cnt_split B (s + 1) r (r + 1) ltac:(lia)) as S. rewrite cnt_one in S.
    rewrite (holidays_cnt_zero s r A) in S. apply bday_holiday_false in Hr. rewrite Hr in S.
    repeat split; try assumption; lia.
  - destruct (add_loop_prev _ _ _ E) as (L & Hr & A & _). split; [|exact Hr]. right. right.
    pose proof (cnt_split B r (r + 1) s ltac:(lia)) as S. rewrite cnt_one in S.
    rewrite (holidays_cnt_zero r s A) in S. apply bday_holiday_false in Hr. rewrite Hr in S.
    repeat split; try assumption; lia.
Qed.

(* ================================================================== add / bdays theorems *)
Theorem add_loop_is_nth fuel a t n s r : Z.abs n <= 1 -> adj fuel a t = Some s -> Add fuel a t n = Ok r ->
  Nth s n r /\ H r = false.
Proof.
  intros N As E. unfold add in E. rewrite As in E. unfold add_uses_table in E.
  destruct (1 <? Z.abs n) eqn:C; [lia|].
  destruct (aloop fuel n (s + n)) as [r'|] eqn:L; [|discriminate]. injection E as <-.
  apply (add_loop_nth fuel); [lia | exact L].
Qed.
Theorem add_table_is_nth fuel a t n s r : 1 < Z.abs n -> adj fuel a t = Some s -> Add fuel a t n = Ok r ->
  (t0 <= s <= t1 /\ B s = true) /\ (t0 <= r <= t1 /\ B r = true) /\ Nth s n r.
Proof.
  intros N As E. unfold add in E. rewrite As in E. unfold add_uses_table in E.
  destruct (1 <? Z.abs n) eqn:C; [|lia].
  destruct (dt2int T s) as [i|] eqn:D; [|discriminate].
  destruct (int2dt T (i + n)) as [r'|] eqn:I; [|discriminate]. injection E as <-.
  apply dt2int_char in D. apply int2dt_char in I. destruct D as (Rs & Bs & Ei), I as (Rr & Br & Er).
  split; [split; assumption|]. split; [split; assumption|]. apply index_diff_nth; try assumption. lia.
Qed.
(* ... and it finds it whenever it exists inside the calendar (KeyError only when s or r leave [t0,t1]) *)
Theorem add_table_complete fuel a t n s r : 1 < Z.abs n -> adj fuel a t = Some s -> t0 <= s <= t1 ->
  t0 <= r <= t1 -> Nth s n r -> Add fuel a t n = Ok r.
Proof.
  intros N As Rs Rr Nr. pose proof (adjust_in_range _ _ _ _ As Rs) as Hs. apply bday_holiday_false in Hs.
  assert (Br : B r = true) by (destruct Nr as [(? & ?) | [(_ & _ & Br & _) | (_ & _ & Br & _)]]; [lia | exact Br | exact Br]).
  apply index_diff_nth in Nr; try assumption.
  unfold add. rewrite As. unfold add_uses_table. destruct (1 <? Z.abs n) eqn:C; [|lia].
  rewrite (proj2 (dt2int_char s (cnt B t0 s)) (conj Rs (conj Hs eq_refl))).
  rewrite (proj2 (int2dt_char (cnt B t0 s + n) r) (conj Rr (conj Br (eq_sym Nr)))). reflexivity.
Qed.
(* both paths: whenever adjust(t) is inside the calendar, add(t, n) is the n-th business day from it *)
Theorem add_is_nth fuel a t n s r : adj fuel a t = Some s -> t0 <= s <= t1 -> Add fuel a t n = Ok r ->
  Nth s n r /\ H r = false.
Proof.
  intros As Rs E. destruct (Z_lt_ge_dec 1 (Z.abs n)) as [N|N].
  - destruct (add_table_is_nth _ _ _ _ _ _ N As E) as (_ & (_ & Br) & Nr). split; [exact Nr | apply bday_holiday_false; exact Br].
  - apply (add_loop_is_nth fuel a t); [lia | exact As | exact E].
Qed.

Theorem bdays_add fuel a t n s r : adj fuel a t = Some s -> t0 <= s <= t1 -> Add fuel a t n = Ok r ->
  t0 <= r <= t1 -> Bdays fuel a t r = Ok n.
Proof.
  intros As Rs E Rr. destruct (add_is_nth _ _ _ _ _ _ As Rs E) as (Nr & Hr).
  pose proof (adjust_in_range _ _ _ _ As Rs) as Hs. apply bday_holiday_false in Hs.
  pose proof Hr as Br. apply bday_holiday_false in Br.
  apply index_diff_nth in Nr; try assumption.
  unfold bdays. rewrite (adjust_fix fuel a r Hr (adjust_fuel_pos _ _ _ _ As)).
  rewrite (proj2 (dt2int_char r (cnt B t0 r)) (conj Rr (conj Br eq_refl))). rewrite As.
  rewrite (proj2 (dt2int_char s (cnt B t0 s)) (conj Rs (conj Hs eq_refl))). f_equal. lia.
Qed.

Theorem add_inverse fuel a t n r : B t = true -> t0 <= t <= t1 -> Add fuel a t n = Ok r -> Add fuel a r (- n) = Ok t.
Proof.
  intros Bt Rt E. pose proof Bt as Ht. apply bday_holiday_false in Ht.
  assert (Fu : (0 < fuel)%nat).
  { destruct fuel; [|lia]. unfold add in E. destruct a; cbn in E; discriminate. }
  pose proof (adjust_fix fuel a t Ht Fu) as At.
  destruct (Z_lt_ge_dec 1 (Z.abs n)) as [N|N].
  - destruct (add_table_is_nth _ _ _ _ _ _ N At E) as (_ & (Rr & Br) & Nr).
    pose proof Br as Hr. apply bday_holiday_false in Hr.
    apply (add_table_complete fuel a r (- n) r t); [lia | apply adjust_fix; assumption | exact Rr | exact Rt |].
    apply index_diff_nth; try assumption. apply index_diff_nth in Nr; try assumption. lia.
  - unfold add in E. rewrite At in E. unfold add_uses_table in E. destruct (1 <? Z.abs n) eqn:C; [lia|].
    destruct (aloop fuel n (t + n)) as [r'|] eqn:L; [|discriminate]. injection E as <-.
    assert (Cn : n = 0 \/ n = 1 \/ n = -1) by lia. destruct Cn as [-> | [-> | ->]].
    + destruct (add_loop_spec _ _ _ _ L) as (k & _ & Er & _). replace r' with t in * by lia.
      unfold add. rewrite At. cbn. rewrite L. reflexivity.
    + destruct (add_loop_next _ _ _ L) as (Lt & Hr & A & Fb).
      unfold add. rewrite (adjust_fix fuel a r' Hr Fu). cbn.
      rewrite (add_loop_run_prev fuel r' t Lt Ht A Fb). reflexivity.
    + destruct (add_loop_prev _ _ _ L) as (Lt & Hr & A & Fb).
      unfold add. rewrite (adjust_fix fuel a r' Hr Fu). cbn.
      rewrite (add_loop_run_next fuel r' t Lt Ht A Fb). reflexivity.
Qed.

Lemma znth_exists (l : list Z) i : 0 <= i < Z.of_nat (length l) -> exists y, znth l i = Some y.
Proof.
  intros R. unfold znth. destruct (i <? 0) eqn:E; [lia|].
  destruct (nth_error l (Z.to_nat i)) as [y|] eqn:N; [exists y; reflexivity|].
  apply nth_error_None in N. lia.
Qed.
Lemma znth_bound (l : list Z) i x : znth l i = Some x -> 0 <= i < Z.of_nat (length l).
Proof.
  unfold znth. destruct (i <? 0) eqn:E; [discriminate|]. intros N.
  assert (Z.to_nat i < length l)%nat by (apply nth_error_Some; congruence). lia.
Qed.

(* the single-step path and the indexed path agree *)
Theorem paths_agree fuel a t r2 : t1 - t0 + 2 <= Z.of_nat fuel -> Add fuel a t 2 = Ok r2 ->
  exists r1, Add fuel a t 1 = Ok r1 /\ Add fuel a r1 1 = Ok r2.
Proof.
  intros Fu E. unfold add in E. destruct (adj fuel a t) as [s|] eqn:As; [|discriminate]. cbn in E.
  destruct (dt2int T s) as [i|] eqn:D; [|discriminate].
  destruct (int2dt T (i + 2)) as [r|] eqn:I2; [|discriminate]. injection E as ->.
  assert (I0 : int2dt T i = Some s) by (apply int2dt_dt2int; exact D).
  pose proof (znth_bound _ _ _ I0) as B0. pose proof (znth_bound _ _ _ I2) as B2.
  destruct (znth_exists T (i + 1) ltac:(lia)) as [y I1].
  destruct (table_successor i s y I0 I1) as (L1 & By & N1).
  replace (i + 2) with (i + 1 + 1) in I2 by lia.
  destruct (table_successor (i + 1) y r2 I1 I2) as (L2 & Br & N2).
  apply int2dt_char in I0. apply int2dt_char in I1. apply int2dt_char in I2.
  destruct I0 as (Rs & _), I1 as (Ry & _), I2 as (Rr & _).
  pose proof By as Hy. apply bday_holiday_false in Hy. pose proof Br as Hr. apply bday_holiday_false in Hr.
  exists y. unfold add. rewrite As. cbn. 
  rewrite (add_loop_run_next fuel s y L1 Hy); [| intros d Hd; specialize (N1 d Hd); rewrite is_bday_not_holiday in N1; destruct (H d); [reflexivity | discriminate] | lia].
  split; [reflexivity|].
  rewrite (adjust_fix fuel a y Hy ltac:(lia)).
  rewrite (add_loop_run_next fuel y r2 L2 Hr); [reflexivity | | lia].
  intros d Hd. specialize (N2 d Hd). rewrite is_bday_not_holiday in N2. destruct (H d); [reflexivity | discriminate].
Qed.

(* ================================================================== drange '1b' *)
Theorem drange_1b_spec fuel a x y sx sy l : adj fuel a x = Some sx -> adj fuel a y = Some sy ->
  Drange fuel a x y = Ok l ->
  l = filter B (rng sx (Z.to_nat (sy + 1 - sx))) /\ StronglySorted Z.lt l /\
  (forall d, In d l <-> sx <= d <= sy /\ B d = true).
Proof.
  intros Ax Ay E. unfold drange_1b in E. rewrite Ax, Ay in E.
  destruct (dt2int T sx) as [i0|] eqn:D0; [|discriminate].
  destruct (dt2int T sy) as [i1|] eqn:D1; [|discriminate].
  apply dt2int_char in D0. apply dt2int_char in D1. destruct D0 as (Rx & Bx & E0), D1 as (Ry & By & E1).
  assert (EL : l = F B sx (Z.to_nat (sy + 1 - sx))).
  { destruct (Z_le_gt_dec sx sy) as [Le|Gt].
    - rewrite populate_F in E.
      replace (Z.to_nat (t1 - t0 + 1)) with (Z.to_nat (sx - t0) + (Z.to_nat (sy + 1 - sx) + Z.to_nat (t1 - sy)))%nat in E by lia.
      rewrite !F_app in E. replace (t0 + Z.of_nat (Z.to_nat (sx - t0))) with sx in E by lia.
      pose proof (cnt_split B t0 sx sy ltac:(lia)) as S1. pose proof (cnt_split B sx sy (sy + 1) ltac:(lia)) as S2.
      rewrite cnt_one, By in S2.
      assert (E2 : Z.to_nat (i1 + 1 - i0) = length (F B sx (Z.to_nat (sy + 1 - sx)))).
      { rewrite (cnt_F B sx (sy + 1)) in S2. lia. }
      rewrite E2 in E. rewrite E0, (cnt_F B t0 sx) in E. rewrite lookup_all_mid in E. congruence.
    - pose proof (cnt_split B t0 sy sx ltac:(lia)) as S1. pose proof (cnt_mem_pos B sy sx sy ltac:(lia) By).
      replace (Z.to_nat (i1 + 1 - i0)) with O in E by lia. cbn in E.
      replace (Z.to_nat (sy + 1 - sx)) with O by lia. cbn. congruence. }
  split; [exact EL|]. split; [rewrite EL; apply F_sorted|].
  intros d. rewrite EL, In_F. lia.
Qed.
End Cal.

(* ================================================================== registry *)
Section Registry.
Variable V : Type.
Variable default : V.
Notation get := (reg_get default).
Notation call := (calendar_call default).

Lemma reg_lookup_set k k' (v : V) st :
  reg_lookup k (reg_set k' v st) = if k' =? k then Some v else reg_lookup k st.
Proof.
  induction st as [|[k2 v2] st IH]; cbn [reg_set reg_lookup].
  - destruct (k' =? k); reflexivity.
  - destruct (k2 =? k') eqn:E2; cbn [reg_lookup].
    + destruct (k' =? k) eqn:E; [reflexivity|]. replace (k2 =? k) with false by lia. reflexivity.
    + destruct (k2 =? k) eqn:E3; [replace (k' =? k) with false by lia; reflexivity | exact IH].
Qed.
Lemma get_lookup st k : get st k = match reg_lookup k st with Some v => v | None => default end.
Proof. unfold reg_get, calendar_call. destruct (reg_lookup k st); reflexivity. Qed.
Lemma get_after_call st k' arg k :
  get (fst (call st k' arg)) k =
  match (if k' =? k then arg else None) with Some v => v | None => get st k end.
Proof.
  rewrite !get_lookup. unfold calendar_call. destruct arg as [v|]; cbn [fst].
  - rewrite reg_lookup_set. destruct (k' =? k); reflexivity.
  - destruct (reg_lookup k' st) as [v'|] eqn:L'; cbn [fst].
    + destruct (k' =? k); reflexivity.
    + rewrite reg_lookup_set. destruct (k' =? k) eqn:E; [|reflexivity].
      replace k with k' by lia. rewrite L'. reflexivity.
Qed.
(* the value a call returns is the value now registered under that key *)
Lemma call_returns_registered st k arg : snd (call st k arg) = get (fst (call st k arg)) k.
Proof.
  rewrite get_lookup. unfold calendar_call. destruct arg as [v|]; cbn [fst snd].
  - rewrite reg_lookup_set, Z.eqb_refl. reflexivity.
  - destruct (reg_lookup k st) as [v'|] eqn:L; cbn [fst snd].
    + rewrite L. reflexivity.
    + rewrite reg_lookup_set, Z.eqb_refl. reflexivity.
Qed.
Theorem registry_last_write_wins ops : forall st k,
  get (fst (calendar_calls default st ops)) k =
  match last_put k ops with Some v => v | None => get st k end.
Proof.
  induction ops as [|[k' arg] ops IH]; intros st k; cbn [calendar_calls last_put fst]; [reflexivity|].
  destruct (call st k' arg) as [st1 v1] eqn:C1.
  destruct (calendar_calls default st1 ops) as [st2 vs] eqn:C2. cbn [fst].
  specialize (IH st1 k). rewrite C2 in IH. cbn [fst] in IH. rewrite IH.
  destruct (last_put k ops) as [v|]; [reflexivity|].
  replace st1 with (fst (call st k' arg)) by (rewrite C1; reflexivity). apply get_after_call.
Qed.
End Registry.

(* 'm' at full strength: with a business day b in [t, t1], the result is the least business day rf >= t if it is
   in t's month, otherwise whatever 'p' gives (characterised by adjust_p_greatest) *)
Theorem adjust_m_full (hol wk : Z -> bool) (month : Z -> Z) (t0 t1 : Z) fuel t b r :
  t <= b <= t1 -> is_bday hol wk b = true -> adjust_m hol wk month t0 t1 fuel t = Some r ->
  exists rf, (t <= rf <= b /\ is_bday hol wk rf = true /\ forall d, t <= d < rf -> is_bday hol wk d = false) /\
             ((month rf = month t /\ r = rf) \/ (month rf <> month t /\ adjust_p hol wk t0 fuel t = Some r)).
Proof.
  intros Rb Bb E. unfold adjust_m in E. destruct (adjust_f hol wk t1 fuel t) as [rf|] eqn:Ef; [|discriminate].
  exists rf. split; [exact (adjust_f_least hol wk t1 fuel t b rf Rb Bb Ef)|].
  destruct (month rf =? month t) eqn:M; cbn [negb] in E.
  - left. split; [lia | congruence].
  - right. split; [lia | exact E].
Qed.

(* ================================================================== registry with cached tables *)
Section RegistryT.
Variables V T : Type.
Variable build : V -> T.
Variable default : V.
Notation targs := (t_args default).
Notation coh := (coherent build).

Lemma tlookup_set (E : Type) k k' (v : E) st :
  reg_lookup k (reg_set k' v st) = if k' =? k then Some v else reg_lookup k st.
Proof.
  induction st as [|[k2 v2] st IH]; cbn [reg_set reg_lookup].
  - destruct (k' =? k); reflexivity.
  - destruct (k2 =? k') eqn:E2; cbn [reg_lookup].
    + destruct (k' =? k) eqn:E1; [reflexivity|]. replace (k2 =? k) with false by lia. reflexivity.
    + destruct (k2 =? k) eqn:E3; [replace (k' =? k) with false by lia; reflexivity | exact IH].
Qed.
Lemma coh_set st k v (c : option T) : coh st -> (forall t, c = Some t -> t = build v) -> coh (reg_set k (v, c) st).
Proof.
  intros C Hc k' v' t'. rewrite tlookup_set. destruct (k =? k'); [|apply C].
  intros E. inversion E; subst. apply Hc. reflexivity.
Qed.
Lemma targs_set st k v (c : option T) k' : targs (reg_set k (v, c) st) k' = if k =? k' then v else targs st k'.
Proof. unfold t_args. rewrite tlookup_set. destruct (k =? k'); reflexivity. Qed.

Lemma t_call_get st k : coh st ->
  coh (fst (t_call default st k None)) /\ snd (t_call default st k None) = targs st k /\
  forall k', targs (fst (t_call default st k None)) k' = targs st k'.
Proof.
  intros C. unfold t_call. destruct (reg_lookup k st) as [[v c]|] eqn:L; cbn [fst snd].
  - split; [exact C|]. split; [unfold t_args; rewrite L; reflexivity | reflexivity].
  - split; [apply coh_set; [exact C | discriminate]|]. split; [unfold t_args; rewrite L; reflexivity|].
    intros k'. rewrite targs_set. destruct (k =? k') eqn:E; [|reflexivity].
    unfold t_args. replace k' with k by lia. rewrite L. reflexivity.
Qed.
Lemma t_step_ok st o : coh st ->
  coh (t_step build default st o) /\ forall k', targs (t_step build default st o) k' = spec_step (targs st) o k'.
Proof.
  intros C. destruct o as [k [v|] | k f | k]; cbn [t_step spec_step].
  - cbn [t_call fst]. split; [apply coh_set; [exact C | discriminate]|]. intros k'. apply targs_set.
  - destruct (t_call_get st k C) as (C1 & _ & A1). split; [exact C1 | exact A1].
  - unfold t_obj. destruct (t_call_get st k C) as (C1 & R1 & A1).
    destruct (t_call default st k None) as [st1 v] eqn:E1. cbn [fst snd] in *. subst v.
    destruct (f (targs st k)) as [v'|]; cbn [fst].
    + split; [apply coh_set; [exact C1 | discriminate]|]. intros k'. rewrite targs_set, A1. reflexivity.
    + split; [exact C1 | exact A1].
  - unfold t_use. destruct (reg_lookup k st) as [[v [t|]]|] eqn:L; cbn [fst].
    + split; [exact C | reflexivity].
    + split; [apply coh_set; [exact C | intros t E; congruence]|]. intros k'. rewrite targs_set.
      destruct (k =? k') eqn:E; [|reflexivity]. unfold t_args. replace k' with k by lia. rewrite L. reflexivity.
    + split; [apply coh_set; [exact C | intros t E; congruence]|]. intros k'. rewrite targs_set.
      destruct (k =? k') eqn:E; [|reflexivity]. unfold t_args. replace k' with k by lia. rewrite L. reflexivity.
Qed.
Lemma spec_step_ext (g1 g2 : Z -> V) o : (forall k, g1 k = g2 k) -> forall k, spec_step g1 o k = spec_step g2 o k.
Proof.
  intros E k. destruct o as [k0 [v|] | k0 f | k0]; cbn [spec_step]; try apply E.
  - rewrite E. reflexivity.
  - rewrite E. destruct (f (g2 k0)); [rewrite E; reflexivity | apply E].
Qed.
Lemma spec_run_ext ops : forall (g1 g2 : Z -> V), (forall k, g1 k = g2 k) -> forall k, spec_run ops g1 k = spec_run ops g2 k.
Proof.
  induction ops as [|o ops IH]; intros g1 g2 E k; cbn [spec_run fold_left]; [apply E|].
  apply IH. apply spec_step_ext. exact E.
Qed.
(* with coherent caches a table-path call reads the table of the arguments currently registered *)
Lemma t_table_coherent st k : coh st -> t_table build default st k = build (targs st k).
Proof.
  intros C. unfold t_table, t_use, t_args. destruct (reg_lookup k st) as [[v [t|]]|] eqn:L; cbn [snd]; try reflexivity.
  exact (C k v t L).
Qed.
(* LAST WRITE WINS, tables included: after ANY history of registrations (by key or through a fetched object),
   fetches and table-path uses, calendar(k) carries the arguments last registered for k and its table-path
   methods read the table built from exactly those arguments -- never a table populated for older holidays *)
Theorem registry_tables_last_write_wins ops : forall st, coh st ->
  coh (t_run build default ops st) /\
  forall k, targs (t_run build default ops st) k = spec_run ops (targs st) k /\
            t_table build default (t_run build default ops st) k = build (spec_run ops (targs st) k).
Proof.
  induction ops as [|o ops IH]; intros st C.
  - split; [exact C|]. intros k. split; [reflexivity | apply t_table_coherent; exact C].
  - change (t_run build default (o :: ops) st) with (t_run build default ops (t_step build default st o)).
    destruct (t_step_ok st o C) as (C1 & A1). destruct (IH _ C1) as (C2 & A2). split; [exact C2|].
    intros k. change (spec_run (o :: ops) (targs st)) with (spec_run ops (spec_step (targs st) o)).
    destruct (A2 k) as (E1 & E2). rewrite E1, E2. rewrite (spec_run_ext ops _ _ A1 k). split; reflexivity.
Qed.
End RegistryT.

(* bdays between any two dates is the signed day-by-day count of business days between the adjusted dates;
   clock is the count from t0; a single b-period string bump is add *)
Theorem bdays_is_count (hol wk : Z -> bool) (month : Z -> Z) (t0 t1 : Z) fuel a x y sx sy n :
  adjust hol wk month t0 t1 fuel a x = Some sx -> adjust hol wk month t0 t1 fuel a y = Some sy ->
  bdays hol wk month t0 t1 (populate hol wk t0 t1) fuel a x y = Ok n ->
  (t0 <= sx <= t1 /\ is_bday hol wk sx = true) /\ (t0 <= sy <= t1 /\ is_bday hol wk sy = true) /\
  n = cnt (is_bday hol wk) t0 sy - cnt (is_bday hol wk) t0 sx /\
  (sx <= sy -> n = cnt (is_bday hol wk) (sx + 1) (sy + 1)) /\ (sy <= sx -> n = - cnt (is_bday hol wk) (sy + 1) (sx + 1)).
Proof.
  intros Ax Ay E. unfold bdays in E. rewrite Ax, Ay in E.
  destruct (dt2int (populate hol wk t0 t1) sy) as [iy|] eqn:Dy; [|discriminate].
  destruct (dt2int (populate hol wk t0 t1) sx) as [ix|] eqn:Dx; [|discriminate]. injection E as <-.
  apply dt2int_char in Dx. apply dt2int_char in Dy. destruct Dx as (Rx & Bx & ->), Dy as (Ry & By & ->).
  split; [split; assumption|]. split; [split; assumption|]. split; [reflexivity|]. split; intros L.
  - pose proof (cnt_split (is_bday hol wk) t0 sx sy ltac:(lia)) as S1.
    pose proof (cnt_split (is_bday hol wk) sx (sx + 1) (sy + 1) ltac:(lia)) as S2.
    pose proof (cnt_split (is_bday hol wk) sx sy (sy + 1) ltac:(lia)) as S3.
    rewrite cnt_one, Bx in S2. rewrite cnt_one, By in S3. lia.
  - pose proof (cnt_split (is_bday hol wk) t0 sy sx ltac:(lia)) as S1.
    pose proof (cnt_split (is_bday hol wk) sy (sy + 1) (sx + 1) ltac:(lia)) as S2.
    pose proof (cnt_split (is_bday hol wk) sy sx (sx + 1) ltac:(lia)) as S3.
    rewrite cnt_one, By in S2. rewrite cnt_one, Bx in S3. lia.
Qed.
Theorem clock_is_count (hol wk : Z -> bool) (month : Z -> Z) (t0 t1 : Z) fuel a t s i :
  adjust hol wk month t0 t1 fuel a t = Some s ->
  (clock hol wk month t0 t1 (populate hol wk t0 t1) fuel a t = Ok i <->
   (t0 <= s <= t1 /\ is_bday hol wk s = true /\ i = cnt (is_bday hol wk) t0 s)).
Proof.
  intros As. unfold clock. rewrite As. rewrite <- dt2int_char.
  destruct (dt2int (populate hol wk t0 t1) s) as [j|]; split; intros E; try discriminate; congruence.
Qed.
Theorem dt_bump_b_single (hol wk : Z -> bool) (month : Z -> Z) (t0 t1 : Z) T fuel a t n :
  dt_bump_b hol wk month t0 t1 T fuel a t [(n, 0)] = add hol wk month t0 t1 T fuel a t n.
Proof. cbn. destruct (add hol wk month t0 t1 T fuel a t n); reflexivity. Qed.
