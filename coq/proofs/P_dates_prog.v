(* Every positive single-period bump moves strictly forward (and by how much at least): the
   progress hypotheses of the drange loop theorems hold for the real bumps. *)
From Coq Require Import ZArith List Bool Lia ZifyBool.
From PB Require Import model.M_cal model.M_dates proofs.P_cal proofs.P_dates_b proofs.P_dates_m.
Open Scope Z_scope.
Ltac Zify.zify_post_hook ::= Z.to_euclidean_division_equations.

Lemma ym_succ y m k : let '(y1, m1) := ym y (m + k) in ym y (m + (k + 1)) = ym y1 (m1 + 1).
Proof. unfold ym. f_equal; lia. Qed.

Lemma first_of_next_month y m : 1 <= m <= 12 ->
  let '(y2, m2) := ym y (m + 1) in ord_of_ymd y2 m2 1 = ord_of_ymd y m 1 + dim y m.
Proof.
  intros H. pose proof (ord_overflow y m 1 H) as O. destruct (ym y (m + 1)) as [y2 m2].
  rewrite <- O. unfold ord_of_ymd. lia.
Qed.

Lemma months_ahead y m : 1 <= m <= 12 -> forall k, 0 <= k ->
  let '(y', m') := ym y (m + k) in ord_of_ymd y m 1 + 28 * k <= ord_of_ymd y' m' 1.
Proof.
  intros Hm. apply natlike_ind.
  - replace (m + 0) with m by lia. rewrite ym_id by lia. lia.
  - intros k Hk IH. replace (Z.succ k) with (k + 1) by lia.
    pose proof (ym_succ y m k) as S. pose proof (ym_range y (m + k)) as R.
    destruct (ym y (m + k)) as [y1 m1]. rewrite S.
    pose proof (first_of_next_month y1 m1 R) as N. pose proof (dim_range y1 m1).
    destruct (ym y1 (m1 + 1)) as [y2 m2]. lia.
Qed.

Lemma ymd_us_ahead t k y m d y' m' : ymd_of_ord (ord_of_us t) = (y, m, d) ->
  1 <= k -> ym y (m + k) = (y', m') -> 1 <= y' <= 9999 ->
  exists t', ymd_us y (m + k) d = Some t' /\ t + 27 * DAYUS < t'.
Proof.
  intros Ht Hk Hym Hy. pose proof (ymd_of_ord_day (ord_of_us t)) as D. rewrite Ht in D.
  pose proof (ymd_of_ord_valid (ord_of_us t)) as V. rewrite Ht in V. destruct V as [_ V].
  eexists. split; [apply (ymd_us_plain y (m + k) d y' m'); [lia | exact Hym | exact Hy]|].
  pose proof (months_ahead y m ltac:(lia) k ltac:(lia)) as A. rewrite Hym in A.
  rewrite <- (ord_first_plus y m d) in V. unfold us_of_ord, ord_of_us, DAYUS in *. nia.
Qed.

(* positive month / quarter / year bumps progress by more than 27 days *)
Theorem month_bump_progress u t k t' y m d y' m' :
  (u = UM \/ u = UQ \/ u = UY) -> 1 <= k -> ymd_of_ord (ord_of_us t) = (y, m, d) ->
  month_target u y m k = (y', m') -> 1 <= y' <= 9999 ->
  bump1 t (k, u) = Some t' -> t + 27 * DAYUS < t'.
Proof.
  intros Hu Hk Ht Htg Hy Hb. unfold bump1 in Hb. unfold year_of, month_of, day_of in Hb. rewrite Ht in Hb.
  pose proof (ymd_of_ord_day (ord_of_us t)) as D. rewrite Ht in D.
  destruct Hu as [-> | [-> | ->]]; cbn [month_target] in Htg.
  - destruct (ymd_us_ahead t k y m d y' m' Ht Hk Htg Hy) as [t2 [H1 H2]]. congruence.
  - destruct (ymd_us_ahead t (3 * k) y m d y' m' Ht ltac:(lia) Htg Hy) as [t2 [H1 H2]]. congruence.
  - (* a year is 12 months *)
    rewrite ym_id in Htg by lia. assert (y' = y + k) by congruence. assert (m' = m) by congruence. subst y' m'.
    assert (E : ym y (m + 12 * k) = (y + k, m)) by (unfold ym; f_equal; lia).
    destruct (ymd_us_ahead t (12 * k) y m d (y + k) m Ht ltac:(lia) E Hy) as [t2 [H1 H2]].
    assert (E2 : ymd_us (y + k) m d = ymd_us y (m + 12 * k) d).
    { unfold ymd_us. 
      replace ((1500 <? d) && (d <? 3000) && (0 <? y + k) && (y + k <? 32) && (0 <? m) && (m <? 13)) with false by lia.
      replace ((1500 <? d) && (d <? 3000) && (0 <? y) && (y <? 32) && (0 <? m + 12 * k) && (m + 12 * k <? 13)) with false by lia.
      rewrite E. rewrite (ym_id (y + k) m) by lia. reflexivity. }
    rewrite E2 in Hb. congruence.
Qed.

(* positive fixed-length and business-day bumps *)
Lemma delta_b_pos w n : 0 <= w < 7 -> 1 <= n -> 1 <= delta_b w n.
Proof.
  intros Hw Hn. unfold delta_b. destruct (4 <? w) eqn:E1;
  match goal with |- context [if ?c then _ + 2 else _] => destruct c eqn:E2 end; lia.
Qed.
Theorem fixed_bump_progress u t k t' : 1 <= k -> bump1 t (k, u) = Some t' ->
  match u with
  | UD | UB => t + DAYUS <= t' | UW => t + 7 * DAYUS <= t' | UH => t + 3600000000 <= t'
  | UN => t + 60000000 <= t' | US => t + 1000000 <= t' | _ => True
  end.
Proof.
  intros Hk H. destruct u; cbn [bump1] in H; try exact I;
  try (assert (E : t' = _) by (symmetry; congruence); unfold DAYUS in *; first [nia | idtac]).
  - assert (E : t' = t + DAYUS * k) by congruence. unfold DAYUS in *. nia.
  - assert (E : t' = t + DAYUS * (7 * k)) by congruence. unfold DAYUS in *. nia.
  - assert (E : t' = t + 3600000000 * k) by congruence. nia.
  - assert (E : t' = t + 60000000 * k) by congruence. nia.
  - assert (E : t' = t + 1000000 * k) by congruence. nia.
  - assert (E : t' = bump_b t k) by congruence. subst t'. unfold bump_b.
    pose proof (delta_b_pos (weekday t) k (weekday_range t) Hk). unfold DAYUS. nia.
Qed.
