(* Every well-formed tenor string parses to exactly the tokens it spells. *)
From Coq Require Import ZArith List Bool String Ascii Lia.
From PB Require Import model.M_cal model.M_dates model.M_tenor.
Import ListNotations.
Open Scope Z_scope.

Lemma digit_char_val d : 0 <= d <= 9 -> digit_val (digit_char d) = Some d.
Proof.
  intros H. assert (C : d = 0 \/ d = 1 \/ d = 2 \/ d = 3 \/ d = 4 \/ d = 5 \/ d = 6 \/ d = 7 \/ d = 8 \/ d = 9) by lia.
  repeat (destruct C as [-> | C]; [vm_compute; reflexivity|]). subst d. vm_compute. reflexivity.
Qed.
Lemma letter_not_digit u : digit_val (letter u) = None.
Proof. destruct u; vm_compute; reflexivity. Qed.
Lemma letter_unit u : unit_of (letter u) = Some u.
Proof. destruct u; vm_compute; reflexivity. Qed.
Lemma digit_char_not_sign d : 0 <= d <= 9 -> digit_char d <> "-"%char /\ digit_char d <> "+"%char.
Proof.
  intros H. assert (C : d = 0 \/ d = 1 \/ d = 2 \/ d = 3 \/ d = 4 \/ d = 5 \/ d = 6 \/ d = 7 \/ d = 8 \/ d = 9) by lia.
  repeat (destruct C as [-> | C]; [split; vm_compute; discriminate|]). subst d. split; vm_compute; discriminate.
Qed.

Lemma take_digits_spec ds : Forall (fun d => 0 <= d <= 9) ds -> forall acc cnt c rest, digit_val c = None ->
  take_digits (map digit_char ds ++ c :: rest) acc cnt =
  (fold_left (fun a d => a * 10 + d) ds acc, (cnt + List.length ds)%nat, c :: rest).
Proof.
  induction 1 as [|d ds Hd Hds IH]; intros acc cnt c rest Hc; cbn [map app take_digits fold_left List.length].
  - rewrite Hc. f_equal. f_equal. lia.
  - rewrite (digit_char_val d Hd). rewrite IH by exact Hc. f_equal. f_equal. lia.
Qed.

Lemma token_spell s ds u rest : ds <> [] -> Forall (fun d => 0 <= d <= 9) ds ->
  token (spell (s, ds, u) ++ rest) = Some (meaning (s, ds, u), rest).
Proof.
  intros Hne Hds. unfold spell, meaning. rewrite <- !app_assoc. cbn [app].
  destruct ds as [|d ds]; [contradiction|]. inversion Hds as [|? ? Hd Hds']; subst.
  assert (T : take_digits (map digit_char (d :: ds) ++ letter u :: rest) 0 0 =
                         (digits_val (d :: ds), S (List.length ds), letter u :: rest)).
  { rewrite (take_digits_spec (d :: ds) Hds 0 0%nat (letter u) rest (letter_not_digit u)). reflexivity. }
  destruct (digit_char_not_sign d Hd) as [Nm Np].
  unfold token. destruct s; cbn [sign_chars app sign_val].
  - (* no sign: the first character is a digit, hence neither '-' nor '+' *)
    cbn [map app]. destruct (digit_char d) as [b0 b1 b2 b3 b4 b5 b6 b7] eqn:E.
    destruct b0, b1, b2, b3, b4, b5, b6, b7; try (exfalso; apply Nm; reflexivity); try (exfalso; apply Np; reflexivity);
    rewrite <- E; change (digit_char d :: map digit_char ds ++ letter u :: rest) with (map digit_char (d :: ds) ++ letter u :: rest);
    rewrite T; rewrite letter_unit; f_equal; f_equal; f_equal; lia.
  - rewrite T. rewrite letter_unit. reflexivity.
  - rewrite T. rewrite letter_unit. reflexivity.
Qed.

Lemma spell_nonempty p : spell p <> [].
Proof. destruct p as [[s ds] u]. unfold spell. destruct s; cbn; try discriminate. destruct ds; cbn; discriminate. Qed.

Lemma spell_length_pos p : (0 < List.length (spell p))%nat.
Proof. pose proof (spell_nonempty p). destruct (spell p); [contradiction | cbn; lia]. Qed.

Theorem tokens_of_spelling ps : Forall well_formed ps -> forall fuel,
  (List.length (List.concat (map spell ps)) < fuel)%nat ->
  tokens_fuel fuel (List.concat (map spell ps)) = Some (map meaning ps).
Proof.
  induction 1 as [|p ps Hp Hps IH]; intros fuel Hf.
  - destruct fuel; [lia|]. reflexivity.
  - destruct fuel as [|f]; [lia|]. cbn [map List.concat tokens_fuel].
    destruct p as [[s ds] u]. destruct Hp as [Hne Hds].
    pose proof (spell_nonempty (s, ds, u)) as NE.
    destruct (spell (s, ds, u) ++ List.concat (map spell ps)) as [|c0 l0] eqn:E.
    { destruct (spell (s, ds, u)); [contradiction | discriminate]. }
    rewrite <- E. rewrite (token_spell s ds u _ Hne Hds).
    rewrite IH; [reflexivity|].
    cbn [map List.concat] in Hf. rewrite app_length in Hf. pose proof (spell_length_pos (s, ds, u)). lia.
Qed.
