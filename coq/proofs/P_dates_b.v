(* Business-day closed form of dt_bump = stepping one weekday at a time. *)
From Coq Require Import ZArith List Bool Lia ZifyBool.
From PB Require Import model.M_cal model.M_dates.
Open Scope Z_scope.
Ltac Zify.zify_post_hook ::= Z.to_euclidean_division_equations.

Lemma weekday_range t : 0 <= weekday t < 7.
Proof. unfold weekday, weekday_ord. lia. Qed.

Lemma weekday_shift t d : weekday (t + DAYUS * d) = (weekday t + d) mod 7.
Proof.
  unfold weekday, weekday_ord, ord_of_us.
  replace (t + DAYUS * d) with (t + d * DAYUS) by lia.
  rewrite Z.div_add by (unfold DAYUS; lia). lia.
Qed.

Lemma tod_shift t d : tod_of_us (t + DAYUS * d) = tod_of_us t.
Proof.
  unfold tod_of_us. replace (t + DAYUS * d) with (t + d * DAYUS) by lia.
  apply Z.mod_add. unfold DAYUS; lia.
Qed.

(* ---- arithmetic core on (weekday, count) ---- *)
Lemma delta_zero w : 0 <= w <= 4 -> delta_b w 0 = 0.
Proof. intros H. unfold delta_b. destruct (4 <? w) eqn:E; [lia|]. simpl. destruct (4 <? w + 0) eqn:E2; lia. Qed.

Lemma delta_succ w n : 0 <= w <= 4 ->
  delta_b w (n + 1) = delta_b w n + (if (w + delta_b w n) mod 7 =? 4 then 3 else 1).
Proof.
  intros H. unfold delta_b. destruct (4 <? w) eqn:E1; [lia|].
  destruct (4 <? w + (n + 1 - (n + 1) / 5 * 5)) eqn:E2;
  destruct (4 <? w + (n - n / 5 * 5)) eqn:E3;
  match goal with |- context [if ?c then 3 else 1] => destruct c eqn:E4 end; lia.
Qed.

Lemma delta_pred w n : 0 <= w <= 4 ->
  delta_b w (n - 1) = delta_b w n - (if (w + delta_b w n) mod 7 =? 0 then 3 else 1).
Proof.
  intros H. unfold delta_b. destruct (4 <? w) eqn:E1; [lia|].
  destruct (4 <? w + (n - 1 - (n - 1) / 5 * 5)) eqn:E2;
  destruct (4 <? w + (n - n / 5 * 5)) eqn:E3;
  match goal with |- context [if ?c then 3 else 1] => destruct c eqn:E4 end; lia.
Qed.

Lemma delta_lands w n : 0 <= w < 7 -> (w + delta_b w n) mod 7 <= 4.
Proof.
  intros H. unfold delta_b. destruct (4 <? w) eqn:E1;
  match goal with |- context [if ?c then _ + 2 else _] => destruct c eqn:E2 end; lia.
Qed.

Lemma delta_roll w n : 4 < w < 7 -> delta_b w n = (7 - w) + delta_b 0 n.
Proof.
  intros H. unfold delta_b. destruct (4 <? w) eqn:E1; [|lia]. destruct (4 <? 0) eqn:E0; [lia|]. lia.
Qed.

(* monotone in the start day: for two day numbers a <= b (weekdays wa, wb consistent) *)
Lemma delta_monotone a b n :
  a <= b -> a + delta_b ((a + 6) mod 7) n <= b + delta_b ((b + 6) mod 7) n.
Proof.
  intros H. unfold delta_b.
  destruct (4 <? (a + 6) mod 7) eqn:Ea; destruct (4 <? (b + 6) mod 7) eqn:Eb;
  repeat match goal with |- context [if ?c then _ + 2 else _] => destruct c eqn:? end; lia.
Qed.

(* ---- lifted to datetimes ---- *)
Lemma bump_b_weekday t n : weekday (bump_b t n) <= 4.
Proof. unfold bump_b. rewrite weekday_shift. apply delta_lands, weekday_range. Qed.

Lemma bump_b_tod t n : tod_of_us (bump_b t n) = tod_of_us t.
Proof. unfold bump_b. apply tod_shift. Qed.

Lemma bump_b_zero t : weekday t <= 4 -> bump_b t 0 = t.
Proof. intros H. unfold bump_b. pose proof (weekday_range t). rewrite delta_zero by lia. lia. Qed.

Lemma bump_b_succ t n : weekday t <= 4 -> bump_b t (n + 1) = next_wd (bump_b t n).
Proof.
  intros H. pose proof (weekday_range t) as R. unfold next_wd. unfold bump_b at 2. rewrite weekday_shift.
  unfold bump_b. rewrite delta_succ by lia. destruct ((weekday t + delta_b (weekday t) n) mod 7 =? 4); lia.
Qed.

Lemma bump_b_pred t n : weekday t <= 4 -> bump_b t (n - 1) = prev_wd (bump_b t n).
Proof.
  intros H. pose proof (weekday_range t) as R. unfold prev_wd. unfold bump_b at 2. rewrite weekday_shift.
  unfold bump_b. rewrite delta_pred by lia. destruct ((weekday t + delta_b (weekday t) n) mod 7 =? 0); lia.
Qed.

Lemma bump_b_nonneg_iter t n : weekday t <= 4 -> 0 <= n -> bump_b t n = Nat.iter (Z.to_nat n) next_wd t.
Proof.
  intros H Hn. revert n Hn. apply natlike_ind.
  - simpl. apply bump_b_zero; exact H.
  - intros n Hn IH. rewrite Z2Nat.inj_succ by exact Hn. change (Nat.iter (S ?k) ?f ?x) with (f (Nat.iter k f x)). rewrite <- IH.
    replace (Z.succ n) with (n + 1) by lia. apply bump_b_succ; exact H.
Qed.

Lemma bump_b_neg_iter t n : weekday t <= 4 -> 0 <= n -> bump_b t (- n) = Nat.iter (Z.to_nat n) prev_wd t.
Proof.
  intros H Hn. revert n Hn. apply natlike_ind.
  - simpl. apply bump_b_zero; exact H.
  - intros n Hn IH. rewrite Z2Nat.inj_succ by exact Hn. change (Nat.iter (S ?k) ?f ?x) with (f (Nat.iter k f x)). rewrite <- IH.
    replace (- Z.succ n) with (- n - 1) by lia. apply bump_b_pred; exact H.
Qed.

Lemma bump_b_is_nth_wd t n : weekday t <= 4 -> bump_b t n = nth_wd t n.
Proof.
  intros H. unfold nth_wd. destruct (0 <=? n) eqn:E.
  - apply bump_b_nonneg_iter; [exact H | lia].
  - rewrite <- (bump_b_neg_iter t (- n) H) by lia. f_equal. lia.
Qed.

Lemma roll_monday_weekday t : 4 < weekday t -> weekday (roll_monday t) = 0.
Proof.
  intros H. pose proof (weekday_range t). unfold roll_monday.
  destruct (4 <? weekday t) eqn:E; [|lia]. rewrite weekday_shift. lia.
Qed.

Lemma bump_b_rolls_first t n : bump_b t n = bump_b (roll_monday t) n.
Proof.
  pose proof (weekday_range t) as R. unfold roll_monday. destruct (4 <? weekday t) eqn:E; [|reflexivity].
  unfold bump_b. rewrite weekday_shift.
  replace ((weekday t + (7 - weekday t)) mod 7) with 0 by lia.
  rewrite (delta_roll (weekday t)) by lia. lia.
Qed.

Lemma bump_b_monotone t1 t2 n : t1 <= t2 -> tod_of_us t1 = tod_of_us t2 \/ True ->
  ord_of_us (bump_b t1 n) <= ord_of_us (bump_b t2 n).
Proof.
  intros H _. unfold bump_b, ord_of_us, weekday, weekday_ord, ord_of_us.
  replace (t1 + DAYUS * delta_b ((t1 / DAYUS + 6) mod 7) n) with (t1 + delta_b ((t1 / DAYUS + 6) mod 7) n * DAYUS) by lia.
  replace (t2 + DAYUS * delta_b ((t2 / DAYUS + 6) mod 7) n) with (t2 + delta_b ((t2 / DAYUS + 6) mod 7) n * DAYUS) by lia.
  rewrite !Z.div_add by (unfold DAYUS; lia).
  apply delta_monotone. apply Z.div_le_mono; [unfold DAYUS; lia | exact H].
Qed.

(* monotone on datetimes sharing a time of day (in particular on dates) *)
Lemma bump_b_mono_same_tod t1 t2 n :
  tod_of_us t1 = tod_of_us t2 -> t1 <= t2 -> bump_b t1 n <= bump_b t2 n.
Proof.
  intros HT H.
  pose proof (bump_b_monotone t1 t2 n H (or_intror I)) as Hord.
  pose proof (bump_b_tod t1 n) as T1. pose proof (bump_b_tod t2 n) as T2.
  unfold ord_of_us, tod_of_us in *.
  assert (D : 0 < DAYUS) by (unfold DAYUS; lia).
  pose proof (Z.div_mod (bump_b t1 n) DAYUS ltac:(lia)) as E1.
  pose proof (Z.div_mod (bump_b t2 n) DAYUS ltac:(lia)) as E2.
  rewrite T1 in E1. rewrite T2 in E2. rewrite HT in E1. nia.
Qed.

(* ... but NOT on arbitrary intraday datetimes: Saturday 10:00 < Sunday 09:00 both roll to
   Monday and keep their time of day.  730120 = Saturday 2000-01-01. *)
Lemma bump_b_mono_intraday_refuted :
  exists t1 t2 n, t1 < t2 /\ bump_b t2 n < bump_b t1 n.
Proof.
  exists (730120 * DAYUS + 10 * 3600000000), (730121 * DAYUS + 9 * 3600000000), 1.
  vm_compute. split; reflexivity.
Qed.

Lemma next_prev t : weekday t <= 4 -> prev_wd (next_wd t) = t.
Proof.
  intros H. pose proof (weekday_range t). unfold prev_wd, next_wd.
  destruct (weekday t =? 4) eqn:E.
  - replace (t + DAYUS * 3) with (t + DAYUS * 3) by lia. rewrite weekday_shift.
    destruct ((weekday t + 3) mod 7 =? 0) eqn:E2; lia.
  - replace (t + DAYUS) with (t + DAYUS * 1) by lia. rewrite weekday_shift.
    destruct ((weekday t + 1) mod 7 =? 0) eqn:E2; lia.
Qed.

(* same-sign composition and inverse, via the arithmetic core *)
Lemma delta_compose w a b : 0 <= w <= 4 -> (0 <= a /\ 0 <= b) \/ (a <= 0 /\ b <= 0) ->
  delta_b w (a + b) = delta_b w a + delta_b ((w + delta_b w a) mod 7) b.
Proof.
  intros H S. pose proof (delta_lands w a ltac:(lia)) as L.
  unfold delta_b in *. destruct (4 <? w) eqn:E1; [lia|].
  destruct (4 <? w + (a - a / 5 * 5)) eqn:E2;
  match goal with |- context [4 <? (?x) mod 7] => destruct (4 <? x mod 7) eqn:E3 end; try lia;
  repeat match goal with |- context [if ?c then _ + 2 else _] => destruct c eqn:? end; lia.
Qed.

Lemma bump_b_compose t a b : weekday t <= 4 -> (0 <= a /\ 0 <= b) \/ (a <= 0 /\ b <= 0) ->
  bump_b (bump_b t a) b = bump_b t (a + b).
Proof.
  intros H S. pose proof (weekday_range t). unfold bump_b.
  rewrite weekday_shift. rewrite (delta_compose (weekday t) a b) by lia. lia.
Qed.

Lemma delta_inverse w n : 0 <= w <= 4 -> delta_b ((w + delta_b w n) mod 7) (- n) = - delta_b w n.
Proof.
  intros H. pose proof (delta_lands w n ltac:(lia)) as L.
  unfold delta_b in *. destruct (4 <? w) eqn:E1; [lia|].
  destruct (4 <? w + (n - n / 5 * 5)) eqn:E2;
  match goal with |- context [4 <? (?x) mod 7] => destruct (4 <? x mod 7) eqn:E3 end; try lia;
  repeat match goal with |- context [if ?c then _ + 2 else _] => destruct c eqn:? end; lia.
Qed.

Lemma bump_b_inverse t n : weekday t <= 4 -> bump_b (bump_b t n) (- n) = t.
Proof.
  intros H. pose proof (weekday_range t). unfold bump_b.
  rewrite weekday_shift. rewrite delta_inverse by lia. lia.
Qed.
