(* C16 — proofs about the models in model/M_keys.v *)
From Coq Require Import List Bool Ascii String Arith Lia Sorted Permutation.
From PB Require Import model.M_keys.
Import ListNotations.

(* ================================================================== ulist *)
Section UlistProofs.
  Context {A : Type}.
  Variable eqb : A -> A -> bool.
  Hypothesis eqb_refl : forall x, eqb x x = true.
  Hypothesis eqb_sym : forall x y, eqb x y = eqb y x.
  Hypothesis eqb_trans : forall x y z, eqb x y = true -> eqb y z = true -> eqb x z = true.

  Notation mem := (mem eqb).
  Notation dedup := (dedup eqb).
  Notation index := (index eqb).
  Notation NoDupE := (NoDupE eqb).

  Lemma eqb_compat_l x y z : eqb x y = true -> eqb x z = eqb y z.
  Proof.
    intros H. destruct (eqb y z) eqn:E.
    - eapply eqb_trans; eauto.
    - destruct (eqb x z) eqn:E2; auto. rewrite <- E. symmetry. eapply eqb_trans; [rewrite eqb_sym; exact H|exact E2].
  Qed.
  Lemma mem_compat x y l : eqb x y = true -> mem x l = mem y l.
  Proof. intros H. induction l; simpl; auto. rewrite IHl, (eqb_compat_l x y a H). reflexivity. Qed.
  Lemma mem_app x l1 l2 : mem x (l1 ++ l2) = mem x l1 || mem x l2.
  Proof. apply existsb_app. Qed.
  Lemma mem_In x l : In x l -> mem x l = true.
  Proof. intros H. apply existsb_exists. exists x. auto. Qed.
  Lemma mem_false x l : mem x l = false -> forall y, In y l -> eqb x y = false.
  Proof.
    intros H y Hy. destruct (eqb x y) eqn:E; auto.
    assert (mem x l = true) by (apply existsb_exists; eauto). congruence.
  Qed.
  Lemma mem_filter_le x p l : mem x (filter p l) = true -> mem x l = true.
  Proof.
    intros H. apply existsb_exists in H. destruct H as [y [Hy E]]. apply filter_In in Hy.
    apply existsb_exists. exists y. tauto.
  Qed.
  Lemma mem_filter x (p : A -> bool) l :
    (forall a b, eqb a b = true -> p a = p b) -> mem x (filter p l) = mem x l && p x.
  Proof.
    intros Hp. induction l as [|a l IH]; simpl; auto.
    destruct (p a) eqn:Pa; simpl; rewrite IH.
    - destruct (eqb x a) eqn:E; simpl; auto. rewrite (Hp x a E), Pa. reflexivity.
    - destruct (eqb x a) eqn:E; simpl; auto. rewrite (Hp x a E), Pa. rewrite andb_false_r. reflexivity.
  Qed.
  Lemma neq_compat a : forall x y, eqb x y = true -> negb (eqb a x) = negb (eqb a y).
  Proof. intros x y H. f_equal. rewrite (eqb_sym a x), (eqb_sym a y). apply eqb_compat_l; auto. Qed.
  Lemma notmem_compat l : forall x y, eqb x y = true -> negb (mem x l) = negb (mem y l).
  Proof. intros. f_equal. apply mem_compat; auto. Qed.
  Lemma memin_compat l : forall x y, eqb x y = true -> mem x l = mem y l.
  Proof. intros. apply mem_compat; auto. Qed.

  Lemma mem_dedup x l : mem x (dedup l) = mem x l.
  Proof.
    induction l as [|a l IH]; simpl; auto.
    rewrite mem_filter by (apply neq_compat). rewrite IH, (eqb_sym a x).
    destruct (eqb x a); simpl; auto. apply andb_true_r.
  Qed.

  Lemma NoDupE_filter p l : NoDupE l -> NoDupE (filter p l).
  Proof.
    induction 1; simpl; [constructor|]. destruct (p x); auto. constructor; auto.
    destruct (M_keys.mem eqb x (filter p l)) eqn:E; auto. apply mem_filter_le in E. congruence.
  Qed.
  Lemma NoDupE_dedup l : NoDupE (dedup l).
  Proof.
    induction l as [|a l IH]; simpl; constructor.
    - rewrite mem_filter by (apply neq_compat). rewrite eqb_refl. apply andb_false_r.
    - apply NoDupE_filter; auto.
  Qed.
  Lemma filter_all (p : A -> bool) l : (forall y, In y l -> p y = true) -> filter p l = l.
  Proof. induction l; simpl; intros H; auto. rewrite H by auto. f_equal. apply IHl. auto. Qed.
  Lemma filter_none (p : A -> bool) l : (forall y, In y l -> p y = false) -> filter p l = [].
  Proof. induction l; simpl; intros H; auto. rewrite H by auto. apply IHl. auto. Qed.
  Lemma dedup_id l : NoDupE l -> dedup l = l.
  Proof.
    induction 1; simpl; auto. rewrite IHNoDupE. f_equal. apply filter_all.
    intros y Hy. rewrite (mem_false _ _ H y Hy). reflexivity.
  Qed.
  Lemma filter_filter (p q : A -> bool) l : filter p (filter q l) = filter (fun x => q x && p x) l.
  Proof. induction l; simpl; auto. destruct (q a); simpl; auto. destruct (p a); simpl; congruence. Qed.

  Lemma dedup_app l1 l2 : dedup (l1 ++ l2) = dedup l1 ++ filter (fun y => negb (mem y l1)) (dedup l2).
  Proof.
    induction l1 as [|a l1 IH]; simpl.
    - symmetry. apply filter_all. auto.
    - f_equal. rewrite IH, filter_app, filter_filter. f_equal. apply filter_ext.
      intros y. rewrite (eqb_sym y a). destruct (eqb a y), (M_keys.mem eqb y l1); reflexivity.
  Qed.

  (* ---- first-occurrence order: the first indices are strictly increasing, and every kept
          element is literally the element at its first index *)
  Lemma SS_map_filter {B} (R : B -> B -> Prop) (f : A -> B) p l :
    StronglySorted R (map f l) -> StronglySorted R (map f (filter p l)).
  Proof.
    induction l as [|a l IH]; simpl; intros H; auto.
    apply StronglySorted_inv in H. destruct H as [H1 H2].
    destruct (p a); simpl; auto. constructor; auto.
    rewrite Forall_forall in *. intros b Hb. apply H2. apply in_map_iff in Hb. destruct Hb as [x [E Hx]].
    apply in_map_iff. exists x. split; auto. apply filter_In in Hx. tauto.
  Qed.
  Lemma SS_map_S l : StronglySorted lt l -> StronglySorted lt (map S l).
  Proof.
    induction 1; simpl; constructor; auto. rewrite Forall_forall in *. intros b Hb.
    apply in_map_iff in Hb. destruct Hb as [x [E Hx]]. subst. apply H0 in Hx. lia.
  Qed.
  Lemma index_first_sorted l : StronglySorted lt (map (fun x => index x l) (dedup l)).
  Proof.
    induction l as [|a l IH]; simpl; [constructor|].
    rewrite eqb_refl.
    assert (E : map (fun x => if eqb x a then 0 else S (index x l)) (filter (fun y => negb (eqb a y)) (dedup l))
                = map S (map (fun x => index x l) (filter (fun y => negb (eqb a y)) (dedup l)))).
    { rewrite map_map. apply map_ext_in. intros x Hx. apply filter_In in Hx. destruct Hx as [_ Hx].
      rewrite (eqb_sym x a). destruct (eqb a x); simpl in *; congruence. }
    rewrite E. constructor.
    - apply SS_map_S. apply SS_map_filter. exact IH.
    - rewrite Forall_forall. intros b Hb. apply in_map_iff in Hb. destruct Hb as [x [Hx _]]. lia.
  Qed.
  Lemma index_first_repr l x : In x (dedup l) -> nth_error l (index x l) = Some x.
  Proof.
    induction l as [|a l IH]; simpl; [tauto|]. intros [H|H].
    - subst. rewrite eqb_refl. reflexivity.
    - apply filter_In in H. destruct H as [H1 H2]. rewrite (eqb_sym x a).
      destruct (eqb a x); simpl in *; [congruence|]. auto.
  Qed.

  (* ---- the constructor's set / index / sorted pipeline computes dedup, whatever the set order *)
  Definition kle (p q : nat * A) := fst p <= fst q.
  Definition klt (p q : nat * A) := fst p < fst q.
  Lemma insert_perm (p : nat * A) l : Permutation (insert p l) (p :: l).
  Proof.
    induction l as [|q l IH]; simpl; auto. destruct (fst p <=? fst q); auto.
    eapply perm_trans; [apply perm_skip; exact IH|apply perm_swap].
  Qed.
  Lemma isort_perm (l : list (nat * A)) : Permutation (isort l) l.
  Proof. induction l; simpl; auto. eapply perm_trans; [apply insert_perm|auto]. Qed.
  Lemma insert_sorted (p : nat * A) l : StronglySorted kle l -> StronglySorted kle (insert p l).
  Proof.
    induction 1 as [|q l Hs IH Hf]; simpl.
    - constructor; constructor.
    - destruct (fst p <=? fst q) eqn:E.
      + apply Nat.leb_le in E. constructor; [constructor; auto|]. constructor; auto.
        rewrite Forall_forall in *. intros x Hx. apply Hf in Hx. unfold kle in *. lia.
      + apply Nat.leb_gt in E. constructor; auto. rewrite Forall_forall in *. intros x Hx.
        apply (Permutation_in _ (insert_perm p l)) in Hx. destruct Hx as [Hx|Hx]; [subst; unfold kle; lia|auto].
  Qed.
  Lemma isort_sorted (l : list (nat * A)) : StronglySorted kle (isort l).
  Proof. induction l; simpl; [constructor|apply insert_sorted; auto]. Qed.
  Lemma sorted_unique l1 : forall l2, StronglySorted kle l1 -> StronglySorted klt l2 -> Permutation l1 l2 -> l1 = l2.
  Proof.
    induction l1 as [|p1 t1 IH]; intros l2 H1 H2 HP.
    - apply Permutation_nil in HP. auto.
    - destruct l2 as [|p2 t2]; [apply Permutation_sym, Permutation_nil in HP; discriminate|].
      apply StronglySorted_inv in H1. destruct H1 as [H1 F1].
      apply StronglySorted_inv in H2. destruct H2 as [H2 F2].
      rewrite Forall_forall in F1, F2.
      assert (I1 : In p1 (p2 :: t2)) by (eapply Permutation_in; [exact HP|left; auto]).
      assert (I2 : In p2 (p1 :: t1)) by (eapply Permutation_in; [apply Permutation_sym; exact HP|left; auto]).
      assert (E : p1 = p2).
      { destruct I1 as [I1|I1]; auto. destruct I2 as [I2|I2]; auto.
        apply F2 in I1. apply F1 in I2. unfold kle, klt in *. lia. }
      subst. f_equal. apply IH; auto. eapply Permutation_cons_inv; eauto.
  Qed.
  Lemma SS_tag (f : A -> nat) l : StronglySorted lt (map f l) -> StronglySorted klt (map (fun u => (f u, u)) l).
  Proof.
    induction l as [|a l IH]; simpl; intros H; [constructor|].
    apply StronglySorted_inv in H. destruct H as [H1 H2]. constructor; auto.
    rewrite Forall_forall in *. intros x Hx. apply in_map_iff in Hx. destruct Hx as [u [E Hu]]. subst.
    unfold klt. simpl. apply H2. apply in_map. auto.
  Qed.

  Theorem ulist_init_any_set_order s orig :
    Permutation s (dedup orig) -> ulist_init_with eqb s orig = dedup orig.
  Proof.
    intros HP. unfold ulist_init_with.
    rewrite (sorted_unique (isort (map (fun u => (index u orig, u)) s)) (map (fun u => (index u orig, u)) (dedup orig))).
    - rewrite map_map. simpl. apply map_id.
    - apply isort_sorted.
    - apply SS_tag. apply index_first_sorted.
    - eapply perm_trans; [apply isort_perm|]. apply Permutation_map. exact HP.
  Qed.
  Lemma mk_dedup l : mk eqb l = dedup l.
  Proof. apply ulist_init_any_set_order. unfold pyset. apply Permutation_sym, Permutation_rev. Qed.

  Theorem ulist_nodup_first_order l :
    NoDupE (mk eqb l) /\ (forall x, mem x (mk eqb l) = mem x l) /\
    StronglySorted lt (map (fun x => index x l) (mk eqb l)) /\
    (forall x, In x (mk eqb l) -> nth_error l (index x l) = Some x).
  Proof.
    rewrite mk_dedup. repeat split.
    - apply NoDupE_dedup.
    - intros; apply mem_dedup.
    - apply index_first_sorted.
    - apply index_first_repr.
  Qed.

  (* ---- operators *)
  Lemma dedup_single e : dedup [e] = [e].
  Proof. reflexivity. Qed.
  Theorem ul_add_union u o : NoDupE u -> ul_add eqb u o = ounion eqb u (other_list o).
  Proof.
    intros H. destruct o as [e|x]; unfold ul_add, ounion, other_list.
    - destruct (M_keys.mem eqb e u) eqn:E.
      + simpl. rewrite E. simpl. symmetry. apply app_nil_r.
      + rewrite mk_dedup, dedup_app, (dedup_id u H). reflexivity.
    - rewrite mk_dedup, dedup_app, (dedup_id u H). reflexivity.
  Qed.
  Theorem ul_sub_diff u o : NoDupE u -> ul_sub eqb u o = odiff eqb u (other_list o).
  Proof.
    intros H. destruct o as [e|x]; unfold ul_sub, odiff, other_list.
    - destruct (M_keys.mem eqb e u) eqn:E; simpl negb; cbv iota.
      + rewrite mk_dedup. apply dedup_id. apply NoDupE_filter; auto.
      + symmetry. apply filter_all. intros y Hy. simpl. rewrite (eqb_sym y e), (mem_false _ _ E y Hy). reflexivity.
    - rewrite mk_dedup. apply dedup_id. apply NoDupE_filter; auto.
  Qed.
  Lemma inter_single u e : NoDupE u -> M_keys.mem eqb e u = true ->
    exists y, filter (fun y => M_keys.mem eqb y [e]) u = [y] /\ eqb e y = true.
  Proof.
    induction 1 as [|a u Ha Hu IH]; simpl; [discriminate|]. intros Hm.
    destruct (eqb e a) eqn:E.
    - exists a. rewrite (eqb_sym a e), E. simpl. split; auto. f_equal. apply filter_none.
      intros y Hy. simpl. rewrite orb_false_r. rewrite (eqb_sym y e), <- (eqb_compat_l a e y); [|rewrite eqb_sym; auto].
      apply (mem_false _ _ Ha y Hy).
    - simpl in Hm. rewrite (eqb_sym a e), E. simpl. apply IH. exact Hm.
  Qed.
  Theorem ul_and_inter u o : NoDupE u ->
    Forall2 (fun a b => eqb a b = true) (ul_and eqb u o) (ointer eqb u (other_list o)) /\
    (forall x, o = OList x -> ul_and eqb u o = ointer eqb u x).
  Proof.
    intros H. split.
    - destruct o as [e|x]; unfold ul_and, ointer, other_list.
      + destruct (M_keys.mem eqb e u) eqn:E.
        * destruct (inter_single u e H E) as [y [Hy1 Hy2]]. rewrite Hy1. constructor; auto.
        * rewrite mk_dedup. simpl. rewrite filter_none; [constructor|].
          intros y Hy. simpl. rewrite (eqb_sym y e), (mem_false _ _ E y Hy). reflexivity.
      + rewrite mk_dedup, dedup_id by (apply NoDupE_filter; auto).
        induction (filter (fun e => M_keys.mem eqb e x) u); constructor; auto.
    - intros x ->. unfold ul_and, ointer. rewrite mk_dedup. apply dedup_id. apply NoDupE_filter; auto.
  Qed.
  Theorem ul_results_are_ulists u o : NoDupE u ->
    NoDupE (ul_add eqb u o) /\ NoDupE (ul_sub eqb u o) /\ NoDupE (ul_and eqb u o).
  Proof.
    intros H. repeat split.
    - destruct o; unfold ul_add; [destruct (M_keys.mem eqb x u); auto|]; rewrite mk_dedup; apply NoDupE_dedup.
    - destruct o; unfold ul_sub; [destruct (negb (M_keys.mem eqb x u)); auto|]; rewrite mk_dedup; apply NoDupE_dedup.
    - destruct o; unfold ul_and; [destruct (M_keys.mem eqb x u)|]; try (rewrite mk_dedup; apply NoDupE_dedup).
      constructor; [reflexivity|constructor].
  Qed.
End UlistProofs.

(* ================================================================== strings as ulist elements *)
Lemma seqb_trans x y z : String.eqb x y = true -> String.eqb y z = true -> String.eqb x z = true.
Proof. intros H1 H2. apply String.eqb_eq in H1, H2. subst. apply String.eqb_refl. Qed.
Ltac seq a b := destruct (String.eqb_spec a b); subst; simpl; try congruence; auto.
Ltac seqs := repeat (match goal with |- context [String.eqb ?a ?b] => destruct (String.eqb_spec a b); subst; simpl end);
             try congruence; try tauto; auto.
#[export] Hint Resolve String.eqb_refl String.eqb_sym seqb_trans : seqdb.

Lemma NoDup_snoc {X} (l : list X) k : NoDup l -> ~ In k l -> NoDup (l ++ [k]).
Proof.
  induction 1; simpl; intros Hk.
  - constructor; [tauto|constructor].
  - constructor; [|apply IHNoDup; tauto]. intros Hin. apply in_app_or in Hin. simpl in *. intuition congruence.
Qed.
Lemma NoDupE_of_NoDup l : NoDup l -> NoDupE String.eqb l.
Proof.
  induction 1; constructor; auto. destruct (mem String.eqb x l) eqn:E; auto.
  apply existsb_exists in E. destruct E as [y [Hy E]]. apply String.eqb_eq in E. subst. contradiction.
Qed.
Lemma smem_In x l : mem String.eqb x l = true <-> In x l.
Proof.
  split; intros H.
  - apply existsb_exists in H. destruct H as [y [Hy E]]. apply String.eqb_eq in E. subst. auto.
  - apply existsb_exists. exists x. split; auto. apply String.eqb_refl.
Qed.
Lemma sdedup_app l1 l2 : dedup String.eqb (l1 ++ l2) = dedup String.eqb l1 ++ filter (fun y => negb (mem String.eqb y l1)) (dedup String.eqb l2).
Proof. apply dedup_app; auto with seqdb. Qed.
Lemma sdedup_id l : NoDup l -> dedup String.eqb l = l.
Proof. intros. apply dedup_id; auto with seqdb. apply NoDupE_of_NoDup; auto. Qed.
Lemma sdedup_absorb X k L : In k X -> dedup String.eqb (X ++ k :: L) = dedup String.eqb (X ++ L).
Proof.
  intros H. rewrite !sdedup_app. f_equal. simpl.
  apply smem_In in H. rewrite H. simpl. rewrite filter_filter. apply filter_ext. intros y.
  destruct (String.eqb_spec k y); subst; simpl; auto. rewrite H. reflexivity.
Qed.

(* ================================================================== ordered mappings *)
Section AMapProofs.
  Context {V : Type}.
  Implicit Types (m d o acc : amap V) (k : string).

  Lemma aget_aset k k' v m : aget k (aset k' v m) = if String.eqb k k' then Some v else aget k m.
  Proof.
    induction m as [|[k2 v2] m IH]; simpl; [reflexivity|].
    destruct (String.eqb_spec k' k2); subst; simpl; rewrite ?IH; seqs.
  Qed.
  Lemma aget_app k m1 m2 : aget k (m1 ++ m2) = match aget k m1 with Some v => Some v | None => aget k m2 end.
  Proof. induction m1 as [|[k2 v2] m1 IH]; simpl; auto. seqs. Qed.
  Lemma aget_In k v m : aget k m = Some v -> In (k, v) m.
  Proof. induction m as [|[k2 v2] m IH]; simpl; [discriminate|]. destruct (String.eqb_spec k k2); subst; auto. intros H. left. congruence. Qed.
  Lemma aget_None k m : aget k m = None <-> ~ In k (akeys m).
  Proof.
    induction m as [|[k2 v2] m IH]; simpl; [tauto|]. destruct (String.eqb_spec k k2); subst.
    - split; [discriminate|tauto].
    - rewrite IH. split; [intros H [E|E]; [congruence|tauto]|tauto].
  Qed.
  Lemma In_aget k v m : NoDup (akeys m) -> In (k, v) m -> aget k m = Some v.
  Proof.
    induction m as [|[k2 v2] m IH]; simpl; [tauto|]. intros HN [H|H].
    - inversion H; subst. rewrite String.eqb_refl. reflexivity.
    - inversion HN; subst. destruct (String.eqb_spec k k2); subst.
      + exfalso. apply H2. change k2 with (fst (k2, v)). apply in_map. auto.
      + apply IH; auto.
  Qed.
  Lemma akeys_aset k v m : akeys (aset k v m) = match aget k m with Some _ => akeys m | None => akeys m ++ [k] end.
  Proof.
    induction m as [|[k2 v2] m IH]; simpl; auto. destruct (String.eqb_spec k k2); subst; simpl; auto.
    rewrite IH. destruct (aget k m); reflexivity.
  Qed.
  Lemma aset_fresh k v m : aget k m = None -> aset k v m = m ++ [(k, v)].
  Proof. induction m as [|[k2 v2] m IH]; simpl; auto. destruct (String.eqb_spec k k2); subst; [discriminate|]. intros H. rewrite IH; auto. Qed.
  Lemma akeys_adel k m : akeys (adel k m) = filter (fun y => negb (String.eqb k y)) (akeys m).
  Proof. induction m as [|[k2 v2] m IH]; simpl; auto. destruct (String.eqb k k2); simpl; congruence. Qed.
  Lemma aget_adel k k' m : aget k (adel k' m) = if String.eqb k' k then None else aget k m.
  Proof.
    induction m as [|[k2 v2] m IH]; simpl.
    - destruct (String.eqb k' k); reflexivity.
    - destruct (String.eqb_spec k' k2); subst; simpl; rewrite IH; seqs.
  Qed.
  Lemma aupdate_snoc acc l k v : aupdate acc (l ++ [(k, v)]) = aset k v (aupdate acc l).
  Proof. unfold aupdate. rewrite fold_left_app. reflexivity. Qed.
  Lemma aget_aupdate_notin k l : forall acc, ~ In k (map fst l) -> aget k (aupdate acc l) = aget k acc.
  Proof.
    induction l as [|[k2 v2] l IH]; simpl; intros acc H; auto.
    unfold aupdate in *. simpl. rewrite IH by tauto. rewrite aget_aset. destruct (String.eqb_spec k k2); subst; tauto.
  Qed.
  Lemma aget_aupdate_In k v l : forall acc, In (k, v) l -> (forall v', In (k, v') l -> v' = v) ->
    aget k (aupdate acc l) = Some v.
  Proof.
    induction l as [|[k2 v2] l IH] using rev_ind; intros acc H U; [contradiction|].
    rewrite aupdate_snoc, aget_aset. destruct (String.eqb_spec k k2); subst.
    - f_equal. apply U. apply in_or_app. right. left. reflexivity.
    - apply in_app_or in H. destruct H as [H|[H|[]]]; [|congruence].
      apply IH; auto. intros v' Hv'. apply U. apply in_or_app. auto.
  Qed.
  (* {**d, **o} looked up: o wins *)
  Lemma aget_merged k d o : NoDup (akeys o) ->
    aget k (merged d o) = match aget k o with Some v => Some v | None => aget k d end.
  Proof.
    intros HN. unfold merged. destruct (aget k o) eqn:E.
    - apply aget_aupdate_In; [apply aget_In; auto|]. intros v' Hv'. apply (In_aget _ _ _ HN) in Hv'. congruence.
    - apply aget_aupdate_notin. apply aget_None. auto.
  Qed.
  Lemma NoDup_akeys_aset k v m : NoDup (akeys m) -> NoDup (akeys (aset k v m)).
  Proof.
    intros H. rewrite akeys_aset. destruct (aget k m) eqn:E; auto.
    apply aget_None in E. apply NoDup_snoc; auto.
  Qed.
  Lemma akeys_aupdate l : forall acc, NoDup (akeys acc) ->
    akeys (aupdate acc l) = dedup String.eqb (akeys acc ++ map fst l) /\ NoDup (akeys (aupdate acc l)).
  Proof.
    induction l as [|[k v] l IH]; intros acc HN.
    - simpl. rewrite app_nil_r, sdedup_id; auto.
    - unfold aupdate in *. simpl. destruct (IH (aset k v acc) (NoDup_akeys_aset k v acc HN)) as [E1 E2].
      split; auto. rewrite E1, akeys_aset. destruct (aget k acc) eqn:E.
      + symmetry. apply sdedup_absorb. apply aget_In in E. change k with (fst (k, v0)). apply in_map. auto.
      + rewrite <- app_assoc. reflexivity.
  Qed.
  (* keys of {**d, **o}: d's keys in order, then the new keys of o in order *)
  Lemma akeys_merged d o : NoDup (akeys d) -> NoDup (akeys o) ->
    akeys (merged d o) = ounion String.eqb (akeys d) (akeys o).
  Proof.
    intros Hd Ho. unfold merged. rewrite (proj1 (akeys_aupdate o d Hd)).
    rewrite sdedup_app, sdedup_id by auto. reflexivity.
  Qed.
  Lemma aupdate_fresh l : forall acc, NoDup (map fst l) -> (forall k, In k (map fst l) -> aget k acc = None) ->
    aupdate acc l = acc ++ l.
  Proof.
    induction l as [|[k v] l IH]; intros acc HN HF.
    - simpl. symmetry. apply app_nil_r.
    - unfold aupdate in *. simpl. inversion HN; subst. rewrite aset_fresh by (apply HF; left; auto).
      rewrite IH; auto.
      + rewrite <- app_assoc. reflexivity.
      + intros k' Hk'. rewrite aget_app, HF by (right; auto). simpl. destruct (String.eqb_spec k' k); subst; auto. contradiction.
  Qed.
  Lemma of_items_nodup (l : list (string * V)) : NoDup (map fst l) -> of_items l = l.
  Proof. intros H. unfold of_items. rewrite aupdate_fresh; auto. Qed.
  Lemma NoDup_map_filter (p : string * V -> bool) (l : list (string * V)) : NoDup (map fst l) -> NoDup (map fst (filter p l)).
  Proof.
    induction l as [|a l IH]; simpl; intros H; auto. inversion H; subst. destruct (p a); simpl; auto.
    constructor; auto. intros Hin. apply H2. apply in_map_iff in Hin. destruct Hin as [x [E Hx]].
    apply filter_In in Hx. rewrite <- E. apply in_map. tauto.
  Qed.
  Lemma akeys_filter (p : string -> bool) m : akeys (filter (fun kv => p (fst kv)) m) = filter p (akeys m).
  Proof. induction m as [|[k v] m IH]; simpl; auto. destruct (p k); simpl; congruence. Qed.
  Lemma aget_filter (p : string -> bool) k m : aget k (filter (fun kv => p (fst kv)) m) = if p k then aget k m else None.
  Proof.
    induction m as [|[k2 v2] m IH]; simpl; [destruct (p k); auto|].
    destruct (p k2) eqn:P; simpl; rewrite IH; destruct (String.eqb_spec k k2); subst; simpl; auto; rewrite P; reflexivity.
  Qed.

  (* ---- d - keys *)
  Theorem d_sub_spec c d ks :
    exists m, d_sub c d ks = DObj c m /\ akeys m = odiff String.eqb (akeys d) ks /\
      (forall k, aget k m = if mem String.eqb k ks then None else aget k d).
  Proof.
    exists (fold_left (fun m k => adel k m) ks d). split; [reflexivity|]. revert d.
    induction ks as [|a ks IH]; intros d; simpl.
    - unfold odiff. simpl. split; auto. symmetry. apply filter_all. auto.
    - destruct (IH (adel a d)) as [E1 E2]. split.
      + rewrite E1, akeys_adel. unfold odiff. rewrite filter_filter. apply filter_ext. intros y. simpl.
        destruct (String.eqb_spec a y); destruct (String.eqb_spec y a); subst; simpl; congruence.
      + intros k. rewrite E2, aget_adel. destruct (String.eqb_spec a k); destruct (String.eqb_spec k a); subst; simpl; try congruence.
        destruct (mem String.eqb k ks); auto.
  Qed.
  (* (d - k).keys() == d.keys() - k, for a key or a list of keys *)
  Theorem keys_sub_commutes c d ks (sel : other string) : NoDup (akeys d) ->
    (sel = OList ks \/ (exists k, sel = OElem k /\ ks = [k])) ->
    exists m, d_sub c d ks = DObj c m /\ akeys m = ul_sub String.eqb (akeys d) sel.
  Proof.
    intros HN Ho. destruct (d_sub_spec c d ks) as [m [E1 [E2 _]]]. exists m. split; auto.
    rewrite E2. symmetry.
    assert (H : ul_sub String.eqb (akeys d) sel = odiff String.eqb (akeys d) (other_list sel))
      by (apply ul_sub_diff; auto with seqdb; apply NoDupE_of_NoDup; auto).
    rewrite H. destruct Ho as [->|[k [-> ->]]]; reflexivity.
  Qed.

  (* ---- d & keys *)
  Lemma ahas_self kv m : In kv m -> ahas (fst kv) m = true.
  Proof. intros H. apply existsb_exists. exists kv. split; auto. apply String.eqb_refl. Qed.
  Theorem d_and_spec c d ks : NoDup (akeys d) ->
    exists m, d_and c d ks = DObj c m /\ akeys m = ointer String.eqb (akeys d) ks /\
      (forall k, aget k m = if mem String.eqb k ks then aget k d else None).
  Proof.
    intros HN. exists (filter (fun kv => mem String.eqb (fst kv) ks) d). split; [|split].
    - unfold d_and. f_equal.
      rewrite (filter_ext_in _ (fun kv => mem String.eqb (fst kv) ks)).
      + apply of_items_nodup. apply NoDup_map_filter. exact HN.
      + intros kv Hkv. rewrite (ahas_self kv d Hkv). reflexivity.
    - apply (akeys_filter (fun k => mem String.eqb k ks)).
    - intros k. apply (aget_filter (fun k => mem String.eqb k ks)).
  Qed.

  (* ---- d[[k1, ...]] and d[k1, ...] *)
  Lemma getmany_spec d ks : (forall k, In k ks -> aget k d <> None) ->
    exists r, getmany d ks = Some r /\ map fst r = ks /\ Forall2 (fun k v => aget k d = Some v) ks (map snd r).
  Proof.
    induction ks as [|k ks IH]; intros H; simpl.
    - exists []. repeat split; constructor.
    - destruct (aget k d) eqn:E; [|exfalso; apply (H k); [left; reflexivity|exact E]].
      assert (H' : forall k, In k ks -> aget k d <> None) by (intros; apply H; right; auto).
      destruct (IH H') as [r [E1 [E2 E3]]].
      rewrite E1. exists ((k, v) :: r). simpl. split; [reflexivity|]. split; [congruence|]. constructor; auto.
  Qed.
  Lemma getmany_absent d ks k : In k ks -> aget k d = None -> getmany d ks = None.
  Proof.
    induction ks as [|a ks IH]; simpl; [tauto|]. intros [<-|H] E.
    - rewrite E. reflexivity.
    - destruct (aget a d); [rewrite IH; auto|reflexivity].
  Qed.
  Theorem d_getitem_absent c d ks k : In k ks -> aget k d = None ->
    d_getlist c d ks = DErr "KeyError"%string /\ d_gettuple d ks = DErr "KeyError"%string.
  Proof. intros H E. unfold d_getlist, d_gettuple. rewrite (getmany_absent d ks k H E). auto. Qed.
  Theorem d_gettuple_spec d ks : (forall k, In k ks -> aget k d <> None) ->
    exists vs, d_gettuple d ks = DVals vs /\ Forall2 (fun k v => aget k d = Some v) ks vs.
  Proof.
    intros H. destruct (getmany_spec d ks H) as [r [E1 [E2 E3]]]. exists (map snd r).
    unfold d_gettuple. rewrite E1. auto.
  Qed.
  Theorem d_getlist_spec c d ks : (forall k, In k ks -> aget k d <> None) ->
    exists m, d_getlist c d ks = DObj c m /\ akeys m = dedup String.eqb ks /\
      (forall k, In k ks -> aget k m = aget k d).
  Proof.
    intros H. destruct (getmany_spec d ks H) as [r [E1 [E2 E3]]]. exists (of_items r).
    unfold d_getlist. rewrite E1. split; [reflexivity|]. split.
    - unfold of_items. rewrite (proj1 (akeys_aupdate r [] (NoDup_nil _))). simpl. congruence.
    - intros k Hk. assert (Hr : forall k v, In (k, v) r -> aget k d = Some v).
      { clear - E2 E3. revert ks E2 E3. induction r as [|[k1 v1] r IH]; intros ks E2 E3 k v; [intros []|].
        simpl in *. subst ks. inversion E3; subst. intros [Hin|Hin]; [congruence|]. eapply IH; eauto. }
      destruct (aget k d) eqn:E; [|exfalso; apply (H k Hk); exact E].
      rewrite <- E2 in Hk. apply in_map_iff in Hk. destruct Hk as [[k' v'] [Ek Hin]]. simpl in Ek. subst k'.
      unfold of_items. rewrite (aget_aupdate_In k v' r [] Hin).
      + rewrite <- E. symmetry. apply Hr. auto.
      + intros v2 Hv2. apply Hr in Hv2. apply Hr in Hin. congruence.
  Qed.

  (* ---- d + other, d | other *)
  Theorem d_add_is_update c d oc o : (is_Dict c = false \/ is_tree_type oc = true) ->
    d_add c d oc o = DObj c (merged d o) /\ d_or c d o = DObj c (merged d o).
  Proof.
    intros H. unfold d_add, d_or, merged. split; auto.
    destruct H as [H|H]; rewrite H; simpl; auto. rewrite andb_false_r. reflexivity.
  Qed.

  (* ---- relabel *)
  Theorem d_relabel_spec c d a kw :
    let r := relabel_map (akeys d) a kw in
    let rename := fun k => match aget k r with Some n => n | None => k end in
    exists m, d_relabel c d a kw = DObj c m /\ akeys m = dedup String.eqb (map rename (akeys d)) /\
      (NoDup (map rename (akeys d)) -> m = map (fun kv => (rename (fst kv), snd kv)) d).
  Proof.
    intros r rename. eexists. split; [reflexivity|]. split.
    - unfold of_items. rewrite (proj1 (akeys_aupdate _ [] (NoDup_nil _))). simpl.
      rewrite map_map. unfold akeys. rewrite map_map. reflexivity.
    - intros HN. apply of_items_nodup. rewrite map_map. simpl. unfold akeys in HN. rewrite map_map in HN. exact HN.
  Qed.

  (* ---- every operator returns the operand's class *)
  Theorem class_preserved c d :
    (forall ks m c', d_sub c d ks = DObj c' m -> c' = c) /\ (forall ks m c', d_and c d ks = DObj c' m -> c' = c) /\
    (forall ks m c', d_getlist c d ks = DObj c' m -> c' = c) /\ (forall oc o m c', d_add c d oc o = DObj c' m -> c' = c) /\
    (forall o m c', d_or c d o = DObj c' m -> c' = c) /\ (forall a kw m c', d_relabel c d a kw = DObj c' m -> c' = c).
  Proof.
    repeat split; intros *; unfold d_sub, d_and, d_getlist, d_add, d_or, d_relabel.
    - congruence.
    - congruence.
    - destruct (getmany d ks); congruence.
    - destruct (is_Dict c && negb (is_tree_type oc)); congruence.
    - congruence.
    - congruence.
  Qed.

  (* ---- heap: operators write only to the fresh copy *)
  Lemma length_hput (h : heap (V := V)) i m : List.length (hput h i m) = List.length h.
  Proof. revert i. induction h; intros [|i]; simpl; auto. Qed.
  Lemma hget_hput_same (h : heap (V := V)) i m : i < List.length h -> hget (hput h i m) i = m.
  Proof. revert i. induction h; intros [|i]; simpl; intros H; try lia; auto. apply IHh. lia. Qed.
  Lemma hget_hput_other (h : heap (V := V)) i j m : i <> j -> hget (hput h i m) j = hget h j.
  Proof.
    revert i j. induction h; intros [|i] [|j]; simpl; intros H; auto; try congruence.
    apply IHh. congruence.
  Qed.
  Lemma fold_inplace {X} (step : amap V -> X -> amap V) (xs : list X) : forall (h1 : heap (V := V)) j, j < List.length h1 ->
    let h' := fold_left (fun h x => hput h j (step (hget h j) x)) xs h1 in
    List.length h' = List.length h1 /\ (forall i, i <> j -> hget h' i = hget h1 i) /\ hget h' j = fold_left step xs (hget h1 j).
  Proof.
    induction xs as [|x xs IH]; intros h1 j Hj; simpl; auto.
    destruct (IH (hput h1 j (step (hget h1 j) x)) j) as [E1 [E2 E3]]; [rewrite length_hput; auto|].
    rewrite length_hput in E1. split; [auto|split].
    - intros i Hi. rewrite E2 by auto. apply hget_hput_other. auto.
    - rewrite E3, hget_hput_same by auto. reflexivity.
  Qed.
  Lemma hget_app1 (h : heap (V := V)) x i : i < List.length h -> hget (h ++ [x]) i = hget h i.
  Proof. intros. unfold hget. apply app_nth1. auto. Qed.
  Lemma hget_app2 (h : heap (V := V)) x : hget (h ++ [x]) (List.length h) = x.
  Proof. unfold hget. rewrite app_nth2, Nat.sub_diag by lia. reflexivity. Qed.

  Theorem h_sub_fresh (h : heap (V := V)) i ks : i < List.length h ->
    let '(h', j) := h_sub h i ks in
    j = List.length h /\ (forall i', i' < List.length h -> hget h' i' = hget h i') /\
    hget h' j = fold_left (fun m k => adel k m) ks (hget h i).
  Proof.
    intros Hi. unfold h_sub, hcopy, h_del.
    destruct (fold_inplace (fun m k => adel k m) ks (h ++ [hget h i]) (List.length h)) as [E1 [E2 E3]];
      [rewrite app_length; simpl; lia|].
    split; [reflexivity|split].
    - intros i' Hi'. rewrite E2 by lia. apply hget_app1. auto.
    - rewrite E3, hget_app2. reflexivity.
  Qed.
  Theorem h_add_fresh (h : heap (V := V)) i io : i < List.length h -> io < List.length h ->
    let '(h', j) := h_add h i io in
    j = List.length h /\ (forall i', i' < List.length h -> hget h' i' = hget h i') /\
    hget h' j = merged (hget h i) (hget h io).
  Proof.
    intros Hi Hio. unfold h_add, hcopy, h_set.
    destruct (fold_inplace (fun m kv => aset (fst kv) (snd kv) m) (hget h io) (h ++ [hget h i]) (List.length h)) as [E1 [E2 E3]];
      [rewrite app_length; simpl; lia|].
    split; [reflexivity|split].
    - intros i' Hi'. rewrite E2 by lia. apply hget_app1. auto.
    - rewrite E3, hget_app2. reflexivity.
  Qed.
End AMapProofs.

(* ================================================================== Dict.__call__ *)
Lemma inl_In k l : inl k l = true <-> In k l.
Proof. apply smem_In. Qed.
Lemma inl_false k l : inl k l = false <-> ~ In k l.
Proof. rewrite <- inl_In. destruct (inl k l); split; congruence. Qed.
Definition pminus (P L : list string) : list string := filter (fun k => negb (inl k L)) P.
Lemma In_pminus k P L : In k (pminus P L) <-> In k P /\ ~ In k L.
Proof. unfold pminus. rewrite filter_In, negb_true_iff, inl_false. tauto. Qed.
Lemma pminus_nil P : pminus P [] = P.
Proof. apply filter_all. auto. Qed.
Lemma pminus_pminus P A B : pminus (pminus P A) B = pminus P (A ++ B).
Proof.
  unfold pminus. rewrite filter_filter. apply filter_ext. intros x. unfold inl. rewrite existsb_app.
  destruct (existsb (String.eqb x) A), (existsb (String.eqb x) B); reflexivity.
Qed.
Lemma pminus_all P L : (forall k, In k P -> In k L) -> pminus P L = [].
Proof. intros H. apply filter_none. intros y Hy. apply H, inl_In in Hy. rewrite Hy. reflexivity. Qed.
Lemma NoDup_map_filter' {B} (p : string * B -> bool) (l : list (string * B)) : NoDup (map fst l) -> NoDup (map fst (filter p l)).
Proof. apply NoDup_map_filter. Qed.
Lemma nodup_keys_inj {B} (l : list (string * B)) a b : NoDup (map fst l) -> In a l -> In b l -> fst a = fst b -> a = b.
Proof.
  induction l as [|x l IH]; simpl; [tauto|]. intros HN Ha Hb E. inversion HN; subst.
  destruct Ha as [Ha|Ha], Hb as [Hb|Hb]; subst; auto.
  - exfalso. apply H1. rewrite E. apply in_map. auto.
  - exfalso. apply H1. rewrite <- E. apply in_map. auto.
Qed.
Lemma exists_min {X} (f : X -> nat) l : l <> [] -> exists x, In x l /\ forall y, In y l -> f x <= f y.
Proof.
  induction l as [|a l IH]; [congruence|]. intros _. destruct l as [|b l].
  - exists a. simpl. split; auto. intros y [<-|[]]. lia.
  - destruct IH as [x [Hx Hm]]; [congruence|]. destruct (le_lt_dec (f a) (f x)).
    + exists a. split; [left; auto|]. intros y [<-|Hy]; [lia|]. specialize (Hm y Hy). lia.
    + exists x. split; [right; auto|]. intros y [<-|Hy]; [lia|]. auto.
Qed.
Lemma filter_len_le {X} (p : X -> bool) l : List.length (filter p l) <= List.length l.
Proof. induction l as [|a l IH]; simpl; auto. destruct (p a); simpl; lia. Qed.
Lemma filter_length_lt {X} (p : X -> bool) l x : In x l -> p x = false -> List.length (filter p l) < List.length l.
Proof.
  induction l as [|a l IH]; simpl; [tauto|]. intros [<-|H] Hp.
  - rewrite Hp. pose proof (filter_len_le p l). lia.
  - specialize (IH H Hp). destruct (p a); simpl; lia.
Qed.
Lemma two_distinct {X} (l : list X) a b : In a l -> In b l -> a <> b -> 2 <= List.length l.
Proof. destruct l as [|x [|y l]]; simpl; intros; try tauto; try lia. intuition congruence. Qed.

Section CallProofs.
  Context {V : Type}.
  Variable inj : string -> V.
  Notation fdef := (@fdef V).
  Definition params (kc : fdef) : list (string * option V) := fst (snd kc).
  (* getargs: the names of ALL parameters, defaulted or not *)
  Definition deps (kc : fdef) : list string := map fst (params kc).
  Definition fn (kc : fdef) : list V -> V := snd (snd kc).

  (* every parameter of every callable can be bound: from the mapping, from another callable, the implicit key, or its own default *)
  Definition avail (res0 : amap V) (cs : list fdef) : Prop :=
    forall kc p, In kc cs -> In p (params kc) ->
      aget (fst p) res0 <> None \/ In (fst p) (skeys cs) \/ fst p = "key"%string \/ snd p <> None.
  Definition acyclic (cs : list fdef) : Prop :=
    exists rank : string -> nat, forall kc d, In kc cs -> In d (deps kc) -> In d (skeys cs) -> rank d < rank (fst kc).
  (* R is a dependency-order evaluation: untouched outside the callables, and every derived key holds
     its function applied to the (final) values of its parameters *)
  Definition solves (res0 : amap V) (cs : list fdef) (R : amap V) : Prop :=
    (forall k, ~ In k (skeys cs) -> aget k R = aget k res0) /\
    (forall kc, In kc cs -> exists vs, args inj R (fst kc) (params kc) = Some vs /\ aget (fst kc) R = Some (fn kc vs)).

  (* no entry and no derived key is literally named self (it would collide with the methods' own self parameter) *)
  Definition no_self (res0 : amap V) (cs : list fdef) : Prop := aget "self"%string res0 = None /\ ~ In "self"%string (skeys cs).

  Lemma arg_ext R1 R2 k (p : string * option V) : aget (fst p) R1 = aget (fst p) R2 -> arg inj R1 k p = arg inj R2 k p.
  Proof. unfold arg. intros ->. reflexivity. Qed.
  Lemma args_ext R1 R2 k (ds : list (string * option V)) : (forall d, In d ds -> arg inj R1 k d = arg inj R2 k d) -> args inj R1 k ds = args inj R2 k ds.
  Proof.
    induction ds as [|d ds IH]; simpl; intros H; auto. rewrite (H d) by auto. rewrite IH; auto.
  Qed.
  Lemma args_some res k (ds : list (string * option V)) : (forall d, In d ds -> arg inj res k d <> None) -> exists vs, args inj res k ds = Some vs.
  Proof.
    induction ds as [|d ds IH]; simpl; intros H; [eauto|].
    destruct (arg inj res k d) eqn:E; [|exfalso; apply (H d); auto].
    destruct IH as [vs Hvs]; [intros; apply H; auto|]. rewrite Hvs. eauto.
  Qed.

  Theorem solves_unique res0 cs R1 R2 :
    acyclic cs -> solves res0 cs R1 -> solves res0 cs R2 -> forall k, aget k R1 = aget k R2.
  Proof.
    intros [rank Hr] [A1 B1] [A2 B2].
    assert (H : forall n k, rank k < n -> aget k R1 = aget k R2).
    { induction n; intros k Hk; [lia|].
      destruct (in_dec string_dec k (skeys cs)) as [Hin|Hnin].
      - apply in_map_iff in Hin. destruct Hin as [kc [E Hkc]]. subst k.
        destruct (B1 kc Hkc) as [vs1 [a1 g1]]. destruct (B2 kc Hkc) as [vs2 [a2 g2]].
        rewrite g1, g2. f_equal. f_equal.
        assert (Ea : args inj R1 (fst kc) (params kc) = args inj R2 (fst kc) (params kc)).
        { apply args_ext. intros p Hp. apply arg_ext. destruct (in_dec string_dec (fst p) (skeys cs)) as [i|i].
          - apply IHn. specialize (Hr kc (fst p) Hkc (in_map fst _ _ Hp) i). lia.
          - rewrite A1, A2; auto. }
        congruence.
      - rewrite A1, A2; auto. }
    intros k. apply (H (S (rank k))). lia.
  Qed.

  Definition Inv (res0 : amap V) (cs : list fdef) (P : list string) (res : amap V) : Prop :=
    (forall k, ~ In k (skeys cs) -> aget k res = aget k res0) /\
    (forall d, aget d res0 <> None -> aget d res <> None) /\
    (forall kc, In kc cs -> ~ In (fst kc) P ->
       (forall d, In d (deps kc) -> ~ In d P) /\
       exists vs, args inj res (fst kc) (params kc) = Some vs /\ aget (fst kc) res = Some (fn kc vs)).

  Lemma arg_aset res k0 k v (p : string * option V) : fst p <> k -> arg inj (aset k v res) k0 p = arg inj res k0 p.
  Proof. intros H. unfold arg. rewrite aget_aset. destruct (String.eqb_spec (fst p) k); [contradiction|reflexivity]. Qed.

  Lemma step res0 cs P res kc :
    NoDup (skeys cs) -> avail res0 cs -> no_self res0 cs -> Inv res0 cs P res -> In kc cs -> In (fst kc) P ->
    (forall d, In d (deps kc) -> ~ In d P) ->
    exists res', eval1 inj res kc = Some res' /\ Inv res0 cs (pminus P [fst kc]) res'.
  Proof.
    intros HN HA [HS0 HSk] [I1 [I2 I3]] Hkc HkP Hd.
    assert (HSr : aget "self"%string res = None) by (rewrite (I1 _ HSk); exact HS0).
    assert (Hargs : exists vs, args inj res (fst kc) (params kc) = Some vs).
    { apply args_some. intros p Hp. pose proof (in_map fst _ _ Hp : In (fst p) (deps kc)) as Hdd.
      unfold arg. destruct (aget (fst p) res) eqn:E; [discriminate|].
      destruct (HA kc p Hkc Hp) as [H|[H|[H|H]]].
      - exfalso. apply (I2 _ H E).
      - exfalso. apply in_map_iff in H. destruct H as [kc' [E' Hkc']].
        destruct (I3 kc' Hkc') as [_ [vs [_ G]]]; [rewrite E'; apply (Hd _ Hdd)|]. rewrite E' in G. congruence.
      - rewrite H. simpl. discriminate.
      - destruct (String.eqb (fst p) "key"); [discriminate|exact H]. }
    destruct Hargs as [vs Hvs]. exists (aset (fst kc) (fn kc vs) res). split.
    { unfold eval1. rewrite HSr. fold (params kc). rewrite Hvs. reflexivity. }
    assert (Hself : forall d, In d (deps kc) -> d <> fst kc) by (intros d Hdd ->; apply (Hd _ Hdd HkP)).
    split; [|split].
    - intros k Hk. rewrite aget_aset. destruct (String.eqb_spec k (fst kc)); [|auto].
      exfalso. apply Hk. subst k. apply in_map. auto.
    - intros d H. rewrite aget_aset. destruct (String.eqb d (fst kc)); [discriminate|auto].
    - intros kc' Hkc' Hn. destruct (string_dec (fst kc') (fst kc)) as [E|E].
      + assert (kc' = kc) by (apply (nodup_keys_inj cs); auto). subst kc'. split.
        * intros d Hdd Hin. apply In_pminus in Hin. apply (Hd d Hdd). tauto.
        * exists vs. split.
          -- rewrite <- Hvs. apply args_ext. intros p Hp. apply arg_aset. apply Hself. apply in_map. exact Hp.
          -- rewrite aget_aset, String.eqb_refl. reflexivity.
      + assert (HnP : ~ In (fst kc') P).
        { intros Hin. apply Hn. apply In_pminus. split; auto. simpl. intuition congruence. }
        destruct (I3 kc' Hkc' HnP) as [D [vs' [Hvs' G]]]. split.
        * intros d Hdd Hin. apply In_pminus in Hin. apply (D d Hdd). tauto.
        * exists vs'. split.
          -- rewrite <- Hvs'. apply args_ext. intros p Hp. apply arg_aset. intros E'. apply (D _ (in_map fst _ _ Hp)). rewrite E'. exact HkP.
          -- rewrite aget_aset. destruct (String.eqb_spec (fst kc') (fst kc)); [contradiction|auto].
  Qed.

  (* a schedule: each callable is evaluated when none of its parameters is still pending *)
  Fixpoint sched (cs : list fdef) (P : list string) (l : list fdef) : Prop :=
    match l with
    | [] => True
    | kc :: l' => In kc cs /\ In (fst kc) P /\ (forall d, In d (deps kc) -> ~ In d P) /\ sched cs (pminus P [fst kc]) l'
    end.
  Lemma run_sched res0 cs : NoDup (skeys cs) -> avail res0 cs -> no_self res0 cs -> forall l P res,
    Inv res0 cs P res -> sched cs P l -> exists res', eval_seq inj res l = Some res' /\ Inv res0 cs (pminus P (skeys l)) res'.
  Proof.
    intros HN HA HNS. induction l as [|kc l IH]; intros P res HI HS; simpl.
    - exists res. rewrite pminus_nil. auto.
    - destruct HS as [S1 [S2 [S3 S4]]].
      destruct (step res0 cs P res kc HN HA HNS HI S1 S2 S3) as [r1 [E1 I1]]. rewrite E1.
      destruct (IH _ _ I1 S4) as [r2 [E2 I2]]. exists r2. split; auto.
      rewrite pminus_pminus in I2. exact I2.
  Qed.
  Lemma round_sched cs : forall l P, NoDup (skeys l) ->
    (forall kc, In kc l -> In kc cs /\ In (fst kc) P /\ forall d, In d (deps kc) -> ~ In d P) -> sched cs P l.
  Proof.
    induction l as [|kc l IH]; intros P HN H; simpl; auto.
    destruct (H kc (or_introl eq_refl)) as [H1 [H2 H3]]. repeat split; auto.
    simpl in HN. apply NoDup_cons_iff in HN. destruct HN as [Hnotin HN2].
    apply IH; auto. intros kc' Hkc'. destruct (H kc' (or_intror Hkc')) as [G1 [G2 G3]].
    repeat split; auto.
    - apply In_pminus. split; auto. simpl. intros [E|[]]. apply Hnotin. rewrite E. apply in_map. auto.
    - intros d Hd Hin. apply In_pminus in Hin. apply (G3 d Hd). tauto.
  Qed.

  Lemma independent_spec keys (kc : fdef) : independent keys kc = true <-> forall d, In d (deps kc) -> ~ In d keys.
  Proof.
    unfold independent. rewrite negb_true_iff. fold (params kc). fold (deps kc). split.
    - intros H d Hd Hin. assert (existsb (fun d => inl d keys) (deps kc) = true); [|congruence].
      apply existsb_exists. exists d. split; auto. apply inl_In. auto.
    - intros H. destruct (existsb (fun d => inl d keys) (deps kc)) eqn:E; auto.
      apply existsb_exists in E. destruct E as [d [Hd Hin]]. apply inl_In in Hin. exfalso. apply (H d Hd Hin).
  Qed.

  Lemma call_loop_small fuel (cp : list fdef) res : (List.length cp <=? 1) = true ->
    call_loop inj fuel cp res = match eval_seq inj res cp with Some r => COk r | None => CErr "TypeError" end.
  Proof. intros H. destruct fuel; simpl; rewrite H; reflexivity. Qed.
  Lemma call_loop_S f (cp : list fdef) res : (List.length cp <=? 1) = false ->
    call_loop inj (S f) cp res =
      let ind := filter (independent (skeys cp)) cp in
      match ind with
      | [] => CErr "ValueError"
      | _ => match eval_seq inj res ind with
             | None => CErr "TypeError"
             | Some r => call_loop inj f (filter (fun kc => negb (inl (fst kc) (skeys ind))) cp) r
             end
      end.
  Proof. intros H. simpl. rewrite H. reflexivity. Qed.

  (* one round of the while loop *)
  Lemma round res0 cs (cp : list fdef) res : NoDup (skeys cs) -> avail res0 cs -> no_self res0 cs ->
    incl cp cs -> NoDup (skeys cp) -> Inv res0 cs (skeys cp) res ->
    let ind := filter (independent (skeys cp)) cp in
    let cp' := filter (fun kc => negb (inl (fst kc) (skeys ind))) cp in
    exists r, eval_seq inj res ind = Some r /\ Inv res0 cs (skeys cp') r /\ incl cp' cs /\ NoDup (skeys cp') /\
              (ind <> [] -> List.length cp' < List.length cp).
  Proof.
    intros HN HA HNS Hincl HNp HI ind cp'.
    assert (HS : sched cs (skeys cp) ind).
    { apply round_sched.
      - apply NoDup_map_filter'. exact HNp.
      - intros kc Hkc. apply filter_In in Hkc. destruct Hkc as [H1 H2]. split; [auto|]. split; [apply in_map; auto|].
        apply independent_spec. exact H2. }
    destruct (run_sched res0 cs HN HA HNS ind _ res HI HS) as [r [E I]]. exists r. split; auto.
    assert (EK : skeys cp' = pminus (skeys cp) (skeys ind)).
    { unfold cp', skeys, pminus. apply (akeys_filter (fun k => negb (inl k (map fst ind)))). }
    rewrite EK. split; auto. split; [|split].
    - intros x Hx. apply filter_In in Hx. apply Hincl. tauto.
    - rewrite <- EK. apply NoDup_map_filter'. exact HNp.
    - intros Hne. destruct ind as [|i0 ind'] eqn:Eind; [congruence|].
      assert (Hi0 : In i0 (filter (independent (skeys cp)) cp)) by (fold ind; rewrite Eind; left; auto).
      apply filter_In in Hi0. apply (filter_length_lt _ cp i0); [tauto|].
      apply negb_false_iff. apply inl_In. simpl. auto.
  Qed.

  Lemma loop_ok res0 cs : NoDup (skeys cs) -> avail res0 cs -> no_self res0 cs -> acyclic cs ->
    forall fuel (cp : list fdef) res, incl cp cs -> NoDup (skeys cp) -> List.length cp <= fuel -> Inv res0 cs (skeys cp) res ->
    exists R, call_loop inj fuel cp res = COk R /\ Inv res0 cs [] R.
  Proof.
    intros HN HA HNS HC. induction fuel as [|f IH]; intros cp res Hincl HNp Hlen HI;
      destruct (List.length cp <=? 1) eqn:El.
    1, 3: (rewrite call_loop_small by auto; apply Nat.leb_le in El;
      assert (HS : sched cs (skeys cp) cp);
      [ apply round_sched; auto; intros kc Hkc; split; [auto|]; split; [apply in_map; auto|];
        intros d Hd Hin; destruct HC as [rank Hr];
        assert (d = fst kc) by (destruct cp as [|x [|y cp]]; simpl in *; try lia; intuition congruence);
        subst d; specialize (Hr kc (fst kc) (Hincl _ Hkc) Hd (in_map fst _ _ (Hincl _ Hkc))); lia
      | destruct (run_sched res0 cs HN HA HNS cp _ res HI HS) as [r [E I]]; rewrite E; exists r; split; auto;
        rewrite pminus_all in I by auto; exact I ]).
    - apply Nat.leb_gt in El. lia.
    - rewrite call_loop_S by auto. apply Nat.leb_gt in El.
      destruct (round res0 cs cp res HN HA HNS Hincl HNp HI) as [r [E [I [Hi' [HN' Hl]]]]].
      set (ind := filter (independent (skeys cp)) cp) in *.
      assert (Hne : ind <> []).
      { destruct HC as [rank Hr].
        destruct (exists_min (fun kc : fdef => rank (fst kc)) cp) as [km [Hkm Hmin]]; [destruct cp; simpl in *; [lia|congruence]|].
        assert (Hin : In km ind).
        { apply filter_In. split; auto. apply independent_spec. intros d Hd Hin.
          apply in_map_iff in Hin. destruct Hin as [kc' [E' Hkc']]. subst d.
          specialize (Hr km (fst kc') (Hincl _ Hkm) Hd (in_map fst _ _ (Hincl _ Hkc'))).
          specialize (Hmin kc' Hkc'). simpl in Hmin. lia. }
        intros Hnil. rewrite Hnil in Hin. contradiction. }
      cbv zeta. destruct ind as [|i0 ind'] eqn:Eind; [congruence|]. rewrite E.
      apply IH; auto. apply Nat.lt_succ_r. eapply Nat.lt_le_trans; [apply Hl; auto|exact Hlen].
  Qed.

  Lemma skeys_funs (kw : list (string * @item V)) : forall k, In k (skeys (funs kw)) -> In k (map fst kw).
  Proof.
    induction kw as [|[k0 [v|ds f]] kw IH]; simpl; auto. intros k [H|H]; auto.
  Qed.
  Lemma NoDup_skeys_funs (kw : list (string * @item V)) : NoDup (map fst kw) -> NoDup (skeys (V := V) (funs kw)).
  Proof.
    induction kw as [|[k0 it] kw IH]; simpl; intros H; [constructor|].
    apply NoDup_cons_iff in H. destruct H as [H1 H2]. destruct it as [v|ds f]; simpl; [apply IH; auto|].
    constructor; [|apply IH; auto]. intros Hin. apply H1. apply skeys_funs. exact Hin.
  Qed.
  Lemma keys_consts (kw : list (string * @item V)) : forall k, In k (map fst (consts kw)) -> In k (map fst kw).
  Proof. induction kw as [|[k0 [v|ds f]] kw IH]; simpl; auto. intros k [H|H]; auto. Qed.
  Lemma NoDup_keys_consts (kw : list (string * @item V)) : NoDup (map fst kw) -> NoDup (map fst (consts kw)).
  Proof.
    induction kw as [|[k0 it] kw IH]; simpl; intros H; [constructor|].
    apply NoDup_cons_iff in H. destruct H as [H1 H2]. destruct it as [v|ds f]; simpl; [|apply IH; auto].
    constructor; [|apply IH; auto]. intros Hin. apply H1. apply keys_consts. exact Hin.
  Qed.

  Lemma Inv_init res0 cs : Inv res0 cs (skeys cs) res0.
  Proof. split; [auto|split; [auto|]]. intros kc H Hn. exfalso. apply Hn. apply in_map. auto. Qed.
  Lemma Inv_solves res0 cs R : Inv res0 cs [] R -> solves res0 cs R.
  Proof. intros [I1 [_ I3]]. split; auto. intros kc Hkc. destruct (I3 kc Hkc) as [_ H]; auto. Qed.

  (* neither the mapping nor the keywords use the name self *)
  Definition self_free (base : amap V) (kw : list (string * @item V)) : Prop :=
    aget "self"%string base = None /\ ~ In "self"%string (map fst kw).
  Lemma self_free_no_self base kw : self_free base kw ->
    no_self (aupdate base (consts kw)) (funs kw) /\ inl "self"%string (map fst kw) = false.
  Proof.
    intros [H1 H2]. split; [split|].
    - rewrite aget_aupdate_notin; auto. intros Hin. apply H2. apply keys_consts. exact Hin.
    - intros Hin. apply H2. apply skeys_funs. exact Hin.
    - apply inl_false. exact H2.
  Qed.

  (* acyclic definitions: the call succeeds and returns a dependency-order evaluation *)
  Theorem dict_call_solves base kw : NoDup (map fst kw) -> self_free base kw ->
    avail (aupdate base (consts kw)) (funs kw) -> acyclic (funs kw) ->
    exists R, dict_call inj base kw = COk R /\ solves (aupdate base (consts kw)) (funs kw) R.
  Proof.
    intros HN HSF HA HC. destruct (self_free_no_self base kw HSF) as [HNS Hinl]. unfold dict_call. rewrite Hinl.
    destruct (loop_ok _ _ (NoDup_skeys_funs kw HN) HA HNS HC (List.length (funs kw)) (funs kw) (aupdate base (consts kw)))
      as [R [E I]]; auto using incl_refl, NoDup_skeys_funs, Inv_init.
    exists R. split; auto. apply Inv_solves. exact I.
  Qed.

  Lemma aget_perm (l l' : amap V) k : NoDup (akeys l) -> Permutation l l' -> aget k l = aget k l'.
  Proof.
    intros HN HP. assert (HN' : NoDup (akeys l')) by (eapply Permutation_NoDup; [apply Permutation_map; exact HP|auto]).
    destruct (aget k l) eqn:E.
    - symmetry. apply In_aget; auto. eapply Permutation_in; [exact HP|]. apply aget_In. auto.
    - symmetry. apply aget_None. apply aget_None in E. intros Hin. apply E.
      eapply Permutation_in; [apply Permutation_sym, Permutation_map; exact HP|auto].
  Qed.

  (* the result does not depend on the order of the keywords *)
  Theorem call_order_independent base kw kw' : Permutation kw kw' -> NoDup (map fst kw) -> self_free base kw ->
    avail (aupdate base (consts kw)) (funs kw) -> acyclic (funs kw) ->
    exists R R', dict_call inj base kw = COk R /\ dict_call inj base kw' = COk R' /\ forall k, aget k R = aget k R'.
  Proof.
    intros HP HN HSF HA HC.
    assert (HSF' : self_free base kw').
    { destruct HSF as [S1 S2]. split; auto. intros Hin. apply S2.
      eapply Permutation_in; [apply Permutation_sym, Permutation_map; exact HP|exact Hin]. }
    assert (HN' : NoDup (map fst kw')) by (eapply Permutation_NoDup; [apply Permutation_map; exact HP|auto]).
    assert (HPf : Permutation (funs kw) (funs kw')) by (apply Permutation_flat_map; auto).
    assert (HPc : Permutation (consts kw) (consts kw')) by (apply Permutation_flat_map; auto).
    assert (HK : forall k, In k (skeys (funs kw)) <-> In k (skeys (funs kw'))).
    { intros k. split; apply Permutation_in; [|apply Permutation_sym]; apply Permutation_map; auto. }
    assert (HF : forall kc, In kc (funs kw) <-> In kc (funs kw')).
    { intros kc. split; apply Permutation_in; [|apply Permutation_sym]; auto. }
    assert (HR : forall k, aget k (aupdate base (consts kw)) = aget k (aupdate base (consts kw'))).
    { intros k. pose proof (aget_merged k base (consts kw) (NoDup_keys_consts kw HN)) as E1.
      pose proof (aget_merged k base (consts kw') (NoDup_keys_consts kw' HN')) as E2. unfold merged in *.
      rewrite E1, E2, (aget_perm _ _ k (NoDup_keys_consts kw HN) HPc). reflexivity. }
    assert (HA' : avail (aupdate base (consts kw')) (funs kw')).
    { intros kc d Hkc Hd. destruct (HA kc d (proj2 (HF kc) Hkc) Hd) as [H|[H|H]]; [left; rewrite <- HR; auto|right; left; apply HK; auto|auto]. }
    assert (HC' : acyclic (funs kw')).
    { destruct HC as [rank Hr]. exists rank. intros kc d Hkc Hd Hin. apply Hr; auto; [apply HF|apply HK]; auto. }
    destruct (dict_call_solves base kw HN HSF HA HC) as [R [E S]].
    destruct (dict_call_solves base kw' HN' HSF' HA' HC') as [R' [E' [S1 S2]]].
    exists R, R'. split; auto. split; auto.
    apply (solves_unique (aupdate base (consts kw)) (funs kw)); auto.
    split.
    - intros k Hk. rewrite HR. apply S1. intros Hin. apply Hk. apply HK. auto.
    - intros kc Hkc. apply S2. apply HF. auto.
  Qed.

  (* and it equals sequential evaluation in ANY topological order of the callables *)
  Theorem call_is_topological_evaluation base kw order : NoDup (map fst kw) -> self_free base kw ->
    avail (aupdate base (consts kw)) (funs kw) -> acyclic (funs kw) ->
    Permutation order (funs kw) -> sched (funs kw) (skeys (funs kw)) order ->
    exists R R', dict_call inj base kw = COk R /\ eval_seq inj (aupdate base (consts kw)) order = Some R' /\
                 forall k, aget k R = aget k R'.
  Proof.
    intros HN HSF HA HC HP HS. destruct (dict_call_solves base kw HN HSF HA HC) as [R [E S]].
    destruct (run_sched _ _ (NoDup_skeys_funs kw HN) HA (proj1 (self_free_no_self base kw HSF)) order _ _ (Inv_init _ _) HS) as [R' [E' I]].
    exists R, R'. split; auto. split; auto.
    apply (solves_unique (aupdate base (consts kw)) (funs kw)); auto. apply Inv_solves.
    rewrite pminus_all in I; auto. intros k Hk. eapply Permutation_in; [apply Permutation_sym, Permutation_map; exact HP|auto].
  Qed.

  (* circular definitions *)
  Lemma loop_cycle res0 cs S : NoDup (skeys cs) -> avail res0 cs -> no_self res0 cs ->
    (forall kc, In kc cs -> In (fst kc) S -> exists d, In d (deps kc) /\ In d S) ->
    (exists k1 k2, In k1 S /\ In k2 S /\ k1 <> k2) ->
    forall fuel (cp : list fdef) res, incl cp cs -> NoDup (skeys cp) -> List.length cp <= fuel -> Inv res0 cs (skeys cp) res ->
    (forall k, In k S -> In k (skeys cp)) -> call_loop inj fuel cp res = CErr "ValueError".
  Proof.
    intros HN HA HNS Hcyc [k1 [k2 [H1 [H2 H12]]]]. induction fuel as [|f IH]; intros cp res Hincl HNp Hlen HI HS;
      (assert (L2 : 2 <= List.length (skeys cp)) by (apply (two_distinct _ k1 k2); auto);
       unfold skeys in L2; rewrite map_length in L2).
    - exfalso. pose proof (Nat.le_trans _ _ _ L2 Hlen) as Hc. inversion Hc.
    - rewrite call_loop_S by (apply Nat.leb_gt; exact L2).
      destruct (round res0 cs cp res HN HA HNS Hincl HNp HI) as [r [E [I [Hi' [HN' Hl]]]]].
      set (ind := filter (independent (skeys cp)) cp) in *. cbv zeta.
      destruct ind as [|i0 ind'] eqn:Eind; [reflexivity|]. rewrite E.
      apply IH; auto.
      + apply Nat.lt_succ_r. eapply Nat.lt_le_trans; [apply Hl; congruence|exact Hlen].
      + intros k Hk. pose proof (HS k Hk) as HSk. apply in_map_iff in HSk. destruct HSk as [kc [Ek Hkc]]. subst k.
        apply in_map. apply filter_In. split; auto. apply negb_true_iff. apply inl_false. intros Hin.
        apply in_map_iff in Hin. destruct Hin as [kc2 [E2 Hkc2]].
        assert (Hk2 : In kc2 (filter (independent (skeys cp)) cp)) by (fold ind; rewrite Eind; exact Hkc2).
        apply filter_In in Hk2. destruct Hk2 as [G1 G2].
        destruct (Hcyc kc2 (Hincl _ G1)) as [d [Hd HdS]]; [rewrite E2; auto|].
        apply (proj1 (independent_spec _ _) G2 d Hd). apply HS. exact HdS.
  Qed.

  (* a set S of derived keys, at least two of them, each depending on a member of S (in particular any
     dependency cycle of length >= 2): ValueError *)
  Theorem call_cycle_raises base kw S : NoDup (map fst kw) -> self_free base kw ->
    avail (aupdate base (consts kw)) (funs kw) ->
    (forall k, In k S -> In k (skeys (funs kw))) ->
    (forall kc, In kc (funs kw) -> In (fst kc) S -> exists d, In d (deps kc) /\ In d S) ->
    (exists k1 k2, In k1 S /\ In k2 S /\ k1 <> k2) ->
    dict_call inj base kw = CErr "ValueError".
  Proof.
    intros HN HSF HA HS Hcyc H2. destruct (self_free_no_self base kw HSF) as [HNS Hinl]. unfold dict_call. rewrite Hinl.
    apply (loop_cycle (aupdate base (consts kw)) (funs kw) S); auto using incl_refl, NoDup_skeys_funs, Inv_init.
  Qed.

  (* the loop always terminates: every round removes at least one key, so [length callables] rounds suffice *)
  Lemma call_loop_terminates : forall fuel (cp : list fdef) res, List.length cp <= fuel -> call_loop inj fuel cp res <> CErr "fuel".
  Proof.
    induction fuel as [|f IH]; intros cp res Hlen; destruct (List.length cp <=? 1) eqn:El.
    1, 3: (rewrite call_loop_small by auto; destruct (eval_seq inj res cp); discriminate).
    - apply Nat.leb_gt in El. exfalso. pose proof (Nat.lt_le_trans _ _ _ El Hlen) as Hc. inversion Hc.
    - rewrite call_loop_S by auto. cbv zeta.
      destruct (filter (independent (skeys cp)) cp) as [|i0 ind'] eqn:Eind; [discriminate|].
      destruct (eval_seq inj res (i0 :: ind')); [|discriminate]. apply IH.
      assert (Hi0 : In i0 (filter (independent (skeys cp)) cp)) by (rewrite Eind; left; auto).
      apply filter_In in Hi0. apply Nat.lt_succ_r. eapply Nat.lt_le_trans; [|exact Hlen].
      apply (filter_length_lt _ cp i0); [tauto|]. apply negb_false_iff. apply inl_In. simpl. auto.
  Qed.
  Theorem dict_call_terminates base kw : dict_call inj base kw <> CErr "fuel".
  Proof. unfold dict_call. destruct (inl "self"%string (map fst kw)); [discriminate|]. apply call_loop_terminates. auto. Qed.
End CallProofs.

(* ================================================================== the concrete hashables of the correspondence form a lawful == *)
From Coq Require Import ZArith.
Lemma lz_eqb_eq a : forall b, lz_eqb a b = true <-> a = b.
Proof.
  induction a as [|x a IH]; intros [|y b]; simpl; split; try discriminate; auto.
  - intros H. apply andb_true_iff in H. destruct H as [H1 H2]. apply Z.eqb_eq in H1. apply IH in H2. congruence.
  - intros H. inversion H; subst. rewrite Z.eqb_refl. simpl. apply IH. reflexivity.
Qed.
Lemma hv_eqb_refl x : hv_eqb x x = true.
Proof. apply lz_eqb_eq. reflexivity. Qed.
Lemma hv_eqb_sym x y : hv_eqb x y = hv_eqb y x.
Proof.
  unfold hv_eqb. destruct (lz_eqb (code x) (code y)) eqn:E1, (lz_eqb (code y) (code x)) eqn:E2; auto.
  - apply lz_eqb_eq in E1. rewrite E1, (proj2 (lz_eqb_eq _ _) eq_refl) in E2. discriminate.
  - apply lz_eqb_eq in E2. rewrite E2, (proj2 (lz_eqb_eq _ _) eq_refl) in E1. discriminate.
Qed.
Lemma hv_eqb_trans x y z : hv_eqb x y = true -> hv_eqb y z = true -> hv_eqb x z = true.
Proof. unfold hv_eqb. rewrite !lz_eqb_eq. congruence. Qed.
