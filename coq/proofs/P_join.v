(* C02 — proofs about the model of _listby / join / xor (model/M_join.v).
   Part 1: for every key type and every comparator kcmp with values in {-1,0,1}, antisymmetric and
   transitive, with group/match test geq a b := (kcmp a b =? 0) (the repaired code):
     merge_smerge          the fuelled three-loop merge never runs out of fuel and equals the one-step merge
     join_is_relational    join pairs are a Permutation of the nested-loop join
     xor_is_antijoin       xor rows are a Permutation of the anti-join
     left_join_partition   xor rows ++ matched rows is a Permutation of all row indices
   Part 2: tcmp (cmp on tuples of scalar cells) is such a comparator.
   Part 3: table level wrappers and the refutation of the pinned (==) variant. *)
From Coq Require Import String.
From Coq Require Import ZArith List Bool Lia Permutation Sorted.
From PB Require Import model.M_join.
Import ListNotations.
Open Scope Z_scope.

(* ------------------------------------------------------------------ list helpers *)
Lemma nodup_app {A} (l1 l2 : list A) :
  NoDup l1 -> NoDup l2 -> (forall x, In x l1 -> In x l2 -> False) -> NoDup (l1 ++ l2).
Proof.
  induction l1 as [|a l1 IH]; simpl; intros H1 H2 D; [exact H2|].
  inversion H1; subst. constructor.
  - rewrite in_app_iff. intros [X|X]; [tauto | exact (D a (or_introl eq_refl) X)].
  - apply IH; auto. intros x X Y. exact (D x (or_intror X) Y).
Qed.
Lemma nodup_app_inv {A} (l1 l2 : list A) :
  NoDup (l1 ++ l2) -> NoDup l1 /\ NoDup l2 /\ (forall x, In x l1 -> In x l2 -> False).
Proof.
  induction l1 as [|a l1 IH]; simpl; intros H.
  - repeat split; [constructor | exact H | tauto].
  - inversion H; subst. destruct (IH H3) as (A1 & A2 & A3). repeat split; auto.
    + constructor; auto. intros X. apply H2. apply in_or_app; auto.
    + intros x [X|X] Y; [subst; apply H2; apply in_or_app; auto | eauto].
Qed.
Lemma nodup_prod {A B} (l : list A) (l' : list B) : NoDup l -> NoDup l' -> NoDup (list_prod l l').
Proof.
  induction l as [|a l IH]; simpl; intros H H'; [constructor|].
  inversion H; subst. apply nodup_app; auto.
  - clear - H'. induction l' as [|b l' IH]; simpl; [constructor|]. inversion H'; subst.
    constructor; auto. rewrite in_map_iff. intros (y & E & I). inversion E; subst. tauto.
  - intros [x y] X Y. apply in_map_iff in X. destruct X as (b & E & _). inversion E; subst.
    apply in_prod_iff in Y. tauto.
Qed.
(* a flat_map is duplicate free when its pieces are and every element carries the tag of its piece *)
Lemma nodup_flat_map_tag {A B T} (f : A -> list B) (ta : A -> T) (tb : B -> T) (l : list A) :
  NoDup (map ta l) -> (forall a, In a l -> NoDup (f a)) ->
  (forall a b, In a l -> In b (f a) -> tb b = ta a) -> NoDup (flat_map f l).
Proof.
  induction l as [|a l IH]; simpl; intros N P Tg; [constructor|].
  inversion N; subst. apply nodup_app; [apply P; auto | apply IH; auto |].
  intros b X Y. apply in_flat_map in Y. destruct Y as (a' & I' & Y).
  apply H1. apply in_map_iff. exists a'. split; auto.
  rewrite <- (Tg a' b (or_intror I') Y). apply Tg; auto.
Qed.
Lemma perm_flat_map_app {A B} (f g : A -> list B) (l : list A) :
  Permutation (flat_map f l ++ flat_map g l) (flat_map (fun x => f x ++ g x) l).
Proof.
  induction l as [|a l IH]; simpl; [constructor|].
  rewrite <- app_assoc. rewrite <- app_assoc. apply Permutation_app_head.
  rewrite app_assoc. rewrite (Permutation_app_comm (flat_map f l) (g a)). rewrite <- app_assoc.
  apply Permutation_app_head. exact IH.
Qed.
Lemma map_snd_combine_seq {A} (ks : list A) s : map snd (combine ks (seq s (length ks))) = seq s (length ks).
Proof. revert s. induction ks; simpl; intros; [reflexivity | f_equal; apply IHks]. Qed.
Lemma in_combine_seq {A} (ks : list A) s a i :
  In (a, i) (combine ks (seq s (length ks))) <-> (s <= i)%nat /\ nth_error ks (i - s) = Some a.
Proof.
  revert s. induction ks as [|k ks IH]; simpl; intros s.
  - split; [tauto|]. intros [_ H]. destruct (i - s)%nat; discriminate.
  - rewrite IH. split.
    + intros [E|[L N]].
      * inversion E; subst. split; [lia|]. replace (i - i)%nat with 0%nat by lia. reflexivity.
      * split; [lia|]. replace (i - s)%nat with (S (i - S s)) by lia. exact N.
    + intros [L N]. destruct (i - s)%nat as [|d] eqn:E.
      * left. simpl in N. inversion N. f_equal. lia.
      * right. split; [lia|]. simpl in N. replace (i - S s)%nat with d by lia. exact N.
Qed.
Lemma in_indexed {A} (ks : list A) a i : In (a, i) (combine ks (seq 0 (length ks))) <-> nth_error ks i = Some a.
Proof. rewrite in_combine_seq. rewrite Nat.sub_0_r. split; [tauto | intros; split; [lia | auto]]. Qed.

(* ------------------------------------------------------------------ Part 1 *)
Section Laws.
  Variable key : Type.
  Variable kcmp : key -> key -> Z.
  Hypothesis Hrange : forall a b, kcmp a b = -1 \/ kcmp a b = 0 \/ kcmp a b = 1.
  Hypothesis Hanti : forall a b, kcmp b a = - kcmp a b.
  Hypothesis Htrans : forall a b c, kcmp a b <= 0 -> kcmp b c <= 0 -> kcmp a c <= 0.

  Definition geq0 (a b : key) : bool := kcmp a b =? 0.
  Notation grp := (grp key).
  Notation ev := (ev key).

  Ltac k3 a b c :=
    pose proof (Hrange a b); pose proof (Hrange b c); pose proof (Hrange a c);
    pose proof (Hanti a b); pose proof (Hanti b c); pose proof (Hanti a c);
    pose proof (Htrans a b c); pose proof (Htrans a c b); pose proof (Htrans b a c);
    pose proof (Htrans b c a); pose proof (Htrans c a b); pose proof (Htrans c b a).

  Lemma krefl a : kcmp a a = 0.
  Proof. pose proof (Hanti a a). lia. Qed.
  Lemma ksym a b : kcmp a b = 0 -> kcmp b a = 0.
  Proof. pose proof (Hanti a b). lia. Qed.
  Lemma keq_trans a b c : kcmp a b = 0 -> kcmp b c = 0 -> kcmp a c = 0.
  Proof. k3 a b c. lia. Qed.
  Lemma lt_le_trans a b c : kcmp a b = -1 -> kcmp b c <= 0 -> kcmp a c = -1.
  Proof. k3 a b c. lia. Qed.
  Lemma le_lt_trans a b c : kcmp a b <= 0 -> kcmp b c = -1 -> kcmp a c = -1.
  Proof. k3 a b c. lia. Qed.
  Lemma lt_eq_l a b c : kcmp a b = 0 -> kcmp a c = -1 -> kcmp b c = -1.
  Proof. k3 a b c. lia. Qed.
  Lemma lt_eq_r a b c : kcmp b c = 0 -> kcmp a b = -1 -> kcmp a c = -1.
  Proof. k3 a b c. lia. Qed.

  (* ---------------- sort *)
  Definition kle (p q : key * nat) : Prop := kcmp (fst p) (fst q) <= 0.
  Notation insert := (insert key kcmp).
  Notation isort := (isort key kcmp).

  Lemma insert_perm x l : Permutation (insert x l) (x :: l).
  Proof.
    induction l as [|y l IH]; simpl; [constructor; constructor|].
    destruct (kcmp (fst x) (fst y) <=? 0); [apply Permutation_refl|].
    eapply perm_trans; [apply perm_skip; exact IH | apply perm_swap].
  Qed.
  Lemma isort_perm l : Permutation (isort l) l.
  Proof.
    induction l as [|x l IH]; simpl; [constructor|].
    eapply perm_trans; [apply insert_perm | apply perm_skip; exact IH].
  Qed.
  Lemma insert_sorted x l : StronglySorted kle l -> StronglySorted kle (insert x l).
  Proof.
    induction l as [|y l IH]; simpl; intros S.
    - constructor; constructor.
    - apply StronglySorted_inv in S. destruct S as [S F].
      destruct (kcmp (fst x) (fst y) <=? 0) eqn:E.
      + apply Z.leb_le in E. constructor; [constructor; auto|].
        constructor; [exact E|]. rewrite Forall_forall in *. intros z Z. unfold kle in *.
        apply (Htrans _ (fst y)); auto.
      + apply Z.leb_gt in E. constructor; [apply IH; exact S|].
        rewrite Forall_forall in *. intros z Z.
        apply (Permutation_in _ (insert_perm x l)) in Z. destruct Z as [Z|Z].
        * subst. unfold kle. pose proof (Hanti (fst z) (fst y)). lia.
        * auto.
  Qed.
  Lemma isort_sorted l : StronglySorted kle (isort l).
  Proof. induction l; simpl; [constructor | apply insert_sorted; auto]. Qed.

  (* ---------------- run-length groups *)
  Notation group_runs := (group_runs key geq0).
  Definition glt (g h : grp) : Prop := kcmp (fst g) (fst h) = -1.

  Lemma group_runs_cons x l :
    group_runs (x :: l) =
    match l, group_runs l with
    | y :: _, (kr, is) :: gs =>
        if geq0 (fst y) (fst x) then (kr, snd x :: is) :: gs else (fst x, [snd x]) :: (kr, is) :: gs
    | _, _ => [(fst x, [snd x])]
    end.
  Proof. destruct l; reflexivity. Qed.

  Lemma group_head y l : exists kr is gs, group_runs (y :: l) = (kr, snd y :: is) :: gs /\ kcmp (fst y) kr = 0.
  Proof.
    revert y. induction l as [|a l IH]; intros y.
    - exists (fst y), [], []. split; [reflexivity | apply krefl].
    - rewrite group_runs_cons. destruct (IH a) as (kr & is & gs & E & K). rewrite E.
      unfold geq0 at 1. destruct (kcmp (fst a) (fst y) =? 0) eqn:G.
      + apply Z.eqb_eq in G. exists kr, (snd a :: is), gs. split; [reflexivity|].
        apply (keq_trans _ (fst a)); [apply ksym; exact G | exact K].
      + exists (fst y), [], ((kr, snd a :: is) :: gs). split; [reflexivity | apply krefl].
  Qed.

  Lemma group_concat l : concat (map snd (group_runs l)) = map snd l.
  Proof.
    induction l as [|x l IH]; [reflexivity|].
    rewrite group_runs_cons. destruct l as [|y l']; [reflexivity|].
    destruct (group_head y l') as (kr & is & gs & E & _). rewrite E in *.
    destruct (geq0 (fst y) (fst x)); simpl in *; f_equal; exact IH.
  Qed.

  Lemma group_nonempty l g : In g (group_runs l) -> snd g <> [].
  Proof.
    revert g. induction l as [|x l IH]; intros g; [intros []|].
    rewrite group_runs_cons. destruct l as [|y l']; [intros [<-|[]]; discriminate|].
    destruct (group_head y l') as (kr & is & gs & E & _). rewrite E in *.
    destruct (geq0 (fst y) (fst x)).
    - intros [<-|I]; [discriminate | apply IH; right; exact I].
    - intros [<-|I]; [discriminate | apply IH; exact I].
  Qed.

  (* every row of a group has a key equivalent to the group's label *)
  Lemma group_sound l g i : In g (group_runs l) -> In i (snd g) ->
    exists k, In (k, i) l /\ kcmp k (fst g) = 0.
  Proof.
    revert g i. induction l as [|x l IH]; intros g i; [intros []|].
    rewrite group_runs_cons. destruct l as [|y l'].
    - intros [<-|[]] [<-|[]]. exists (fst x). split; [left; destruct x; reflexivity | apply krefl].
    - destruct (group_head y l') as (kr & is & gs & E & K). rewrite E in *.
      unfold geq0 at 1. destruct (kcmp (fst y) (fst x) =? 0) eqn:G.
      + apply Z.eqb_eq in G. intros [<-|I] J.
        * simpl in J. destruct J as [<-|J].
          -- exists (fst x). split; [left; destruct x; reflexivity|]. simpl.
             apply (keq_trans _ (fst y)); [apply ksym; exact G | exact K].
          -- destruct (IH (kr, snd y :: is) i (or_introl eq_refl) J) as (k & I & Q).
             exists k. split; [right; exact I | exact Q].
        * destruct (IH g i (or_intror I) J) as (k & I' & Q). exists k. split; [right; exact I' | exact Q].
      + intros [<-|I] J.
        * simpl in J. destruct J as [<-|[]]. exists (fst x). split; [left; destruct x; reflexivity | apply krefl].
        * destruct (IH g i I J) as (k & I' & Q). exists k. split; [right; exact I' | exact Q].
  Qed.

  Lemma group_complete l k i : In (k, i) l -> exists g, In g (group_runs l) /\ In i (snd g) /\ kcmp k (fst g) = 0.
  Proof.
    induction l as [|x l IH]; [intros []|].
    rewrite group_runs_cons. destruct l as [|y l'].
    - intros [->|[]]. exists (k, [i]). simpl. repeat split; auto. apply krefl.
    - destruct (group_head y l') as (kr & is & gs & E & K). rewrite E in *.
      unfold geq0 at 1. destruct (kcmp (fst y) (fst x) =? 0) eqn:G.
      + apply Z.eqb_eq in G. intros [->|I].
        * exists (kr, i :: snd y :: is). simpl. repeat split; auto.
          apply (keq_trans _ (fst y)); [apply ksym; exact G | exact K].
        * destruct (IH I) as (g & [<-|I'] & J & Q).
          -- exists (kr, snd x :: snd y :: is). simpl in *. repeat split; auto.
          -- exists g. repeat split; auto. right; exact I'.
      + intros [->|I].
        * exists (k, [i]). simpl. repeat split; auto. apply krefl.
        * destruct (IH I) as (g & I' & J & Q). exists g. repeat split; auto. right; exact I'.
  Qed.

  Lemma group_sorted l : StronglySorted kle l -> StronglySorted glt (group_runs l).
  Proof.
    induction l as [|x l IH]; intros S; [constructor|].
    rewrite group_runs_cons. destruct l as [|y l']; [constructor; constructor|].
    apply StronglySorted_inv in S. destruct S as [S F].
    destruct (group_head y l') as (kr & is & gs & E & K). rewrite E in *.
    specialize (IH S). apply StronglySorted_inv in IH. destruct IH as [IH1 IH2].
    unfold geq0 at 1. destruct (kcmp (fst y) (fst x) =? 0) eqn:G.
    - constructor; [exact IH1|]. eapply Forall_impl; [|exact IH2]. intros h. unfold glt. simpl. auto.
    - apply Z.eqb_neq in G. inversion F; subst. unfold kle in H1.
      assert (X : kcmp (fst x) kr = -1).
      { apply (lt_eq_r _ (fst y)); [exact K|]. pose proof (Hrange (fst x) (fst y)). pose proof (Hanti (fst x) (fst y)). lia. }
      constructor; [constructor; auto|].
      constructor; [exact X|]. eapply Forall_impl; [|exact IH2]. intros h. unfold glt. simpl. intros Q.
      apply (lt_le_trans _ kr); [exact X | lia].
  Qed.

  (* ---------------- the listby pipeline *)
  Notation listby := (listby key kcmp geq0).

  Lemma listby_rows ks : Permutation (concat (map snd (listby ks))) (seq 0 (length ks)).
  Proof.
    unfold listby. rewrite group_concat. rewrite <- (map_snd_combine_seq ks 0) at 2.
    apply Permutation_map. apply isort_perm.
  Qed.
  Lemma listby_sorted ks : StronglySorted glt (listby ks).
  Proof. apply group_sorted. apply isort_sorted. Qed.
  Lemma listby_sound ks g i : In g (listby ks) -> In i (snd g) ->
    exists a, nth_error ks i = Some a /\ kcmp a (fst g) = 0.
  Proof.
    intros I J. destruct (group_sound _ g i I J) as (k & X & Q). exists k. split; [|exact Q].
    apply in_indexed. apply (Permutation_in _ (isort_perm _)). exact X.
  Qed.
  Lemma listby_complete ks a i : nth_error ks i = Some a ->
    exists g, In g (listby ks) /\ In i (snd g) /\ kcmp a (fst g) = 0.
  Proof.
    intros N. apply group_complete. apply (Permutation_in _ (Permutation_sym (isort_perm _))).
    apply in_indexed. exact N.
  Qed.
  Lemma listby_nonempty ks g : In g (listby ks) -> snd g <> [].
  Proof. apply group_nonempty. Qed.

  (* ---------------- the three nested loops = the one-step merge, and they never run out of fuel *)
  Notation skip_l := (skip_l key kcmp).
  Notation skip_r := (skip_r key kcmp).
  Notation merge := (merge key kcmp geq0).
  Notation smerge := (smerge key kcmp).

  Lemma smerge_nil_l R : smerge [] R = map OnlyR R.
  Proof. destruct R; reflexivity. Qed.
  Lemma smerge_nil_r L : smerge L [] = map OnlyL L.
  Proof. destruct L; reflexivity. Qed.
  Lemma smerge_cons gl L' gr R' :
    smerge (gl :: L') (gr :: R') =
    if kcmp (fst gl) (fst gr) =? -1 then OnlyL gl :: smerge L' (gr :: R')
    else if kcmp (fst gl) (fst gr) =? 1 then OnlyR gr :: smerge (gl :: L') R'
    else Both gl gr :: smerge L' R'.
  Proof. reflexivity. Qed.

  Lemma skip_l_spec L R :
    L = fst (skip_l L R) ++ snd (skip_l L R) /\
    smerge L R = map OnlyL (fst (skip_l L R)) ++ smerge (snd (skip_l L R)) R /\
    (forall gl L2 gr R', snd (skip_l L R) = gl :: L2 -> R = gr :: R' -> kcmp (fst gl) (fst gr) <> -1).
  Proof.
    induction L as [|gl L IH]; [simpl; repeat split; intros; congruence|].
    destruct R as [|gr R']; [simpl; repeat split; intros; congruence|].
    simpl skip_l. destruct (kcmp (fst gl) (fst gr) =? -1) eqn:E.
    - destruct IH as (A & B & C). destruct (skip_l L (gr :: R')) as [s L2] eqn:S. cbn [fst snd] in *.
      repeat split.
      + simpl. f_equal. exact A.
      + rewrite smerge_cons, E. simpl. f_equal. exact B.
      + exact C.
    - simpl. repeat split. intros gl0 L2 gr0 R0 X Y. inversion X; inversion Y; subst.
      apply Z.eqb_neq in E. exact E.
  Qed.
  Lemma skip_r_spec L R :
    R = fst (skip_r L R) ++ snd (skip_r L R) /\
    smerge L R = map OnlyR (fst (skip_r L R)) ++ smerge L (snd (skip_r L R)) /\
    (forall gl L' gr R2, L = gl :: L' -> snd (skip_r L R) = gr :: R2 -> kcmp (fst gl) (fst gr) <> 1).
  Proof.
    destruct L as [|gl L']; [destruct R; simpl; repeat split; intros; congruence|].
    induction R as [|gr R IH]; [simpl; repeat split; intros; congruence|].
    simpl skip_r. destruct (kcmp (fst gl) (fst gr) =? 1) eqn:E.
    - destruct IH as (A & B & C). destruct (skip_r (gl :: L') R) as [s R2] eqn:S. cbn [fst snd] in *.
      repeat split.
      + simpl. f_equal. exact A.
      + rewrite smerge_cons, E. apply Z.eqb_eq in E.
        destruct (kcmp (fst gl) (fst gr) =? -1) eqn:E'; [apply Z.eqb_eq in E'; lia|]. simpl. f_equal. exact B.
      + exact C.
    - simpl. repeat split. intros gl0 L2 gr0 R0 X Y. inversion X; inversion Y; subst.
      apply Z.eqb_neq in E. exact E.
  Qed.

  Lemma merge_step f gl0 L0 gr0 R0 :
    merge (S f) (gl0 :: L0) (gr0 :: R0) =
    let L := gl0 :: L0 in let R := gr0 :: R0 in
    let sl := fst (skip_l L R) in let L1 := snd (skip_l L R) in
    let sr := fst (skip_r L1 R) in let R1 := snd (skip_r L1 R) in
    let pre := map OnlyL sl ++ map OnlyR sr in
    match L1, R1 with
    | gl :: L2, gr :: R2 =>
        if geq0 (fst gl) (fst gr)
        then option_map (fun t => pre ++ Both gl gr :: t) (merge f L2 R2)
        else option_map (fun t => pre ++ t) (merge f L1 R1)
    | _, _ => option_map (fun t => pre ++ t) (merge f L1 R1)
    end.
  Proof.
    cbv zeta. cbn [M_join.merge].
    destruct (skip_l (gl0 :: L0) (gr0 :: R0)) as [sl L1]. cbn [fst snd].
    destruct (skip_r L1 (gr0 :: R0)) as [sr R1]. reflexivity.
  Qed.

  Theorem merge_smerge : forall fuel L R, (length L + length R <= fuel)%nat -> merge fuel L R = Some (smerge L R).
  Proof.
    induction fuel as [|f IH]; intros L R Hf.
    - destruct L as [|gl L]; [simpl; rewrite smerge_nil_l; reflexivity|].
      destruct R as [|gr R]; [simpl; reflexivity | simpl in Hf; lia].
    - destruct L as [|gl0 L0]; [simpl; rewrite smerge_nil_l; reflexivity|].
      destruct R as [|gr0 R0]; [reflexivity|].
      rewrite merge_step. cbv zeta.
      destruct (skip_l_spec (gl0 :: L0) (gr0 :: R0)) as (A1 & A2 & A3).
      set (sl := fst (skip_l (gl0 :: L0) (gr0 :: R0))) in *.
      set (L1 := snd (skip_l (gl0 :: L0) (gr0 :: R0))) in *.
      destruct (skip_r_spec L1 (gr0 :: R0)) as (B1 & B2 & B3).
      set (sr := fst (skip_r L1 (gr0 :: R0))) in *.
      set (R1 := snd (skip_r L1 (gr0 :: R0))) in *.
      assert (LL : (length (gl0 :: L0) = length sl + length L1)%nat) by (rewrite A1 at 1; apply app_length).
      assert (LR : (length (gr0 :: R0) = length sr + length R1)%nat) by (rewrite B1 at 1; apply app_length).
      assert (SM : smerge (gl0 :: L0) (gr0 :: R0) = (map OnlyL sl ++ map OnlyR sr) ++ smerge L1 R1).
      { rewrite A2, B2. rewrite app_assoc. reflexivity. }
      rewrite SM. simpl length in *.
      destruct L1 as [|gl L2] eqn:EL1.
      { rewrite IH by (simpl; lia). reflexivity. }
      destruct R1 as [|gr R2] eqn:ER1.
      { rewrite IH by (simpl in *; lia). reflexivity. }
      pose proof (B3 gl L2 gr R2 eq_refl eq_refl) as N1.
      unfold geq0 at 1. destruct (kcmp (fst gl) (fst gr) =? 0) eqn:G.
      + rewrite IH by (simpl in *; lia). rewrite smerge_cons.
        apply Z.eqb_eq in G. rewrite G. reflexivity.
      + apply Z.eqb_neq in G.
        destruct sl as [|s1 sl']; [destruct sr as [|s2 sr']|].
        * exfalso. simpl in B1. rewrite <- B1 in *. apply (A3 gl L2 gr0 R0 eq_refl eq_refl).
          inversion B1; subst. pose proof (Hrange (fst gl) (fst gr)). lia.
        * rewrite IH by (simpl in *; lia). reflexivity.
        * rewrite IH by (simpl in *; lia). reflexivity.
  Qed.

  (* ---------------- what the one-step merge emits *)
  Definition gsorted (L : list grp) : Prop := StronglySorted glt L.

  Lemma smerge_both_in L : forall R gl gr, In (Both gl gr) (smerge L R) ->
    In gl L /\ In gr R /\ kcmp (fst gl) (fst gr) = 0.
  Proof.
    induction L as [|gl0 L' IHL]; intros R gl gr.
    { rewrite smerge_nil_l, in_map_iff. intros (x & E & _). discriminate. }
    induction R as [|gr0 R' IHR].
    { rewrite smerge_nil_r, in_map_iff. intros (x & E & _). discriminate. }
    rewrite smerge_cons. destruct (kcmp (fst gl0) (fst gr0) =? -1) eqn:E1.
    - intros [X|X]; [discriminate|]. apply IHL in X. simpl. tauto.
    - destruct (kcmp (fst gl0) (fst gr0) =? 1) eqn:E2.
      + intros [X|X]; [discriminate|]. apply IHR in X. simpl. tauto.
      + intros [X|X].
        * inversion X; subst. apply Z.eqb_neq in E1, E2. pose proof (Hrange (fst gl) (fst gr)). simpl. repeat split; auto; lia.
        * apply IHL in X. simpl. tauto.
  Qed.

  Lemma sorted_unique R a b : gsorted R -> In a R -> In b R -> kcmp (fst a) (fst b) = 0 -> a = b.
  Proof.
    induction R as [|g R IH]; intros S; [intros []|].
    apply StronglySorted_inv in S. destruct S as [S F]. rewrite Forall_forall in F.
    intros [<-|Ia] [<-|Ib] Q; auto.
    - apply F in Ib. unfold glt in Ib. lia.
    - apply F in Ia. unfold glt in Ia. pose proof (Hanti (fst a) (fst g)). lia.
  Qed.

  Lemma smerge_both_complete L : forall R gl gr, gsorted L -> gsorted R ->
    In gl L -> In gr R -> kcmp (fst gl) (fst gr) = 0 -> In (Both gl gr) (smerge L R).
  Proof.
    induction L as [|gl0 L' IHL]; intros R gl gr SL; [intros _ []|].
    induction R as [|gr0 R' IHR]; intros SR; [intros _ []|].
    pose proof SL as SL0. pose proof SR as SR0.
    apply StronglySorted_inv in SL. destruct SL as [SL FL]. rewrite Forall_forall in FL.
    apply StronglySorted_inv in SR. destruct SR as [SR FR]. rewrite Forall_forall in FR.
    intros IL IR Q. rewrite smerge_cons. destruct (kcmp (fst gl0) (fst gr0) =? -1) eqn:E1.
    - apply Z.eqb_eq in E1. right. destruct IL as [<-|IL].
      + exfalso. destruct IR as [<-|IR]; [lia|]. apply FR in IR. unfold glt in IR.
        assert (kcmp (fst gl0) (fst gr) = -1) by (apply (lt_le_trans _ (fst gr0)); [exact E1 | lia]). lia.
      + apply IHL; auto.
    - destruct (kcmp (fst gl0) (fst gr0) =? 1) eqn:E2.
      + apply Z.eqb_eq in E2. right. destruct IR as [<-|IR].
        * exfalso. destruct IL as [<-|IL]; [lia|]. apply FL in IL. unfold glt in IL.
          (* gr0 < gl0 < gl, so gr0 < gl, contradicting gl ~ gr0 *)
          assert (X : kcmp (fst gr0) (fst gl0) = -1) by (pose proof (Hanti (fst gl0) (fst gr0)); lia).
          assert (kcmp (fst gr0) (fst gl) = -1) by (apply (lt_le_trans _ (fst gl0)); [exact X | lia]).
          pose proof (Hanti (fst gl) (fst gr0)). lia.
        * apply IHR; auto.
      + apply Z.eqb_neq in E1, E2.
        assert (E0 : kcmp (fst gl0) (fst gr0) = 0) by (pose proof (Hrange (fst gl0) (fst gr0)); lia).
        destruct IL as [<-|IL].
        * left. f_equal. apply (sorted_unique _ _ _ SR0); simpl; auto.
          apply (keq_trans _ (fst gl0)); [apply ksym; exact E0 | exact Q].
        * right. destruct IR as [<-|IR].
          -- exfalso. apply FL in IL. unfold glt in IL.
             pose proof (keq_trans _ _ _ Q (ksym _ _ E0)). pose proof (Hanti (fst gl) (fst gl0)). lia.
          -- apply IHL; auto.
  Qed.

  Definition lproj (e : ev) : list grp := match e with OnlyL g => [g] | Both g _ => [g] | OnlyR _ => [] end.
  Lemma smerge_lproj L : forall R, flat_map lproj (smerge L R) = L.
  Proof.
    induction L as [|gl0 L' IHL]; intros R.
    { rewrite smerge_nil_l. induction R; simpl; auto. }
    induction R as [|gr0 R' IHR].
    { rewrite smerge_nil_r. clear. induction (gl0 :: L'); simpl; f_equal; auto. }
    rewrite smerge_cons. destruct (kcmp (fst gl0) (fst gr0) =? -1).
    - simpl. f_equal. apply IHL.
    - destruct (kcmp (fst gl0) (fst gr0) =? 1); simpl; [exact IHR | f_equal; apply IHL].
  Qed.

  Lemma smerge_onlyL_in L : forall R gl, gsorted L -> gsorted R -> In (OnlyL gl) (smerge L R) ->
    In gl L /\ forall gr, In gr R -> kcmp (fst gl) (fst gr) <> 0.
  Proof.
    induction L as [|gl0 L' IHL]; intros R gl SL.
    { rewrite smerge_nil_l, in_map_iff. intros _ (x & E & _). discriminate. }
    induction R as [|gr0 R' IHR]; intros SR.
    { rewrite smerge_nil_r, in_map_iff. intros (x & E & I). inversion E; subst. split; [exact I | intros ? []]. }
    pose proof SR as SR0.
    apply StronglySorted_inv in SR. destruct SR as [SR FR]. rewrite Forall_forall in FR.
    pose proof SL as SL0.
    apply StronglySorted_inv in SL0. destruct SL0 as [SL' FL]. rewrite Forall_forall in FL.
    rewrite smerge_cons. destruct (kcmp (fst gl0) (fst gr0) =? -1) eqn:E1.
    - apply Z.eqb_eq in E1. intros [X|X].
      + inversion X; subst. split; [left; reflexivity|]. intros gr [<-|I]; [lia|].
        apply FR in I. unfold glt in I.
        assert (kcmp (fst gl) (fst gr) = -1) by (apply (lt_le_trans _ (fst gr0)); [exact E1 | lia]). lia.
      + destruct (IHL _ _ SL' SR0 X) as [A B]. split; [right; exact A | exact B].
    - destruct (kcmp (fst gl0) (fst gr0) =? 1) eqn:E2.
      + apply Z.eqb_eq in E2. intros [X|X]; [discriminate|].
        destruct (IHR SR X) as [A B]. split; [exact A|]. intros gr [<-|I]; [|apply B; exact I].
        destruct A as [<-|A]; [lia|].
        apply FL in A. unfold glt in A.
        assert (Y : kcmp (fst gr0) (fst gl0) = -1) by (pose proof (Hanti (fst gl0) (fst gr0)); lia).
        assert (kcmp (fst gr0) (fst gl) = -1) by (apply (lt_le_trans _ (fst gl0)); [exact Y | lia]).
        pose proof (Hanti (fst gl) (fst gr0)). lia.
      + apply Z.eqb_neq in E1, E2.
        assert (E0 : kcmp (fst gl0) (fst gr0) = 0) by (pose proof (Hrange (fst gl0) (fst gr0)); lia).
        intros [X|X]; [discriminate|].
        destruct (IHL _ _ SL' SR X) as [A B]. split; [right; exact A|].
        intros gr [<-|I]; [|apply B; exact I].
        apply FL in A. unfold glt in A.
        pose proof (lt_eq_l _ _ _ E0 A). pose proof (Hanti (fst gl) (fst gr0)). lia.
  Qed.

  Lemma smerge_onlyL_complete L R gl : In gl L -> (forall gr, In gr R -> kcmp (fst gl) (fst gr) <> 0) ->
    In (OnlyL gl) (smerge L R).
  Proof.
    intros I N. rewrite <- (smerge_lproj L R) in I. apply in_flat_map in I.
    destruct I as (e & Ie & X). destruct e as [g|g|g g']; simpl in X.
    - destruct X as [<-|[]]. exact Ie.
    - destruct X.
    - destruct X as [<-|[]]. apply smerge_both_in in Ie. destruct Ie as (_ & I2 & Q). exfalso. exact (N _ I2 Q).
  Qed.

  (* ---------------- assembling: pairs, xor rows, matched rows *)
  Notation merged := (merged key kcmp geq0).
  Notation ev_triples := (ev_triples key).
  Notation ev_left := (ev_left key).
  Notation ev_matched := (ev_matched key).
  Notation pair_of := (pair_of key).

  Lemma merged_eq lk rk : merged lk rk = Some (smerge (listby lk) (listby rk)).
  Proof. unfold M_join.merged, merge_fuel. apply merge_smerge. lia. Qed.

  Definition ev_pairs (e : ev) : list (nat * nat) :=
    match e with Both gl gr => list_prod (snd gl) (snd gr) | _ => [] end.
  Lemma ev_triples_pairs e : map pair_of (ev_triples e) = ev_pairs e.
  Proof.
    destruct e as [g|g|[k il] [k' ir]]; simpl; auto. rewrite map_map.
    rewrite <- (map_id (list_prod il ir)) at 2. apply map_ext. intros [a b]. reflexivity.
  Qed.
  Lemma flat_triples_pairs evs : map pair_of (flat_map ev_triples evs) = flat_map ev_pairs evs.
  Proof. induction evs; simpl; auto. rewrite map_app, ev_triples_pairs. f_equal. exact IHevs. Qed.

  Lemma in_ev_pairs evs i j : In (i, j) (flat_map ev_pairs evs) <->
    exists gl gr, In (Both gl gr) evs /\ In i (snd gl) /\ In j (snd gr).
  Proof.
    rewrite in_flat_map. split.
    - intros (e & Ie & X). destruct e as [g|g|gl gr]; simpl in X; try tauto.
      apply in_prod_iff in X. exists gl, gr. tauto.
    - intros (gl & gr & Ie & A & B). exists (Both gl gr). split; auto. simpl. apply in_prod_iff. tauto.
  Qed.

  Lemma smerge_pairs_nodup L : forall R, NoDup (concat (map snd L)) -> NoDup (concat (map snd R)) ->
    NoDup (flat_map ev_pairs (smerge L R)).
  Proof.
    induction L as [|gl0 L' IHL]; intros R NL.
    { intros _. rewrite smerge_nil_l. induction R; simpl; auto. constructor. }
    induction R as [|gr0 R' IHR]; intros NR.
    { rewrite smerge_nil_r. clear. induction (gl0 :: L'); simpl; auto. constructor. }
    simpl in NL, NR. destruct (nodup_app_inv _ _ NL) as (NL1 & NL2 & NL3).
    destruct (nodup_app_inv _ _ NR) as (NR1 & NR2 & NR3).
    rewrite smerge_cons. destruct (kcmp (fst gl0) (fst gr0) =? -1).
    - simpl. apply IHL; auto.
    - destruct (kcmp (fst gl0) (fst gr0) =? 1).
      + simpl. apply IHR; auto.
      + simpl. apply nodup_app; [apply nodup_prod; auto | apply IHL; auto |].
        intros [i j] X Y. apply in_prod_iff in X. apply in_ev_pairs in Y.
        destruct Y as (gl & gr & Ie & A & B). apply smerge_both_in in Ie.
        apply (NL3 i); [tauto|]. apply in_concat. exists (snd gl). split; [apply in_map; tauto | exact A].
  Qed.

  Lemma nodup_of_perm {A} (l l' : list A) : Permutation l l' -> NoDup l' -> NoDup l.
  Proof. intros P N. apply (Permutation_NoDup (Permutation_sym P) N). Qed.

  Lemma spec_pairs_in lk rk i j : In (i, j) (spec_pairs key kcmp lk rk) <->
    exists a b, nth_error lk i = Some a /\ nth_error rk j = Some b /\ kcmp a b = 0.
  Proof.
    unfold spec_pairs, indexed. rewrite in_flat_map. split.
    - intros ([a i'] & I1 & X). apply in_flat_map in X. destruct X as ([b j'] & I2 & X). simpl in X.
      destruct (kcmp a b =? 0) eqn:E; [|destruct X]. destruct X as [X|[]]. inversion X; subst.
      apply in_indexed in I1, I2. apply Z.eqb_eq in E. exists a, b. auto.
    - intros (a & b & N1 & N2 & Q). exists (a, i). split; [apply in_indexed; exact N1|].
      apply in_flat_map. exists (b, j). split; [apply in_indexed; exact N2|]. simpl. rewrite Q. left. reflexivity.
  Qed.
  Lemma spec_pairs_nodup lk rk : NoDup (spec_pairs key kcmp lk rk).
  Proof.
    unfold spec_pairs, indexed.
    apply (nodup_flat_map_tag _ (@snd key nat) (@fst nat nat)).
    - rewrite map_snd_combine_seq. apply seq_NoDup.
    - intros [a i] _. apply (nodup_flat_map_tag _ (@snd key nat) (@snd nat nat)).
      + rewrite map_snd_combine_seq. apply seq_NoDup.
      + intros [b j] _. simpl. destruct (kcmp a b =? 0); repeat constructor. intros [].
      + intros [b j] p _. simpl. destruct (kcmp a b =? 0); [intros [<-|[]]; reflexivity | intros []].
    - intros [a i] p _ X. apply in_flat_map in X. destruct X as ([b j] & _ & X). simpl in X.
      destruct (kcmp a b =? 0); [destruct X as [<-|[]]; reflexivity | destruct X].
  Qed.

  Theorem join_is_relational lk rk : exists ts,
    join_triples key kcmp geq0 lk rk = Some ts /\
    Permutation (map pair_of ts) (spec_pairs key kcmp lk rk) /\
    Forall (fun t => exists a b, nth_error lk (fst (pair_of t)) = Some a /\ nth_error rk (snd (pair_of t)) = Some b /\
                                 kcmp a (fst (fst t)) = 0 /\ kcmp b (fst (fst t)) = 0) ts.
  Proof.
    unfold join_triples. rewrite merged_eq. simpl. eexists. split; [reflexivity|].
    set (L := listby lk). set (R := listby rk).
    assert (NL : NoDup (concat (map snd L))) by (apply (nodup_of_perm _ _ (listby_rows lk)); apply seq_NoDup).
    assert (NR : NoDup (concat (map snd R))) by (apply (nodup_of_perm _ _ (listby_rows rk)); apply seq_NoDup).
    split.
    - rewrite flat_triples_pairs. apply NoDup_Permutation.
      + apply smerge_pairs_nodup; auto.
      + apply spec_pairs_nodup.
      + intros [i j]. rewrite in_ev_pairs, spec_pairs_in. split.
        * intros (gl & gr & Ie & A & B). apply smerge_both_in in Ie. destruct Ie as (IL & IR & Q).
          destruct (listby_sound lk gl i IL A) as (a & Na & Qa).
          destruct (listby_sound rk gr j IR B) as (b & Nb & Qb).
          exists a, b. repeat split; auto.
          apply (keq_trans _ (fst gl)); [exact Qa|]. apply (keq_trans _ (fst gr)); [exact Q | apply ksym; exact Qb].
        * intros (a & b & Na & Nb & Q).
          destruct (listby_complete lk a i Na) as (gl & IL & A & Qa).
          destruct (listby_complete rk b j Nb) as (gr & IR & B & Qb).
          exists gl, gr. repeat split; auto.
          apply smerge_both_complete; auto; try apply listby_sorted.
          apply (keq_trans _ a); [apply ksym; exact Qa|]. apply (keq_trans _ b); [exact Q | exact Qb].
    - rewrite Forall_forall. intros [[k i] j] X. apply in_flat_map in X. destruct X as (e & Ie & X).
      destruct e as [g|g|[kl il] [kr ir]]; simpl in X; try tauto.
      apply in_map_iff in X. destruct X as ([i' j'] & E & X). inversion E; subst. apply in_prod_iff in X.
      apply smerge_both_in in Ie. destruct Ie as (IL & IR & Q). simpl in Q.
      destruct (listby_sound lk _ i IL (proj1 X)) as (a & Na & Qa).
      destruct (listby_sound rk _ j IR (proj2 X)) as (b & Nb & Qb). simpl in *.
      exists a, b. repeat split; auto. apply (keq_trans _ kr); [exact Qb | apply ksym; exact Q].
  Qed.

  Lemma in_ev_left evs i : In i (flat_map ev_left evs) <-> exists gl, In (OnlyL gl) evs /\ In i (snd gl).
  Proof.
    rewrite in_flat_map. split.
    - intros (e & Ie & X). destruct e as [[k il]|g|gl gr]; simpl in X; try tauto.
      exists (k, il). auto.
    - intros ([k il] & Ie & A). exists (OnlyL (k, il)). auto.
  Qed.
  Lemma in_ev_matched evs i : In i (flat_map ev_matched evs) <-> exists gl gr, In (Both gl gr) evs /\ In i (snd gl).
  Proof.
    rewrite in_flat_map. split.
    - intros (e & Ie & X). destruct e as [g|g|[k il] gr]; simpl in X; try tauto. exists (k, il), gr. auto.
    - intros ([k il] & gr & Ie & A). exists (Both (k, il) gr). auto.
  Qed.

  Lemma left_rows_perm evs :
    Permutation (flat_map ev_left evs ++ flat_map ev_matched evs) (concat (map snd (flat_map lproj evs))).
  Proof.
    eapply perm_trans; [apply perm_flat_map_app|].
    induction evs as [|e evs IH]; simpl; [constructor|].
    rewrite map_app, concat_app. apply Permutation_app; [|exact IH].
    destruct e as [[k il]|g|[k il] gr]; simpl; rewrite ?app_nil_r; apply Permutation_refl.
  Qed.

  Theorem left_join_partition lk rk : exists xs ms ps,
    xor_rows key kcmp geq0 lk rk = Some xs /\ matched_rows key kcmp geq0 lk rk = Some ms /\
    join_pairs key kcmp geq0 lk rk = Some ps /\
    Permutation (xs ++ ms) (seq 0 (length lk)) /\
    (forall i, In i ms <-> exists j, In (i, j) ps).
  Proof.
    unfold xor_rows, matched_rows, join_pairs, join_triples. rewrite merged_eq. simpl.
    do 3 eexists. repeat split; try reflexivity.
    - eapply perm_trans; [apply left_rows_perm|]. rewrite smerge_lproj. apply listby_rows.
    - rewrite in_ev_matched. intros (gl & gr & Ie & A). pose proof Ie as Ie'.
      apply smerge_both_in in Ie. destruct Ie as (_ & IR & _).
      pose proof (listby_nonempty rk gr IR) as NE. destruct (snd gr) as [|j ir] eqn:E; [congruence|].
      exists j. rewrite flat_triples_pairs. apply in_ev_pairs. exists gl, gr. rewrite E. simpl. auto.
    - intros (j & X). rewrite flat_triples_pairs in X. apply in_ev_pairs in X.
      destruct X as (gl & gr & Ie & A & _). apply in_ev_matched. eauto.
  Qed.

  Lemma spec_anti_in lk rk i : In i (spec_anti key kcmp lk rk) <->
    exists a, nth_error lk i = Some a /\ forall b, In b rk -> kcmp a b <> 0.
  Proof.
    unfold spec_anti, indexed. rewrite in_flat_map. split.
    - intros ([a i'] & I1 & X). simpl in X.
      destruct (forallb (fun b => negb (kcmp a b =? 0)) rk) eqn:E; [|destruct X].
      destruct X as [<-|[]]. apply in_indexed in I1. exists a. split; auto.
      intros b Ib. rewrite forallb_forall in E. specialize (E b Ib). apply negb_true_iff in E. apply Z.eqb_neq in E. exact E.
    - intros (a & N & F). exists (a, i). split; [apply in_indexed; exact N|]. simpl.
      replace (forallb (fun b => negb (kcmp a b =? 0)) rk) with true; [left; reflexivity|].
      symmetry. apply forallb_forall. intros b Ib. apply negb_true_iff. apply Z.eqb_neq. auto.
  Qed.
  Lemma spec_anti_nodup lk rk : NoDup (spec_anti key kcmp lk rk).
  Proof.
    unfold spec_anti, indexed. apply (nodup_flat_map_tag _ (@snd key nat) (fun i : nat => i)).
    - rewrite map_snd_combine_seq. apply seq_NoDup.
    - intros [a i] _. simpl. destruct (forallb _ rk); repeat constructor. intros [].
    - intros [a i] p _. simpl. destruct (forallb _ rk); [intros [<-|[]]; reflexivity | intros []].
  Qed.

  Theorem xor_is_antijoin lk rk : exists xs,
    xor_rows key kcmp geq0 lk rk = Some xs /\ Permutation xs (spec_anti key kcmp lk rk).
  Proof.
    destruct (left_join_partition lk rk) as (xs & ms & ps & E1 & _ & _ & P & _).
    exists xs. split; [exact E1|].
    unfold xor_rows in E1. rewrite merged_eq in E1. simpl in E1. inversion E1 as [E]. clear E1. subst xs.
    apply NoDup_Permutation.
    - pose proof (nodup_of_perm _ _ P (seq_NoDup (length lk) 0)) as N.
      apply nodup_app_inv in N. tauto.
    - apply spec_anti_nodup.
    - intros i. rewrite in_ev_left, spec_anti_in. split.
      + intros (gl & Ie & A).
        apply smerge_onlyL_in in Ie; try apply listby_sorted. destruct Ie as (IL & F).
        destruct (listby_sound lk gl i IL A) as (a & Na & Qa). exists a. split; auto.
        intros b Ib Q. apply In_nth_error in Ib. destruct Ib as (j & Nb).
        destruct (listby_complete rk b j Nb) as (gr & IR & _ & Qb).
        apply (F gr IR). apply (keq_trans _ a); [apply ksym; exact Qa|]. apply (keq_trans _ b); auto.
      + intros (a & Na & F). destruct (listby_complete lk a i Na) as (gl & IL & A & Qa).
        exists gl. split; auto. apply smerge_onlyL_complete; auto.
        intros gr IR Q. pose proof (listby_nonempty rk gr IR) as NE.
        destruct (snd gr) as [|j ir] eqn:E'; [congruence|].
        destruct (listby_sound rk gr j IR) as (b & Nb & Qb); [rewrite E'; left; reflexivity|].
        apply (F b); [eapply nth_error_In; exact Nb|].
        apply (keq_trans _ (fst gl)); [exact Qa|]. apply (keq_trans _ (fst gr)); [exact Q | apply ksym; exact Qb].
  Qed.

  (* with a constant key (no key column) the relational join is the full cross product *)
  Theorem cross_when_keys_equal lk rk : (forall a b, In a lk -> In b rk -> kcmp a b = 0) ->
    Permutation (spec_pairs key kcmp lk rk) (cross_pairs (length lk) (length rk)).
  Proof.
    intros H. apply NoDup_Permutation.
    - apply spec_pairs_nodup.
    - apply nodup_prod; apply seq_NoDup.
    - intros [i j]. rewrite spec_pairs_in. unfold cross_pairs. rewrite in_prod_iff, !in_seq. split.
      + intros (a & b & Na & Nb & _). split; split; try lia.
        * apply nth_error_Some. congruence.
        * apply nth_error_Some. congruence.
      + intros [[_ A] [_ B]]. simpl in A, B.
        destruct (nth_error lk i) as [a|] eqn:Na; [|apply nth_error_None in Na; lia].
        destruct (nth_error rk j) as [b|] eqn:Nb; [|apply nth_error_None in Nb; lia].
        exists a, b. repeat split; auto. apply H; eapply nth_error_In; eauto.
  Qed.
End Laws.

(* ------------------------------------------------------------------ Part 2: tcmp is a lawful comparator *)
Lemma zcmp_range a b : zcmp a b = -1 \/ zcmp a b = 0 \/ zcmp a b = 1.
Proof. unfold zcmp. destruct (Z.ltb_spec a b), (Z.ltb_spec b a); lia. Qed.
Lemma zcmp_anti a b : zcmp b a = - zcmp a b.
Proof. unfold zcmp. destruct (Z.ltb_spec a b), (Z.ltb_spec b a); lia. Qed.
Lemma zcmp_trans a b c : zcmp a b <= 0 -> zcmp b c <= 0 -> zcmp a c <= 0.
Proof.
  unfold zcmp. destruct (Z.ltb_spec a b), (Z.ltb_spec b a), (Z.ltb_spec b c), (Z.ltb_spec c b),
    (Z.ltb_spec a c), (Z.ltb_spec c a); lia.
Qed.
Lemma zcmp_eq a b : zcmp a b = 0 <-> a = b.
Proof. unfold zcmp. destruct (Z.ltb_spec a b), (Z.ltb_spec b a); lia. Qed.

Lemma zcmp_lt a b : zcmp a b = -1 <-> a < b.
Proof. unfold zcmp. destruct (Z.ltb_spec a b), (Z.ltb_spec b a); lia. Qed.

Lemma lcmp_range a : forall b, lcmp a b = -1 \/ lcmp a b = 0 \/ lcmp a b = 1.
Proof.
  induction a as [|x a IH]; destruct b as [|y b]; simpl; try lia.
  destruct (zcmp x y =? 0) eqn:E; [apply IH | apply Z.eqb_neq in E; pose proof (zcmp_range x y); lia].
Qed.
Lemma lcmp_anti a : forall b, lcmp b a = - lcmp a b.
Proof.
  induction a as [|x a IH]; destruct b as [|y b]; simpl; try lia.
  pose proof (zcmp_anti x y). destruct (zcmp x y =? 0) eqn:E, (zcmp y x =? 0) eqn:E'; try apply IH;
    rewrite ?Z.eqb_eq, ?Z.eqb_neq in *; lia.
Qed.
Lemma lcmp_trans a : forall b c, lcmp a b <= 0 -> lcmp b c <= 0 -> lcmp a c <= 0.
Proof.
  induction a as [|x a IH]; destruct b as [|y b]; destruct c as [|z c]; simpl; try lia.
  unfold zcmp.
  destruct (Z.ltb_spec x y), (Z.ltb_spec y x), (Z.ltb_spec y z), (Z.ltb_spec z y), (Z.ltb_spec x z), (Z.ltb_spec z x);
    simpl; try lia; apply IH.
Qed.

Lemma ccmp_range a b : ccmp a b = -1 \/ ccmp a b = 0 \/ ccmp a b = 1.
Proof. destruct a as [| | | | |[]|], b as [| | | | |[]|]; unfold ccmp; simpl; try lia; try apply zcmp_range; apply lcmp_range. Qed.
Lemma ccmp_anti a b : ccmp b a = - ccmp a b.
Proof. destruct a as [| | | | |[]|], b as [| | | | |[]|]; unfold ccmp; simpl; try lia; try apply zcmp_anti; apply lcmp_anti. Qed.
Lemma ccmp_trans a b c : ccmp a b <= 0 -> ccmp b c <= 0 -> ccmp a c <= 0.
Proof. destruct a as [| | | | |[]|], b as [| | | | |[]|], c as [| | | | |[]|]; unfold ccmp; simpl; try lia; try apply zcmp_trans; apply lcmp_trans. Qed.

Lemma cmparr_range a : forall b, cmparr a b = -1 \/ cmparr a b = 0 \/ cmparr a b = 1.
Proof.
  induction a as [|x a IH]; destruct b as [|y b]; simpl; try lia.
  destruct (ccmp x y =? 0) eqn:E; [apply IH | apply Z.eqb_neq in E; pose proof (ccmp_range x y); lia].
Qed.
Lemma cmparr_anti a : forall b, cmparr b a = - cmparr a b.
Proof.
  induction a as [|x a IH]; destruct b as [|y b]; simpl; try lia.
  pose proof (ccmp_anti x y). destruct (ccmp x y =? 0) eqn:E, (ccmp y x =? 0) eqn:E'; try apply IH;
    rewrite ?Z.eqb_eq, ?Z.eqb_neq in *; lia.
Qed.
Lemma cmparr_trans a : forall b c, length a = length b -> length b = length c ->
  cmparr a b <= 0 -> cmparr b c <= 0 -> cmparr a c <= 0.
Proof.
  induction a as [|x a IH]; destruct b as [|y b]; destruct c as [|z c]; simpl; try lia; try discriminate.
  intros L1 L2.
  pose proof (ccmp_range x y). pose proof (ccmp_range y z). pose proof (ccmp_range x z).
  pose proof (keq_trans cell ccmp ccmp_range ccmp_anti ccmp_trans x y z).
  pose proof (lt_le_trans cell ccmp ccmp_range ccmp_anti ccmp_trans x y z).
  pose proof (le_lt_trans cell ccmp ccmp_range ccmp_anti ccmp_trans x y z).
  pose proof (ccmp_trans x y z).
  destruct (ccmp x y =? 0) eqn:E1, (ccmp y z =? 0) eqn:E2, (ccmp x z =? 0) eqn:E3;
    rewrite ?Z.eqb_eq, ?Z.eqb_neq in *; try lia. apply IH; lia.
Qed.

Lemma tcmp_range a b : tcmp a b = -1 \/ tcmp a b = 0 \/ tcmp a b = 1.
Proof.
  unfold tcmp. destruct (zcmp _ _ =? 0) eqn:E; [apply cmparr_range|].
  apply Z.eqb_neq in E. pose proof (zcmp_range (Z.of_nat (length a)) (Z.of_nat (length b))). lia.
Qed.
Lemma tcmp_anti a b : tcmp b a = - tcmp a b.
Proof.
  unfold tcmp. pose proof (zcmp_anti (Z.of_nat (length a)) (Z.of_nat (length b))).
  destruct (zcmp (Z.of_nat (length a)) _ =? 0) eqn:E, (zcmp (Z.of_nat (length b)) _ =? 0) eqn:E';
    rewrite ?Z.eqb_eq, ?Z.eqb_neq in *; try lia. apply cmparr_anti.
Qed.
Lemma tcmp_trans a b c : tcmp a b <= 0 -> tcmp b c <= 0 -> tcmp a c <= 0.
Proof.
  unfold tcmp, zcmp.
  destruct (Z.ltb_spec (Z.of_nat (length a)) (Z.of_nat (length b))), (Z.ltb_spec (Z.of_nat (length b)) (Z.of_nat (length a))),
    (Z.ltb_spec (Z.of_nat (length b)) (Z.of_nat (length c))), (Z.ltb_spec (Z.of_nat (length c)) (Z.of_nat (length b))),
    (Z.ltb_spec (Z.of_nat (length a)) (Z.of_nat (length c))), (Z.ltb_spec (Z.of_nat (length c)) (Z.of_nat (length a)));
    simpl; try lia.
  apply cmparr_trans; lia.
Qed.

(* ------------------------------------------------------------------ Part 3: tables; mode 'r'; the pinned tree *)
Section Flip.
  Variable key : Type.
  Variable kcmp : key -> key -> Z.
  Hypothesis Hrange : forall a b, kcmp a b = -1 \/ kcmp a b = 0 \/ kcmp a b = 1.
  Hypothesis Hanti : forall a b, kcmp b a = - kcmp a b.
  Hypothesis Htrans : forall a b c, kcmp a b <= 0 -> kcmp b c <= 0 -> kcmp a c <= 0.

  Definition flip_ev (e : ev key) : ev key :=
    match e with OnlyL g => OnlyR g | OnlyR g => OnlyL g | Both a b => Both b a end.
  Lemma smerge_flip L : forall R, smerge key kcmp R L = map flip_ev (smerge key kcmp L R).
  Proof.
    induction L as [|gl L IHL]; intros R.
    { rewrite smerge_nil_l, smerge_nil_r, map_map. reflexivity. }
    induction R as [|gr R IHR].
    { rewrite smerge_nil_l, smerge_nil_r, map_map. reflexivity. }
    rewrite !smerge_cons. pose proof (Hanti (fst gl) (fst gr)) as A. pose proof (Hrange (fst gl) (fst gr)).
    destruct (kcmp (fst gl) (fst gr) =? -1) eqn:E1, (kcmp (fst gl) (fst gr) =? 1) eqn:E2,
             (kcmp (fst gr) (fst gl) =? -1) eqn:E3, (kcmp (fst gr) (fst gl) =? 1) eqn:E4;
      rewrite ?Z.eqb_eq, ?Z.eqb_neq in *; try lia; cbn [map flip_ev]; f_equal; auto.
  Qed.
  Lemma ev_right_flip evs : flat_map (ev_right key) evs = flat_map (ev_left key) (map flip_ev evs).
  Proof. induction evs as [|e evs IH]; simpl; auto. rewrite IH. destruct e as [g|g|a b]; reflexivity. Qed.

  (* xor in mode 'r' is the anti-join the other way round *)
  Theorem xor_r_is_antijoin lk rk : exists ys,
    xor_rows_r key kcmp (geq0 key kcmp) lk rk = Some ys /\ Permutation ys (spec_anti key kcmp rk lk).
  Proof.
    destruct (xor_is_antijoin key kcmp Hrange Hanti Htrans rk lk) as (ys & E & P).
    exists ys. split; [|exact P].
    unfold xor_rows_r. unfold xor_rows in E. rewrite merged_eq in *; auto. simpl in *.
    rewrite ev_right_flip, <- smerge_flip. exact E.
  Qed.
End Flip.

Definition T_range := tcmp_range.
Definition T_anti := tcmp_anti.
Definition T_trans := tcmp_trans.

Lemma tkeq_geq0 : tkeq = geq0 (list cell) tcmp.
Proof. reflexivity. Qed.

(* join on >= 1 key column: the rows are out_row of exactly the relational pairs, labelled with an equivalent key *)
Theorem join_fixed_rows x y lc rc m cols lcs rcs :
  let l1 := resolve_l x y lc in let r1 := resolve_r l1 rc in
  length l1 = length r1 -> key_names l1 r1 = Some cols -> cols <> [] ->
  eval_items x l1 = Some lcs -> eval_items y r1 = Some rcs ->
  let lk := row_keys (nrows x) lcs in let rk := row_keys (nrows y) rcs in
  exists ts, join_fixed x y lc rc m = Ok (out_names x y cols, map (out_row x y m cols) ts) /\
    Permutation (map (pair_of (list cell)) ts) (spec_pairs (list cell) tcmp lk rk) /\
    Forall (fun t => exists a b, nth_error lk (fst (pair_of _ t)) = Some a /\ nth_error rk (snd (pair_of _ t)) = Some b /\
                                 tcmp a (fst (fst t)) = 0 /\ tcmp b (fst (fst t)) = 0) ts.
Proof.
  intros l1 r1 HL HK HC E1 E2 lk rk.
  destruct (join_is_relational (list cell) tcmp T_range T_anti T_trans lk rk) as (ts & J & P & F).
  exists ts. split; [|split; assumption].
  unfold join_fixed, join_table. fold l1. fold r1. rewrite HL, Nat.eqb_refl. simpl negb. cbv iota.
  rewrite HK. destruct cols as [|c0 cols]; [congruence|].
  rewrite E1, E2. fold lk. fold rk. rewrite tkeq_geq0, J. reflexivity.
Qed.

(* no key column: the full cross product *)
Theorem join_fixed_cross x y lc rc m :
  let l1 := resolve_l x y lc in let r1 := resolve_r l1 rc in
  length l1 = length r1 -> key_names l1 r1 = Some [] ->
  join_fixed x y lc rc m =
  Ok (out_names x y [], map (out_row x y m []) (map (fun p => ([], fst p, snd p)) (cross_pairs (nrows x) (nrows y)))).
Proof.
  intros l1 r1 HL HK. unfold join_fixed, join_table. fold l1. fold r1. rewrite HL, Nat.eqb_refl. simpl negb. cbv iota.
  rewrite HK. reflexivity.
Qed.

Theorem xor_fixed_rows x y lc rc lcs rcs :
  let l1 := resolve_l x y lc in let r1 := resolve_r l1 rc in
  length l1 = length r1 -> l1 <> [] ->
  eval_items x l1 = Some lcs -> eval_items y r1 = Some rcs ->
  let lk := row_keys (nrows x) lcs in let rk := row_keys (nrows y) rcs in
  (exists xs, xor_fixed x y lc rc false = Ok (take_rows x xs) /\ Permutation xs (spec_anti (list cell) tcmp lk rk)) /\
  (exists ys, xor_fixed x y lc rc true = Ok (take_rows y ys) /\ Permutation ys (spec_anti (list cell) tcmp rk lk)).
Proof.
  intros l1 r1 HL HC E1 E2 lk rk.
  destruct (xor_is_antijoin (list cell) tcmp T_range T_anti T_trans lk rk) as (xs & X & PX).
  destruct (xor_r_is_antijoin (list cell) tcmp T_range T_anti T_trans lk rk) as (ys & Y & PY).
  split; [exists xs | exists ys]; (split; [|assumption]);
    unfold xor_fixed, xor_table; fold l1; fold r1; rewrite HL, Nat.eqb_refl; simpl negb; cbv iota;
    (destruct l1 as [|i0 l1']; [congruence|]); rewrite E1, E2; fold lk; fold rk; rewrite tkeq_geq0.
  - rewrite X. reflexivity.
  - rewrite Y. reflexivity.
Qed.

(* the repaired model never reports Timeout, whatever the spelling of the keys *)
Theorem fixed_never_times_out x y lc rc m r :
  join_fixed x y lc rc m <> Err "Timeout"%string /\ xor_fixed x y lc rc r <> Err "Timeout"%string.
Proof.
  split.
  - unfold join_fixed, join_table.
    destruct (negb _); [discriminate|]. destruct (key_names _ _) as [[|c cols]|]; try discriminate.
    destruct (eval_items x _) as [lcs|]; [|discriminate]. destruct (eval_items y _) as [rcs|]; [|discriminate].
    destruct (join_is_relational (list cell) tcmp T_range T_anti T_trans (row_keys (nrows x) lcs) (row_keys (nrows y) rcs)) as (ts & J & _).
    rewrite tkeq_geq0, J. discriminate.
  - unfold xor_fixed, xor_table.
    destruct (negb _); [discriminate|]. destruct (resolve_l x y lc) as [|i0 l1]; [discriminate|].
    destruct (eval_items x _) as [lcs|]; [|discriminate]. destruct (eval_items y _) as [rcs|]; [|destruct r; discriminate].
    destruct (xor_is_antijoin (list cell) tcmp T_range T_anti T_trans (row_keys (nrows x) lcs) (row_keys (nrows y) rcs)) as (xs & X & _).
    destruct (xor_r_is_antijoin (list cell) tcmp T_range T_anti T_trans (row_keys (nrows x) lcs) (row_keys (nrows y) rcs)) as (ys & Y & _).
    rewrite tkeq_geq0, X, Y. destruct r; discriminate.
Qed.

(* operands: a call returns them as they were *)
Lemma join_st_operands geq s lc rc m : fst (join_st geq s lc rc m) = s.
Proof. reflexivity. Qed.
Lemma xor_st_operands geq s lc rc r : fst (xor_st geq s lc rc r) = s.
Proof. reflexivity. Qed.

(* the pinned tree: cursors move on cmp, groups are matched with ==; two distinct NaN objects are
   cmp-equal but not ==, so no cursor ever moves: no amount of fuel lets the loop finish *)
Definition nanL : list (grp (list cell)) := [([CNaN 1], [0%nat])].
Definition nanR : list (grp (list cell)) := [([CNaN 2], [0%nat])].
Lemma pinned_merge_spins : forall fuel, merge (list cell) tcmp py_eq_key fuel nanL nanR = None.
Proof. induction fuel as [|f IH]; [reflexivity|]. unfold nanL, nanR in *. cbn. cbn in IH. rewrite IH. reflexivity. Qed.
Lemma pinned_listby_nan i : listby (list cell) tcmp py_eq_key [[CNaN i]] = [([CNaN i], [0%nat])].
Proof. reflexivity. Qed.
Lemma pinned_join_times_out :
  join_pinned [("a"%string, [CNaN 1; CNum false 2])] [("a"%string, [CNaN 2; CNum false 2])] (SOne (KCol "a"%string)) SNone MNone = Err "Timeout"%string /\
  xor_pinned [("a"%string, [CNaN 1; CNum false 2])] [("a"%string, [CNaN 2; CNum false 2])] (SOne (KCol "a"%string)) SNone false = Err "Timeout"%string.
Proof. split; vm_compute; reflexivity. Qed.

(* ------------------------------------------------------------------ what an output row carries *)
Lemma map_fst_combine {A B} (l : list A) (l' : list B) : length l = length l' -> map fst (combine l l') = l.
Proof. revert l'. induction l as [|a l IH]; destruct l' as [|b l']; simpl; intros H; try discriminate; auto. f_equal. apply IH. lia. Qed.
Theorem out_row_columns x y m cols k i j :
  (forall n c, In (n, c) (combine cols k) -> In (n, OC c) (out_row x y m cols (k, i, j))) /\
  (forall n, In n (lkeys_of x y cols) -> In (n, OC (cellat x n i)) (out_row x y m cols (k, i, j))) /\
  (forall n, In n (rkeys_of x y cols) -> In (n, OC (cellat y n j)) (out_row x y m cols (k, i, j))) /\
  (forall n, In n (jkeys_of x y cols) -> In (n, apply_mode m (cellat x n i) (cellat y n j)) (out_row x y m cols (k, i, j))) /\
  (length k = length cols -> map fst (out_row x y m cols (k, i, j)) = out_names x y cols).
Proof.
  unfold out_row. repeat split.
  - intros n c I. apply in_or_app. left. apply in_map_iff. exists (n, c). auto.
  - intros n I. apply in_or_app. right. apply in_or_app. left. apply in_map_iff. exists n. auto.
  - intros n I. apply in_or_app. right. apply in_or_app. right. apply in_or_app. left. apply in_map_iff. exists n. auto.
  - intros n I. apply in_or_app. right. apply in_or_app. right. apply in_or_app. right. apply in_map_iff. exists n. auto.
  - intros L. unfold out_names. rewrite !map_app, !map_map. simpl. rewrite !map_id.
    f_equal. change (fun x0 : string * cell => fst x0) with (@fst string cell). apply map_fst_combine. auto.
Qed.
