(* C14 - on NaN-free plain values eq_model is Python's ==.
   The only non-structural step: comparing the key-sorted items pairwise (what eq does) is the
   same as dict.__eq__'s "same length and every key of x looks up to an equal value in y". *)
From Coq Require Import ZArith NArith List Bool String Lia OrderedTypeEx.
From PB Require Import model.M_eq proofs.P_eq.
Import ListNotations.

(* ------------------------------------------------------------ the key order is a total order *)
Lemma leb_iff a b : String.leb a b = true <-> a = b \/ String_as_OT.lt a b.
Proof.
  unfold String.leb. destruct (String.compare a b) eqn:C.
  - apply String_as_OT.cmp_eq in C. tauto.
  - apply String_as_OT.cmp_lt in C. tauto.
  - split; [discriminate|]. intros [E|L].
    + apply String_as_OT.cmp_eq in E. unfold String_as_OT.cmp in E. congruence.
    + apply String_as_OT.cmp_lt in L. unfold String_as_OT.cmp in L. congruence.
Qed.

Lemma leb_trans a b c : String.leb a b = true -> String.leb b c = true -> String.leb a c = true.
Proof.
  rewrite !leb_iff. intros [->|L1] [->|L2]; auto. right. eapply String_as_OT.lt_trans; eassumption.
Qed.

Lemma leb_false_flip a b : String.leb a b = false -> String.leb b a = true.
Proof. destruct (String.leb_total a b) as [H|H]; congruence. Qed.

(* ------------------------------------------------------------ insertion commutes for distinct keys *)
Lemma insert_comm {A} (a b : string * A) l : fst a <> fst b ->
  insert_item a (insert_item b l) = insert_item b (insert_item a l).
Proof.
  intros N. induction l as [|h t IH]; simpl.
  - destruct (String.leb (fst a) (fst b)) eqn:AB, (String.leb (fst b) (fst a)) eqn:BA; try reflexivity.
    + elim N. apply String.leb_antisym; assumption.
    + apply leb_false_flip in AB. congruence.
  - destruct (String.leb (fst a) (fst h)) eqn:AH, (String.leb (fst b) (fst h)) eqn:BH; simpl; rewrite ?AH, ?BH.
    + destruct (String.leb (fst a) (fst b)) eqn:AB, (String.leb (fst b) (fst a)) eqn:BA; try reflexivity.
      * elim N. apply String.leb_antisym; assumption.
      * apply leb_false_flip in AB. congruence.
    + destruct (String.leb (fst b) (fst a)) eqn:BA; [|reflexivity].
      rewrite (leb_trans _ _ _ BA AH) in BH. discriminate.
    + destruct (String.leb (fst a) (fst b)) eqn:AB; [|reflexivity].
      rewrite (leb_trans _ _ _ AB BH) in AH. discriminate.
    + rewrite IH. reflexivity.
Qed.

(* ------------------------------------------------------------ keys, lookup, removal *)
Definition has_key {A} (k : string) (l : list (string * A)) : bool :=
  existsb (fun kv => String.eqb k (fst kv)) l.
Definition remove_key {A} (k : string) (l : list (string * A)) : list (string * A) :=
  filter (fun kv => negb (String.eqb k (fst kv))) l.

Lemma lookup_none {A} k (l : list (string * A)) : lookup k l = None <-> has_key k l = false.
Proof.
  induction l as [|h t IH]; simpl; [tauto|].
  destruct (String.eqb k (fst h)); simpl; [split; discriminate | exact IH].
Qed.

Lemma remove_key_absent {A} k (l : list (string * A)) : has_key k l = false -> remove_key k l = l.
Proof.
  induction l as [|h t IH]; simpl; [reflexivity|]. intros H. apply orb_false_iff in H as [H1 H2].
  rewrite H1. simpl. rewrite (IH H2). reflexivity.
Qed.

Lemma has_key_remove {A} k k' (l : list (string * A)) :
  has_key k' (remove_key k l) = negb (String.eqb k k') && has_key k' l.
Proof.
  induction l as [|h t IH]; simpl; [rewrite andb_false_r; reflexivity|].
  destruct (String.eqb k (fst h)) eqn:E; simpl.
  - apply String.eqb_eq in E. subst. rewrite IH. rewrite (String.eqb_sym k').
    destruct (String.eqb (fst h) k'); reflexivity.
  - rewrite IH. destruct (String.eqb k k') eqn:E'; simpl; [|reflexivity].
    apply String.eqb_eq in E'. subst. rewrite E. reflexivity.
Qed.

Lemma nodup_remove {A} k (l : list (string * A)) : nodup_keys l = true -> nodup_keys (remove_key k l) = true.
Proof.
  induction l as [|h t IH]; simpl; [reflexivity|]. intros H. apply andb_true_iff in H as [H1 H2].
  destruct (String.eqb k (fst h)); simpl; [apply IH; assumption|].
  rewrite (IH H2), andb_true_r. fold (has_key (fst h) (remove_key k t)). rewrite has_key_remove.
  fold (has_key (fst h) t) in H1. apply negb_true_iff in H1. rewrite H1, andb_false_r. reflexivity.
Qed.

Lemma lookup_remove_other {A} k k' (l : list (string * A)) : k <> k' -> lookup k' (remove_key k l) = lookup k' l.
Proof.
  intros N. induction l as [|h t IH]; simpl; [reflexivity|].
  destruct (String.eqb k (fst h)) eqn:E; simpl.
  - apply String.eqb_eq in E. subst. destruct (String.eqb k' (fst h)) eqn:E'; [|exact IH].
    apply String.eqb_eq in E'. congruence.
  - rewrite IH. reflexivity.
Qed.

Lemma length_remove {A} k (l : list (string * A)) v : nodup_keys l = true -> lookup k l = Some v ->
  List.length l = S (List.length (remove_key k l)).
Proof.
  induction l as [|h t IH]; simpl; [discriminate|]. intros H L. apply andb_true_iff in H as [H1 H2].
  destruct (String.eqb k (fst h)) eqn:E; simpl.
  - apply String.eqb_eq in E. subst. fold (has_key (fst h) t) in H1. apply negb_true_iff in H1.
    rewrite (remove_key_absent _ _ H1). reflexivity.
  - rewrite (IH H2 L). reflexivity.
Qed.

Lemma sort_remove {A} k (l : list (string * A)) v : nodup_keys l = true -> lookup k l = Some v ->
  sort_items l = insert_item (k, v) (sort_items (remove_key k l)).
Proof.
  induction l as [|h t IH]; simpl; [discriminate|]. intros H L. apply andb_true_iff in H as [H1 H2].
  destruct (String.eqb k (fst h)) eqn:E; simpl.
  - apply String.eqb_eq in E. subst. injection L as <-. fold (has_key (fst h) t) in H1. apply negb_true_iff in H1.
    rewrite (remove_key_absent _ _ H1). destruct h; reflexivity.
  - rewrite (IH H2 L). apply insert_comm. simpl. intros N. subst. rewrite String.eqb_refl in E. discriminate.
Qed.

Lemma sort_length {A} (l : list (string * A)) : List.length (sort_items l) = List.length l.
Proof.
  assert (I : forall a (s : list (string * A)), List.length (insert_item a s) = S (List.length s)).
  { intros a s. induction s as [|h t IH]; simpl; [reflexivity|]. destruct (String.leb (fst a) (fst h)); simpl; congruence. }
  induction l; simpl; [reflexivity|]. rewrite I. congruence.
Qed.

Lemma insert_In {A} (a x : string * A) l : In x (insert_item a l) <-> x = a \/ In x l.
Proof.
  induction l as [|h t IH]; simpl; [intuition|].
  destruct (String.leb (fst a) (fst h)); simpl; [intuition | rewrite IH; intuition].
Qed.
Lemma sort_In {A} (x : string * A) l : In x (sort_items l) <-> In x l.
Proof. induction l; simpl; [tauto|]. rewrite insert_In, IHl. intuition. Qed.

Lemma lookup_In {A} k v (l : list (string * A)) : nodup_keys l = true -> In (k, v) l -> lookup k l = Some v.
Proof.
  induction l as [|h t IH]; simpl; [tauto|]. intros H [->|I]; simpl.
  - rewrite String.eqb_refl. reflexivity.
  - apply andb_true_iff in H as [H1 H2]. destruct (String.eqb k (fst h)) eqn:E; [|apply IH; assumption].
    apply String.eqb_eq in E. subst. apply negb_true_iff in H1.
    assert (X : existsb (fun kv => String.eqb (fst h) (fst kv)) t = true).
    { apply existsb_exists. exists (fst h, v). split; [assumption | apply String.eqb_refl]. }
    congruence.
Qed.

(* ------------------------------------------------------------ sorted-pairwise = lookup *)
Section sorted_vs_lookup.
  Context {A : Type} (E : A -> A -> bool).
  Definition R (kv kv' : string * A) : bool := String.eqb (fst kv) (fst kv') && E (snd kv) (snd kv').
  Definition lk (l l' : list (string * A)) : bool :=
    forallb (fun kv => match lookup (fst kv) l' with Some v' => E (snd kv) v' | None => false end) l.

  Lemma insert_R a b l l' : R a b = true -> forall2b R l l' = true ->
    forall2b R (insert_item a l) (insert_item b l') = true.
  Proof.
    intros Rab. revert l'. induction l as [|h t IH]; intros [|h' t']; simpl; try discriminate.
    - intros _. rewrite Rab. reflexivity.
    - intros H. apply andb_true_iff in H as [H1 H2].
      assert (K : fst a = fst b) by (apply andb_true_iff in Rab as [K _]; apply String.eqb_eq in K; exact K).
      assert (K' : fst h = fst h') by (apply andb_true_iff in H1 as [K' _]; apply String.eqb_eq in K'; exact K').
      rewrite <- K, <- K'. destruct (String.leb (fst a) (fst h)); simpl.
      + rewrite Rab, H1, H2. reflexivity.
      + rewrite H1. apply IH. exact H2.
  Qed.

  Lemma lookup_to_sorted l : forall l', nodup_keys l = true -> nodup_keys l' = true ->
    List.length l = List.length l' -> lk l l' = true -> forall2b R (sort_items l) (sort_items l') = true.
  Proof.
    induction l as [|a t IH]; intros l' N N' LEN H.
    - destruct l'; [reflexivity | discriminate].
    - simpl in H. apply andb_true_iff in H as [Ha Ht].
      destruct (lookup (fst a) l') as [v'|] eqn:L; [|discriminate].
      simpl in N. apply andb_true_iff in N as [N1 N2].
      rewrite (sort_remove _ _ _ N' L). simpl. apply insert_R.
      + unfold R. simpl. rewrite String.eqb_refl. exact Ha.
      + apply IH; try assumption.
        * apply nodup_remove. exact N'.
        * rewrite (length_remove _ _ _ N' L) in LEN. simpl in LEN. congruence.
        * unfold lk. apply forallb_forall. intros kv I.
          unfold lk in Ht. rewrite forallb_forall in Ht. specialize (Ht kv I).
          rewrite lookup_remove_other; [exact Ht|]. intros X. apply negb_true_iff in N1.
          assert (Y : existsb (fun kv0 => String.eqb (fst a) (fst kv0)) t = true).
          { apply existsb_exists. exists kv. split; [assumption | rewrite X; apply String.eqb_refl]. }
          congruence.
  Qed.

  Lemma Forall2_In_l (P : string * A -> string * A -> Prop) l l' x : Forall2 P l l' -> In x l -> exists y, In y l' /\ P x y.
  Proof.
    induction 1; simpl; [tauto|]. intros [->|I].
    - eexists; split; [left; reflexivity | assumption].
    - destruct (IHForall2 I) as (y' & I' & Py). exists y'. split; [right|]; assumption.
  Qed.

  Lemma sorted_to_lookup l l' : nodup_keys l' = true ->
    forall2b R (sort_items l) (sort_items l') = true -> List.length l = List.length l' /\ lk l l' = true.
  Proof.
    intros N' H. split.
    - rewrite <- (sort_length l), <- (sort_length l'). eapply forall2b_length. exact H.
    - apply forall2b_Forall2 in H. unfold lk. apply forallb_forall. intros kv I.
      apply (proj2 (sort_In _ _)) in I. destruct (Forall2_In_l _ _ _ _ H I) as (kv' & I' & Rk).
      apply (proj1 (sort_In _ _)) in I'. apply andb_true_iff in Rk as [K V]. apply String.eqb_eq in K.
      destruct kv' as [k' v']. simpl in *. subst k'. rewrite (lookup_In _ _ _ N' I'). exact V.
  Qed.

  Lemma sorted_vs_lookup l l' : nodup_keys l = true -> nodup_keys l' = true ->
    forall2b R (sort_items l) (sort_items l') = Nat.eqb (List.length l) (List.length l') && lk l l'.
  Proof.
    intros N N'. destruct (forall2b R (sort_items l) (sort_items l')) eqn:H.
    - destruct (sorted_to_lookup _ _ N' H) as [L K]. rewrite L, Nat.eqb_refl, K. reflexivity.
    - destruct (Nat.eqb (List.length l) (List.length l')) eqn:L; [|reflexivity].
      destruct (lk l l') eqn:K; [|reflexivity].
      apply Nat.eqb_eq in L. rewrite (lookup_to_sorted _ _ N N' L K) in H. discriminate.
  Qed.
End sorted_vs_lookup.

(* ------------------------------------------------------------ the theorem *)
Lemma is_container_norm v : is_container (norm v) = is_container v.
Proof. destruct v; reflexivity. Qed.

Lemma lookup_plain k (l : list (string * val)) v :
  forallb (fun kv => plain (snd kv)) l = true -> lookup k l = Some v -> plain v = true.
Proof.
  induction l as [|h t IH]; simpl; [discriminate|]. intros H L. apply andb_true_iff in H as [H1 H2].
  destruct (String.eqb k (fst h)); [injection L as <-; exact H1 | apply IH; assumption].
Qed.

Lemma forallb_ext_in' {A} (f g : A -> bool) l : (forall a, In a l -> f a = g a) -> forallb f l = forallb g l.
Proof.
  induction l as [|h t IH]; simpl; [reflexivity|]. intros H.
  rewrite (H h (or_introl eq_refl)), IH; [reflexivity|]. intros a I. apply H. right. exact I.
Qed.

Theorem eq_model_py_eq x : forall y, plain x = true -> plain y = true -> eq_model x y = py_eq x y.
Proof.
  induction x using val_ind'; intros y PX PY; try discriminate.
  1-7: destruct y; try discriminate; reflexivity.
  - (* tuple *) destruct y; try discriminate; try reflexivity.
    unfold eq_model. simpl. rewrite forall2b_map. simpl in PX, PY. fold (eq_model).
    revert l0 PY. induction H as [|a t Ha Ht IH]; intros [|b t'] PY; simpl; try reflexivity.
    simpl in PX, PY. apply andb_true_iff in PX as [PX1 PX2]. apply andb_true_iff in PY as [PY1 PY2].
    fold (eq_model a b). rewrite (Ha b PX1 PY1), (IH PX2 t' PY2). reflexivity.
  - (* list *) destruct y; try discriminate; try reflexivity.
    unfold eq_model. simpl. rewrite forall2b_map. simpl in PX, PY.
    revert l0 PY. induction H as [|a t Ha Ht IH]; intros [|b t'] PY; simpl; try reflexivity.
    simpl in PX, PY. apply andb_true_iff in PX as [PX1 PX2]. apply andb_true_iff in PY as [PY1 PY2].
    fold (eq_model a b). rewrite (Ha b PX1 PY1), (IH PX2 t' PY2). reflexivity.
  - (* dict *) destruct y; try discriminate; try reflexivity.
    simpl in PX, PY.
    apply andb_true_iff in PX as [PX PXv]. apply andb_true_iff in PX as [CX NX].
    apply andb_true_iff in PY as [PY PYv]. apply andb_true_iff in PY as [CY NY].
    apply N.eqb_eq in CX, CY. subst.
    unfold eq_model. simpl.
    rewrite !(sort_map_snd norm), forall2b_map.
    rewrite (forall2b_ext _ (R eq_model)) by (apply Forall_forall; intros; reflexivity).
    rewrite (sorted_vs_lookup eq_model _ _ NX NY). f_equal.
    unfold lk. apply forallb_ext_in'. intros kv I.
    destruct (lookup (fst kv) items0) as [v'|] eqn:L; [|reflexivity].
    rewrite Forall_forall in H. apply (H kv I).
    + rewrite forallb_forall in PXv. apply PXv. exact I.
    + eapply lookup_plain; eassumption.
Qed.
