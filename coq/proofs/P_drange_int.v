(* The integer arm of drange (daily rrule list, reversed, strided) equals the iteration of
   "+ n days" from t0, i.e. the same list as timedelta(n) and 'nd'. *)
From Coq Require Import ZArith List Bool Lia ZifyBool ZifyNat Arith.
From PB Require Import model.M_cal model.M_dates model.M_drange proofs.P_drange.
Import ListNotations.
Open Scope Z_scope.
Ltac Zify.zify_post_hook ::= Z.to_euclidean_division_equations.

(* arithmetic progression: n elements a, a+d, a+2d, ... *)
Fixpoint prog (a d : Z) (n : nat) : list Z :=
  match n with O => [] | S k => a :: prog (a + d) d k end.

Lemma prog_length a d n : length (prog a d n) = n.
Proof. revert a; induction n as [|n IH]; intros a; cbn [prog length]; [reflexivity | rewrite IH; reflexivity]. Qed.

Lemma iter_up_det f t1 : forall t l l', iter_up f t1 t l -> iter_up f t1 t l' -> l = l'.
Proof.
  intros t l l' H. revert l'. induction H as [t Hs | t t' l Ht Hf Hi IH]; intros l' H'.
  - inversion H' as [? Hs' | ? ? ? Ht' Hf' Hi']; subst; [reflexivity | lia].
  - inversion H' as [? Hs' | ? t'' l'' Ht' Hf' Hi']; subst; [lia|].
    assert (t'' = t') by congruence. subst t''. f_equal. apply IH. exact Hi'.
Qed.
Lemma iter_down_det f t1 : forall t l l', iter_down f t1 t l -> iter_down f t1 t l' -> l = l'.
Proof.
  intros t l l' H. revert l'. induction H as [t Hs | t t' l Ht Hf Hi IH]; intros l' H'.
  - inversion H' as [? Hs' | ? ? ? Ht' Hf' Hi']; subst; [reflexivity | lia].
  - inversion H' as [? Hs' | ? t'' l'' Ht' Hf' Hi']; subst; [lia|].
    assert (t'' = t') by congruence. subst t''. f_equal. apply IH. exact Hi'.
Qed.

(* a progression with positive step that just covers [a, b] is the upward iteration *)
Lemma iter_up_prog d b : 0 < d -> forall n a,
  (a + Z.of_nat n * d > b) -> (n <> O -> a + (Z.of_nat n - 1) * d <= b) ->
  iter_up (fun t => Some (t + d)) b a (prog a d n).
Proof.
  intros Hd n. induction n as [|n IH]; intros a Hgt Hle; cbn [prog].
  - apply iu_stop. lia.
  - eapply iu_step; [specialize (Hle ltac:(lia)); nia | reflexivity |].
    apply IH; [nia | intros Hn; specialize (Hle ltac:(lia)); nia].
Qed.
Lemma iter_down_prog d b : 0 < d -> forall n a,
  (a - Z.of_nat n * d < b) -> (n <> O -> b <= a - (Z.of_nat n - 1) * d) ->
  iter_down (fun t => Some (t + - d)) b a (prog a (- d) n).
Proof.
  intros Hd n. induction n as [|n IH]; intros a Hgt Hle; cbn [prog].
  - apply id_stop. lia.
  - eapply id_step; [specialize (Hle ltac:(lia)); nia | reflexivity |].
    apply IH; [nia | intros Hn; specialize (Hle ltac:(lia)); nia].
Qed.

Lemma rev_prog a d n : rev (prog a d n) = prog (a + (Z.of_nat n - 1) * d) (- d) n.
Proof.
  revert a. induction n as [|n IH]; intros a; [reflexivity|].
  cbn [prog rev]. rewrite IH.
  (* prog x (-d) n ++ [a] = prog x' (-d) (S n) *)
  assert (App : forall m x, prog x (- d) m ++ [x - Z.of_nat m * d] = prog x (- d) (S m)).
  { induction m as [|m IHm]; intros x.
    - cbn [prog app]. f_equal. lia.
    - change (prog x (- d) (S m)) with (x :: prog (x + - d) (- d) m).
      change (prog x (- d) (S (S m))) with (x :: prog (x + - d) (- d) (S m)).
      cbn [app]. f_equal. rewrite <- (IHm (x + - d)). f_equal. f_equal. lia. }
  replace a with ((a + d + (Z.of_nat n - 1) * d) - Z.of_nat n * d) at 2 by lia.
  rewrite App. cbn [prog]. f_equal; [lia | f_equal; lia].
Qed.

(* every k-th element of a progression is a progression with step k*d *)
Lemma stride_from_prog (k : nat) d : (0 < k)%nat -> forall m a s,
  stride_from k s (prog a d m) = prog (a + Z.of_nat s * d) (Z.of_nat k * d) ((m - s + (k - 1)) / k)%nat.
Proof.
  intros Hk m. induction m as [|m IH]; intros a s.
  - cbn [prog stride_from]. replace ((0 - s + (k - 1)) / k)%nat with 0%nat; [reflexivity|].
    symmetry. apply Nat.div_small. lia.
  - cbn [prog]. destruct s as [|s]; cbn [stride_from].
    + rewrite IH.
      assert (E : ((S m - 0 + (k - 1)) / k)%nat = S ((m - Nat.pred k + (k - 1)) / k)%nat).
      { destruct (Nat.le_gt_cases (Nat.pred k) m) as [Hle | Hgt].
        - replace (S m - 0 + (k - 1))%nat with ((m - Nat.pred k + (k - 1)) + 1 * k)%nat by lia.
          rewrite Nat.div_add by lia. lia.
        - replace (m - Nat.pred k + (k - 1))%nat with (k - 1)%nat by lia.
          rewrite (Nat.div_small (k - 1) k) by lia.
          replace (S m - 0 + (k - 1))%nat with ((m) + 1 * k)%nat by lia.
          rewrite Nat.div_add by lia. rewrite (Nat.div_small m k) by lia. reflexivity. }
      rewrite E. clear E IH. cbn [prog]. change (Z.of_nat 0) with 0. f_equal; [lia|]. f_equal.
      replace (Z.of_nat (Init.Nat.pred k)) with (Z.of_nat k - 1) by lia. ring.
    + rewrite IH. clear IH. replace (S m - S s)%nat with (m - s)%nat by lia. f_equal.
      replace (Z.of_nat (S s)) with (Z.of_nat s + 1) by lia. ring.
Qed.

Lemma iter_up_ext f g t1 : (forall t, f t = g t) -> forall t l, iter_up f t1 t l -> iter_up g t1 t l.
Proof. intros E t l H. induction H as [t Hs | t t' l Ht Hf Hi IH]; [apply iu_stop; exact Hs | eapply iu_step; [exact Ht | rewrite <- E; exact Hf | exact IH]]. Qed.
Lemma iter_down_ext f g t1 : (forall t, f t = g t) -> forall t l, iter_down f t1 t l -> iter_down g t1 t l.
Proof. intros E t l H. induction H as [t Hs | t t' l Ht Hf Hi IH]; [apply id_stop; exact Hs | eapply id_step; [exact Ht | rewrite <- E; exact Hf | exact IH]]. Qed.

Lemma DAYUS_pos : 0 < DAYUS. Proof. unfold DAYUS. lia. Qed.

Lemma daily_is_prog fuel lo hi days : lo <= hi -> daily fuel lo hi = Ok days ->
  days = prog lo DAYUS (Z.to_nat ((hi - lo) / DAYUS + 1)).
Proof.
  intros Hle H. unfold daily in H. pose proof DAYUS_pos as HD.
  apply (iter_up_det (fun t => Some (t + DAYUS)) hi lo); [eapply loop_up_spec; exact H|].
  assert (0 <= (hi - lo) / DAYUS) by (apply Z.div_pos; lia).
  apply iter_up_prog; [exact HD | |]; rewrite Z2Nat.id by lia; [|intros _]; nia.
Qed.

Lemma stride_prog k a d m : 1 < k ->
  stride k (prog a d m) = prog a (k * d) ((m + (Z.to_nat k - 1)) / Z.to_nat k)%nat.
Proof.
  intros Hk. unfold stride. replace (1 <? k) with true by lia.
  rewrite stride_from_prog by lia. change (Z.of_nat 0) with 0. rewrite Z2Nat.id by lia.
  replace (a + 0 * d) with a by lia. f_equal. f_equal. lia.
Qed.

(* forward: whole-day or not, n > 0 *)
Theorem drange_int_forward fuel t0 t1 n l : t0 < t1 -> 0 < n ->
  drange fuel t0 t1 (BInt n) = Ok l -> iter_up (fun t => Some (t + n * DAYUS)) t1 t0 l.
Proof.
  intros Hlt Hn H. pose proof DAYUS_pos as HD.
  unfold drange, drange_int in H. replace (t0 =? t1) with false in H by lia.
  destruct (tdays t0 t1 * n <=? 0); [discriminate|].
  replace (Z.min t0 t1) with t0 in H by lia. replace (Z.max t0 t1) with t1 in H by lia.
  destruct (daily fuel t0 t1) as [days| |] eqn:Dl; try discriminate.
  pose proof (daily_is_prog fuel t0 t1 days ltac:(lia) Dl) as Ed. subst days.
  replace (n <? 0) with false in H by lia. replace (Z.abs n) with n in H by lia.
  injection H as <-.
  set (D := (t1 - t0) / DAYUS) in *. assert (HDn : 0 <= D) by (apply Z.div_pos; lia).
  destruct (Z.eq_dec n 1) as [-> | Hn1].
  - unfold stride. change (1 <? 1) with false. cbv iota.
    replace (1 * DAYUS) with DAYUS by lia.
    apply iter_up_prog; [exact HD | |]; rewrite Z2Nat.id by lia; [|intros _]; unfold D; nia.
  - rewrite stride_prog by lia.
    set (c := ((Z.to_nat (D + 1) + (Z.to_nat n - 1)) / Z.to_nat n)%nat).
    assert (Hc : Z.of_nat c = (D + n) / n).
    { unfold c. rewrite Nat2Z.inj_div. f_equal; lia. }
    assert (0 <= (D + n) / n) by (apply Z.div_pos; lia).
    apply iter_up_prog; [nia | |]; rewrite Hc; [|intros _]; unfold D in *; nia.
Qed.

(* backward needs endpoints a whole number of days apart, as the property says *)
Theorem drange_int_backward fuel t0 t1 n l : t1 < t0 -> n < 0 -> (t0 - t1) mod DAYUS = 0 ->
  drange fuel t0 t1 (BInt n) = Ok l -> iter_down (fun t => Some (t + n * DAYUS)) t1 t0 l.
Proof.
  intros Hlt Hn Hwhole H. pose proof DAYUS_pos as HD.
  unfold drange, drange_int in H. replace (t0 =? t1) with false in H by lia.
  destruct (tdays t0 t1 * n <=? 0); [discriminate|].
  replace (Z.min t0 t1) with t1 in H by lia. replace (Z.max t0 t1) with t0 in H by lia.
  destruct (daily fuel t1 t0) as [days| |] eqn:Dl; try discriminate.
  pose proof (daily_is_prog fuel t1 t0 days ltac:(lia) Dl) as Ed. subst days.
  replace (n <? 0) with true in H by lia. replace (Z.abs n) with (- n) in H by lia.
  injection H as <-.
  set (D := (t0 - t1) / DAYUS) in *. assert (HDn : 0 <= D) by (apply Z.div_pos; lia).
  assert (Et0 : t0 = t1 + D * DAYUS) by (unfold D; lia).
  rewrite rev_prog. rewrite Z2Nat.id by lia. replace (t1 + (D + 1 - 1) * DAYUS) with t0 by lia.
  apply (iter_down_ext (fun t => Some (t + - (- n * DAYUS)))); [intros t; f_equal; lia|].
  destruct (Z.eq_dec n (-1)) as [-> | Hn1].
  - unfold stride. change (1 <? - -1) with false. cbv iota.
    replace (- -1 * DAYUS) with DAYUS by lia.
    apply iter_down_prog; [exact HD | |]; rewrite Z2Nat.id by lia; [|intros _]; nia.
  - rewrite stride_prog by lia.
    set (c := ((Z.to_nat (D + 1) + (Z.to_nat (- n) - 1)) / Z.to_nat (- n))%nat).
    assert (Hc : Z.of_nat c = (D + - n) / - n).
    { unfold c. rewrite Nat2Z.inj_div. f_equal; lia. }
    assert (0 <= (D + - n) / - n) by (apply Z.div_pos; lia).
    replace (- n * - DAYUS) with (- (- n * DAYUS)) by lia.
    apply iter_down_prog; [nia | |]; rewrite Hc; [|intros _]; nia.
Qed.

(* hence int n, timedelta(n) and 'nd' give identical lists *)
Lemma dt_bump_nd t n : dt_bump t [(n, UD)] = Some (t + n * DAYUS).
Proof. cbn [dt_bump bump1]. f_equal. lia. Qed.

Theorem drange_int_td_nd_same fuel t0 t1 n l l2 l3 :
  t0 <> t1 -> (t1 < t0 -> (t0 - t1) mod DAYUS = 0) ->
  drange fuel t0 t1 (BInt n) = Ok l ->
  drange fuel t0 t1 (BTd (n * DAYUS)) = Ok l2 ->
  drange fuel t0 t1 (BTok [(n, UD)]) = Ok l3 -> l = l2 /\ l = l3.
Proof.
  intros Hne Hwhole H1 H2 H3. pose proof DAYUS_pos as HD.
  assert (Hsign : (t0 < t1 /\ 0 < n) \/ (t1 < t0 /\ n < 0)).
  { unfold drange, drange_int in H1. replace (t0 =? t1) with false in H1 by lia.
    destruct (tdays t0 t1 * n <=? 0) eqn:E; [discriminate|]. unfold tdays in E.
    destruct (Z_lt_le_dec t0 t1); [left | right]; split; try lia.
    - assert (0 <= (t1 - t0) / DAYUS) by (apply Z.div_pos; lia). nia.
    - assert ((t1 - t0) / DAYUS < 0) by (apply Z.div_lt_upper_bound; lia). nia. }
  destruct Hsign as [[Hlt Hn] | [Hlt Hn]].
  - pose proof (drange_int_forward fuel t0 t1 n l Hlt Hn H1) as I1.
    destruct (drange_forward_is_iteration fuel t0 t1 (BTd (n * DAYUS)) l2 eq_refl Hlt H2) as [I2 _].
    destruct (drange_forward_is_iteration fuel t0 t1 (BTok [(n, UD)]) l3 eq_refl Hlt H3) as [I3 _].
    cbn [step_of] in I2, I3.
    apply (iter_up_ext _ (fun t => Some (t + n * DAYUS))) in I3; [|intros t; apply dt_bump_nd].
    split; eapply iter_up_det; eassumption.
  - pose proof (drange_int_backward fuel t0 t1 n l Hlt Hn (Hwhole Hlt) H1) as I1.
    destruct (drange_backward_is_iteration fuel t0 t1 (BTd (n * DAYUS)) l2 eq_refl Hlt H2) as [I2 _].
    destruct (drange_backward_is_iteration fuel t0 t1 (BTok [(n, UD)]) l3 eq_refl Hlt H3) as [I3 _].
    cbn [step_of] in I2, I3.
    apply (iter_down_ext _ (fun t => Some (t + n * DAYUS))) in I3; [|intros t; apply dt_bump_nd].
    split; eapply iter_down_det; eassumption.
Qed.
