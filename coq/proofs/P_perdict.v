(* C20 — proofs about the model of perdictable (model/M_perdict.v) *)
From Coq Require Import ZArith List Bool Lia Permutation Sorted.
From PB Require Import model.M_join proofs.P_join model.M_perdict.
Import ListNotations.
Open Scope Z_scope.

(* ---------------- key equivalence *)
Lemma tkeq_refl k : tkeq k k = true.
Proof. unfold tkeq. rewrite (krefl _ tcmp tcmp_anti). reflexivity. Qed.
Lemma tkeq_sym a b : tkeq a b = true -> tkeq b a = true.
Proof. unfold tkeq. rewrite !Z.eqb_eq. apply (ksym _ tcmp tcmp_anti). Qed.
Lemma tkeq_trans a b c : tkeq a b = true -> tkeq b c = true -> tkeq a c = true.
Proof. unfold tkeq. rewrite !Z.eqb_eq. apply (keq_trans _ tcmp tcmp_range tcmp_anti tcmp_trans). Qed.

Lemma has_in {A} k (rows : list (key * A)) : In k (map fst rows) -> has k rows = true.
Proof.
  unfold has. intros I. apply in_map_iff in I. destruct I as (r & E & I). apply existsb_exists.
  exists r. split; auto. subst k. apply tkeq_refl.
Qed.
Lemma has_equiv {A} k k' (rows : list (key * A)) : tkeq k k' = true -> has k rows = true -> has k' rows = true.
Proof.
  unfold has. intros Q H. apply existsb_exists in H. destruct H as (r & I & T). apply existsb_exists.
  exists r. split; auto. apply (tkeq_trans _ k); [apply tkeq_sym; exact Q | exact T].
Qed.
Lemma has_witness {A} k (rows : list (key * A)) : has k rows = true -> exists k', In k' (map fst rows) /\ tkeq k k' = true.
Proof.
  unfold has. intros H. apply existsb_exists in H. destruct H as (r & I & T). exists (fst r). split; auto. apply in_map. exact I.
Qed.
Lemma lookup_none {A} k (rows : list (key * A)) : has k rows = false -> lookup k rows = None.
Proof.
  induction rows as [|[k' v] rows IH]; simpl; auto. destruct (tkeq k k'); simpl; [discriminate | exact IH].
Qed.
Lemma lookup_some {A} k (rows : list (key * A)) : has k rows = true -> exists k' v, In (k', v) rows /\ tkeq k k' = true /\ lookup k rows = Some v.
Proof.
  induction rows as [|[k' v] rows IH]; simpl; [discriminate|]. destruct (tkeq k k') eqn:E; simpl.
  - intros _. exists k', v. auto.
  - intros H. destruct (IH H) as (k2 & v2 & I & T & L). exists k2, v2. auto.
Qed.

Lemma ahas_in k a : In k (tkeys a) -> ahas k a = true.
Proof. unfold tkeys, ahas. destruct (a_in a); [intros [] | apply has_in]. Qed.
Lemma ahas_equiv k k' a : tkeq k k' = true -> ahas k a = true -> ahas k' a = true.
Proof. unfold ahas. destruct (a_in a); [discriminate | apply has_equiv]. Qed.
Lemma ahas_witness k a : ahas k a = true -> exists k', In k' (tkeys a) /\ tkeq k k' = true.
Proof. unfold ahas, tkeys. destruct (a_in a); [discriminate | apply has_witness]. Qed.

(* ---------------- dedupe / sort *)
Lemma dedupe_in l k : In k (dedupe l) -> In k l.
Proof.
  revert k. induction l as [|a l IH]; simpl; intros k; [tauto|]. intros [E|I]; [auto|].
  apply filter_In in I. right. apply IH. tauto.
Qed.
Lemma dedupe_complete l k : In k l -> exists k', In k' (dedupe l) /\ tkeq k k' = true.
Proof.
  induction l as [|a l IH]; simpl; [tauto|]. intros [E|I].
  - subst. exists k. split; auto. apply tkeq_refl.
  - destruct (IH I) as (k' & I' & T). destruct (tkeq a k') eqn:E.
    + exists a. split; auto. apply (tkeq_trans _ k'); auto. apply tkeq_sym; auto.
    + exists k'. split; auto. right. apply filter_In. split; auto. rewrite E. reflexivity.
Qed.
Lemma dedupe_nodup l : NoDup (dedupe l).
Proof.
  induction l as [|a l IH]; simpl; constructor.
  - intros I. apply filter_In in I. rewrite tkeq_refl in I. destruct I; discriminate.
  - apply NoDup_filter. exact IH.
Qed.

Lemma ksort_perm l : Permutation (ksort l) l.
Proof.
  unfold ksort. eapply perm_trans; [apply Permutation_map; apply isort_perm|].
  rewrite map_map. simpl. rewrite map_id. apply Permutation_refl.
Qed.
Lemma ksort_in l k : In k (ksort l) <-> In k l.
Proof. split; apply Permutation_in; [apply ksort_perm | apply Permutation_sym, ksort_perm]. Qed.
Lemma ss_map_fst (l : list (key * nat)) :
  StronglySorted (kle key tcmp) l -> StronglySorted (fun a b => tcmp a b <= 0) (map fst l).
Proof.
  induction 1 as [|p r S IH F]; simpl; constructor; auto.
  rewrite Forall_forall in *. intros b I. apply in_map_iff in I. destruct I as (q & E & I). subst. apply (F q I).
Qed.
Lemma ksort_sorted l : StronglySorted (fun a b => tcmp a b <= 0) (ksort l).
Proof. unfold ksort. apply ss_map_fst. apply (isort_sorted _ tcmp tcmp_anti tcmp_trans). Qed.

Lemma nondef_in a args : In a (nondef args) -> In a args /\ is_table a = true /\ a_def a = None.
Proof.
  unfold nondef. rewrite filter_In. intros [I H]. apply andb_true_iff in H. destruct H as [T D].
  destruct (a_def a); [discriminate | auto].
Qed.

(* ---------------- which keys get a row *)
Theorem keys_sound args d x k : In k (result_keys args d x) ->
  (forall a, In a (nondef args) -> ahas k a = true) /\ In k (all_keys args d x).
Proof.
  unfold result_keys. rewrite ksort_in. unfold cand_keys.
  destruct (nondef args) as [|t rest] eqn:N.
  - intros I. split; [intros a []|]. apply dedupe_in. exact I.
  - rewrite filter_In. intros [I F]. split.
    + intros a [<-|Ia]; [apply ahas_in; exact I|]. rewrite forallb_forall in F. apply F. exact Ia.
    + unfold all_keys. apply in_or_app. left. apply in_flat_map. exists t. split; auto.
      assert (X : In t (nondef args)) by (rewrite N; left; reflexivity). apply nondef_in in X. tauto.
Qed.
Theorem keys_complete args d x k : In k (all_keys args d x) -> (forall a, In a (nondef args) -> ahas k a = true) ->
  exists k', In k' (result_keys args d x) /\ tkeq k k' = true.
Proof.
  unfold result_keys, cand_keys. intros I H.
  destruct (nondef args) as [|t rest] eqn:N.
  - destruct (dedupe_complete _ _ I) as (k' & I' & T). exists k'. split; auto. apply ksort_in. exact I'.
  - destruct (ahas_witness k t (H t (or_introl eq_refl))) as (k' & I' & T).
    exists k'. split; auto. apply ksort_in. apply filter_In. split; auto.
    apply forallb_forall. intros a Ia. apply (ahas_equiv k); auto. apply H. right. exact Ia.
Qed.
Theorem keys_nodup args d x : (forall a, In a args -> NoDup (tkeys a)) -> NoDup (result_keys args d x).
Proof.
  intros U. unfold result_keys. apply (Permutation_NoDup (Permutation_sym (ksort_perm _))).
  unfold cand_keys. destruct (nondef args) as [|t rest] eqn:N; [apply dedupe_nodup|].
  apply NoDup_filter. apply U.
  assert (X : In t (nondef args)) by (rewrite N; left; reflexivity). apply nondef_in in X. tauto.
Qed.

(* ---------------- evaluation *)
Section Eval.
  Variable f : list pval -> pval.

  Theorem scalar_passthrough args d x : any_table args d x = false ->
    perdict f args d x = (RScalar (f (row_args args [])), [([], row_args args [])]).
  Proof. unfold perdict. intros ->. reflexivity. Qed.
  Lemma scalar_args_any_key args k : (forall a, In a args -> is_table a = false) -> row_args args k = row_args args [].
  Proof.
    intros H. unfold row_args. apply map_ext_in. intros a I. specialize (H a I).
    unfold arg_value, is_table in *. destruct (a_in a); [reflexivity | discriminate].
  Qed.

  Theorem table_result args d x : any_table args d x = true -> result_keys args d x <> [] ->
    perdict f args d x =
    (RTable (map (fun k => (k, if runs d x k then f (row_args args k) else cache_of d k)) (result_keys args d x)),
     map (fun k => (k, row_args args k)) (filter (runs d x) (result_keys args d x))).
  Proof.
    unfold perdict. intros -> NE. simpl negb. cbv iota.
    destruct (result_keys args d x) eqn:E; [congruence|]. reflexivity.
  Qed.
  Theorem empty_result args d x : any_table args d x = true -> result_keys args d x = [] ->
    perdict f args d x = (match d with Some rows => RData rows | None => RNone end, []).
  Proof. unfold perdict. intros -> ->. reflexivity. Qed.

  Lemma trace_keys args d x keys : map fst (trace_of args d x keys) = filter (runs d x) keys.
  Proof. unfold trace_of. rewrite map_map. simpl. apply map_id. Qed.

  Theorem default_extends k a rows dv : a_in a = Table rows -> a_def a = Some dv -> ahas k a = false -> arg_value k a = dv.
  Proof. unfold arg_value, ahas. intros -> -> H. rewrite (lookup_none _ _ H). reflexivity. Qed.
  Theorem present_value k a rows : a_in a = Table rows -> ahas k a = true ->
    exists k' v, In (k', v) rows /\ tkeq k k' = true /\ arg_value k a = v.
  Proof.
    unfold arg_value, ahas. intros -> H. destruct (lookup_some _ _ H) as (k' & v & I & T & L).
    exists k', v. rewrite L. auto.
  Qed.
  Theorem scalar_broadcast k a v : a_in a = Scalar v -> arg_value k a = v.
  Proof. unfold arg_value. intros ->. reflexivity. Qed.

  Theorem runs_iff d x k : runs d x k = false <-> (d <> None /\ exp_of x k = EPast).
  Proof.
    unfold runs. destruct d; [|split; [discriminate | intros [H _]; congruence]].
    destruct (exp_of x k); split; try discriminate; try (intros [_ H]; discriminate); auto.
    intros _. split; [discriminate | reflexivity].
  Qed.
End Eval.

(* ------------------------------------------------------------------ the dict-output path *)
Lemma nondef_app a b : nondef (a ++ b) = nondef a ++ nondef b.
Proof. unfold nondef. apply filter_app. Qed.
Lemma nondef_caches caches : nondef (map cache_arg caches) = [].
Proof. induction caches as [|[rows|] c IH]; simpl; auto. Qed.
Lemma nondef_with args caches : nondef (args_with args caches) = nondef args.
Proof. unfold args_with. rewrite nondef_app, nondef_caches, app_nil_r. reflexivity. Qed.
Lemma tkeys_cache d : tkeys (cache_arg d) = dkeys d.
Proof. destruct d; reflexivity. Qed.
Lemma all_keys_with args caches x :
  all_keys (args_with args caches) None x = flat_map tkeys args ++ flat_map dkeys caches ++ xkeys x.
Proof.
  unfold all_keys, args_with. rewrite flat_map_app. simpl. rewrite <- app_assoc. f_equal. f_equal.
  induction caches as [|d c IH]; simpl; auto. rewrite tkeys_cache, IH. reflexivity.
Qed.

Theorem keysN_sound args caches x k : In k (keysN args caches x) ->
  (forall a, In a (nondef args) -> ahas k a = true) /\ In k (flat_map tkeys args ++ flat_map dkeys caches ++ xkeys x).
Proof. unfold keysN. intros I. apply keys_sound in I. rewrite nondef_with, all_keys_with in I. exact I. Qed.
Theorem keysN_complete args caches x k : In k (flat_map tkeys args ++ flat_map dkeys caches ++ xkeys x) ->
  (forall a, In a (nondef args) -> ahas k a = true) -> exists k', In k' (keysN args caches x) /\ tkeq k k' = true.
Proof.
  unfold keysN. intros I H. apply keys_complete; [rewrite all_keys_with; exact I | rewrite nondef_with; exact H].
Qed.
Theorem keysN_nodup args caches x :
  (forall a, In a args -> NoDup (tkeys a)) -> (forall d, In d caches -> NoDup (dkeys d)) -> NoDup (keysN args caches x).
Proof.
  intros U V. apply keys_nodup. unfold args_with. intros a I. apply in_app_or in I. destruct I as [I|I]; [auto|].
  apply in_map_iff in I. destruct I as (d & <- & I). rewrite tkeys_cache. auto.
Qed.
Theorem keysN_sorted args caches x : StronglySorted (fun a b => tcmp a b <= 0) (keysN args caches x).
Proof. apply ksort_sorted. Qed.

Lemma runsN_iff caches x k : runsN caches x k = false <-> (forallb supplied caches = true /\ exp_of x k = EPast).
Proof.
  unfold runsN. destruct (forallb supplied caches); [|split; [discriminate | intros [H _]; discriminate]].
  destruct (exp_of x k); split; try discriminate; try (intros [_ H]; discriminate); auto.
Qed.

Section EvalN.
  Variable f : list pval -> list pval.
  Theorem scalar_passthroughN args caches x : any_tableN args caches x = false ->
    perdictN f args caches x = (NScalar (f (row_args args [])), [([], row_args args [])]).
  Proof. unfold perdictN. intros ->. reflexivity. Qed.
  Theorem table_resultN args caches x : any_tableN args caches x = true -> keysN args caches x <> [] ->
    perdictN f args caches x =
    (NTable (map (fun k => (k, if runsN caches x k then f (row_args args k) else cachesN caches k)) (keysN args caches x)),
     map (fun k => (k, row_args args k)) (filter (runsN caches x) (keysN args caches x))).
  Proof.
    unfold perdictN. intros -> NE. simpl negb. cbv iota.
    destruct (keysN args caches x) eqn:E; [congruence|]. reflexivity.
  Qed.
  Theorem empty_resultN args caches x : any_tableN args caches x = true -> keysN args caches x = [] ->
    perdictN f args caches x = (NEmpty caches, []).
  Proof. unfold perdictN. intros -> ->. reflexivity. Qed.
End EvalN.

(* the value path is the dict path with the single output `data` *)
Definition lift1 (r : result) : resultN :=
  match r with
  | RScalar v => NScalar [v]
  | RNone => NEmpty [None]
  | RData rows => NEmpty [Some rows]
  | RTable rows => NTable (map (fun r => (fst r, [snd r])) rows)
  end.
Lemma keysN_single args d x : keysN args [d] x = result_keys args d x.
Proof.
  unfold keysN, result_keys, cand_keys. rewrite nondef_with, all_keys_with. simpl. rewrite app_nil_r. reflexivity.
Qed.
Lemma any_tableN_single args d x : any_tableN args [d] x = any_table args d x.
Proof.
  unfold any_tableN, any_table, args_with. rewrite existsb_app. simpl.
  destruct d; simpl; rewrite ?orb_false_r; reflexivity.
Qed.
Lemma runsN_single d x k : runsN [d] x k = runs d x k.
Proof. unfold runsN, runs. destruct d; reflexivity. Qed.
Theorem value_path_is_one_output (f : list pval -> pval) args d x :
  perdictN (fun l => [f l]) args [d] x = (lift1 (fst (perdict f args d x)), snd (perdict f args d x)).
Proof.
  assert (HF : forall l, filter (runsN [d] x) l = filter (runs d x) l)
    by (intros; apply filter_ext; intros; apply runsN_single).
  assert (HM : forall l, map (fun k => (k, if runsN [d] x k then [f (row_args args k)] else cachesN [d] k)) l =
                         map (fun r => (fst r, [snd r])) (map (fun k => (k, row_value f args d x k)) l)).
  { intros. rewrite map_map. apply map_ext. intros k. simpl. rewrite runsN_single. unfold row_value.
    destruct (runs d x k); reflexivity. }
  unfold perdictN, perdict. rewrite any_tableN_single, keysN_single.
  destruct (any_table args d x); cbn [negb]; cbv iota; [|reflexivity].
  destruct (result_keys args d x) as [|k0 ks] eqn:E; cbv iota zeta.
  - destruct d; reflexivity.
  - rewrite HM, HF. reflexivity.
Qed.

(* ------------------------------------------------------------------ partially keyed inputs: the outer step keeps every row *)
Lemma pouter_rows d1 d2 f1 f2 :
  exists m rows, fst (pouter (Some d1, f1) (Some d2, f2)) = Some (m, rows) /\
    (forall r, In r (snd (pmul d1 d2)) -> In r rows) /\
    (f2 <> [] -> forall r, In r (panti d1 d2) -> In (setdefs f2 r) rows) /\
    (f1 <> [] -> forall r, In r (panti d2 d1) -> In (setdefs f1 r) rows).
Proof.
  unfold pouter. simpl. do 2 eexists. split; [reflexivity|]. repeat split.
  - intros r I. apply in_or_app. left. exact I.
  - intros N r I. apply in_or_app. right. apply in_or_app. right. destruct f2; [congruence|]. apply in_map. exact I.
  - intros N r I. apply in_or_app. right. apply in_or_app. left. destruct f1; [congruence|]. apply in_map. exact I.
Qed.
Lemma panti_or_matched d1 d2 r : In r (snd d1) ->
  In r (panti d1 d2) \/ exists r2, In r2 (snd d2) /\ kmatch (fst d1) (fst d2) (fst r) (fst r2) = true.
Proof.
  intros I. unfold panti. destruct (existsb (fun r2 => kmatch (fst d1) (fst d2) (fst r) (fst r2)) (snd d2)) eqn:E.
  - right. apply existsb_exists in E. exact E.
  - left. apply filter_In. split; auto. rewrite E. reflexivity.
Qed.
