(* Facts about the proleptic Gregorian calendar model, for EVERY ordinal / year:
   one 400-year cycle is swept in the kernel (vm_compute) and lifted by periodicity. *)
From Coq Require Import ZArith NArith List Bool Lia ZifyBool.
From PB Require Import lib.Range model.M_cal.
Open Scope Z_scope.
Ltac Zify.zify_post_hook ::= Z.to_euclidean_division_equations.

Lemma is_leap_period y k : is_leap (y + 400 * k) = is_leap y.
Proof.
  unfold is_leap.
  replace ((y + 400 * k) mod 4) with (y mod 4) by lia.
  replace ((y + 400 * k) mod 100) with (y mod 100) by lia.
  replace ((y + 400 * k) mod 400) with (y mod 400) by lia. reflexivity.
Qed.
Lemma dim_period y k m : dim (y + 400 * k) m = dim y m.
Proof. unfold dim. rewrite is_leap_period. reflexivity. Qed.
Lemma dbm_period y k m : dbm (y + 400 * k) m = dbm y m.
Proof. unfold dbm. rewrite is_leap_period. reflexivity. Qed.
Lemma dby_period y k : days_before_year (y + 400 * k) = days_before_year y + 146097 * k.
Proof. unfold days_before_year. lia. Qed.
Lemma ord_period y k m d : ord_of_ymd (y + 400 * k) m d = ord_of_ymd y m d + 146097 * k.
Proof. unfold ord_of_ymd. rewrite dby_period, dbm_period. lia. Qed.

Definition shift_y (k : Z) (p : Z * Z * Z) : Z * Z * Z := let '(y, m, d) := p in (y + 400 * k, m, d).

Lemma ymd_core_period a k r : ymd_core (a + k) r = shift_y k (ymd_core a r).
Proof.
  unfold ymd_core.
  set (n100 := r / 36524). set (r1 := r mod 36524).
  set (n4 := r1 / 1461). set (r2 := r1 mod 1461).
  set (n1 := r2 / 365). set (r3 := r2 mod 365).
  replace ((a + k) * 400 + 1 + n100 * 100 + n4 * 4 + n1) with (a * 400 + 1 + n100 * 100 + n4 * 4 + n1 + 400 * k) by lia.
  set (Y := a * 400 + 1 + n100 * 100 + n4 * 4 + n1).
  destruct ((n1 =? 4) || (n100 =? 4)); [simpl; f_equal; f_equal; lia|].
  rewrite !dbm_period.
  destruct (r3 <? dbm Y ((r3 + 50) / 32)); simpl; reflexivity.
Qed.

Lemma ymd_period n k : ymd_of_ord (n + 146097 * k) = shift_y k (ymd_of_ord n).
Proof.
  unfold ymd_of_ord.
  replace ((n + 146097 * k - 1) / 146097) with ((n - 1) / 146097 + k) by lia.
  replace ((n + 146097 * k - 1) mod 146097) with ((n - 1) mod 146097) by lia.
  apply ymd_core_period.
Qed.

(* ---- the swept cycle: ordinals of 1900-01-01 .. 2299-12-31 ---- *)
Definition chk_ord (n : Z) : bool :=
  let '(y, m, d) := ymd_of_ord n in valid_md y m d && (ord_of_ymd y m d =? n).
Lemma sweep_ord : all_range chk_ord 693596 146097 = true.
Proof. vm_compute. reflexivity. Qed.

Theorem ymd_of_ord_valid n :
  let '(y, m, d) := ymd_of_ord n in valid_md y m d = true /\ ord_of_ymd y m d = n.
Proof.
  set (k := (n - 693596) / 146097). set (n0 := 693596 + (n - 693596) mod 146097).
  assert (Hn : n = n0 + 146097 * k) by (unfold n0, k; lia).
  assert (Hr : 693596 <= n0 < 693596 + Z.of_N 146097) by (unfold n0; lia).
  pose proof (all_range_spec _ _ _ sweep_ord n0 Hr) as C. unfold chk_ord in C.
  rewrite Hn, ymd_period. destruct (ymd_of_ord n0) as [[y m] d]. cbn [shift_y].
  apply andb_true_iff in C. destruct C as [V O]. split.
  - unfold valid_md in *. rewrite dim_period. exact V.
  - rewrite ord_period. lia.
Qed.

Definition chk_ymd (y : Z) (md : Z) : bool :=
  let m := md / 32 in let d := md mod 32 in
  if valid_md y m d then
    let '(y', m', d') := ymd_of_ord (ord_of_ymd y m d) in (y' =? y) && (m' =? m) && (d' =? d)
  else true.
Lemma sweep_ymd : all_range2 chk_ymd 1900 400 0 512 = true.
Proof. vm_compute. reflexivity. Qed.

Theorem ymd_of_ord_of_ymd y m d :
  valid_md y m d = true -> ymd_of_ord (ord_of_ymd y m d) = (y, m, d).
Proof.
  intros V.
  set (k := (y - 1900) / 400). set (y0 := 1900 + (y - 1900) mod 400).
  assert (Hy : y = y0 + 400 * k) by (unfold y0, k; lia).
  assert (Hr : 1900 <= y0 < 1900 + Z.of_N 400) by (unfold y0; lia).
  assert (V0 : valid_md y0 m d = true) by (unfold valid_md in *; rewrite Hy, dim_period in V; exact V).
  assert (Hmd : 0 <= m * 32 + d < 0 + Z.of_N 512).
  { unfold valid_md, dim in V0. destruct (m =? 2); destruct (is_leap y0); destruct ((m =? 4) || (m =? 6) || (m =? 9) || (m =? 11)); lia. }
  pose proof (all_range2_spec _ _ _ _ _ sweep_ymd y0 (m * 32 + d) Hr Hmd) as C.
  unfold chk_ymd in C.
  assert (Dm : (m * 32 + d) / 32 = m).
  { unfold valid_md, dim in V0. destruct (m =? 2); destruct (is_leap y0); destruct ((m =? 4) || (m =? 6) || (m =? 9) || (m =? 11)); lia. }
  assert (Dd : (m * 32 + d) mod 32 = d).
  { unfold valid_md, dim in V0. destruct (m =? 2); destruct (is_leap y0); destruct ((m =? 4) || (m =? 6) || (m =? 9) || (m =? 11)); lia. }
  rewrite Dm, Dd, V0 in C.
  rewrite Hy, ord_period, ymd_period.
  destruct (ymd_of_ord (ord_of_ymd y0 m d)) as [[y' m'] d']. cbn [shift_y].
  f_equal; [f_equal|]; lia.
Qed.

(* month / year continuity of the day count *)
Lemma dbm_next y m : 1 <= m <= 12 -> dbm y (m + 1) = dbm y m + dim y m.
Proof.
  intros H. assert (C : m = 1 \/ m = 2 \/ m = 3 \/ m = 4 \/ m = 5 \/ m = 6 \/ m = 7 \/ m = 8 \/ m = 9 \/ m = 10 \/ m = 11 \/ m = 12) by lia.
  unfold dbm, dim. destruct (is_leap y);
  repeat (destruct C as [-> | C]; [vm_compute; reflexivity|]); subst m; vm_compute; reflexivity.
Qed.
Lemma dby_next y : days_before_year (y + 1) = days_before_year y + dbm y 13.
Proof.
  unfold days_before_year, dbm, is_leap. change (13 <=? 1) with false. change (13 =? 2) with false. cbn [Z.eqb].
  destruct ((y mod 4 =? 0) && negb (y mod 100 =? 0) || (y mod 400 =? 0)) eqn:E; simpl; lia.
Qed.
Lemma dim_range y m : 28 <= dim y m <= 31.
Proof. unfold dim. destruct (m =? 2); destruct (is_leap y); destruct ((m =? 4) || (m =? 6) || (m =? 9) || (m =? 11)); lia. Qed.

Lemma weekday_of_ord_period n : weekday_ord (n + 7) = weekday_ord n.
Proof. unfold weekday_ord. lia. Qed.
