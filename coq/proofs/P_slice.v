(* C13 — lemmas about the slice model (M_slice). *)
From Coq Require Import ZArith List Bool Arith Lia Sorting.Sorted Sorting.Permutation.
From PB Require Import model.M_slice.
Import ListNotations.
Open Scope Z_scope.

Definition sorted {A} (rows : list (Z * A)) := StronglySorted (fun a b => fst a < fst b) rows.

Lemma filter_filter {A} (p q : A -> bool) l : filter q (filter p l) = filter (fun a => p a && q a) l.
Proof. induction l as [|a l IH]; simpl; [reflexivity|]. destruct (p a); simpl; [destruct (q a); now rewrite IH | exact IH]. Qed.
Lemma filter_all {A} (p : A -> bool) l : Forall (fun a => p a = true) l -> filter p l = l.
Proof. induction 1; simpl; [reflexivity|]. now rewrite H, IHForall. Qed.
Lemma filter_none {A} (p : A -> bool) l : Forall (fun a => p a = false) l -> filter p l = [].
Proof. induction 1; simpl; [reflexivity|]. now rewrite H. Qed.

(* time order, repeated timestamps allowed *)
Definition wsorted {A} (rows : list (Z * A)) := StronglySorted (fun a b => fst a <= fst b) rows.
Lemma sorted_wsorted {A} (rows : list (Z * A)) : sorted rows -> wsorted rows.
Proof.
  induction 1 as [|a l S IH F]; constructor; [exact IH|]. eapply Forall_impl; [|exact F]. intros b Hb. simpl in *. lia.
Qed.
Lemma is_mono_wsorted {A} (rows : list (Z * A)) : is_mono rows = true -> wsorted rows.
Proof.
  intros H. apply Sorted_StronglySorted; [intros x y z; simpl; lia|].
  induction rows as [|a [|b t] IH]; [constructor | constructor; constructor |].
  change (is_mono (a :: b :: t)) with ((fst a <=? fst b) && is_mono (b :: t)) in H.
  apply andb_true_iff in H. destruct H as [H1 H2]. apply Z.leb_le in H1.
  constructor; [now apply IH | constructor; exact H1].
Qed.

(* on an index in time order a label slice is the same as the mask *)
Lemma dropwhile_mono {A} (p : Z -> bool) (rows : list (Z * A)) : wsorted rows ->
  (forall t t', t <= t' -> p t = true -> p t' = true) ->
  dropwhile (fun r => negb (p (fst r))) rows = filter (fun r => p (fst r)) rows.
Proof.
  intros S M. induction S as [|a l S IH F]; simpl; [reflexivity|].
  destruct (p (fst a)) eqn:E; simpl; [|exact IH].
  f_equal. symmetry. apply filter_all. eapply Forall_impl; [|exact F]. intros b Hb. simpl in Hb. now apply (M (fst a)).
Qed.
Lemma takewhile_anti {A} (q : Z -> bool) (rows : list (Z * A)) : wsorted rows ->
  (forall t t', t <= t' -> q t' = true -> q t = true) ->
  takewhile (fun r => q (fst r)) rows = filter (fun r => q (fst r)) rows.
Proof.
  intros S M. induction S as [|a l S IH F]; simpl; [reflexivity|].
  destruct (q (fst a)) eqn:E; simpl; [now f_equal|].
  symmetry. apply filter_none. eapply Forall_impl; [|exact F]. intros b Hb. simpl in Hb.
  destruct (q (fst b)) eqn:Eb; [|reflexivity]. rewrite (M (fst a) (fst b) Hb Eb) in E. discriminate.
Qed.
Lemma wsorted_filter {A} (p : Z * A -> bool) rows : wsorted rows -> wsorted (filter p rows).
Proof.
  induction 1 as [|a l S IH F]; simpl; [constructor|]. destruct (p a); [|exact IH].
  constructor; [exact IH|]. rewrite Forall_forall in *. intros b Hb. apply filter_In in Hb. now apply F.
Qed.
Lemma sorted_filter {A} (p : Z * A -> bool) rows : sorted rows -> sorted (filter p rows).
Proof.
  induction 1 as [|a l S IH F]; simpl; [constructor|]. destruct (p a); [|exact IH].
  constructor; [exact IH|]. rewrite Forall_forall in *. intros b Hb. apply filter_In in Hb. now apply F.
Qed.

Section WithDay.
Variable day : Z.

Lemma ge_lb_mono lb : is_tod lb = false -> forall t t', t <= t' -> ge_lb day true lb t = true -> ge_lb day true lb t' = true.
Proof. destruct lb as [|b|h]; simpl; intros H t t' L; try discriminate; auto. rewrite !Z.leb_le. lia. Qed.
Lemma le_ub_anti ub : is_tod ub = false -> forall t t', t <= t' -> le_ub day true ub t' = true -> le_ub day true ub t = true.
Proof. destruct ub as [|b|h]; simpl; intros H t t' L; try discriminate; auto. rewrite !Z.leb_le. lia. Qed.

Lemma label_slice_filter {A} lb ub (rows : list (Z * A)) : wsorted rows -> is_tod lb = false -> is_tod ub = false ->
  label_slice day lb ub rows = filter (fun r => ge_lb day true lb (fst r) && le_ub day true ub (fst r)) rows.
Proof.
  intros S Hl Hu. unfold label_slice.
  rewrite (dropwhile_mono (ge_lb day true lb) rows S (ge_lb_mono lb Hl)).
  rewrite (takewhile_anti (le_ub day true ub) _ (wsorted_filter _ rows S) (le_ub_anti ub Hu)).
  apply filter_filter.
Qed.

(* _df_slice: exactly the rows inside the bracketed window, in their stored order, untouched -
   for an index in ANY order, with or without repeated timestamps *)
Theorem slice1_exact_any {A} oc lb ub (rows : list (Z * A)) :
  slice1 day oc lb ub rows = filter (fun r => in_window day oc lb ub (fst r)) rows.
Proof.
  unfold slice1, in_window.
  destruct (is_none lb && is_none ub) eqn:N.
  - apply andb_true_iff in N. destruct N as [N1 N2]. destruct lb, ub; try discriminate. simpl.
    symmetry. apply filter_all. apply Forall_forall. reflexivity.
  - destruct ((fst oc || is_none lb) && (snd oc || is_none ub) && negb (is_tod lb) && negb (is_tod ub) && is_mono rows) eqn:F.
    + apply andb_true_iff in F. destruct F as [F S]. apply is_mono_wsorted in S.
      apply andb_true_iff in F. destruct F as [F Hu]. apply andb_true_iff in F. destruct F as [F Hl].
      apply andb_true_iff in F. destruct F as [Fl Fu].
      apply negb_true_iff in Hl. apply negb_true_iff in Hu. rewrite (label_slice_filter lb ub rows S Hl Hu).
      apply filter_ext. intros r. f_equal.
      * destruct (fst oc); [reflexivity|]. destruct lb; try discriminate; reflexivity.
      * destruct (snd oc); [reflexivity|]. destruct ub; try discriminate; reflexivity.
    + unfold mask_slice. apply filter_filter.
Qed.
Theorem slice1_exact {A} oc lb ub (rows : list (Z * A)) : sorted rows ->
  slice1 day oc lb ub rows = filter (fun r => in_window day oc lb ub (fst r)) rows.
Proof. intros _. apply slice1_exact_any. Qed.

(* merging two disjoint selections of a sorted list *)
Lemma merge_nil_r {A} (a : list (Z * A)) : merge a [] = a.
Proof. destruct a; reflexivity. Qed.
Lemma merge_nil_l {A} (b : list (Z * A)) : merge [] b = b.
Proof. destruct b; reflexivity. Qed.
Lemma merge_head_l {A} (x : Z * A) a b : Forall (fun y => fst x < fst y) b -> merge (x :: a) b = x :: merge a b.
Proof.
  intros F. destruct b as [|y b]; [now rewrite !merge_nil_r|]. inversion F; subst.
  simpl. destruct (fst x <=? fst y) eqn:E; [reflexivity|]. apply Z.leb_gt in E. lia.
Qed.
Lemma merge_head_r {A} (y : Z * A) a b : Forall (fun x => fst y < fst x) a -> merge a (y :: b) = y :: merge a b.
Proof.
  intros F. destruct a as [|x a]; [now rewrite !merge_nil_l|]. inversion F; subst.
  simpl. destruct (fst x <=? fst y) eqn:E; [apply Z.leb_le in E; lia|]. reflexivity.
Qed.
Lemma merge_filters {A} (p q : Z * A -> bool) rows : sorted rows -> (forall r, p r && q r = false) ->
  merge (filter p rows) (filter q rows) = filter (fun r => p r || q r) rows.
Proof.
  intros S D. induction S as [|a l S IH F]; simpl; [reflexivity|].
  assert (Fp : forall f : Z * A -> bool, Forall (fun y => fst a < fst y) (filter f l)).
  { intros f. rewrite Forall_forall in *. intros y Hy. apply filter_In in Hy. now apply F. }
  specialize (D a). destruct (p a) eqn:Pa, (q a) eqn:Qa; cbn [orb andb] in *; cbv iota; try discriminate.
  - rewrite merge_head_l by apply Fp. now rewrite IH.
  - rewrite merge_head_r by apply Fp. now rewrite IH.
  - exact IH.
Qed.

(* sort_index (stable insertion sort) *)
Lemma merge_cons {A} (x y : Z * A) a b :
  merge (x :: a) (y :: b) = if fst x <=? fst y then x :: merge a (y :: b) else y :: merge (x :: a) b.
Proof. reflexivity. Qed.
Lemma insert_merge {A} (x : Z * A) a : Forall (fun y => fst x <= fst y) a -> forall b, insert x (merge a b) = merge (x :: a) b.
Proof.
  intros Fa. induction b as [|y b IH].
  - rewrite !merge_nil_r. destruct a as [|z a]; [reflexivity|]. inversion Fa; subst. simpl.
    destruct (fst x <=? fst z) eqn:E; [reflexivity | apply Z.leb_gt in E; lia].
  - destruct a as [|z a].
    + rewrite merge_nil_l in *. rewrite merge_cons. cbn [insert]. destruct (fst x <=? fst y); [now rewrite merge_nil_l | now rewrite IH].
    + inversion Fa; subst. rewrite (merge_cons z y), (merge_cons x y). destruct (fst z <=? fst y) eqn:E1.
      * pose proof (proj1 (Z.leb_le _ _) E1) as E1'. cbn [insert].
        destruct (fst x <=? fst z) eqn:E2; [|apply Z.leb_gt in E2; lia].
        destruct (fst x <=? fst y) eqn:E3; [|apply Z.leb_gt in E3; lia]. now rewrite (merge_cons z y), E1.
      * cbn [insert]. destruct (fst x <=? fst y) eqn:E3; [now rewrite (merge_cons z y), E1 | now rewrite IH].
Qed.
Lemma isort_app_merge {A} (a b : list (Z * A)) : wsorted a -> wsorted b -> isort (a ++ b) = merge a b.
Proof.
  intros Sa Sb. induction Sa as [|x a Sa IH Fa]; cbn [app isort].
  - rewrite merge_nil_l. induction Sb as [|y b Sb IHb Fb]; simpl; [reflexivity|]. rewrite IHb.
    destruct b as [|z b]; [reflexivity|]. inversion Fb; subst. simpl. destruct (fst y <=? fst z) eqn:E; [reflexivity | apply Z.leb_gt in E; lia].
  - rewrite IH. now apply insert_merge.
Qed.
Lemma insert_perm {A} (x : Z * A) l : Permutation (insert x l) (x :: l).
Proof.
  induction l as [|y l IH]; simpl; [reflexivity|]. destruct (fst x <=? fst y); [reflexivity|].
  rewrite IH. apply perm_swap.
Qed.
Lemma isort_perm {A} (l : list (Z * A)) : Permutation (isort l) l.
Proof. induction l as [|x l IH]; simpl; [constructor|]. rewrite insert_perm. now constructor. Qed.
Lemma insert_wsorted {A} (x : Z * A) l : wsorted l -> wsorted (insert x l).
Proof.
  induction 1 as [|y l S IH F]; simpl; [repeat constructor|].
  destruct (fst x <=? fst y) eqn:E.
  - apply Z.leb_le in E. constructor; [now constructor|]. constructor; [exact E|].
    eapply Forall_impl; [|exact F]. intros b Hb. simpl in *. lia.
  - apply Z.leb_gt in E. constructor; [exact IH|]. apply Forall_forall. intros b Hb.
    apply (Permutation_in _ (insert_perm x l)) in Hb. destruct Hb as [<-|Hb]; [lia|]. rewrite Forall_forall in F. now apply F.
Qed.
Lemma isort_wsorted {A} (l : list (Z * A)) : wsorted (isort l).
Proof. induction l; simpl; [constructor | now apply insert_wsorted]. Qed.
Lemma filter_disjoint_perm {A} (p q : A -> bool) l : (forall r, p r && q r = false) ->
  Permutation (filter p l ++ filter q l) (filter (fun r => p r || q r) l).
Proof.
  intros D. induction l as [|a l IH]; simpl; [constructor|].
  specialize (D a). destruct (p a), (q a); simpl in *; try discriminate.
  - now constructor.
  - rewrite <- Permutation_middle. now constructor.
  - exact IH.
Qed.

(* a window of times of day whose start is later than its end wraps past midnight *)
Lemma wrap_disjoint oc a b : b < a -> forall t,
  le_ub day (snd oc) (BTod b) t && ge_lb day (fst oc) (BTod a) t = false.
Proof.
  intros L t. simpl. destruct (fst oc), (snd oc); simpl;
    repeat match goal with |- context [?x <=? ?y] => destruct (Z.leb_spec x y) | |- context [?x <? ?y] => destruct (Z.ltb_spec x y) end;
    simpl; try reflexivity; lia.
Qed.
(* any stored order, repeated timestamps allowed: every row of the two half windows is returned exactly once
   (same multiset), in time order *)
Theorem wrap_any {A} oc a b (rows : list (Z * A)) : b < a ->
  Permutation (df_slice_one day oc (BTod a) (BTod b) rows)
              (filter (fun r => ge_lb day (fst oc) (BTod a) (fst r) || le_ub day (snd oc) (BTod b) (fst r)) rows) /\
  wsorted (df_slice_one day oc (BTod a) (BTod b) rows).
Proof.
  intros L. unfold df_slice_one, wrap_slice. pose proof L as L'. apply Z.ltb_lt in L'. rewrite L'.
  split; [|apply isort_wsorted]. rewrite isort_perm, !slice1_exact_any.
  rewrite (filter_ext _ (fun r => le_ub day (snd oc) (BTod b) (fst r))) by (intros r; unfold in_window; simpl; reflexivity).
  rewrite (filter_ext (fun r => in_window day oc (BTod a) BNone (fst r)) (fun r => ge_lb day (fst oc) (BTod a) (fst r)))
    by (intros r; unfold in_window; simpl; apply andb_true_r).
  rewrite filter_disjoint_perm by (intros r; now apply wrap_disjoint).
  erewrite filter_ext; [reflexivity|]. intros r. apply orb_comm.
Qed.
Theorem wrap_exact {A} oc a b (rows : list (Z * A)) : sorted rows -> b < a ->
  df_slice_one day oc (BTod a) (BTod b) rows =
  filter (fun r => ge_lb day (fst oc) (BTod a) (fst r) || le_ub day (snd oc) (BTod b) (fst r)) rows.
Proof.
  intros S L. unfold df_slice_one, wrap_slice. apply Z.ltb_lt in L. rewrite L. apply Z.ltb_lt in L.
  rewrite !slice1_exact by exact S.
  rewrite isort_app_merge by (apply wsorted_filter, sorted_wsorted, S). rewrite merge_filters; [|exact S|].
  - apply filter_ext. intros r. unfold in_window. simpl. rewrite andb_true_r. apply orb_comm.
  - intros r. unfold in_window. simpl. rewrite andb_true_r.
    destruct (fst oc), (snd oc); simpl;
    repeat match goal with |- context [?x <=? ?y] => destruct (Z.leb_spec x y) | |- context [?x <? ?y] => destruct (Z.ltb_spec x y) end;
    simpl; try reflexivity; lia.
Qed.
Theorem no_wrap_exact_any {A} oc lb ub (rows : list (Z * A)) :
  (forall a b, lb = BTod a -> ub = BTod b -> a <= b) ->
  df_slice_one day oc lb ub rows = filter (fun r => in_window day oc lb ub (fst r)) rows.
Proof.
  intros H. unfold df_slice_one, wrap_slice. destruct lb as [| |a]; try apply slice1_exact_any.
  destruct ub as [| |b]; try apply slice1_exact_any.
  specialize (H a b eq_refl eq_refl). destruct (b <? a) eqn:E; [apply Z.ltb_lt in E; lia|]. apply slice1_exact_any.
Qed.
Theorem no_wrap_exact {A} oc lb ub (rows : list (Z * A)) : sorted rows ->
  (forall a b, lb = BTod a -> ub = BTod b -> a <= b) ->
  df_slice_one day oc lb ub rows = filter (fun r => in_window day oc lb ub (fst r)) rows.
Proof.
  intros S H. unfold df_slice_one, wrap_slice. destruct lb as [| |a]; try apply slice1_exact; try exact S.
  destruct ub as [| |b]; try apply slice1_exact; try exact S.
  specialize (H a b eq_refl eq_refl). destruct (b <? a) eqn:E; [apply Z.ltb_lt in E; lia|]. now apply slice1_exact.
Qed.
End WithDay.

(* ------------------------------------------------------------------ stitching *)
Definition ksorted (l : list Z) := StronglySorted Z.lt l.
Definition ts_sorted (s : ts) := ksorted (map fst s).

Lemma union_keys_nil_l b : union_keys [] b = b.
Proof. destruct b; reflexivity. Qed.
Lemma union_keys_nil_r a : union_keys a [] = a.
Proof. destruct a; reflexivity. Qed.
Lemma union_keys_cons x a y b :
  union_keys (x :: a) (y :: b) =
  if x <? y then x :: union_keys a (y :: b) else if y <? x then y :: union_keys (x :: a) b else x :: union_keys a b.
Proof. reflexivity. Qed.
Lemma union_keys_in a : forall b t, In t (union_keys a b) <-> In t a \/ In t b.
Proof.
  induction a as [|x a IHa]; intros b t; [rewrite union_keys_nil_l; simpl; tauto|].
  induction b as [|y b IHb]; [rewrite union_keys_nil_r; simpl; tauto|].
  rewrite union_keys_cons. destruct (x <? y) eqn:E1; [|destruct (y <? x) eqn:E2].
  - simpl. rewrite IHa. simpl. tauto.
  - simpl. rewrite IHb. simpl. tauto.
  - assert (x = y) by (apply Z.ltb_ge in E1, E2; lia). subst. simpl. rewrite IHa. tauto.
Qed.
Lemma union_keys_sorted a : forall b, ksorted a -> ksorted b -> ksorted (union_keys a b).
Proof.
  unfold ksorted. induction a as [|x a IHa]; intros b Sa Sb; [now rewrite union_keys_nil_l|].
  induction b as [|y b IHb]; [now rewrite union_keys_nil_r|].
  inversion Sa as [|? ? Sa' Fa]; inversion Sb as [|? ? Sb' Fb]; subst.
  rewrite union_keys_cons. destruct (x <? y) eqn:E1; [|destruct (y <? x) eqn:E2].
  - apply Z.ltb_lt in E1. constructor; [now apply IHa|]. apply Forall_forall. intros t Ht.
    apply union_keys_in in Ht. rewrite Forall_forall in Fa, Fb. destruct Ht as [Ht|[<-|Ht]]; [now apply Fa | exact E1 |].
    specialize (Fb t Ht). lia.
  - apply Z.ltb_lt in E2. constructor; [now apply IHb|]. apply Forall_forall. intros t Ht.
    apply union_keys_in in Ht. rewrite Forall_forall in Fa, Fb. destruct Ht as [[<-|Ht]|Ht]; [exact E2 | | now apply Fb].
    specialize (Fa t Ht). lia.
  - assert (x = y) by (apply Z.ltb_ge in E1, E2; lia). subst. constructor; [now apply IHa|]. apply Forall_forall. intros t Ht.
    apply union_keys_in in Ht. rewrite Forall_forall in Fa, Fb. destruct Ht as [Ht|Ht]; [now apply Fa | now apply Fb].
Qed.

Definition keys (ss : list ts) : list Z := fold_right union_keys [] (map (map fst) ss).
Lemma keys_in ss t : In t (keys ss) <-> exists s, In s ss /\ In t (map fst s).
Proof.
  unfold keys. induction ss as [|s ss IH]; simpl.
  - split; [tauto | intros [s [[] _]]].
  - rewrite union_keys_in, IH. split.
    + intros [H|[s0 [H1 H2]]]; [exists s; auto | exists s0; auto].
    + intros [s0 [[<-|H1] H2]]; [left; exact H2 | right; exists s0; auto].
Qed.
Lemma keys_sorted ss : Forall ts_sorted ss -> ksorted (keys ss).
Proof.
  unfold keys. induction 1; simpl; [constructor|]. now apply union_keys_sorted.
Qed.
Lemma map_key_sorted {A} (f : Z -> A) l : ksorted l -> sorted (map (fun t => (t, f t)) l).
Proof.
  induction 1 as [|a l S IH F]; simpl; constructor; [exact IH|].
  rewrite Forall_forall in *. intros b Hb. apply in_map_iff in Hb. destruct Hb as [t [<- Ht]]. simpl. now apply F.
Qed.
(* the n-column frame built from a window of series: sorted outer join; column j holds series j *)
Theorem join_sorted ss : Forall ts_sorted ss -> sorted (join ss).
Proof. intros H. unfold join. apply map_key_sorted. now apply keys_sorted. Qed.
Theorem join_rows ss t r :
  In (t, r) (join ss) <-> (exists s, In s ss /\ In t (map fst s)) /\ r = map (lookup t) ss.
Proof.
  unfold join. rewrite in_map_iff. fold (keys ss). split.
  - intros [t0 [E H]]. injection E as <- <-. split; [now apply keys_in | reflexivity].
  - intros [H ->]. exists t. split; [reflexivity | now apply keys_in].
Qed.
Lemma windows_nth n : forall ss i, (i < length ss)%nat -> nth_error (windows n ss) i = Some (firstn n (skipn i ss)).
Proof.
  induction ss as [|s ss IH]; intros i Hi; simpl in Hi; [lia|].
  destruct i as [|i]; [reflexivity|]. simpl. apply IH. lia.
Qed.

Section Stitch.
Variable day : Z.
Variable oc : bool * bool.
Variable w : nat.
Definition padrow (r : Z * frow) : Z * frow := (fst r, pad w (snd r)).

(* interval by interval: (prev, u1] from the first frame, (u1, u2] from the second, ... *)
Fixpoint stitch_from (prev : bound) (fs : list frame) (ubs : list Z) : frame :=
  match fs, ubs with
  | f :: fs', u :: us => map padrow (filter (fun r => in_window day oc prev (BAt u) (fst r)) f) ++ stitch_from (BAt u) fs' us
  | _, _ => []
  end.
Lemma stitch_zip_shift : forall ubs fs prev, Forall sorted fs ->
  stitch_zip day oc w fs (shift prev ubs) (map BAt ubs) = stitch_from prev fs ubs.
Proof.
  unfold stitch_zip. induction ubs as [|u us IH]; intros [|f fs] prev S; simpl; try reflexivity.
  inversion S; subst. rewrite slice1_exact by assumption. f_equal. now apply IH.
Qed.
End Stitch.

Definition frames (n : nat) (ss : list ts) : list frame :=
  map join (if (1 <? n)%nat then windows n ss else map (fun s => [s]) ss).
Lemma in_firstn {A} n : forall (l : list A) x, In x (firstn n l) -> In x l.
Proof. induction n as [|n IH]; intros [|a l] x H; simpl in *; try tauto. destruct H; auto. Qed.
Lemma windows_sorted n ss : Forall ts_sorted ss -> Forall sorted (frames n ss).
Proof.
  intros H. unfold frames. apply Forall_forall. intros f Hf. apply in_map_iff in Hf. destruct Hf as [win [<- Hw]].
  apply join_sorted. destruct (1 <? n)%nat.
  - clear -H Hw. revert win Hw. induction H as [|s ss Hs H IH]; simpl; intros win Hw; [destruct Hw|].
    destruct Hw as [<-|Hw]; [|now apply IH].
    apply Forall_forall. intros s0 Hs0. apply in_firstn in Hs0.
    assert (HF : Forall ts_sorted (s :: ss)) by (constructor; assumption). rewrite Forall_forall in HF. now apply HF.
  - apply in_map_iff in Hw. destruct Hw as [s [<- Hs]]. constructor; [|constructor]. rewrite Forall_forall in H. now apply H.
Qed.

(* df_slice(list of series, ub = increasing bounds, n): the stitched result, interval by interval *)
Theorem stitch_ub_exact day oc n ss ubs : Forall ts_sorted ss -> nondec ubs = true ->
  stitch day oc n ss (UbList ubs) =
  Some (stitch_from day oc (Nat.min (Nat.max n 1) (length ss)) BNone (frames n ss) ubs).
Proof.
  intros S N. unfold stitch. rewrite N. f_equal. apply stitch_zip_shift. now apply windows_sorted.
Qed.

(* each timestamp at most once: with "(]" brackets and non-decreasing bounds the stitched rows are strictly increasing in time *)
Lemma sorted_app {A} (a b : list (Z * A)) : sorted a -> sorted b ->
  (forall x y, In x a -> In y b -> fst x < fst y) -> sorted (a ++ b).
Proof.
  induction 1 as [|x l S IH F]; simpl; intros Sb H; [exact Sb|].
  constructor; [apply IH; auto|]. apply Forall_app. split; [exact F|]. apply Forall_forall. intros y Hy. apply H; auto.
Qed.
Lemma sorted_map_padrow w f : sorted f -> sorted (map (padrow w) f).
Proof.
  induction 1 as [|a l S IH F]; simpl; constructor; [exact IH|].
  rewrite Forall_forall in *. intros b Hb. apply in_map_iff in Hb. destruct Hb as [r [<- Hr]]. simpl. now apply F.
Qed.
Lemma sorted_NoDup {A} (l : list (Z * A)) : sorted l -> NoDup (map fst l).
Proof.
  induction 1 as [|a l S IH F]; simpl; constructor; [|exact IH].
  intros Hin. apply in_map_iff in Hin. destruct Hin as [b [E Hb]]. rewrite Forall_forall in F. specialize (F b Hb). lia.
Qed.
Definition lo_ok (prev : bound) (ubs : list Z) : Prop :=
  match prev, ubs with BAt p, u :: _ => p <= u | BTod _, _ => False | _, _ => True end.
Lemma nondec_tail u us : nondec (u :: us) = true -> nondec us = true /\ lo_ok (BAt u) us.
Proof.
  destruct us as [|u2 us]; simpl; [auto|]. intros H. apply andb_true_iff in H. destruct H as [H1 H2].
  apply Z.leb_le in H1. auto.
Qed.
Lemma stitch_from_sorted day w : forall ubs fs prev, Forall sorted fs -> nondec ubs = true -> lo_ok prev ubs ->
  sorted (stitch_from day (false, true) w prev fs ubs) /\
  (forall p, prev = BAt p -> Forall (fun r => p < fst r) (stitch_from day (false, true) w prev fs ubs)).
Proof.
  induction ubs as [|u us IH]; intros [|f fs] prev S N L; try (split; [constructor | intros; constructor]).
  inversion S as [|? ? Sf Sfs]; subst. destruct (nondec_tail _ _ N) as [N' L'].
  destruct (IH fs (BAt u) Sfs N' L') as [S1 F1]. specialize (F1 u eq_refl).
  cbn [stitch_from]. split.
  - apply sorted_app; [apply sorted_map_padrow, sorted_filter, Sf | exact S1 |].
    intros x y Hx Hy. apply in_map_iff in Hx. destruct Hx as [r [<- Hr]]. apply filter_In in Hr. destruct Hr as [_ Hr].
    unfold in_window in Hr. apply andb_true_iff in Hr. destruct Hr as [_ Hr]. simpl in Hr. apply Z.leb_le in Hr.
    rewrite Forall_forall in F1. specialize (F1 y Hy). simpl. lia.
  - intros p ->. apply Forall_app. split.
    + apply Forall_forall. intros x Hx. apply in_map_iff in Hx. destruct Hx as [r [<- Hr]]. apply filter_In in Hr. destruct Hr as [_ Hr].
      unfold in_window in Hr. apply andb_true_iff in Hr. destruct Hr as [Hr _]. simpl in Hr. apply Z.ltb_lt in Hr. exact Hr.
    + simpl in L. eapply Forall_impl; [|exact F1]. intros r Hr. simpl in Hr. lia.
Qed.
