(* Month / quarter / year bumps: keep the day of month when it exists, otherwise roll
   the excess into the following month.  For every datetime and every count. *)
From Coq Require Import ZArith List Bool Lia ZifyBool.
From PB Require Import model.M_cal model.M_dates proofs.P_cal.
Open Scope Z_scope.
Ltac Zify.zify_post_hook ::= Z.to_euclidean_division_equations.

Lemma ord_us_roundtrip n : ord_of_us (us_of_ord n) = n.
Proof. unfold ord_of_us, us_of_ord. apply Z.div_mul. unfold DAYUS; lia. Qed.
Lemma ord_us_shift n d : ord_of_us (us_of_ord n + d * DAYUS) = n + d.
Proof. unfold ord_of_us, us_of_ord. rewrite <- Z.mul_add_distr_r. apply Z.div_mul. unfold DAYUS; lia. Qed.
Lemma tod_us_shift n d : tod_of_us (us_of_ord n + d * DAYUS) = 0.
Proof. unfold tod_of_us, us_of_ord. rewrite <- Z.mul_add_distr_r. apply Z.mod_mul. unfold DAYUS; lia. Qed.

Lemma ym_range y m : let '(y', m') := ym y m in 1 <= m' <= 12.
Proof. unfold ym. lia. Qed.
Lemma ym_id y m : 1 <= m <= 12 -> ym y m = (y, m).
Proof. intros H. unfold ym. f_equal; lia. Qed.
Lemma ym_add y m k : let '(y', m') := ym y (m + k) in 1 <= m <= 12 -> ym y' (m' - k) = (y, m).
Proof. unfold ym. intros H. f_equal; lia. Qed.

Lemma ymd_of_ord_day n : let '(y, m, d) := ymd_of_ord n in 1 <= m <= 12 /\ 1 <= d <= dim y m /\ d <= 31.
Proof.
  pose proof (ymd_of_ord_valid n) as V. destruct (ymd_of_ord n) as [[y m] d].
  destruct V as [V _]. unfold valid_md in V. pose proof (dim_range y m). lia.
Qed.

(* the month-overflow constructor, without the (inapplicable) swap heuristic *)
Lemma ymd_us_plain y m d y' m' : d <= 1500 -> ym y m = (y', m') -> 1 <= y' <= 9999 ->
  ymd_us y m d = Some (us_of_ord (ord_of_ymd y' m' 1) + (d - 1) * DAYUS).
Proof.
  intros Hd Hym Hy. unfold ymd_us.
  replace ((1500 <? d) && (d <? 3000) && (0 <? y) && (y <? 32) && (0 <? m) && (m <? 13)) with false by lia.
  rewrite Hym. pose proof (ym_range y m) as R. rewrite Hym in R.
  unfold mk_datetime, valid_ymd. pose proof (dim_range y' m').
  replace ((1 <=? y') && (1 <=? m') && (m' <=? 12) && (1 <=? 1) && (1 <=? dim y' m') && (y' <=? 9999)) with true by lia.
  reflexivity.
Qed.

Lemma ord_first_plus y m d : ord_of_ymd y m 1 + (d - 1) = ord_of_ymd y m d.
Proof. unfold ord_of_ymd. lia. Qed.

Lemma ord_overflow y m e : 1 <= m <= 12 ->
  let '(y2, m2) := ym y (m + 1) in ord_of_ymd y m (dim y m + e) = ord_of_ymd y2 m2 e.
Proof.
  intros H. unfold ym, ord_of_ymd.
  destruct (Z.eq_dec m 12) as [->|Hne].
  - assert (A : dbm y 13 = dbm y 12 + dim y 12) by (apply (dbm_next y 12); lia).
    assert (B : dbm (y + 1) 1 = 0) by reflexivity.
    change ((12 + 1 - 1) / 12) with 1. change (1 + (12 + 1 - 1) mod 12) with 1.
    rewrite dby_next, A, B. lia.
  - replace ((m + 1 - 1) / 12) with 0 by lia. replace (1 + (m + 1 - 1) mod 12) with (m + 1) by lia.
    rewrite dbm_next by lia. replace (y + 0) with y by lia. lia.
Qed.

Theorem ymd_us_lands y m d y' m' : 1 <= d <= 31 -> ym y m = (y', m') -> 1 <= y' <= 9999 ->
  exists r, ymd_us y m d = Some r /\ tod_of_us r = 0 /\
    ymd_of_ord (ord_of_us r) =
      if d <=? dim y' m' then (y', m', d)
      else let '(y2, m2) := ym y' (m' + 1) in (y2, m2, d - dim y' m').
Proof.
  intros Hd Hym Hy. eexists. split; [apply (ymd_us_plain y m d y' m'); [lia|exact Hym|exact Hy]|].
  split; [apply tod_us_shift|]. rewrite ord_us_shift, ord_first_plus.
  pose proof (ym_range y m) as R. rewrite Hym in R. pose proof (dim_range y' m') as DR.
  destruct (d <=? dim y' m') eqn:E.
  - apply ymd_of_ord_of_ymd. unfold valid_md. lia.
  - pose proof (ord_overflow y' m' (d - dim y' m') R) as O.
    pose proof (ym_range y' (m' + 1)) as R2.
    destruct (ym y' (m' + 1)) as [y2 m2].
    replace (dim y' m' + (d - dim y' m')) with d in O by lia. rewrite O.
    apply ymd_of_ord_of_ymd. unfold valid_md. pose proof (dim_range y2 m2). lia.
Qed.

(* instances for the three month-based units *)
Definition month_target (u : unit_) (y m k : Z) : Z * Z :=
  match u with UM => ym y (m + k) | UQ => ym y (m + 3 * k) | _ => ym (y + k) m end.

Theorem bump_month_lands u t k y m d y' m' :
  (u = UM \/ u = UQ \/ u = UY) ->
  ymd_of_ord (ord_of_us t) = (y, m, d) -> month_target u y m k = (y', m') -> 1 <= y' <= 9999 ->
  exists r, bump1 t (k, u) = Some r /\ tod_of_us r = 0 /\
    ymd_of_ord (ord_of_us r) =
      if d <=? dim y' m' then (y', m', d)
      else let '(y2, m2) := ym y' (m' + 1) in (y2, m2, d - dim y' m').
Proof.
  intros Hu Ht Htg Hy. pose proof (ymd_of_ord_day (ord_of_us t)) as D. rewrite Ht in D.
  unfold bump1, year_of, month_of, day_of. rewrite Ht.
  destruct Hu as [-> | [-> | ->]]; cbn [month_target] in Htg; apply ymd_us_lands; try lia; exact Htg.
Qed.

Theorem bump_month_inverse t k y m d y' m' :
  tod_of_us t = 0 -> ymd_of_ord (ord_of_us t) = (y, m, d) -> d <= 28 ->
  ym y (m + k) = (y', m') -> 1 <= y' <= 9999 -> 1 <= y <= 9999 ->
  exists r, bump1 t (k, UM) = Some r /\ bump1 r (- k, UM) = Some t.
Proof.
  intros Htod Ht Hd Hym Hy' Hy.
  pose proof (ymd_of_ord_day (ord_of_us t)) as D. rewrite Ht in D.
  destruct (bump_month_lands UM t k y m d y' m' (or_introl eq_refl) Ht Hym Hy') as [r [Hr [Hrt Hry]]].
  exists r. split; [exact Hr|].
  pose proof (dim_range y' m'). replace (d <=? dim y' m') with true in Hry by lia.
  unfold bump1, year_of, month_of, day_of. rewrite Hry.
  pose proof (ym_add y m k) as A. rewrite Hym in A. specialize (A ltac:(lia)).
  replace (m' + - k) with (m' - k) by lia.
  rewrite (ymd_us_plain y' (m' - k) d y m) by (try exact A; lia).
  f_equal.
  pose proof (ymd_of_ord_valid (ord_of_us t)) as V. rewrite Ht in V. destruct V as [_ V].
  unfold us_of_ord. unfold ord_of_us, tod_of_us in *. rewrite <- (ord_first_plus y m d) in V.
  assert (0 < DAYUS) by (unfold DAYUS; lia). nia.
Qed.

Theorem bump_year_inverse t k y m d :
  tod_of_us t = 0 -> ymd_of_ord (ord_of_us t) = (y, m, d) -> d <= 28 ->
  1 <= y + k <= 9999 -> 1 <= y <= 9999 ->
  exists r, bump1 t (k, UY) = Some r /\ bump1 r (- k, UY) = Some t.
Proof.
  intros Htod Ht Hd Hy' Hy.
  pose proof (ymd_of_ord_day (ord_of_us t)) as D. rewrite Ht in D.
  assert (Htg : month_target UY y m k = (y + k, m)) by (cbn [month_target]; apply ym_id; lia).
  destruct (bump_month_lands UY t k y m d (y + k) m (or_intror (or_intror eq_refl)) Ht Htg Hy') as [r [Hr [Hrt Hry]]].
  exists r. split; [exact Hr|].
  pose proof (dim_range (y + k) m). replace (d <=? dim (y + k) m) with true in Hry by lia.
  unfold bump1, year_of, month_of, day_of. rewrite Hry.
  rewrite (ymd_us_plain (y + k + - k) m d y m) by (try (replace (y + k + - k) with y by lia; apply ym_id); lia).
  f_equal.
  pose proof (ymd_of_ord_valid (ord_of_us t)) as V. rewrite Ht in V. destruct V as [_ V].
  unfold us_of_ord. unfold ord_of_us, tod_of_us in *. rewrite <- (ord_first_plus y m d) in V.
  assert (0 < DAYUS) by (unfold DAYUS; lia). nia.
Qed.

(* compound tenors are applied left to right *)
Lemma dt_bump_app t a b :
  dt_bump t (a ++ b) = match dt_bump t a with Some t' => dt_bump t' b | None => None end.
Proof.
  revert t. induction a as [|tok a IH]; intros t; cbn [dt_bump app]; [reflexivity|].
  destruct (bump1 t tok) as [t'|]; [apply IH | reflexivity].
Qed.
