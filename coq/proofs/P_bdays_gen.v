(* Bridge: the text generated from /repo/src/pyg_base/_drange.py by the translator (Calendar.is_holiday,
   is_bday, the 'f'/'p' loops of adjust, the |days| <= 1 path of add and the path selector) computes the
   same functions as the hand-written model M_bdays the C05 theorems are about.
   A semantic edit of those Python lines breaks a Qed here. *)
From Coq Require Import ZArith List Bool Lia.
From PB Require Import model.M_cal model.M_bdays.
From PB Require gen.Gen_drange.
Open Scope Z_scope.

Section Bridge.
Variable hol : Z -> bool.
Variable wk : Z -> bool.
Variables t0 t1 : Z.

Lemma gen_is_holiday d : Gen_drange.is_holiday hol wk d = is_holiday hol wk d.
Proof. reflexivity. Qed.
Lemma gen_is_bday d : Gen_drange.is_bday hol wk d = is_bday hol wk d.
Proof. reflexivity. Qed.

Lemma gen_adj_f1 fuel : forall t, Gen_drange.adjust_f_loop1 hol wk t1 fuel t = adj_f1 hol wk t1 fuel t.
Proof.
  induction fuel as [|k IH]; intros t; cbn [Gen_drange.adjust_f_loop1 adj_f1]; [reflexivity|].
  rewrite gen_is_holiday. destruct (is_holiday hol wk t && (t <=? t1)); [apply IH | reflexivity].
Qed.
Lemma gen_adj_f2 fuel : forall t, Gen_drange.adjust_f_loop2 wk t1 fuel t = adj_f2 wk t1 fuel t.
Proof.
  induction fuel as [|k IH]; intros t; cbn [Gen_drange.adjust_f_loop2 adj_f2]; [reflexivity|].
  unfold weekend at 1. destruct ((t1 <? t) && wk (weekday_ord t)); [apply IH | reflexivity].
Qed.
Lemma gen_adjust_f fuel t : Gen_drange.adjust_f hol wk t1 fuel t = adjust_f hol wk t1 fuel t.
Proof.
  unfold Gen_drange.adjust_f, adjust_f. rewrite gen_adj_f1.
  destruct (adj_f1 hol wk t1 fuel t) as [r|]; [|reflexivity]. cbv zeta. rewrite gen_adj_f2.
  destruct (adj_f2 wk t1 fuel r); reflexivity.
Qed.
Lemma gen_adj_p1 fuel : forall t, Gen_drange.adjust_p_loop1 hol wk t0 fuel t = adj_p1 hol wk t0 fuel t.
Proof.
  induction fuel as [|k IH]; intros t; cbn [Gen_drange.adjust_p_loop1 adj_p1]; [reflexivity|].
  rewrite gen_is_holiday. destruct (is_holiday hol wk t && (t0 <=? t)); [apply IH | reflexivity].
Qed.
Lemma gen_adj_p2 fuel : forall t, Gen_drange.adjust_p_loop2 wk t0 fuel t = adj_p2 wk t0 fuel t.
Proof.
  induction fuel as [|k IH]; intros t; cbn [Gen_drange.adjust_p_loop2 adj_p2]; [reflexivity|].
  unfold weekend at 1. destruct ((t <? t0) && wk (weekday_ord t)); [apply IH | reflexivity].
Qed.
Lemma gen_adjust_p fuel t : Gen_drange.adjust_p hol wk t0 fuel t = adjust_p hol wk t0 fuel t.
Proof.
  unfold Gen_drange.adjust_p, adjust_p. rewrite gen_adj_p1.
  destruct (adj_p1 hol wk t0 fuel t) as [r|]; [|reflexivity]. cbv zeta. rewrite gen_adj_p2.
  destruct (adj_p2 wk t0 fuel r); reflexivity.
Qed.

Lemma gen_add_uses_table n : Gen_drange.add_uses_table n = add_uses_table n.
Proof. reflexivity. Qed.
Lemma gen_add_loop fuel days inc t : forall res,
  Gen_drange.add_path_loop1 hol wk fuel days inc t res = add_loop hol wk fuel inc res.
Proof.
  induction fuel as [|k IH]; intros res; cbn [Gen_drange.add_path_loop1 add_loop]; [reflexivity|].
  rewrite gen_is_holiday. destruct (is_holiday hol wk res); [apply IH | reflexivity].
Qed.
(* the generated |days| <= 1 path, started from the adjusted date s, is exactly the model's loop path *)
Lemma gen_add_path fuel s n : Gen_drange.add_path hol wk fuel s n = add_loop hol wk fuel n (s + n).
Proof.
  unfold Gen_drange.add_path. cbv zeta. rewrite gen_add_loop, Z.mul_1_r.
  destruct (add_loop hol wk fuel n (s + n)); reflexivity.
Qed.
End Bridge.
