(* C13 — df_unslice after stitching: which rows each recovered series holds, and the round trip. *)
From Coq Require Import ZArith List Bool Arith Lia Sorting.Sorted.
From PB Require Import model.M_slice proofs.P_slice.
Import ListNotations.
Open Scope Z_scope.

(* ------------------------------------------------------------------ generic list facts *)
Lemma nth_map_seq_from {A} (h : nat -> A) a len j d : (j < len)%nat -> nth j (map h (seq a len)) d = h (a + j)%nat.
Proof.
  intros H. rewrite (nth_indep _ d (h 0%nat)) by (rewrite map_length, seq_length; exact H).
  rewrite map_nth, seq_nth by exact H. reflexivity.
Qed.
Lemma map_nth_seq0 {A} (l : list A) d : map (fun i => nth i l d) (seq 0 (length l)) = l.
Proof.
  apply (nth_ext _ _ d d); [now rewrite map_length, seq_length|].
  intros i H. rewrite map_length, seq_length in H. now rewrite nth_map_seq_from.
Qed.
Lemma firstn_seq_nth {A} n : forall (l : list A) d, firstn n l = map (fun m => nth m l d) (seq 0 (Nat.min n (length l))).
Proof.
  induction n as [|n IH]; intros [|a l] d; simpl; try reflexivity.
  f_equal. rewrite <- seq_shift, map_map. apply IH.
Qed.
Lemma window_seq {A} n : forall i (l : list A) d,
  firstn n (skipn i l) = map (fun m => nth m l d) (seq i (Nat.min n (length l - i))).
Proof.
  induction i as [|i IH]; intros l d.
  - simpl. rewrite Nat.sub_0_r. apply firstn_seq_nth.
  - destruct l as [|a l]; simpl.
    + rewrite Nat.min_0_r. now destruct n.
    + rewrite (IH l d), <- seq_shift, map_map. reflexivity.
Qed.
Lemma filter_map_key {A} (p : Z -> bool) (f : Z -> A) l :
  filter (fun r => p (fst r)) (map (fun t => (t, f t)) l) = map (fun t => (t, f t)) (filter p l).
Proof. induction l as [|a l IH]; simpl; [reflexivity|]. destruct (p a); simpl; now rewrite IH. Qed.

(* two strictly sorted lists with the same elements are equal *)
Lemma sorted_ext {A} : forall (l1 l2 : list (Z * A)), sorted l1 -> sorted l2 ->
  (forall x, In x l1 <-> In x l2) -> l1 = l2.
Proof.
  induction l1 as [|a l1 IH]; intros [|b l2] S1 S2 H.
  - reflexivity.
  - destruct (proj2 (H b) (or_introl eq_refl)).
  - destruct (proj1 (H a) (or_introl eq_refl)).
  - inversion S1 as [|? ? S1' F1]; inversion S2 as [|? ? S2' F2]; subst.
    rewrite Forall_forall in F1, F2.
    assert (E : a = b).
    { destruct (proj1 (H a) (or_introl eq_refl)) as [E|Ha]; [now symmetry|].
      destruct (proj2 (H b) (or_introl eq_refl)) as [E|Hb]; [exact E|].
      specialize (F1 b Hb). specialize (F2 a Ha). lia. }
    subst b. f_equal. apply IH; auto. intros x. split; intros Hx.
    + destruct (proj1 (H x) (or_intror Hx)) as [E|Hx2]; [|exact Hx2]. subst x. specialize (F1 a Hx). lia.
    + destruct (proj2 (H x) (or_intror Hx)) as [E|Hx1]; [|exact Hx1]. subst x. specialize (F2 a Hx). lia.
Qed.

Lemma sorted_of_ts (s : ts) : ts_sorted s -> sorted s.
Proof.
  unfold ts_sorted, ksorted, sorted. induction s as [|a s IH]; simpl; intros H; [constructor|].
  inversion H as [|? ? S F]; subst. constructor; [now apply IH|].
  rewrite Forall_forall in *. intros b Hb. apply F. now apply in_map.
Qed.
Lemma ts_of_sorted (s : ts) : sorted s -> ts_sorted s.
Proof.
  unfold ts_sorted, ksorted, sorted. induction 1 as [|a s S IH F]; simpl; constructor; [exact IH|].
  rewrite Forall_forall in *. intros t Ht. apply in_map_iff in Ht. destruct Ht as [b [<- Hb]]. now apply F.
Qed.

(* lookup in a series *)
Lemma lookup_some t : forall s v, lookup t s = Some v -> In (t, Some v) s.
Proof.
  induction s as [|[t' c] s IH]; simpl; intros v H; [discriminate|].
  destruct (t =? t') eqn:E; [apply Z.eqb_eq in E; subst; left; reflexivity | right; now apply IH].
Qed.
Lemma lookup_in t c : forall s, sorted s -> In (t, c) s -> lookup t s = c.
Proof.
  induction s as [|[t' c'] s IH]; simpl; intros S H; [destruct H|].
  inversion S as [|? ? S' F]; subst. rewrite Forall_forall in F.
  destruct H as [E|H].
  - injection E as -> ->. now rewrite Z.eqb_refl.
  - specialize (F _ H). simpl in F. destruct (t =? t') eqn:E; [apply Z.eqb_eq in E; lia | now apply IH].
Qed.
Lemma lookup_filter (q : Z -> bool) t : forall s : ts,
  lookup t (filter (fun p => q (fst p)) s) = if q t then lookup t s else None.
Proof.
  induction s as [|[t' c] s IH]; simpl; [now destruct (q t)|].
  destruct (q t') eqn:Q; simpl.
  - destruct (t =? t') eqn:E; [apply Z.eqb_eq in E; subst; now rewrite Q | exact IH].
  - rewrite IH. destruct (t =? t') eqn:E; [apply Z.eqb_eq in E; subst; now rewrite Q | reflexivity].
Qed.
Lemma keys_filter (q : Z -> bool) t (s : ts) :
  In t (map fst (filter (fun p => q (fst p)) s)) <-> q t = true /\ In t (map fst s).
Proof.
  rewrite !in_map_iff. split.
  - intros [p [<- Hp]]. apply filter_In in Hp. destruct Hp. split; [assumption | exists p; auto].
  - intros [Q [p [<- Hp]]]. exists p. split; [reflexivity | apply filter_In; auto].
Qed.

(* strictly increasing bounds *)
Lemma ksorted_nth_lt l : ksorted l -> forall i j, (i < j < length l)%nat -> nth i l 0 < nth j l 0.
Proof.
  induction 1 as [|a l S IH F]; intros i j H; simpl in H; [lia|].
  destruct j as [|j]; [lia|]. destruct i as [|i]; simpl.
  - rewrite Forall_forall in F. apply F. apply nth_In. lia.
  - apply IH. lia.
Qed.
Lemma ksorted_nth_le l : ksorted l -> forall i j, (i <= j < length l)%nat -> nth i l 0 <= nth j l 0.
Proof.
  intros S i j H. destruct (Nat.eq_dec i j) as [->|N]; [lia|].
  pose proof (ksorted_nth_lt l S i j ltac:(lia)). lia.
Qed.
Lemma ksorted_nondec l : ksorted l -> nondec l = true.
Proof.
  induction 1 as [|a l S IH F]; [reflexivity|]. destruct l as [|b l]; [reflexivity|].
  change (nondec (a :: b :: l)) with ((a <=? b) && nondec (b :: l)). rewrite IH.
  inversion F; subst. apply andb_true_iff. split; [apply Z.leb_le; lia | reflexivity].
Qed.

(* indexed views of the recursions *)
Definition lo' (prev : bound) (ubs : list Z) (i : nat) : bound :=
  match i with O => prev | S i' => BAt (nth i' ubs 0) end.
Lemma stitch_from_indexed day oc w : forall ubs fs prev, length fs = length ubs ->
  stitch_from day oc w prev fs ubs =
  concat (map (fun i => map (padrow w) (filter (fun r => in_window day oc (lo' prev ubs i) (BAt (nth i ubs 0)) (fst r)) (nth i fs [])))
              (seq 0 (length ubs))).
Proof.
  induction ubs as [|u us IH]; intros [|f fs] prev H; simpl in H; try discriminate; [reflexivity|].
  cbn [stitch_from length seq map concat]. f_equal.
  rewrite (IH fs (BAt u)) by lia. rewrite <- seq_shift, map_map. f_equal. apply map_ext. intros [|i]; reflexivity.
Qed.
Lemma zip3_const_nth {A} (g : frame -> bound -> bound -> A) f d : forall ubs prev i, (i < length ubs)%nat ->
  nth i (zip3 g (map (fun _ => f) ubs) (shift prev ubs) (map BAt ubs)) d = g f (lo' prev ubs i) (BAt (nth i ubs 0)).
Proof.
  induction ubs as [|u us IH]; intros prev i H; simpl in H; [lia|].
  destruct i as [|i]; [reflexivity|]. cbn [map shift zip3 nth]. rewrite IH by lia. now destruct i.
Qed.

(* ------------------------------------------------------------------ stitched frame, by interval *)
Section RoundTrip.
Variable day : Z.
Variable n : nat.
Variable ubs : list Z.
Hypothesis Hub : ksorted ubs.
Hypothesis Hn1 : (1 <= n)%nat.
Hypothesis Hnk : (n <= length ubs)%nat.
Let k := length ubs.
Definition u (i : nat) : Z := nth i ubs 0.
Definition inI (i : nat) (t : Z) : bool := in_window day (false, true) (lo' BNone ubs i) (BAt (u i)) t.

Lemma inI_spec i t : inI i t = true <-> (match i with O => True | S i' => u i' < t end) /\ t <= u i.
Proof.
  unfold inI, in_window. destruct i as [|i]; simpl.
  - rewrite Z.leb_le. tauto.
  - rewrite andb_true_iff, Z.ltb_lt, Z.leb_le. reflexivity.
Qed.
Lemma u_le i j : (i <= j < k)%nat -> u i <= u j.
Proof. apply ksorted_nth_le, Hub. Qed.
Lemma inI_disjoint i j t : (i < k)%nat -> (j < k)%nat -> inI i t = true -> inI j t = true -> i = j.
Proof.
  intros Hi Hj H1 H2. apply inI_spec in H1, H2.
  destruct (Nat.lt_trichotomy i j) as [L|[E|L]]; [|exact E|]; exfalso.
  - destruct j as [|j]; [lia|]. pose proof (u_le i j ltac:(lia)). lia.
  - destruct i as [|i]; [lia|]. pose proof (u_le j i ltac:(lia)). lia.
Qed.
(* every timestamp up to u m lies in exactly one interval i <= m *)
Lemma inI_exists m t : (m < k)%nat -> t <= u m -> exists i, (i <= m)%nat /\ inI i t = true.
Proof.
  induction m as [|m IH]; intros Hm Ht.
  - exists 0%nat. split; [lia|]. apply inI_spec. auto.
  - destruct (Z_le_gt_dec t (u m)) as [L|G].
    + destruct (IH ltac:(lia) L) as [i [Hi H]]. exists i. split; [lia | exact H].
    + exists (S m). split; [lia|]. apply inI_spec. split; lia.
Qed.

Lemma sorted_concat_seq {A} (g : nat -> list (Z * A)) :
  (forall i, (i < k)%nat -> sorted (g i)) -> (forall i x, (i < k)%nat -> In x (g i) -> inI i (fst x) = true) ->
  forall len a, (a + len <= k)%nat -> sorted (concat (map g (seq a len))).
Proof.
  intros Hs Hin. induction len as [|len IH]; intros a Ha; simpl; [constructor|].
  apply sorted_app; [apply Hs; lia | apply IH; lia |].
  intros x y Hx Hy. apply in_concat in Hy. destruct Hy as [l [Hl Hy]]. apply in_map_iff in Hl.
  destruct Hl as [j [<- Hj]]. apply in_seq in Hj.
  pose proof (proj1 (inI_spec _ _) (Hin a x ltac:(lia) Hx)) as [_ H1].
  pose proof (proj1 (inI_spec _ _) (Hin j y ltac:(lia) Hy)) as [H2 _].
  destruct j as [|j]; [lia|]. pose proof (u_le a j ltac:(lia)). lia.
Qed.

(* the window of series that feeds interval i, the piece of interval i, the stitched frame *)
Definition W (ss : list ts) (i : nat) : list ts := firstn n (skipn i ss).
Definition P (ss : list ts) (i : nat) : frame :=
  map (padrow n) (filter (fun r => inI i (fst r)) (join (W ss i))).
Definition F (ss : list ts) : frame := concat (map (P ss) (seq 0 k)).

Lemma W_seq ss i : length ss = k -> W ss i = map (fun m => nth m ss []) (seq i (Nat.min n (k - i))).
Proof. intros H. unfold W. rewrite (window_seq n i ss []), H. reflexivity. Qed.
Lemma W_in ss i s : length ss = k -> (In s (W ss i) <-> exists m, (i <= m < i + Nat.min n (k - i))%nat /\ s = nth m ss []).
Proof.
  intros H. rewrite W_seq by exact H. rewrite in_map_iff. split.
  - intros [m [<- Hm]]. apply in_seq in Hm. exists m. auto.
  - intros [m [Hm ->]]. exists m. split; [reflexivity | now apply in_seq].
Qed.
Lemma W_lookup ss i t m : length ss = k -> (i <= m < i + Nat.min n (k - i))%nat ->
  nth (m - i) (pad n (map (lookup t) (W ss i))) None = lookup t (nth m ss []).
Proof.
  intros H Hm. unfold pad. rewrite app_nth1 by (rewrite map_length, W_seq, map_length, seq_length by exact H; lia).
  rewrite W_seq, map_map by exact H. rewrite nth_map_seq_from by lia. f_equal. f_equal. lia.
Qed.

Lemma frames_nth ss i : length ss = k -> (i < k)%nat -> nth i (frames n ss) [] = join (W ss i).
Proof.
  intros H Hi. unfold frames. destruct (1 <? n)%nat eqn:E.
  - pose proof (windows_nth n ss i ltac:(lia)) as Hw.
    apply (map_nth_error join) in Hw. apply nth_error_nth with (d := []) in Hw. exact Hw.
  - apply Nat.ltb_ge in E.
    rewrite map_map. rewrite W_seq by exact H.
    replace (Nat.min n (k - i)) with 1%nat by lia. simpl.
    rewrite (nth_indep _ [] (join [[]])) by (rewrite map_length; lia).
    now rewrite (map_nth (fun s => join [s])).
Qed.

Lemma ss_sorted_W ss i : Forall ts_sorted ss -> Forall ts_sorted (W ss i).
Proof.
  intros H. unfold W. apply Forall_forall. intros s Hs. apply in_firstn in Hs.
  rewrite Forall_forall in H. apply H. clear -Hs. revert ss Hs. induction i as [|i IH]; intros [|a l] Hs; simpl in *; auto.
Qed.

(* df_slice(series, ub = ubs, n = n) is F *)
Theorem stitch_is_F ss : length ss = k -> Forall ts_sorted ss ->
  stitch day (false, true) n ss (UbList ubs) = Some (F ss).
Proof.
  intros H S. rewrite stitch_ub_exact by (auto using ksorted_nondec). f_equal.
  replace (Nat.min (Nat.max n 1) (length ss)) with n by (fold k in Hnk; lia).
  rewrite stitch_from_indexed by (unfold frames; destruct (1 <? n)%nat; rewrite !map_length; [|exact H];
                                   clear -H; fold k; rewrite <- H; clear; induction ss; simpl; auto).
  unfold F. fold k. f_equal. apply map_ext_in. intros i Hi. apply in_seq in Hi.
  unfold P. rewrite frames_nth by (auto; lia). reflexivity.
Qed.

Lemma P_sorted ss i : Forall ts_sorted ss -> sorted (P ss i).
Proof. intros S. unfold P. apply sorted_map_padrow, sorted_filter, join_sorted, ss_sorted_W, S. Qed.
Lemma P_in_I ss i x : In x (P ss i) -> inI i (fst x) = true.
Proof. unfold P. intros H. apply in_map_iff in H. destruct H as [r [<- Hr]]. apply filter_In in Hr. now destruct Hr. Qed.
Lemma F_sorted ss : Forall ts_sorted ss -> sorted (F ss).
Proof. intros S. unfold F. apply sorted_concat_seq; [intros; now apply P_sorted | intros i x _; apply P_in_I | lia]. Qed.

(* the rows of the stitched frame *)
Lemma F_rows ss t row : In (t, row) (F ss) <->
  exists i, (i < k)%nat /\ inI i t = true /\ (exists s, In s (W ss i) /\ In t (map fst s)) /\
            row = pad n (map (lookup t) (W ss i)).
Proof.
  unfold F. rewrite in_concat. split.
  - intros [l [Hl Hx]]. apply in_map_iff in Hl. destruct Hl as [i [<- Hi]]. apply in_seq in Hi.
    unfold P in Hx. apply in_map_iff in Hx. destruct Hx as [[t0 r0] [E Hr]]. unfold padrow in E. simpl in E. injection E as -> <-.
    apply filter_In in Hr. destruct Hr as [Hj HI]. apply join_rows in Hj. destruct Hj as [Hs ->].
    exists i. repeat split; auto; lia.
  - intros [i [Hi [HI [Hs ->]]]]. exists (P ss i). split; [apply in_map; apply in_seq; lia|].
    unfold P. apply in_map_iff. exists (t, map (lookup t) (W ss i)). split; [reflexivity|].
    apply filter_In. split; [apply join_rows; auto | exact HI].
Qed.

(* ------------------------------------------------------------------ df_unslice *)
(* series m is visible in the intervals m-n+1 .. m: the window (u (m-n), u m] *)
Definition win (m : nat) (t : Z) : bool :=
  in_window day (false, true) (if (n <=? m)%nat then BAt (u (m - n)) else BNone) (BAt (u m)) t.
Lemma win_spec m t : win m t = true <-> ((n <= m)%nat -> u (m - n) < t) /\ t <= u m.
Proof.
  unfold win, in_window. destruct (n <=? m)%nat eqn:E; simpl.
  - apply Nat.leb_le in E. rewrite andb_true_iff, Z.ltb_lt, Z.leb_le. tauto.
  - apply Nat.leb_gt in E. rewrite Z.leb_le. split; [intros H; split; [lia | exact H] | tauto].
Qed.
Lemma win_of_inI i m t : (i <= m < i + n)%nat -> (m < k)%nat -> inI i t = true -> win m t = true.
Proof.
  intros Hm Hk H. apply inI_spec in H. destruct H as [H1 H2]. apply win_spec. split.
  - intros Hn. destruct i as [|i]; [lia|]. pose proof (u_le (m - n) i ltac:(lia)). lia.
  - pose proof (u_le i m ltac:(lia)). lia.
Qed.
Lemma inI_of_win m t : (m < k)%nat -> win m t = true -> exists i, (S m - n <= i <= m)%nat /\ inI i t = true.
Proof.
  intros Hm H. apply win_spec in H. destruct H as [H1 H2].
  destruct (inI_exists m t Hm H2) as [i [Hi HI]]. exists i. split; [|exact HI]. split; [|lia].
  destruct (le_lt_dec (S m - n) i) as [L|G]; [exact L|]. exfalso.
  apply inI_spec in HI. destruct HI as [_ HI]. specialize (H1 ltac:(lia)).
  pose proof (u_le i (m - n) ltac:(lia)). lia.
Qed.

Definition pieces (ss : list ts) : list frame :=
  zip3 (fun fr lb ub => df_slice_one day (false, true) lb ub fr) (map (fun _ => F ss) ubs) (shift BNone ubs) (map BAt ubs).
Lemma pieces_nth ss i : Forall ts_sorted ss -> (i < k)%nat ->
  nth i (pieces ss) [] = filter (fun r => inI i (fst r)) (F ss).
Proof.
  intros S Hi. unfold pieces. rewrite zip3_const_nth by exact Hi.
  apply no_wrap_exact; [now apply F_sorted|]. intros a b E. destruct i; discriminate.
Qed.
(* the series recovered for bound m: column m-i of the rows of interval i, for i = m-n+1 .. m, NaN dropped *)
Definition Rm (ss : list ts) (m : nat) : ts :=
  drop_nan (concat (map (fun i => column (m - i) (nth i (pieces ss) [])) (seq (S m - n) (S m - (S m - n))))).
Lemma unslice_eq ss : unslice day n (F ss) ubs = map (fun m => (u m, Rm ss m)) (seq 0 k).
Proof. reflexivity. Qed.

Definition all_some (s : ts) := Forall (fun p => snd p <> None) s.
Lemma sorted_column j f : sorted f -> sorted (column j f).
Proof.
  unfold column. induction 1 as [|a l S IH Fa]; simpl; constructor; [exact IH|].
  rewrite Forall_forall in *. intros b Hb. apply in_map_iff in Hb. destruct Hb as [r [<- Hr]]. simpl. now apply Fa.
Qed.
Lemma nth_ss_sorted ss m : Forall ts_sorted ss -> ts_sorted (nth m ss []).
Proof.
  intros S. destruct (le_lt_dec (length ss) m) as [L|L]; [rewrite nth_overflow by exact L; constructor|].
  rewrite Forall_forall in S. apply S. now apply nth_In.
Qed.

Theorem Rm_exact ss m : length ss = k -> Forall ts_sorted ss -> Forall all_some ss -> (m < k)%nat ->
  Rm ss m = filter (fun p => win m (fst p)) (nth m ss []).
Proof.
  intros HL S V Hm.
  assert (Ssm : sorted (nth m ss [])) by (apply sorted_of_ts, nth_ss_sorted, S).
  apply sorted_ext.
  - unfold Rm, drop_nan. apply sorted_filter. apply sorted_concat_seq; [| |lia].
    + intros i Hi. rewrite pieces_nth by assumption. apply sorted_column, sorted_filter, F_sorted, S.
    + intros i x Hi Hx. rewrite pieces_nth in Hx by assumption. unfold column in Hx. apply in_map_iff in Hx.
      destruct Hx as [r [<- Hr]]. apply filter_In in Hr. now destruct Hr.
  - now apply sorted_filter.
  - intros [t c]. split.
    + intros H. unfold Rm, drop_nan in H. apply filter_In in H. destruct H as [H Hc]. simpl in Hc.
      apply in_concat in H. destruct H as [l [Hl H]]. apply in_map_iff in Hl. destruct Hl as [i [<- Hi]]. apply in_seq in Hi.
      rewrite pieces_nth in H by (auto; lia). unfold column in H. apply in_map_iff in H.
      destruct H as [[t0 row] [E Hr]]. simpl in E. injection E as -> <-.
      apply filter_In in Hr. destruct Hr as [Hr HI]. simpl in HI.
      apply F_rows in Hr. destruct Hr as [i' [Hi' [HI' [_ ->]]]].
      assert (i' = i) by (apply (inI_disjoint i' i t); auto; lia). subst i'.
      rewrite W_lookup in * by (auto; lia).
      apply filter_In. split; [|simpl; apply (win_of_inI i); auto; lia].
      destruct (lookup t (nth m ss [])) as [v|] eqn:E; [|discriminate]. now apply lookup_some.
    + intros H. apply filter_In in H. destruct H as [H Hw]. simpl in Hw.
      assert (exists v, c = Some v) as [v ->].
      { destruct c as [v|]; [eauto|]. exfalso.
        assert (Hs : all_some (nth m ss [])) by (rewrite Forall_forall in V; apply V, nth_In; lia).
        unfold all_some in Hs. rewrite Forall_forall in Hs. now apply (Hs _ H). }
      destruct (inI_of_win m t Hm Hw) as [i [Hi HI]].
      unfold Rm, drop_nan. apply filter_In. split; [|reflexivity].
      apply in_concat. exists (column (m - i) (nth i (pieces ss) [])). split.
      * apply (in_map (fun i => column (m - i) (nth i (pieces ss) []))). apply in_seq. lia.
      * rewrite pieces_nth by (auto; lia). unfold column. apply in_map_iff.
        exists (t, pad n (map (lookup t) (W ss i))). split.
        -- simpl. f_equal. rewrite W_lookup by (auto; lia). now apply lookup_in.
        -- apply filter_In. split; [|exact HI]. apply F_rows. exists i. repeat split; auto; [lia|].
           exists (nth m ss []). split; [apply W_in; [exact HL|]; exists m; split; [lia | reflexivity]|].
           apply in_map_iff. exists (t, Some v). auto.
Qed.

(* ------------------------------------------------------------------ stitching the recovered series again *)
Definition recovered (ss : list ts) : list ts := map snd (unslice day n (F ss) ubs).
Lemma recovered_eq ss : length ss = k -> Forall ts_sorted ss -> Forall all_some ss ->
  recovered ss = map (fun m => filter (fun p => win m (fst p)) (nth m ss [])) (seq 0 k).
Proof.
  intros HL S V. unfold recovered. rewrite unslice_eq, map_map. simpl. apply map_ext_in.
  intros m Hm. apply in_seq in Hm. apply Rm_exact; auto; lia.
Qed.
Lemma recovered_keys ss : map fst (unslice day n (F ss) ubs) = ubs.
Proof. rewrite unslice_eq, map_map. simpl. apply map_nth_seq0. Qed.

Theorem roundtrip ss : length ss = k -> Forall ts_sorted ss -> Forall all_some ss ->
  length (recovered ss) = k /\ Forall ts_sorted (recovered ss) /\ F (recovered ss) = F ss.
Proof.
  intros HL S V. rewrite recovered_eq by assumption.
  set (h := fun m => filter (fun p => win m (fst p)) (nth m ss [])).
  assert (HL' : length (map h (seq 0 k)) = k) by now rewrite map_length, seq_length.
  assert (S' : Forall ts_sorted (map h (seq 0 k))).
  { apply Forall_forall. intros s Hs. apply in_map_iff in Hs. destruct Hs as [m [<- _]].
    apply ts_of_sorted, sorted_filter, sorted_of_ts, nth_ss_sorted, S. }
  split; [exact HL'|]. split; [exact S'|].
  unfold F. f_equal. apply map_ext_in. intros i Hi. apply in_seq in Hi. unfold P. f_equal.
  assert (Hnth : forall m, (i <= m < i + Nat.min n (k - i))%nat -> nth m (map h (seq 0 k)) [] = h m).
  { intros m Hm. rewrite nth_map_seq_from by lia. reflexivity. }
  apply sorted_ext; [apply sorted_filter, join_sorted, ss_sorted_W, S' | apply sorted_filter, join_sorted, ss_sorted_W, S |].
  intros [t row]. rewrite !filter_In, !join_rows. simpl.
  split; intros [[Hs Hrow] HI]; (split; [|exact HI]).
  - assert (Hw : forall m, (i <= m < i + Nat.min n (k - i))%nat -> win m t = true)
      by (intros m Hm; apply (win_of_inI i); auto; lia).
    split.
    + destruct Hs as [s [Hs Ht]]. apply W_in in Hs; [|exact HL']. destruct Hs as [m [Hm ->]].
      rewrite Hnth in Ht by exact Hm. unfold h in Ht. apply keys_filter in Ht. destruct Ht as [_ Ht].
      exists (nth m ss []). split; [apply W_in; [exact HL|]; exists m; auto | exact Ht].
    + rewrite Hrow. rewrite !W_seq by assumption. rewrite !map_map. apply map_ext_in. intros m Hm. apply in_seq in Hm.
      rewrite Hnth by lia. unfold h. rewrite lookup_filter, Hw by lia. reflexivity.
  - assert (Hw : forall m, (i <= m < i + Nat.min n (k - i))%nat -> win m t = true)
      by (intros m Hm; apply (win_of_inI i); auto; lia).
    split.
    + destruct Hs as [s [Hs Ht]]. apply W_in in Hs; [|exact HL]. destruct Hs as [m [Hm ->]].
      exists (h m). split; [apply W_in; [exact HL'|]; exists m; split; [exact Hm | now rewrite Hnth]|].
      unfold h. apply keys_filter. split; [now apply Hw | exact Ht].
    + rewrite Hrow. rewrite !W_seq by assumption. rewrite !map_map. apply map_ext_in. intros m Hm. apply in_seq in Hm.
      rewrite Hnth by lia. unfold h. rewrite lookup_filter, Hw by lia. reflexivity.
Qed.
End RoundTrip.

(* ------------------------------------------------------------------ lb-list and lb+ub-list stitching *)
Definition piece day oc w (f : frame) (lb ub : bound) : frame :=
  map (padrow w) (filter (fun r => in_window day oc lb ub (fst r)) f).
Lemma stitch_zip_exact day oc w : forall fs lbs ubs, Forall sorted fs ->
  stitch_zip day oc w fs lbs ubs = concat (zip3 (piece day oc w) fs lbs ubs).
Proof.
  unfold stitch_zip. induction fs as [|f fs IH]; intros [|lb lbs] [|ub ubs] S; try reflexivity.
  inversion S; subst. cbn [zip3 concat]. unfold piece at 1. rewrite slice1_exact by assumption. f_equal. now apply IH.
Qed.
Theorem stitch_lb_exact day oc n ss lb : Forall ts_sorted ss -> nondec lb = true ->
  stitch day oc n ss (LbList lb) =
  Some (concat (zip3 (piece day oc (Nat.min (Nat.max n 1) (length ss))) (frames n ss) (map BAt lb) (map BAt (tl lb) ++ [BNone]))).
Proof. intros S N. unfold stitch. rewrite N. f_equal. apply stitch_zip_exact. now apply windows_sorted. Qed.
Theorem stitch_both_exact day oc n ss lb ub : Forall ts_sorted ss -> nondec lb = true -> nondec ub = true ->
  stitch day oc n ss (BothLists lb ub) =
  Some (concat (zip3 (piece day oc (Nat.min (Nat.max n 1) (length ss))) (frames n ss) (map BAt lb) (map BAt ub))).
Proof. intros S N1 N2. unfold stitch. rewrite N1, N2. simpl. f_equal. apply stitch_zip_exact. now apply windows_sorted. Qed.

Lemma piece_sorted day oc w f lb ub : sorted f -> sorted (piece day oc w f lb ub).
Proof. intros S. unfold piece. now apply sorted_map_padrow, sorted_filter. Qed.
Lemma piece_in day w f lb ub x : In x (piece day (false, true) w f lb ub) ->
  ge_lb day false lb (fst x) = true /\ le_ub day true ub (fst x) = true.
Proof.
  unfold piece. intros H. apply in_map_iff in H. destruct H as [r [<- Hr]]. apply filter_In in Hr.
  destruct Hr as [_ Hr]. unfold in_window in Hr. now apply andb_true_iff in Hr.
Qed.

(* "(]" brackets, lower bounds only: intervals (lb i, lb (i+1)], the last one unbounded above *)
Lemma lb_sorted day w : forall fs lb, Forall sorted fs -> nondec lb = true ->
  sorted (concat (zip3 (piece day (false, true) w) fs (map BAt lb) (map BAt (tl lb) ++ [BNone]))) /\
  (forall l ls, lb = l :: ls -> Forall (fun r => l < fst r) (concat (zip3 (piece day (false, true) w) fs (map BAt lb) (map BAt (tl lb) ++ [BNone])))).
Proof.
  induction fs as [|f fs IH]; intros lb S N; [split; [constructor | intros; constructor]|].
  destruct lb as [|l ls]; [split; [constructor | intros; constructor]|].
  inversion S as [|? ? Sf Sfs]; subst. destruct (nondec_tail _ _ N) as [N' L'].
  destruct ls as [|l2 ls].
  - cbn [map tl app zip3 concat]. replace (zip3 (piece day (false, true) w) fs [] []) with (@nil frame) by (destruct fs; reflexivity).
    cbn [concat]. rewrite app_nil_r. split; [now apply piece_sorted|].
    intros l0 ls0 E. injection E as <- <-. apply Forall_forall. intros x Hx. apply piece_in in Hx. destruct Hx as [Hx _].
    simpl in Hx. now apply Z.ltb_lt in Hx.
  - destruct (IH (l2 :: ls) Sfs N') as [S1 F1]. specialize (F1 l2 ls eq_refl). simpl in L'.
    cbn [map tl app zip3 concat] in *. split.
    + apply sorted_app; [now apply piece_sorted | exact S1 |]. intros x y Hx Hy. apply piece_in in Hx. destruct Hx as [_ Hx].
      simpl in Hx. apply Z.leb_le in Hx. rewrite Forall_forall in F1. specialize (F1 y Hy). simpl in F1. lia.
    + intros l0 ls0 E. injection E as <- <-. apply Forall_app. split.
      * apply Forall_forall. intros x Hx. apply piece_in in Hx. destruct Hx as [Hx _]. simpl in Hx. now apply Z.ltb_lt in Hx.
      * eapply Forall_impl; [|exact F1]. intros r Hr. simpl in Hr. lia.
Qed.

(* "(]" brackets, lower and upper bounds: intervals (lb i, ub i]; no overlap when ub i <= lb (i+1) *)
Fixpoint sep (lbs ubs : list Z) : Prop :=
  match lbs, ubs with
  | _ :: ((l2 :: _) as ls), u0 :: us => u0 <= l2 /\ sep ls us
  | _, _ => True
  end.
Lemma both_sorted day w : forall fs lbs ubs, Forall sorted fs -> nondec lbs = true -> sep lbs ubs ->
  sorted (concat (zip3 (piece day (false, true) w) fs (map BAt lbs) (map BAt ubs))) /\
  (forall l ls, lbs = l :: ls -> Forall (fun r => l < fst r) (concat (zip3 (piece day (false, true) w) fs (map BAt lbs) (map BAt ubs)))).
Proof.
  induction fs as [|f fs IH]; intros lbs ubs S N Sp; [split; [constructor | intros; constructor]|].
  destruct lbs as [|l ls]; [split; [constructor | intros; constructor]|].
  destruct ubs as [|u0 us]; [split; [constructor | intros; constructor]|].
  inversion S as [|? ? Sf Sfs]; subst. destruct (nondec_tail _ _ N) as [N' L'].
  cbn [map zip3 concat].
  assert (Hhead : Forall (fun r => l < fst r) (piece day (false, true) w f (BAt l) (BAt u0))).
  { apply Forall_forall. intros x Hx. apply piece_in in Hx. destruct Hx as [Hx _]. simpl in Hx. now apply Z.ltb_lt in Hx. }
  destruct ls as [|l2 ls].
  - replace (zip3 (piece day (false, true) w) fs (map BAt []) (map BAt us)) with (@nil frame) by (destruct fs; reflexivity).
    cbn [concat]. rewrite app_nil_r. split; [now apply piece_sorted|]. intros l0 ls0 E. now injection E as <- <-.
  - destruct Sp as [Hu Sp]. destruct (IH (l2 :: ls) us Sfs N' Sp) as [S1 F1]. specialize (F1 l2 ls eq_refl). simpl in L'.
    split.
    + apply sorted_app; [now apply piece_sorted | exact S1 |]. intros x y Hx Hy. apply piece_in in Hx. destruct Hx as [_ Hx].
      simpl in Hx. apply Z.leb_le in Hx. rewrite Forall_forall in F1. specialize (F1 y Hy). simpl in F1. lia.
    + intros l0 ls0 E. injection E as <- <-. apply Forall_app. split; [exact Hhead|].
      eapply Forall_impl; [|exact F1]. intros r Hr. simpl in Hr. lia.
Qed.
