(* drange: the guarded loop enumerates exactly t0, f t0, f (f t0), ... within the bound. *)
From Coq Require Import ZArith List Bool Lia ZifyBool Sorted.
From PB Require Import model.M_cal model.M_dates model.M_drange proofs.P_dates_b.
Import ListNotations.
Open Scope Z_scope.
Ltac Zify.zify_post_hook ::= Z.to_euclidean_division_equations.

Lemma loop_up_spec (f : Z -> option Z) fuel : forall t t1 l, loop_up f fuel t t1 = Ok l -> iter_up f t1 t l.
Proof.
  induction fuel as [|k IH]; intros t t1 l H; cbn [loop_up] in H; [discriminate|].
  destruct (t <=? t1) eqn:E.
  - destruct (f t) as [t'|] eqn:F; [|discriminate].
    destruct (loop_up f k t' t1) as [l'| |] eqn:L; cbn [res_cons] in H; try discriminate.
    injection H as <-. eapply iu_step; [lia | exact F | apply IH; exact L].
  - injection H as <-. apply iu_stop. lia.
Qed.
Lemma loop_down_spec (f : Z -> option Z) fuel : forall t t1 l, loop_down f fuel t t1 = Ok l -> iter_down f t1 t l.
Proof.
  induction fuel as [|k IH]; intros t t1 l H; cbn [loop_down] in H; [discriminate|].
  destruct (t1 <=? t) eqn:E.
  - destruct (f t) as [t'|] eqn:F; [|discriminate].
    destruct (loop_down f k t' t1) as [l'| |] eqn:L; cbn [res_cons] in H; try discriminate.
    injection H as <-. eapply id_step; [lia | exact F | apply IH; exact L].
  - injection H as <-. apply id_stop. lia.
Qed.

Section Loop.
Variable f : Z -> option Z.
Variable g : Z.                      (* minimal progress per step *)
Hypothesis g_pos : 0 < g.

(* forward *)
Hypothesis progress_up : forall t t', f t = Some t' -> t + g <= t'.



Lemma loop_up_total fuel : forall t t1, (forall x, t <= x <= t1 -> f x <> None) ->
  (0 < fuel)%nat -> (t1 - t) / g + 2 <= Z.of_nat fuel -> exists l, loop_up f fuel t t1 = Ok l.
Proof.
  induction fuel as [|k IH]; intros t t1 Hdef Hpos Hfuel.
  - lia.
  - cbn [loop_up]. destruct (t <=? t1) eqn:E; [|eexists; reflexivity].
    destruct (f t) as [t'|] eqn:F; [|exfalso; apply (Hdef t); [lia | exact F]].
    pose proof (progress_up t t' F) as P.
    destruct (IH t' t1) as [l' Hl'].
    + intros x Hx. apply Hdef. lia.
    + assert (0 <= (t1 - t) / g) by (apply Z.div_pos; lia). lia.
    + assert ((t1 - t') / g + 1 <= (t1 - t) / g).
      { replace (t1 - t) with ((t1 - t - g) + 1 * g) by lia. rewrite Z.div_add by lia.
        assert ((t1 - t') / g <= (t1 - t - g) / g) by (apply Z.div_le_mono; lia). lia. }
      lia.
    + rewrite Hl'. eexists; reflexivity.
Qed.

(* what iter_up means: starts at t, strictly increasing by f, within the bound, maximal *)
Lemma iter_up_props t1 : forall t l, iter_up f t1 t l ->
  (t <= t1 -> exists l', l = t :: l') /\ Forall (fun x => t <= x <= t1) l /\
  StronglySorted Z.lt l /\
  (forall a b pre post, l = pre ++ a :: b :: post -> f a = Some b).
Proof.
  intros t l H. induction H as [t Hs | t t' l Ht Hf Hi IH].
  - repeat split; [lia | constructor | constructor | intros a b pre post E; destruct pre; discriminate].
  - destruct IH as [IH1 [IH2 [IH3 IH4]]]. pose proof (progress_up t t' Hf) as P.
    repeat split.
    + intros _. eexists; reflexivity.
    + constructor; [lia|]. eapply Forall_impl; [|exact IH2]. cbv beta. intros x Hx. lia.
    + constructor; [exact IH3|]. eapply Forall_impl; [|exact IH2]. cbv beta. intros x Hx. lia.
    + intros a b pre post E. destruct pre as [|p pre].
      * cbn [app] in E. assert (Ea : t = a) by congruence. assert (El : l = b :: post) by congruence. subst a l.
        inversion Hi as [? Hs | ? ? ? ? Hf' Hi']; subst. exact Hf.
      * cbn [app] in E. assert (El : l = pre ++ a :: b :: post) by congruence. exact (IH4 a b pre post El).
Qed.
End Loop.

Section LoopDown.
Variable f : Z -> option Z.
Variable g : Z.
Hypothesis g_pos : 0 < g.
Hypothesis progress_down : forall t t', f t = Some t' -> t' + g <= t.



Lemma loop_down_total fuel : forall t t1, (forall x, t1 <= x <= t -> f x <> None) ->
  (0 < fuel)%nat -> (t - t1) / g + 2 <= Z.of_nat fuel -> exists l, loop_down f fuel t t1 = Ok l.
Proof.
  induction fuel as [|k IH]; intros t t1 Hdef Hpos Hfuel.
  - lia.
  - cbn [loop_down]. destruct (t1 <=? t) eqn:E; [|eexists; reflexivity].
    destruct (f t) as [t'|] eqn:F; [|exfalso; apply (Hdef t); [lia | exact F]].
    pose proof (progress_down t t' F) as P.
    destruct (IH t' t1) as [l' Hl'].
    + intros x Hx. apply Hdef. lia.
    + assert (0 <= (t - t1) / g) by (apply Z.div_pos; lia). lia.
    + assert ((t' - t1) / g + 1 <= (t - t1) / g).
      { replace (t - t1) with ((t - t1 - g) + 1 * g) by lia. rewrite Z.div_add by lia.
        assert ((t' - t1) / g <= (t - t1 - g) / g) by (apply Z.div_le_mono; lia). lia. }
      lia.
    + rewrite Hl'. eexists; reflexivity.
Qed.

Lemma iter_down_props t1 : forall t l, iter_down f t1 t l ->
  (t1 <= t -> exists l', l = t :: l') /\ Forall (fun x => t1 <= x <= t) l /\
  StronglySorted Z.gt l /\
  (forall a b pre post, l = pre ++ a :: b :: post -> f a = Some b).
Proof.
  intros t l H. induction H as [t Hs | t t' l Ht Hf Hi IH].
  - repeat split; [lia | constructor | constructor | intros a b pre post E; destruct pre; discriminate].
  - destruct IH as [IH1 [IH2 [IH3 IH4]]]. pose proof (progress_down t t' Hf) as P.
    repeat split.
    + intros _. eexists; reflexivity.
    + constructor; [lia|]. eapply Forall_impl; [|exact IH2]. cbv beta. intros x Hx. lia.
    + constructor; [exact IH3|]. eapply Forall_impl; [|exact IH2]. cbv beta. intros x Hx. lia.
    + intros a b pre post E. destruct pre as [|p pre].
      * cbn [app] in E. assert (Ea : t = a) by congruence. assert (El : l = b :: post) by congruence. subst a l.
        inversion Hi as [? Hs | ? ? ? ? Hf' Hi']; subst. exact Hf.
      * cbn [app] in E. assert (El : l = pre ++ a :: b :: post) by congruence. exact (IH4 a b pre post El).
Qed.
End LoopDown.

(* the guarded loop never returns an empty list and raises when the bump points away from t1 *)
Lemma guarded_wrong_direction f fuel t0 t1 t' :
  f t0 = Some t' -> (t0 < t1 /\ t' <= t0) \/ (t1 < t0 /\ t0 <= t') -> guarded_loop f fuel t0 t1 = Raise.
Proof.
  intros F [[H1 H2] | [H1 H2]]; unfold guarded_loop; rewrite F.
  - replace (t0 <? t1) with true by lia. replace (t' <=? t0) with true by lia. reflexivity.
  - replace (t0 <? t1) with false by lia. replace (t1 <? t0) with true by lia. replace (t0 <=? t') with true by lia. reflexivity.
Qed.
Lemma guarded_singleton f fuel t0 : guarded_loop f fuel t0 t0 = Ok [t0].
Proof. unfold guarded_loop. rewrite Z.ltb_irrefl. reflexivity. Qed.
Lemma guarded_nonempty f fuel t0 t1 l : guarded_loop f fuel t0 t1 = Ok l -> exists l', l = t0 :: l'.
Proof.
  unfold guarded_loop. destruct (t0 <? t1) eqn:E1.
  - destruct (f t0) as [t'|] eqn:F; [|discriminate]. destruct (t' <=? t0); [discriminate|].
    destruct fuel as [|k]; cbn [loop_up]; [discriminate|]. replace (t0 <=? t1) with true by lia. rewrite F.
    destruct (loop_up f k t' t1); cbn [res_cons]; try discriminate. intros H; injection H as <-. eexists; reflexivity.
  - destruct (t1 <? t0) eqn:E2; [|intros H; injection H as <-; eexists; reflexivity].
    destruct (f t0) as [t'|] eqn:F; [|discriminate]. destruct (t0 <=? t'); [discriminate|].
    destruct fuel as [|k]; cbn [loop_down]; [discriminate|]. replace (t1 <=? t0) with true by lia. rewrite F.
    destruct (loop_down f k t' t1); cbn [res_cons]; try discriminate. intros H; injection H as <-. eexists; reflexivity.
Qed.

(* ---- instances: what drange returns for each kind of bump ---- *)
Lemma drange_singleton fuel t0 b : drange fuel t0 t0 b = Ok [t0].
Proof. unfold drange. rewrite Z.eqb_refl. reflexivity. Qed.

Definition step_of (b : bump) : Z -> option Z :=
  match b with
  | BTd us => fun t => Some (t + us)
  | BTok toks => fun t => dt_bump t toks
  | _ => fun t => Some t
  end.
Definition looped (b : bump) : bool :=
  match b with
  | BTd _ => true
  | BTok [(_, UB)] => false
  | BTok _ => true
  | _ => false
  end.

Lemma drange_is_guarded fuel t0 t1 b l : looped b = true -> t0 <> t1 ->
  drange fuel t0 t1 b = Ok l -> guarded_loop (step_of b) fuel t0 t1 = Ok l.
Proof.
  intros Hl Hne H. unfold drange in H. replace (t0 =? t1) with false in H by lia.
  destruct b as [|n|us|toks]; cbn [looped] in Hl; try discriminate; cbn [step_of].
  - exact H.
  - destruct toks as [|[n u] [|tok2 rest]].
    + exact H.
    + destruct u; try discriminate; try exact H;
      match type of H with (if ?c then Raise else _) = _ => destruct c; [discriminate | exact H] end.
    + destruct u; exact H.
Qed.

Theorem drange_forward_is_iteration fuel t0 t1 b l : looped b = true -> t0 < t1 ->
  drange fuel t0 t1 b = Ok l -> iter_up (step_of b) t1 t0 l /\ exists l', l = t0 :: l'.
Proof.
  intros Hl Hlt H. pose proof (drange_is_guarded fuel t0 t1 b l Hl ltac:(lia) H) as G.
  split; [|exact (guarded_nonempty _ _ _ _ _ G)].
  unfold guarded_loop in G. replace (t0 <? t1) with true in G by lia.
  destruct (step_of b t0) as [t'|]; [|discriminate]. destruct (t' <=? t0); [discriminate|].
  eapply loop_up_spec; exact G.
Qed.
Theorem drange_backward_is_iteration fuel t0 t1 b l : looped b = true -> t1 < t0 ->
  drange fuel t0 t1 b = Ok l -> iter_down (step_of b) t1 t0 l /\ exists l', l = t0 :: l'.
Proof.
  intros Hl Hlt H. pose proof (drange_is_guarded fuel t0 t1 b l Hl ltac:(lia) H) as G.
  split; [|exact (guarded_nonempty _ _ _ _ _ G)].
  unfold guarded_loop in G. replace (t0 <? t1) with false in G by lia. replace (t1 <? t0) with true in G by lia.
  destruct (step_of b t0) as [t'|]; [|discriminate]. destruct (t0 <=? t'); [discriminate|].
  eapply loop_down_spec; exact G.
Qed.

(* a looped bump whose first step does not move towards t1 raises; never [] and never unbounded *)
Theorem drange_wrong_direction fuel t0 t1 b t' : looped b = true ->
  step_of b t0 = Some t' -> (t0 < t1 /\ t' <= t0) \/ (t1 < t0 /\ t0 <= t') ->
  drange fuel t0 t1 b = Raise.
Proof.
  intros Hl F D. unfold drange. replace (t0 =? t1) with false by lia.
  destruct b as [|n|us|toks]; cbn [looped] in Hl; try discriminate; cbn [step_of] in F.
  - exact (guarded_wrong_direction _ fuel t0 t1 t' F D).
  - destruct toks as [|[n u] [|tok2 rest]].
    + exact (guarded_wrong_direction _ fuel t0 t1 t' F D).
    + destruct u; try discriminate;
      match goal with |- (if ?c then Raise else _) = _ => destruct c; [reflexivity | exact (guarded_wrong_direction _ fuel t0 t1 t' F D)] end.
    + destruct u; exact (guarded_wrong_direction _ fuel t0 t1 t' F D).
Qed.
Theorem drange_int_wrong_direction fuel t0 t1 n : t0 <> t1 -> tdays t0 t1 * n <= 0 -> drange fuel t0 t1 (BInt n) = Raise.
Proof. intros Hne H. unfold drange, drange_int. replace (t0 =? t1) with false by lia. replace (tdays t0 t1 * n <=? 0) with true by lia. reflexivity. Qed.

(* business days: only weekdays, and all of them for '1b' *)
Theorem drange_b_weekdays fuel t0 t1 n l : t0 <> t1 -> drange fuel t0 t1 (BTok [(n, UB)]) = Ok l ->
  exists days, iter_up (fun t => Some (t + DAYUS)) (Z.max t0 t1) (Z.min t0 t1) days /\
    l = stride (Z.abs n) (if n <? 0 then rev (filter (fun t => weekday t <? 5) days) else filter (fun t => weekday t <? 5) days) /\
    Forall (fun t => weekday t <= 4) l.
Proof.
  intros Hne H. unfold drange, drange_b in H. replace (t0 =? t1) with false in H by lia.
  destruct (tdays t0 t1 * n <? 0); [discriminate|].
  unfold daily in H. destruct (loop_up _ fuel (Z.min t0 t1) (Z.max t0 t1)) as [days| |] eqn:L; try discriminate.
  injection H as <-. exists days. split; [eapply loop_up_spec; exact L|]. split; [reflexivity|].
  assert (W : Forall (fun t => weekday t <= 4) (filter (fun t => weekday t <? 5) days)).
  { apply Forall_forall. intros x Hx. apply filter_In in Hx. destruct Hx as [_ Hx]. lia. }
  assert (S : forall k (xs : list Z), Forall (fun t => weekday t <= 4) xs -> Forall (fun t => weekday t <= 4) (stride k xs)).
  { intros k xs Hxs. unfold stride. destruct (1 <? k); [|exact Hxs].
    generalize 0%nat. induction Hxs as [|x xs Hx Hxs IH]; intros s; cbn [stride_from]; [constructor|].
    destruct s; [constructor; [exact Hx | apply IH] | apply IH]. }
  apply S. destruct (n <? 0); [|exact W]. apply Forall_forall. intros x Hx. apply in_rev in Hx.
  revert x Hx. apply Forall_forall. exact W.
Qed.

(* progress of the fixed-length steps, so the loop theorems apply to them *)
Lemma td_progress us t t' : Some (t + us) = Some t' -> t + us <= t'.
Proof. intros H. injection H as <-. lia. Qed.
