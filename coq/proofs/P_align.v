(* Lemmas about the alignment model M_align (C03; reused by C08). Plain stdlib style. *)
From Coq Require Import ZArith List Bool Lia Arith.
From PB Require Import model.M_align.
Import ListNotations.
Open Scope Z_scope.

(* ------------------------------------------------------------------ sorted lists *)
Lemma sorted_tail x l : sorted (x :: l) -> sorted l.
Proof. simpl. tauto. Qed.

Lemma sorted_head_lt x l y : sorted (x :: l) -> In y l -> x < y.
Proof. simpl. intros [H _]. apply H. Qed.

Lemma sorted_filter f l : sorted l -> sorted (filter f l).
Proof.
  induction l as [|x l IH]; simpl; [tauto|]. intros [Hx Hl].
  destruct (f x); simpl; [split|]; auto.
  intros y Hy. apply filter_In in Hy. apply Hx. tauto.
Qed.

(* two sorted lists with the same members are the same list *)
Lemma sorted_ext a : forall b, sorted a -> sorted b -> (forall t, In t a <-> In t b) -> a = b.
Proof.
  induction a as [|x a IH]; intros [|y b] Ha Hb H; auto.
  - exfalso. apply (proj2 (H y)). left; auto.
  - exfalso. apply (proj1 (H x)). left; auto.
  - assert (x = y).
    { destruct (proj1 (H x) (or_introl eq_refl)) as [E|E]; [auto|].
      destruct (proj2 (H y) (or_introl eq_refl)) as [E'|E']; [auto|].
      pose proof (sorted_head_lt _ _ _ Hb E). pose proof (sorted_head_lt _ _ _ Ha E'). lia. }
    subst y. f_equal. apply IH; [eapply sorted_tail; eauto | eapply sorted_tail; eauto |].
    intros t; split; intros Ht.
    + destruct (proj1 (H t) (or_intror Ht)) as [E|E]; [|auto].
      subst t. pose proof (sorted_head_lt _ _ _ Ha Ht). lia.
    + destruct (proj2 (H t) (or_intror Ht)) as [E|E]; [|auto].
      subst t. pose proof (sorted_head_lt _ _ _ Hb Ht). lia.
Qed.

(* ------------------------------------------------------------------ one timeseries *)
Section G.
  Context {V : Type}.
  Variable nan : V.
  Variable isnan : V -> bool.

  Lemma in_index (s : gts V) u v : In (u, v) s -> In u (index_of s).
  Proof. intros H. change u with (fst (u, v)). apply in_map. exact H. Qed.

  Lemma lookup_some_in t (s : gts V) v : lookup t s = Some v -> In (t, v) s.
  Proof.
    induction s as [|[u w] r IH]; simpl; [discriminate|].
    destruct (u =? t) eqn:E.
    - intros H. inversion H. apply Z.eqb_eq in E. subst. left; reflexivity.
    - intros H. right. auto.
  Qed.

  Lemma lookup_none t (s : gts V) : lookup t s = None <-> ~ In t (index_of s).
  Proof.
    induction s as [|[u w] r IH]; simpl; [tauto|].
    destruct (u =? t) eqn:E.
    - apply Z.eqb_eq in E. split; [discriminate | intros H; exfalso; apply H; auto].
    - apply Z.eqb_neq in E. rewrite IH. tauto.
  Qed.

  Lemma lookup_sorted t v (s : gts V) : sorted (index_of s) -> In (t, v) s -> lookup t s = Some v.
  Proof.
    induction s as [|[u w] r IH]; simpl; [tauto|]. intros [Hu Hr] [H|H].
    - inversion H. subst. rewrite Z.eqb_refl. reflexivity.
    - destruct (u =? t) eqn:E; [|auto].
      apply Z.eqb_eq in E. subst u. pose proof (Hu t (in_index _ _ _ H)). lia.
  Qed.

  Lemma index_map_fn (g : Z -> V) idx : index_of (map (fun t => (t, g t)) idx) = idx.
  Proof. unfold index_of. rewrite map_map. simpl. apply map_id. Qed.

  Lemma lookup_map_fn (g : Z -> V) idx t : In t idx -> lookup t (map (fun t => (t, g t)) idx) = Some (g t).
  Proof.
    induction idx as [|x idx IH]; simpl; [tauto|]. intros H.
    destruct (x =? t) eqn:E.
    - apply Z.eqb_eq in E. subst. reflexivity.
    - apply Z.eqb_neq in E. destruct H; [contradiction | auto].
  Qed.

  Lemma index_reindex_m m (s : gts V) idx : index_of (reindex_m nan isnan m s idx) = idx.
  Proof. destruct m; apply index_map_fn. Qed.

  Lemma reindex_values_intact (s : gts V) idx t v :
    In t idx -> lookup t s = Some v -> lookup t (reindex nan s idx) = Some v.
  Proof. intros Hi Hl. unfold reindex. rewrite lookup_map_fn by exact Hi. unfold at_. rewrite Hl. reflexivity. Qed.

  Lemma reindex_missing_nan (s : gts V) idx t :
    In t idx -> ~ In t (index_of s) -> lookup t (reindex nan s idx) = Some nan.
  Proof.
    intros Hi Hn. unfold reindex. rewrite lookup_map_fn by exact Hi. unfold at_.
    apply lookup_none in Hn. rewrite Hn. reflexivity.
  Qed.

  Lemma reindex_not_in_index (s : gts V) m idx t : ~ In t idx -> lookup t (reindex_m nan isnan m s idx) = None.
  Proof. intros H. apply lookup_none. rewrite index_reindex_m. exact H. Qed.

  Lemma nona_In p (s : gts V) : In p (nona isnan s) <-> In p s /\ isnan (snd p) = false.
  Proof. unfold nona. rewrite filter_In. rewrite negb_true_iff. tauto. Qed.

  Lemma index_filter_sorted f (s : gts V) : sorted (index_of s) -> sorted (index_of (filter f s)).
  Proof.
    induction s as [|[u w] r IH]; simpl; [tauto|]. intros [Hu Hr].
    destruct (f (u, w)); simpl; [split|]; auto.
    intros y Hy. apply Hu. unfold index_of in *. apply in_map_iff in Hy. destruct Hy as [p [<- Hp]].
    apply filter_In in Hp. apply in_map. tauto.
  Qed.

  Lemma nona_sorted (s : gts V) : sorted (index_of s) -> sorted (index_of (nona isnan s)).
  Proof. apply index_filter_sorted. Qed.

  Lemma pad_from_spec (s : gts V) : forall acc t, sorted (index_of s) ->
    (exists u, In (u, pad_from acc s t) s /\ u <= t /\ forall u' v', In (u', v') s -> u' <= t -> u' <= u)
    \/ (pad_from acc s t = acc /\ forall u' v', In (u', v') s -> t < u').
  Proof.
    induction s as [|[u w] r IH]; intros acc t Hs; simpl.
    - right. split; [reflexivity | intros ? ? []].
    - simpl in Hs. destruct Hs as [Hu Hr]. destruct (u <=? t) eqn:E.
      + apply Z.leb_le in E. destruct (IH w t Hr) as [[u0 [Hin [Hle Hmax]]] | [Heq Hall]].
        * left. exists u0. split; [right; exact Hin|]. split; [exact Hle|].
          intros u' v' [H|H] Hle'.
          -- inversion H. subst. pose proof (Hu u0 (in_index _ _ _ Hin)). lia.
          -- eauto.
        * left. exists u. rewrite Heq. split; [left; reflexivity|]. split; [exact E|].
          intros u' v' [H|H] Hle'.
          -- inversion H. lia.
          -- pose proof (Hall _ _ H). lia.
      + apply Z.leb_gt in E. destruct (IH acc t Hr) as [[u0 [Hin [Hle _]]] | [Heq Hall]].
        * pose proof (Hu u0 (in_index _ _ _ Hin)). lia.
        * right. split; [exact Heq|]. intros u' v' [H|H]; [inversion H; lia | eauto].
  Qed.

  Lemma bfill_at_spec (s : gts V) : forall t, sorted (index_of s) ->
    (exists u, In (u, bfill_at nan s t) s /\ t <= u /\ forall u' v', In (u', v') s -> t <= u' -> u <= u')
    \/ (bfill_at nan s t = nan /\ forall u' v', In (u', v') s -> u' < t).
  Proof.
    induction s as [|[u w] r IH]; intros t Hs; simpl.
    - right. split; [reflexivity | intros ? ? []].
    - simpl in Hs. destruct Hs as [Hu Hr]. destruct (t <=? u) eqn:E.
      + apply Z.leb_le in E. left. exists u. split; [left; reflexivity|]. split; [exact E|].
        intros u' v' [H|H] Hle'; [inversion H; lia|].
        pose proof (Hu u' (in_index _ _ _ H)). lia.
      + apply Z.leb_gt in E. destruct (IH t Hr) as [[u0 [Hin [Hle Hmin]]] | [Heq Hall]].
        * left. exists u0. split; [right; exact Hin|]. split; [exact Hle|].
          intros u' v' [H|H] Hle'; [inversion H; lia | eauto].
        * right. split; [exact Heq|]. intros u' v' [H|H]; [inversion H; lia | eauto].
  Qed.

  Theorem ffill_is_asof (s : gts V) idx t : sorted (index_of s) -> In t idx ->
    exists v, lookup t (reindex_m nan isnan MFfill s idx) = Some v /\ last_obs nan isnan s t v.
  Proof.
    intros Hs Hi. exists (pad_at nan (nona isnan s) t). split.
    - simpl. apply (lookup_map_fn (fun t => pad_at nan (nona isnan s) t)). exact Hi.
    - unfold last_obs, pad_at.
      destruct (pad_from_spec (nona isnan s) nan t (nona_sorted s Hs)) as [[u [Hin [Hle Hmax]]] | [Heq Hall]].
      + left. exists u. apply nona_In in Hin. destruct Hin as [Hin Hnn]. simpl in Hnn.
        repeat split; auto. intros u' v' Hin' Hnn' Hle'. apply (Hmax u' v'); [|exact Hle'].
        apply nona_In. split; auto.
      + right. split; [exact Heq|]. intros u' v' Hin' Hnn'. apply (Hall u' v'). apply nona_In. split; auto.
  Qed.

  Theorem bfill_is_asof (s : gts V) idx t : sorted (index_of s) -> In t idx ->
    exists v, lookup t (reindex_m nan isnan MBfill s idx) = Some v /\ next_obs nan isnan s t v.
  Proof.
    intros Hs Hi. exists (bfill_at nan (nona isnan s) t). split.
    - simpl. apply (lookup_map_fn (fun t => bfill_at nan (nona isnan s) t)). exact Hi.
    - unfold next_obs.
      destruct (bfill_at_spec (nona isnan s) t (nona_sorted s Hs)) as [[u [Hin [Hle Hmin]]] | [Heq Hall]].
      + left. exists u. apply nona_In in Hin. destruct Hin as [Hin Hnn]. simpl in Hnn.
        repeat split; auto. intros u' v' Hin' Hnn' Hle'. apply (Hmin u' v'); [|exact Hle'].
        apply nona_In. split; auto.
      + right. split; [exact Heq|]. intros u' v' Hin' Hnn'. apply (Hall u' v'). apply nona_In. split; auto.
  Qed.

  (* with a fill method a non-NaN value at a surviving timestamp is still kept *)
  Lemma last_obs_at_observation (s : gts V) t v w :
    sorted (index_of s) -> In (t, w) s -> isnan w = false -> last_obs nan isnan s t v -> v = w.
  Proof.
    intros Hs Hin Hw [[u [Hu [Hnn [Hle Hmax]]]] | [_ Hall]].
    - pose proof (Hmax t w Hin Hw (Z.le_refl t)). assert (u = t) by lia. subst u.
      pose proof (lookup_sorted _ _ _ Hs Hin). pose proof (lookup_sorted _ _ _ Hs Hu). congruence.
    - pose proof (Hall t w Hin Hw). lia.
  Qed.
  Lemma next_obs_at_observation (s : gts V) t v w :
    sorted (index_of s) -> In (t, w) s -> isnan w = false -> next_obs nan isnan s t v -> v = w.
  Proof.
    intros Hs Hin Hw [[u [Hu [Hnn [Hle Hmin]]]] | [_ Hall]].
    - pose proof (Hmin t w Hin Hw (Z.le_refl t)). assert (u = t) by lia. subst u.
      pose proof (lookup_sorted _ _ _ Hs Hin). pose proof (lookup_sorted _ _ _ Hs Hu). congruence.
    - pose proof (Hall t w Hin Hw). lia.
  Qed.
End G.

(* ------------------------------------------------------------------ index algebra *)
Lemma mem_In t l : mem t l = true <-> In t l.
Proof.
  unfold mem. rewrite existsb_exists. split.
  - intros [x [Hx E]]. apply Z.eqb_eq in E. subst. exact Hx.
  - intros H. exists t. split; [exact H | apply Z.eqb_refl].
Qed.

Lemma inter_In t a b : In t (inter a b) <-> In t a /\ In t b.
Proof. unfold inter. rewrite filter_In, mem_In. tauto. Qed.

Lemma inter_sorted a b : sorted a -> sorted (inter a b).
Proof. apply sorted_filter. Qed.

Lemma fold_inter_In rest : forall i0 t, In t (fold_left inter rest i0) <-> In t i0 /\ forall i, In i rest -> In t i.
Proof.
  induction rest as [|x rest IH]; intros i0 t; simpl.
  - split; [intros H; split; [exact H | intros ? []] | tauto].
  - rewrite IH, inter_In. split.
    + intros [[H0 Hx] Hr]. split; [exact H0|]. intros i [<-|Hi]; auto.
    + intros [H0 Hr]. split; [split; auto|]. intros i Hi. auto.
Qed.

Lemma fold_inter_sorted rest : forall i0, sorted i0 -> sorted (fold_left inter rest i0).
Proof. induction rest as [|x rest IH]; intros i0 H; simpl; [exact H|]. apply IH. apply inter_sorted. exact H. Qed.

Lemma ins_In x t l : In x (ins t l) <-> x = t \/ In x l.
Proof.
  induction l as [|y l IH]; simpl; [intuition|].
  destruct (t <? y) eqn:E1; [simpl; intuition|].
  destruct (t =? y) eqn:E2.
  - apply Z.eqb_eq in E2. subst. simpl. intuition.
  - simpl. rewrite IH. intuition.
Qed.

Lemma ins_sorted t l : sorted l -> sorted (ins t l).
Proof.
  induction l as [|y l IH]; simpl; [intros _; split; [intros ? [] | exact I]|].
  intros [Hy Hl]. destruct (t <? y) eqn:E1.
  - apply Z.ltb_lt in E1. simpl. split; [|split; auto].
    intros z [<-|Hz]; [exact E1|]. pose proof (Hy z Hz). lia.
  - apply Z.ltb_ge in E1. destruct (t =? y) eqn:E2; [simpl; auto|].
    apply Z.eqb_neq in E2. simpl. split; [|auto].
    intros z Hz. apply ins_In in Hz. destruct Hz as [->|Hz]; [lia | auto].
Qed.

Lemma union_In t b : forall a, In t (union a b) <-> In t a \/ In t b.
Proof.
  unfold union. induction b as [|x b IH]; intros a; simpl; [tauto|].
  rewrite IH, ins_In. intuition.
Qed.

Lemma union_sorted b : forall a, sorted a -> sorted (union a b).
Proof. unfold union. induction b as [|x b IH]; intros a H; simpl; [exact H|]. apply IH. apply ins_sorted. exact H. Qed.

Lemma fold_union_In rest : forall i0 t, In t (fold_left union rest i0) <-> In t i0 \/ exists i, In i rest /\ In t i.
Proof.
  induction rest as [|x rest IH]; intros i0 t; simpl.
  - split; [auto | intros [H|[i [[] _]]]; exact H].
  - rewrite IH, union_In. split.
    + intros [[H|H]|[i [Hi Ht]]]; [auto | right; exists x; auto | right; exists i; auto].
    + intros [H|[i [[<-|Hi] Ht]]]; [auto | auto | right; exists i; auto].
Qed.

Lemma fold_union_sorted rest : forall i0, sorted i0 -> sorted (fold_left union rest i0).
Proof. induction rest as [|x rest IH]; intros i0 H; simpl; [exact H|]. apply IH. apply union_sorted. exact H. Qed.

Lemma last_nonempty_default {A} (r : list A) : forall y d1 d2, last (y :: r) d1 = last (y :: r) d2.
Proof.
  induction r as [|z r IH]; intros y d1 d2; [reflexivity|].
  change (last (z :: r) d1 = last (z :: r) d2). apply IH.
Qed.

Lemma last_cons {A} (rest : list A) x i0 : last (x :: rest) i0 = last rest x.
Proof.
  destruct rest as [|y r]; [reflexivity|].
  change (last (y :: r) i0 = last (y :: r) x). apply last_nonempty_default.
Qed.

Lemma last_split {A} (rest : list A) : forall i0, exists front, i0 :: rest = front ++ [last rest i0].
Proof.
  induction rest as [|x rest IH]; intros i0.
  - exists []. reflexivity.
  - destruct (IH x) as [front Hf]. exists (i0 :: front).
    rewrite last_cons. simpl. rewrite <- Hf. reflexivity.
Qed.

(* the index prescribed by each policy *)
Theorem join_index_spec h idxs P : join_index h idxs = Some P ->
  match h with
  | HI => forall t, In t P <-> (forall i, In i idxs -> In t i)
  | HO => forall t, In t P <-> (exists i, In i idxs /\ In t i)
  | HL => exists rest, idxs = P :: rest
  | HR => exists front, idxs = front ++ [P]
  | HX x => P = x
  end.
Proof.
  destruct idxs as [|i0 rest]; [discriminate|]. simpl. intros H. inversion H; clear H.
  destruct h.
  - intros t. rewrite fold_inter_In. split.
    + intros [H0 Hr] i [<-|Hi]; auto.
    + intros H. split; [apply H; left; reflexivity | intros i Hi; apply H; right; exact Hi].
  - intros t. rewrite fold_union_In. split.
    + intros [H0|[i [Hi Ht]]]; [exists i0; split; [left; reflexivity | exact H0] | exists i; split; [right; exact Hi | exact Ht]].
    + intros [i [[<-|Hi] Ht]]; [left; exact Ht | right; exists i; auto].
  - exists rest. reflexivity.
  - apply last_split.
  - reflexivity.
Qed.

Theorem join_index_sorted h idxs P :
  Forall sorted idxs -> (forall x, h = HX x -> sorted x) -> join_index h idxs = Some P -> sorted P.
Proof.
  destruct idxs as [|i0 rest]; [discriminate|]. simpl. intros HF HX H. inversion H; clear H.
  inversion HF as [|? ? H0 Hr]; subst.
  destruct h.
  - apply fold_inter_sorted. exact H0.
  - apply fold_union_sorted. exact H0.
  - exact H0.
  - destruct (last_split rest i0) as [front Hf].
    assert (In (last rest i0) (i0 :: rest)) by (rewrite Hf; apply in_or_app; right; left; reflexivity).
    rewrite Forall_forall in HF. apply HF. exact H.
  - apply HX. reflexivity.
Qed.

(* ------------------------------------------------------------------ nested containers *)
Section tree_ind2.
  Variable P : tree -> Prop.
  Hypothesis HLeaf : forall o, P (Leaf o).
  Hypothesis HL : forall l, Forall P l -> P (TL l).
  Hypothesis HD : forall l, Forall (fun kx => P (snd kx)) l -> P (TD l).
  Fixpoint tree_ind2 (t : tree) : P t :=
    match t with
    | Leaf o => HLeaf o
    | TL l => HL l ((fix go (l : list tree) : Forall P l :=
                       match l with [] => Forall_nil _ | x :: r => Forall_cons x (tree_ind2 x) (go r) end) l)
    | TD l => HD l ((fix go (l : list (Z * tree)) : Forall (fun kx => P (snd kx)) l :=
                       match l with [] => Forall_nil _ | kx :: r => Forall_cons kx (tree_ind2 (snd kx)) (go r) end) l)
    end.
End tree_ind2.

Theorem flatten_tmap f t : flatten (tmap f t) = map f (flatten t).
Proof.
  induction t as [o | l IH | l IH] using tree_ind2; simpl.
  - reflexivity.
  - induction IH as [|x l Hx _ IHl]; simpl; [reflexivity|]. rewrite map_app, Hx, IHl. reflexivity.
  - induction IH as [|x l Hx _ IHl]; simpl; [reflexivity|]. rewrite map_app, Hx, IHl. reflexivity.
Qed.

Theorem shape_tmap f t : shape_of (tmap f t) = shape_of t.
Proof.
  induction t as [o | l IH | l IH] using tree_ind2; simpl.
  - reflexivity.
  - f_equal. induction IH as [|x l Hx _ IHl]; simpl; [reflexivity|]. rewrite Hx, IHl. reflexivity.
  - f_equal. induction IH as [|x l Hx _ IHl]; simpl; [reflexivity|]. rewrite Hx, IHl. reflexivity.
Qed.

Lemma flat_map_flatten_tmap f args : flat_map flatten (map (tmap f) args) = map f (flat_map flatten args).
Proof. induction args as [|a args IH]; simpl; [reflexivity|]. rewrite map_app, flatten_tmap, IH. reflexivity. Qed.

(* ------------------------------------------------------------------ one leaf *)
Lemma reindex_obj_index i m o : is_pd o = true -> obj_index (reindex_obj (TgIdx i) m o) = Some i.
Proof. destruct o; simpl; try discriminate; intros _; f_equal; apply index_reindex_m. Qed.

Lemma reindex_obj_is_pd tg m o : is_pd (reindex_obj tg m o) = is_pd o.
Proof. destruct tg, o; reflexivity. Qed.

Lemma reindex_obj_passthrough tg m o :
  match o with ON _ | OX _ => True | OA _ => forall n, tg <> TgLen n | _ => tg = TgNone end -> reindex_obj tg m o = o.
Proof.
  destruct o, tg; simpl; intros H; try reflexivity; try discriminate.
  exfalso. apply (H n). reflexivity.
Qed.

Lemma index_recolumn_rows (c C : list Z) (r : gts (list cell)) :
  index_of (map (fun p => (fst p, map (row_get c (snd p)) C)) r) = index_of r.
Proof. unfold index_of. rewrite map_map. reflexivity. Qed.

Lemma recolumn_obj_index C o : obj_index (recolumn_obj C o) = obj_index o.
Proof. destruct o; simpl; try reflexivity. destruct (multi cols); simpl; [f_equal; apply index_recolumn_rows | reflexivity]. Qed.

Lemma recolumn_obj_is_pd C o : is_pd (recolumn_obj C o) = is_pd o.
Proof. destruct o; simpl; try reflexivity. destruct (multi cols); reflexivity. Qed.

Lemma recolumn_obj_passthrough C o : (forall c r, o = OF c r -> multi c = false) -> recolumn_obj C o = o.
Proof. destruct o; simpl; intros H; try reflexivity. rewrite (H cols rows eq_refl). reflexivity. Qed.

Lemma index_column c r x : index_of (column c r x) = index_of r.
Proof. unfold column, index_of. rewrite map_map. reflexivity. Qed.

Lemma column_obj_index x d o o' : column_obj x d o = o' -> is_pd o' = true -> obj_index o' = obj_index o.
Proof.
  destruct o; try (simpl; intros <-; (reflexivity || discriminate)).
  unfold column_obj. destruct cols as [|c0 [|c1 cs]].
  - destruct x; intros <-; simpl; discriminate.
  - intros <- _. simpl. f_equal. apply index_column.
  - destruct x as [x|]; [|intros <-; simpl; discriminate].
    destruct (mem x (c0 :: c1 :: cs)); intros <-; [|simpl; discriminate].
    intros _. simpl. f_equal. apply index_column.
Qed.

Lemma column_obj_pd_source x d o : is_pd (column_obj x d o) = true -> is_pd o = true.
Proof. destruct o; simpl; auto. Qed.

(* ------------------------------------------------------------------ columns *)
Lemma row_get_map C (g : Z -> cell) x : In x C -> row_get C (map g C) x = g x.
Proof.
  unfold row_get. induction C as [|y C IH]; simpl; [tauto|]. intros H.
  destruct (y =? x) eqn:E.
  - apply Z.eqb_eq in E. subst. reflexivity.
  - apply Z.eqb_neq in E. destruct H; [contradiction|]. apply IH. exact H.
Qed.

Lemma row_get_notin c : forall row x, ~ In x c -> row_get c row x = None.
Proof.
  unfold row_get. induction c as [|y c IH]; intros row x H; simpl; [reflexivity|].
  destruct row as [|v row]; simpl; [reflexivity|].
  destruct (y =? x) eqn:E.
  - apply Z.eqb_eq in E. subst. exfalso. apply H. left. reflexivity.
  - apply IH. intros Hx. apply H. right. exact Hx.
Qed.

(* _df_recolumn: the frame gets exactly the columns C; a column it had keeps its cells, a new one is NaN *)
Theorem recolumn_columns C c r : multi c = true ->
  exists r', recolumn_obj C (OF c r) = OF C r' /\ index_of r' = index_of r /\
    forall x, In x C -> column C r' x = column c r x.
Proof.
  intros Hm. simpl. rewrite Hm. eexists. split; [reflexivity|]. split; [apply index_recolumn_rows|].
  intros x Hx. unfold column. rewrite map_map. apply map_ext. intros [t row]. simpl.
  f_equal. apply row_get_map. exact Hx.
Qed.

Theorem column_missing_is_nan c r x : ~ In x c -> column c r x = map (fun p => (fst p, None)) r.
Proof. intros H. unfold column. apply map_ext. intros [t row]. simpl. f_equal. apply row_get_notin. exact H. Qed.

(* a column of a reindexed frame is that column reindexed (no fill method): frames keep values column by column *)
Lemma row_get_nanrow c x : row_get c (nanrow c) x = None.
Proof.
  unfold row_get, nanrow. induction c as [|y c IH]; simpl; [reflexivity|].
  destruct (y =? x); [reflexivity | exact IH].
Qed.

Theorem column_reindex c r idx x :
  column c (reindex (nanrow c) r idx) x = reindex None (column c r x) idx.
Proof.
  unfold column, reindex. rewrite map_map. apply map_ext. intros t. simpl. f_equal.
  unfold at_. induction r as [|[u row] r IH]; simpl; [apply row_get_nanrow|].
  destruct (u =? t); [reflexivity | exact IH].
Qed.

(* ------------------------------------------------------------------ numpy arm *)
Lemma nth_skipn' {A} (d : A) : forall k (a : list A) i, nth i (skipn k a) d = nth (k + i) a d.
Proof.
  induction k as [|k IH]; intros a i; [reflexivity|].
  destruct a as [|x a]; simpl; [destruct i; reflexivity | apply IH].
Qed.

Lemma nth_repeat' {A} (d : A) n i : nth i (repeat d n) d = d.
Proof. revert i. induction n as [|n IH]; intros [|i]; simpl; auto. Qed.

Section NPG.
  Context {A : Type}.
  Variable pad : A.
  Theorem np_align_g_length n (a : list A) : length (np_align_g pad n a) = n.
  Proof.
    unfold np_align_g. destruct (Nat.ltb n (length a)) eqn:E.
    - apply Nat.ltb_lt in E. rewrite skipn_length. lia.
    - apply Nat.ltb_ge in E. rewrite app_length, repeat_length. lia.
  Qed.
  (* counted from the end, the k-th row of the result is the k-th row of the input *)
  Theorem np_align_g_end n (a : list A) k : (k < n)%nat -> (k < length a)%nat ->
    nth (n - 1 - k) (np_align_g pad n a) pad = nth (length a - 1 - k) a pad.
  Proof.
    intros Hn Ha. unfold np_align_g. destruct (Nat.ltb n (length a)) eqn:E.
    - apply Nat.ltb_lt in E. rewrite nth_skipn'. f_equal. lia.
    - apply Nat.ltb_ge in E. rewrite app_nth2; rewrite repeat_length; [f_equal; lia | lia].
  Qed.
  (* a shorter array is padded in front *)
  Theorem np_align_g_front n (a : list A) j : (j < n - length a)%nat -> nth j (np_align_g pad n a) pad = pad.
  Proof.
    intros H. unfold np_align_g. destruct (Nat.ltb n (length a)) eqn:E.
    - apply Nat.ltb_lt in E. lia.
    - rewrite app_nth1 by (rewrite repeat_length; exact H). apply nth_repeat'.
  Qed.
  (* every row of the result is an input row or the padding row: columns are untouched *)
  Theorem np_align_g_rows n (a : list A) r : In r (np_align_g pad n a) -> In r a \/ r = pad.
  Proof.
    unfold np_align_g. destruct (Nat.ltb n (length a)).
    - intros H. left. rewrite <- (firstn_skipn (length a - n) a). apply in_or_app. right. exact H.
    - intros H. apply in_app_or in H. destruct H as [H|H]; [right; apply (repeat_spec _ _ _ H) | left; exact H].
  Qed.
End NPG.

Theorem np_align_length n a : length (np_align n a) = n.
Proof. apply np_align_g_length. Qed.
Theorem np_align_end n a k : (k < n)%nat -> (k < length a)%nat ->
  nth (n - 1 - k) (np_align n a) None = nth (length a - 1 - k) a None.
Proof. apply (np_align_g_end (@None Z)). Qed.
Theorem np_align_front n a j : (j < n - length a)%nat -> nth j (np_align n a) None = None.
Proof. apply (np_align_g_front (@None Z)). Qed.

Lemma arr_ffill_length a : forall prev, length (arr_ffill prev a) = length a.
Proof. induction a as [|c a IH]; intros prev; simpl; [reflexivity | rewrite IH; reflexivity]. Qed.
Lemma arr_bfill_length a : length (arr_bfill a) = length a.
Proof. induction a as [|c a IH]; simpl; [reflexivity | rewrite IH; reflexivity]. Qed.
Lemma arr_fill_length m a : length (arr_fill m a) = length a.
Proof. destruct m; simpl; [reflexivity | apply arr_ffill_length | apply arr_bfill_length]. Qed.

(* forward fill: a cell keeps its value, a NaN cell takes the filled value of its predecessor *)
Theorem arr_ffill_spec a : forall prev j, (j < length a)%nat ->
  nth j (arr_ffill prev a) None =
  match nth j a None with
  | Some v => Some v
  | None => match j with O => prev | S j' => nth j' (arr_ffill prev a) None end
  end.
Proof.
  induction a as [|c a IH]; intros prev j Hj; simpl in Hj; [lia|].
  destruct j as [|j]; simpl.
  - destruct c; reflexivity.
  - rewrite IH by lia. destruct (nth j a None) eqn:E; [reflexivity|].
    destruct j as [|j]; [reflexivity|]. reflexivity.
Qed.

(* backward fill: a NaN cell takes the filled value of its successor, NaN after the last observation *)
Theorem arr_bfill_spec a : forall j, (j < length a)%nat ->
  nth j (arr_bfill a) None =
  match nth j a None with Some v => Some v | None => nth (S j) (arr_bfill a) None end.
Proof.
  induction a as [|c a IH]; intros j Hj; simpl in Hj; [lia|].
  destruct j as [|j]; simpl.
  - destruct c; [reflexivity|]. destruct (arr_bfill a); reflexivity.
  - apply IH. lia.
Qed.

(* ---- 2-d arrays: the fill works column by column, and keeps the shape *)
Definition colj (j : nat) (rows : list (list cell)) : list cell := map (fun r => nth j r None) rows.

Lemma nth_keep_or j (r prev : list cell) : length r = length prev ->
  nth j (map keep_or (combine r prev)) None = keep_or (nth j r None, nth j prev None).
Proof.
  intros H. change (@None Z) with (keep_or (@None Z, @None Z)) at 1.
  rewrite map_nth. rewrite combine_nth by exact H. reflexivity.
Qed.

Lemma keep_or_length (r prev : list cell) : length r = length prev -> length (map keep_or (combine r prev)) = length prev.
Proof. intros H. rewrite map_length, combine_length. lia. Qed.

Theorem arr2_ffill_column j rows : forall prev, Forall (fun r => length r = length prev) rows ->
  colj j (arr2_ffill prev rows) = arr_ffill (nth j prev None) (colj j rows) /\
  Forall (fun r => length r = length prev) (arr2_ffill prev rows).
Proof.
  induction rows as [|r rows IH]; intros prev HF; simpl; [split; [reflexivity | constructor]|].
  inversion HF as [|? ? Hr Hrest]; subst.
  assert (Hl : length (map keep_or (combine r prev)) = length prev) by (apply keep_or_length; exact Hr).
  destruct (IH (map keep_or (combine r prev))) as [IH1 IH2].
  { rewrite Hl. exact Hrest. }
  rewrite Hl in IH2. split; [|constructor; assumption].
  pose proof (nth_keep_or j r prev Hr) as Hk.
  change (colj j (map keep_or (combine r prev) :: arr2_ffill (map keep_or (combine r prev)) rows))
    with (nth j (map keep_or (combine r prev)) None :: colj j (arr2_ffill (map keep_or (combine r prev)) rows)).
  rewrite IH1. unfold cell in *. repeat rewrite Hk. change (colj j (r :: rows)) with (nth j r None :: colj j rows).
  unfold keep_or. cbn [fst snd arr_ffill]. destruct (nth j r None); reflexivity.
Qed.

Theorem arr2_bfill_column j k rows : Forall (fun r => length r = k) rows ->
  colj j (arr2_bfill k rows) = arr_bfill (colj j rows) /\ Forall (fun r => length r = k) (arr2_bfill k rows).
Proof.
  induction rows as [|r rows IH]; intros HF; simpl; [split; [reflexivity | constructor]|].
  inversion HF as [|? ? Hr Hrest]; subst. destruct (IH Hrest) as [IH1 IH2].
  assert (Hh : length (hd (repeat None (length r)) (arr2_bfill (length r) rows)) = length r).
  { destruct (arr2_bfill (length r) rows) as [|x xs]; simpl; [apply repeat_length|]. inversion IH2; assumption. }
  split.
  - pose proof (nth_keep_or j r _ (eq_sym Hh)) as Hk.
    unfold cell in *. rewrite Hk. rewrite <- IH1. unfold keep_or. cbn [fst snd].
    destruct (nth j r None) eqn:E; [reflexivity|]. f_equal.
    destruct (arr2_bfill (length r) rows) as [|x xs]; simpl; [|reflexivity].
    clear. generalize (length r). intros n. revert j. induction n as [|n IHn]; intros [|j]; simpl; auto.
  - constructor; [|exact IH2]. rewrite keep_or_length by (symmetry; exact Hh). exact Hh.
Qed.

Theorem arr2_fill_shape m k rows : Forall (fun r => length r = k) rows ->
  length (arr2_fill m k rows) = length rows /\ Forall (fun r => length r = k) (arr2_fill m k rows).
Proof.
  intros HF. destruct m; simpl.
  - split; [reflexivity | exact HF].
  - assert (HF' : Forall (fun r => length r = length (repeat (@None Z) k)) rows) by (rewrite repeat_length; exact HF).
    destruct (arr2_ffill_column 0 rows _ HF') as [_ H2]. rewrite repeat_length in H2. split; [|exact H2].
    clear. generalize (repeat (@None Z) k). induction rows as [|r rows IH]; intros p; simpl; [reflexivity | rewrite IH; reflexivity].
  - destruct (arr2_bfill_column 0 k rows HF) as [_ H2]. split; [|exact H2].
    clear. induction rows as [|r rows IH]; simpl; [reflexivity | rewrite IH; reflexivity].
Qed.

Lemma fold_min_spec rest : forall l0, (forall l, In l (l0 :: rest) -> (fold_left Nat.min rest l0 <= l)%nat) /\ In (fold_left Nat.min rest l0) (l0 :: rest).
Proof.
  induction rest as [|x rest IH]; intros l0; simpl.
  - split; [intros l [<-|[]]; lia | left; reflexivity].
  - destruct (IH (Nat.min l0 x)) as [Hle Hin]. split.
    + intros l [<-|[<-|H]].
      * pose proof (Hle _ (or_introl eq_refl)). lia.
      * pose proof (Hle _ (or_introl eq_refl)). lia.
      * apply Hle. right. exact H.
    + destruct Hin as [H|H]; [|right; right; exact H].
      rewrite <- H. destruct (Nat.min_dec l0 x) as [E|E]; rewrite E; auto.
Qed.

Lemma fold_max_spec rest : forall l0, (forall l, In l (l0 :: rest) -> (l <= fold_left Nat.max rest l0)%nat) /\ In (fold_left Nat.max rest l0) (l0 :: rest).
Proof.
  induction rest as [|x rest IH]; intros l0; simpl.
  - split; [intros l [<-|[]]; lia | left; reflexivity].
  - destruct (IH (Nat.max l0 x)) as [Hle Hin]. split.
    + intros l [<-|[<-|H]].
      * pose proof (Hle _ (or_introl eq_refl)). lia.
      * pose proof (Hle _ (or_introl eq_refl)). lia.
      * apply Hle. right. exact H.
    + destruct Hin as [H|H]; [|right; right; exact H].
      rewrite <- H. destruct (Nat.max_dec l0 x) as [E|E]; rewrite E; auto.
Qed.

Theorem np_len_spec h ls n : np_len h ls = Some n ->
  match h with
  | HI => (forall l, In l ls -> (n <= l)%nat) /\ In n ls
  | HO => (forall l, In l ls -> (l <= n)%nat) /\ In n ls
  | HL => exists rest, ls = n :: rest
  | HR => exists front, ls = front ++ [n]
  | HX _ => True
  end.
Proof.
  destruct ls as [|l0 rest]; [discriminate|]. simpl. intros H. inversion H; clear H.
  destruct h; [apply fold_min_spec | apply fold_max_spec | exists rest; reflexivity | apply last_split | exact I].
Qed.

(* ------------------------------------------------------------------ whole collections *)
Definition sync_target (tr : tree) (h : how) : target := df_index (flatten tr) h.

Lemma df_index_pd os h P : join_index h (pd_indexes os) = Some P -> df_index os h = TgIdx P.
Proof. unfold df_index. intros ->. reflexivity. Qed.

Lemma df_index_np os h n : pd_indexes os = [] -> np_len h (arr_lens os) = Some n -> df_index os h = TgLen n.
Proof. unfold df_index. intros -> ->. reflexivity. Qed.

(* leaf by leaf: the result of df_reindex is the input with each leaf reindexed *)
Theorem df_reindex_leafwise tr h m :
  let tg := match h with HX x => TgIdx x | _ => df_index (flatten tr) h end in
  flatten (df_reindex tr h m) = map (reindex_obj tg m) (flatten tr) /\ shape_of (df_reindex tr h m) = shape_of tr.
Proof. unfold df_reindex. split; [apply flatten_tmap | apply shape_tmap]. Qed.

Definition sync_leaf (tr : tree) (h : how) (m : method) (ch : option how) (o : obj) : obj :=
  let o1 := reindex_obj (df_index (flatten tr) h) m o in
  match ch with
  | None => o1
  | Some c => match join_index c (frame_cols (flatten tr)) with None => o1 | Some C => recolumn_obj C o1 end
  end.

Theorem df_sync_leafwise tr h m ch : (forall o, tr <> Leaf o) ->
  flatten (df_sync tr h m ch) = map (sync_leaf tr h m ch) (flatten tr) /\ shape_of (df_sync tr h m ch) = shape_of tr.
Proof.
  intros Hn. unfold sync_leaf.
  assert (E : df_sync tr h m ch =
              let tr' := tmap (reindex_obj (df_index (flatten tr) h) m) tr in
              match ch with None => tr' | Some c => match join_index c (frame_cols (flatten tr)) with None => tr' | Some C => tmap (recolumn_obj C) tr' end end).
  { destruct tr; [exfalso; eapply Hn; reflexivity | reflexivity | reflexivity]. }
  rewrite E. clear E. cbv zeta.
  destruct ch as [c|]; [destruct (join_index c (frame_cols (flatten tr)))|].
  - split; [rewrite !flatten_tmap, map_map; reflexivity | rewrite !shape_tmap; reflexivity].
  - split; [apply flatten_tmap | apply shape_tmap].
  - split; [apply flatten_tmap | apply shape_tmap].
Qed.

Lemma sync_leaf_index tr h m ch P o : join_index h (pd_indexes (flatten tr)) = Some P ->
  is_pd o = true -> obj_index (sync_leaf tr h m ch o) = Some P.
Proof.
  intros HP Ho. unfold sync_leaf. rewrite (df_index_pd _ _ _ HP).
  destruct ch as [c|]; [destruct (join_index c (frame_cols (flatten tr)))|];
    try rewrite recolumn_obj_index; apply reindex_obj_index; exact Ho.
Qed.

Lemma sync_leaf_is_pd tr h m ch o : is_pd (sync_leaf tr h m ch o) = is_pd o.
Proof.
  unfold sync_leaf. destruct ch as [c|]; [destruct (join_index c (frame_cols (flatten tr)))|];
    try rewrite recolumn_obj_is_pd; apply reindex_obj_is_pd.
Qed.

Theorem df_sync_common_index tr h m ch P o' : (forall o, tr <> Leaf o) ->
  join_index h (pd_indexes (flatten tr)) = Some P ->
  In o' (flatten (df_sync tr h m ch)) -> is_pd o' = true -> obj_index o' = Some P.
Proof.
  intros Hn HP Hin Hpd. rewrite (proj1 (df_sync_leafwise tr h m ch Hn)) in Hin.
  apply in_map_iff in Hin. destruct Hin as [o [<- Ho]].
  rewrite sync_leaf_is_pd in Hpd. apply sync_leaf_index; assumption.
Qed.

Theorem df_reindex_common_index tr h m P o' :
  match h with HX x => P = x | _ => join_index h (pd_indexes (flatten tr)) = Some P end ->
  In o' (flatten (df_reindex tr h m)) -> is_pd o' = true -> obj_index o' = Some P.
Proof.
  intros HP Hin Hpd. rewrite (proj1 (df_reindex_leafwise tr h m)) in Hin.
  apply in_map_iff in Hin. destruct Hin as [o [<- Ho]].
  rewrite reindex_obj_is_pd in Hpd.
  assert (E : match h with HX x => TgIdx x | _ => df_index (flatten tr) h end = TgIdx P).
  { destruct h; try (apply df_index_pd; exact HP). subst. reflexivity. }
  rewrite E. apply reindex_obj_index. exact Hpd.
Qed.

(* non-timeseries members come back unchanged *)
Theorem sync_leaf_passthrough tr h m ch o : (match o with ON _ | OX _ => True | _ => False end) -> sync_leaf tr h m ch o = o.
Proof.
  intros H. unfold sync_leaf. rewrite reindex_obj_passthrough by (destruct o; tauto).
  destruct ch as [c|]; [destruct (join_index c (frame_cols (flatten tr)))|]; try reflexivity.
  apply recolumn_obj_passthrough. intros c0 r ->. destruct H.
Qed.

(* every proper frame of the result has exactly the common columns *)
Theorem df_sync_common_columns tr h m c C o' : (forall o, tr <> Leaf o) ->
  join_index c (frame_cols (flatten tr)) = Some C ->
  In o' (flatten (df_sync tr h m (Some c))) ->
  exists o, In o (flatten tr) /\
    match o with
    | OF c0 r0 => if multi c0 then exists r', o' = OF C r' else exists r', o' = OF c0 r'
    | _ => True
    end.
Proof.
  intros Hn HC Hin. rewrite (proj1 (df_sync_leafwise tr h m (Some c) Hn)) in Hin.
  apply in_map_iff in Hin. destruct Hin as [o [<- Ho]]. exists o. split; [exact Ho|].
  unfold sync_leaf. rewrite HC. destruct o; try exact I.
  destruct (df_index (flatten tr) h); simpl; destruct (multi cols) eqn:E; eexists; reflexivity.
Qed.

(* presync: every timeseries handed to the wrapped function is on the common index *)
Theorem presync_common_index h m ch d args P col call a o' :
  join_index h (pd_indexes (flat_map flatten args)) = Some P ->
  In (col, call) (presync_calls h m ch d args) -> In a call -> In o' (flatten a) -> is_pd o' = true ->
  obj_index o' = Some P.
Proof.
  intros HP Hc Ha Ho Hpd. unfold presync_calls in Hc. rewrite (df_index_pd _ _ _ HP) in Hc.
  assert (Base : forall a1, In a1 (map (tmap (reindex_obj (TgIdx P) m)) args) ->
                 forall o1, In o1 (flatten a1) -> is_pd o1 = true -> obj_index o1 = Some P).
  { intros a1 Ha1 o1 Ho1 Hpd1. apply in_map_iff in Ha1. destruct Ha1 as [a0 [<- _]].
    rewrite flatten_tmap in Ho1. apply in_map_iff in Ho1. destruct Ho1 as [o0 [<- _]].
    rewrite reindex_obj_is_pd in Hpd1. apply reindex_obj_index. exact Hpd1. }
  assert (Col : forall x call1, call1 = map (tmap (column_obj x d)) (map (tmap (reindex_obj (TgIdx P) m)) args) ->
                In a call1 -> obj_index o' = Some P).
  { intros x call1 -> Ha1. apply in_map_iff in Ha1. destruct Ha1 as [a1 [<- Ha1]].
    rewrite flatten_tmap in Ho. apply in_map_iff in Ho. destruct Ho as [o1 [E Ho1]].
    rewrite (column_obj_index x d o1 o' E Hpd). apply (Base a1 Ha1 o1 Ho1).
    apply (column_obj_pd_source x d). rewrite E. exact Hpd. }
  destruct ch as [c|].
  - destruct (join_index c (frame_cols (flat_map flatten args))) as [C|].
    + apply in_map_iff in Hc. destruct Hc as [x [E _]]. inversion E; subst. eapply Col; [reflexivity | exact Ha].
    + destruct Hc as [E|[]]. inversion E; subst. eapply Col; [reflexivity | exact Ha].
  - destruct Hc as [E|[]]. inversion E; subst. apply (Base a Ha o' Ho Hpd).
Qed.

(* ------------------------------------------------------------------ bare arrays mixed with timeseries: the ValueError *)
Lemma arr_clash_spec P os :
  arr_clash (TgIdx P) os = true <->
  exists o n, In o os /\ arr_rows o = Some n /\ n <> length P /\ (1 < n)%nat.
Proof.
  unfold arr_clash. rewrite existsb_exists. split.
  - intros [o [Ho H]]. destruct (arr_rows o) as [n|] eqn:E; [|discriminate].
    apply andb_true_iff in H. destruct H as [H1 H2]. apply negb_true_iff in H1. apply Nat.eqb_neq in H1. apply Nat.ltb_lt in H2.
    exists o, n. auto.
  - intros [o [n [Ho [E [H1 H2]]]]]. exists o. split; [exact Ho|]. rewrite E.
    apply andb_true_iff. split; [apply negb_true_iff; apply Nat.eqb_neq; exact H1 | apply Nat.ltb_lt; exact H2].
Qed.

Lemma reindex_obj_array_unchanged P m o n : arr_rows o = Some n -> reindex_obj (TgIdx P) m o = o.
Proof. destruct o; simpl; try discriminate; reflexivity. Qed.

Theorem df_sync_checked_spec tr h m ch P : (forall o, tr <> Leaf o) -> df_index (flatten tr) h = TgIdx P ->
  (df_sync_checked tr h m ch = None <->
     exists o n, In o (flatten tr) /\ arr_rows o = Some n /\ n <> length P /\ (1 < n)%nat) /\
  (forall r, df_sync_checked tr h m ch = Some r -> r = df_sync tr h m ch).
Proof.
  intros Hn HP.
  assert (E : df_sync_checked tr h m ch = if arr_clash (TgIdx P) (flatten tr) then None else Some (df_sync tr h m ch)).
  { unfold df_sync_checked. rewrite HP. destruct tr; [exfalso; eapply Hn; reflexivity | reflexivity | reflexivity]. }
  rewrite E. rewrite <- arr_clash_spec. destruct (arr_clash (TgIdx P) (flatten tr)); split.
  - split; auto.
  - intros r H. discriminate.
  - split; intros H; discriminate.
  - intros r H. inversion H. reflexivity.
Qed.

Theorem df_reindex_checked_spec tr h m P : reindex_target tr h = TgIdx P ->
  (df_reindex_checked tr h m = None <->
     exists o n, In o (flatten tr) /\ arr_rows o = Some n /\ n <> length P /\ (1 < n)%nat) /\
  (forall r, df_reindex_checked tr h m = Some r -> r = df_reindex tr h m).
Proof.
  intros HP. unfold df_reindex_checked. rewrite HP. rewrite <- arr_clash_spec.
  destruct (arr_clash (TgIdx P) (flatten tr)); split.
  - split; auto.
  - intros r H. discriminate.
  - split; intros H; discriminate.
  - intros r H. inversion H. reflexivity.
Qed.
