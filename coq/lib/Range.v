(* Exhaustive sweeps over a Z interval, computed in the kernel and lifted to a forall. *)
From Coq Require Import ZArith NArith Bool Lia.
Open Scope Z_scope.

Definition range_step (f : Z -> bool) (p : Z * bool) : Z * bool :=
  let '(i, acc) := p in (i + 1, acc && f i).
Definition all_range (f : Z -> bool) (lo : Z) (n : N) : bool :=
  snd (N.iter n (range_step f) (lo, true)).

Lemma range_iter_fst f lo n : fst (N.iter n (range_step f) (lo, true)) = lo + Z.of_N n.
Proof.
  induction n as [|n IH] using N.peano_ind.
  - simpl. lia.
  - rewrite N.iter_succ. destruct (N.iter n (range_step f) (lo, true)) as [i acc] eqn:E.
    simpl in *. lia.
Qed.

Lemma all_range_spec f lo n :
  all_range f lo n = true -> forall i, lo <= i < lo + Z.of_N n -> f i = true.
Proof.
  unfold all_range. induction n as [|n IH] using N.peano_ind; intros H i Hi.
  - lia.
  - rewrite N.iter_succ in H.
    pose proof (range_iter_fst f lo n) as Hf.
    destruct (N.iter n (range_step f) (lo, true)) as [j acc] eqn:E. simpl in *.
    apply andb_true_iff in H. destruct H as [Hacc Hfj]. subst j.
    destruct (Z.eq_dec i (lo + Z.of_N n)) as [->|Hne]; [exact Hfj|].
    apply IH; [exact Hacc | lia].
Qed.

(* two-dimensional sweep *)
Definition all_range2 (f : Z -> Z -> bool) (lo1 : Z) (n1 : N) (lo2 : Z) (n2 : N) : bool :=
  all_range (fun i => all_range (f i) lo2 n2) lo1 n1.
Lemma all_range2_spec f lo1 n1 lo2 n2 :
  all_range2 f lo1 n1 lo2 n2 = true ->
  forall i j, lo1 <= i < lo1 + Z.of_N n1 -> lo2 <= j < lo2 + Z.of_N n2 -> f i j = true.
Proof.
  intros H i j Hi Hj. unfold all_range2 in H.
  pose proof (all_range_spec _ _ _ H i Hi) as H1. cbv beta in H1.
  exact (all_range_spec _ _ _ H1 j Hj).
Qed.
