(* Canonical observation type shared by every correspondence check:
   the implementation's answer (rendered by the harness) and the model's answer
   are both values of J and are compared with J_eqb inside Coq. *)
From Coq Require Import ZArith List Bool String Ascii.
Import ListNotations.
Open Scope Z_scope.

Inductive J := JZ (z : Z) | JS (s : string) | JL (l : list J).

Fixpoint J_eqb (a b : J) {struct a} : bool :=
  match a, b with
  | JZ x, JZ y => Z.eqb x y
  | JS x, JS y => String.eqb x y
  | JL x, JL y =>
      (fix go (x y : list J) : bool :=
         match x, y with
         | [], [] => true
         | a :: x', b :: y' => J_eqb a b && go x' y'
         | _, _ => false
         end) x y
  | _, _ => false
  end.

Definition JNone : J := JS "None".
Definition JNaN : J := JS "NaN".
Definition JErr (s : string) : J := JL [JS "ERR"; JS s].
Definition JB (b : bool) : J := JS (if b then "True" else "False").
Definition JO {A} (f : A -> J) (o : option A) : J := match o with Some a => f a | None => JNone end.
Definition JLZ (l : list Z) : J := JL (map JZ l).

(* indices (from 0) at which the model's outputs differ from the implementation's *)
Fixpoint mismatches_from (i : Z) (m e : list J) : list Z :=
  match m, e with
  | [], [] => []
  | a :: m', b :: e' => (if J_eqb a b then [] else [i]) ++ mismatches_from (i + 1) m' e'
  | _, _ => [-1]
  end.
Definition mismatches := mismatches_from 0.
Fixpoint pick {A} (l : list A) (idx : list Z) (i : Z) : list (Z * A) :=
  match l with
  | [] => []
  | a :: l' => (if existsb (Z.eqb i) idx then [(i, a)] else []) ++ pick l' idx (i + 1)
  end.
