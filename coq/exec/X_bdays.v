(* executable entry points used by the C05 correspondence: one Calendar (list-backed holidays and weekend,
   M_cal month) with a batch of queries, and registry call sequences *)
From Coq Require Import ZArith List Bool String.
From PB Require Import lib.J model.M_cal model.M_bdays.
Import ListNotations.
Open Scope Z_scope.

Inductive query :=
  | QIsB (d : Z) | QIsH (d : Z)
  | QAdjust (a : option adjk) (d : Z)
  | QAdd (a : option adjk) (d n : Z)
  | QBdays (a : option adjk) (x y : Z)
  | QDrange (x y : Z)
  | QSweep (a : option adjk) (d : Z)
  | QClock (d : Z)                          (* clock(d): default adj *)
  | QBump (a : option adjk) (d : Z) (toks : list (Z * Z))
  | QDrangeB (start_is_bump : bool) (x : Z) (toks : list (Z * Z)).   (* drange('<n>b', x, '1b') / drange(x, '<n>b', '1b'): date_range resolves the bump endpoint with the calendar's own dt_bump from x *)   (* dt_bump(d, 'nb...', adj) *)      (* is_bday d, adjust d, add d n for every n in [-40, 40] *)

Definition JR {A} (f : A -> J) (r : res A) : J :=
  match r with Ok a => f a | KeyError => JErr "KeyError" | OutOfFuel => JErr "OutOfFuel" end.
Definition JOF (o : option Z) : J := match o with Some z => JZ z | None => JErr "OutOfFuel" end.

Section Run.
Variable hol : Z -> bool.
Variable wk : Z -> bool.
Variables t0 t1 : Z.
Variable dflt : adjk.
Variable T : list Z.
Variable fuel : nat.
Definition eff (a : option adjk) : adjk := match a with Some a => a | None => dflt end.
Definition run_query (q : query) : J :=
  match q with
  | QIsB d => JB (is_bday hol wk d)
  | QIsH d => JB (is_holiday hol wk d)
  | QAdjust a d => JOF (adjust hol wk month_of_ord t0 t1 fuel (eff a) d)
  | QAdd a d n => JR JZ (add hol wk month_of_ord t0 t1 T fuel (eff a) d n)
  | QBdays a x y => JR JZ (bdays hol wk month_of_ord t0 t1 T fuel (eff a) x y)
  | QDrange x y => JR JLZ (drange_1b hol wk month_of_ord t0 t1 T fuel dflt x y)
  | QSweep a d => JL (JB (is_bday hol wk d) :: JOF (adjust hol wk month_of_ord t0 t1 fuel (eff a) d) ::
                      map (fun n => JR JZ (add hol wk month_of_ord t0 t1 T fuel (eff a) d n)) (rng (-40) 81))
  | QClock d => JR JZ (clock hol wk month_of_ord t0 t1 T fuel dflt d)
  | QBump a d toks => JR JZ (dt_bump_b hol wk month_of_ord t0 t1 T fuel (eff a) d toks)
  | QDrangeB sb x toks =>
      match dt_bump_b hol wk month_of_ord t0 t1 T fuel dflt x toks with
      | Ok e => JR JLZ (if sb then drange_1b hol wk month_of_ord t0 t1 T fuel dflt e x else drange_1b hol wk month_of_ord t0 t1 T fuel dflt x e)
      | KeyError => JErr "KeyError"
      | OutOfFuel => JErr "OutOfFuel"
      end
  end.
End Run.

(* (t0, t1, holidays, weekend, default adj, queries) *)
Definition run_cal (c : Z * Z * list Z * list Z * adjk * list query) : J :=
  let '(t0, t1, h, w, a, qs) := c in
  let hol := hol_of h in let wk := wk_of w in
  let T := populate hol wk t0 t1 in            (* _populate runs once per Calendar *)
  let fuel := Z.to_nat (t1 - t0 + 64) in
  JL (map (run_query hol wk t0 t1 a T fuel) qs).

(* registry histories: calendar(key, ...) calls, calendar(calendar(key), ...) calls through the fetched object, and
   queries on the calendar fetched by key; table-path queries populate (and afterwards reuse) the cached tables of
   the registered object.  The observation of a call is the returned calendar's (holidays, weekend, t0, t1);
   calendar() registers with the default adj 'm'. *)
Definition J_args (v : cal_args) : J := let '(h, w, a, b) := v in JL [JLZ h; JLZ w; JZ a; JZ b].
Inductive rg_op :=
  | RCall (k : Z) (h w : option (list Z)) (a b : option Z)
  | RObj (k : Z) (h w : option (list Z)) (a b : option Z)
  | RQ (k : Z) (q : query).
Definition needs_table (q : query) : bool :=
  match q with
  | QAdd _ _ n => add_uses_table n
  | QBdays _ _ _ | QDrange _ _ | QSweep _ _ | QClock _ | QDrangeB _ _ _ => true
  | QBump _ _ toks => existsb (fun t => add_uses_table (fst t)) toks
  | _ => false
  end.
Fixpoint run_rg (st : registry (tentry cal_args (list Z))) (ops : list rg_op) : list J :=
  match ops with
  | [] => []
  | RCall k h w a b :: r =>
      let '(st1, v) := t_call default_args st k (call_arg h w a b) in J_args v :: run_rg st1 r
  | RObj k h w a b :: r =>
      let '(st1, v) := t_obj default_args st k (call_arg_obj h w a b) in J_args v :: run_rg st1 r
  | RQ k q :: r =>
      let '(st1, v) := t_call default_args st k None in
      let '(hh, ww, a, b) := v in
      let fuel := Z.to_nat (b - a + 64) in
      if needs_table q then
        let '(st2, T) := t_use build_args default_args st1 k in
        run_query (hol_of hh) (wk_of ww) a b AdjM T fuel q :: run_rg st2 r
      else run_query (hol_of hh) (wk_of ww) a b AdjM [] fuel q :: run_rg st1 r
  end.
Definition run_registry (ops : list rg_op) : J := JL (run_rg [] ops).
