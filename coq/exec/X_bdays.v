(* executable entry points used by the C05 correspondence: one Calendar (list-backed holidays and weekend,
   M_cal month) with a batch of queries, and registry call sequences *)
From Coq Require Import ZArith List Bool String.
From PB Require Import lib.J model.M_cal model.M_bdays.
Import ListNotations.
Open Scope Z_scope.

Inductive query :=
  | QIsB (d : Z) | QIsH (d : Z)
  | QAdjust (a : option adjk) (d : Z)
  | QAdd (a : option adjk) (d n : Z)
  | QBdays (a : option adjk) (x y : Z)
  | QDrange (x y : Z)
  | QSweep (a : option adjk) (d : Z).      (* is_bday d, adjust d, add d n for every n in [-40, 40] *)

Definition JR {A} (f : A -> J) (r : res A) : J :=
  match r with Ok a => f a | KeyError => JErr "KeyError" | OutOfFuel => JErr "OutOfFuel" end.
Definition JOF (o : option Z) : J := match o with Some z => JZ z | None => JErr "OutOfFuel" end.

Section Run.
Variable hol : Z -> bool.
Variable wk : Z -> bool.
Variables t0 t1 : Z.
Variable dflt : adjk.
Variable T : list Z.
Variable fuel : nat.
Definition eff (a : option adjk) : adjk := match a with Some a => a | None => dflt end.
Definition run_query (q : query) : J :=
  match q with
  | QIsB d => JB (is_bday hol wk d)
  | QIsH d => JB (is_holiday hol wk d)
  | QAdjust a d => JOF (adjust hol wk month_of_ord t0 t1 fuel (eff a) d)
  | QAdd a d n => JR JZ (add hol wk month_of_ord t0 t1 T fuel (eff a) d n)
  | QBdays a x y => JR JZ (bdays hol wk month_of_ord t0 t1 T fuel (eff a) x y)
  | QDrange x y => JR JLZ (drange_1b hol wk month_of_ord t0 t1 T fuel dflt x y)
  | QSweep a d => JL (JB (is_bday hol wk d) :: JOF (adjust hol wk month_of_ord t0 t1 fuel (eff a) d) ::
                      map (fun n => JR JZ (add hol wk month_of_ord t0 t1 T fuel (eff a) d n)) (rng (-40) 81))
  end.
End Run.

(* (t0, t1, holidays, weekend, default adj, queries) *)
Definition run_cal (c : Z * Z * list Z * list Z * adjk * list query) : J :=
  let '(t0, t1, h, w, a, qs) := c in
  let hol := hol_of h in let wk := wk_of w in
  let T := populate hol wk t0 t1 in            (* _populate runs once per Calendar *)
  let fuel := Z.to_nat (t1 - t0 + 64) in
  JL (map (run_query hol wk t0 t1 a T fuel) qs).

(* registry: ops = (key, holidays, weekend, t0, t1) with None for an argument left out;
   the observation of each call is the returned calendar's (holidays, weekend, t0, t1) *)
Definition J_args (v : cal_args) : J := let '(h, w, a, b) := v in JL [JLZ h; JLZ w; JZ a; JZ b].
Definition run_registry (ops : list (Z * option (list Z) * option (list Z) * option Z * option Z)) : J :=
  let ops' := map (fun o => let '(k, h, w, a, b) := o in (k, call_arg h w a b)) ops in
  JL (map J_args (snd (calendar_calls default_args [] ops'))).
