(* executable entry points used by the correspondence harness (C18) *)
From Coq Require Import ZArith List Bool Ascii String.
From PB Require Import lib.J model.M_keys model.M_deco.
Import ListNotations.
Open Scope Z_scope.

Definition kvJ (l : list (string * Z)) : J := JL (map (fun kv => JL [JS (fst kv); JZ (snd kv)]) (ssort l)).
Definition bvalJ (b : bval Z) : J :=
  match b with BV v => JZ v | BT l => JL (JS "t" :: map JZ l) | BD d => JL [JS "d"; kvJ d] end.
(* a binding, canonically: items sorted by parameter name *)
Definition bindingJ (r : amap (bval Z)) : J := JL (map (fun kv => JL [JS (fst kv); bvalJ (snd kv)]) (ssort r)).
Definition kos := list (string * option Z).      (* keyword-only parameters, each with its default if any *)
Definition specJ (s : sig Z) (ko : kos) (c : call Z) : J := match bindk s ko c with Some r => bindingJ r | None => JErr "TypeError" end.

(* (signature, keyword-only parameters, call) -> [inspect.getcallargs; pyg_base.getcallargs; f called through call_with_callargs] *)
Definition bind3 (s : sig Z) (ko : kos) (c : call Z) : list J :=
  [specJ s ko c;
      match lib_getcallargs_k s ko c with LOk r => bindingJ r | LErr e => JErr e end;
      match lib_getcallargs_k s ko c with
      | LOk r =>
          (* an invalid call can leave an int under the varargs / varkw name: unpacking an int raises TypeError *)
          let is_bv := fun k => match aget k r with Some (BV _) => true | _ => false end in
          if (varargs s && is_bv VARGS) || (varkw s && is_bv VKW) then JErr "TypeError"
          else specJ s ko (call_with_callargs s r)
      | LErr e => JErr e
      end].
Definition run_bind (x : sig Z * kos * call Z) : J := let '(s, ko, c) := x in JL (bind3 s ko c).

Definition tag_name (t : tag) : string :=
  match t with TTry => "try_value" | TBack => "try_back" | TKws => "kwargs_support" | TCache => "cache_func" | TLoop => "loops" | TPd => "pd2np" end.
Definition chainJ (c : list tag) : J := JL (map (fun t => JS (tag_name t)) c).
(* the function under the wrappers returns its own binding, or raises when [raises] *)
Definition base_fn (s : sig Z) (ko : kos) (raises : bool) (c : call Z) : lres J :=
  match bindk s ko c with
  | None => LErr "TypeError"
  | Some r => if raises then LErr "ZeroDivisionError" else LOk (bindingJ r)
  end.
Definition outJ (o : lres J) : J := match o with LOk r => r | LErr e => JErr e end.
(* (decorators applied innermost first, signature, raises, call) ->
   [chain of the stack; chain after applying the outermost decorator again; chain after applying the innermost
    decorator again on top; what the stack returns; what f returns; specification forwarded] *)
(* argument codes 50..59 stand for pandas objects, code + 10 for their numpy values *)
Definition is_pdz (v : Z) : bool := (50 <=? v) && (v <? 60).
Definition to_npz (v : Z) : Z := if is_pdz v then v + 10 else v.
(* pd2np(exc = exc).wrapped: the first argument (positional, else by the first parameter's name, else its default) decides *)
Definition pdcall_z (exc : list string) (s : sig Z) (c : call Z) : call Z :=
  let first := match fst c with
               | a :: _ => Some a
               | [] => match pos s with
                       | [] => None
                       | p :: _ => match aget p (snd c) with Some v => Some v | None => aget p (defaults_of s) end
                       end
               end in
  match first with
  | Some v => if is_pdz v
              then (map to_npz (fst c), map (fun kv => (fst kv, if inl (fst kv) exc then snd kv else to_npz (snd kv))) (snd c))
              else c
  | None => c
  end.
(* the wrappers know the function through getargs = positional names followed by keyword-only names *)
Definition wsig (s : sig Z) (ko : kos) : sig Z :=
  {| pos := pos s ++ map fst ko; defs := defs s; varargs := varargs s; varkw := varkw s |}.
Definition stack_out (ts : list tag) (s : sig Z) (ko : kos) (raises : bool) (fallback : J) (exc : list string) (c : call Z) : J :=
  outJ (call_stack fallback JZ (pdcall_z exc) (wsig s ko) (wraps (rev ts) []) (base_fn s ko raises) c).
Definition run_stack (x : list tag * sig Z * kos * bool * call Z * J * list string) : J :=
  let '(ts, s, ko, raises, c, fallback, exc) := x in      (* fallback: the value of the try_value variant in the stack (None, 0, NaN, True, False, []) *)
  let chain := wraps (rev ts) [] in
  let f := base_fn s ko raises in
  JL [chainJ chain;
      chainJ (match chain with t :: _ => wrap t chain | [] => [] end);
      chainJ (match ts with t :: _ => wrap t chain | [] => [] end);
      stack_out ts s ko raises fallback exc c;
      outJ (f c);
      JB true].

(* a sequence of getcallargs / calls on ONE wrapper object (each step is independent of the earlier ones), then the
   forwarded specification once more *)
Definition run_seq (x : list tag * sig Z * kos * list (bool * call Z)) : J :=
  let '(ts, s, ko, steps) := x in
  JL (map (fun st : bool * call Z => if fst st then stack_out ts s ko false JNone [] (snd st) else JL (bind3 s ko (snd st))) steps ++ [JB true]).

(* cache: call sequences on a function of any arguments that returns how many times it has been evaluated *)
Fixpoint avJ (a : av) : J :=
  match a with
  | AInt z => JZ z
  | AFloat z => JL [JS "f"; JZ z]
  | ABool b => JL [JS "b"; JZ (if b then 1 else 0)]
  | AStr s => JS s
  | ANone => JNone
  | ATup l => JL (JS "t" :: map avJ l)
  | AList l => JL (JS "l" :: map avJ l)
  | ADict d => JL (JS "d" :: (fix go (d : list (string * av)) := match d with [] => [] | (k, v) :: d' => JL [JS k; avJ v] :: go d' end) d)
  | AUnh id => JL [JS "u"; JZ id]
  end.
Definition callJ (c : call av) : J := JL [JL (map avJ (fst c)); JL (map (fun kv => JL [JS (fst kv); avJ (snd kv)]) (snd c))].
(* the n-th evaluation returns the n-th value of a given pool (None, 0, '', [], False, NaN, ...): a stored None
   must still count as present *)
Definition run_cache (x : list av * list (call av)) : J :=
  let '(pool, cs) := x in
  let st := crunu (call_key true) lz_eqb (fun n _ => avJ (nth n pool ANone)) (fun c => negb (call_unhashable c)) cs in
  JL [JL (rets st); JL (map callJ (trace st))].

(* try_value(value = v) over a history: step i raises or returns i; the caller mutates every fallback it receives *)
Fixpoint hist_outs (i : Z) (steps : list bool) : list (lres J) :=
  match steps with [] => [] | b :: steps' => (if b then LErr "ValueError" else LOk (JZ i)) :: hist_outs (i + 1) steps' end.
Definition run_tryhist (x : av * list bool) : J :=
  let '(v, steps) := x in JL (try_hist true (fun r => JL [r; JS "mutated"]) (avJ v) (hist_outs 0 steps)).
