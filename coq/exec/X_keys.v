(* executable entry points used by the correspondence harness (C16) *)
From Coq Require Import ZArith List Bool Ascii String.
From PB Require Import lib.J model.M_keys.
Import ListNotations.
Open Scope Z_scope.

Fixpoint hvJ (h : hv) : J :=
  match h with
  | HInt z => JZ z
  | HFloat z => JL [JS "f"; JZ z]
  | HBool b => JL [JS "b"; JZ (if b then 1 else 0)]
  | HStr s => JS s
  | HNone => JNone
  | HTup l => JL (JS "t" :: map hvJ l)
  | HOther t => JL [JS "o"; JZ t]
  end.

(* ulist: (op, raw list given to the constructor, other operand) *)
Definition run_ulist (c : string * list hv * other hv) : J :=
  let '(op, raw, o) := c in
  let u := mk hv_eqb raw in
  let r :=
    if String.eqb op "init" then Some u
    else if String.eqb op "+" then Some (ul_add hv_eqb u o)
    else if String.eqb op "|" then Some (ul_add hv_eqb u o)
    else if String.eqb op "-" then Some (ul_sub hv_eqb u o)
    else if String.eqb op "&" then Some (ul_and hv_eqb u o)
    else None in
  match r with
  | Some r => JL [JL (map hvJ r); JL (map hvJ u)]
  | None => JErr "op"
  end.

(* dictattr family *)
Definition cls_name (c : cls) : string :=
  match c with CPlain => "dict" | CDictattr => "dictattr" | CDict => "Dict" | CUserA => "UA" | CUserD => "UD" | CPoint => "PT" | CKwInit => "KO" end.
Definition itemsJ (m : amap Z) : J := JL (map (fun kv => JL [JS (fst kv); JZ (snd kv)]) m).
Definition dresJ (r : dres Z) : J :=
  match r with
  | DObj c m => JL [JS (cls_name c); itemsJ m]
  | DVals l => JL (map JZ l)
  | DKeys l => JL (map JS l)
  | DErr e => JErr e
  end.

Inductive dop :=
| OpSub (ks : list string) | OpAnd (ks : list string) | OpGetList (ks : list string) | OpGetTuple (ks : list string)
| OpAttr (k : string) | OpAdd (oc : cls) (o : amap Z) | OpOr (oc : cls) (o : amap Z)
| OpRelabel (a : relabel_arg) (kw : list (string * string))
| OpKeys | OpKeysSub (ks : other string) | OpKeysAnd (ks : other string) | OpKeysAdd (ks : other string).

(* values that are not items of the operand: the defaults a re-run constructor injects, a whole mapping landing in x *)
Definition init_z (p : string) : Z := if String.eqb p "x" then -1000 else if String.eqb p "y" then -1001 else -1002.
Definition whole_z (m : amap Z) : Z := -2000.
Definition run_dict (x : cls * amap Z * dop) : J :=
  let '(c, d, op) := x in
  let r :=
    match op with
    | OpSub ks => d_sub c d ks
    | OpAnd ks => d_and_py init_z whole_z c d ks
    | OpGetList ks => d_getlist_py init_z whole_z c d ks
    | OpGetTuple ks => d_gettuple d ks
    | OpAttr k => d_attr d k
    | OpAdd oc o => d_add c d oc o
    | OpOr oc o => d_or_py init_z whole_z c d o
    | OpRelabel a kw => d_relabel_py init_z whole_z c d a kw
    | OpKeys => d_keys d
    | OpKeysSub ks => DKeys (ul_sub String.eqb (akeys d) ks)
    | OpKeysAnd ks => DKeys (ul_and String.eqb (akeys d) ks)
    | OpKeysAdd ks => DKeys (ul_add String.eqb (akeys d) ks)
    end in
  let o := match op with OpAdd _ o | OpOr _ o => itemsJ o | _ => JNone end in
  (* result, the operand afterwards, the other operand afterwards *)
  JL [dresJ r; itemsJ d; o].

(* Dict.__call__ with free (Herbrand) callables: the value of key k is the term [k, arg1, ..., argn] *)
Inductive citem := KConst (z : Z) | KFun (params : list (string * option Z)).
Definition to_item (k : string) (c : citem) : item (V := J) :=
  match c with KConst z => IConst (JZ z) | KFun ps => IFun (map (fun p => (fst p, option_map JZ (snd p))) ps) (fun vs => JL (JS k :: vs)) end.
Definition cresJ (c : cls) (r : cres (V := J)) : J :=
  match r with
  | COk m => JL [JS (cls_name c); JL (map (fun kv => JL [JS (fst kv); snd kv]) m)]
  | CErr e => JErr e
  end.
Definition run_call1 (c : cls) (base : amap Z) (kw : list (string * citem)) : J :=
  cresJ c (dict_call JS (map (fun kv => (fst kv, JZ (snd kv))) base) (map (fun kv => (fst kv, to_item (fst kv) (snd kv))) kw)).

(* all orders of the keyword list, in the order of itertools.permutations *)
Fixpoint remove_nth {A} (i : nat) (l : list A) : list A :=
  match l, i with
  | [], _ => []
  | _ :: l', O => l'
  | x :: l', S i' => x :: remove_nth i' l'
  end.
Fixpoint perms_fuel {A} (n : nat) (l : list A) : list (list A) :=
  match n with
  | O => [[]]
  | S n' => flat_map (fun i => match nth_error l i with
                               | Some x => map (cons x) (perms_fuel n' (remove_nth i l))
                               | None => []
                               end) (seq 0 (List.length l))
  end.
Definition perms {A} (l : list A) : list (list A) := perms_fuel (List.length l) l.

Definition run_call (x : cls * amap Z * list (string * citem)) : J :=
  let '(c, base, kw) := x in
  JL [JL (map (run_call1 c base) (perms kw)); itemsJ base].
(* a single given keyword order *)
Definition run_call_one (x : cls * amap Z * list (string * citem)) : J :=
  let '(c, base, kw) := x in
  JL [JL [run_call1 c base kw]; itemsJ base].

(* Dict + other on nested mappings: [result; d afterwards; other afterwards] *)
Fixpoint trJ (t : tr) : J :=
  match t with
  | TLeaf z => JZ z
  | TNode c kids => JL [JS (cls_name c); JL ((fix go (kids : list (string * tr)) : list J :=
                                               match kids with [] => [] | (k, t') :: r => JL [JS k; trJ t'] :: go r end) kids)]
  end.
Definition run_tree_add (x : tr * tr) : J :=
  let '(d, o) := x in
  JL [match tree_add d o with TOk t => trJ t | TErr e => JErr e end; trJ d; trJ o].
