(* executable entry points used by the C12 correspondence *)
From Coq Require Import ZArith List Bool String.
From PB Require Import lib.J model.M_fill.
Import ListNotations.
Open Scope Z_scope.

(* how the same data is handed to the code: Series, DataFrame, 1-d ndarray, 2-d ndarray *)
Inductive form := FS | FD | FA1 | FA2.

Definition JCell (c : cell) : J :=
  match c with Some (Fin z) => JZ z | Some PInf => JS "inf" | Some NInf => JS "-inf" | None => JNaN end.
Definition JRows (rows : list row) : J := JL (map (fun r => JL (map JCell r)) rows).
Definition JLabels (lf : lframe) : J := JL (map (fun p => JZ (fst p)) lf).

(* observation = [kind of result; number of columns; index labels (None for arrays); values row by row;
                  index labels and values of the ARGUMENT re-inspected after the call] *)
Definition obs_form (k : nat) (call : lframe -> lframe * lframe) (resa : list row -> list row) (lf : lframe) (f : form) : J :=
  let '(res, arg) := call lf in
  match f with
  | FS => JL [JS "S"; JZ (Z.of_nat k); JLabels res; JRows (map snd res); JLabels arg; JRows (map snd arg)]
  | FD => JL [JS "D"; JZ (Z.of_nat k); JLabels res; JRows (map snd res); JLabels arg; JRows (map snd arg)]
  | FA1 => JL [JS "A1"; JZ (Z.of_nat k); JNone; JRows (resa (map snd lf)); JNone; JRows (map snd arg)]
  | FA2 => JL [JS "A2"; JZ (Z.of_nat k); JNone; JRows (resa (map snd lf)); JNone; JRows (map snd arg)]
  end.

Definition run_fill (c : nat * option nat * list meth * lframe * list form) : J :=
  let '(k, lim, ms, lf, forms) := c in
  JL (map (obs_form k (fill_call k lim ms) (fill_array k lim ms) lf) forms).

Definition run_nona (c : nat * cell * edge * lframe * list form) : J :=
  let '(k, value, e, lf, forms) := c in
  JL (map (obs_form k (nona_call value e) (nona_array value e) lf) forms).
