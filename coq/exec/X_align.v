(* executable entry points used by the correspondence harness (C03; reused by C08) *)
From Coq Require Import ZArith List Bool String.
From PB Require Import lib.J model.M_align.
Import ListNotations.
Open Scope Z_scope.
Open Scope string_scope.

Definition Jcell (c : cell) : J := match c with Some z => JZ z | None => JNaN end.
Definition Jobj (o : obj) : J :=
  match o with
  | OS s => JL [JS "S"; JLZ (index_of s); JL (map (fun p => Jcell (snd p)) s)]
  | OF c r => JL [JS "F"; JLZ (index_of r); JLZ c;
                  JL (map (fun x => JL (map (fun p => Jcell (row_get c (snd p) x)) r)) c)]
  | OA a => JL [JS "A"; JL (map Jcell a)]
  | OA2 k r => JL [JS "A2"; JZ (Z.of_nat k); JL (map (fun row => JL (map Jcell row)) r)]
  | ON c => JL [JS "N"; Jcell c]
  | OX i => JL [JS "X"; JZ i]
  end.
Fixpoint Jtree (t : tree) : J :=
  match t with
  | Leaf o => Jobj o
  | TL l => JL [JS "L"; JL (map Jtree l)]
  | TD l => JL [JS "D"; JL (map (fun kx => JL [JZ (fst kx); Jtree (snd kx)]) l)]
  end.
Definition Jtarget (t : target) : J :=
  match t with TgNone => JNone | TgIdx i => JL [JS "I"; JLZ i] | TgLen n => JL [JS "n"; JZ (Z.of_nat n)] end.

(* _df_reindex raises when a numpy array of length > 1 meets a pandas index of another length *)
Definition arr_clash (tg : target) (os : list obj) : bool :=
  match tg with
  | TgIdx i => existsb (fun o => match o with
                                 | OA a => negb (Nat.eqb (List.length a) (List.length i)) && Nat.ltb 1 (List.length a)
                                 | OA2 _ a => negb (Nat.eqb (List.length a) (List.length i)) && Nat.ltb 1 (List.length a)
                                 | _ => false end) os
  | _ => false
  end.

Definition run_index (c : tree * how) : J := let '(tr, h) := c in Jtarget (df_index (flatten tr) h).
(* df_columns: the common column set of the proper frames *)
Definition run_columns (c : tree * how) : J :=
  let '(tr, h) := c in
  match join_index h (frame_cols (flatten tr)) with Some C => JL [JS "C"; JLZ C] | None => JNone end.
Definition run_reindex (c : tree * how * method) : J :=
  let '(tr, h, m) := c in
  let tg := match h with HX x => TgIdx x | _ => df_index (flatten tr) h end in
  if arr_clash tg (flatten tr) then JErr "ValueError" else Jtree (df_reindex tr h m).
Definition run_sync (c : tree * how * method * option how) : J :=
  let '(tr, h, m, ch) := c in
  match tr with
  | Leaf _ => Jtree tr
  | _ => if arr_clash (df_index (flatten tr) h) (flatten tr) then JErr "ValueError" else Jtree (df_sync tr h m ch)
  end.
Definition Jcall (c : option Z * list tree) : J := JL [JO JZ (fst c); JL (map Jtree (snd c))].
Definition run_presync (c : list tree * how * method * option how * cell) : J :=
  let '(args, h, m, ch, d) := c in JL (map Jcall (presync_calls h m ch d args)).
