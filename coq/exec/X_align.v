(* executable entry points used by the correspondence harness (C03; reused by C08) *)
From Coq Require Import ZArith List Bool String.
From PB Require Import lib.J model.M_align.
Import ListNotations.
Open Scope Z_scope.
Open Scope string_scope.

Definition Jcell (c : cell) : J := match c with Some z => JZ z | None => JNaN end.
Definition Jobj (o : obj) : J :=
  match o with
  | OS s => JL [JS "S"; JLZ (index_of s); JL (map (fun p => Jcell (snd p)) s)]
  | OF c r => JL [JS "F"; JLZ (index_of r); JLZ c;
                  JL (map (fun x => JL (map (fun p => Jcell (row_get c (snd p) x)) r)) c)]
  | OA a => JL [JS "A"; JL (map Jcell a)]
  | OA2 k r => JL [JS "A2"; JZ (Z.of_nat k); JL (map (fun row => JL (map Jcell row)) r)]
  | ON c => JL [JS "N"; Jcell c]
  | OX i => JL [JS "X"; JZ i]
  end.
Fixpoint Jtree (t : tree) : J :=
  match t with
  | Leaf o => Jobj o
  | TL l => JL [JS "L"; JL (map Jtree l)]
  | TD l => JL [JS "D"; JL (map (fun kx => JL [JZ (fst kx); Jtree (snd kx)]) l)]
  end.
Definition Jtarget (t : target) : J :=
  match t with TgNone => JNone | TgIdx i => JL [JS "I"; JLZ i] | TgLen n => JL [JS "n"; JZ (Z.of_nat n)] end.

Definition run_index (c : tree * how) : J := let '(tr, h) := c in Jtarget (df_index (flatten tr) h).
(* df_columns: the common column set of the proper frames *)
Definition run_columns (c : tree * how) : J :=
  let '(tr, h) := c in
  match join_index h (frame_cols (flatten tr)) with Some C => JL [JS "C"; JLZ C] | None => JNone end.
Definition run_reindex (c : tree * how * method) : J :=
  let '(tr, h, m) := c in
  match df_reindex_checked tr h m with Some r => Jtree r | None => JErr "ValueError" end.
Definition run_sync (c : tree * how * method * option how) : J :=
  let '(tr, h, m, ch) := c in
  match df_sync_checked tr h m ch with Some r => Jtree r | None => JErr "ValueError" end.
Definition Jcall (c : option Z * list tree) : J := JL [JO JZ (fst c); JL (map Jtree (snd c))].
Definition run_presync (c : list tree * how * method * option how * cell) : J :=
  let '(args, h, m, ch, d) := c in JL (map Jcall (presync_calls h m ch d args)).
