(* executable entry point for the C20 correspondence: result of the lifted call and the calls of f it made *)
From Coq Require Import ZArith List Bool String.
From PB Require Import lib.J model.M_join exec.X_join model.M_perdict.
Import ListNotations.
Open Scope Z_scope.

Definition pv (v : pval) : J :=
  match v with VNone => JS "None" | VInt z => JZ z | VList b l => JL [JS (if b then "tuple" else "list"); JL (map JZ l)] end.
Definition jkey (k : key) : J := JL (map (enc_cell false) k).
Definition jrow (r : key * pval) : J := JL [jkey (fst r); pv (snd r)].
Definition jresult (r : result) : J :=
  match r with
  | RScalar v => JL [JS "scalar"; pv v]
  | RNone => JS "None"
  | RData rows => JL [JS "data"; JL (map jrow rows)]
  | RTable rows => JL [JS "table"; JL (map jrow rows)]
  end.
Definition jtrace (t : list (key * list pval)) : J :=
  JL (jsort (map (fun c => JL [jkey (fst c); JL (map pv (snd c))]) t)).
Definition run_perdict (c : list arg * datain * expin) : J :=
  let '(args, d, x) := c in
  let r := perdict fdigits args d x in JL [jresult (fst r); jtrace (snd r)].

(* dict-output path *)
Definition jrowN (r : key * list pval) : J := JL [jkey (fst r); JL (map pv (snd r))].
Definition jresultN (r : resultN) : J :=
  match r with
  | NScalar outs => JL [JS "dscalar"; JL (map pv outs)]
  | NEmpty caches => JL [JS "dempty"; JL (map (fun d => match d with Some rows => JL (map jrow rows) | None => JS "None" end) caches)]
  | NTable rows => JL [JS "dict"; JL (map jrowN rows)]
  end.
Definition run_perdictN (c : list arg * list datain * expin) : J :=
  let '(args, caches, x) := c in
  let r := perdictN (fouts (List.length caches)) args caches x in JL [jresultN (fst r); jtrace (snd r)].

(* join(inputs, on, defaults) called directly: one row per key with the value every input contributes *)
Definition run_pjoin (args : list arg) : J :=
  if negb (any_table args None XAbsent) then JL [JS "pjoin"; JL [JL [jkey []; JL (map pv (row_args args []))]]]
  else JL [JS "pjoin"; JL (map (fun k => JL [jkey k; JL (map pv (row_args args k))]) (result_keys args None XAbsent))].

(* two consecutive calls (the second reuses the tables of the first under other parameter names) *)
Definition run_perdict2 (c : (list arg * datain * expin) * (list arg * datain * expin)) : J :=
  JL [run_perdict (fst c); run_perdict (snd c)].

(* partially keyed inputs: join called directly, and perdictable on top of it *)
Definition run_pjoinP (ps : list parg) : J :=
  JL [JS "pjoin"; JL (map (fun r => JL [jkey (fst r); JL (map (fun o => match o with Some v => pv v | None => JS "missing" end) (snd r))]) (pjoinP ps))].
Definition run_perdictP (ps : list parg) : J :=
  let r := perdictP fdigits ps in JL [jresult (fst r); jtrace (snd r)].
