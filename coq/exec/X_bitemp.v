(* executable entry points used by the C17 correspondence harness *)
From Coq Require Import ZArith List Bool String.
From PB Require Import lib.J model.M_bitemp.
Import ListNotations.
Open Scope Z_scope.

Definition J_val (x : option Z) : J := match x with Some z => JZ z | None => JNaN end.
Definition J_series (l : list (Z * option Z)) : J := JL (map (fun p => JL [JZ (fst p); J_val (snd p)]) l).
Definition J_reads (st : list row) (reads : list (option Z * Z)) : J :=
  JL (map (fun q => J_series (bi_read st (fst q) (snd q))) reads).
(* case = (history in merge order, reads (asof, what), optional version merged once more at the end) *)
Definition run_bitemp (c : list version * list (option Z * Z) * option version) : J :=
  let '(h, reads, again) := c in
  let st := store_of h in
  JL [J_reads st reads;
      match again with Some v => J_reads (bi_merge st (Bi v)) reads | None => JL [] end;
      JL (map (fun r => JL [JZ (rd r); JZ (rs r); J_val (rv r)]) st)].

(* the same with the history given as groups of versions, each group merged by one bi_merge call *)
Definition run_bitemp_g (c : list (list version) * list (option Z * Z) * option version) : J :=
  let '(gs, reads, again) := c in
  let st := store_of_groups gs in
  JL [J_reads st reads;
      match again with Some v => J_reads (bi_merge st (Bi v)) reads | None => JL [] end;
      JL (map (fun r => JL [JZ (rd r); JZ (rs r); J_val (rv r)]) st)].
