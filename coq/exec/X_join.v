(* executable entry points for the C02 correspondence: canonical observation of join / xor results.
   Result = ["ok"; sorted column names; rows sorted by jcmp], each row = the cells in sorted-column order.
   Numbers in key columns of a join are rendered without their int/float tag (the property compares keys
   up to ==; which row of a group lends its key to the output is not claimed), everything else is exact. *)
From Coq Require Import ZArith List Bool String Ascii.
From PB Require Import lib.J model.M_join.
Import ListNotations.
Open Scope Z_scope.

Fixpoint jcmp (a b : J) {struct a} : comparison :=
  match a, b with
  | JZ x, JZ y => Z.compare x y
  | JZ _, _ => Lt
  | _, JZ _ => Gt
  | JS x, JS y => String.compare x y
  | JS _, _ => Lt
  | _, JS _ => Gt
  | JL x, JL y =>
      (fix go (x y : list J) : comparison :=
         match x, y with
         | [], [] => Eq
         | [], _ => Lt
         | _, [] => Gt
         | a :: x', b :: y' => match jcmp a b with Eq => go x' y' | c => c end
         end) x y
  end.
Fixpoint jinsert (x : J) (l : list J) : list J :=
  match l with [] => [x] | y :: l' => match jcmp x y with Gt => y :: jinsert x l' | _ => x :: l end end.
Definition jsort (l : list J) : list J := fold_right jinsert [] l.

Fixpoint sinsert (x : string) (l : list string) : list string :=
  match l with [] => [x] | y :: l' => if String.leb x y then x :: l else y :: sinsert x l' end.
Definition ssort (l : list string) : list string := fold_right sinsert [] l.

Definition enc_cell (tagged : bool) (c : cell) : J :=
  match c with
  | CNone => JS "None"
  | CNum f t => JL [JS (if tagged then (if f then "f" else "i") else "n"); JZ t]
  | CNaN _ => JS "NaN"
  | CStr s => JL [JS "s"; JL (map JZ s)]
  | CDate u => JL [JS "d"; JZ u]
  | CInf n => JS (if n then "-inf" else "inf")
  | CList b l => JL [JS (if b then "tuple" else "list"); JL (map JZ l)]
  end.
Definition enc_ocell (tagged : bool) (o : ocell) : J :=
  match o with OC c => enc_cell tagged c | OPair a b => JL [JS "t"; enc_cell tagged a; enc_cell tagged b] end.

Fixpoint lookup (n : string) (r : list (string * ocell)) : ocell :=
  match r with [] => OC CNone | (m, v) :: r' => if String.eqb n m then v else lookup n r' end.

(* untagged = the key column names of a join (no tag on their numbers) *)
Definition enc_table (untagged : list string) (t : otable) : J :=
  let cols := ssort (fst t) in
  JL [JS "ok"; JL (map JS cols);
      JL (jsort (map (fun r => JL (map (fun n => enc_ocell (negb (mem n untagged)) (lookup n r)) cols)) (snd t)))].

Definition enc_res (untagged : list string) (r : res otable) : J :=
  match r with Ok t => enc_table untagged t | Err e => JErr e end.

Definition key_cols (x y : ctable) (lc rc : spec) : list string :=
  let l1 := resolve_l x y lc in
  match key_names l1 (resolve_r l1 rc) with Some c => c | None => [] end.

Definition run_join (c : ctable * ctable * spec * spec * jmode) : J :=
  let '(x, y, lc, rc, m) := c in enc_res (key_cols x y lc rc) (join_fixed x y lc rc m).
Definition run_xor (c : ctable * ctable * spec * spec * bool) : J :=
  let '(x, y, lc, rc, r) := c in enc_res [] (xor_fixed x y lc rc r).
(* the pinned tree's behaviour (== for grouping and matching), for reference runs *)
Definition run_join_pinned (c : ctable * ctable * spec * spec * jmode) : J :=
  let '(x, y, lc, rc, m) := c in enc_res (key_cols x y lc rc) (join_pinned x y lc rc m).
Definition run_xor_pinned (c : ctable * ctable * spec * spec * bool) : J :=
  let '(x, y, lc, rc, r) := c in enc_res [] (xor_pinned x y lc rc r).
