(* runner for the C06 correspondence: table from columns, then inc / exc / inc.inc / find_<key> / one_or_none;
   the concrete model and the filter spec on records are both evaluated and must agree *)
From Coq Require Import ZArith List Bool String Ascii.
From PB Require Import lib.J model.M_table model.M_filter exec.X_table.
Import ListNotations.
Open Scope Z_scope.
Definition run_c06 (kvs : list (colname * cval)) (q : query) (fkey : colname) : J :=
  match c_new_cols kvs with
  | inr e => err_J e
  | inl c =>
    let a := [res_J dump_c (c_inc c q); res_J dump_c (c_exc c q); res_J dump_c (c_inc c q >>= fun i => c_inc i q);
              res_J cell_J (c_find c fkey q); res_J (JO record_J) (c_one_or_none c q)] in
    let r := abs c in
    let b := [res_J dump_r (r_inc r q); res_J dump_r (r_exc r q); res_J dump_r (r_inc r q >>= fun i => r_inc i q);
              res_J cell_J (r_find r fkey q); res_J (JO record_J) (r_one_or_none r q)] in
    if J_eqb (JL a) (JL b) then JL (a ++ [dump_c c])
    else JL [JS "SPEC<>MODEL"; JL a; JL b]
  end.
(* a SEQUENCE of inc/exc calls (one after the other in one process, on the same or on different tables): every call is judged on its own *)
Definition run_c06_step (kq : list (colname * cval) * query) : J :=
  match c_new_cols (fst kq) with
  | inr e => err_J e
  | inl c =>
    let a := [res_J dump_c (c_inc c (snd kq)); res_J dump_c (c_exc c (snd kq))] in
    let b := [res_J dump_r (r_inc (abs c) (snd kq)); res_J dump_r (r_exc (abs c) (snd kq))] in
    if J_eqb (JL a) (JL b) then JL a else JL [JS "SPEC<>MODEL"; JL a; JL b]
  end.
Definition run_c06_steps (steps : list (list (colname * cval) * query)) : J := JL (map run_c06_step steps).
