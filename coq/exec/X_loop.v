(* executable entry points used by the C19 correspondence harness *)
From Coq Require Import ZArith List Bool String Arith.
From PB Require Import lib.J model.M_loop.
Import ListNotations.

Fixpoint J_of (v : val) : J :=
  match v with
  | VLeaf z => JZ z
  | VList l => JL (JS "L" :: map J_of l)
  | VTuple l => JL (JS "T" :: map J_of l)
  | VDict c items => JL (JS "D" :: JZ c :: map (fun kv => JL [JZ (fst kv); J_of (snd kv)]) items)
  end.
(* the recording leaf function: lambda a, *args, **kw: (a, args, kw) *)
Definition record : leaf_fun := fun x pos kw => VTuple [x; VTuple pos; VDict 0 kw].
(* lambda a, b=None, c=None: (a, b, c) with parameter names b=0, c=1 *)
Definition bind2 : val -> kwargs -> val := fun x kw =>
  VTuple [x; match lookup_opt 0%Z kw with Some v => v | None => none_leaf end;
             match lookup_opt 1%Z kw with Some v => v | None => none_leaf end].
Definition run_loop (c : val * list val * kwargs) : J :=
  let '(arg, pos, kw) := c in J_of (wrapped record arg pos kw).
Definition run_loop_named (c : val * list val * kwargs) : J :=
  let '(arg, pos, kw) := c in J_of (wrapped (f_named bind2 [0%Z; 1%Z]) arg pos kw).
Definition run_loop_id (arg : val) : J := J_of (wrapped (fun x _ _ => x) arg [] []).
Definition run_zipper (vs : list val) : J :=
  match zipper vs with
  | None => JErr "ValueError"
  | Some rows => JL (map (fun r => JL (map J_of r)) rows)
  end.
Definition run_as (c : bool * val) : J :=
  let '(tup, v) := c in
  if tup then JL [J_of (as_tuple v); J_of (as_tuple (as_tuple v))]
  else JL [J_of (as_list v); J_of (as_list (as_list v))].
(* waiter: structure, result of each future, schedules (orders of completion); per schedule the
   final value and, for every strict prefix of the schedule, whether waiter had already returned *)
Fixpoint prefixes {A} (l : list A) : list (list A) :=
  match l with [] => [] | x :: l' => [] :: map (cons x) (prefixes l') end.
Definition run_waiter (c : wval * list val * list (list nat)) : J :=
  let '(w, results, scheds) := c in
  let res := fun i => nth i results (VLeaf 0) in
  JL (map (fun order =>
        JL [JO J_of (collect (run_schedule (map (fun i => (i, res i)) order)) w);
            JL (map (fun pre => JB (match collect (run_schedule (map (fun i => (i, res i)) pre)) w with Some _ => true | None => false end))
                    (prefixes order))]) scheds).
