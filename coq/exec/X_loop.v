(* executable entry points used by the C19 correspondence harness *)
From Coq Require Import ZArith List Bool String Arith.
From PB Require Import lib.J model.M_loop.
Import ListNotations.

Fixpoint J_of (v : val) : J :=
  match v with
  | VLeaf z => JZ z
  | VList l => JL (JS "L" :: map J_of l)
  | VTuple l => JL (JS "T" :: map J_of l)
  | VDict c items => JL (JS "D" :: JZ c :: map (fun kv => JL [JZ (fst kv); J_of (snd kv)]) items)
  end.
(* the recording leaf function: lambda a, *args, **kw: (a, args, kw) *)
Definition record : leaf_fun := fun x pos kw => VTuple [x; VTuple pos; VDict 0 kw].
(* lambda a, b=None, c=None: (a, b, c) with parameter names b=0, c=1 *)
Definition bind2 : val -> kwargs -> val := fun x kw =>
  VTuple [x; match lookup_opt 0%Z kw with Some v => v | None => none_leaf end;
             match lookup_opt 1%Z kw with Some v => v | None => none_leaf end].
Definition run_loop (c : val * list val * kwargs) : J :=
  let '(arg, pos, kw) := c in J_of (wrapped record arg pos kw).
Definition run_loop_named (c : val * list val * kwargs) : J :=
  let '(arg, pos, kw) := c in J_of (wrapped (f_named bind2 [0%Z; 1%Z]) arg pos kw).
Definition run_loop_id (arg : val) : J := J_of (wrapped (fun x _ _ => x) arg [] []).
(* zipper of the values, and lens applied to the raw values (a scalar has no length: 0) *)
Definition raw_items (v : val) : list val := match v with VList l => l | VTuple l => l | _ => [] end.
Definition run_zipper (vs : list val) : J :=
  JL [match zipper vs with
      | None => JErr "ValueError"
      | Some rows => JL (map (fun r => JL (map J_of r)) rows)
      end;
      match lens (map raw_items vs) with
      | None => JErr "ValueError"
      | Some n => JZ (Z.of_nat n)
      end].
(* as_list / as_tuple (value, none) applied once and twice; none=True keeps a None as [None] *)
Definition run_as (c : bool * bool * val) : J :=
  let '(tup, none, v) := c in
  let f := fun x => if none && is_none x then (if tup then VTuple [x] else VList [x]) else if tup then as_tuple x else as_list x in
  JL [J_of (f v); J_of (f (f v))].
(* waiter: structure, result of each future, schedules (orders of completion); per schedule the
   final value and, for every strict prefix of the schedule, whether waiter had already returned *)
Fixpoint prefixes {A} (l : list A) : list (list A) :=
  match l with [] => [] | x :: l' => [] :: map (cons x) (prefixes l') end.
Definition run_waiter (c : wval * list val * list (list nat)) : J :=
  let '(w, results, scheds) := c in
  let res := fun i => nth i results (VLeaf 0) in
  JL (map (fun order =>
        JL [JO J_of (collect (run_schedule (map (fun i => (i, res i)) order)) w);
            JL (map (fun pre => JB (match collect (run_schedule (map (fun i => (i, res i)) pre)) w with Some _ => true | None => false end))
                    (prefixes order))]) scheds).

(* chain schedules: the order of completion is forced by the awaitables themselves; observation = final value and that order *)
Definition run_waiter_chain (c : wval * list val * list (list nat)) : J :=
  let '(w, results, scheds) := c in
  let res := fun i => nth i results (VLeaf 0) in
  JL (map (fun order =>
        JL [JO J_of (collect (run_schedule (map (fun i => (i, res i)) order)) w);
            JL (map (fun i => JZ (Z.of_nat i)) order)]) scheds).

(* one awaitable raises: whatever the order, waiter raises that exception (nothing to collect) *)
Definition run_waiter_raise (c : list (list nat) * string) : J := JL (map (fun _ => JErr (snd c)) (fst c)).
