(* executable entry points used by the correspondence harness (C09, C10, C04) *)
From Coq Require Import ZArith List Bool String.
From PB Require Import lib.J model.M_cal model.M_dates.
From PB Require gen.Gen_dates.
Import ListNotations.
Open Scope Z_scope.
Definition run_dt_bump (c : Z * list (Z * unit_)) : J := JO JZ (dt_bump (fst c) (snd c)).
(* the same through the generated text *)
Definition gen_bump1 (t : Z) (tok : Z * unit_) : option Z :=
  let '(k, u) := tok in
  match u with
  | UD => Gen_dates.bump_d t k | UW => Gen_dates.bump_w t k | UM => Gen_dates.bump_m t k
  | UQ => Gen_dates.bump_q t k | UY => Gen_dates.bump_y t k | UH => Gen_dates.bump_h t k
  | UN => Gen_dates.bump_n t k | US => Gen_dates.bump_s t k | UB => Gen_dates.bump_b t k
  end.
Fixpoint gen_dt_bump (t : Z) (toks : list (Z * unit_)) : option Z :=
  match toks with
  | [] => Some t
  | tok :: rest => match gen_bump1 t tok with Some t' => gen_dt_bump t' rest | None => None end
  end.
Definition run_gen_dt_bump (c : Z * list (Z * unit_)) : J := JO JZ (gen_dt_bump (fst c) (snd c)).

(* ---- C04 ---- *)
From PB Require Import model.M_dtparse.
Definition run_dt (s : spelling) : J := JO JZ (dt_model s).
Definition run_dt_gen (s : spelling) : J :=
  match s with
  | SpTuple y m d => JO JZ (Gen_dates.u_ymd y m d)
  | SpNum n => JO JZ (Gen_dates.num2dt 0 n)
  | SpYM y m => match Gen_dates.ym y m with Some (y', m') => JO JZ (mk_datetime y' m' 1) | None => JNone end
  | _ => run_dt s
  end.
Definition run_calendar (n : Z) : J :=
  let '(y, m, d) := ymd_of_ord n in JL [JZ y; JZ m; JZ d; JZ (weekday_ord n); JZ (ord_of_ymd y m d)].
Definition run_ymd (t : Z) : J := JZ (ymd_model t).
Definition run_dt2str (t : Z) : J := JO JZ (dt_model (dt2str_model t)).

(* ---- C10 ---- *)
From PB Require Import model.M_drange.
Definition FUEL : nat := Z.to_nat 20000.
Definition run_drange (c : Z * Z * bump) : J :=
  let '(t0, t1, b) := c in
  match drange FUEL t0 t1 b with Ok l => JLZ l | Raise => JErr "ValueError" | OutOfFuel => JErr "OutOfFuel" end.

(* ---- C09 with the tokeniser inside the model: tenor strings are passed as strings ---- *)
From PB Require Import model.M_tenor.
Inductive bspec := BS (s : string) | BT (toks : list (Z * unit_)).
Definition toks_of (b : bspec) : option (list (Z * unit_)) := match b with BS s => tokenize s | BT toks => Some toks end.
Definition run_bspec (c : Z * bspec) : J :=
  match toks_of (snd c) with Some toks => run_dt_bump (fst c, toks) | None => JNone end.
Definition run_gen_bspec (c : Z * bspec) : J :=
  match toks_of (snd c) with Some toks => run_gen_dt_bump (fst c, toks) | None => JNone end.
