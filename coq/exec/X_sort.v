(* executable entry points used by the correspondence harness (C07; reused by C11) *)
From Coq Require Import ZArith List Bool String Ascii.
From PB Require Import lib.J model.M_sort.
Import ListNotations.
Open Scope Z_scope.

(* ASCII strings <-> code points *)
Fixpoint SN (s : string) : list N :=
  match s with EmptyString => [] | String a s' => N_of_ascii a :: SN s' end.
Definition S_ (s : string) : val := VStr (SN s).
Fixpoint NS (l : list N) : string :=
  match l with [] => EmptyString | n :: l' => String (ascii_of_N n) (NS l') end.

(* canonical rendering of a value, the same as harness/props/c07.py: canon() *)
Fixpoint JV (v : val) : J :=
  match v with
  | VNone => JNone
  | VBool b => JL [JS "b"; JB b]
  | VNum false t => JL [JS "i"; JZ (t / 2)]
  | VNum true t => JL [JS "f"; JZ t]
  | VNaN i => JL [JS "nan"; JZ (Z.of_N i)]
  | VInf neg => JL [JS "inf"; JB neg]
  | VStr s => JL [JS "s"; JS (NS s)]
  | VDate u => JL [JS "d"; JZ u]
  | VTuple l => JL [JS "t"; JL (map JV l)]
  | VList l => JL [JS "l"; JL (map JV l)]
  | VDict items => JL [JS "m"; JL (map (fun kv => let '(k, x) := kv in JL [JV k; JV x]) items)]
  end.
Definition JT (t : table) : J := JL (map (fun cv => JL [JS (NS (fst cv)); JL (map JV (snd cv))]) t).

Definition run_cmp_row (c : val * list val) : J := JL (map (fun y => JZ (cmp (fst c) y)) (snd c)).
(* all nine comparisons among x, y, z *)
Definition run_cmp3 (l : list val) : J := JL (map (fun x => JL (map (fun y => JZ (cmp x y)) l)) l).
(* sort(xs) and sorted(xs, key = Cmp) *)
Definition run_sort (l : list val) : J := JL [JL (map JV (sort l)); JL (map JV (sort l))].

Inductive sortspec := SBy (by_ : list keyspec) | SByVal (bv : list (colname * list val)).
Definition dsort_spec (s : sortspec) (t : table) : table :=
  match s with SBy b => dsort_by b t | SByVal bv => dsort_byval bv t end.
(* d.sort(spec) and d.sort(spec).sort(spec) *)
Definition run_dsort (c : table * sortspec) : J :=
  let r := dsort_spec (snd c) (fst c) in JL [JT r; JT (dsort_spec (snd c) r)].
Definition C_ (s : string) : colname := SN s.
