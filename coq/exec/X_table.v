(* runners for the C01 correspondence: a history is run on the concrete model (dict of lists) and on the
   list-of-records spec; after every op the output and a dump of all registers are rendered as J.
   Columns are sorted by name in every rendering (dict key order is not an observation). *)
From Coq Require Import ZArith List Bool String Ascii.
From PB Require Import lib.J model.M_table.
Import ListNotations.
Open Scope Z_scope.

Definition cell_J (c : cell) : J :=
  match c with
  | CNone => JNone
  | CNum false t => JZ (t / 2)
  | CNum true t => JL [JS "f"; JZ t]
  | CNaN i => JL [JS "nan"; JZ (Z.of_N i)]
  | CStr s => JL [JS "s"; JS s]
  | CDate us => JL [JS "d"; JZ us]
  | CInf n => JL [JS "inf"; JZ (if n then -1 else 1)]
  end.
Fixpoint insert_k {V} (kv : string * V) (l : list (string * V)) : list (string * V) :=
  match l with
  | [] => [kv]
  | kv' :: l' => if String.leb (fst kv) (fst kv') then kv :: l else kv' :: insert_k kv l'
  end.
Definition sort_k {V} (l : list (string * V)) : list (string * V) := fold_right insert_k [] l.
Definition record_J (r : record) : J := JL (map (fun kv => JL [JS (fst kv); cell_J (snd kv)]) (sort_k r)).
Definition cells_J (l : list cell) : J := JL (map cell_J l).
Definition err_J (e : err) : J :=
  JErr (match e with EValue => "ValueError" | EKey => "KeyError" | EIndex => "IndexError" | EType => "TypeError" end).
Definition res_J {A} (f : A -> J) (x : res A) : J := match x with inl a => f a | inr e => err_J e end.
Definition out_J (o : out) : J :=
  match o with
  | OutOk => JS "ok"
  | OutErr e => err_J e
  | OutRec r => record_J r
  | OutCells l => cells_J l
  | OutRecs l => JL (map record_J l)
  | OutTuples l => JL (map cells_J l)
  | OutCell2 a b => JL [res_J cell_J a; res_J cell_J b]
  end.
Definition Zlen {A} (l : list A) : Z := Z.of_nat (List.length l).
(* dict(d), len(d), d.shape, list(d) *)
Definition dump_c (c : ctable) : J :=
  JL [JL (map (fun kv => JL [JS (fst kv); cells_J (snd kv)]) (sort_k c));
      JZ (Z.of_nat (tlen c)); JL [JZ (Z.of_nat (tlen c)); JZ (Zlen c)];
      JL (map record_J (c_iter c))].
Definition dump_r (r : rtable) : J :=
  JL [JL (map (fun kv => JL [JS (fst kv); cells_J (map (get_or_none (fst kv)) (recs r))]) (sort_k (map (fun k => (k, tt)) (cols r))));
      JZ (Zlen (recs r)); JL [JZ (Zlen (recs r)); JZ (Zlen (cols r))];
      JL (map record_J (recs r))].
(* which registers name the same object: for i < j *)
Fixpoint pairs_is (l : list nat) : list J :=
  match l with
  | [] => []
  | p :: l' => map (fun q => JB (Nat.eqb p q)) l' ++ pairs_is l'
  end.
Definition dump_state {T} (O : TOps T) (d : T -> J) (s : gstate T) : J :=
  JL [JL (map (fun r => d (rd O s r)) (seq 0 (List.length (regs s)))); JL (pairs_is (regs s))].
Fixpoint trace {T} (O : TOps T) (d : T -> J) (s : gstate T) (ops : list op) : list J :=
  match ops with
  | [] => []
  | o :: ops' => let '(s', x) := step O s o in JL [out_J x; dump_state O d s'] :: trace O d s' ops'
  end.
Definition NREGS : nat := 3.
Definition run_c01 (ops : list op) : J :=
  let a := JL (trace cops dump_c (init_state cops NREGS) ops) in
  let b := JL (trace rops dump_r (init_state rops NREGS) ops) in
  if J_eqb a b then a else JL [JS "SPEC<>MODEL"; a; b].
