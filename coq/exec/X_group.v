(* executable entry points used by the C11 correspondence *)
From Coq Require Import ZArith List Bool String.
From PB Require Import lib.J model.M_sort model.M_group exec.X_sort.
Import ListNotations.
Open Scope Z_scope.

(* tables are observed with their columns in name order (dict_concat orders columns by name or by hash) *)
Definition name_le (a b : colname * list val) : bool := match cmp_str (fst a) (fst b) with Gt => false | _ => true end.
Definition JTs (t : table) : J := JT (isort name_le t).

(* listby(by) and its unlist() *)
Definition run_listby (c : table * list colname) : J :=
  let l := listby (snd c) (fst c) in JL [JTs l; JTs (unlist l)].
(* groupby(by): key table, sub-tables, and ungroup() *)
Definition run_groupby (c : table * list colname) : J :=
  match groupby (snd c) (fst c) with
  | None => JErr "ValueError"
  | Some (kt, subs) => JL [JTs kt; JL (map JTs subs); JTs (match nrows (fst c) with O => fst c | _ => ungroup kt subs end)]
  end.
(* xyz(x, y, z, agg) and its unpivot(x, y, z) *)
Definition run_pivot (c : table * (list colname * colname * colname * agg)) : J :=
  let '(t, (x, y, z, a)) := c in
  let p := pivot x y z a t in JL [JTs p; JTs (unpivot x y z p)].
(* xyz only (float y values: the label column of unpivot would hold the float itself) *)
Definition run_pivot_only (c : table * (list colname * colname * colname * agg)) : J :=
  let '(t, (x, y, z, a)) := c in JL [JTs (pivot x y z a t)].
(* xyz and unpivot(x, {y: ycols}, z): only the listed label columns, in the listed order *)
Definition run_pivot_sub (c : table * (list colname * colname * colname * agg) * list colname) : J :=
  let '(t, (x, y, z, a), ys) := c in
  let p := pivot x y z a t in
  JL [JTs p; JTs (unpivot x y z (map (fun c => (c, getcol p c)) (x ++ ys)))].
