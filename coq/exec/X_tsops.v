(* executable entry points used by the correspondence harness (C08) *)
From Coq Require Import ZArith List Bool String.
From PB Require Import lib.J model.M_align model.M_tsops exec.X_align.
Import ListNotations.
Open Scope Z_scope.
Open Scope string_scope.

(* the column name of a single-column result (a pseudo-series) is not part of the claim: observed as 0 *)
Definition Jres (o : obj) : J :=
  match o with
  | OF [c] r => Jobj (OF [0] r)
  | _ => Jobj o
  end.
Definition JoutO (r : option obj) : J := match r with Some o => Jres o | None => JErr "domain" end.
Definition run_op (c : opname * how * method * how * operand * operand) : J :=
  let '(o, h, m, ch, a, b) := c in JoutO (ts_op o h m ch a b).
Definition run_minmax (c : opname * how * method * how * list obj) : J :=
  let '(o, h, m, ch, xs) := c in JoutO (minmax (cell_op o) h m ch xs).
Definition run_agg (c : agg * how * method * how * list obj) : J :=
  let '(g, h, m, ch, xs) := c in Jres (df_agg g h m ch xs).
(* the pinned behaviour of div_ with a scalar zero divisor, for the record *)
Definition run_div_pinned (c : how * method * how * obj * obj) : J :=
  let '(h, m, ch, a, b) := c in Jres (div_pinned h m ch a b).
