(* executable entry points used by the C15 correspondence (repaired behaviour: cow = true) *)
From Coq Require Import ZArith NArith List Bool String.
From PB Require Import lib.J model.M_eq model.M_tree.
Import ListNotations.
Open Scope Z_scope.
Open Scope string_scope.

Fixpoint J_val (v : val) : J :=
  match v with
  | VNone => JNone
  | VNaN _ => JNaN
  | VNum _ t => JZ (t / 2)
  | VBool b => JB b
  | VStr s => JL [JS "s"; JS s]
  | VList l => JL [JS "l"; JL (map J_val l)]
  | VTuple l => JL [JS "t"; JL (map J_val l)]
  | _ => JS "?"
  end.
Fixpoint J_tree (t : tree) : J :=
  match t with
  | Leaf v => JL [JS "L"; J_val v]
  | Node _ c kids => JL [JS "N"; JZ (Z.of_N c); JL (map (fun kv => JL [JS (fst kv); J_tree (snd kv)]) kids)]
  end.
Definition J_path (p : list string) : J := JL (map JS p).
Definition J_res (r : option (tree * bool)) : J :=
  match r with Some (t, _) => J_tree t | None => JErr "ValueError" end.
Definition J_row (r : row) : J := JL (map (fun kv => JL [JS (fst kv); J_val (snd kv)]) (sort_items r)).

(* tree_items, tree_keys, tree_values, tree_getitem on every key, items_to_tree(tree_items(t)) *)
Definition run_flat (t : tree) : J :=
  JL [JL (map (fun it => JL [J_path (fst it); J_val (snd it)]) (tree_items t));
      JL (map J_path (tree_keys t));
      JL (map J_val (tree_values t));
      JL (map (fun p => match tree_getitem t p with Some s => J_tree s | None => JErr "KeyError" end) (tree_keys t));
      J_res (items_to_tree true (tree_items t) None [])].

(* tree_update(t, u, ignore) / t + u: result, t unchanged, u unchanged *)
Definition run_update (c : tree * tree * list val) : J :=
  let '(t, u, ign) := c in
  match tree_update true (disown t) u ign with
  | Some (r, touched) => JL [J_tree r; JB (negb touched); JB true]
  | None => JErr "ValueError"
  end.

(* table_to_tree(t0, pattern, rows): result, tree_to_table(result, pattern), t0 unchanged,
   table_to_tree(None, pattern, tree_to_table(result, pattern)) *)
Definition run_table (c : option tree * list seg * list row) : J :=
  let '(t0, pat, rows) := c in
  match table_to_tree true (option_map disown t0) pat rows with
  | Some (r, touched) =>
      let back := tree_to_table r pat in
      JL [J_tree r; JL (map J_row back); JB (negb touched); J_res (table_to_tree true None pat back)]
  | None => JErr "Error"
  end.

(* tree_setitem(t, path, v, ignore): in place (no copy), new branches of the class of t *)
Definition run_setitem (c : tree * list string * val * list val) : J :=
  let '(t, p, v, ign) := c in J_tree (fst (setitem false (cls_of t) ign p v t)).
