(* executable entry points used by the C13 correspondence *)
From Coq Require Import ZArith String List Bool Arith.
From PB Require Import lib.J model.M_slice.
Import ListNotations.
Open Scope Z_scope.

Definition JCell (c : option Z) : J := match c with Some z => JZ z | None => JNaN end.
(* [kind; timestamps; values row by row] *)
Definition JFrame (kind : string) (f : frame) : J :=
  JL [JS kind; JL (map (fun r => JZ (fst r)) f); JL (map (fun r => JL (map JCell (snd r))) f)].

(* df_slice(one Series / DataFrame, lb, ub, openclose): the bracket string is only parsed when the
   object is non-empty and a bound is given *)
Definition run_slice (c : Z * string * bound * bound * frame * string) : J :=
  let '(day, ocs, lb, ub, rows, kind) := c in
  match rows, is_none lb && is_none ub with
  | [], _ => JFrame kind rows
  | _, true => JFrame kind rows
  | _, false =>
      match parse_oc ocs with
      | None => JErr "ValueError"
      | Some oc => JFrame kind (df_slice_one day oc lb ub rows)
      end
  end.

Definition kind_of (n : nat) : string := if (1 <? n)%nat then "D" else "S".
Definition run_stitch (c : Z * string * nat * list ts * bounds_arg) : J :=
  let '(day, ocs, n, ss, b) := c in
  match ss, parse_oc ocs with
  | [], _ => JNone
  | _, None => JErr "ValueError"
  | _, Some oc => match stitch day oc n ss b with Some f => JFrame (kind_of n) f | None => JErr "ValueError" end
  end.

(* F = df_slice(ss, ub = ubs, n = n); R = df_unslice(F, ubs); F2 = df_slice(list(R.values()), ub = ubs, n = n) *)
Definition run_unslice (c : Z * nat * list ts * list Z) : J :=
  let '(day, n, ss, ubs) := c in
  match stitch day (false, true) n ss (UbList ubs) with
  | None => JErr "ValueError"
  | Some f =>
      let w := if (1 <? n)%nat then Nat.min n (List.length ss) else 1%nat in
      let r := unslice day w f ubs in
      let f2 := match stitch day (false, true) n (map snd r) (UbList (map fst r)) with Some x => x | None => [] end in
      JL [JFrame (kind_of n) f;
          JL (map (fun p => JL [JZ (fst p); JL (map (fun q => JL [JZ (fst q); JCell (snd q)]) (snd p))]) r);
          JFrame (kind_of n) f2]
  end.
