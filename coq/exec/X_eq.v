(* executable entry points used by the C14 correspondence *)
From Coq Require Import ZArith NArith List Bool String.
From PB Require Import lib.J model.M_eq.
Import ListNotations.
Open Scope Z_scope.

(* eq(x, y) and eq(y, x) *)
Definition run_eq_pair (c : val * val) : J :=
  JL [JB (eq_model (fst c) (snd c)); JB (eq_model (snd c) (fst c))].
(* eq(x, y), eq(y, z), eq(x, z) *)
Definition run_eq_triple (c : val * val * val) : J :=
  let '(x, y, z) := c in JL [JB (eq_model x y); JB (eq_model y z); JB (eq_model x z)].
(* in_(x, seq) *)
Definition run_in (c : val * list val) : J := JB (in_model (fst c) (snd c)).
