(* executable entry points used by the C14 correspondence *)
From Coq Require Import ZArith NArith List Bool String.
From PB Require Import lib.J model.M_eq.
Import ListNotations.
Open Scope Z_scope.

(* eq(x, y) and eq(y, x) *)
Definition run_eq_pair (c : val * val) : J :=
  JL [JB (eq_model (fst c) (snd c)); JB (eq_model (snd c) (fst c))].
(* eq(x, y), eq(y, z), eq(x, z) *)
Definition run_eq_triple (c : val * val * val) : J :=
  let '(x, y, z) := c in JL [JB (eq_model x y); JB (eq_model y z); JB (eq_model x z)].
(* in_(x, seq) *)
Definition run_in (c : val * list val) : J := JB (in_model (fst c) (snd c)).
(* veq(x, y) on two arrays of the same shape: the cell-wise results *)
Fixpoint map2b (f : val -> val -> bool) (a b : list val) : list J :=
  match a, b with x :: a', y :: b' => JB (f x y) :: map2b f a' b' | _, _ => [] end.
Definition run_veq (c : list val * list val) : J := JL (map2b eq_model (fst c) (snd c)).
(* a sequence of states of two (mutable) objects: eq(x, y) and eq(y, x) on the CURRENT values of every state *)
Definition run_eq_seq (c : list (val * val)) : J := JL (map run_eq_pair c).
