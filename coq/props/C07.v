(* C07 — cmp is a total preorder over mixed types; sort / dictable.sort follow it stably.
   Property theorems only; each is closed by a lemma of proofs/P_sort.v.  `val` is the whole mixed-type universe
   (None, bools, ints/floats as exact half-integers, NaN objects with identity, +-inf, strings, datetimes and
   arbitrarily nested tuples / lists / dicts of them (dict keys of any, also mixed, types)); every statement is for ALL values / lists / tables. *)
From Coq Require Import ZArith List Bool Lia Permutation Sorted.
From PB Require Import model.M_sort proofs.P_sort.
Import ListNotations.
Open Scope Z_scope.

(* cmp never errors (it is a total Gallina function on val) and returns -1, 0 or 1; any two values are comparable *)
Theorem C07_cmp_range x y : (cmp x y = -1 \/ cmp x y = 0 \/ cmp x y = 1) /\ (cmp x y <= 0 \/ cmp y x <= 0).
Proof. split; [exact (cmp_range x y) | exact (cmp_total x y)]. Qed.
Print Assumptions C07_cmp_range.

Theorem C07_cmp_refl x : cmp x x = 0.
Proof. exact (cmp_refl x). Qed.
Print Assumptions C07_cmp_refl.

Theorem C07_cmp_antisym x y : cmp x y = - cmp y x.
Proof. exact (cmp_antisym x y). Qed.
Print Assumptions C07_cmp_antisym.

(* transitive, in every combination of <, = and <= ; cmp = 0 is a congruence for cmp on both sides *)
Theorem C07_cmp_trans x y z :
  (cmp x y <= 0 -> cmp y z <= 0 -> cmp x z <= 0) /\
  (cmp x y < 0 -> cmp y z <= 0 -> cmp x z < 0) /\ (cmp x y <= 0 -> cmp y z < 0 -> cmp x z < 0) /\
  (cmp x y = 0 -> cmp x z = cmp y z) /\ (cmp y z = 0 -> cmp x z = cmp x y).
Proof.
  repeat split; [exact (cmp_trans x y z) | exact (cmp_lt_le_trans x y z) | exact (cmp_le_lt_trans x y z)
                | exact (cmp_eq_compat_l x y z) | exact (cmp_eq_compat_r x y z)].
Qed.
Print Assumptions C07_cmp_trans.

(* numerically equal ints and floats compare 0; in general numbers compare by value whatever their type *)
Theorem C07_cmp_int_float f g t a b : cmp (VNum f t) (VNum g t) = 0 /\ cmp (VNum f a) (VNum g b) = c2z (Z.compare a b).
Proof. split; [exact (cmp_int_float f g t) | exact (cmp_num f g a b)]. Qed.
Print Assumptions C07_cmp_int_float.

(* NaN ranks above every number, +inf included (and above -inf); two NaN objects compare 0 whatever their identity;
   the infinities compare by value: -inf < every finite number < +inf, and only an infinity of the same sign compares 0 with it *)
Theorem C07_nan_above_finite i j f t b :
  cmp (VNaN i) (VNum f t) = 1 /\ cmp (VNum f t) (VNaN i) = -1 /\ cmp (VNaN i) (VNaN j) = 0 /\
  cmp (VNaN i) (VInf b) = 1 /\ cmp (VInf b) (VNaN i) = -1 /\
  cmp (VInf true) (VNum f t) = -1 /\ cmp (VNum f t) (VInf false) = -1 /\ cmp (VInf true) (VInf false) = -1 /\
  cmp (VInf false) (VInf false) = 0 /\ cmp (VInf true) (VInf true) = 0.
Proof.
  destruct (cmp_nan_above_finite i f t) as [A B]. destruct (cmp_nan_above_inf i b) as [C D]. destruct (cmp_inf_order f t) as [E [F [G [H I]]]].
  repeat split; auto using cmp_nan_nan.
Qed.
Print Assumptions C07_nan_above_finite.

(* sort returns a permutation of xs that is non-decreasing under cmp (between ANY two positions, not only adjacent ones) *)
Theorem C07_sort_perm_sorted l : Permutation (sort l) l /\ StronglySorted (fun a b => cmp a b <= 0) (sort l).
Proof. exact (sort_perm_sorted l). Qed.
Print Assumptions C07_sort_perm_sorted.

(* the pinned sort takes python's native order whenever sorted() raises no TypeError; with a NaN in the list that order
   is not a sorted order under cmp: [nan, 0] is returned as is although cmp(nan, 0) = 1 *)
Theorem C07_sort_pinned_refuted : ~ Sorted (fun a b => cmp a b <= 0) [VNaN 0; VNum false 0] /\ sort [VNaN 0; VNum false 0] = [VNum false 0; VNaN 0].
Proof. split; [|reflexivity]. intros H. inversion H; subst. inversion H3; subst. vm_compute in H1. apply H1. reflexivity. Qed.
Print Assumptions C07_sort_pinned_refuted.

(* dictable.sort is a stable permutation of the rows ordered by the key: the rows come out at indices idx, a permutation
   of 0..n-1 strictly increasing in (key under cmp, original position) - ties keep their original order.
   kf is ANY function of the row (key columns, a key function, value ranks). *)
Theorem C07_dsort_stable (kf : arow -> val) t :
  exists idx, Permutation idx (seq 0 (nrows t)) /\ StronglySorted (key_lt (map kf (rows t))) idx /\
              rows (dsort_with kf t) = map (row t) idx /\ (nrows t <> 0%nat -> dsort_with kf t = permute t idx).
Proof. exact (dsort_with_stable kf t). Qed.
Print Assumptions C07_dsort_stable.

Theorem C07_dsort_idempotent (kf : arow -> val) n t : rect n t -> dsort_with kf (dsort_with kf t) = dsort_with kf t.
Proof. exact (dsort_with_idempotent kf n t). Qed.
Print Assumptions C07_dsort_idempotent.

(* explicit value orders: listed (pairwise different) values rank by their position in the given list, every unlisted
   value gets the common last rank, and down the sorted table the rank never decreases, equal ranks in original order *)
Theorem C07_dsort_value_order c vals t : distinct_vals vals ->
  (forall p, (p < length vals)%nat -> vrank vals (nth p vals VNone) = Z.of_nat p) /\
  (forall x, existsb (elem_eqb x) vals = false -> vrank vals x = Z.of_nat (length vals)) /\
  exists idx, Permutation idx (seq 0 (nrows t)) /\ rows (dsort_byval [(c, vals)] t) = map (row t) idx /\
    StronglySorted (fun i j => let ri := vrank vals (lookup (row t i) c) in let rj := vrank vals (lookup (row t j) c) in
                               ri < rj \/ (ri = rj /\ (i < j)%nat)) idx.
Proof.
  intros D. split; [intros p Hp; exact (vrank_listed vals p D Hp)|]. split; [intros x Hx; exact (vrank_unlisted vals x D Hx)|].
  exact (dsort_byval1_order c vals t).
Qed.
Print Assumptions C07_dsort_value_order.

(* the hypotheses are satisfiable on non-trivial values, and the statements are not vacuous *)
Example C07_example :
  let t : table := [([97%N], [VNum false 4; VNaN 1; VNum true 4; VNone; VStr [98%N]]); ([98%N], [VNum false 0; VNum false 2; VNum false 4; VNum false 6; VNum false 8])] in
  rect 5 t /\ distinct_vals [VStr [98%N]; VNum false 4] /\
  dsort_by [KCol [97%N]] t = [([97%N], [VNone; VNum false 4; VNum true 4; VNaN 1; VStr [98%N]]); ([98%N], [VNum false 6; VNum false 0; VNum false 4; VNum false 2; VNum false 8])] /\
  dsort_byval [([97%N], [VStr [98%N]; VNum false 4])] t = [([97%N], [VStr [98%N]; VNum false 4; VNum true 4; VNaN 1; VNone]); ([98%N], [VNum false 8; VNum false 0; VNum false 4; VNum false 2; VNum false 6])] /\
  cmp (VDict [(VStr [98%N], VNum false 4); (VNum false 2, VList [VNaN 0]); (VNone, VNone)]) (VDict [(VNone, VNone); (VNum true 2, VList [VNaN 7]); (VStr [98%N], VNum true 4)]) = 0.
Proof.
  cbv zeta. split; [repeat constructor|]. split; [|vm_compute; auto].
  split; [repeat constructor|]. intros i j Hi Hj. cbn in Hi, Hj.
  destruct i as [|[|i]]; destruct j as [|[|j]]; cbn; try lia; discriminate.
Qed.
