(* C01 - a dictable behaves as a rectangular list of records under any history of public table operations.
   cops = the dict-of-lists model of pyg_base.dictable (model/M_table.v), rops = the plain list-of-records spec,
   run = fold_left of step over an arbitrary op list; registers hold references (d + None, d + 0, concat(d) return d itself). *)
From Coq Require Import ZArith List Bool String Lia.
From PB Require Import model.M_table proofs.P_table.
Import ListNotations.
Open Scope string_scope.

(* every column has the same length and names are distinct, after ANY history, including rejected ops *)
Theorem C01_inv (ops : list op) (n : nat) : Forall Rect (heap (fst (run cops (init_state cops n) ops))).
Proof. exact (run_inv ops _ (init_inv n)). Qed.
Print Assumptions C01_inv.
Theorem C01_inv_step (s : gstate ctable) (o : op) : Forall Rect (heap s) -> Forall Rect (heap (fst (step cops s o))).
Proof. exact (step_inv s o). Qed.
Print Assumptions C01_inv_step.

(* the same history on the list-of-records spec gives the abstraction of the final state and the same outputs *)
Theorem C01_refines (ops : list op) (n : nat) :
  run rops (init_state rops n) ops = (abs_state (fst (run cops (init_state cops n) ops)), snd (run cops (init_state cops n) ops)).
Proof. rewrite <- init_abs. exact (run_refines ops _ (init_inv n)). Qed.
Print Assumptions C01_refines.
Theorem C01_refines_step (s : gstate ctable) (o : op) : Forall Rect (heap s) ->
  step rops (abs_state s) o = (abs_state (fst (step cops s o)), snd (step cops s o)).
Proof. exact (step_ref s o). Qed.
Print Assumptions C01_refines_step.

(* len() and shape agree with the records; every column has len() cells *)
Theorem C01_len_shape (c : ctable) : Rect c ->
  tlen c = List.length (recs (abs c)) /\ List.length c = List.length (cols (abs c)) /\ Forall (fun kv => List.length (snd kv) = tlen c) c.
Proof. exact (len_shape c). Qed.
Print Assumptions C01_len_shape.

(* d[i][key] == d[key][i] *)
Theorem C01_cell_commutes (c : ctable) (i : Z) (key : colname) (rc : record) (col : list cell) :
  Rect c -> c_getrow c i = Ok rc -> c_getcol c key = Ok col -> exists x, aget key rc = Some x /\ py_nth col i = Ok x.
Proof. exact (cell_commutes c i key rc col). Qed.
Print Assumptions C01_cell_commutes.

(* iteration yields exactly the rows *)
Theorem C01_iter_rows (c : ctable) : Rect c ->
  List.length (c_iter c) = tlen c /\ forall i, i < tlen c -> nth i (c_iter c) [] = rec_at i c.
Proof. exact (iter_rows c). Qed.
Print Assumptions C01_iter_rows.

(* concatenation appends the rows in order and fills absent columns with None (n-ary: ref_concat via C01_refines) *)
Theorem C01_concat_appends_with_None (a b : ctable) : Rect a -> Rect b ->
  let U := union_keys [a; b] in
  rmap abs (c_concat [a; b]) = Ok (mkR U (map (rekey U) (c_iter a) ++ map (rekey U) (c_iter b))%list).
Proof. exact (concat2_appends a b). Qed.
Print Assumptions C01_concat_appends_with_None.

(* ops that return a table never alter an existing table: the heap only grows *)
Theorem C01_operands_unchanged (s : gstate ctable) (o : op) : in_place o = false -> exists ext, heap (fst (step cops s o)) = (heap s ++ ext)%list.
Proof. exact (operands_unchanged s o). Qed.
Print Assumptions C01_operands_unchanged.

(* a misfit assignment is rejected with ValueError and nothing changes *)
Theorem C01_misfit_rejected (s : gstate ctable) (r : nat) (key : colname) (v : cval) :
  Forall Rect (heap s) -> rd cops s r <> [] ->
  List.length (value_list v) <> nrows (rd cops s r) -> List.length (value_list v) <> 1 ->
  step cops s (OSet r key v) = (s, OutErr EValue).
Proof. exact (misfit_state_unchanged s r key v). Qed.
Print Assumptions C01_misfit_rejected.

(* non-vacuity: a history mixing constructors, a mask to empty, aliasing and a rejected assignment *)
Example C01_example :
  let ops := [ONewCols 0 [("a", VL [CNum false 2; CNone]); ("b", VS (CStr "x"))]; OMask 1 0 [false; false];
              OAdd 2 0 AddNone; OSet 2 "c" (VL [CNone; CNone; CNone]); OSet 2 "c" (VS (CNum true 3)); OConcat 1 [0; 1]] in
  let s := fst (run cops (init_state cops 3) ops) in
  forallb rectb (heap s) = true /\ snd (run cops (init_state cops 3) ops) = [OutOk; OutOk; OutOk; OutErr EValue; OutOk; OutOk] /\
  nth 0 (regs s) 9 = nth 2 (regs s) 9 /\ keys (rd cops s 0) = ["a"; "b"; "c"] /\ keys (rd cops s 1) = ["c"; "a"; "b"] /\ tlen (rd cops s 1) = 2.
Proof. vm_compute. repeat split; reflexivity. Qed.
