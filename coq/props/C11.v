(* C11 — listby/unlist, groupby/ungroup, pivot/unpivot are lossless regroupings.
   Property theorems only; each is closed by lemmas of proofs/P_group.v (which builds on the C07 development).
   ks = keys_of by t is the list of the rows' key tuples; listby_groups ks is the model of dictable._listby: the (key, row indices)
   groups that listby / groupby / xyz turn into rows, sub-tables and pivot cells.  Every statement is for ALL tables / key choices.
   eq_cmp_compat ks (python's == on the keys present coincides with cmp = 0) is the precondition under which "distinct key" has
   one meaning; C11_scalar_keys_compat: it holds for NaN-free scalar keys (also when the NaN cells of a key column are one object).
   A group is filed under the LAST key of its run, so listby / groupby return 1.0 for the rows keyed 1 and 1.0: the general
   statements relate key cells by cmp = 0 (python ==); under keys_exact (== keys are identical) they are literal equalities of rows. *)
From Coq Require Import ZArith List Bool Lia Permutation Sorted.
From PB Require Import model.M_sort model.M_group proofs.P_sort proofs.P_group.
Import ListNotations.
Open Scope Z_scope.

(* exactly one group per distinct key: the groups' keys are strictly increasing under cmp (so pairwise different), no group is
   empty, and a group holds EXACTLY the rows whose key compares 0 with the group's key, in original row order *)
Theorem C11_listby_one_row_per_key ks : eq_cmp_compat ks ->
  StronglySorted (fun a b => cmp a b < 0) (map fst (listby_groups ks)) /\
  Forall (fun g => snd g <> [] /\ snd g = filter (fun i => cmp (nth i ks VNone) (fst g) =? 0) (seq 0 (length ks)) /\
                   StronglySorted (fun i j => (i < j)%nat) (snd g)) (listby_groups ks).
Proof.
  intros H. destruct (listby_groups_one_per_key ks H) as [A B]. split; [exact A|].
  pose proof (listby_groups_original_order ks H) as C. rewrite Forall_forall in *. intros g Hg.
  destruct (B g Hg) as [B1 _]. split; [exact B1|]. split; [exact (listby_group_ids ks g H Hg) | exact (C g Hg)].
Qed.
Print Assumptions C11_listby_one_row_per_key.

(* the precondition holds for every table whose key cells are NaN-free scalars (None, ints, floats, strings, datetimes) *)
Theorem C11_scalar_keys_compat ks : Forall (fun k => exists l, k = VTuple l /\ Forall scalar_nf l) ks -> eq_cmp_compat ks.
Proof. exact (scalar_keys_compat ks). Qed.
Print Assumptions C11_scalar_keys_compat.

(* since /repo 9228ab2 _listby tests runs with cmp(key, prev) == 0 (so does the model): the precondition holds for EVERY key list,
   NaN objects of different identity included; it is kept in the statements so that they also read for an == based grouping *)
Theorem C11_keys_compat_always ks : eq_cmp_compat ks.
Proof. exact (eq_cmp_compat_always ks). Qed.
Print Assumptions C11_keys_compat_always.

(* unlist(listby(keys)) = the original table stably sorted by the keys, at table level.
   S = dictable.sort(keys) of t (C07_dsort_stable: rows at idx, the stable order).  The result has the key columns first, rebuilt
   from one key tuple per row (reps) that compares 0 with that row's own key, then exactly the other columns of S.
   If == keys are identical (keys_exact) the result IS S with its key columns moved first: its rows are map (row T) idx. *)
Theorem C11_unlist_listby by_ t : by_ <> [] -> nrows t <> 0%nat -> nonkey by_ t <> [] -> scalar_table t ->
  let ks := keys_of by_ t in let idx := dsort_idx ks in let S := dsort_with (key_cols by_) t in
  eq_cmp_compat ks ->
  exists reps, length reps = nrows t /\ Forall2 (fun i rep => cmp (nth i ks VNone) rep = 0) idx reps /\
    unlist (listby by_ t) = rep_table by_ reps ++ nonkey by_ S /\ S = permute t idx /\
    Permutation idx (seq 0 (nrows t)) /\ StronglySorted (key_lt ks) idx /\
    (keys_exact ks -> Forall (fun c => in_names c (map fst t) = true) by_ ->
       unlist (listby by_ t) = permute (keypart by_ t ++ nonkey by_ t) idx /\
       rows (unlist (listby by_ t)) = map (row (keypart by_ t ++ nonkey by_ t)) idx).
Proof.
  intros Hby Hn Hnk Hs ks idx S Hc. exists (reps_of (listby_groups ks)).
  assert (ES : S = permute t idx). { unfold S, dsort_with. destruct (nrows t); [congruence | reflexivity]. }
  assert (LK : length ks = nrows t) by (unfold ks, keys_of; apply keys_length).
  split; [rewrite reps_length; exact LK|]. split; [exact (reps_match ks Hc)|].
  split; [rewrite ES; exact (unlist_listby_table by_ t Hby Hn Hnk Hs)|]. split; [exact ES|].
  destruct (dsort_idx_stable ks) as [P St]. rewrite LK in P. split; [exact P|]. split; [exact St|].
  intros Hx Hsub. exact (unlist_listby_exact by_ t Hby Hn Hnk Hsub Hc Hx Hs).
Qed.
Print Assumptions C11_unlist_listby.

(* groupby: the sub-tables' sizes add up to len(d), one sub-table per key row; hypothesis = the keys are a proper subset of the columns *)
Theorem C11_groupby_sizes_sum by_ t kt subs : nonkey (all_if_none by_ t) t <> [] -> groupby by_ t = Some (kt, subs) ->
  fold_right (fun s n => (nrows s + n)%nat) 0%nat subs = nrows t /\ length (match kt with [] => [] | cv :: _ => snd cv end) = length subs.
Proof. exact (groupby_sizes_sum by_ t kt subs). Qed.
Print Assumptions C11_groupby_sizes_sum.

(* ungroup(groupby(keys)) restores the rows of the table: the non-key columns are exactly those of t at a permutation idx of the
   row indices, the key columns are rebuilt from key tuples comparing 0 with each row's own key; if == keys are identical the
   rows of the result are a Permutation of the rows of t (columns: non-key first, then the keys). *)
Theorem C11_ungroup_groupby by_ t n kt subs : by_ <> [] -> nrows t <> 0%nat -> nonkey by_ t <> [] -> rect n t -> NoDup (map fst t) ->
  groupby by_ t = Some (kt, subs) ->
  let ks := keys_of by_ t in let idx := dsort_idx ks in
  eq_cmp_compat ks ->
  exists reps, length reps = nrows t /\ Forall2 (fun i rep => cmp (nth i ks VNone) rep = 0) idx reps /\
    ungroup kt subs = nonkey by_ (permute t idx) ++ rep_table by_ reps /\ Permutation idx (seq 0 (nrows t)) /\
    (keys_exact ks -> Forall (fun c => in_names c (map fst t) = true) by_ ->
       ungroup kt subs = permute (nonkey by_ t ++ keypart by_ t) idx /\
       Permutation (rows (ungroup kt subs)) (rows (nonkey by_ t ++ keypart by_ t))).
Proof.
  intros Hby Hn Hnk Hr ND Gb ks idx Hc. exists (reps_of (listby_groups ks)).
  assert (LK : length ks = nrows t) by (unfold ks, keys_of; apply keys_length).
  split; [rewrite reps_length; exact LK|]. split; [exact (reps_match ks Hc)|].
  split; [exact (ungroup_groupby_table by_ t kt subs Hby Hn Hnk ND Gb)|].
  destruct (dsort_idx_stable ks) as [P _]. rewrite LK in P. split; [exact P|].
  intros Hx Hsub. exact (ungroup_groupby_exact by_ t Hby Hn Hnk Hsub Hc Hx n kt subs Hr ND Gb).
Qed.
Print Assumptions C11_ungroup_groupby.

(* pivot: the result has one row per distinct x key (strictly increasing under cmp) and one column per distinct y value
   (labels strictly increasing under cmp); the cell of x-group gi and label number k is agg applied to the z values of EXACTLY
   the rows of t whose x key compares 0 with the group's key and whose y compares 0 with the label, in original row order,
   and None when there is no such row; every row of t has such a cell.
   Only hypothesis: the y cells are NaN-free scalars (xyz looks the y value up in a dict, i.e. by ==/hash, where a NaN finds nothing);
   x cells and z cells are ANY values - NaN objects of different identity in x are one key, as in the code. *)
Theorem C11_pivot_cell x y z a t : Forall scalar_nf (getcol t y) ->
  let KS := keys_of (x ++ [y]) t in let m := length x in let xg := pv_xg m KS in let YL := pv_ylabels m KS in let zs := getcol t z in
  pivot x y z a t = key_table x xg ++ map (fun kl => (label_of (snd kl), map (fun gi => pv_cell m KS zs a gi (fst kl)) xg)) (combine (seq 0 (length YL)) YL) /\
  StronglySorted (fun a b => cmp a b < 0) (map fst xg) /\ StronglySorted (fun a b => cmp a b < 0) YL /\
  (forall gi k, In gi xg -> (k < length YL)%nat ->
     pv_cell m KS zs a gi k =
     match filter (fun i => (cmp (key_cols x (row t i)) (fst gi) =? 0) && (cmp (lookup (row t i) y) (nth k YL VNone) =? 0)) (seq 0 (nrows t)) with
     | [] => VNone
     | R => apply_agg a (gather VNone zs R)
     end) /\
  (forall i, (i < nrows t)%nat -> exists gi k, In gi xg /\ (k < length YL)%nat /\
     cmp (key_cols x (row t i)) (fst gi) = 0 /\ cmp (lookup (row t i) y) (nth k YL VNone) = 0).
Proof. exact (pivot_cell_table x y z a t). Qed.
Print Assumptions C11_pivot_cell.

(* unpivot(pivot): for a table with unique (x, y) pairs and z never None, pivoted with last / first.
   The unpivoted table has one row per (x group, y label), row-major: the group's x cells, the label as a string (y rendered as
   column label), and the pivot cell.  A row whose cell is None stands for no row of t; every other row is exactly one row i of t
   (x key and y compare 0, z identical, and it is the only such row of t); every row of t is recovered this way.
   So dropping the None rows leaves the (x, y, z) rows of t, each once. *)
Theorem C11_unpivot_pivot x y z a t : x <> [] -> NoDup x -> Forall scalar_nf (getcol t y) -> (a = ALast \/ a = AFirst) ->
  (forall i i', (i < nrows t)%nat -> (i' < nrows t)%nat ->
     cmp (key_cols (x ++ [y]) (row t i)) (key_cols (x ++ [y]) (row t i')) = 0 -> i = i') ->
  (forall i, (i < nrows t)%nat -> nth i (getcol t z) VNone <> VNone) ->
  let KS := keys_of (x ++ [y]) t in let m := length x in let xg := pv_xg m KS in let YL := pv_ylabels m KS in let zs := getcol t z in
  Forall (fun l => in_names (label_of l) x = false) YL ->
  unpivot x y z (pivot x y z a t) =
    map (fun jc => (snd jc, flat_map (fun gi : val * list nat => repeat (tuple_nth (fst jc) (fst gi)) (length YL)) xg)) (combine (seq 0 (length x)) x)
    ++ [(y, flat_map (fun _ : val * list nat => map (fun l => VStr (label_of l)) YL) xg);
        (z, flat_map (fun gi => map (fun k => pv_cell m KS zs a gi k) (seq 0 (length YL))) xg)] /\
  StronglySorted (fun a b => cmp a b < 0) (map fst xg) /\ StronglySorted (fun a b => cmp a b < 0) YL /\
  (forall gi k, In gi xg -> (k < length YL)%nat ->
     let matches i := cmp (key_cols x (row t i)) (fst gi) = 0 /\ cmp (lookup (row t i) y) (nth k YL VNone) = 0 in
     (pv_cell m KS zs a gi k = VNone /\ forall i, (i < nrows t)%nat -> ~ matches i) \/
     (exists i, (i < nrows t)%nat /\ matches i /\ pv_cell m KS zs a gi k = nth i zs VNone /\ pv_cell m KS zs a gi k <> VNone /\
                forall i', (i' < nrows t)%nat -> matches i' -> i' = i)) /\
  (forall i, (i < nrows t)%nat -> exists gi k, In gi xg /\ (k < length YL)%nat /\
     cmp (key_cols x (row t i)) (fst gi) = 0 /\ cmp (lookup (row t i) y) (nth k YL VNone) = 0 /\ pv_cell m KS zs a gi k = nth i zs VNone).
Proof.
  intros Hx ND H Ha U ZN KS m xg YL zs NC.
  destruct (pivot_cell_table x y z a t H) as [_ [SX [SY [_ HC]]]]. fold KS m xg YL zs in SX, SY, HC.
  pose proof (pivot_cell_unique x y z a t H Ha U) as PU. cbv zeta in PU. fold KS m xg YL zs in PU.
  split; [exact (unpivot_pivot_table x y z a t Hx ND NC)|]. split; [exact SX|]. split; [exact SY|]. split.
  - intros gi k Hgi Hk matches. destruct (PU gi k Hgi Hk) as [L|[i [Hi [Mi [Ei Ui]]]]]; [left; exact L|].
    right. exists i. split; [exact Hi|]. split; [exact Mi|]. split; [exact Ei|]. split; [rewrite Ei; apply ZN; exact Hi | exact Ui].
  - intros i Hi. destruct (HC i Hi) as [gi [k [Hgi [Hk [A B]]]]]. exists gi, k. split; [exact Hgi|]. split; [exact Hk|]. split; [exact A|]. split; [exact B|].
    destruct (PU gi k Hgi Hk) as [[_ L]|[i0 [Hi0 [Mi0 [Ei0 Ui0]]]]]; [exfalso; apply (L i Hi); split; assumption|].
    rewrite Ei0. f_equal. symmetry. apply Ui0; [exact Hi | split; assumption].
Qed.
Print Assumptions C11_unpivot_pivot.

(* ... as a Permutation: when moreover == x keys / y values are identical (no 1 next to 1.0, one NaN object per key) and different
   y values have different labels, the rows of unpivot(pivot t) whose z is not None are a Permutation of the
   (x key, y label, z) rows of t; u_triples are exactly the rows of the unpivoted table, column by column. *)
Theorem C11_unpivot_pivot_perm x y z a t : x <> [] -> NoDup x -> Forall scalar_nf (getcol t y) -> (a = ALast \/ a = AFirst) ->
  (forall i i', (i < nrows t)%nat -> (i' < nrows t)%nat ->
     cmp (key_cols (x ++ [y]) (row t i)) (key_cols (x ++ [y]) (row t i')) = 0 -> i = i') ->
  (forall i, (i < nrows t)%nat -> nth i (getcol t z) VNone <> VNone) ->
  (forall i i', (i < nrows t)%nat -> (i' < nrows t)%nat ->
     cmp (key_cols x (row t i)) (key_cols x (row t i')) = 0 -> key_cols x (row t i) = key_cols x (row t i')) ->
  (forall i i', (i < nrows t)%nat -> (i' < nrows t)%nat ->
     cmp (lookup (row t i) y) (lookup (row t i') y) = 0 -> lookup (row t i) y = lookup (row t i') y) ->
  (forall i i', (i < nrows t)%nat -> (i' < nrows t)%nat ->
     label_of (lookup (row t i) y) = label_of (lookup (row t i') y) -> lookup (row t i) y = lookup (row t i') y) ->
  let KS := keys_of (x ++ [y]) t in let m := length x in let zs := getcol t z in
  Forall (fun l => in_names (label_of l) x = false) (pv_ylabels m KS) ->
  Permutation (filter z_some (u_triples m KS zs a)) (t_triples x y z t) /\
  unpivot x y z (pivot x y z a t) =
    map (fun jc => (snd jc, map (fun tr : val * val * val => tuple_nth (fst jc) (fst (fst tr))) (u_triples m KS zs a))) (combine (seq 0 (length x)) x)
    ++ [(y, map (fun tr : val * val * val => snd (fst tr)) (u_triples m KS zs a)); (z, map (fun tr : val * val * val => snd tr) (u_triples m KS zs a))].
Proof.
  intros Hx ND Hy Ha U ZN EXx EXy LI KS m zs NC.
  split; [exact (unpivot_pivot_perm x y z a t Hy Ha U ZN EXx EXy LI) | exact (unpivot_pivot_columns x y z a t Hx ND NC)].
Qed.
Print Assumptions C11_unpivot_pivot_perm.

(* the hypotheses are satisfiable on non-trivial tables (mixed types, 1 vs 1.0, a shared NaN), and the model computes what the code does *)
Example C11_example :
  let t : table := [([97%N], [VNum false 2; VStr [120%N]; VNum true 2; VNone; VStr [120%N]; VNaN 0; VNaN 0]);
                    ([98%N], [VNum false 2; VNum false 4; VNum false 6; VNum false 8; VNum false 10; VNum false 12; VNum false 14])] in
  let u : table := [([97%N], [VNum false 2; VStr [120%N]; VNum false 2; VNone; VStr [120%N]]);
                    ([98%N], [VNum false 2; VNum false 4; VNum false 6; VNum false 8; VNum false 10])] in
  eq_cmp_compat (keys_of [[97%N]] t) /\ nonkey [[97%N]] t <> [] /\ scalar_table t /\ rect 7 t /\ NoDup (map fst t) /\
  listby [[97%N]] t = [([97%N], [VNone; VNum true 2; VNaN 0; VStr [120%N]]);
                      ([98%N], [VList [VNum false 8]; VList [VNum false 2; VNum false 6]; VList [VNum false 12; VNum false 14]; VList [VNum false 4; VNum false 10]])] /\
  unlist (listby [[97%N]] t) = [([97%N], [VNone; VNum true 2; VNum true 2; VNaN 0; VNaN 0; VStr [120%N]; VStr [120%N]]);
                               ([98%N], [VNum false 8; VNum false 2; VNum false 6; VNum false 12; VNum false 14; VNum false 4; VNum false 10])] /\
  eq_cmp_compat (keys_of [[97%N]] u) /\ keys_exact (keys_of [[97%N]] u) /\ Forall (fun c => in_names c (map fst u) = true) [[97%N]] /\
  unlist (listby [[97%N]] u) = permute u [3; 0; 2; 1; 4]%nat.
Proof.
  cbv zeta.
  split. { intros a b Ha Hb. vm_compute in Ha, Hb.
    repeat (destruct Ha as [<-|Ha]; [repeat (destruct Hb as [<-|Hb]; [vm_compute; split; congruence|]); destruct Hb|]); destruct Ha. }
  split; [vm_compute; congruence|]. split; [repeat constructor|]. split; [repeat constructor|].
  split. { repeat constructor; cbn; intuition congruence. }
  split; [vm_compute; reflexivity|]. split; [vm_compute; reflexivity|].
  split. { intros a b Ha Hb. vm_compute in Ha, Hb.
    repeat (destruct Ha as [<-|Ha]; [repeat (destruct Hb as [<-|Hb]; [vm_compute; split; congruence|]); destruct Hb|]); destruct Ha. }
  split. { intros a b Ha Hb. vm_compute in Ha, Hb.
    repeat (destruct Ha as [<-|Ha]; [repeat (destruct Hb as [<-|Hb]; [vm_compute; intros C; try reflexivity; try discriminate C|]); destruct Hb|]); destruct Ha. }
  split; [repeat constructor|]. vm_compute. reflexivity.
Qed.

(* pivot / unpivot on a concrete table: x = a, y = c, z = b *)
Example C11_pivot_example :
  let t : table := [([97%N], [VNum false 2; VStr [120%N]; VNum false 2; VNone; VStr [120%N]]);
                    ([98%N], [VNum false 2; VNum false 4; VNum false 6; VNum false 8; VNum false 10]);
                    ([99%N], [VStr [112%N]; VStr [113%N]; VStr [113%N]; VStr [113%N]; VStr [114%N]])] in
  Forall scalar_nf (getcol t [99%N]) /\ NoDup [[97%N]] /\
  Forall (fun l => in_names (label_of l) [[97%N]] = false) (pv_ylabels 1 (keys_of [[97%N]; [99%N]] t)) /\
  (forall i i', (i < nrows t)%nat -> (i' < nrows t)%nat -> cmp (key_cols [[97%N]; [99%N]] (row t i)) (key_cols [[97%N]; [99%N]] (row t i')) = 0 -> i = i') /\
  pivot [[97%N]] [99%N] [98%N] ALast t =
    [([97%N], [VNone; VNum false 2; VStr [120%N]]); ([112%N], [VNone; VNum false 2; VNone]);
     ([113%N], [VNum false 8; VNum false 6; VNum false 4]); ([114%N], [VNone; VNone; VNum false 10])] /\
  unpivot [[97%N]] [99%N] [98%N] (pivot [[97%N]] [99%N] [98%N] ALast t) =
    [([97%N], [VNone; VNone; VNone; VNum false 2; VNum false 2; VNum false 2; VStr [120%N]; VStr [120%N]; VStr [120%N]]);
     ([99%N], [VStr [112%N]; VStr [113%N]; VStr [114%N]; VStr [112%N]; VStr [113%N]; VStr [114%N]; VStr [112%N]; VStr [113%N]; VStr [114%N]]);
     ([98%N], [VNone; VNum false 8; VNone; VNum false 2; VNum false 6; VNone; VNone; VNum false 4; VNum false 10])].
Proof.
  cbv zeta. split; [repeat constructor|]. split; [repeat constructor; cbn; tauto|].
  split; [match goal with |- Forall _ ?l => let l' := eval vm_compute in l in change l with l' end; repeat constructor|].
  split; [|split; vm_compute; reflexivity].
  intros i i' Hi Hi'. cbn in Hi, Hi'.
  do 5 (destruct i as [|i]; [do 5 (destruct i' as [|i']; [vm_compute; intros C; try reflexivity; try discriminate C|]); exfalso; lia|]); exfalso; lia.
Qed.

(* NaN x keys of different identity are one pivot row, as in the code (cmp(nan, nan) == 0) *)
Example C11_pivot_nan_example :
  let t : table := [([97%N], [VNaN 0; VNum false 2; VNaN 1]); ([98%N], [VNum false 2; VNum false 4; VNum false 6]); ([99%N], [VStr [112%N]; VStr [112%N]; VStr [113%N]])] in
  Forall scalar_nf (getcol t [99%N]) /\
  pivot [[97%N]] [99%N] [98%N] ALast t = [([97%N], [VNum false 2; VNaN 1]); ([112%N], [VNum false 4; VNum false 2]); ([113%N], [VNone; VNum false 6])].
Proof. cbv zeta. split; [repeat constructor | vm_compute; reflexivity]. Qed.

(* the extra hypotheses of C11_unpivot_pivot_perm are satisfiable (same table as C11_pivot_example) *)
Example C11_perm_hyps_example :
  let t : table := [([97%N], [VNum false 2; VStr [120%N]; VNum false 2; VNone; VStr [120%N]]);
                    ([98%N], [VNum false 2; VNum false 4; VNum false 6; VNum false 8; VNum false 10]);
                    ([99%N], [VStr [112%N]; VStr [113%N]; VStr [113%N]; VStr [113%N]; VStr [114%N]])] in
  (forall i i', (i < nrows t)%nat -> (i' < nrows t)%nat ->
     cmp (key_cols [[97%N]] (row t i)) (key_cols [[97%N]] (row t i')) = 0 -> key_cols [[97%N]] (row t i) = key_cols [[97%N]] (row t i')) /\
  (forall i i', (i < nrows t)%nat -> (i' < nrows t)%nat ->
     cmp (lookup (row t i) [99%N]) (lookup (row t i') [99%N]) = 0 -> lookup (row t i) [99%N] = lookup (row t i') [99%N]) /\
  (forall i i', (i < nrows t)%nat -> (i' < nrows t)%nat ->
     label_of (lookup (row t i) [99%N]) = label_of (lookup (row t i') [99%N]) -> lookup (row t i) [99%N] = lookup (row t i') [99%N]) /\
  (forall i, (i < nrows t)%nat -> nth i (getcol t [98%N]) VNone <> VNone).
Proof.
  cbv zeta. repeat split;
    try (intros i i' Hi Hi'; cbn in Hi, Hi';
         do 5 (destruct i as [|i]; [do 5 (destruct i' as [|i']; [vm_compute; intros C; try reflexivity; try discriminate C|]); exfalso; lia|]); exfalso; lia).
  intros i Hi. cbn in Hi. do 5 (destruct i as [|i]; [vm_compute; discriminate|]). exfalso; lia.
Qed.
